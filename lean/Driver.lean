import SnootyVerif.Drv.C09
import SnootyVerif.Drv.C06
import SnootyVerif.Drv.C07
import SnootyVerif.Drv.C15
import SnootyVerif.Drv.C20
import SnootyVerif.Drv.C19
import SnootyVerif.Drv.C17
import SnootyVerif.Drv.C10
import SnootyVerif.Drv.C16
import SnootyVerif.Drv.C13
import SnootyVerif.Drv.C18
import SnootyVerif.Drv.C12
import SnootyVerif.Drv.C08
import SnootyVerif.Drv.C05
import SnootyVerif.Drv.C14
import SnootyVerif.Drv.C02
import SnootyVerif.Drv.C04
import SnootyVerif.Drv.C11
import SnootyVerif.Drv.C01
import SnootyVerif.Drv.C03
open Lean SnootyVerif.Drv

/-- every `Drv/Cxx.lean` exports `ops`; add the import above and one line here. -/
def allOps : List (String × (Json → Except String Json)) :=
  C09.ops ++ C06.ops ++ C07.ops ++ C15.ops ++ C20.ops ++ C19.ops ++ C17.ops ++ C10.ops ++ C16.ops ++ C13.ops ++ C18.ops ++ C12.ops ++ C08.ops ++ C05.ops ++ C14.ops ++ C02.ops ++ C04.ops ++ C11.ops ++ C01.ops ++ C03.ops

def dispatch (op : String) (j : Json) : Except String Json :=
  match allOps.lookup op with
  | some f => f j
  | none => .error s!"unknown op {op}"

def handleLine (line : String) : String :=
  match Json.parse line with
  | .error e => (Json.mkObj [("error", Json.str e), ("error_kind", "driver")]).compress
  | .ok j =>
    match j.getObjValAs? String "op" with
    | .error e => (Json.mkObj [("error", Json.str e), ("error_kind", "driver")]).compress
    | .ok op =>
      match dispatch op j with
      | .ok r => r.compress
      | .error e => (Json.mkObj [("error", Json.str e), ("error_kind", "driver")]).compress

partial def loop (h : IO.FS.Stream) (out : IO.FS.Stream) : IO Unit := do
  let line ← h.getLine
  if line.isEmpty then return ()
  out.putStrLn (handleLine line)
  loop h out

def main : IO Unit := do
  let out ← IO.getStdout
  loop (← IO.getStdin) out
  out.flush
