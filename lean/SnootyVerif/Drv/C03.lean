import SnootyVerif.Drv.Util
import SnootyVerif.Model.Indent
import SnootyVerif.Model.Sections
import SnootyVerif.Model.Escape
import SnootyVerif.Model.DocLang
open Lean
namespace SnootyVerif.Drv.C03
open SnootyVerif.Drv

/-- `str.isspace` on ASCII: TAB LF VT FF CR, FS GS RS US, SPACE -/
def asciiSpace (c : Char) : Bool :=
  let n := c.toNat
  (9 ≤ n && n ≤ 13) || (28 ≤ n && n ≤ 32)

def mkSpace (j : Json) : Char → Bool :=
  let sc := ((optStr j "spacechars").getD "").toList
  fun c => asciiSpace c || sc.contains c

def jlines (ls : List (List Char)) : Json := Json.arr (ls.map (fun l => Json.str (String.ofList l))).toArray
def jnat (n : Nat) : Json := Json.num (JsonNumber.fromNat n)
def jint (n : Int) : Json := Json.num (JsonNumber.fromInt n)

/-! ### indent kernels -/
open SnootyVerif.Indent in
def indentOp (j : Json) : Except String Json := do
  let isSpace := mkSpace j
  let data := (← strs j "lines").map String.toList
  let start ← nat j "start"
  let ub ← bool j "until_blank"
  let si ← bool j "strip_indent"
  let r := getIndented isSpace data start ub si (optNat j "block_indent") (optNat j "first_indent")
  pure (Json.mkObj [("block", jlines r.block), ("indent", jnat r.indent), ("blank_finish", Json.bool r.blankFinish),
    ("stop", jnat r.stop)])

open SnootyVerif.Indent in
def smOp (j : Json) : Except String Json := do
  let isSpace := mkSpace j
  let data := (← strs j "lines").map String.toList
  let sm : SM := ⟨data, ← nat j "line_offset", ← nat j "input_offset"⟩
  let ub ← bool j "until_blank"
  let si ← bool j "strip_indent"
  let which ← str j "which"
  let g ←
    if which == "indented" then pure (smGetIndented isSpace sm ub si)
    else if which == "known" then pure (smGetKnownIndented isSpace sm (← nat j "indent") ub si)
    else if which == "first_known" then
      pure (smGetFirstKnownIndented isSpace sm (← nat j "indent") ub si (← bool j "strip_top"))
    else throw s!"which {which}"
  pure (Json.mkObj [("block", jlines g.block), ("indent", jnat g.indent), ("offset", jnat g.offset),
    ("blank_finish", Json.bool g.blankFinish), ("line_offset", jint g.lineOffset)])

open SnootyVerif.Indent in
def textBlockOp (j : Json) : Except String Json := do
  let isSpace := mkSpace j
  let data := (← strs j "lines").map String.toList
  match getTextBlock isSpace data (← nat j "start") (← bool j "flush_left") with
  | .ok b => pure (Json.mkObj [("exc", Json.null), ("block", jlines b)])
  | .unexpectedIndentation b => pure (Json.mkObj [("exc", "UnexpectedIndentationError"), ("block", jlines b)])

open SnootyVerif.Indent in
def trimLeftOp (j : Json) : Except String Json := do
  let data := (← strs j "lines").map String.toList
  pure (Json.mkObj [("lines", jlines (trimLeft (← nat j "length") (← nat j "start") (optNat j "end") data))])

/-! ### title skeletons -/
open SnootyVerif.Sections in
partial def nodeJson : Node → Json
  | .other => "o"
  | .inconsistent => "x"
  | .sec ks => Json.arr (ks.map nodeJson).toArray

open SnootyVerif.Sections in
def styleJson (s : Style) : Json :=
  Json.str (String.ofList (s.underline :: (match s.overline with | some c => [c] | none => [])))

open SnootyVerif.Sections in
def sectionsOp (j : Json) : Except String Json := do
  let evs ← (← arr j "events").toList.mapM (fun e => do
    match e with
    | .str s =>
      match s.toList with
      | [] => pure Ev.other
      | [u] => pure (Ev.title ⟨u, none⟩)
      | u :: o :: _ => pure (Ev.title ⟨u, some o⟩)
    | _ => throw "event")
  let r := parseSkeleton evs
  pure (Json.mkObj [("doc", Json.arr (r.doc.map nodeJson).toArray),
    ("styles", Json.arr (r.styles.map styleJson).toArray), ("halted", Json.bool r.halted)])

/-! ### escapes -/
open SnootyVerif.Escape in
def escapeOp (j : Json) : Except String Json := do
  let isSpace := mkSpace j
  let t := (← str j "text").toList
  let et := parseExplicitTitle isSpace t
  pure (Json.mkObj [
    ("escape2null", Json.str (String.ofList (escape2null t))),
    ("unescape", Json.str (String.ofList (unescape t false))),
    ("unescape_restore", Json.str (String.ofList (unescape t true))),
    ("roundtrip", Json.str (String.ofList (unescape (escape2null t) false))),
    ("unescape_backslashes", Json.str (String.ofList (unescapeBackslashes t))),
    ("explicit_title", Json.arr #[Json.str (String.ofList et.1),
        match et.2 with | some l => Json.str (String.ofList l) | none => Json.null])])

/-! ### the language model -/
open SnootyVerif.DocLang

def toVal (j : Json) : Val := .raw j.compress

def parseRoleSpec (j : Json) : Except String RoleSpec := do
  pure { kind := ← str j "kind", domain := ← str j "domain", name := ← str j "name",
         pre := (optStr j "pre").getD "", post := (optStr j "post").getD "", fmt := optStr j "fmt" }

def parseInl (j : Json) : Except String Inl := do
  let k ← str j "k"
  if k == "text" then pure (.text (← str j "s"))
  else if k == "esc" then pure (.esc (← str j "c"))
  else if k == "sp" then pure .sp
  else if k == "nl" then pure .nl
  else if k == "escnl" then pure .escnl
  else if k == "emph" then pure (.emph (← str j "s"))
  else if k == "strong" then pure (.strong (← str j "s"))
  else if k == "literal" then pure (.literal (← str j "s"))
  else if k == "role" then
    pure (.role (← str j "markup") (optStr j "label") (← str j "target") (← parseRoleSpec (← j.getObjVal? "spec")))
  else if k == "extref" then pure (.extref (← str j "label") (← str j "uri"))
  else if k == "roleL" then
    pure (.roleL (← str j "markup") (← str j "labelSrc") (← str j "labelTxt") (← str j "target") (← parseRoleSpec (← j.getObjVal? "spec")))
  else if k == "footref" then pure (.footref (← str j "name"))
  else if k == "subref" then pure (.subref (← str j "name"))
  else if k == "namedref" then pure (.namedref (← str j "name"))
  else throw s!"inline kind {k}"

def parseInls (j : Json) (k : String) : Except String (List Inl) := do
  (← arr j k).toList.mapM parseInl

def parseOpts (j : Json) : Except String (List (String × String × Val)) := do
  match j.getObjVal? "opts" with
  | .error _ => pure []
  | .ok o =>
    match o with
    | .arr a => a.toList.mapM (fun e => do
        match e with
        | .arr #[.str k, .str raw, v] => pure (k, raw, toVal v)
        | _ => throw "opt entry")
    | _ => throw "opts"

def parseSeq (s : String) : Except String EnumSeq :=
  if s == "arabic" then pure .arabic else if s == "loweralpha" then pure .loweralpha
  else if s == "upperalpha" then pure .upperalpha else if s == "lowerroman" then pure .lowerroman
  else if s == "upperroman" then pure .upperroman else throw s!"seq {s}"

def parseFmt (s : String) : Except String EnumFmt :=
  if s == "period" then pure .period else if s == "rparen" then pure .rparen
  else if s == "parens" then pure .parens else throw s!"fmt {s}"

def firstChar (s : String) : Char := match s.toList with | c :: _ => c | [] => '='

partial def parseBlk (j : Json) : Except String Blk := do
  let k ← str j "k"
  let kids (key : String) : Except String (List Blk) := do (← arr j key).toList.mapM parseBlk
  if k == "para" then pure (.para (← parseInls j "xs"))
  else if k == "section" then
    pure (.section (← parseInls j "title") (firstChar (← str j "style")) (← bool j "over") (← kids "kids"))
  else if k == "bullet" then pure (.bullet (firstChar (← str j "marker")) (← kids "items"))
  else if k == "enumerated" then
    pure (.enumerated (← parseSeq (← str j "seq")) (← parseFmt (← str j "fmt")) (← nat j "start") (← bool j "auto")
      (← kids "items"))
  else if k == "item" then pure (.item (← kids "kids"))
  else if k == "deflist" then pure (.deflist (← kids "items"))
  else if k == "defitem" then pure (.defitem (← parseInls j "term") (← kids "kids"))
  else if k == "lineblock" then
    pure (.lineblock (← (← arr j "lines").toList.mapM (fun l => do
      match l with
      | .arr a => a.toList.mapM parseInl
      | _ => throw "lineblock line")))
  else if k == "comment" then pure (.comment (← strs j "lines"))
  else if k == "label" then pure (.label (← str j "name"))
  else if k == "directive" then
    pure (.directive (← str j "name") (← str j "domain") (← parseInls j "arg") (← parseOpts j) (← kids "kids"))
  else if k == "code" then
    let attrs ← match j.getObjVal? "attrs" with
      | .ok (.arr a) => a.toList.mapM (fun e => do
          match e with
          | .arr #[.str k, v] => pure (k, toVal v)
          | _ => throw "attr entry")
      | _ => pure []
    pure (.code (← str j "dirname") (optStr j "lang") (← parseOpts j) attrs (← strs j "lines"))
  else if k == "transition" then pure (.transition (firstChar (← str j "style")) (← nat j "len"))
  else if k == "footnote" then pure (.footnote (← str j "name") (← kids "kids"))
  else if k == "substdef" then pure (.substdef (← str j "name") (← parseInls j "xs"))
  else if k == "blocksub" then pure (.blocksub (← str j "name"))
  else if k == "namedtarget" then pure (.namedtarget (← str j "name") (← str j "uri"))
  else if k == "directiveML" then
    let nl := match j.getObjValAs? Bool "nextLine" with | .ok b => b | .error _ => false
    pure (.directiveML (← str j "name") (← str j "domain") nl (← parseInls j "arg") (← kids "kids"))
  else throw s!"block kind {k}"

def valJson : Val → Json
  | .str s => Json.str s
  | .int n => jint n
  | .bool b => Json.bool b
  | .null => Json.null
  | .raw s => match Json.parse s with | .ok j => j | .error _ => Json.str s

partial def enodeJson : ENode → Json
  | .mk kind attrs claim kids =>
    Json.mkObj [("kind", Json.str kind),
      ("attrs", Json.mkObj (attrs.map (fun a => (a.1, valJson a.2)))),
      ("line", match claim with | some c => jnat c.1 | none => Json.null),
      ("src", match claim with | some c => Json.str c.2 | none => Json.null),
      ("kids", Json.arr (kids.map enodeJson).toArray)]

def parseLayout (j : Json) : Layout :=
  { gap := (optNat j "gap").getD 0, gapMod := (optNat j "gapMod").getD 0,
    bodyIndent := (optNat j "bodyIndent").getD 3, bulletPad := (optNat j "bulletPad").getD 1,
    afterTitle := (optNat j "afterTitle").getD 1, underExtra := (optNat j "underExtra").getD 0,
    itemGap := (optNat j "itemGap").getD 0,
    padBlank := match j.getObjVal? "padBlank" with | .ok (.bool b) => b | _ => false,
    trailing := (optNat j "trailing").getD 0 }

def renderOp (j : Json) : Except String Json := do
  let ℓ := parseLayout ((j.getObjVal? "layout").toOption.getD (Json.mkObj []))
  let bs ← (← arr j "blocks").toList.mapM parseBlk
  let o := emitDoc ℓ bs
  pure (Json.mkObj [("lines", jstrs o.lines), ("expected", Json.arr (o.nodes.map enodeJson).toArray)])

def enumOp (j : Json) : Except String Json := do
  let seq ← parseSeq (← str j "seq")
  let fmt ← parseFmt (← str j "fmt")
  pure (Json.mkObj [("marker", Json.str (enumMarker fmt (enumText seq (← nat j "n"))))])

def asciiOp (_ : Json) : Except String Json :=
  pure (Json.mkObj [("space", Json.arr (((List.range 128).filter (fun n => asciiSpace (Char.ofNat n))).map jnat).toArray)])

def ops : List (String × (Json → Except String Json)) :=
  [("c03.indent", indentOp), ("c03.sm", smOp), ("c03.textblock", textBlockOp), ("c03.trimleft", trimLeftOp),
   ("c03.sections", sectionsOp), ("c03.escape", escapeOp), ("c03.render", renderOp), ("c03.enum", enumOp),
   ("c03.ascii", asciiOp)]

end SnootyVerif.Drv.C03
