import SnootyVerif.Drv.Util
import SnootyVerif.Model.Schema
import SnootyVerif.Gen.Schema
open Lean
namespace SnootyVerif.Drv.C04
open SnootyVerif.Drv
open SnootyVerif.Schema (Val Vals Flds Ast JList JKvs PyErr ClassInfo Kind Schema)
abbrev MJson := SnootyVerif.Schema.Json

/-! ## codecs (not part of the model) -/

instance : Inhabited MJson := ⟨.null⟩
instance : Inhabited Val := ⟨.none⟩
instance : Inhabited Vals := ⟨.nil⟩
instance : Inhabited Flds := ⟨.nil⟩
instance : Inhabited Ast := ⟨.mk "" "" .none .nil⟩

partial def toModel : Lean.Json → MJson
  | .null => .null
  | .bool b => .bool b
  | .num n => .num n.mantissa n.exponent
  | .str s => .str s
  | .arr a => .arr (a.toList.foldr (fun x acc => .cons (toModel x) acc) .nil)
  | .obj o => .obj (o.toList.foldr (fun (k, v) acc => .cons k (toModel v) acc) .nil)

mutual
partial def ofModel : MJson → Lean.Json
  | .null => .null
  | .bool b => .bool b
  | .num m e => .num ⟨m, e⟩
  | .str s => .str s
  | .arr xs => .arr (ofList xs).toArray
  | .obj kvs => Lean.Json.mkObj (ofKvs kvs)
partial def ofList : JList → List Lean.Json
  | .nil => []
  | .cons x xs => ofModel x :: ofList xs
partial def ofKvs : JKvs → List (String × Lean.Json)
  | .nil => []
  | .cons k v rest => (k, ofModel v) :: ofKvs rest
end

def optS (j : Lean.Json) : Option String :=
  match j with
  | .str s => some s
  | _ => none

mutual
partial def decVal (j : Lean.Json) : Except String Val := do
  let t ← str j "t"
  match t with
  | "none" => pure .none
  | "bool" => pure (.bool (← bool j "v"))
  | "int" => pure (.int (← int j "v"))
  | "float" => pure (.float (← int j "m") (← nat j "e"))
  | "str" => pure (.str (← str j "v"))
  | "fileid" => pure (.fileid (← str j "v"))
  | "enum" => pure (.enum (← str j "v"))
  | "other" => pure (.other (← str j "v"))
  | "list" => pure (.list (← decVals (← arr j "v").toList))
  | "tuple" => pure (.tuple (← decVals (← arr j "v").toList))
  | "dict" => pure (.dict (← decFlds (← arr j "v").toList))
  | "entry" =>
    match (← arr j "v").toList with
    | [a, b, c, d] => pure (.entry (optS a) (optS b) (optS c) (optS d))
    | _ => throw "entry needs 4 members"
  | "node" => pure (.node (← decAst j))
  | _ => throw s!"unknown value tag {t}"
partial def decVals : List Lean.Json → Except String Vals
  | [] => pure .nil
  | x :: xs => do pure (.cons (← decVal x) (← decVals xs))
partial def decFlds : List Lean.Json → Except String Flds
  | [] => pure .nil
  | x :: xs => do
    match x with
    | .arr #[.str k, v] => pure (.cons k (← decVal v) (← decFlds xs))
    | _ => throw "field needs [name, value]"
partial def decAst (j : Lean.Json) : Except String Ast := do
  let cls ← str j "cls"
  let tag ← str j "tag"
  let span ← decVal (← j.getObjVal? "span")
  let fields ← decFlds (← arr j "fields").toList
  pure (.mk cls tag span fields)
end

def errName : PyErr → String
  | .NotImplementedError => "NotImplementedError"
  | .IndexError => "IndexError"
  | .TypeError => "TypeError"
  | .EncodeError => "EncodeError"

/-! ## ops -/

def schema : Schema := SnootyVerif.Gen.schema

def tagOf (j : MJson) : Option String :=
  match j with
  | .obj kvs => match kvs.lookup "type" with
    | some (.str t) => some t
    | _ => none
  | _ => none

def lineOf (j : MJson) : Lean.Json :=
  match j with
  | .obj kvs => match kvs.lookup "position" with
    | some (.obj p) => match p.lookup "start" with
      | some (.obj st) => match st.lookup "line" with
        | some v => ofModel v
        | none => .null
      | _ => .null
    | _ => .null
  | _ => .null

def jlist : JList → List MJson
  | .nil => []
  | .cons x xs => x :: jlist xs
def jkvs : JKvs → List (String × MJson)
  | .nil => []
  | .cons k v rest => (k, v) :: jkvs rest

/-- why the node itself (its children being fine in themselves) is rejected -/
def whyNode (strict : Bool) (bound : String) (j : MJson) : String :=
  match j with
  | .obj kvs =>
    match kvs.lookup "type" with
    | some (.str tag) =>
      let cands := schema.classes.filter (fun c => c.tag == tag)
      if cands.isEmpty then s!"unknown type {tag}"
      else if cands.all (·.internal) then s!"internal bookkeeping node {tag}"
      else if !SnootyVerif.Schema.posOk (kvs.lookup "position") then s!"{tag}: position.start.line is not an integer"
      else
        let cands2 := cands.filter (fun c => c.mro.contains bound)
        match cands2 with
        | [] => s!"{tag} is not a {bound}"
        | _ =>
          let reasons := cands2.map (fun c =>
            let missing := c.fields.filter (fun f => c.isRequired f.1 && !kvs.hasKey f.1)
            match missing with
            | f :: _ => s!"{c.name}: required field {f.1} missing"
            | [] =>
              let bad := (jkvs kvs).filter (fun (k, v) => !SnootyVerif.Schema.wfJKvs schema strict c (.cons k v .nil))
              match bad with
              | (k, v) :: _ =>
                match c.kindOf k with
                | none => s!"{c.name}: unexpected key {k}"
                | some (.nodes b) =>
                  match v with
                  | .arr xs =>
                    let tags := (jlist xs).filterMap (fun x =>
                      if SnootyVerif.Schema.wfJson schema strict b x then none else some ((tagOf x).getD "?"))
                    s!"{c.name}.{k}: holds {tags} where only {b} is allowed"
                  | _ => s!"{c.name}.{k}: not a list"
                | some kd => s!"{c.name}.{k}: value does not fit {repr kd}"
              | [] =>
                if strict && !c.oneOf.isEmpty && !c.oneOf.any (fun k => kvs.hasKey k) then
                  s!"{c.name}: none of {c.oneOf} is set"
                else s!"{c.name}: ?")
          String.intercalate " | " reasons
    | _ => "node without a type"
  | _ => "not an object"

/-- descend to the deepest node that is rejected although all its child nodes are fine in themselves -/
partial def firstBad (strict : Bool) (bound : String) (path : String) (j : MJson) : Option (String × String) :=
  if SnootyVerif.Schema.wfJson schema strict bound j then none
  else
    let sub : List (String × MJson) :=
      match j with
      | .obj kvs => (jkvs kvs).flatMap (fun (k, v) =>
          match v with
          | .arr xs => ((jlist xs).zipIdx).filterMap (fun (x, i) =>
              if (tagOf x).isSome then some (s!"{path}/{k}[{i}]", x) else none)
          | .obj _ => if (tagOf v).isSome then [(s!"{path}/{k}", v)] else []
          | _ => [])
      | _ => []
    match sub.findSome? (fun (p, x) => firstBad strict "Node" p x) with
    | some r => some r
    | none => some (path ++ ":" ++ ((tagOf j).getD "?"), whyNode strict bound j)

/-- ref_role-like nodes (classes with a `oneOf` demand) that carry none of the demanded keys: their lines -/
partial def undestined (j : MJson) : List Lean.Json :=
  match j with
  | .obj kvs =>
    let here :=
      match tagOf j with
      | some t =>
        if schema.classes.any (fun c => c.tag == t && !c.oneOf.isEmpty && !c.oneOf.any (fun k => kvs.hasKey k))
        then [lineOf j] else []
      | none => []
    here ++ (jkvs kvs).flatMap (fun (_, v) => undestined v)
  | .arr xs => (jlist xs).flatMap undestined
  | _ => []

/-- the same, but not descending into the root's `options` (ia / multi-page titles there are COPIES of headings of the
    body: the copy shares the one diagnostic of the reference it was copied from) -/
def undestinedBody (j : MJson) : List Lean.Json :=
  match j with
  | .obj kvs => (jkvs kvs).flatMap (fun (k, v) => if k == "options" then [] else undestined v)
  | _ => undestined j

/-- tags occurring in the document -/
partial def tagsIn (j : MJson) : List String :=
  match j with
  | .obj kvs => (match tagOf j with | some t => [t] | none => []) ++ (jkvs kvs).flatMap (fun (_, v) => tagsIn v)
  | .arr xs => (jlist xs).flatMap tagsIn
  | _ => []

/-- tags of the document that belong to a pinned class whose tag was changed (and are no published tag) -/
def unpinned (m : MJson) : List String :=
  let ren := schema.renamed.map (fun r => r.2.2)
  (tagsIn m).eraseDups.filter (fun t => ren.contains t && !(SnootyVerif.Schema.pinned.map (·.2)).contains t)

def wfjsonOp (j : Lean.Json) : Except String Lean.Json := do
  let doc ← j.getObjVal? "doc"
  let bound := (optStr j "bound").getD "Root"
  let m := toModel doc
  let ok := SnootyVerif.Schema.wfJson schema false bound m
  let okStrict := SnootyVerif.Schema.wfJson schema true bound m
  let bad := firstBad false bound "" m
  pure (Lean.Json.mkObj [
    ("ok", .bool ok), ("ok_strict", .bool okStrict),
    ("path", match bad with | some (p, _) => .str p | none => .null),
    ("why", match bad with | some (_, w) => .str w | none => .null),
    ("undestined", .arr (undestined m).toArray),
    ("undestined_body", .arr (undestinedBody m).toArray),
    ("unpinned", jstrs (unpinned m))])

def serializeOp (j : Lean.Json) : Except String Lean.Json := do
  let a ← decAst (← j.getObjVal? "ast")
  let bound := (optStr j "bound").getD "Node"
  let wf0 := SnootyVerif.Schema.wf schema false bound a
  let wf1 := SnootyVerif.Schema.wf schema true bound a
  let unk := SnootyVerif.Schema.hasUnknown a
  match SnootyVerif.Schema.serialize a with
  | .ok r =>
    pure (Lean.Json.mkObj [("ok", ofModel r), ("wf", .bool wf0), ("wf_strict", .bool wf1), ("unknown", .bool unk),
      ("wfjson", .bool (SnootyVerif.Schema.wfJson schema false bound r)),
      ("wfjson_strict", .bool (SnootyVerif.Schema.wfJson schema true bound r))])
  | .error e =>
    pure (Lean.Json.mkObj [("err", .str (errName e)), ("wf", .bool wf0), ("wf_strict", .bool wf1), ("unknown", .bool unk)])

/-- the table itself, for the harness (synthetic AST generator, evidence) -/
def schemaOp (_ : Lean.Json) : Except String Lean.Json :=
  pure (Lean.Json.mkObj [("classes", .arr (schema.classes.map (fun c =>
    Lean.Json.mkObj [("name", .str c.name), ("tag", .str c.tag), ("mro", jstrs c.mro),
      ("fields", .arr (c.fields.map (fun f => Lean.Json.arr #[.str f.1, .str (toString (repr f.2))])).toArray),
      ("oneOf", jstrs c.oneOf), ("internal", .bool c.internal)])).toArray)])

def ops : List (String × (Lean.Json → Except String Lean.Json)) :=
  [("c04.wfjson", wfjsonOp), ("c04.serialize", serializeOp), ("c04.schema", schemaOp)]

end SnootyVerif.Drv.C04
