import SnootyVerif.Drv.Util
import SnootyVerif.Model.Flutter
import SnootyVerif.Model.SpecInherit
import SnootyVerif.Model.Constants
import SnootyVerif.Gen.Types
open Lean
namespace SnootyVerif.Drv.C16
open SnootyVerif.Drv SnootyVerif.Flutter SnootyVerif.SpecInherit

/-! JSON codecs (driver only, not part of the model).
Val : {"t":"n"} {"t":"b","v":bool} {"t":"i","v":"<decimal>"} {"t":"f","v":"<repr>"} {"t":"s","v":str}
      {"t":"l","v":[…]} {"t":"d","v":[[key,val]…]} {"t":"o","cls":[mro names]}
Ty  : {"k":"str"|"int"|"float"|"bool"|"none"|"any"|"unsupported"} {"k":"enum","name":…,"members":[[name,"<int>"|null]…]}
      {"k":"cls","name":…} {"k":"list"|"set","t":…} {"k":"dict","key":…,"val":…} {"k":"tuple"|"union","ts":[…]}
      {"k":"record","name":…,"fields":[[name,ty,hasDefault]…],"post":null|"<field>"} {"k":"ref","name":"<Gen.Types name>"} -/

partial def valOfJson (j : Json) : Except String Val := do
  let t ← str j "t"
  match t with
  | "n" => pure .none
  | "b" => pure (.bool (← bool j "v"))
  | "i" =>
    match (← str j "v").toInt? with
    | some i => pure (.int i)
    | none => throw "bad int"
  | "f" => pure (.float (← str j "v"))
  | "s" => pure (.str (← str j "v"))
  | "l" => do
    let xs ← (← arr j "v").toList.mapM valOfJson
    pure (.list xs)
  | "d" => do
    let kvs ← (← arr j "v").toList.mapM (fun kv => do
      let a ← kv.getArr?
      if h : a.size = 2 then
        let k ← a[0].getStr?
        let v ← valOfJson a[1]
        pure (k, v)
      else throw "bad dict item")
    pure (.dict kvs)
  | "o" => pure (.obj (← strs j "cls"))
  | _ => throw s!"bad val tag {t}"

partial def valToJson : Val → Json
  | .none => Json.mkObj [("t", "n")]
  | .bool b => Json.mkObj [("t", "b"), ("v", Json.bool b)]
  | .int i => Json.mkObj [("t", "i"), ("v", Json.str (toString i))]
  | .float r => Json.mkObj [("t", "f"), ("v", Json.str r)]
  | .str s => Json.mkObj [("t", "s"), ("v", Json.str s)]
  | .list xs => Json.mkObj [("t", "l"), ("v", Json.arr (xs.map valToJson).toArray)]
  | .dict kvs => Json.mkObj [("t", "d"), ("v", Json.arr (kvs.map (fun kv => Json.arr #[Json.str kv.1, valToJson kv.2])).toArray)]
  | .obj cs => Json.mkObj [("t", "o"), ("cls", jstrs cs)]

partial def tvalToJson : TVal → Json
  | .none => Json.mkObj [("t", "n")]
  | .bool b => Json.mkObj [("t", "b"), ("v", Json.bool b)]
  | .int i => Json.mkObj [("t", "i"), ("v", Json.str (toString i))]
  | .float r => Json.mkObj [("t", "f"), ("v", Json.str r)]
  | .str s => Json.mkObj [("t", "s"), ("v", Json.str s)]
  | .enumMember e m => Json.mkObj [("t", "e"), ("enum", Json.str e), ("m", Json.str m)]
  | .list xs => Json.mkObj [("t", "l"), ("v", Json.arr (xs.map tvalToJson).toArray)]
  | .set xs => Json.mkObj [("t", "S"), ("v", Json.arr (xs.map tvalToJson).toArray)]
  | .tuple xs => Json.mkObj [("t", "T"), ("v", Json.arr (xs.map tvalToJson).toArray)]
  | .dict kvs => Json.mkObj [("t", "d"), ("v", Json.arr (kvs.map (fun kv => Json.arr #[tvalToJson kv.1, tvalToJson kv.2])).toArray)]
  | .record n fs => Json.mkObj [("t", "r"), ("name", Json.str n),
      ("fields", Json.arr (fs.map (fun kv => Json.arr #[Json.str kv.1, tvalToJson kv.2])).toArray)]
  | .dflt => Json.mkObj [("t", "dflt")]
  | .raw v => Json.mkObj [("t", "raw"), ("v", valToJson v)]

partial def tyOfJson (j : Json) : Except String Ty := do
  let k ← str j "k"
  match k with
  | "str" => pure .str
  | "int" => pure .int
  | "float" => pure .float
  | "bool" => pure .bool
  | "none" => pure .none
  | "any" => pure .any
  | "unsupported" => pure .unsupported
  | "cls" => pure (.cls (← str j "name"))
  | "enum" => do
    let ms ← (← arr j "members").toList.mapM (fun m => do
      let a ← m.getArr?
      if h : a.size = 2 then
        let nm ← a[0].getStr?
        let v : Option Int := match a[1] with
          | .str s => s.toInt?
          | _ => none
        pure (nm, v)
      else throw "bad enum member")
    pure (.enum (← str j "name") ms)
  | "list" => pure (.list (← tyOfJson (← j.getObjVal? "t")))
  | "set" => pure (.set (← tyOfJson (← j.getObjVal? "t")))
  | "dict" => pure (.dict (← tyOfJson (← j.getObjVal? "key")) (← tyOfJson (← j.getObjVal? "val")))
  | "tuple" => do
    let ts ← (← arr j "ts").toList.mapM tyOfJson
    pure (.tuple (Tys.ofList ts))
  | "union" => do
    let ts ← (← arr j "ts").toList.mapM tyOfJson
    pure (.union (Tys.ofList ts))
  | "record" => do
    let fs ← (← arr j "fields").toList.mapM (fun f => do
      let a ← f.getArr?
      if h : a.size = 3 then
        let nm ← a[0].getStr?
        let t ← tyOfJson a[1]
        let d ← a[2].getBool?
        pure (nm, t, d)
      else throw "bad field")
    let post : Post := match optStr j "post" with
      | some f => .onePlaceholder f
      | none => .none
    pure (.record (← str j "name") (Fields.ofList fs) post)
  | "ref" =>
    let nm ← str j "name"
    match SnootyVerif.Gen.Types.table.lookup nm with
    | some t => pure t
    | none => throw s!"unknown generated type {nm}"
  | _ => throw s!"bad ty kind {k}"

def errJson (e : LoadErr) : Json :=
  let base := [("out", Json.str "error"), ("err", Json.str e.className)]
  match e with
  | .unknownField f => Json.mkObj (base ++ [("field", Json.str f)])
  | .unloadable => Json.mkObj (base ++ [("msg", Json.str "Unloadable type")])
  | .unsupportedType => Json.mkObj (base ++ [("msg", Json.str "Unsupported PEP-484 type")])
  | _ => Json.mkObj base

/-- {"op":"c16.check","ty":Ty,"val":Val} -/
def checkOp (j : Json) : Except String Json := do
  let ty ← tyOfJson (← j.getObjVal? "ty")
  let v ← valOfJson (← j.getObjVal? "val")
  match check ty v with
  | .ok x => pure (Json.mkObj [("out", "ok"), ("val", tvalToJson x), ("noPost", Json.bool ty.noPost)])
  | .error e => pure (errJson e)

/-- {"op":"c16.open","ty":Ty,"root":[mro names],"parsed":{"table":Val-dict}|{"line":n}} -/
def openOp (j : Json) : Except String Json := do
  let ty ← tyOfJson (← j.getObjVal? "ty")
  let root ← strs j "root"
  let pj ← j.getObjVal? "parsed"
  let parsed ← (match pj.getObjVal? "table" with
    | .ok t => do
      match (← valOfJson t) with
      | .dict kvs => pure (Parsed.table kvs)
      | _ => throw "table must be a dict"
    | .error _ => do pure (Parsed.decodeError (← nat pj "line")))
  match openConfig ty root parsed with
  | .ok cfg => pure (Json.mkObj [("out", "ok"), ("val", tvalToJson cfg)])
  | .diag line => pure (Json.mkObj [("out", "diag"), ("line", Json.num line)])
  | .raised e => pure (Json.mkObj [("out", "raised"), ("err", Json.str e.className)])

def entryOfJson (j : Json) : Except String (String × Entry) := do
  let k ← str j "key"
  let fs ← (← arr j "fields").toList.mapM (fun f => match f with
    | .str s => pure (some s)
    | .null => pure none
    | _ => throw "bad field value")
  pure (k, { inherit := optStr j "inherit", fields := fs })

def entryToJson (kv : String × Entry) : Json :=
  Json.mkObj [("key", Json.str kv.1), ("inherit", jopt kv.2.inherit),
              ("fields", Json.arr (kv.2.fields.map jopt).toArray)]

/-- {"op":"c16.resolve","entries":[{"key":…,"inherit":str|null,"fields":[str|null…]}…]} -/
def resolveOp (j : Json) : Except String Json := do
  let idx ← (← arr j "entries").toList.mapM entryOfJson
  match resolveCategory idx with
  | .ok idx' => pure (Json.mkObj [("out", "ok"), ("entries", Json.arr (idx'.map entryToJson).toArray)])
  | .error (.cycle k) => pure (Json.mkObj [("out", "cycle"), ("key", Json.str k)])
  | .error (.missingParent p) => pure (Json.mkObj [("out", "missing"), ("key", Json.str p)])
  | .error .fuel => pure (Json.mkObj [("out", "fuel")])

/-- {"op":"c16.types"}: names in the generated table (sanity check of the translator tie) -/
def typesOp (_ : Json) : Except String Json :=
  pure (Json.mkObj [("names", jstrs (SnootyVerif.Gen.Types.table.map (·.1)))])

/-- {"op":"c16.constants","table":[[key,[["lit",s]|["ref",name]…]]…]} -/
def constantsOp (j : Json) : Except String Json := do
  let tbl ← (← arr j "table").toList.mapM (fun e => do
    let a ← e.getArr?
    if h : a.size = 2 then
      let k ← a[0].getStr?
      let segs ← (← a[1].getArr?).toList.mapM (fun sj => do
        let b ← sj.getArr?
        if h2 : b.size = 2 then
          let tag ← b[0].getStr?
          let txt ← b[1].getStr?
          if tag == "ref" then pure (SnootyVerif.Constants.Seg.ref txt) else pure (SnootyVerif.Constants.Seg.lit txt)
        else throw "bad segment")
      pure (k, segs)
    else throw "bad table entry")
  let r := SnootyVerif.Constants.render tbl
  pure (Json.mkObj [("constants", Json.arr (r.1.map (fun kv => Json.arr #[Json.str kv.1, Json.str kv.2])).toArray),
                    ("diags", jstrs r.2)])

def ops : List (String × (Json → Except String Json)) :=
  [("c16.constants", constantsOp), ("c16.check", checkOp), ("c16.open", openOp), ("c16.resolve", resolveOp), ("c16.types", typesOp)]

end SnootyVerif.Drv.C16
