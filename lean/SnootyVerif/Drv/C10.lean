import SnootyVerif.Drv.Util
import SnootyVerif.Model.Toc
open Lean
namespace SnootyVerif.Drv.C10
open SnootyVerif.Drv SnootyVerif.Toc

def optChars (j : Json) (k : String) : Option Str := (optStr j k).map String.toList
def js (s : Str) : Json := Json.str (String.ofList s)
def jo (s : Option Str) : Json := match s with | some x => js x | none => Json.null

def entryOf (j : Json) : Entry :=
  ⟨optChars j "title", optChars j "url", optChars j "slug", optChars j "ref_project"⟩

def pageOf (j : Json) : Except String Page := do
  let slug ← str j "slug"
  let txt ← bool j "txt"
  let orphan ← bool j "orphan"
  let es ← arr j "entries"
  pure ⟨slug.toList, txt, optChars j "heading", orphan, es.toList.map entryOf⟩

mutual
def treeJson : Tree → Json
  | .node k l t cs =>
    let kind := match k with | .page => "page" | .url => "url" | .project => "project"
    Json.mkObj [("kind", kind), ("label", js l), ("slug", jo (Tree.node k l none []).slugKey),
                ("title", jo t), ("children", Json.arr (treesJson cs).toArray)]
def treesJson : List Tree → List Json
  | [] => []
  | t :: ts => treeJson t :: treesJson ts
end

def jpaths (d : List (Str × List Str)) : Json :=
  Json.arr (d.map (fun (k, v) => Json.arr #[js k, Json.arr (v.map js).toArray])).toArray

def resultJson (r : Result) : List (String × Json) :=
  let tree := match r.tree with
    | none => Json.null
    | some ts => Json.arr (treesJson ts).toArray
  [("exhausted", false), ("tree", tree),
   ("order", Json.arr ((toctreeOrder r.tree).map js).toArray),
   ("parentPaths", jpaths (parentPaths r.tree)),
   ("parentPathsOld", jpaths (parentPathsOld r.tree)),
   ("missing", Json.arr (r.missing.map (fun (o, s) => Json.arr #[js o, js s])).toArray),
   ("orphans", Json.arr (r.orphans.map js).toArray),
   ("visited", Json.arr (r.visited.map js).toArray)]

/-- request: pages = [{slug, txt, heading?, orphan, entries:[{title?,url?,slug?,ref_project?}]}] in
`context.pages` order; optional `fuel` (default `pages.length + 1`). -/
def build (j : Json) : Except String Json := do
  let ps ← (← arr j "pages").toList.mapM pageOf
  let fuel := (optNat j "fuel").getD (enoughFuel ps)
  match buildToc ps fuel with
  | none => pure (Json.mkObj [("exhausted", true)])
  | some r => pure (Json.mkObj (resultJson r))

def clean (j : Json) : Except String Json := do
  let xs ← strs j "slugs"
  pure (Json.mkObj [("cleaned", jstrs (xs.map (fun s => String.ofList (cleanSlug s.toList))))])

def entryJson (e : Entry) : Json := Json.arr #[jo e.title, jo e.url, jo e.slug, jo e.refProject]

/-- all lines of one file through `make_toc_entry`; `none` = TypeError escaped -/
def parseLines (isSpace : Char → Bool) (hasScheme : Str → Bool) : List Str → Option (List Entry)
  | [] => some []
  | l :: ls =>
    match makeTocEntry isSpace hasScheme l with
    | .error _ => none
    | .ok r =>
      match parseLines isSpace hasScheme ls with
      | none => none
      | some es => some (match r with | some e => e :: es | none => es)

/-- request: files = [{slug, txt, heading?, orphan, tocs:[[line…]…]}], space = the whitespace
characters (`\s`) occurring in the lines, scheme = the targets for which
`urlparse(t).scheme` is non-empty (parameters of the model), products = associated product names.
Each toctree directive is parsed and validated separately, as in the parser. -/
def text (j : Json) : Except String Json := do
  let sp := (← str j "space").toList
  let sch := (← strs j "scheme").map String.toList
  let prods := (← strs j "products").map String.toList
  let files ← arr j "files"
  let parsed ← files.toList.mapM (fun f => do
    let slug ← str f "slug"
    let txt ← bool f "txt"
    let orphan ← bool f "orphan"
    let tocs ← arr f "tocs"
    let blocks ← tocs.toList.mapM (fun b => do
      let ls ← (b.getArr?)
      let ls ← ls.toList.mapM (fun x => x.getStr?)
      pure ((parseLines (fun c => sp.contains c) (fun t => sch.contains t) (ls.map String.toList)).map
        (validateTocEntries prods)))
    pure (slug, txt, optChars f "heading", orphan, blocks))
  if parsed.any (fun (_, _, _, _, bs) => bs.any Option.isNone) then
    pure (Json.mkObj [("exc", "TypeError")])
  else
    let ps : Pages := parsed.map (fun (slug, txt, h, o, bs) =>
      ⟨slug.toList, txt, h, o, (bs.filterMap id).flatten⟩)
    match buildToc ps (enoughFuel ps) with
    | none => pure (Json.mkObj [("exhausted", true)])
    | some r =>
      pure (Json.mkObj (resultJson r ++
        [("entries", Json.arr (ps.map (fun p => Json.arr (p.entries.map entryJson).toArray)).toArray)]))

def ops : List (String × (Json → Except String Json)) :=
  [("c10.build", build), ("c10.clean", clean), ("c10.text", text)]

end SnootyVerif.Drv.C10
