import SnootyVerif.Drv.Util
import SnootyVerif.Model.Man
import SnootyVerif.Model.ManScoped
open Lean
namespace SnootyVerif.Drv.C19
open SnootyVerif.Drv SnootyVerif.Man

/-- AST codec: {"t": kind, "v": string?, "c": [children]?, "term": [..]?, "ordered": bool?, "uri": string?} -/
partial def ast (j : Json) : Except String Ast := do
  let t ← str j "t"
  let kids (k : String) : Except String (List Ast) :=
    match j.getObjValAs? (Array Json) k with
    | .ok a => a.toList.mapM ast
    | .error _ => pure []
  match t with
  | "text" => return .text (← str j "v").toList
  | "code" => return .code (← str j "v").toList
  | "heading" => return .heading (← kids "c")
  | "section" => return .sect (← kids "c")
  | "paragraph" => return .paragraph (← kids "c")
  | "pass" => return .pass (← kids "c")
  | "drop" => return .drop (← kids "c")
  | "defItem" => return .defItem (← kids "term") (← kids "c")
  | "listItem" => return .listItem (← kids "c")
  | "list" => return .list (← bool j "ordered") (← kids "c")
  | "target" => return .target (← kids "c")
  | "targetId" => return .targetId (← kids "c")
  | "dirArg" => return .dirArg (← kids "c")
  | "reference" => return .reference (← str j "uri").toList (← kids "c")
  | "strong" => return .strong (← kids "c")
  | "literal" => return .literal (← kids "c")
  | "emphasis" => return .emphasis (← kids "c")
  | _ => throw s!"unknown ast kind {t}"

def chunkJson : Chunk → Json
  | .macro s => Json.arr #["m", Json.str (String.ofList s)]
  | .raw s => Json.arr #["r", Json.str (String.ofList s)]
  | .text s => Json.arr #["t", Json.str (String.ofList s)]

def errName : PyErr → String
  | .assertionError => "AssertionError"
  | .indexError => "IndexError"

/-- `up` = [[char, upper(char)], …] for the characters Python's `str.upper` changes (parameter of the model) -/
def upOf (j : Json) : Except String (Char → Str) := do
  let a ← arr j "up"
  let tbl ← a.toList.mapM (fun p => do
    let xs ← (p.getArr?)
    match xs.toList with
    | [k, v] =>
      let ks ← k.getStr?
      let vs ← v.getStr?
      match ks.toList with
      | [c] => pure (c, vs.toList)
      | _ => throw "up: key must be one character"
    | _ => throw "up: pair expected")
  pure (fun c => match tbl.lookup c with | some s => s | none => [c])

def result (r : Except PyErr (List Chunk)) : Json :=
  match r with
  | .error e => Json.mkObj [("exc", Json.str (errName e))]
  | .ok cs => Json.mkObj [("exc", Json.null), ("chunks", Json.arr (cs.map chunkJson).toArray),
                          ("out", Json.str (String.ofList (flat cs)))]

def renderOp (old : Bool) (j : Json) : Except String Json := do
  let a ← ast (← j.getObjVal? "ast")
  let up ← upOf j
  let name := (← str j "name").toList
  let sec := (← str j "section").toList
  -- optional: strings produced by the REAL troff_escape, read back by the model's `unesc`
  let escaped : List String := match j.getObjValAs? (Array String) "escaped" with
    | .ok xs => xs.toList
    | .error _ => []
  let back := escaped.map fun e => match unesc e.toList with
    | some t => Json.str (String.ofList t)
    | none => Json.null
  let r := result (if old then renderOld up name sec a else render up name sec a)
  pure (r.setObjVal! "scoped" (Json.bool (a.scoped false)) |>.setObjVal! "unesc" (Json.arr back.toArray))

def escapeOp (j : Json) : Except String Json := do
  let s := (← str j "s").toList
  pure (Json.mkObj [("escape", Json.str (String.ofList (troffEscape s))),
                    ("escape_arg", Json.str (String.ofList (troffEscapeArg s))),
                    ("escape_old", Json.str (String.ofList (troffEscapeOld s)))])

def ops : List (String × (Json → Except String Json)) :=
  [("c19.render", renderOp false), ("c19.render_old", renderOp true), ("c19.escape", escapeOp)]

end SnootyVerif.Drv.C19
