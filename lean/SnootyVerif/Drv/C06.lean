import SnootyVerif.Drv.Util
import SnootyVerif.Model.Include
import SnootyVerif.Proofs.IncludeSpec
open Lean
namespace SnootyVerif.Drv.C06
open SnootyVerif.Drv SnootyVerif.Include

partial def parseT (j : Json) : Except String T := do
  let id ← nat j "id"
  let s ← bool j "s"
  let e ← bool j "e"
  let cs ← arr j "c"
  let cs' ← cs.toList.mapM parseT
  pure (.node ⟨id, s, e⟩ cs')

partial def showT : T → Json
  | .node tg cs => Json.mkObj [("id", tg.id), ("c", Json.arr (cs.map showT).toArray)]

def showCutDiag : CutDiag → Json
  | .reversed => "reversed"
  | .noStart => "nostart"
  | .noEnd => "noend"

def cut (j : Json) : Except String Json := do
  let ns ← (← arr j "nodes").toList.mapM parseT
  let wantS := match bool j "want_s" with | .ok b => b | _ => false
  let wantE := match bool j "want_e" with | .ok b => b | _ => false
  let dg := Json.arr ((cutDiags wantS wantE ns).map showCutDiag).toArray
  -- hypotheses and right-hand side of theorem C06.cut_spec, evaluated on this very input
  let hyp := atomicL ns && decide ((unitsL ns).countP pS ≤ 1) && decide ((unitsL ns).countP pE ≤ 1) && !reversed (unitsL ns)
  let spec := Json.arr ((between (unitsL ns)).map (fun t => (t.id : Json))).toArray
  match cutList ns with
  | .ok (out, s, e) =>
    pure (Json.mkObj [("ok", true), ("out", Json.arr (out.map showT).toArray), ("s", s), ("e", e),
      ("spec_hyp", hyp), ("atomic", atomicL ns), ("between", spec),
      ("units_out", Json.arr ((unitsL out).map (fun t => (t.id : Json))).toArray), ("diags", dg)])
  | .error m => pure (Json.mkObj [("ok", false), ("msg", m), ("spec_hyp", hyp), ("atomic", atomicL ns), ("diags", dg)])

partial def parseDoc (j : Json) : Except String Doc := do
  let id ← nat j "id"
  match optStr j "inc" with
  | some t => pure (.inc id t)
  | none =>
    let cs ← arr j "c"
    pure (.node id (← cs.toList.mapM parseDoc))

partial def showOut : Out → Json
  | .node id cs => Json.mkObj [("id", id), ("c", Json.arr (cs.map showOut).toArray)]
  | .inc id t none => Json.mkObj [("id", id), ("inc", t), ("body", Json.null)]
  | .inc id t (some b) => Json.mkObj [("id", id), ("inc", t), ("body", Json.arr (b.map showOut).toArray)]

def showDiag : Diag → Json
  | .cannotOpen f i => Json.mkObj [("kind", "CannotOpenFile"), ("file", f), ("id", i)]
  | .circular f i => Json.mkObj [("kind", "InvalidInclude"), ("file", f), ("id", i)]

def expand (j : Json) : Except String Json := do
  let ps ← arr j "pages"
  let pages : Pages ← ps.toList.mapM (fun p => do
    let f ← str p "file"
    let body ← (← arr p "body").toList.mapM parseDoc
    pure (f, body))
  let page ← str j "page"
  match expandPage pages page with
  | none => pure (Json.mkObj [("ok", false)])
  | some (out, ds) => pure (Json.mkObj [("ok", true), ("out", Json.arr (out.map showOut).toArray),
                                        ("diags", Json.arr (ds.map showDiag).toArray)])

def ops : List (String × (Json → Except String Json)) := [("c06.cut", cut), ("c06.expand", expand)]

end SnootyVerif.Drv.C06
