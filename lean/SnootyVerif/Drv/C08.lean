import SnootyVerif.Drv.Util
import SnootyVerif.Model.Refs
import SnootyVerif.Model.RoleText
open Lean
namespace SnootyVerif.Drv.C08
open SnootyVerif.Drv SnootyVerif.Targets SnootyVerif.Refs

def asciiWord (c : Char) : Bool := c.isAlphanum || c == '_'

partial def inlsOf (j : Json) : Except String Inls := do
  let a ← j.getArr?
  let rec go (l : List Json) : Except String Inls := do
    match l with
    | [] => pure .nil
    | x :: xs =>
      let t ← go xs
      match x.getObjVal? "text" with
      | .ok (.str s) => pure (.cons (.text s.toList) t)
      | _ =>
        let tag ← str x "wrap"
        let ks ← inlsOf (← x.getObjVal? "kids")
        pure (.cons (.wrap tag ks) t)
  go a.toList

mutual
partial def inlJ : Inl → Json
  | .text v => Json.mkObj [("text", Json.str (String.ofList v))]
  | .wrap t ks => Json.mkObj [("wrap", Json.str t), ("kids", Json.arr (inlsJ ks).toArray)]
partial def inlsJ : Inls → List Json
  | .nil => []
  | .cons h t => inlJ h :: inlsJ t
end

def jS (s : Str) : Json := Json.str (String.ofList s)
def jInls (t : Inls) : Json := Json.arr (inlsJ t).toArray

def cstrs (j : Json) (k : String) : Except String (List Str) := do
  pure ((← strs j k).map String.toList)

def itemOf (j : Json) : Except String Item := do
  let t ← str j "t"
  if t == "target" then
    let idents ← (← arr j "idents").toList.mapM (fun i => do
      pure (⟨← cstrs i "ids", ← inlsOf (← i.getObjVal? "title")⟩ : Targets.Ident))
    pure (.target (← str j "domain").toList (← str j "role").toList idents)
  else if t == "heading" then
    pure (.heading (← nat j "depth") (← str j "base") (← inlsOf (← j.getObjVal? "title")))
  else if t == "ref" then
    pure (.ref (← str j "src") ⟨← nat j "rid", (← str j "domain").toList, (← str j "role").toList,
      (← str j "target").toList, (← str j "flag").toList, ← inlsOf (← j.getObjVal? "kids")⟩)
  else if t == "contents" then
    match j.getObjValAs? Int "depth" with
    | .ok d => pure (.contents (some d))
    | .error _ => pure (.contents none)
  else pure .other

def destJ : Dest → Json
  | .none => Json.null
  | .fileid s h => Json.arr #["f", Json.str s, Json.str h]
  | .url u => Json.arr #["u", Json.str u]

def diagJ : Diag → Json
  | .notFound n t => Json.arr #["notfound", jS n, jS t]
  | .ambiguous n t cs => Json.arr #["ambiguous", jS n, jS t, jstrs cs]
  | .childless t => Json.arr #["childless", jS t]

def refJ (x : String × Nat × RefOut) : Json :=
  Json.mkObj [("src", Json.str x.1), ("rid", Json.num x.2.1), ("target", jS x.2.2.target),
    ("dest", destJ x.2.2.dest), ("kids", jInls x.2.2.kids),
    ("diags", Json.arr (x.2.2.diags.map diagJ).toArray)]

def defJ (d : LocalDef) : Json :=
  Json.arr #[jS d.canonical, Json.str d.page, Json.str d.htmlId, jInls d.title]

def paramsOf (j : Json) : Except String Params := do
  let sp := (← str j "spacechars").toList
  let wc := (← str j "wordchars").toList
  let lt ← (← arr j "lowertab").toList.mapM (fun p => do
    let a ← p.getArr?
    match a.toList with
    | [Json.str x, Json.str y] => pure (x.toList, y.toList)
    | _ => throw "lowertab")
  let lowerC : Char → Str := fun c =>
    match lt.lookup [c] with
    | some y => y
    | none => [c.toLower]
  let pf ← (← arr j "prefixes").toList.mapM (fun p => do
    let a ← p.getArr?
    match a.toList with
    | [Json.str x, Json.str y] => pure (x.toList, y.toList)
    | _ => throw "prefixes")
  pure ⟨fun c => sp.contains c, fun c => asciiWord c || wc.contains c, fun s => (s.map lowerC).flatten, pf⟩

def runOp (j : Json) : Except String Json := do
  let P ← paramsOf j
  let invs ← (← arr j "inventories").toList.mapM (fun inv => do
    let es ← inv.getArr?
    es.toList.mapM (fun e => do
      pure ((← str e "key").toList,
        (⟨(← str e "name").toList, (← str e "dr").toList, ← str e "url",
          (optStr e "disp").map String.toList⟩ : InvEntry))))
  let pages ← (← arr j "pages").toList.mapM (fun p => do
    let items ← (← arr p "items").toList.mapM itemOf
    pure (⟨← str p "slug", items⟩ : Page))
  match run P invs pages with
  | .error .valueError => pure (Json.mkObj [("exc", "ValueError")])
  | .error .indexError => pure (Json.mkObj [("exc", "IndexError")])
  | .error .stopIteration => pure (Json.mkObj [("exc", "StopIteration")])
  | .error .assertionError => pure (Json.mkObj [("exc", "AssertionError")])
  | .ok o =>
    pure (Json.mkObj [
      ("exc", Json.null),
      ("db", Json.arr (o.db.map (fun kv => Json.arr #[jS kv.1, Json.arr (kv.2.map defJ).toArray])).toArray),
      ("htmlIds", Json.arr (o.htmlIds.map (fun l => Json.arr (l.map jopt).toArray)).toArray),
      ("refs", Json.arr (o.refs.map (fun l => Json.arr (l.map refJ).toArray)).toArray),
      ("contents", Json.arr (o.contents.map (fun c => match c with
        | none => Json.null
        | some l => Json.arr (l.map (fun h => Json.arr #[Json.num h.1, Json.str h.2])).toArray)).toArray)])

/-- request: strings = [...]; answers normalize(s) for each (parameter isSpace from `spacechars`) -/
def normOp (j : Json) : Except String Json := do
  let sp := (← str j "spacechars").toList
  let ss ← strs j "strings"
  pure (Json.mkObj [("out", jstrs (ss.map (fun s => String.ofList (normalize (fun c => sp.contains c) s.toList))))])

/-- request: spacechars, roles = [{prefix, type, text}] -/
def roleOp (j : Json) : Except String Json := do
  let sp := (← str j "spacechars").toList
  let isSpace := fun c => sp.contains c
  let out ← (← arr j "roles").toList.mapM (fun r => do
    let ty ← str r "type"
    let t := if ty == "callable" then RoleText.TargetType.callable
      else if ty == "cmdline_option" then RoleText.TargetType.cmdlineOption else RoleText.TargetType.plain
    let o := RoleText.roleParse isSpace (← str r "prefix").toList t (← str r "text").toList
    pure (Json.mkObj [("target", jS o.target), ("label", jopt (o.label.map String.ofList)), ("flag", jS o.flag)]))
  pure (Json.mkObj [("out", Json.arr out.toArray)])

def ops : List (String × (Json → Except String Json)) := [("c08.run", runOp), ("c08.norm", normOp), ("c08.role", roleOp)]

end SnootyVerif.Drv.C08
