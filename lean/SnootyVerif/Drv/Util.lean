import Lean.Data.Json
/-! JSON helpers of the line-protocol driver (not part of any model). -/
open Lean

namespace SnootyVerif.Drv

def str (j : Json) (k : String) : Except String String := j.getObjValAs? String k
def nat (j : Json) (k : String) : Except String Nat := j.getObjValAs? Nat k
def int (j : Json) (k : String) : Except String Int := j.getObjValAs? Int k
def bool (j : Json) (k : String) : Except String Bool := j.getObjValAs? Bool k
def arr (j : Json) (k : String) : Except String (Array Json) := j.getObjValAs? (Array Json) k
def strs (j : Json) (k : String) : Except String (List String) := do
  let a ← arr j k
  a.toList.mapM (fun x => x.getStr?)
def optStr (j : Json) (k : String) : Option String :=
  match j.getObjVal? k with
  | .ok (.str s) => some s
  | _ => none
def optNat (j : Json) (k : String) : Option Nat :=
  match j.getObjValAs? Nat k with
  | .ok n => some n
  | _ => none
def jstrs (xs : List String) : Json := Json.arr (xs.map Json.str).toArray
def jopt (x : Option String) : Json := match x with | some s => Json.str s | none => Json.null

end SnootyVerif.Drv
