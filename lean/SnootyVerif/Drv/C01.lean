import SnootyVerif.Drv.Util
import SnootyVerif.Model.Dispatch
import SnootyVerif.Model.Enumerator
import SnootyVerif.Model.Validators
import SnootyVerif.Gen.Dispatch
import SnootyVerif.Gen.NodeKinds
import SnootyVerif.Gen.Emitted
import SnootyVerif.Gen.Enum
import SnootyVerif.Gen.VisitPaths
import SnootyVerif.Model.Visitor
open Lean
namespace SnootyVerif.Drv.C01
open SnootyVerif.Drv

/-- the model's dispatch table for every known node class: {kind: {visit:[tags], inline:[tags]}} -/
def table (_ : Json) : Except String Json := do
  let rows := Gen.nodeKinds.map (fun (k, _) =>
    let v := (Dispatch.dispatch Gen.nodeKinds Gen.visitChain Gen.visitElse k).getD []
    let i := (Dispatch.dispatchInline Gen.nodeKinds Gen.visitChain Gen.visitElse Gen.inlineSkip k).getD []
    (k, Json.mkObj [("visit", jstrs v), ("inline", jstrs i)]))
  pure (Json.mkObj [("table", Json.mkObj rows), ("emitted", jstrs Gen.emitted)])

def romanR : Enumerator.Roman := ⟨Gen.romanMap, Gen.romanMax⟩
def enumT : Enumerator.Tables := ⟨romanR, Gen.enumSequences, Gen.converterHandlers⟩

def jerr (e : String) : Json := Json.mkObj [("err", Json.str e)]

/-- request: {text, expected?: string} → parse_enumerator ; {n} → to_roman ; {s} → from_roman ; {ordinal, seq} → make_enumerator -/
def enumOp (j : Json) : Except String Json := do
  let what ← str j "what"
  if what == "parse" then
    let text := (← str j "text").toList
    match Enumerator.parseEnumerator enumT text (optStr j "expected") with
    | .ok (s, o) => pure (Json.mkObj [("seq", Json.str s), ("ordinal", match o with | some n => Json.num (JsonNumber.fromNat n) | none => Json.null)])
    | .error e => pure (jerr e.name)
  else if what == "to_roman" then
    match Enumerator.toRoman romanR (← nat j "n") with
    | .ok s => pure (Json.mkObj [("ok", Json.str (String.ofList s))])
    | .error e => pure (jerr e.name)
  else if what == "from_roman" then
    match Enumerator.fromRoman romanR (← str j "s").toList with
    | .ok n => pure (Json.mkObj [("ok", Json.num (JsonNumber.fromNat n))])
    | .error e => pure (jerr e.name)
  else if what == "make" then
    match Enumerator.makeEnumerator romanR (← nat j "ordinal") (← str j "seq") with
    | .ok (some s) => pure (Json.mkObj [("ok", Json.str (String.ofList s))])
    | .ok none => pure (Json.mkObj [("ok", Json.null)])
    | .error e => pure (jerr e.name)
  else throw s!"unknown enum op {what}"

def asciiSpace (c : Char) : Bool := c == ' ' || (c.toNat ≥ 9 && c.toNat ≤ 13) || (c.toNat ≥ 28 && c.toNat ≤ 31)

partial def kindOf (j : Json) : Except String Validators.Kind := do
  match j with
  | .str s =>
    if s == "integer" then pure .integer
    else if s == "nonnegative_integer" then pure .nonnegativeInteger
    else if s == "string" || s == "path" || s == "linenos" then pure .string
    else if s == "uri" then pure .uri
    else if s == "length" then pure .length
    else if s == "boolean" then pure .boolean
    else if s == "flag" then pure .flag
    else throw s!"unknown kind {s}"
  | .arr a =>
    let ks ← a.toList.mapM kindOf
    pure (.union ks)
  | _ =>
    let vs ← strs j "enum"
    pure (.enum (vs.map String.toList))

/-- request: {kind, arg: string|null, spaces: "chars", digits: [[char, val]…], lower: [[char, str]…]} -/
def validateOp (j : Json) : Except String Json := do
  let k ← kindOf (← j.getObjVal? "kind")
  let a := (optStr j "arg").map String.toList
  let spaces := (← str j "spaces").toList
  let digits ← (← arr j "digits").toList.mapM (fun p => do
    let c ← str p "c"; let v ← nat p "v"; pure (c.toList.headD ' ', v))
  let lowers ← (← arr j "lower").toList.mapM (fun p => do
    let c ← str p "c"; let v ← str p "v"; pure (c.toList.headD ' ', v.toList))
  let E : Validators.Env :=
    { isSpace := fun c => asciiSpace c || spaces.contains c
      digitVal := fun c => if '0' ≤ c ∧ c ≤ '9' then some (c.toNat - 48) else digits.lookup c
      lower := fun c => if 'A' ≤ c ∧ c ≤ 'Z' then [Char.ofNat (c.toNat + 32)] else (lowers.lookup c).getD [c] }
  match Validators.validate E k a with
  | .ok (.int i) => pure (Json.mkObj [("ok", Json.str (toString i))])
  | .ok (.bool b) => pure (Json.mkObj [("ok", Json.str (if b then "True" else "False"))])
  | .ok (.str s) => pure (Json.mkObj [("ok", Json.str (String.ofList s))])
  | .error e => pure (jerr (match e with | .ValueError => "ValueError" | .TypeError => "TypeError" | .KeyError => "KeyError" | .AttributeError => "AttributeError"))

/-! ### the visitor's node stack on a recorded walk -/

open SnootyVerif.Visitor in
def kindOfTag (s : String) : Except String AKind :=
  if s == "parent" then pure .parent else if s == "leaf" then pure .leaf else if s == "term" then pure .term
  else if s == "dlItem" then pure .dlItem else if s == "noChildren" then pure .noChildren else throw s!"unknown AST kind {s}"

def mroOf (cls : String) : List String := (Dispatch.lookup Gen.nodeKinds cls).getD [cls]

/-- does `dispatch_departure` of this visitor return at once for a node of class `cls`? -/
def departSkipOf (inline : Bool) (cls : String) : Bool :=
  let mro := mroOf cls
  Dispatch.meets Gen.departSkipClasses mro
    || (inline && Dispatch.meets Gen.inlineDepartSkip.1 mro && !Dispatch.meets Gen.inlineDepartSkip.2 mro)

/-- the translated paths of the branch a node of class `cls` takes -/
def pathsFor (inline : Bool) (cls : String) : List (Nat × String × String) :=
  let mro := mroOf cls
  if inline && Dispatch.meets Gen.inlineSkip.1 mro && !Dispatch.meets Gen.inlineSkip.2 mro then [(0, "normal", "inline filter")]
  else
    let rec go : List (List String × List (Nat × String × String)) → List (Nat × String × String)
      | [] => Gen.visitPathsElse
      | (cs, ps) :: rest => if Dispatch.meets cs mro then ps else go rest
    go Gen.visitPaths

open SnootyVerif.Visitor in
/-- node = [id, class, pushes, exit tag, AST kind tag, children]; returns the DNode and the nodes whose observed outcome is not a
translated path of their branch -/
partial def dnodeOf (inline : Bool) (j : Json) : Except String (DNode × List Json) := do
  let a ← j.getArr?
  if a.size != 6 then throw "node: expected 6 fields"
  let id ← a[0]!.getNat?
  let cls ← a[1]!.getStr?
  let pushes ← a[2]!.getNat?
  let exitTag ← a[3]!.getStr?
  let kind ← kindOfTag (← a[4]!.getStr?)
  let kids ← (← a[5]!.getArr?).toList.mapM (dnodeOf inline)
  let exit ← match exitOfTag exitTag with
    | some e => pure e
    | none => throw s!"unknown exit {exitTag}"
  let listed := (pathsFor inline cls).any (fun p => p.1 == pushes && p.2.1 == exitTag)
  let mine := if listed then [] else [Json.arr #[Json.num (JsonNumber.fromNat id), Json.str cls, Json.num (JsonNumber.fromNat pushes), Json.str exitTag]]
  pure (.mk id pushes exit kind (departSkipOf inline cls) (kids.map (·.1)), mine ++ (kids.map (·.2)).flatten)

open SnootyVerif.Visitor in
partial def tJson : T → Json
  | .mk i _ term cs => Json.mkObj [("i", Json.num (JsonNumber.fromNat i)), ("t", Json.arr (term.map tJson).toArray), ("c", Json.arr (cs.map tJson).toArray)]

open SnootyVerif.Visitor in
/-- request: {inline: bool, tree: node} → {ok: tree | err: name, balanced, termsOk, plain, unlisted: [...], spec: tree} -/
def visitOp (j : Json) : Except String Json := do
  let inline ← bool j "inline"
  let (d, unlisted) ← dnodeOf inline (← j.getObjVal? "tree")
  let res := match walkDoc d with
    | .ok t => ("ok", tJson t)
    | .error e => ("err", Json.str e.name)
  let (rootKind, kids, rootId) := match d with | .mk i _ _ k _ cs => (k, cs, i)
  let spec := tJson (attachAllT (.mk rootId rootKind [] []) (emitL kids))
  pure (Json.mkObj [res, ("balanced", Json.bool (balancedL kids)), ("termsOk", Json.bool (termsOkL rootKind kids)),
                    ("plain", Json.bool (plainL kids)), ("unlisted", Json.arr unlisted.toArray), ("spec", spec)])

def ops : List (String × (Json → Except String Json)) :=
  [("c01.table", table), ("c01.enum", enumOp), ("c01.validate", validateOp), ("c01.visit", visitOp)]

end SnootyVerif.Drv.C01
