import SnootyVerif.Drv.Util
import SnootyVerif.Model.Giza
open Lean
namespace SnootyVerif.Drv.C18
open SnootyVerif.Drv SnootyVerif.Giza

def asciiWord (c : Char) : Bool := c.isAlphanum || c == '_'

partial def valOf (j : Json) : Except String Val := do
  match j.getObjVal? "s" with
  | .ok (.str s) => pure (.str s.toList)
  | _ =>
    match j.getObjVal? "a" with
    | .ok (.str a) => pure (.atom a)
    | _ =>
      let kids ← arr j "r"
      let vs ← kids.toList.mapM valOf
      pure (vs.foldr (fun v acc => Val.cons v acc) Val.nil)

def optField (j : Json) (k : String) : Option Json :=
  match j.getObjVal? k with
  | .ok .null => none
  | .ok v => some v
  | .error _ => none

def pairsOf (j : Json) : Except String Repl := do
  let a ← j.getArr?
  a.toList.mapM (fun p => do
    let kv ← p.getArr?
    match kv.toList with
    | [.str k, .str v] => pure (k.toList, v.toList)
    | _ => throw "pair expected")

def ptrOf (j : Json) : Except String Ptr := do
  pure ⟨← str j "file", (← str j "ref").toList⟩

def entryOf (j : Json) : Except String Entry := do
  let ref := (optStr j "ref").map String.toList
  let repl ← match optField j "replacement" with
    | some r => (pairsOf r).map some
    | none => pure none
  let source ← match optField j "source" with
    | some p => (ptrOf p).map some
    | none => pure none
  let inh ← match optField j "inherit" with
    | some p => (ptrOf p).map some
    | none => pure none
  let fs ← arr j "fields"
  let fields ← fs.toList.mapM (fun f => match f with
    | .null => pure none
    | v => (valOf v).map some)
  pure ⟨ref, repl, source, inh, fields⟩

def jval : Val → Json
  | .str s => Json.mkObj [("s", Json.str (String.ofList s))]
  | .atom a => Json.mkObj [("a", Json.str a)]
  | .nil => Json.mkObj [("n", Json.null)]
  | .cons h t => Json.mkObj [("c", Json.arr #[jval h, jval t])]

def jtext (t : Text) : Json := Json.str (String.ofList t)

def jptr : Option Ptr → Json
  | none => Json.null
  | some p => Json.mkObj [("file", Json.str p.file), ("ref", jtext p.ref)]

def jentry (e : Entry) : Json :=
  Json.mkObj [
    ("ref", match e.ref with | some r => jtext r | none => Json.null),
    ("replacement", match e.replacement with
      | some r => Json.arr (r.map (fun kv => Json.arr #[jtext kv.1, jtext kv.2])).toArray
      | none => Json.null),
    ("source", jptr e.source), ("inherit", jptr e.inherit),
    ("fields", Json.arr (e.fields.map (fun f => match f with | some v => jval v | none => Json.null)).toArray)]

def diagName : Diag → String
  | .errorParsingYAMLFile => "ErrorParsingYAMLFile"
  | .unmarshallingError => "UnmarshallingError"
  | .missingRef => "MissingRef"
  | .cannotOpenFile f => "CannotOpenFile:" ++ f
  | .failedToInheritRef => "FailedToInheritRef:missing"
  | .inheritanceCycle => "FailedToInheritRef:cycle"
  | .refAlreadyExists r => "RefAlreadyExists:" ++ String.ofList r
  | .unknownSubstitution n => "UnknownSubstitution:" ++ String.ofList n
  | .invalidField => "InvalidField"

def errName : PyErr → String
  | .recursionError => "RecursionError"
  | .assertionError => "AssertionError"

def catOf : String → Except String Category
  | "steps" => pure .steps
  | "extracts" => pure .extracts
  | "release" => pure .release
  | s => throw s!"unknown category {s}"

/-- request: cat, consts [[k,v]], wordchars (non-ASCII `\w` characters in use),
files [{name, syntax: bool, docs: [null (ill-typed) | "empty" | entry]}] -/
def build (j : Json) : Except String Json := do
  let cat ← catOf (← str j "cat")
  let consts ← pairsOf (← j.getObjVal? "consts")
  let wc := (← str j "wordchars").toList
  let isName := isNameChar (fun c => asciiWord c || wc.contains c)
  let files ← (← arr j "files").toList.mapM (fun f => do
    let name ← str f "name"
    if (← bool f "syntax") then pure (name, FileSrc.syntaxError)
    else
      let docs ← (← arr f "docs").toList.mapM (fun d => match d with
        | .null => pure Doc.bad
        | .str _ => pure Doc.empty
        | v => (entryOf v).map Doc.entry)
      pure (name, FileSrc.docs docs))
  match buildCategory isName consts cat files with
  | .error e => pure (Json.mkObj [("exc", Json.str (errName e))])
  | .ok outs =>
    pure (Json.mkObj [("exc", Json.null), ("files", Json.arr (outs.map (fun o =>
      Json.mkObj [("file", Json.str o.file),
        ("entries", Json.arr (o.entries.map jentry).toArray),
        ("diags", jstrs (o.diags.map diagName)),
        ("pages", Json.arr (o.pages.map (fun p => Json.mkObj [
          ("id", Json.str (p.dir ++ "/" ++ String.ofList p.name)),
          ("diags", jstrs (p.diags.map diagName))])).toArray)])).toArray)])

/-- request: texts [string], env [[k,v]], wordchars → [{out, diags}] -/
def subst (j : Json) : Except String Json := do
  let env ← pairsOf (← j.getObjVal? "env")
  let wc := (← str j "wordchars").toList
  let isName := isNameChar (fun c => asciiWord c || wc.contains c)
  let texts ← strs j "texts"
  pure (Json.mkObj [("out", Json.arr (texts.map (fun t =>
    let r := substituteText isName (fun k => env.lookup k) t.toList
    Json.mkObj [("out", jtext r.1), ("diags", jstrs (r.2.map diagName))])).toArray)])

def ops : List (String × (Json → Except String Json)) := [("c18.build", build), ("c18.subst", subst)]

end SnootyVerif.Drv.C18
