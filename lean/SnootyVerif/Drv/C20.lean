import SnootyVerif.Drv.Util
import SnootyVerif.Model.LitInc
open Lean
namespace SnootyVerif.Drv.C20
open SnootyVerif.Drv SnootyVerif.LitInc

def asciiWord (c : Char) : Bool := c.isAlphanum || c == '_'
/-- `str.isspace` on ASCII: TAB LF VT FF CR, FS GS RS US, SPACE -/
def asciiSpace (c : Char) : Bool :=
  let n := c.toNat
  (9 ≤ n && n ≤ 13) || (28 ≤ n && n ≤ 32)

def optBool (j : Json) (k : String) : Option Bool :=
  match j.getObjVal? k with
  | .ok (.bool b) => some b
  | _ => none

def hasKey (j : Json) (k : String) : Bool :=
  match j.getObjVal? k with
  | .ok _ => true
  | _ => false

def parseOpts (o : Json) : Except String LitInc.Options := do
  let dedent : DedentOpt ←
    match o.getObjVal? "dedent" with
    | .ok (.bool true) => pure DedentOpt.flag
    | .ok v => match v.getNat? with
      | .ok n => pure (DedentOpt.count n)
      | .error e => throw s!"dedent: {e}"
    | .error _ => pure DedentOpt.absent
  pure {
    startAfter := (optStr o "start-after").map String.toList,
    endBefore := (optStr o "end-before").map String.toList,
    dedent := dedent,
    emphasize := (optStr o "emphasize-lines").map String.toList,
    language := optStr o "language",
    caption := optStr o "caption",
    copyable := optBool o "copyable",
    linenos := hasKey o "linenos",
    linenoStart := optNat o "lineno-start",
    source := optStr o "source" }

def parseFile (f : Json) : Except String FileState := do
  let k ← str f "kind"
  if k == "text" then pure (FileState.text (← str f "text").toList)
  else if k == "oserror" then pure FileState.osError
  else if k == "undecodable" then pure FileState.undecodable
  else throw s!"file kind {k}"

def parseName (s : String) : Except String DirName :=
  if s == "literalinclude" then pure .literalinclude
  else if s == "input" then pure .input
  else if s == "output" then pure .output
  else throw s!"directive {s}"

def diagName : Diag → String
  | .expectedPathArg => "ExpectedPathArg"
  | .cannotOpen => "CannotOpenFile"
  | .notFound => "InvalidLiteralInclude:not-found"
  | .ambiguous => "AmbiguousLiteralInclude"
  | .order => "InvalidLiteralInclude:order"
  | .emphasize => "InvalidLiteralInclude:emphasize"

def depName : Dep → String
  | .unset => "unset"
  | .noneRecorded => "none"
  | .hashed => "hash"

def jOptNat : Option Nat → Json
  | some n => Json.num n
  | none => Json.null

def codeJson (c : Code) : Json :=
  Json.mkObj [
    ("lang", jopt c.lang), ("caption", jopt c.caption), ("copyable", Json.bool c.copyable),
    ("emphasize_lines", match c.emphasize with
      | none => Json.null
      | some ps => Json.arr (ps.map (fun p => Json.arr #[Json.num (JsonNumber.fromInt p.1), Json.num (JsonNumber.fromInt p.2)])).toArray),
    ("value", Json.str (String.ofList c.value)),
    ("linenos", Json.bool c.linenos), ("lineno_start", jOptNat c.linenoStart), ("source", jopt c.source)]

/-- request: wordchars / spacechars = the non-ASCII characters occurring in the case that Python's
`\w` / `str.isspace` accept; parent = io-code-block options or null; dirs = directives in order. -/
def run (j : Json) : Except String Json := do
  let wc := (← str j "wordchars").toList
  let sc := (← str j "spacechars").toList
  let isWord := fun c => asciiWord c || wc.contains c
  let isSpace := fun c => asciiSpace c || sc.contains c
  let parent : Option ParentOpts :=
    match j.getObjVal? "parent" with
    | .ok (.obj o) => let p := Json.obj o
      some { caption := optStr p "caption", copyable := optBool p "copyable", source := optStr p "source" }
    | _ => none
  let dirs ← arr j "dirs"
  let out ← dirs.toList.mapM (fun d => do
    let name ← parseName (← str d "name")
    let hasArg ← bool d "hasArg"
    let o ← parseOpts (← d.getObjVal? "opts")
    let f ← parseFile (← d.getObjVal? "file")
    let r := literalInclude isWord isSpace name hasArg o f
    let code := match parent with
      | none => r.code
      | some p => r.code.map (ioAdjust p o.language)
    let matchIdx (m : Option Line) : Json := match m, f with
      | some s, .text t => Json.arr ((linesContain isWord s (splitLines t)).map (fun (n : Nat) => Json.num (JsonNumber.fromNat n))).toArray
      | _, _ => Json.null
    pure (Json.mkObj [
      ("code", match code with | none => Json.null | some c => codeJson c),
      ("diags", jstrs (r.diags.map diagName)),
      ("dep", Json.str (depName r.dep)),
      ("start_matches", matchIdx o.startAfter),
      ("end_matches", matchIdx o.endBefore)]))
  pure (Json.mkObj [("dirs", Json.arr out.toArray)])

/-- the code before the fix (replay of the refutation witness) -/
def orig (j : Json) : Except String Json := do
  let lines := splitLines (← str j "text").toList
  let sa := (optStr j "start-after").map String.toList
  let eb := (optStr j "end-before").map String.toList
  match excerptOrig asciiWord sa eb lines with
  | .error _ => pure (Json.mkObj [("exc", "UnboundLocalError")])
  | .ok r => pure (Json.mkObj [("exc", Json.null), ("value", Json.str (String.ofList (joinLines r.1)))])

/-- the driver's ASCII instantiation of the two parameters (compared with Python on every run) -/
def ascii (_ : Json) : Except String Json :=
  let cps := List.range 128
  let f (p : Char → Bool) : Json :=
    Json.arr ((cps.filter (fun n => p (Char.ofNat n))).map (fun (n : Nat) => Json.num (JsonNumber.fromNat n))).toArray
  pure (Json.mkObj [("word", f asciiWord), ("space", f asciiSpace)])

def ops : List (String × (Json → Except String Json)) :=
  [("c20.run", run), ("c20.orig", orig), ("c20.ascii", ascii)]

end SnootyVerif.Drv.C20
