import SnootyVerif.Drv.Util
import SnootyVerif.Model.Inventory
open Lean
namespace SnootyVerif.Drv.C15
open SnootyVerif.Drv SnootyVerif.Inventory

def S (l : List Char) : Json := Json.str (String.ofList l)

/-- `space`: the characters (of this request) Python's `\s` matches;
`digits`: [[char, int(char)], …] for the characters `\d` matches. -/
def pyRe (j : Json) : Except String PyRe := do
  let sp := (← str j "space").toList
  let ds ← arr j "digits"
  let tbl ← ds.toList.mapM (fun d => do
    let a ← d.getArr?
    let c ← (a[0]?.getD Json.null).getStr?
    let v ← (a[1]?.getD Json.null).getNat?
    match c.toList with
    | [ch] => pure (ch, v)
    | _ => throw "digit entry must be one character")
  pure { isSpace := fun c => sp.contains c
         isDigit := fun c => (tbl.lookup c).isSome
         digitVal := fun c => (tbl.lookup c).getD 0 }

def entryOf (j : Json) : Except String (List Char × Entry) := do
  let key ← str j "key"
  let name ← str j "name"
  let dom ← str j "domain"
  let role ← str j "role"
  let prio ← int j "prio"
  let ub ← str j "uri_base"
  let uri ← str j "uri"
  pure (key.toList, { name := name.toList, domain := dom.toList, role := role.toList, priority := prio,
                      uriBase := ub.toList, uri := uri.toList, display := (optStr j "display").map String.toList })

def jEntry (k : List Char) (e : Entry) : Json :=
  Json.mkObj [("key", S k), ("name", S e.name), ("domain", S e.domain), ("role", S e.role),
              ("prio", Json.num (JsonNumber.fromInt e.priority)), ("uri_base", S e.uriBase), ("uri", S e.uri),
              ("display", match e.display with | some d => S d | none => Json.null)]

def jDict : Option Dict → Json
  | none => Json.null
  | some d => Json.arr (d.map (fun kv => jEntry kv.1 kv.2)).toArray

def jLine : LineResult → Json
  | .skip => Json.str "skip"
  | .raise => Json.str "raise"
  | .entry k e => jEntry k e

def utf8 (l : List Char) : List UInt8 := (String.ofList l).toUTF8.toList

/-- the driver has no zlib: the payload is "compressed" by the identity (UTF-8 only); the harness
compares the model's text with `zlib.decompress` of the real bytes. -/
def idCodec : Codec where
  enc := utf8
  compress := utf8
  decompress := fun b => (String.fromUTF8? (ByteArray.mk b.toArray)).map String.toList

def jBytes (b : List UInt8) : Json :=
  match String.fromUTF8? (ByteArray.mk b.toArray) with
  | some s => Json.str s
  | none => Json.null

/-- `queries`: [[raw key, lower-cased normalised key], …] looked up the way a consuming
`TargetDatabase.__getitem__` does in the loaded inventory `d` -/
def resolveAll (P : PyRe) (j : Json) (d : Option Dict) : Except String Json := do
  let qs := match j.getObjValAs? (Array Json) "queries" with | .ok a => a.toList | .error _ => []
  let out ← qs.mapM (fun q => do
    let a ← q.getArr?
    let raw := (← (a[0]?.getD Json.null).getStr?).toList
    let low := (← (a[1]?.getD Json.null).getStr?).toList
    let nk := normalizeWs P raw
    let hit := match d with
      | none => Json.null
      | some d => match resolveIn d nk low with
        | some e => Json.mkObj [("name", S e.name), ("uri", S e.uri)]
        | none => Json.null
    pure (Json.mkObj [("nk", S nk), ("hit", hit)]))
  pure (Json.arr out.toArray)

/-- entries → the file `dumps` writes (header + uncompressed payload), what `parse` reads back from
it, per entry: the dumped line, its parse, well-formedness, the canonical entry. -/
def inv (j : Json) : Except String Json := do
  let P ← pyRe j
  let es ← (← arr j "entries").toList.mapM entryOf
  let name := (← str j "project").toList
  let version := (← str j "version").toList
  let file := dumps idCodec name version es
  let per := es.map (fun kv =>
    Json.mkObj [("line", S (dumpLine kv.2)), ("parsed", jLine (parseLine P (dumpLine kv.2))),
                ("wf", Json.bool (wfEntry P kv.2)), ("canon", jEntry (keyOf (canon kv.2)) (canon kv.2))])
  let back := match file with | some b => parse P idCodec b | none => none
  let res ← resolveAll P j back
  pure (Json.mkObj [("file", match file with | some b => jBytes b | none => Json.null),
                    ("raised", Json.bool file.isNone),
                    ("parsed", jDict back), ("resolved", res),
                    ("per", Json.arr per.toArray)])

/-- raw payload text → per-line results and the final dict -/
def lines (j : Json) : Except String Json := do
  let P ← pyRe j
  let text := (← str j "text").toList
  let ls := splitLines text
  pure (Json.mkObj [("per", Json.arr (ls.map (fun l => jLine (parseLine P l))).toArray),
                    ("parsed", jDict (parseLines P ls []))])

/-- raw file bytes given as text (ASCII header experiments): payload after "4 lines" -/
def skip (j : Json) : Except String Json := do
  let t := utf8 (← str j "text").toList
  pure (Json.mkObj [("payload", jBytes (payload t))])

def partsOf (j : Json) : Except String (List (List Char)) := do
  let a ← j.getArr?
  a.toList.mapM (fun x => do pure (← x.getStr?).toList)

def dirhtml (j : Json) : Except String Json := do
  let ps ← (← arr j "paths").toList.mapM partsOf
  pure (Json.mkObj [("dirhtml", Json.arr (ps.map (fun p => match asDirhtml p with | some s => S s | none => Json.null)).toArray),
                    ("slug", Json.arr (ps.map (fun p => match withoutKnownSuffix p with | some s => S s | none => Json.null)).toArray)])

/-- local definitions (key → [definition…]) → generated inventory, and what `parse(dumps(·))` makes of it -/
def gen (j : Json) : Except String Json := do
  let P ← pyRe j
  let ds ← (← arr j "defs").toList.mapM (fun kd => do
    let key ← str kd "key"
    let defs ← (← arr kd "defs").toList.mapM (fun d => do
      let fid ← partsOf (← d.getObjVal? "fileid")
      pure ({ canonical := (← str d "canonical").toList, fileid := fid, title := (← str d "title").toList,
              htmlId := (← str d "html_id").toList } : LocalDef))
    pure (key.toList, defs))
  let g := generateInventory P ds
  let back := match g with
    | none => none
    | some d => match dumps idCodec "verif".toList [] d with
      | none => none
      | some b => parse P idCodec b
  let res ← resolveAll P j back
  pure (Json.mkObj [("inventory", jDict g), ("parsed", jDict back), ("resolved", res)])

def ops : List (String × (Json → Except String Json)) :=
  [("c15.inv", inv), ("c15.lines", lines), ("c15.skip", skip), ("c15.dirhtml", dirhtml), ("c15.gen", gen)]

end SnootyVerif.Drv.C15
