import SnootyVerif.Drv.Util
import SnootyVerif.Model.EventWalk
import SnootyVerif.Model.Handlers
import SnootyVerif.Gen.Handlers
open Lean
namespace SnootyVerif.Drv.C02
open SnootyVerif.Drv SnootyVerif.EventWalk

partial def parseNd (j : Json) : Except String Nd := do
  let id ← nat j "id"
  match ← str j "k" with
  | "leaf" => pure (.leaf id)
  | "plain" => pure (.plain id (← (← arr j "c").toList.mapM parseNd))
  | "dir" | "dli" => pure (.pre id (← (← arr j "pre").toList.mapM parseNd) (← (← arr j "c").toList.mapM parseNd))
  | "root" => pure (.root id (← str j "file") (← (← arr j "c").toList.mapM parseNd))
  | k => throw s!"bad kind {k}"

def showEvt : Evt → Json
  | .pageStart r c => Json.arr #["ps", jopt r, jopt c]
  | .pageEnd r c => Json.arr #["pe", jopt r, jopt c]
  | .enter i r c => Json.arr #["in", i, jopt r, jopt c]
  | .exit i r c => Json.arr #["out", i, jopt r, jopt c]

def walk (j : Json) : Except String Json := do
  let pages ← (← arr j "pages").toList.mapM (fun p => do pure (← str p "file", ← parseNd (← p.getObjVal? "ast")))
  pure (Json.mkObj [("log", Json.arr ((consume pages).map showEvt).toArray)])

/-- request {stack: [names]} → `scan_for_pattern` with the translated target pattern: {ok: bool} | {exc} -/
def scan (j : Json) : Except String Json := do
  match Handlers.scanForPattern Gen.tabsTargetPattern (← strs j "stack") with
  | .ok b => pure (Json.mkObj [("ok", Json.bool b)])
  | .error _ => pure (Json.mkObj [("exc", "IndexError")])

def ops : List (String × (Json → Except String Json)) := [("c02.walk", walk), ("c02.scan", scan)]

end SnootyVerif.Drv.C02
