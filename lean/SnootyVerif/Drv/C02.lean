import SnootyVerif.Drv.Util
import SnootyVerif.Model.EventWalk
import SnootyVerif.Model.Handlers
import SnootyVerif.Model.TitleInject
import SnootyVerif.Gen.Handlers
open Lean
namespace SnootyVerif.Drv.C02
open SnootyVerif.Drv SnootyVerif.EventWalk

partial def parseNd (j : Json) : Except String Nd := do
  let id ← nat j "id"
  match ← str j "k" with
  | "leaf" => pure (.leaf id)
  | "plain" => pure (.plain id (← (← arr j "c").toList.mapM parseNd))
  | "dir" | "dli" => pure (.pre id (← (← arr j "pre").toList.mapM parseNd) (← (← arr j "c").toList.mapM parseNd))
  | "root" => pure (.root id (← str j "file") (← (← arr j "c").toList.mapM parseNd))
  | k => throw s!"bad kind {k}"

def showEvt : Evt → Json
  | .pageStart r c => Json.arr #["ps", jopt r, jopt c]
  | .pageEnd r c => Json.arr #["pe", jopt r, jopt c]
  | .enter i r c => Json.arr #["in", i, jopt r, jopt c]
  | .exit i r c => Json.arr #["out", i, jopt r, jopt c]

def walk (j : Json) : Except String Json := do
  let pages ← (← arr j "pages").toList.mapM (fun p => do pure (← str p "file", ← parseNd (← p.getObjVal? "ast")))
  pure (Json.mkObj [("log", Json.arr ((consume pages).map showEvt).toArray)])

/-- request {stack: [names]} → `scan_for_pattern` with the translated target pattern: {ok: bool} | {exc} -/
def scan (j : Json) : Except String Json := do
  match Handlers.scanForPattern Gen.tabsTargetPattern (← strs j "stack") with
  | .ok b => pure (Json.mkObj [("ok", Json.bool b)])
  | .error _ => pure (Json.mkObj [("exc", "IndexError")])

/-! title injection: node = ["t", text] | ["w", [kids]] | ["r", target, [kids]] -/
partial def parseN (j : Json) : Except String TitleInject.N := do
  let a ← j.getArr?
  match a.toList with
  | [.str "t", .str s] => pure (.text s)
  | [.str "w", .arr ks] => pure (.wrap (← ks.toList.mapM parseN))
  | [.str "r", .str t, .arr ks] => pure (.ref t (← ks.toList.mapM parseN))
  | _ => throw "bad title node"

partial def putN : TitleInject.N → Json
  | .text s => Json.arr #["t", Json.str s]
  | .wrap cs => Json.arr #["w", Json.arr (cs.map putN).toArray]
  | .ref t cs => Json.arr #["r", Json.str t, Json.arr (cs.map putN).toArray]

/-- request {own, nodes} → `without_ref_roles(nodes, own)` -/
def stripOp (j : Json) : Except String Json := do
  let ns ← (← arr j "nodes").toList.mapM parseN
  pure (Json.mkObj [("nodes", Json.arr ((TitleInject.stripL (← str j "own") ns).map putN).toArray)])

def ops : List (String × (Json → Except String Json)) := [("c02.walk", walk), ("c02.scan", scan), ("c02.strip", stripOp)]

end SnootyVerif.Drv.C02
