import SnootyVerif.Drv.Util
import SnootyVerif.Model.Subst
import SnootyVerif.Model.SubstCtx
open Lean
namespace SnootyVerif.Drv.C07
open SnootyVerif.Drv SnootyVerif.Subst

partial def parseItem (j : Json) : Except String Item := do
  match optStr j "t" with
  | some s => pure (.txt s)
  | none =>
    let name ← str j "r"
    let line ← nat j "l"
    pure (.ref name line false [])

def parseBody (j : Json) (k : String) : Except String Body := do
  (← arr j k).toList.mapM parseItem

def parseTable (j : Json) (k : String) : Except String Table := do
  (← arr j k).toList.mapM (fun e => do pure (← str e "k", ← parseBody e "v"))

def parseEv (j : Json) : Except String Ev := do
  match ← str j "e" with
  | "def" => pure (.defn (← str j "name") (← parseBody j "body"))
  | "use" => pure (.use (← nat j "line") (← str j "name"))
  | "enter" => pure (.enter (← str j "file") (← parseTable j "repl"))
  | "exit" => pure .exit
  | e => throw s!"bad event {e}"

def showDiag (d : Diag) : Json :=
  Json.arr #[d.file, (match d.kind with | .circular => "circular" | .unresolved => "unresolved"), d.line]

def page (j : Json) : Except String Json := do
  let proj ← parseTable j "proj"
  let fuel ← nat j "fuel"
  let pages ← arr j "pages"
  let out ← pages.toList.mapM (fun p => do
    let file ← str p "file"
    let evs ← (← arr p "events").toList.mapM parseEv
    match runPage proj fuel file evs with
    | none => pure (Json.mkObj [("ok", false)])
    | some r => pure (Json.mkObj [("ok", true),
        ("uses", Json.arr (r.uses.map (fun (l, s) => Json.arr #[l, s])).toArray),
        ("diags", Json.arr (r.diags.map showDiag).toArray)]))
  pure (Json.mkObj [("pages", Json.arr out.toArray)])

def consts (j : Json) : Except String Json := do
  let wc := (← str j "wordchars").toList
  let isWord := fun (c : Char) => c.isAlphanum || c == '_' || wc.contains c
  let cs ← (← arr j "consts").toList.mapM (fun e => do pure ((← str e "k").toList, (← str e "v").toList))
  let rendered := if (← bool j "render") then renderConstants isWord [] cs else cs
  let src := (← str j "src").toList
  let (out, ds) := substConsts isWord rendered (src.length + 1) 0 src
  pure (Json.mkObj [("out", String.ofList out),
    ("diags", Json.arr (ds.map (fun (n, l) => Json.arr #[String.ofList n, l])).toArray),
    ("consts", Json.arr (rendered.map (fun (k, v) => Json.arr #[String.ofList k, String.ofList v])).toArray)])

partial def itemText : Item → String
  | .txt s => s
  | .ref _ _ _ cs => String.join (cs.map itemText)

def static (j : Json) : Except String Json := do
  let env ← parseTable j "proj"
  let uses ← arr j "uses"
  let out ← uses.toList.mapM (fun u => do
    let name ← str u "name"
    let line ← nat u "line"
    match useStatic env name line with
    | none => pure (Json.mkObj [("ok", false)])
    | some (items, ds) =>
      pure (Json.mkObj [("ok", true), ("line", line), ("text", String.join (items.map itemText)),
        ("diags", Json.arr (ds.map (fun d => match d with
          | .circular _ l => Json.arr #["circular", l]
          | .unresolved _ l => Json.arr #["unresolved", l])).toArray)]))
  pure (Json.mkObj [("uses", Json.arr out.toArray)])

/-! context adaptation: nodes are `{"k": "inl"|"blk", "id": n}` or `{"k": "para", "id": n, "c": [...]}` -/
open SnootyVerif.SubstCtx in
partial def ctxNode (j : Json) : Except String Node := do
  let id ← nat j "id"
  match ← str j "k" with
  | "inl" => pure (.inl id)
  | "blk" => pure (.blk id)
  | "para" => pure (.para id (← (← arr j "c").toList.mapM ctxNode))
  | k => throw s!"bad node kind {k}"

open SnootyVerif.SubstCtx in
partial def ctxJson : Node → Json
  | .inl i => Json.mkObj [("k", "inl"), ("id", i)]
  | .blk i => Json.mkObj [("k", "blk"), ("id", i)]
  | .para i cs => Json.mkObj [("k", "para"), ("id", i), ("c", Json.arr (cs.map ctxJson).toArray)]
  | .wrap cs => Json.mkObj [("k", "wrap"), ("c", Json.arr (cs.map ctxJson).toArray)]

open SnootyVerif.SubstCtx in
def ctx (j : Json) : Except String Json := do
  let ns ← (← arr j "nodes").toList.mapM ctxNode
  let ex := match extractInline ns with
    | .error _ => Json.mkObj [("exc", "IndexError")]
    | .ok none => Json.mkObj [("none", true)]
    | .ok (some cs) => Json.mkObj [("nodes", Json.arr (cs.map ctxJson).toArray)]
  let si := match searchInline ns with
    | .error _ => Json.mkObj [("exc", "IndexError")]
    | .ok .invalidContext => Json.mkObj [("invalid", true)]
    | .ok (.children cs) => Json.mkObj [("nodes", Json.arr (cs.map ctxJson).toArray)]
  pure (Json.mkObj [("extract", ex), ("inline", si), ("block", Json.arr ((searchBlock ns).map ctxJson).toArray)])

def ops : List (String × (Json → Except String Json)) :=
  [("c07.page", page), ("c07.consts", consts), ("c07.static", static), ("c07.ctx", ctx)]

end SnootyVerif.Drv.C07
