import SnootyVerif.Properties.C11
import SnootyVerif.Drv.Util
import SnootyVerif.Model.Cache
open Lean
namespace SnootyVerif.Drv.C11
open SnootyVerif.Drv SnootyVerif.Cache

/-- file contents are represented by their digest string (the harness computes blake2b);
`hash` / `srcKey` of the driver just read the digest back -/
def toBytes (s : String) : Bytes := s.toList.map Char.toNat
def ofBytes (b : Bytes) : String := String.ofList (b.map Char.ofNat)

/-- source key of the driver: the digest, and whether the read was clean (no leading `!`) -/
def srcKeyD (b : Bytes) : String × Bool :=
  match b with
  | 33 :: rest => (ofBytes rest, false)
  | _ => (ofBytes b, true)

def optStrJ (j : Json) : Option String := match j with | .str s => some s | _ => none

/-- request: page, env = [[fileid, digest]] (absent = unreadable; the page's own entry holds its
source key, prefixed with `!` when reading the source produced diagnostics), entries = [{fileid, key, ok, deps: null | [[fileid, digest|null]]}] in dict order.
The stored "page" is the index of the entry. answer: decision hit/miss/FileNotFoundError (+ entry index) -/
def lookupOp (j : Json) : Except String Json := do
  let page ← str j "page"
  let envA ← arr j "env"
  let envL ← envA.toList.mapM (fun x => do
    let a ← x.getArr?
    match a.toList with
    | [f, d] => pure ((← f.getStr?), (← d.getStr?))
    | _ => throw "env item")
  let env : Env := fun f => (find f envL).map toBytes
  let es ← arr j "entries"
  let mut pages : List ((FileId × String) × Option (Payload Nat String)) := []
  let mut i := 0
  for x in es.toList do
    let fid ← str x "fileid"
    let key ← str x "key"
    let ok ← bool x "ok"
    let deps : Option (List (FileId × Option String)) ← match x.getObjVal? "deps" with
      | .ok (.arr ds) => do
        let l ← ds.toList.mapM (fun d => do
          let a ← d.getArr?
          match a.toList with
          | [f, h] => pure ((← f.getStr?), optStrJ h)
          | _ => throw "dep item")
        pure (some l)
      | _ => pure none
    let v : Option (Payload Nat String) := if ok then some { page := i, deps := deps } else none
    pages := setEntry (fid, key) v pages
    i := i + 1
  let c : CacheData Nat String String := { specifier := [], pages := pages }
  match lookup srcKeyD ofBytes c env page with
  | .error .fileNotFound => pure (Json.mkObj [("decision", "FileNotFoundError")])
  | .ok none => pure (Json.mkObj [("decision", "miss")])
  | .ok (some k) => pure (Json.mkObj [("decision", "hit"), ("entry", k)])

/-- request: decodes (bool: gunzip+unpickle+type checks pass), file_spec, cur → loaded / rejected -/
def loadOp (j : Json) : Except String Json := do
  let decodes ← bool j "decodes"
  let fs ← strs j "file_spec"
  let cur ← strs j "cur"
  let decode : Bytes → Option (CacheData Nat String String) :=
    fun _ => if decodes then some { specifier := fs, pages := [] } else none
  match loadFile decode cur [] with
  | some _ => pure (Json.mkObj [("load", "loaded")])
  | none => pure (Json.mkObj [("load", "rejected")])

/-- the statement an end-to-end case is checked against -/
def obligationOp (_ : Json) : Except String Json :=
  pure (Json.mkObj [("theorem", "cache_transparent"), ("hypothesis", "DepsCoverReads")])

def ops : List (String × (Json → Except String Json)) :=
  [("c11.lookup", lookupOp), ("c11.load", loadOp), ("c11.obligation", obligationOp)]

end SnootyVerif.Drv.C11
