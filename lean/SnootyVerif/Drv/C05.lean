import SnootyVerif.Drv.Util
import SnootyVerif.Model.Determinism
open Lean
namespace SnootyVerif.Drv.C05
open SnootyVerif.Drv SnootyVerif.Determinism

def nats (j : Json) (k : String) : Except String (List Nat) := do
  let a ← arr j k
  a.toList.mapM (fun x => x.getNat?)

def jnats (xs : List Nat) : Json := Json.arr (xs.map (fun n => toJson n)).toArray

def cps (s : String) : List Nat := s.toList.map Char.toNat

/-- {"t":"prim","s":[cp…]} | {"t":"record","fields":[{"name":[cp…],"nohash":b,"val":V}…]} |
{"t":"seq"|"set","xs":[V…]} | {"t":"map","es":[{"key":[cp…],"val":V}…]} | {"t":"enum","s":[cp…]} |
{"t":"none"} | {"t":"other"} -/
partial def parseVal (j : Json) : Except String HVal := do
  let t ← str j "t"
  match t with
  | "prim" => pure (.prim (← nats j "s"))
  | "enum" => pure (.enum (← nats j "s"))
  | "none" => pure .none
  | "other" => pure .other
  | "seq" => pure (.seq (← (← arr j "xs").toList.mapM parseVal))
  | "set" => pure (.set (← (← arr j "xs").toList.mapM parseVal))
  | "record" =>
    let fs ← (← arr j "fields").toList.mapM (fun f => do
      pure (HField.mk (← nats f "name") (← bool f "nohash") (← parseVal (← f.getObjVal? "val"))))
    pure (.record fs)
  | "map" =>
    let es ← (← arr j "es").toList.mapM (fun e => do
      pure (HEntry.mk (← nats e "key") (← parseVal (← e.getObjVal? "val"))))
    pure (.map es)
  | other => throw s!"unknown HVal tag {other}"

/-- request: value, fixed (bool). Free hash: the digest is the list of bytes fed. -/
def shashOp (j : Json) : Except String Json := do
  let v ← parseVal (← j.getObjVal? "value")
  let fixed ← bool j "fixed"
  let r := if fixed then shash freeHash v else shashCur freeHash v
  match r with
  | .ok d => pure (Json.mkObj [("ok", jnats d)])
  | .error .typeError => pure (Json.mkObj [("exc", "TypeError")])

def parseKey (j : Json) : Except String (List (List Nat)) := do
  let a ← j.getArr?
  a.toList.mapM (fun p => do pure (cps (← p.getStr?)))

def jkey (k : List (List Nat)) : Json :=
  Json.arr (k.map (fun p => Json.str (String.ofList (p.map Char.ofNat)))).toArray

/-- request: arrivals = [[key parts, value]] in arrival order → snapshot [[key parts, value]] -/
def snapshotOp (j : Json) : Except String Json := do
  let arrivals ← (← arr j "arrivals").toList.mapM (fun e => do
    let a ← e.getArr?
    match a.toList with
    | [k, v] => pure ((← parseKey k), (← v.getNat?))
    | _ => throw "arrival must be [key, value]")
  let snap := snapshotOf pathLe arrivals
  pure (Json.mkObj [("snapshot", Json.arr (snap.map (fun kv => Json.arr #[jkey kv.1, toJson kv.2])).toArray)])

/-- request: assets = [[key string, fileid string, uploadable, payload]] in enumeration order;
events = [[key parts, [diagnostic ids]]] in reporting order -/
def manifestOp (j : Json) : Except String Json := do
  let assets ← (← arr j "assets").toList.mapM (fun e => do
    let a ← e.getArr?
    match a.toList with
    | [k, f, u, p] => pure (cps (← k.getStr?), cps (← f.getStr?), (← u.getBool?), (← p.getNat?))
    | _ => throw "asset must be [key, fileid, uploadable, payload]")
  let events ← (← arr j "events").toList.mapM (fun e => do
    let a ← e.getArr?
    match a.toList with
    | [k, ds] => pure ((← parseKey k), (← (← ds.getArr?).toList.mapM (fun d => d.getNat?)))
    | _ => throw "event must be [key, diagnostics]")
  let outA := manifestOfSet assets
  let outOld := manifestOfSetKeyOnly assets
  let outD := manifestDiagnostics pathLe events
  pure (Json.mkObj [
    ("assets", Json.arr (outA.map (fun a => Json.arr #[Json.str (String.ofList ((a.1.headD []).map Char.ofNat)), toJson a.2.2])).toArray),
    ("assets_key_only", Json.arr (outOld.map (fun a => Json.arr #[Json.str (String.ofList (a.1.map Char.ofNat)), toJson a.2.2])).toArray),
    ("diagnostics", Json.arr (outD.map (fun e => Json.arr #[jkey e.1, jnats e.2])).toArray)])

def pyQuote (s : List Char) : List Char := ['\''] ++ s ++ ['\'']

/-- request: name, enumeration (names in the order Python enumerates the set), fixed -/
def msgOp (j : Json) : Except String Json := do
  let name := (← str j "name").toList
  let enumeration := (← strs j "enumeration").map String.toList
  let fixed ← bool j "fixed"
  let m := if fixed then missingOptionsMsg name enumeration else missingOptionsMsgCur name enumeration
  let c := if fixed then expectedChildrenStr pyQuote enumeration else expectedChildrenStrCur pyQuote enumeration
  pure (Json.mkObj [("missing", Json.str (String.ofList m)), ("children", Json.str (String.ofList c))])

def ops : List (String × (Json → Except String Json)) :=
  [("c05.shash", shashOp), ("c05.snapshot", snapshotOp), ("c05.manifest", manifestOp), ("c05.msg", msgOp)]

end SnootyVerif.Drv.C05
