import SnootyVerif.Properties.C12
import SnootyVerif.Drv.Util
import SnootyVerif.Model.Project
open Lean
namespace SnootyVerif.Drv.C12
open SnootyVerif.Drv SnootyVerif.Project

/-- one observed parse: source `p`, under the conditions `conds` (path ↦ content hash / absent) it yields `out`
and records the graph edges `rec` -/
structure Row where
  p : String
  conds : List (String × Option String)
  out : List (String × String)
  recd : List String

abbrev E := Env String String

def Row.holds (r : Row) (e : E) (p : String) : Bool :=
  r.p == p && r.conds.all (fun c => e c.1 == c.2)

def findRow (rows : List Row) (e : E) (p : String) : Option Row := rows.find? (fun r => r.holds e p)

/-- the toy parser given by the harness as a table: the first row for `p` whose conditions hold in `e` -/
def tparse (rows : List Row) (e : E) (p : String) : List (String × String) :=
  match findRow rows e p with | some r => r.out | none => []
def trecorded (rows : List Row) (e : E) (p : String) : List String :=
  match findRow rows e p with | some r => r.recd | none => []

/-- `reads` of the table parser is the coarse footprint "every path some row mentions": with it the footprint law is
provable for every table (`find_congr`), so `tableParser` is a lawful `Parser` without any assumption on the harness data -/
def allPaths (rows : List Row) : List String := rows.foldr (fun r acc => r.p :: (r.conds.map (·.1)) ++ acc) []

theorem all_congr (l : List (String × Option String)) (e e' : E)
    (h : ∀ c ∈ l, e c.1 = e' c.1) : l.all (fun c => e c.1 == c.2) = l.all (fun c => e' c.1 == c.2) := by
  induction l with
  | nil => rfl
  | cons c l ih =>
    simp only [List.all_cons]
    rw [h c List.mem_cons_self, ih (fun c' hc' => h c' (List.mem_cons_of_mem _ hc'))]

theorem mem_allPaths (rows : List Row) (r : Row) (hr : r ∈ rows) (c : String × Option String) (hc : c ∈ r.conds) :
    c.1 ∈ allPaths rows := by
  induction rows with
  | nil => cases hr
  | cons r' rows ih =>
    simp only [allPaths, List.foldr_cons]
    cases List.mem_cons.1 hr with
    | inl h =>
      subst h
      apply List.mem_cons_of_mem
      apply List.mem_append_left
      exact List.mem_map.2 ⟨c, hc, rfl⟩
    | inr h =>
      apply List.mem_cons_of_mem
      apply List.mem_append_right
      exact ih h

theorem find_congr (rows : List Row) (e e' : E) (p : String)
    (h : ∀ f ∈ allPaths rows, e f = e' f) : findRow rows e p = findRow rows e' p := by
  unfold findRow
  have key : ∀ (l : List Row), (∀ r ∈ l, r ∈ rows) →
      l.find? (fun r => r.holds e p) = l.find? (fun r => r.holds e' p) := by
    intro l
    induction l with
    | nil => intro _; rfl
    | cons r l ih =>
      intro hl
      have hr : r.holds e p = r.holds e' p := by
        unfold Row.holds
        rw [all_congr r.conds e e' (fun c hc => h _ (mem_allPaths rows r (hl r List.mem_cons_self) c hc))]
      simp only [List.find?_cons, hr]
      rw [ih (fun r' hr' => hl r' (List.mem_cons_of_mem _ hr'))]
  exact key rows (fun _ h => h)

def tableParser (rows : List Row) : Parser String String String String :=
  { parse := tparse rows,
    reads := fun _ _ => allPaths rows,
    footprint := by
      intro e e' p h
      unfold tparse
      rw [find_congr rows e e' p h] }

def optS (j : Json) : Option String := match j with | .str s => some s | _ => none

def pairList (a : Array Json) : Except String (List (String × Option String)) :=
  a.toList.mapM (fun x => do
    let xs ← x.getArr?
    match xs.toList with
    | [k, v] => pure ((← k.getStr?), optS v)
    | _ => throw "pair expected")

def parseRow (j : Json) : Except String Row := do
  let p ← str j "p"
  let conds ← pairList (← arr j "conds")
  let out ← pairList (← arr j "out")
  let recd ← strs j "rec"
  pure { p := p, conds := conds, out := out.map (fun x => (x.1, x.2.getD "")), recd := recd }

def parseOp (j : Json) : Except String (Op String String) := do
  let k ← str j "k"
  match k with
  | "postprocess" => pure .postprocess
  | "delete" => pure (.delete (← str j "p"))
  | "update" => pure (.update (← str j "p") (← str j "c"))
  | "create" => pure (.create (← str j "p") (← str j "c"))
  | other => throw s!"unknown op {other}"

def storeJson (keys : List String) (s : Store String String String) : Json :=
  Json.arr ((keys.filterMap (fun k => match s k with
    | some (pg, src) => some (Json.arr #[Json.str k, Json.str pg, Json.str src])
    | none => none)).toArray)

abbrev Res := List (String × Option (String × String))

/-- request: srcs, init [[path, hash|null]], rows, ops, keys, mode ("fixed" = `codeRun`, the model of the fixed code;
"aswritten" = `runAsWritten` with the re-parse set `[p]` for a source `p`).
response: after the initial build and after every operation: the model's store, the clean-build store `storeOf` of the
environment at that point, the dirty mark, and whether what `postprocess()` would deliver equals `post` of the clean store. -/
def runOp (j : Json) : Except String Json := do
  let srcs ← strs j "srcs"
  let keys ← strs j "keys"
  let init ← pairList (← arr j "init")
  let rows ← (← arr j "rows").toList.mapM parseRow
  let ops ← (← arr j "ops").toList.mapM parseOp
  let mode := (optStr j "mode").getD "fixed"
  let P := tableParser rows
  let e0 : E := fun p => match init.lookup p with | some v => v | none => none
  let post : Store String String String → Res := fun s => keys.map (fun k => (k, s k))
  if mode == "aswritten" then
    let single : String → Bool := fun p => !(p.endsWith ".yaml")
    let rec go (es : E × Store String String String) (ops : List (Op String String)) (acc : Array Json) : Array Json :=
      match ops with
      | [] => acc
      | op :: rest =>
        let R := match op.touched with | some q => if q ∈ srcs then [q] else [] | none => []
        let es' := stepAsWritten P srcs single es (op, R)
        go es' rest (acc.push (Json.mkObj [("store", storeJson keys es'.2), ("clean", storeJson keys (storeOf P srcs es'.1))]))
    let s0 := storeOf P srcs e0
    pure (Json.mkObj [("steps", Json.arr (go (e0, s0) ops #[Json.mkObj [("store", storeJson keys s0), ("clean", storeJson keys s0)]]))])
  else
    let recorded := trecorded rows
    let snap (st : CodeSt String String String String Res) : Json :=
      Json.mkObj [("store", storeJson keys st.store), ("clean", storeJson keys (storeOf P srcs st.env)),
                  ("dirty", Json.bool st.dirty),
                  ("deliver_clean", Json.bool (deliver post st.toSt == post (storeOf P srcs st.env)))]
    let rec goC (st : CodeSt String String String String Res) (ops : List (Op String String)) (acc : Array Json) : Array Json :=
      match ops with
      | [] => acc
      | op :: rest =>
        let st' := codeStep P recorded srcs post st op
        goC st' rest (acc.push (snap st'))
    let st0 := CodeSt.init P recorded srcs post e0
    pure (Json.mkObj [("steps", Json.arr (goC st0 ops #[snap st0]))])

def ops : List (String × (Json → Except String Json)) := [("c12.run", runOp)]

end SnootyVerif.Drv.C12
