import SnootyVerif.Properties.C17
import SnootyVerif.Drv.Util
import SnootyVerif.Model.Walk
open Lean
namespace SnootyVerif.Drv.C17
open SnootyVerif.Drv SnootyVerif.Walk

def entry (j : Json) : Except String (Entry String) := do
  let name ← str j "n"
  let k ← str j "k"
  let w ← bool j "w"
  let kind ← match k with
    | "file" => do pure (Kind.file (← str j "c"))
    | "dir" => do pure (Kind.dir (← str j "c"))
    | "dangling" => do pure (Kind.dangling (← str j "c"))
    | "loop" => pure Kind.loop
    | other => throw s!"unknown kind {other}"
  pure { name := name, kind := kind, wanted := w }

/-- request: root = canonical id of the scan root; dirs = [{c, entries:[{n,k,c?,w}]}] in scandir order;
jail / toml = canonical ids for which `inJail` / `hasToml` hold. The model is run with exactly the
fuel of theorem `walk_fuel` (`FS.fuel`). -/
def walkOp (j : Json) : Except String Json := do
  let root ← str j "root"
  let ds ← arr j "dirs"
  let dirs ← ds.toList.mapM (fun d => do
    let c ← str d "c"
    let es ← arr d "entries"
    let es ← es.toList.mapM entry
    pure (c, es))
  let jail ← strs j "jail"
  let toml ← strs j "toml"
  let nested : List String := match j.getObjValAs? (Array String) "nested" with
    | .ok xs => xs.toList
    | .error _ => []
  let fs : FS String := { dirs := dirs, inJail := fun c => jail.contains c, hasToml := fun c => toml.contains c,
                          inNested := fun c => nested.contains c }
  let fuel := fs.fuel
  match walk fs root fuel with
  | .error .fuel => pure (Json.mkObj [("exc", "fuel"), ("fuel", fuel)])
  | .ok st =>
    pure (Json.mkObj [
      ("out", Json.arr (st.out.map (fun y => Json.arr #[jstrs y.1, Json.str y.2])).toArray),
      ("diags", Json.arr (st.diags.map (fun d => Json.arr #[Json.str d.1, Json.str d.2])).toArray),
      ("scans", jstrs st.scans),
      ("seen", jstrs st.seen),
      ("fuel", fuel)])

def ops : List (String × (Json → Except String Json)) := [("c17.walk", walkOp)]

end SnootyVerif.Drv.C17
