import SnootyVerif.Drv.Util
import SnootyVerif.Model.PageDb
open Lean
namespace SnootyVerif.Drv.C13
open SnootyVerif.Drv SnootyVerif.PageDb

def natAt (a : Array Json) (i : Nat) : Except String Nat :=
  match a[i]? with
  | some j => j.getNat?
  | none => .error s!"label: missing argument {i}"

def boolAt (a : Array Json) (i : Nat) : Except String Bool :=
  match a[i]? with
  | some j => j.getBool?
  | none => .error s!"label: missing argument {i}"

def label (j : Json) : Except String Label := do
  let a ← j.getArr?
  let name ← match a[0]? with
    | some n => n.getStr?
    | none => .error "label: empty"
  match name with
  | "set" => pure (.set (← natAt a 1) (← natAt a 2))
  | "del" => pure (.del (← natAt a 1))
  | "inv" => pure .inv
  | "cEnter" => pure (.cEnter (← natAt a 1) (← boolAt a 2))
  | "cJoin" => pure (.cJoin (← natAt a 1))
  | "cClear" => pure (.cClear (← natAt a 1))
  | "rTrack" => pure (.rTrack (← natAt a 1))
  | "rStart" => pure (.rStart (← natAt a 1))
  | "wBegin" => pure (.wBegin (← natAt a 1))
  | "wRun" => pure (.wRun (← natAt a 1))
  | "wPublish" => pure (.wPublish (← natAt a 1))
  | "wRet" => pure (.wRet (← natAt a 1))
  | other => .error s!"label: unknown {other}"

def jstore (s : Store) : Json :=
  Json.arr (s.map (fun p => Json.arr #[Json.num p.1, Json.num p.2])).toArray

def jout : Outcome Store → Json
  | .ok g res => Json.mkObj [("ok", jstore res), ("gen", Json.num g)]
  | .cancelled => Json.str "cancelled"

def cname : CPhase → String
  | .joining => "joining" | .unlocked => "unlocked" | .cleared => "cleared"
  | .tracked => "tracked" | .launched => "launched"

def wname : WPhase Store → String
  | .none => "none" | .started => "started" | .copied _ _ => "copied" | .ran _ _ => "ran"
  | .published _ _ => "published" | .cachedHit _ _ => "cachedHit" | .cancelled => "cancelled"
  | .done _ => "done"

def actor : Label → Option Nat
  | .set _ _ => none | .del _ => none | .inv => none
  | .cEnter r _ => some r | .cJoin r => some r | .cClear r => some r | .rTrack r => some r | .rStart r => some r
  | .wBegin r => some r | .wRun r => some r | .wPublish r => some r | .wRet r => some r

/-- phase of the acting operation after each label ("-" for a disabled label, "" for a mutation) -/
def traceRun (m : Mode) (s : St Store) : List Label → List String
  | [] => []
  | l :: ls =>
    match step m (id : Store → Store) s l with
    | some s' =>
      let d := match actor l with
        | some r => match s'.ops[r]? with
          | some o => cname o.c ++ "/" ++ wname o.w
          | none => "?"
        | none => ""
      d :: traceRun m s' ls
    | none => "-" :: traceRun m s ls

/-- request: mode = "fixed" | "asWritten", labels = [[name, args…]…].  The postprocessor is the identity
on the sorted snapshot.  Disabled labels are skipped and reported in `enabled`. -/
def run (j : Json) : Except String Json := do
  let m ← match (← str j "mode") with
    | "fixed" => pure Mode.fixed
    | "asWritten" => pure Mode.asWritten
    | other => .error s!"mode {other}"
  let ls ← (← arr j "labels").toList.mapM label
  let (s, en) := runLenient m (id : Store → Store) (init id) ls
  pure (Json.mkObj [
    ("enabled", Json.arr (en.map Json.bool).toArray),
    ("trace", jstrs (traceRun m (init id) ls)),
    ("ops", Json.arr (s.ops.map (fun o => Json.mkObj [
        ("isReq", Json.bool o.isReq), ("startGen", Json.num o.startGen),
        ("c", Json.str (cname o.c)), ("w", Json.str (wname o.w)),
        ("out", match o.w with | .done out => jout out | _ => Json.null)])).toArray),
    ("store", jstore (snapshotOf s.store)), ("gen", Json.num s.gen),
    ("cached", jstore s.cached), ("cachedGen", Json.num s.cachedGen),
    ("dirty", Json.bool (dirty m s)), ("flag", Json.bool s.flag),
    ("tracked", match s.tracked with | some t => Json.num t | none => Json.null),
    ("joiner", match s.joiner with | some t => Json.num t | none => Json.null)])

def ops : List (String × (Json → Except String Json)) := [("c13.run", run)]

end SnootyVerif.Drv.C13
