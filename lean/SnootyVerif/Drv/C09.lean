import SnootyVerif.Drv.Util
import SnootyVerif.Model.Ids
open Lean
namespace SnootyVerif.Drv.C09
open SnootyVerif.Drv SnootyVerif.Ids

def asciiWord (c : Char) : Bool := c.isAlphanum || c == '_'

/-- request: pages = [{headings:[base…], targets:[base…], footnotes:n}], raw = [string…],
wordchars = the non-ASCII characters of `raw` Python's `\w` accepts (parameter of the model). -/
def page (j : Json) : Except String Json := do
  let pages ← arr j "pages"
  let out ← pages.toList.mapM (fun p => do
    let hs ← strs p "headings"
    let ts ← strs p "targets"
    let nf ← nat p "footnotes"
    pure (Json.mkObj [("headings", jstrs (assignAll hs)), ("targets", jstrs (assignAll ts)),
                      ("footnotes", jstrs (footnotes nf))]))
  let raw ← strs j "raw"
  let wc := (← str j "wordchars").toList
  let isWord := fun c => asciiWord c || wc.contains c
  pure (Json.mkObj [("pages", Json.arr out.toArray),
                    ("html5", jstrs (raw.map (fun s => String.ofList (makeHtml5Id isWord s.toList))))])

def ops : List (String × (Json → Except String Json)) := [("c09.page", page)]

end SnootyVerif.Drv.C09
