import SnootyVerif.Drv.Util
import SnootyVerif.Model.Diag
open Lean
namespace SnootyVerif.Drv.C14
open SnootyVerif.Drv SnootyVerif.Diag

/-- a diagnostic on the wire: {"c": class name, "l": line, "s": severity, "t": object identity} -/
def getD (j : Json) : Except String D := do
  pure ⟨← str j "c", ← nat j "l", ← nat j "s", ← nat j "t"⟩

def getDs (j : Json) : Except String (List D) := do
  let a ← j.getArr?
  a.toList.mapM getD

def putD (d : D) : Json :=
  Json.mkObj [("c", Json.str d.cls), ("l", Json.num d.line), ("s", Json.num d.sev), ("t", Json.num d.oid)]

def putDs (ds : List D) : Json := Json.arr (ds.map putD).toArray

/-- a dict on the wire: [[key, [D…]], …] in insertion order -/
def getMap (j : Json) : Except String DMap := do
  let a ← j.getArr?
  a.toList.mapM (fun e => do
    let p ← e.getArr?
    match p.toList with
    | [k, v] => pure (← k.getStr?, ← getDs v)
    | _ => throw "map entry must be [key, list]")

def putMap (m : DMap) : Json := Json.arr (m.map (fun e => Json.arr #[Json.str e.1, putDs e.2])).toArray

def getOuts (j : Json) : Except String (List Out) := do
  let a ← j.getArr?
  a.toList.mapM (fun e => do pure ⟨← str e "out", ← str e "src", ← getDs (← e.getObjVal? "ds")⟩)

def field (j : Json) (k : String) : Except String Json := j.getObjVal? k

/-- request {parsed, orphan, others:[map…], silence}: `PageDatabase.merge_diagnostics(*others)` after the given
`__setitem__` / `set_orphan_diagnostics` calls, and the filter applied to every list of the result -/
def merge (j : Json) : Except String Json := do
  let parsed ← getOuts (← field j "parsed")
  let orphan ← getMap (← field j "orphan")
  let others ← (← arr j "others").toList.mapM getMap
  let S ← strs j "silence"
  -- orphan arrives as the sequence of set_orphan_diagnostics calls: a dict assignment each
  let orphanDict := orphan.foldl (fun acc e => dictSet acc e.1 e.2) []
  let m := mergeDiagnostics (pagesStore parsed) orphanDict (allKeys others) others
  let old := mergeDiagnosticsOld (pagesStore parsed) orphanDict (allKeys others) others
  pure (Json.mkObj [("merged", putMap m), ("filtered", putMap (filtered S m)), ("old", putMap old)])

/-- request {ops: [{op:"set",out,src,ds} | {op:"orphan",k,ds} | {op:"del",k}], others, silence}: the history applied to a
`PageDatabase`, then `merge_diagnostics(*others)` -/
def store (j : Json) : Except String Json := do
  let ops ← (← arr j "ops").toList.mapM (fun e => do
    match ← str e "op" with
    | "set" => pure (Op.set ⟨← str e "out", ← str e "src", ← getDs (← e.getObjVal? "ds")⟩)
    | "orphan" => pure (Op.setOrphan (← str e "k") (← getDs (← e.getObjVal? "ds")))
    | "del" => pure (Op.del (← str e "k"))
    | x => throw s!"unknown store op {x}")
  let others ← (← arr j "others").toList.mapM getMap
  let S ← strs j "silence"
  let st := Store.run ops
  let m := mergeDiagnostics st.parsed st.orphan (allKeys others) others
  pure (Json.mkObj [("merged", putMap m), ("filtered", putMap (filtered S m)),
                    ("keys", Json.arr (st.parsed.map (fun o => Json.str o.out)).toArray),
                    ("orphan_keys", Json.arr (st.orphan.map (fun e => Json.str e.1)).toArray)])

def filter (j : Json) : Except String Json := do
  pure (Json.mkObj [("ds", putDs (filterDiagnostics (← strs j "silence") (← getDs (← field j "ds"))))])

def exit (j : Json) : Except String Json := do
  pure (Json.mkObj [("exit", Json.num (mainExit (← bool j "load_error") (← bool j "build") (← nat j "errors") (← bool j "fail")))])

def streams (j : Json) : Except String Json := do
  let S ← strs j "silence"
  let post ← getMap (← field j "post")
  let cfg ← str j "cfg"
  let init ← (← arr j "init").toList.mapM getDs
  let p : Producers := {
    cfg := cfg, init := init,
    parsedA := ← getOuts (← field j "parsedA"), nested := ← getMap (← field j "nested"),
    parsedB := ← getOuts (← field j "parsedB"), orphan := ← getMap (← field j "orphan"),
    post := post, order := allKeys [post, initMap cfg init] }
  let assets ← getMap (← field j "assets")
  let fail ← bool j "fail"
  pure (Json.mkObj [("on", putMap (onStream S p)), ("set", putMap (setStream S p)),
                    ("cli", putMap (cliStream S p assets)),
                    ("errors", Json.num (countErrors (cliStream S p assets))),
                    ("exit", Json.num (cliExit S p assets fail))])

partial def getNode (j : Json) : Except String Node := do
  match ← str j "k" with
  | "fault" => pure (.fault (← getD (← field j "d")))
  | "plain" => pure (.plain (← (← arr j "c").toList.mapM getNode))
  | "root" => pure (.root (← str j "f") (← (← arr j "c").toList.mapM getNode))
  | k => throw s!"unknown node kind {k}"

def walkOp (j : Json) : Except String Json := do
  let cs ← (← arr j "children").toList.mapM getNode
  match walkPage (← str j "fileid") cs with
  | some s => pure (Json.mkObj [("stream", putMap s)])
  | none => pure (Json.mkObj [("exc", "IndexError")])

def ops : List (String × (Json → Except String Json)) :=
  [("c14.merge", merge), ("c14.store", store), ("c14.filter", filter), ("c14.exit", exit), ("c14.streams", streams), ("c14.walk", walkOp)]

end SnootyVerif.Drv.C14
