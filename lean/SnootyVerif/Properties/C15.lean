import SnootyVerif.Proofs.Inventory

/-!
# C15 — the intersphinx inventory round-trips and matches the build

Property theorems only. Model: `Model/Inventory.lean`; helper lemmas: `Proofs/Inventory.lean`.
-/
namespace SnootyVerif.C15
open SnootyVerif.Inventory

/-- the ASCII instance satisfies the hypotheses on the character classes -/
theorem asciiRe_ok : PyReOk asciiRe where
  sp_space := by decide
  sp_nl := by decide
  sp_colon := by decide
  sp_dash := by decide
  dig_ascii := fun c h => ⟨h, rfl⟩
  dig_nospace := fun c h => by
    have := Char.isDigit_iff_toNat.1 h
    simp only [asciiRe, Bool.or_eq_false_iff, beq_eq_false_iff_ne, ne_eq]
    have h48 : '0'.toNat = 48 := rfl
    have h57 : '9'.toNat = 57 := rfl
    rw [h48, h57] at this
    refine ⟨⟨⟨⟨⟨?_, ?_⟩, ?_⟩, ?_⟩, ?_⟩, ?_⟩ <;> intro hh <;> (try rw [hh] at this) <;> (try simp at this) <;> omega

/-- **One line.** For every well-formed entry, the line `dumps` writes for it is read back by the
regular expression of `parse` (lazy name group included) as exactly that entry, with the role
aliased and `uri` recomputed from `uri_base`. -/
theorem line_roundtrip (P : PyRe) (hP : PyReOk P) (e : Entry) (h : WFEntry P e) :
    parseLine P (dumpLine e) = .entry (keyOf (canon e)) (canon e) :=
  parseLine_dumpLine P hP e h

/-- non-vacuity: a name with inner whitespace, '.', '-', '$' and a non-ASCII letter, a '$'-abbreviated
uri and a display name with a space is well-formed; the line is parsed back. -/
def ex1 : Entry :=
  { name := "mongod. --opt é$".toList, domain := "std".toList, role := "option".toList, priority := -1,
    uriBase := "reference/x/#std-option-$".toList, uri := [], display := some "mongod --opt".toList }

example : WFEntry asciiRe ex1 := by decide
example : parseLine asciiRe (dumpLine ex1) = .entry (keyOf (canon ex1)) (canon ex1) :=
  line_roundtrip asciiRe asciiRe_ok ex1 (by decide)
example : (canon ex1).uri = "reference/x/#std-option-mongod. --opt é$".toList := by decide

/-- **Modulo aliasing only.** When `domain:role` is not one of the seven aliased spellings, the
domain has no ':' and `uri` is what `$`-expansion of `uri_base` gives, the entry read back is the
entry itself. -/
theorem canon_id (e : Entry) (hd : ':' ∉ e.domain)
    (hal : (aliasTable.lookup (e.domain ++ ':' :: e.role)) = none)
    (hu : e.uri = expandDollar e.uriBase e.name) : canon e = e := by
  obtain ⟨name, dom, role, prio, ub, uri, disp⟩ := e
  simp only at hd hal hu
  simp only [canon, canonRole, aliasRole, hal, splitFirstColon_join dom role hd, ← hu]

example : canon { ex1 with uri := "reference/x/#std-option-mongod. --opt é$".toList }
    = { ex1 with uri := "reference/x/#std-option-mongod. --opt é$".toList } :=
  canon_id _ (by decide) (by decide) (by decide)

/-- the aliasing that is documented in `Inventory.parse` -/
example : canonRole "std".toList "doc".toList = ("std".toList, "ext-doc".toList) := by decide
example : canonRole "py".toList "method".toList = ("py".toList, "meth".toList) := by decide
example : canonRole "std".toList "lab:el".toList = ("std".toList, "lab:el".toList) := by decide

/-- **Whole file.** For every inventory of well-formed entries, project name and version without
newline, and any (de)compressor that is inverse on the payload and an encoder that never emits
byte 10 for text without newline: `dumps` succeeds and `parse` of its output yields
`dict((key(canon e), canon e) for e in inv.values())`, in order. -/
theorem inventory_roundtrip (P : PyRe) (hP : PyReOk P) (C : Codec)
    (hC : ∀ s, C.decompress (C.compress s) = some s)
    (hE : ∀ s, '\n' ∉ s → (10 : UInt8) ∉ C.enc s)
    (name version : List Char) (hn : '\n' ∉ name) (hv : '\n' ∉ version)
    (inv : Dict) (hwf : ∀ kv ∈ inv, WFEntry P kv.2) :
    ∃ bytes, dumps C name version inv = some bytes ∧
      parse P C bytes = some (dictOfList (inv.map canonKV)) := by
  refine ⟨header C name version ++ C.compress (body inv), by simp [dumps, hn, hv], ?_⟩
  unfold parse
  rw [payload_header C hE name version hn hv, hC]
  simp only [body]
  rw [splitLines_joinNl _ (by simp)]
  · exact parseLines_dump P hP inv hwf []
  · intro l hl
    rcases List.mem_append.1 hl with hl | hl
    · obtain ⟨kv, hkv, rfl⟩ := List.mem_map.1 hl
      exact dumpLine_no_nl P hP kv.2 (hwf kv hkv)
    · simp at hl; simp [hl]

/-- … and when the canonical keys are pairwise distinct nothing is overwritten: the result is the
list of canonical entries itself (`parse(dumps(inv)) == inv` modulo aliasing). -/
theorem inventory_roundtrip_distinct (P : PyRe) (hP : PyReOk P) (C : Codec)
    (hC : ∀ s, C.decompress (C.compress s) = some s)
    (hE : ∀ s, '\n' ∉ s → (10 : UInt8) ∉ C.enc s)
    (name version : List Char) (hn : '\n' ∉ name) (hv : '\n' ∉ version)
    (inv : Dict) (hwf : ∀ kv ∈ inv, WFEntry P kv.2)
    (hk : ((inv.map canonKV).map Prod.fst).Nodup) :
    ∃ bytes, dumps C name version inv = some bytes ∧ parse P C bytes = some (inv.map canonKV) := by
  obtain ⟨b, h1, h2⟩ := inventory_roundtrip P hP C hC hE name version hn hv inv hwf
  refine ⟨b, h1, ?_⟩
  rw [h2, dictOfList, foldl_dictSet_nodup _ [] (by simpa using hk)]
  simp

/-- **A consumer finds the exact spelling first.** Whatever else the loaded inventory holds (in
particular an entry whose key is the lower-cased spelling of `key`), a key that is present resolves to
its own entry. -/
theorem resolve_exact_wins (d : Dict) (key lowerKey : List Char) (e : Entry) (h : dictGet d key = some e) :
    resolveIn d key lowerKey = some e := by
  simp only [resolveIn, h]

/-- **Another project loading the written file resolves the same names to the same entries.** Under the
hypotheses of `inventory_roundtrip_distinct`, every written entry is what `TargetDatabase.__getitem__`
finds in the loaded inventory under the entry's own (canonical) key, for every value of `key.lower()`. -/
theorem resolve_roundtrip (P : PyRe) (hP : PyReOk P) (C : Codec)
    (hC : ∀ s, C.decompress (C.compress s) = some s)
    (hE : ∀ s, '\n' ∉ s → (10 : UInt8) ∉ C.enc s)
    (name version : List Char) (hn : '\n' ∉ name) (hv : '\n' ∉ version)
    (inv : Dict) (hwf : ∀ kv ∈ inv, WFEntry P kv.2)
    (hk : ((inv.map canonKV).map Prod.fst).Nodup) (kv : List Char × Entry) (hkv : kv ∈ inv) (lowerKey : List Char) :
    ∃ bytes d, dumps C name version inv = some bytes ∧ parse P C bytes = some d ∧
      resolveIn d (keyOf (canon kv.2)) lowerKey = some (canon kv.2) := by
  obtain ⟨b, h1, h2⟩ := inventory_roundtrip_distinct P hP C hC hE name version hn hv inv hwf hk
  refine ⟨b, _, h1, h2, resolve_exact_wins _ _ _ _ ?_⟩
  exact lookup_of_mem_nodup _ _ _ (List.mem_map.2 ⟨kv, hkv, rfl⟩) hk

/-- two options of one program that differ only in letter case: each resolves to itself, also when the
lower-cased key names the twin -/
def exTwins : Dict :=
  [("std:option:m.-o".toList, { ex1 with name := "m.-o".toList, uriBase := "m/#o".toList, uri := "m/#o".toList }),
   ("std:option:m.-O".toList, { ex1 with name := "m.-O".toList, uriBase := "m/#O".toList, uri := "m/#O".toList })]
example : (resolveIn exTwins "std:option:m.-O".toList "std:option:m.-o".toList).map (·.uri) = some "m/#O".toList := by decide
example : (resolveIn exTwins "std:option:m.-o".toList "std:option:m.-o".toList).map (·.uri) = some "m/#o".toList := by decide
example : normalizeWs asciiRe "std:label:a \t b  c".toList = "std:label:a b c".toList := by decide
example : unescapeBackslash "mongodb:php:A\\\\B\\\\\\C".toList = "mongodb:php:A\\B\\\\C".toList := by decide

/-- a two-entry inventory (one aliased role) satisfying all hypotheses -/
def exInv : Dict :=
  [("std:option:x".toList, ex1),
   ("std:doc:ref/a b".toList,
    { name := "ref/a b".toList, domain := "std".toList, role := "doc".toList, priority := 7, uriBase := [], uri := [], display := none })]
example : ∀ kv ∈ exInv, WFEntry asciiRe kv.2 := by decide
example : ((exInv.map canonKV).map Prod.fst).Nodup := by decide
example : (exInv.map canonKV).map Prod.fst = ["std:option:mongod. --opt é$".toList, "std:ext-doc:ref/a b".toList] := by decide

/-- The full statement (no restriction on ':' in names) is false on the unchanged code: the entry
named "a b:c 3 d" is written as `a b:c 3 d std:label -1 x/#a -` and read back as name "a",
role "b:c", priority 3, uri "d". Replayed on the implementation by the harness. -/
theorem roundtrip_refuted_colon :
    ∃ e : Entry, ':' ∈ e.name ∧ parseLine asciiRe (dumpLine e) ≠ .entry (keyOf (canon e)) (canon e) :=
  ⟨{ name := ['a', ' ', 'b', ':', 'c', ' ', '3', ' ', 'd'], domain := sStd, role := ['l', 'a', 'b', 'e', 'l'],
     priority := -1, uriBase := ['x', '/', '#', 'a'], uri := ['x', '/', '#', 'a'], display := none },
   by decide, by decide⟩

/-- The exclusion of the display name "-" from `WFEntry` is necessary: "-" is the format's marker for
"no display name", so an entry titled "-" reads back without display name (outside the stated alphabet). -/
example : parseLine asciiRe (dumpLine { ex1 with display := some ['-'] })
    = .entry (keyOf (canon ex1)) { canon ex1 with display := none } := by decide

/-- **dirhtml convention.** The project root page maps to the empty URI; every other page maps to its
path without the known suffix followed by '/'. -/
theorem dirhtml_spec :
    asDirhtml [indexTxt] = some [] ∧
    ∀ parts slug, parts ≠ [indexTxt] → withoutKnownSuffix parts = some slug →
      asDirhtml parts = some (slug ++ ['/']) := by
  refine ⟨by decide, ?_⟩
  intro parts slug hne hs
  simp only [asDirhtml, hne, if_false, hs]

example : asDirhtml ["ref".toList, "index.txt".toList] = some "ref/index/".toList := by decide
example : asDirhtml ["a".toList, "b.c.rst".toList] = some "a/b.c/".toList := by decide
example : asDirhtml [".txt".toList] = none := by decide

/-- **Generated entries point at the emitted anchor.** An entry produced by `generate_inventory`
from a local definition has priority -1, the canonical name, and its URI is the dirhtml URI of the
defining page, followed by '#' and the html id registered for the definition unless the role is
`std:doc`; `uri_base = uri`. -/
theorem generated_points_to_anchor (P : PyRe) (key : List Char) (d : LocalDef) (e : Entry)
    (h : generateEntry P key d = some e) :
    ∃ dir dom role nm, asDirhtml d.fileid = some dir ∧ splitKey key = some (dom, role, nm) ∧
      e.name = normalizeWs P d.canonical ∧ e.domain = dom ∧ e.role = role ∧ e.priority = -1 ∧ e.uri = e.uriBase ∧
      e.uriBase = (if dom = sStd ∧ role = ['d', 'o', 'c'] then dir else dir ++ '#' :: d.htmlId) := by
  unfold generateEntry at h
  split at h
  · cases h
  · rename_i dir hdir
    split at h
    · cases h
    · rename_i dom role nm hk
      simp only [Option.some.injEq] at h
      subst h
      exact ⟨dir, dom, role, nm, hdir, hk, rfl, rfl, rfl, rfl, rfl, rfl⟩

/-- **Generated URIs are in the format's alphabet** (the URI clause of `WFEntry`; `_partial`: names and
titles come from the source text and are not constrained by the generator). If neither the page path nor
the html id contains whitespace — html ids never do, C09.html5id_no_space — the generated `uri_base`
contains none ('/' and '#' are not whitespace: checked on the running Python). -/
theorem generated_entries_wf_partial (P : PyRe) (hslash : P.isSpace '/' = false) (hhash : P.isSpace '#' = false)
    (key : List Char) (d : LocalDef) (e : Entry) (h : generateEntry P key d = some e)
    (hf : ∀ p ∈ d.fileid, ∀ c ∈ p, P.isSpace c = false) (hid : ∀ c ∈ d.htmlId, P.isSpace c = false) :
    ∀ c ∈ e.uriBase, nonSpace P c = true := by
  obtain ⟨dir, dom, role, nm, hdir, _, _, _, _, _, _, hub⟩ := generated_points_to_anchor P key d e h
  have hdirc : ∀ c ∈ dir, P.isSpace c = false := by
    intro c hc
    rcases mem_asDirhtml hdir hc with hc | ⟨p, hp, hcp⟩
    · rw [hc]; exact hslash
    · exact hf p hp c hcp
  intro c hc
  rw [hub] at hc
  have : P.isSpace c = false := by
    split at hc
    · exact hdirc c hc
    · rcases List.mem_append.1 hc with hc | hc
      · exact hdirc c hc
      · rcases List.mem_cons.1 hc with hc | hc
        · rw [hc]; exact hhash
        · exact hid c hc
  simp [nonSpace, this]

example : generateEntry asciiRe "std:label:a b".toList
    { canonical := "a b".toList, fileid := ["ref".toList, "p.txt".toList], title := "T".toList, htmlId := "std-label-a-b".toList }
    = some { name := "a b".toList, domain := "std".toList, role := "label".toList, priority := -1,
             uriBase := "ref/p/#std-label-a-b".toList, uri := "ref/p/#std-label-a-b".toList, display := some "T".toList } := by
  decide

/-! ### exported names are whitespace-normalised -/

theorem normalizeAux_no_ws_run (P : PyRe) (hsp : P.isSpace ' ' = true) : ∀ (l : List Char) (inWs : Bool) (pre : List Char) (a b : Char)
    (post : List Char), normalizeAux P inWs l = pre ++ a :: b :: post → ¬ (P.isSpace a = true ∧ P.isSpace b = true) := by
  -- stronger statement carried through the induction: after a blank has been written (`inWs`), the output does not start with one
  have key : ∀ (l : List Char) (inWs : Bool),
      (inWs = true → ∀ c r, normalizeAux P inWs l = c :: r → P.isSpace c = false) ∧
      (∀ (pre : List Char) (a b : Char) (post : List Char), normalizeAux P inWs l = pre ++ a :: b :: post →
        ¬ (P.isSpace a = true ∧ P.isSpace b = true)) := by
    intro l
    induction l with
    | nil => intro inWs; exact ⟨by intro _ c r h; simp [normalizeAux] at h, by intro pre a b post h; simp [normalizeAux] at h⟩
    | cons c cs ih =>
      intro inWs
      by_cases hc : P.isSpace c = true
      · cases inWs with
        | true =>
          have hE : normalizeAux P true (c :: cs) = normalizeAux P true cs := by simp [normalizeAux, hc]
          rw [hE]; exact ih true
        | false =>
          have hE : normalizeAux P false (c :: cs) = ' ' :: normalizeAux P true cs := by simp [normalizeAux, hc]
          rw [hE]
          refine ⟨fun h => (by cases h), ?_⟩
          intro pre a b post h
          cases pre with
          | nil =>
            simp only [List.nil_append, List.cons.injEq] at h
            obtain ⟨rfl, h2⟩ := h
            have := (ih true).1 rfl b post h2
            intro hh; rw [this] at hh; exact absurd hh.2 (by simp)
          | cons p pre' =>
            simp only [List.cons_append, List.cons.injEq] at h
            exact (ih true).2 pre' a b post h.2
      · have hcf : P.isSpace c = false := by simpa using hc
        have hE : normalizeAux P inWs (c :: cs) = c :: normalizeAux P false cs := by simp [normalizeAux, hcf]
        rw [hE]
        refine ⟨by intro _ c' r h; simp only [List.cons.injEq] at h; rw [← h.1]; exact hcf, ?_⟩
        intro pre a b post h
        cases pre with
        | nil =>
          simp only [List.nil_append, List.cons.injEq] at h
          obtain ⟨rfl, _⟩ := h
          intro hh; rw [hcf] at hh; exact absurd hh.1 (by simp)
        | cons p pre' =>
          simp only [List.cons_append, List.cons.injEq] at h
          exact (ih false).2 pre' a b post h.2
  intro l inWs pre a b post h
  exact (key l inWs).2 pre a b post h

theorem normalizeAux_mem (P : PyRe) : ∀ (l : List Char) (inWs : Bool) (c : Char), c ∈ normalizeAux P inWs l →
    c = ' ' ∨ (c ∈ l ∧ P.isSpace c = false) := by
  intro l
  induction l with
  | nil => intro inWs c h; simp [normalizeAux] at h
  | cons x xs ih =>
    intro inWs c h
    by_cases hx : P.isSpace x = true
    · cases inWs with
      | true =>
        have hE : normalizeAux P true (x :: xs) = normalizeAux P true xs := by simp [normalizeAux, hx]
        rw [hE] at h
        rcases ih true c h with h | ⟨h1, h2⟩
        · exact Or.inl h
        · exact Or.inr ⟨List.mem_cons_of_mem _ h1, h2⟩
      | false =>
        have hE : normalizeAux P false (x :: xs) = ' ' :: normalizeAux P true xs := by simp [normalizeAux, hx]
        rw [hE] at h
        rcases List.mem_cons.1 h with h | h
        · exact Or.inl h
        · rcases ih true c h with h | ⟨h1, h2⟩
          · exact Or.inl h
          · exact Or.inr ⟨List.mem_cons_of_mem _ h1, h2⟩
    · have hxf : P.isSpace x = false := by simpa using hx
      have hE : normalizeAux P inWs (x :: xs) = x :: normalizeAux P false xs := by simp [normalizeAux, hxf]
      rw [hE] at h
      rcases List.mem_cons.1 h with h | h
      · exact Or.inr ⟨by rw [h]; exact List.mem_cons_self, by rw [h]; exact hxf⟩
      · rcases ih false c h with h | ⟨h1, h2⟩
        · exact Or.inl h
        · exact Or.inr ⟨List.mem_cons_of_mem _ h1, h2⟩

/-- **Exported names fit the line format.** The name `generate_inventory` writes for a definition - whatever the author
put into the directive argument, glossary term or label, including line breaks and runs of blanks - holds no newline and no two
adjacent whitespace characters: it is the whitespace-normalised canonical name, the form under which the defining project
keeps its own keys and under which every consumer looks names up. -/
theorem generated_name_normalised (P : PyRe) (hok : PyReOk P) (key : List Char) (d : LocalDef) (e : Entry)
    (h : generateEntry P key d = some e) :
    e.name = normalizeWs P d.canonical ∧ '\n' ∉ e.name ∧
    ∀ pre a b post, e.name = pre ++ a :: b :: post → ¬ (P.isSpace a = true ∧ P.isSpace b = true) := by
  obtain ⟨_, _, _, _, _, _, hn, _⟩ := generated_points_to_anchor P key d e h
  refine ⟨hn, ?_, ?_⟩
  · intro hm
    rw [hn] at hm
    rcases normalizeAux_mem P d.canonical false '\n' hm with h1 | ⟨_, h2⟩
    · cases h1
    · rw [hok.sp_nl] at h2; cases h2
  · intro pre a b post he
    rw [hn] at he
    exact normalizeAux_no_ws_run P hok.sp_space d.canonical false pre a b post he

theorem dropWhile_append_keep {α : Type} (p : α → Bool) (a : α) (ha : p a = false) :
    ∀ xs : List α, (xs ++ [a]).dropWhile p = xs.dropWhile p ++ [a]
  | [] => by simp [List.dropWhile, ha]
  | x :: xs => by
    by_cases hx : p x = true
    · simp only [List.cons_append, List.dropWhile_cons, hx, if_true]
      exact dropWhile_append_keep p a ha xs
    · have hxf : p x = false := by simpa using hx
      simp [List.dropWhile_cons, hxf]

theorem head_dropWhile_not {α : Type} (p : α → Bool) : ∀ (xs : List α) (c : α), (xs.dropWhile p).head? = some c → p c = false
  | [], c, h => by simp at h
  | x :: xs, c, h => by
    by_cases hx : p x = true
    · simp only [List.dropWhile_cons, hx, if_true] at h
      exact head_dropWhile_not p xs c h
    · have hxf : p x = false := by simpa using hx
      simp only [List.dropWhile_cons, hxf] at h
      simp at h
      rw [← h]; exact hxf

theorem mem_strip (P : PyRe) (l : List Char) (c : Char) (h : c ∈ strip P l) : c ∈ l := by
  unfold strip rstrip at h
  have h1 : c ∈ (l.dropWhile P.isSpace).reverse.dropWhile P.isSpace := by simpa using h
  have h2 : c ∈ (l.dropWhile P.isSpace).reverse := (List.dropWhile_sublist _).subset h1
  have h3 : c ∈ l.dropWhile P.isSpace := by simpa using h2
  exact (List.dropWhile_sublist _).subset h3

/-- `strip` leaves no whitespace at either end -/
theorem strip_edgeOk (P : PyRe) (l : List Char) : edgeOk P (strip P l) = true := by
  unfold edgeOk strip rstrip
  generalize hm : l.dropWhile P.isSpace = m
  have hhead : ∀ c, m.head? = some c → P.isSpace c = false := by
    intro c hc; rw [← hm] at hc; exact head_dropWhile_not _ l c hc
  -- last character
  have hlast : ∀ c, ((m.reverse.dropWhile P.isSpace).reverse).getLast? = some c → P.isSpace c = false := by
    intro c hc
    rw [List.getLast?_reverse] at hc
    exact head_dropWhile_not _ _ c hc
  -- first character
  have hfirst : ∀ c, ((m.reverse.dropWhile P.isSpace).reverse).head? = some c → P.isSpace c = false := by
    intro c hc
    cases m with
    | nil => simp at hc
    | cons a m' =>
      have ha : P.isSpace a = false := hhead a rfl
      rw [List.reverse_cons, dropWhile_append_keep _ a ha, List.reverse_append] at hc
      simp at hc
      rw [← hc]; exact ha
  rw [Bool.and_eq_true]
  constructor
  · cases hh : ((m.reverse.dropWhile P.isSpace).reverse).head? with
    | none => rfl
    | some c => simp [hfirst c hh]
  · cases hl : ((m.reverse.dropWhile P.isSpace).reverse).getLast? with
    | none => rfl
    | some c => simp [hlast c hl]

/-- **Exported display titles fit the line format.** Whatever the title of a definition holds - a directive argument that
runs over two lines, runs of blanks - the display title `generate_inventory` writes is absent or a non-empty text without
a line break and without whitespace at either end: one line of the inventory can carry it. -/
theorem generated_display_fits (P : PyRe) (hok : PyReOk P) (key : List Char) (d : LocalDef) (e : Entry)
    (h : generateEntry P key d = some e) :
    e.display = exportTitle P d.title ∧
    ∀ t, e.display = some t → t ≠ [] ∧ '\n' ∉ t ∧ edgeOk P t = true := by
  have hd : e.display = exportTitle P d.title := by
    unfold generateEntry at h
    split at h
    · cases h
    · split at h
      · cases h
      · simp only [Option.some.injEq] at h
        subst h; rfl
  refine ⟨hd, ?_⟩
  intro t ht
  rw [hd] at ht
  unfold exportTitle at ht
  simp only at ht
  split at ht
  · cases ht
  · rename_i hne
    simp only [Option.some.injEq] at ht
    subst ht
    refine ⟨hne, ?_, strip_edgeOk P _⟩
    intro hm
    have := mem_strip P _ _ hm
    rcases normalizeAux_mem P d.title false '\n' this with h1 | ⟨_, h2⟩
    · cases h1
    · rw [hok.sp_nl] at h2; cases h2

example : exportTitle asciiRe "some\n   thing ".toList = some "some thing".toList := by decide
example : exportTitle asciiRe " \n ".toList = none := by decide

example : (generateEntry asciiRe "mongodb:data:foo bar".toList
    { canonical := "foo\n   bar".toList, fileid := ["p.txt".toList], title := [], htmlId := "x".toList }).map (·.name)
    = some "foo bar".toList := by decide

end SnootyVerif.C15
