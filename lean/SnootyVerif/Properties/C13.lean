import SnootyVerif.Proofs.PageDb

/-!
# C13 — The page store is linearizable: no update is lost under concurrency

Property theorems only; the transition system is `Model/PageDb.lean`, the invariant and its
preservation `Proofs/PageDb.lean`.  Every theorem quantifies over **all label sequences** from the
initial state, i.e. over every interleaving (at lock-acquisition / worker-phase granularity) of any
number of mutations, requests and cancellations by any number of threads, and over an arbitrary
postprocessor `post`.

`Mode.fixed` describes `page_database.py` with the generation-counter fix, `Mode.asWritten` the
upstream code (`__changed_pages.clear()` at publish time), for which the freshness theorems are
refuted by `asWritten_refuted`.
-/
namespace SnootyVerif.C13
open SnootyVerif.PageDb

variable {R : Type}

/-- the invariant holds initially (both dirty mechanisms) -/
theorem inv_init (m : Mode) (post : Store → R) : Inv m post (init post) := PageDb.inv_init m post

/-- … and is preserved by every enabled transition, whatever thread takes it -/
theorem inv_step {m : Mode} {post : Store → R} {s s' : St R} {l : Label}
    (h : Inv m post s) (hs : step m post s l = some s') : Inv m post s' := PageDb.inv_step h hs

/-- hence it holds after every interleaving -/
theorem inv_reachable {m : Mode} {post : Store → R} {ls : List Label} {s : St R}
    (hr : runFrom m post (init post) ls = some s) : Inv m post s :=
  PageDb.inv_run (PageDb.inv_init m post) hr

/-- **Consistent snapshot** (both mechanisms): every result handed to a caller is the postprocessing of
the sorted copy of the store *as it was at one single generation* `g` — never of pages that were not
stored together. -/
theorem consistent_snapshot {m : Mode} {post : Store → R} {ls : List Label} {s : St R} {r g : Nat} {res : R}
    (hr : runFrom m post (init post) ls = some s) (ho : outcome? s r = some (.ok g res)) :
    g ≤ s.gen ∧ ∃ st, s.hist[g]? = some st ∧ res = post (snapshotOf st) := by
  obtain ⟨_, _, _, hv, _⟩ := inv_outcome (inv_reachable hr) ho
  exact hv

/-- the sorted copy holds exactly the stored pages -/
theorem snapshot_perm (st : Store) : (snapshotOf st).Perm st := snapshotOf_perm st

/-- the cache too always holds the postprocessing of one generation -/
theorem cached_consistent {m : Mode} {post : Store → R} {ls : List Label} {s : St R}
    (hr : runFrom m post (init post) ls = some s) :
    s.cachedGen ≤ s.gen ∧ ∃ st, s.hist[s.cachedGen]? = some st ∧ s.cached = post (snapshotOf st) :=
  (inv_reachable hr).cval

/-- **A cancelled run publishes nothing** (both mechanisms), part 1: once a worker has observed the
cancellation token (in the copy loop or in `run`), the only step it can still take is `wRet`, and that
step leaves store, generation, cache, cached generation and dirty set untouched and reports
`cancelled`. -/
theorem cancelled_publishes_nothing {m : Mode} {post : Store → R} {s s' : St R} {l : Label} {r : Nat} {o : Op R}
    (ho : s.ops[r]? = some o) (hw : o.w = .cancelled)
    (hl : l = .wBegin r ∨ l = .wRun r ∨ l = .wPublish r ∨ l = .wRet r)
    (hs : step m post s l = some s') :
    l = .wRet r ∧ s' = setOp s r { o with w := .done .cancelled } ∧
    s'.cached = s.cached ∧ s'.cachedGen = s.cachedGen ∧ s'.changed = s.changed ∧
    s'.store = s.store ∧ s'.gen = s.gen := by
  rcases hl with rfl | rfl | rfl | rfl
  · simp [step, ho, hw] at hs
  · simp [step, ho, hw] at hs
  · simp [step, ho, hw] at hs
  · simp only [step, ho, hw, Option.some.injEq] at hs
    subst hs
    exact ⟨rfl, rfl, rfl, rfl, rfl, rfl, rfl⟩

/-- part 2: whatever step changes the published result (or its generation) is the `wPublish` step of a
worker that came out of `run` with a result, i.e. that was not cancelled before finishing `run`. -/
theorem only_finished_run_publishes {m : Mode} {post : Store → R} {s s' : St R} {l : Label}
    (hs : step m post s l = some s') (hc : s'.cached ≠ s.cached ∨ s'.cachedGen ≠ s.cachedGen) :
    ∃ r o g res, l = .wPublish r ∧ s.ops[r]? = some o ∧ o.w = .ran g res :=
  step_cache_change hs hc

/-- **No lost update** (fixed mechanism): a request issued at generation `g₀` that returns a result
returns the postprocessing of a generation `g ≥ g₀`: every update made before the request is in it. -/
theorem no_lost_update {post : Store → R} {ls : List Label} {s : St R} {r g : Nat} {res : R}
    (hr : runFrom .fixed post (init post) ls = some s) (ho : outcome? s r = some (.ok g res)) :
    ∃ o, s.ops[r]? = some o ∧ o.startGen ≤ g := by
  obtain ⟨o, h1, _, _, h4⟩ := inv_outcome (inv_reachable hr) ho
  exact ⟨o, h1, h4 rfl⟩

/-- **Quiescent freshness** (fixed mechanism): if no mutation happened since the request was issued,
the result is the postprocessing of the *current* store. -/
theorem quiescent_fresh {post : Store → R} {ls : List Label} {s : St R} {r g : Nat} {res : R} {o : Op R}
    (hr : runFrom .fixed post (init post) ls = some s) (ho : outcome? s r = some (.ok g res))
    (hop : s.ops[r]? = some o) (hq : s.gen = o.startGen) :
    g = s.gen ∧ res = post (snapshotOf s.store) := by
  have hinv := inv_reachable hr
  obtain ⟨o', h1, _, ⟨hle, st, hst, hres⟩, h4⟩ := inv_outcome hinv ho
  have : o' = o := by rw [hop] at h1; exact (Option.some.inj h1).symm
  subst this
  have hg : g = s.gen := Nat.le_antisymm hle (hq ▸ h4 rfl)
  refine ⟨hg, ?_⟩
  subst hg
  rw [hinv.cur] at hst
  rw [hres, ← Option.some.inj hst]

/-! ### the upstream mechanism loses updates (defect D14) -/

/-- one complete request `r` when no worker is alive and the cancel flag plays no role -/
def request (r : Nat) : List Label :=
  [.cEnter r true, .cClear r, .rTrack r, .rStart r, .wBegin r, .wRun r, .wPublish r, .wRet r]

/-- `db[0] = v1; flush (worker copies); db[0] = v2; worker runs, publishes, returns; flush again` -/
def d14Trace : List Label :=
  [.set 0 1, .cEnter 0 true, .cClear 0, .rTrack 0, .rStart 0, .wBegin 0, .set 0 2, .wRun 0, .wPublish 0, .wRet 0,
   .cEnter 1 true, .cClear 1, .rTrack 1, .rStart 1, .wBegin 1, .wRet 1]

/-- **An invalidation is never answered from the cache.** `invalidate()` (something the postprocessor reads besides the pages
has changed: `facets.toml`) makes a new generation of the same pages: in every reachable state, right after it the store is
dirty - whatever result is cached, and whatever a run that is still in flight publishes later (its snapshot belongs to an
older generation, `no_lost_update`) - so the next request recomputes. (Marking only the cached result as stale, without a
new generation, lets an in-flight run that read the old file install its result as current.) -/
theorem invalidate_not_served_from_cache {post : Store → R} {ls : List Label} {s s' : St R}
    (hr : runFrom .fixed post (init post) ls = some s) (hs : step .fixed post s .inv = some s') :
    dirty .fixed s' = true ∧ s'.store = s.store ∧ s'.gen = s.gen + 1 := by
  have hi := inv_reachable hr
  simp only [step, Option.some.injEq] at hs
  subst hs
  refine ⟨?_, rfl, rfl⟩
  have hle : s.cachedGen ≤ s.gen := hi.cval.1
  simp only [dirty, bne_iff_ne, ne_eq]
  omega

/-- concrete facts about the upstream mechanism on `d14Trace` (postprocessor = identity): the second
request, issued at generation 2 with the store quiescent, finds nothing dirty and returns the cached
result of generation 1 — version 1 of page 0 — although the store holds version 2. -/
theorem asWritten_loses_update :
    (runFrom .asWritten id (init id) d14Trace).map (fun s => (s.store, s.gen)) = some ([(0, 2)], 2) ∧
    (runFrom .asWritten id (init id) d14Trace).map (fun s => dirty .asWritten s) = some false ∧
    (runFrom .asWritten id (init id) d14Trace).map (fun s => outcome? s 1) = some (some (.ok 1 [(0, 1)])) ∧
    (runFrom .asWritten id (init id) d14Trace).map (fun s => (s.ops[1]?).map (·.startGen)) = some (some 2) := by
  decide

/-- `no_lost_update` and `quiescent_fresh` are false for the upstream mechanism. -/
theorem asWritten_refuted :
    (¬ ∀ (ls : List Label) (s : St Store) (r g : Nat) (res : Store),
        runFrom .asWritten id (init id) ls = some s → outcome? s r = some (.ok g res) →
        ∃ o, s.ops[r]? = some o ∧ o.startGen ≤ g) ∧
    (¬ ∀ (ls : List Label) (s : St Store) (r g : Nat) (res : Store) (o : Op Store),
        runFrom .asWritten id (init id) ls = some s → outcome? s r = some (.ok g res) →
        s.ops[r]? = some o → s.gen = o.startGen → res = id (snapshotOf s.store)) := by
  have hfact := asWritten_loses_update
  cases hrun : runFrom .asWritten id (init id) d14Trace with
  | none => rw [hrun] at hfact; exact absurd hfact.1 (by simp)
  | some s =>
    rw [hrun] at hfact
    simp only [Option.map_some, Option.some.injEq, Prod.mk.injEq] at hfact
    obtain ⟨⟨hstore, hgen⟩, _, hout, hsg⟩ := hfact
    cases hop : s.ops[1]? with
    | none => rw [hop] at hsg; cases hsg
    | some o =>
      rw [hop] at hsg
      simp only [Option.map_some, Option.some.injEq] at hsg
      constructor
      · intro hall
        obtain ⟨o', h1, h2⟩ := hall d14Trace s 1 1 [(0, 1)] hrun hout
        rw [hop] at h1
        have : o' = o := (Option.some.inj h1).symm
        subst this
        omega
      · intro hall
        have := hall d14Trace s 1 1 [(0, 1)] o hrun hout hop (by omega)
        rw [hstore] at this
        revert this
        decide

/-! ### non-vacuity: the same schedule under the fixed mechanism, and schedules with cancellation -/

/-- fixed mechanism on `d14Trace`: the worker that copied generation 1 publishes it (1 > 0) but the
store stays dirty (2 ≠ 1), so the second request is not a cache hit; completing it as a full run
returns generation 2. -/
def d14TraceFixed : List Label :=
  [.set 0 1, .cEnter 0 true, .cClear 0, .rTrack 0, .rStart 0, .wBegin 0, .set 0 2, .wRun 0, .wPublish 0, .wRet 0]
  ++ request 1

example :
    (runFrom .fixed id (init id) d14TraceFixed).map (fun s => (s.store, s.gen, s.cachedGen)) = some ([(0, 2)], 2, 2) ∧
    (runFrom .fixed id (init id) d14TraceFixed).map (fun s => (outcome? s 0, outcome? s 1))
      = some (some (.ok 1 [(0, 1)]), some (.ok 2 [(0, 2)])) := by decide

/-- `d14Trace` itself is not even executable under the fixed mechanism: `wRet 1` right after `wBegin 1`
would need a cache hit. -/
example : runFrom .fixed id (init id) d14Trace = none := by decide

/-- instance of `consistent_snapshot` / `no_lost_update` / `quiescent_fresh` hypotheses -/
example : ∃ s, runFrom .fixed id (init id) d14TraceFixed = some s ∧ outcome? s 1 = some (.ok 2 [(0, 2)]) ∧
    (s.ops[1]?).map (·.startGen) = some s.gen := by
  cases h : runFrom .fixed id (init id) d14TraceFixed with
  | none => revert h; decide
  | some s =>
    refine ⟨s, rfl, ?_, ?_⟩
    · have : (runFrom .fixed id (init id) d14TraceFixed).bind (fun s => outcome? s 1) = some (.ok 2 [(0, 2)]) := by decide
      rw [h] at this; exact this
    · have : (runFrom .fixed id (init id) d14TraceFixed).bind
          (fun s => if (s.ops[1]?).map (·.startGen) = some s.gen then some true else none) = some true := by decide
      rw [h] at this
      simp only [Option.bind_some] at this
      split at this
      · assumption
      · cases this

/-- a request cancelled by an explicit `cancel()` between copy and run: the worker observes the token
in `run`, reports `cancelled`, the cache still holds the initial result; the canceller was blocked
in `join` until the worker died.  (hypotheses of `cancelled_publishes_nothing`) -/
def cancelTrace : List Label :=
  [.set 0 1, .set 1 1, .cEnter 0 true, .cClear 0, .rTrack 0, .rStart 0, .wBegin 0,
   .cEnter 1 false, .wRun 0, .wRet 0, .cJoin 1, .cClear 1]

example :
    (runFrom .fixed (id : Store → Store) (init id) cancelTrace).map (fun s => outcome? s 0) = some (some .cancelled) ∧
    (runFrom .fixed (id : Store → Store) (init id) cancelTrace).map (fun s => (s.cached, s.cachedGen)) = some ([], 0) ∧
    (runFrom .fixed (id : Store → Store) (init id) cancelTrace).map (fun s => (s.flag, s.joiner)) = some (false, none) := by decide

/-- while the canceller holds the launcher lock in `join`, it cannot finish before the worker dies -/
example : runFrom .fixed id (init id)
    [.set 0 1, .cEnter 0 true, .cClear 0, .rTrack 0, .rStart 0, .wBegin 0, .cEnter 1 false, .cJoin 1] = none := by
  decide

/-! ### the generation bump and the mutation it announces must be ONE critical section -/

/-- `db[1] = v2; flush; ` then `del db[1]` split in two critical sections (bump first) with a complete
request in between, then a quiescent request. -/
def splitDeleteTrace : List SLabel :=
  [.base (.set 1 2)] ++ (request 0).map .base ++ [.delBump] ++ (request 1).map .base ++ [.delRemove 1]
  ++ [.base (.cEnter 2 true), .base (.cClear 2), .base (.rTrack 2), .base (.rStart 2), .base (.wBegin 2), .base (.wRet 2)]

/-- With a non-atomic delete even the fixed mechanism loses the update: the request that runs between the
bump and the removal copies the page that is about to disappear under the already-bumped generation
and publishes it as clean; after the removal the store is empty, nothing is dirty, and the quiescent
request 2 returns the cached result that still contains page 1.  (`quiescent_fresh` needs the atomic
`del` of `step`; this is the seeded defect the free-scheduling stream of the harness finds.) -/
theorem nonatomic_delete_refuted :
    (runSplit .fixed id (init id) splitDeleteTrace).map (fun s => (s.store, dirty .fixed s)) = some ([], false) ∧
    (runSplit .fixed id (init id) splitDeleteTrace).map (fun s => outcome? s 2) = some (some (.ok 2 [(1, 2)])) ∧
    (runSplit .fixed id (init id) splitDeleteTrace).map (fun s => (s.ops[2]?).map (·.startGen)) = some (some 2) := by
  decide

/-- the same operations with the atomic `del` of the model: request 2 returns the empty store -/
example :
    (runFrom .fixed id (init id) ([.set 1 2] ++ request 0 ++ [.del 1] ++ request 1 ++
        [.cEnter 2 true, .cClear 2, .rTrack 2, .rStart 2, .wBegin 2, .wRet 2])).map (fun s => outcome? s 2)
      = some (some (.ok 2 [])) := by decide

/-! ### a cancellation that is waiting for its worker is never erased -/

/-- the cancellation token is set for as long as some `cancel()` is blocked in `join()` -/
def JoinFlag (s : St R) : Prop := s.joiner ≠ none → s.flag = true

theorem joinFlag_init (post : Store → R) : JoinFlag (init post) := by
  intro h; simp [init] at h

theorem setOp_flag_joiner (s : St R) (r : Nat) (o : Op R) :
    (setOp s r o).flag = s.flag ∧ (setOp s r o).joiner = s.joiner := ⟨rfl, rfl⟩

theorem publish_flag_joiner (m : Mode) (s : St R) (g : Nat) (res : R) :
    (publish m s g res).flag = s.flag ∧ (publish m s g res).joiner = s.joiner := by
  unfold publish
  cases m with
  | asWritten => exact ⟨rfl, rfl⟩
  | fixed => dsimp only; split <;> exact ⟨rfl, rfl⟩

/-- the worker's own steps touch neither the token nor the launcher lock -/
theorem joinFlag_worker {m : Mode} {post : Store → R} {s s' : St R} {l : Label} {r : Nat} (hj : JoinFlag s)
    (hs : step m post s l = some s') (hl : l = .wBegin r ∨ l = .wRun r ∨ l = .wPublish r ∨ l = .wRet r) : JoinFlag s' := by
  have key : s'.flag = s.flag ∧ s'.joiner = s.joiner := by
    rcases hl with rfl | rfl | rfl | rfl <;>
    · simp only [step] at hs
      repeat' split at hs
      all_goals first
        | (simp only [Option.some.injEq] at hs; subst hs
           first
             | exact ⟨rfl, rfl⟩
             | exact publish_flag_joiner _ _ _ _)
        | (cases hs; done)
  intro h
  rw [key.1]; exact hj (by rw [← key.2]; exact h)

/-- **A pending cancellation is never erased.** In every reachable state, whatever the interleaving of requests,
cancellations and store mutations: while a `cancel()` (or the `cancel()` at the start of a `run()`) waits in `join()` for the
tracked worker, the token it set is still set - no other thread's `clear()` can take it away, because the token is only
cleared inside the critical section of the launcher lock that the waiting canceller holds. (With `clear()` after the lock
was released - the code before the fix - the delayed `clear()` of an earlier operation erased it: the worker ran to the
end and published although a cancellation directed at it had been issued and was still waiting.) -/
theorem pending_cancel_not_erased {m : Mode} {post : Store → R} {ls : List Label} {s : St R}
    (hr : runFrom m post (init post) ls = some s) : JoinFlag s := by
  have hstep : ∀ (s s' : St R) (l : Label), JoinFlag s → step m post s l = some s' → JoinFlag s' := by
    intro s s' l hj hs
    have keep : ∀ {t : St R}, t.flag = s.flag → t.joiner = s.joiner → JoinFlag t := by
      intro t hf hjn h; rw [hf]; exact hj (by rw [← hjn]; exact h)
    cases l with
    | set k v => simp only [step, Option.some.injEq] at hs; subst hs; exact keep rfl rfl
    | del k => simp only [step, Option.some.injEq] at hs; subst hs; exact keep rfl rfl
    | inv => simp only [step, Option.some.injEq] at hs; subst hs; exact keep rfl rfl
    | cEnter r isReq =>
      simp only [step] at hs
      split at hs
      · rename_i hc
        split at hs
        · simp only [Option.some.injEq] at hs; subst hs; intro _; rfl
        · simp only [Option.some.injEq] at hs; subst hs
          intro h; exact absurd hc.2 h
      · cases hs
    | cJoin r =>
      simp only [step] at hs
      split at hs
      · split at hs
        · simp only [Option.some.injEq] at hs; subst hs; intro h; simp [setOp] at h
        · cases hs
      · cases hs
    | cClear r =>
      simp only [step] at hs
      split at hs
      · split at hs
        · simp only [Option.some.injEq] at hs; subst hs; exact keep rfl rfl
        · cases hs
      · cases hs
    | rTrack r =>
      simp only [step] at hs
      split at hs
      · split at hs
        · rename_i hc
          simp only [Option.some.injEq] at hs; subst hs
          intro h; simp [setOp] at h; exact absurd hc.2.2 h
        · cases hs
      · cases hs
    | rStart r =>
      simp only [step] at hs
      split at hs
      · split at hs
        · simp only [Option.some.injEq] at hs; subst hs; exact keep rfl rfl
        · cases hs
      · cases hs
    | wBegin r => exact joinFlag_worker hj hs (Or.inl rfl)
    | wRun r => exact joinFlag_worker hj hs (Or.inr (Or.inl rfl))
    | wPublish r => exact joinFlag_worker hj hs (Or.inr (Or.inr (Or.inl rfl)))
    | wRet r => exact joinFlag_worker hj hs (Or.inr (Or.inr (Or.inr rfl)))
  have : ∀ (ls : List Label) (s0 s1 : St R), JoinFlag s0 → runFrom m post s0 ls = some s1 → JoinFlag s1 := by
    intro ls
    induction ls with
    | nil => intro s0 s1 h0 h; simp only [runFrom, Option.some.injEq] at h; subst h; exact h0
    | cons l rest ih =>
      intro s0 s1 h0 h
      simp only [runFrom] at h
      split at h
      · rename_i s' hs'; exact ih s' s1 (hstep s0 s' l h0 hs') h
      · cases h
  exact this ls _ _ (joinFlag_init post) hr

/-- the schedule on which the code before the fix lost a cancellation: with the repaired protocol the last label shown here
(the delayed `cClear 0`) leaves the token set while operation 2 is still waiting -/
example : (runFrom .fixed id (init id)
    [.cEnter 0 true, .cEnter 1 true, .cClear 1, .rTrack 1, .rStart 1, .wBegin 1, .cEnter 2 false, .cClear 0]).map
      (fun s => (s.joiner, s.flag)) = some (some 2, true) := by decide

end SnootyVerif.C13
