import SnootyVerif.Proofs.LitInc

/-!
# C20 — Literal includes show exactly the requested part of the file

Property theorems only.  Model: `Model/LitInc.lean` (the handler of `literalinclude` / `input` /
`output`, `lines_contain`, `parse_linenos`, the io-code-block option copy).  Specification-level
definitions (`firstMatch`, `lowerBound`, `upperBound`) and helper lemmas: `Proofs/LitInc.lean`.
`isWord` is Python's `\w`, `isSpace` is `str.isspace`; every theorem holds for all instantiations.
-/
namespace SnootyVerif.C20
open SnootyVerif.LitInc

/-! ## the marker recogniser -/

/-- A line carries a marker iff it is the marker surrounded only by non-word characters
(`^\W*marker\W*$`). -/
theorem marker_line_iff (isWord : Char → Bool) (marker line : Line) :
    matchLine isWord marker line = true ↔
      ∃ p s, line = p ++ marker ++ s ∧ allNonWord isWord p = true ∧ allNonWord isWord s = true :=
  matchLine_iff isWord marker line

example : matchLine (fun c => c.isAlphanum) "start".toList "  // start */".toList = true := by decide
example : matchLine (fun c => c.isAlphanum) "start".toList "x = start + 1".toList = false := by decide

/-- `lines_contain` yields exactly the indices of the lines carrying the marker, increasing. -/
theorem lines_contain_spec (isWord : Char → Bool) (marker : Line) (lines : List Line) :
    (∀ k, k ∈ linesContain isWord marker lines ↔
        ∃ h : k < lines.length, matchLine isWord marker lines[k] = true) ∧
    (linesContain isWord marker lines).Pairwise (· < ·) := by
  refine ⟨fun k => ?_, linesContainFrom_sorted isWord marker 0 lines⟩
  unfold linesContain
  rw [mem_linesContainFrom]
  constructor
  · rintro ⟨m, rfl, h, hm⟩; simp only [Nat.zero_add]; exact ⟨h, hm⟩
  · rintro ⟨h, hm⟩; exact ⟨k, by simp, h, hm⟩

example : linesContain (fun c => c.isAlphanum) "m".toList
    ["a".toList, "// m".toList, "m2".toList, "# m #".toList] = [1, 3] := by decide

/-- `firstMatch = some i` means: line `i` carries the marker and no earlier line does. -/
theorem first_match_spec (isWord : Char → Bool) (marker : Line) (lines : List Line) (i : Nat) :
    firstMatch isWord marker lines = some i ↔
      ∃ pre l post, lines = pre ++ l :: post ∧ pre.length = i ∧ matchLine isWord marker l = true ∧
        ∀ x ∈ pre, matchLine isWord marker x = false :=
  firstMatch_some_iff isWord marker lines i

example : firstMatch (fun c => c.isAlphanum) "m".toList
    ["a".toList, "// m".toList, "m2".toList, "# m #".toList] = some 1 := by decide

/-! ## the excerpt: index arithmetic -/

/-- For every combination of options and every file: the excerpt is the slice from just after the
first start-marker line (file start if not requested / absent) up to the first end-marker line
(file end if not requested / absent). -/
theorem excerpt_bounds (isWord : Char → Bool) (sa eb : Option Line) (lines : List Line) :
    (excerpt isWord sa eb lines).1 =
      (lines.take (upperBound isWord eb lines)).drop (lowerBound isWord sa lines) :=
  excerpt_fst isWord sa eb lines

example :
    upperBound (fun c => c.isAlphanum) (some "E".toList) ["a".toList, "# S".toList, "b".toList, "# E".toList] = 3 ∧
    lowerBound (fun c => c.isAlphanum) (some "S".toList) ["a".toList, "# S".toList, "b".toList, "# E".toList] = 2 := by
  decide

/-- when the order diagnostic is emitted -/
theorem diag_order_iff (isWord : Char → Bool) (sa eb : Option Line) (lines : List Line) :
    Diag.order ∈ (excerpt isWord sa eb lines).2 ↔
      ∃ s e j, sa = some s ∧ eb = some e ∧ firstMatch isWord e lines = some j ∧
        j < lowerBound isWord sa lines := by
  rw [excerpt_snd]
  have hl : ∀ ms, Diag.order ∉ (locate ms).2 := by
    intro ms; rw [locate_snd]; split <;> split <;> simp
  cases sa with
  | none => cases eb <;> simp [hl]
  | some s =>
    cases eb with
    | none => simp [hl]
    | some e =>
      simp only [List.mem_append, hl, false_or]
      cases hj : firstMatch isWord e lines with
      | none => simp [hj]
      | some j =>
        simp only
        split <;> simp_all

/-- when a "not found" diagnostic is emitted -/
theorem diag_notFound_iff (isWord : Char → Bool) (sa eb : Option Line) (lines : List Line) :
    Diag.notFound ∈ (excerpt isWord sa eb lines).2 ↔
      (∃ s, sa = some s ∧ firstMatch isWord s lines = none) ∨
      (∃ e, eb = some e ∧ firstMatch isWord e lines = none) := by
  rw [excerpt_snd]
  have hl : ∀ m, Diag.notFound ∈ (locate (linesContain isWord m lines)).2 ↔ firstMatch isWord m lines = none := by
    intro m; rw [locate_snd, ← linesContain_eq_nil_iff]; split <;> split <;> simp_all
  have h3 : ∀ (j : Nat) (k : Nat), Diag.notFound ∉ (if j < k then [Diag.order] else []) := by
    intro j k; split <;> simp
  cases sa with
  | none => cases eb <;> simp [hl]
  | some s =>
    cases eb with
    | none => simp [hl]
    | some e =>
      simp only [List.mem_append, hl]
      cases hj : firstMatch isWord e lines with
      | none => simp [hj]
      | some j => simp [h3, hj]

/-- when the ambiguity warning is emitted -/
theorem diag_ambiguous_iff (isWord : Char → Bool) (sa eb : Option Line) (lines : List Line) :
    Diag.ambiguous ∈ (excerpt isWord sa eb lines).2 ↔
      (∃ s, sa = some s ∧ 2 ≤ (linesContain isWord s lines).length) ∨
      (∃ e, eb = some e ∧ 2 ≤ (linesContain isWord e lines).length) := by
  rw [excerpt_snd]
  have hl : ∀ ms, Diag.ambiguous ∈ (locate ms).2 ↔ 2 ≤ ms.length := by
    intro ms; rw [locate_snd]; split <;> split <;> simp_all
  have h3 : ∀ (j : Nat) (k : Nat), Diag.ambiguous ∉ (if j < k then [Diag.order] else []) := by
    intro j k; split <;> simp
  cases sa with
  | none => cases eb <;> simp [hl]
  | some s =>
    cases eb with
    | none => simp [hl]
    | some e =>
      simp only [List.mem_append, hl]
      cases hj : firstMatch isWord e lines with
      | none => simp
      | some j => simp [h3]

example :
    (excerpt (fun c => c.isAlphanum) (some "S".toList) (some "E".toList)
      ["# S".toList, "# E".toList, "x".toList, "# E".toList]).2 = [Diag.ambiguous] := by decide

/-- Both markers present and in order: the excerpt is exactly `lines[i+1 : j]`; no marker is
reported missing; with at least one line between the markers there is no order diagnostic. -/
theorem excerpt_spec (isWord : Char → Bool) (s e : Line) (lines : List Line) (i j : Nat)
    (hs : firstMatch isWord s lines = some i) (he : firstMatch isWord e lines = some j) (h : i < j) :
    (excerpt isWord (some s) (some e) lines).1 = (lines.take j).drop (i + 1) ∧
    Diag.notFound ∉ (excerpt isWord (some s) (some e) lines).2 ∧
    (i + 1 < j → Diag.order ∉ (excerpt isWord (some s) (some e) lines).2) := by
  refine ⟨?_, ?_, ?_⟩
  · rw [excerpt_bounds]; simp [upperBound, lowerBound, hs, he]
  · rw [diag_notFound_iff]; simp [hs, he]
  · intro hlt
    rw [diag_order_iff]
    rintro ⟨s', e', j', hs', he', hj', hle⟩
    cases hs'; cases he'
    rw [he] at hj'; cases hj'
    simp [lowerBound, hs] at hle
    omega

/-- The same, stated on the file itself: if the file is `pre ++ [start line] ++ mid ++ [end line]
++ post`, where the start line is the first to carry the start marker and the end line the first to
carry the end marker, the excerpt is exactly `mid`. -/
theorem excerpt_between (isWord : Char → Bool) (s e : Line) (pre mid post : List Line) (sl el : Line)
    (hsl : matchLine isWord s sl = true) (hpre : ∀ x ∈ pre, matchLine isWord s x = false)
    (hel : matchLine isWord e el = true)
    (hnoe : ∀ x ∈ pre ++ sl :: mid, matchLine isWord e x = false) :
    (excerpt isWord (some s) (some e) (pre ++ sl :: (mid ++ el :: post))).1 = mid := by
  have hs : firstMatch isWord s (pre ++ sl :: (mid ++ el :: post)) = some pre.length :=
    (firstMatch_some_iff ..).mpr ⟨pre, sl, mid ++ el :: post, rfl, rfl, hsl, hpre⟩
  have he : firstMatch isWord e (pre ++ sl :: (mid ++ el :: post)) = some (pre ++ sl :: mid).length :=
    (firstMatch_some_iff ..).mpr ⟨pre ++ sl :: mid, el, post, by simp, rfl, hel, hnoe⟩
  have h := (excerpt_spec isWord s e _ _ _ hs he (by simp)).1
  rw [h]
  have e1 : pre ++ sl :: (mid ++ el :: post) = (pre ++ sl :: mid) ++ (el :: post) := by simp
  rw [e1, List.take_left]
  have e2 : pre ++ sl :: mid = (pre ++ [sl]) ++ mid := by simp
  rw [e2]
  have e3 : pre.length + 1 = (pre ++ [sl]).length := by simp
  rw [e3, List.drop_left]

example :
    (excerpt (fun c => c.isAlphanum) (some "S".toList) (some "E".toList)
      ["a".toList, "// S".toList, "  b".toList, "c".toList, "# E".toList, "d".toList]).1
      = ["  b".toList, "c".toList] := by decide

/-- No markers requested: the whole file, no diagnostics. -/
theorem excerpt_whole (isWord : Char → Bool) (lines : List Line) :
    excerpt isWord none none lines = (lines, []) := by
  have h1 := excerpt_bounds isWord none none lines
  have h2 := excerpt_snd isWord none none lines
  simp [upperBound, lowerBound] at h1 h2
  exact Prod.ext h1 h2

/-- A requested start marker that no line carries is reported, and the excerpt starts at the
beginning of the file. -/
theorem excerpt_missing_start (isWord : Char → Bool) (s : Line) (eb : Option Line) (lines : List Line)
    (hs : firstMatch isWord s lines = none) :
    Diag.notFound ∈ (excerpt isWord (some s) eb lines).2 ∧
    (excerpt isWord (some s) eb lines).1 = lines.take (upperBound isWord eb lines) := by
  refine ⟨(diag_notFound_iff ..).mpr (Or.inl ⟨s, rfl, hs⟩), ?_⟩
  rw [excerpt_bounds]; simp [lowerBound, hs]

/-- A requested end marker that no line carries is reported, and the excerpt runs to the end of the
file. -/
theorem excerpt_missing_end (isWord : Char → Bool) (sa : Option Line) (e : Line) (lines : List Line)
    (he : firstMatch isWord e lines = none) :
    Diag.notFound ∈ (excerpt isWord sa (some e) lines).2 ∧
    (excerpt isWord sa (some e) lines).1 = lines.drop (lowerBound isWord sa lines) := by
  refine ⟨(diag_notFound_iff ..).mpr (Or.inr ⟨e, rfl, he⟩), ?_⟩
  rw [excerpt_bounds]; simp [upperBound, he]

example : Diag.notFound ∈ (excerpt (fun c => c.isAlphanum) (some "S".toList) none ["a".toList, "b".toList]).2 := by
  decide
example :
    excerpt (fun c => c.isAlphanum) (some "S".toList) (some "E".toList) ["a".toList, "# S".toList, "b".toList]
      = (["b".toList], [Diag.notFound]) := by decide

/-- Markers out of order (the end marker's first line is not after the start marker's first line):
reported, and the excerpt is empty — never a silently wrong excerpt. -/
theorem excerpt_reversed (isWord : Char → Bool) (s e : Line) (lines : List Line) (i j : Nat)
    (hs : firstMatch isWord s lines = some i) (he : firstMatch isWord e lines = some j) (h : j ≤ i) :
    Diag.order ∈ (excerpt isWord (some s) (some e) lines).2 ∧
    (excerpt isWord (some s) (some e) lines).1 = [] := by
  refine ⟨(diag_order_iff ..).mpr ⟨s, e, j, rfl, rfl, he, by simp [lowerBound, hs]; omega⟩, ?_⟩
  rw [excerpt_bounds]
  simp only [upperBound, lowerBound, hs, he]
  apply List.drop_eq_nil_of_le
  simp; omega

example :
    excerpt (fun c => c.isAlphanum) (some "S".toList) (some "E".toList)
      ["# E".toList, "a".toList, "# S".toList, "b".toList] = ([], [Diag.order]) := by decide

/-- **Adjacent markers** (the end marker on the line right after the start marker): the excerpt is the correct empty
one and nothing is reported - the markers ARE in order. (The code before the repair tested `start_after >= end_before`
with `start_after` already past the marker line and reported "precedes" here.) -/
theorem excerpt_adjacent_unreported (isWord : Char → Bool) (s e : Line) (lines : List Line) (i : Nat)
    (hs : firstMatch isWord s lines = some i) (he : firstMatch isWord e lines = some (i + 1)) :
    (excerpt isWord (some s) (some e) lines).1 = [] ∧
    Diag.order ∉ (excerpt isWord (some s) (some e) lines).2 := by
  refine ⟨?_, ?_⟩
  · rw [(excerpt_spec isWord s e lines i (i + 1) hs he (by omega)).1]
    apply List.drop_eq_nil_of_le
    simp; omega
  · intro h
    obtain ⟨s', e', j, hs', he', hj, hlt⟩ := (diag_order_iff ..).mp h
    cases hs'; cases he'
    rw [he] at hj
    cases hj
    simp [lowerBound, hs] at hlt

/-- **The order diagnostic is never invented**: it is emitted only when both markers were requested, both are carried by
lines of the file, and the end marker's first line is not after the start marker's first line. -/
theorem order_diag_sound (isWord : Char → Bool) (sa eb : Option Line) (lines : List Line)
    (h : Diag.order ∈ (excerpt isWord sa eb lines).2) :
    ∃ s e j, sa = some s ∧ eb = some e ∧ firstMatch isWord e lines = some j ∧
      (∀ i, firstMatch isWord s lines = some i → j ≤ i) := by
  obtain ⟨s, e, j, hs, he, hj, hlt⟩ := (diag_order_iff ..).mp h
  refine ⟨s, e, j, hs, he, hj, ?_⟩
  intro i hi
  subst hs
  simp [lowerBound, hi] at hlt
  omega

example :
    firstMatch (fun c => c.isAlphanum) "S".toList ["a".toList, "# S".toList, "# E".toList] = some 1 ∧
    firstMatch (fun c => c.isAlphanum) "E".toList ["a".toList, "# S".toList, "# E".toList] = some 2 ∧
    excerpt (fun c => c.isAlphanum) (some "S".toList) (some "E".toList) ["a".toList, "# S".toList, "# E".toList]
      = ([], []) := by decide

/-- The excerpt is always a contiguous block of the file's lines, in order, each unchanged. -/
theorem excerpt_sublist (isWord : Char → Bool) (sa eb : Option Line) (lines : List Line) :
    ∃ pre post, lines = pre ++ (excerpt isWord sa eb lines).1 ++ post := by
  rw [excerpt_bounds]
  refine ⟨(lines.take (upperBound isWord eb lines)).take (lowerBound isWord sa lines),
          lines.drop (upperBound isWord eb lines), ?_⟩
  rw [List.take_append_drop, List.take_append_drop]

/-- The search diagnostics are only of the three kinds above. -/
theorem excerpt_diag_kinds (isWord : Char → Bool) (sa eb : Option Line) (lines : List Line) :
    ∀ d ∈ (excerpt isWord sa eb lines).2, d = Diag.notFound ∨ d = Diag.ambiguous ∨ d = Diag.order := by
  intro d hd
  rw [excerpt_snd] at hd
  have hl : ∀ ms, d ∈ (locate ms).2 → d = Diag.notFound ∨ d = Diag.ambiguous := by
    intro ms; rw [locate_snd]; split <;> split <;> simp <;> intro h <;> simp [h]
  simp only [List.mem_append] at hd
  rcases hd with (hd | hd) | hd
  · cases sa with
    | none => simp at hd
    | some s => rcases hl _ hd with h | h <;> simp [h]
  · cases eb with
    | none => simp at hd
    | some e => rcases hl _ hd with h | h <;> simp [h]
  · right; right
    cases sa with
    | none => simp at hd
    | some s =>
      cases eb with
      | none => simp at hd
      | some e =>
        simp only at hd
        cases hj : firstMatch isWord e lines with
        | none => rw [hj] at hd; simp at hd
        | some j => rw [hj] at hd; simp only at hd; split at hd <;> simp_all

/-- The handler before the fix crashed (`UnboundLocalError`) when only `end-before` is given and the
first line carries the marker (and symmetrically for `start-after` on the last line). -/
theorem orig_total_refuted :
    excerptOrig (fun c => c.isAlphanum) none (some "E".toList) ["// E".toList, "x".toList]
      = .error PyErr.unboundLocal ∧
    excerptOrig (fun c => c.isAlphanum) (some "S".toList) none ["x".toList, "// S".toList]
      = .error PyErr.unboundLocal := by decide

/-- … the fixed handler returns the (correct) empty excerpt there, without diagnostics. -/
theorem fixed_single_marker_edge :
    excerpt (fun c => c.isAlphanum) none (some "E".toList) ["// E".toList, "x".toList] = ([], []) ∧
    excerpt (fun c => c.isAlphanum) (some "S".toList) none ["x".toList, "// S".toList] = ([], []) := by
  decide

/-! ## dedent -/

/-- `:dedent: n` — every line is the original line without its first `n` characters. -/
theorem dedent_count (n : Nat) (lines : List Line) :
    (dedentLines n lines).length = lines.length ∧
    ∀ k (h : k < lines.length), (dedentLines n lines)[k]? = some (lines[k].drop n) := by
  refine ⟨by simp [dedentLines], fun k h => ?_⟩
  simp [dedentLines, List.getElem?_map, List.getElem?_eq_getElem h]

example : dedentLines 2 ["    a".toList, " b".toList, [], "\tc d".toList] = ["  a".toList, [], [], " d".toList] := by
  decide

/-- `:dedent:` (flag) — the amount is the minimum indentation of the non-blank lines (0 if there is
none), and what is removed from every line is whitespace only. -/
theorem dedent_flag (isSpace : Char → Bool) (lines : List Line) :
    let n := dedentAmount isSpace .flag lines
    (∀ l ∈ lines, nonBlank isSpace l = true → n ≤ indent isSpace l) ∧
    ((∃ l ∈ lines, nonBlank isSpace l = true) →
        ∃ l ∈ lines, nonBlank isSpace l = true ∧ indent isSpace l = n) ∧
    ((∀ l ∈ lines, nonBlank isSpace l = false) → n = 0) ∧
    (∀ l ∈ lines, (l.take n).all isSpace = true ∧ l = l.take n ++ l.drop n) := by
  simp only [dedentAmount]
  refine ⟨fun l hl hb => minIndent_le isSpace lines l hl hb, minIndent_attained isSpace lines,
          minIndent_none isSpace lines, ?_⟩
  intro l hl
  refine ⟨?_, (List.take_append_drop _ _).symm⟩
  cases hb : nonBlank isSpace l with
  | true => exact take_indent_all_space isSpace l _ (minIndent_le isSpace lines l hl hb)
  | false =>
    have := blank_all_space isSpace l hb
    rw [List.all_eq_true] at this ⊢
    intro c hc
    exact this c (List.mem_of_mem_take hc)

example : dedentAmount (fun c => c == ' ' || c == '\t') .flag ["    a".toList, "  ".toList, "  b".toList, [], "\t\t\tc".toList] = 2 := by
  decide

/-- no `dedent` option: lines unchanged -/
theorem dedent_absent (isSpace : Char → Bool) (lines : List Line) :
    dedentLines (dedentAmount isSpace .absent lines) lines = lines := by
  simp [dedentAmount, dedentLines]

/-! ## joining -/

/-- The code block's text determines the dedented excerpt: splitting it at newlines gives back
exactly the lines (for a non-empty excerpt; the empty excerpt gives the empty text). -/
theorem join_roundtrip (isWord : Char → Bool) (sa eb : Option Line) (n : Nat) (t : List Char) :
    let out := dedentLines n (excerpt isWord sa eb (splitLines t)).1
    (out ≠ [] → splitLines (joinLines out) = out) ∧ (out = [] → joinLines out = []) := by
  intro out
  refine ⟨fun hne => split_join out hne ?_, fun h => by rw [h]; rfl⟩
  intro l hl
  simp only [out, dedentLines, List.mem_map] at hl
  obtain ⟨l0, hl0, rfl⟩ := hl
  obtain ⟨pre, post, hpp⟩ := excerpt_sublist isWord sa eb (splitLines t)
  have hmem : l0 ∈ splitLines t := by rw [hpp]; simp [hl0]
  intro hc
  exact splitLines_no_nl t l0 hmem (List.mem_of_mem_drop hc)

example : splitLines (joinLines (dedentLines 1
    (excerpt (fun c => c.isAlphanum) (some "S".toList) none (splitLines "# S\n a\n\n b\n".toList)).1))
      = ["a".toList, [], "b".toList, []] := by decide

/-- A file has one more line than it has newline characters (`len(text.split("\n"))`): this is the
"file length" emphasize-lines is validated against. -/
theorem file_length (t : List Char) : (splitLines t).length = t.count '\n' + 1 := by
  induction t with
  | nil => rfl
  | cons c cs ih =>
    rw [splitLines_cons]
    split
    · rename_i h; subst h; simp [ih]
    · rename_i h
      have : (splitLines cs).length = (splitNE cs).2.length + 1 := by simp [splitLines]
      simp only [List.length_cons]
      rw [List.count_cons_of_ne h]
      omega

example : (splitLines "a\nb\n".toList).length = 3 := by decide

/-- Without markers and dedent the text of the code block is the file's text, character for
character (CR, trailing newline, … included). -/
theorem whole_file_verbatim (isWord : Char → Bool) (t : List Char) :
    joinLines (dedentLines 0 (excerpt isWord none none (splitLines t)).1) = t := by
  rw [excerpt_whole]
  simp [dedentLines, join_split]

/-! ## emphasize-lines -/

/-- An accepted specification only names ranges `0 ≤ lo ≤ hi ≤ maxVal`. -/
theorem linenos_valid (isSpace : Char → Bool) (term : List Char) (maxVal : Nat) (ps : List (Int × Int))
    (h : parseLinenos isSpace term maxVal = .ok ps) :
    ∀ p ∈ ps, 0 ≤ p.1 ∧ p.1 ≤ p.2 ∧ p.2 ≤ (maxVal : Int) := by
  unfold parseLinenos at h
  split at h
  · injection h with h; subst h; simp
  · exact (parseTerms_ok isSpace maxVal _ ps h).2

/-- A term naming a line beyond `maxVal` is rejected … -/
theorem linenos_term_too_large (isSpace : Char → Bool) (maxVal : Nat) (t : List Char) (lo hi : Int)
    (hlo : parseInt isSpace (splitDash1 t).1 = some lo)
    (hhi : ((splitDash1 t).2 = none ∧ hi = lo) ∨
           (∃ p, (splitDash1 t).2 = some p ∧ parseInt isSpace p = some hi))
    (h0 : 0 ≤ lo ∧ 0 ≤ hi) (hbig : lo > (maxVal : Int) ∨ hi > (maxVal : Int)) :
    parseTerm isSpace maxVal t = .error .tooLarge := by
  unfold parseTerm
  have h1 : ¬ (lo < 0 ∨ hi < 0) := by omega
  rcases hhi with ⟨h2, rfl⟩ | ⟨p, h2, hp⟩
  · simp only [hlo, h2]
    split
    · omega
    · first | rfl | (split <;> first | rfl | omega)
  · simp only [hlo, h2, hp]
    split
    · omega
    · first | rfl | (split <;> first | rfl | omega)

example : parseTerm (fun c => c == ' ') 7 "2-9".toList = .error .tooLarge :=
  linenos_term_too_large _ 7 _ 2 9 (by decide) (Or.inr ⟨"9".toList, by decide, by decide⟩) (by decide) (by decide)

/-- … and one rejected term makes the whole specification fail. -/
theorem linenos_rejects (isSpace : Char → Bool) (term : List Char) (maxVal : Nat) (t : List Char) (e : LnErr)
    (hne : (strip isSpace term).isEmpty = false)
    (ht : t ∈ splitOn ',' (strip isSpace term)) (he : parseTerm isSpace maxVal t = .error e) :
    ∃ e', parseLinenos isSpace term maxVal = .error e' := by
  unfold parseLinenos
  simp only [hne]
  exact parseTerms_error_of_mem isSpace maxVal _ t ht e he

example : parseLinenos (fun c => c == ' ') "1-2, 7".toList 7 = .ok [(1, 2), (7, 7)] := by decide
example : parseLinenos (fun c => c == ' ') "1-2,8".toList 7 = .error .tooLarge := by decide
example : parseLinenos (fun c => c == ' ') "3-1".toList 7 = .error .reversed := by decide
example : parseLinenos (fun c => c == ' ') "1,,2".toList 7 = .error .badInt := by decide

/-! ## the handler -/

/-- For a readable file the handler always produces a code block; it carries the requested
language, caption, copyable, linenos, lineno-start and source settings, its text is the joined
dedented excerpt, the emphasis is validated against the length of the *file*, the dependency is
recorded with its hash, and the diagnostics are those of the marker search plus at most the
emphasize-lines one. -/
theorem options_carried (isWord isSpace : Char → Bool) (name : DirName) (o : Options) (t : List Char) :
    let r := literalInclude isWord isSpace name true o (.text t)
    let ex := (excerpt isWord o.startAfter o.endBefore (splitLines t)).1
    ∃ c, r.code = some c ∧
      c.lang = some (o.language.getD "") ∧ c.caption = o.caption ∧
      c.copyable = (o.copyable.getD true) ∧ c.linenos = o.linenos ∧
      c.linenoStart = o.linenoStart ∧ c.source = o.source ∧
      c.value = joinLines (dedentLines (dedentAmount isSpace o.dedent ex) ex) ∧
      c.emphasize = (match o.emphasize with
        | none => none
        | some term => match parseLinenos isSpace term (splitLines t).length with
          | .ok ps => some ps
          | .error _ => none) ∧
      r.dep = Dep.hashed ∧ Diag.cannotOpen ∉ r.diags := by
  intro r ex
  have hk := excerpt_diag_kinds isWord o.startAfter o.endBefore (splitLines t)
  have hno : Diag.cannotOpen ∉ (excerpt isWord o.startAfter o.endBefore (splitLines t)).2 := by
    intro h; rcases hk _ h with h | h | h <;> cases h
  simp only [r, literalInclude, Bool.not_true, Bool.false_eq_true, ↓reduceIte]
  refine ⟨_, rfl, ?_, ?_, ?_, ?_, ?_, ?_, ?_, ?_, ?_, ?_⟩
  all_goals first
    | rfl
    | trivial
    | (cases o.copyable <;> rfl)
    | (cases o.emphasize with
       | none => first | rfl | simp [hno]
       | some term => simp only []; split <;> simp_all)

/-- Emphasised lines outside the file (or any other malformed specification) are reported; the code
block is still produced, without emphasis. -/
theorem emphasize_reported (isWord isSpace : Char → Bool) (name : DirName) (o : Options) (t : List Char)
    (term : List Char) (e : LnErr) (ho : o.emphasize = some term)
    (hp : parseLinenos isSpace term (splitLines t).length = .error e) :
    let r := literalInclude isWord isSpace name true o (.text t)
    Diag.emphasize ∈ r.diags ∧ ∃ c, r.code = some c ∧ c.emphasize = none := by
  simp only [literalInclude, ho, hp]
  exact ⟨by simp, _, rfl, rfl⟩

example :
    let r := literalInclude (fun c => c.isAlphanum) (fun c => c == ' ') .literalinclude true
      { endBefore := some "E".toList, emphasize := some "5".toList } (.text "a\n# E\nb\nc".toList)
    r.diags = [Diag.emphasize] ∧ r.code.map (·.value) = some "a".toList := by decide

/-- A specification inside the file is accepted whatever the markers select, and never reported. -/
theorem emphasize_file_length (isWord isSpace : Char → Bool) (name : DirName) (o : Options) (t : List Char)
    (term : List Char) (ps : List (Int × Int)) (ho : o.emphasize = some term)
    (hp : parseLinenos isSpace term (splitLines t).length = .ok ps) :
    let r := literalInclude isWord isSpace name true o (.text t)
    Diag.emphasize ∉ r.diags ∧ ∃ c, r.code = some c ∧ c.emphasize = some ps := by
  have hk := excerpt_diag_kinds isWord o.startAfter o.endBefore (splitLines t)
  have hno : Diag.emphasize ∉ (excerpt isWord o.startAfter o.endBefore (splitLines t)).2 := by
    intro h; rcases hk _ h with h | h | h <;> cases h
  simp only [literalInclude, ho, hp]
  exact ⟨by simp [hno], _, rfl, rfl⟩

example :
    (literalInclude (fun c => c.isAlphanum) (fun c => c == ' ') .literalinclude true
      { startAfter := some "S".toList, emphasize := some "4".toList } (.text "a\n# S\nb\nc".toList)).code.map (·.emphasize)
      = some (some [(4, 4)]) := by decide

/-- A missing file / directory / undecodable file is reported as `CannotOpenFile`, no code block is
produced, and the dependency is recorded (without hash if the bytes could not be read). -/
theorem unreadable_reported (isWord isSpace : Char → Bool) (name : DirName) (o : Options) :
    literalInclude isWord isSpace name true o .osError =
      { code := none, diags := [Diag.cannotOpen], dep := Dep.noneRecorded } ∧
    literalInclude isWord isSpace name true o .undecodable =
      { code := none, diags := [Diag.cannotOpen], dep := Dep.hashed } := by
  simp [literalInclude]

/-- No argument: `literalinclude` reports `ExpectedPathArg`; `input`/`output` are left alone
(their content is raw code). Nothing is read. -/
theorem missing_argument (isWord isSpace : Char → Bool) (name : DirName) (o : Options) (f : FileState) :
    literalInclude isWord isSpace name false o f =
      { code := none, diags := if name = .literalinclude then [Diag.expectedPathArg] else [], dep := Dep.unset } := by
  simp [literalInclude]

/-- io-code-block: the child's language and the parent's caption / copyable / source are what the
code block carries; text, emphasis and line-number settings are untouched. -/
theorem io_options_carried (p : ParentOpts) (lang : Option String) (c : Code) :
    let c' := ioAdjust p lang c
    c'.lang = lang ∧ c'.caption = p.caption ∧ c'.source = p.source ∧
    (c'.copyable = true ↔ p.copyable = some true) ∧
    c'.value = c.value ∧ c'.emphasize = c.emphasize ∧ c'.linenos = c.linenos ∧ c'.linenoStart = c.linenoStart := by
  intro c'
  refine ⟨rfl, rfl, rfl, ?_, rfl, rfl, rfl, rfl⟩
  simp only [c', ioAdjust]
  cases p.copyable with
  | none => simp
  | some b => cases b <;> simp

end SnootyVerif.C20
