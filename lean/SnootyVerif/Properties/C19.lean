import SnootyVerif.Proofs.Man
import SnootyVerif.Proofs.ManTotal

/-!
# C19 — Man page rendering keeps all text and never lets text become a troff request

Property theorems only; model in `Model/Man.lean` (the code AFTER `fix.patch`), lemmas in
`Proofs/Man.lean`. `render up name sec ast` returns the output as tagged chunks
(`macro | raw | text`); `flat` of it is the string `builders.man.render` returns
(byte-compared with the implementation by the harness). `up` is Python's `str.upper`, arbitrary here.
-/
namespace SnootyVerif.C19
open SnootyVerif.Man

/-- **Control lines are macros.** Wherever the rendered string has a control character (`.` or `'`)
at the start of a line — at offset 0 or right after a newline — that position is the start of a
`macro` chunk, and that chunk is exactly one line `.` body `\n`. For every AST, name, section, `upper`. -/
theorem control_lines_are_macros (up : Char → Str) (name sec : Str) (ast : Ast) (cs : List Chunk)
    (h : render up name sec ast = .ok cs) (a b : Str) (c : Char)
    (hsplit : flat cs = a ++ c :: b) (hstart : a = [] ∨ a.getLast? = some '\n') (hctl : isCtl c = true) :
    ∃ pre body post, cs = pre ++ Chunk.macro ('.' :: (body ++ ['\n'])) :: post ∧ flat pre = a ∧ '\n' ∉ body := by
  refine linesOk_split cs true a c b (render_linesOk up name sec ast cs h) hsplit ?_ hctl
  rcases hstart with h | h
  · exact Or.inl ⟨h, rfl⟩
  · exact Or.inr h

example : ∃ cs, render (fun c => [c]) ['x'] ['1']
      (.pass [.paragraph [.text ['f', 'o', 'o', '\n', '.', 'b', 'a', 'r']], .code ['.', 'c']]) = .ok cs ∧
    flat cs = ".TH x 1\nfoo\n\\&.bar\n.PP\n.EX\n  .c\n.EE\n".toList := ⟨_, rfl, by decide⟩

/-- **Macros sit on fresh lines and text/raw chunks never start a control line** (the chunk-level
invariant the previous theorem is derived from). -/
theorem chunks_wellformed (up : Char → Str) (name sec : Str) (ast : Ast) (cs : List Chunk)
    (h : render up name sec ast = .ok cs) : linesOk true cs :=
  render_linesOk up name sec ast cs h

/-- **The escape alone:** escaped text holds no control character at the start of any of its lines,
wherever it is written (start of output, after a newline, after other text). -/
theorem escape_guards_every_line (s : Str) (bol : Bool) : scan bol (troffEscape s) = true :=
  scan_mono _ _ (scan_troffEscape s)

example : troffEscape "foo\n.bar a\\b 'q'\n'x -y `z´".toList
    = "foo\n\\&.bar a\\eb \\(aqq\\(aq\n\\(aqx \\-y \\(gaz\\'".toList := by decide

/-- Document text used as a macro argument (section titles, the page name) stays on the macro's line. -/
theorem macro_arg_single_line (s : Str) : '\n' ∉ troffEscapeArg s := nl_not_mem_troffEscapeArg s

example : troffEscapeArg "a\\b\n.c-d".toList = "a\\eb .c\\-d".toList := by decide

/-- **A macro argument holds no bare double quote**: in a macro argument `"` is troff's argument quoting (the quote
characters are not output, an unbalanced one swallows the rest of the line), so document text that reaches `.SH`, `.SS`
or `.TH` has each of them written as `\(dq`. -/
theorem macro_arg_no_bare_quote (s : Str) : '"' ∉ troffEscapeArg s := by
  unfold troffEscapeArg
  exact not_mem_replaceChar '"' _ (by decide) _

example : troffEscapeArg "Say \"hi\"".toList = "Say \\(dqhi\\(dq".toList := by decide

/-- **Text in order.** The text chunks of the output, concatenated, are exactly the escaped arguments of
the `handle_text` calls of the tree walk, in walk order (TEXT / PREFORMATTED leaves and the ` (href)`
suffix of URL nodes): nothing lost at the end of the page, duplicated, reordered, or written unescaped. -/
theorem text_in_order (up : Char → Str) (name sec : Str) (ast : Ast) (cs : List Chunk)
    (h : render up name sec ast = .ok cs) :
    ∃ k, ast.toMan = .ok k ∧ textOf cs = (evTexts (eventsL k)).flatMap troffEscape :=
  render_text up name sec ast cs h

example : ∃ cs, render (fun c => [c]) ['x'] ['1']
      (.pass [.paragraph [.reference ['u'] [.text ['a']], .strong [.text ['.', 'b']]]]) = .ok cs ∧
    textOf cs = "a (u)\\&.b".toList := ⟨_, rfl, by decide⟩

/-- **Fonts closed.** In every rendered page the last font escape written, if there is one, is `\f1`:
no `\fB` / `\fI` stays open at the end of the page. -/
theorem fonts_closed (up : Char → Str) (name sec : Str) (ast : Ast) (cs : List Chunk)
    (h : render up name sec ast = .ok cs) : ∀ c ∈ (fontsOf cs).getLast?, c = Chunk.raw fontRoman :=
  render_fonts up name sec ast cs h

example : ∃ cs, render (fun c => [c]) ['x'] ['1']
      (.pass [.paragraph [.strong [.text ['y'], .emphasis [.text ['z'], .strong [.text ['w']]]]]]) = .ok cs ∧
    flat cs = ".TH x 1\n\\fBy\\fIz\\fBw\\fI\\f1\\f1".toList ∧
    (fontsOf cs).getLast? = some (Chunk.raw fontRoman) := ⟨_, rfl, by decide, by decide⟩

/-- **Font pushes and pops are balanced on every tree.** Walking any `ManNode` subtree from any handler
state (in which "no open font ⇒ last font escape is roman" holds) that does not raise returns with the
formatting stack exactly as it was, and keeps that invariant. -/
theorem fonts_balanced (up : Char → Str) (t : ManNode) (st st' : St) (hi : FontInv st)
    (hr : run up st t.events = .ok st') : st'.fstack = st.fstack ∧ FontInv st' :=
  events_fonts up t st st' hi hr

example : FontInv {} := by intro _; simp [fontsOf]

/-- **Rendering is total.** For every page AST in which a list item only occurs below a list (`Ast.scoped`; the one
structural precondition of the handler, `assert self.list_stack` - the parser creates `ListNodeItem`s only as children
of a `ListNode`), every page name, section and `upper`: the tree builder has no raising path, the handler's list stack
and formatting stack are never popped empty, every string-valued node is TEXT or PREFORMATTED - `render` returns. -/
theorem render_total (up : Char → Str) (name sec : Str) (ast : Ast) (h : ast.scoped false = true) :
    ∃ cs, render up name sec ast = .ok cs :=
  render_total_scoped up name sec ast h

example : Ast.scoped false (.pass [.sect [.heading [.text ['T']], .list true [.listItem [.paragraph [.strong [.text ['a']]],
    .list false [.listItem [.code ['c']]]]], .target [.targetId [.text ['i']], .paragraph [.emphasis [.text ['d']]]]]]) = true := by
  decide

/-- the precondition is needed: a list item outside any list trips the handler's assertion (model and code agree) -/
theorem render_unscoped_refuted :
    render (fun c => [c]) ['x'] ['1'] (.pass [.listItem [.paragraph [.text ['a']]]]) = .error .assertionError := by rfl

/-- **The tree walk below any node is total and stack-neutral**: from ANY handler state, walking a scoped subtree returns
with the list stack and the formatting stack as they were. -/
theorem subtree_walk_total (up : Char → Str) (t : ManNode) (inList : Bool) (st : St) (hs : t.scoped inList = true)
    (hl : inList = true → st.lstack ≠ []) :
    ∃ st', run up st t.events = .ok st' ∧ st'.lstack = st.lstack ∧ st'.fstack = st.fstack :=
  events_ok up t inList st hs hl

/-- **The escape loses nothing.** Reading the output of `troff_escape` back the way groff reads it (`\e` backslash,
`\-` minus, `\(aq` apostrophe, `\'` acute, `\(ga` grave, `\&` nothing; any other escape is an error) gives exactly
the original text, for every text - whatever characters, line breaks or leading dots it contains. -/
theorem escape_roundtrip (s : Str) : unesc (troffEscape s) = some s := unesc_troffEscape s

example : unesc (troffEscape "foo\n.bar a\\b 'q'\n'x -y `z´ \\&.".toList) = some "foo\n.bar a\\b 'q'\n'x -y `z´ \\&.".toList :=
  escape_roundtrip _
/-- the reader is not the identity and rejects escapes the renderer never writes -/
example : unesc "a\\-b".toList = some "a-b".toList ∧ unesc "a\\fBb".toList = none := by
  constructor <;> (simp [unesc]; try decide)

/-- **All text of the page is recoverable, in order.** The text chunks of a rendered page, read back as groff reads
them, are exactly the texts handed to `handle_text` during the walk, concatenated in walk order. -/
theorem text_recovered (up : Char → Str) (name sec : Str) (ast : Ast) (cs : List Chunk)
    (h : render up name sec ast = .ok cs) :
    ∃ k, ast.toMan = .ok k ∧ unesc (textOf cs) = some (evTexts (eventsL k)).flatten := by
  obtain ⟨k, hk, ht⟩ := render_text up name sec ast cs h
  exact ⟨k, hk, by rw [ht]; exact unesc_flatMap_troffEscape _⟩

/-- The escape is, character by character, the table of `troff_escape` plus the `\&` guard. -/
theorem escape_is_charwise (s : Str) : troffEscape s = guardGo true (s.flatMap esc1) := troffEscape_eq s

/-- D17 on the code before the fix: the paragraph text "foo⏎.bar baz" yields a *text* chunk holding
the line ".bar baz" (a troff request made of document text) … -/
theorem control_lines_refuted :
    renderOld (fun c => [c]) ['x'] ['1'] (.pass [.paragraph [.text "foo\n.bar baz".toList]])
      = .ok [.macro ".TH x 1\n".toList, .text "foo\n.bar baz".toList] := by rfl

/-- … so the chunk invariant fails there … -/
theorem chunks_wellformed_refuted :
    ¬ linesOk true [.macro ".TH x 1\n".toList, .text "foo\n.bar baz".toList] := by
  intro h
  have : scan (endsBol true ".TH x 1\n".toList) "foo\n.bar baz".toList = true := h.2.1
  revert this
  decide

/-- … a single backslash passed through unescaped, and a section title kept its newline. -/
theorem backslash_refuted : troffEscapeOld ['a', '\\', 'b'] = ['a', '\\', 'b'] := by decide

theorem heading_refuted :
    renderOld (fun c => [c]) ['x'] ['1'] (.pass [.sect [.heading [.text "A\n.B".toList]]])
      = .ok [.macro ".TH x 1\n".toList, .macro ".SH A\n.B\n".toList] := by rfl

end SnootyVerif.C19
