import SnootyVerif.Proofs.Project

/-!
# C12 — Incremental updates converge to the clean-build result

Property theorems about `Model/Project.lean` (the open project of `snooty/parser.py` `_Project` +
`snooty/page_database.py` `PageDatabase`: environment, parsed-page store, cached postprocessor result, dirty
mark, asset dependency graph). Helper lemmas: `Proofs/Project.lean`.

The parser is abstract (`Parser`, with the footprint law as a field). `converge` is a *reduction*: it
turns convergence of every edit history into the per-operation obligation `CoversAll` ("each operation
re-parses every existing source whose footprint contains the touched file, and the touched file itself;
a source that disappeared loses its pages"). `code_converge` discharges that obligation for the re-parse
sets the code computes from its dependency graph, under the hypothesis that every read of a parse is
recorded as a graph edge and that no parse reads *another source file* (`hrec`); the harness checks
`hrec`'s consequences on the implementation (end-to-end differential) and reports the reads that violate
it (existence checks of `:doc:` targets) as known findings. `converge_refuted` is the witness that the
code before the fix (a vanished / shrunk multi-page YAML source keeps its generated pages) did not converge.
-/
namespace SnootyVerif.C12
set_option linter.unusedSectionVars false
open SnootyVerif.Project

variable {Path Key Page Content Result : Type} [DecidableEq Path] [DecidableEq Key]

/-- **Convergence (reduction theorem).** Let every output key belong to one source (`owns`). For every
initial environment, every sequence of operations `update / create / delete / postprocess`, and every
choice of re-parse sets that satisfies the obligation `CoversAll` (hdep), the store of the open project
equals the store a clean open + build computes for the final environment — hence what the next
`postprocess()` delivers (cached or recomputed, for any postprocessor `post`) is the clean-build result. -/
theorem converge (P : Parser Path Key Page Content) (owner : Key → Path) (srcs : List Path)
    (owns : ∀ e p k pg, (k, pg) ∈ P.parse e p → owner k = p)
    (post : Store Path Key Page → Result) (e₀ : Env Path Content)
    (xs : List (Op Path Content × List Path)) (hdep : CoversAll P srcs e₀ xs) :
    let final := run P srcs post (St.init P srcs post e₀) xs
    final.env = envAfter e₀ (xs.map (·.1)) ∧
    final.store = storeOf P srcs (envAfter e₀ (xs.map (·.1))) ∧
    deliver post final = post (storeOf P srcs (envAfter e₀ (xs.map (·.1)))) := by
  intro final
  have h := inv_run P owner srcs owns post xs (St.init P srcs post e₀) (inv_init P owner srcs owns post e₀) hdep
  have henv : final.env = envAfter e₀ (xs.map (·.1)) := h.2
  refine ⟨henv, ?_, ?_⟩
  · rw [← henv]; exact h.1.1.eq_storeOf P owner srcs owns
  · rw [← henv]; exact deliver_of_inv P owner srcs owns post final h.1

/-- **Postprocessing is pure.** `postprocess()` changes neither the environment nor the stored parse results;
what the following `postprocess()` delivers is what this one delivered; doing it twice is doing it once. -/
theorem postprocess_pure (P : Parser Path Key Page Content) (srcs : List Path)
    (post : Store Path Key Page → Result) (st : St Path Key Page Content Result) (R R' : List Path) :
    let st' := step P srcs post st (.postprocess, R)
    st'.store = st.store ∧ st'.env = st.env ∧
    deliver post st' = deliver post st ∧
    step P srcs post st' (.postprocess, R') = st' := by
  cases hd : st.dirty with
  | true => simp [step, deliver, hd]
  | false => simp [step, deliver, hd]

/-- the cached result is handed out only while nothing was stored since it was computed: after any
mutating operation the next `postprocess()` recomputes from the current store -/
theorem dirty_after_mutation (P : Parser Path Key Page Content) (srcs : List Path)
    (post : Store Path Key Page → Result) (st : St Path Key Page Content Result)
    (op : Op Path Content) (R : List Path) (hop : op.touched ≠ none) :
    deliver post (step P srcs post st (op, R)) = post (step P srcs post st (op, R)).store := by
  cases op with
  | postprocess => simp [Op.touched] at hop
  | update p c => simp [step, deliver]
  | create p c => simp [step, deliver]
  | delete p => simp [step, deliver]

/-- invariant of the code-level model: layer-1 invariant + the graph holds the recorded edges of every existing source -/
def CodeInv (P : Parser Path Key Page Content) (owner : Key → Path) (srcs : List Path)
    (recorded : Env Path Content → Path → List Path) (post : Store Path Key Page → Result)
    (st : CodeSt Path Key Page Content Result) : Prop :=
  Inv P owner srcs post st.toSt ∧
    ∀ s ∈ srcs, (st.env s).isSome = true → st.graph s = recorded st.env s

/-- the re-parse set computed from the graph meets the obligation -/
theorem chosen_covers (P : Parser Path Key Page Content) (srcs : List Path)
    (recorded : Env Path Content → Path → List Path)
    (hrec : ∀ e s q, s ∈ srcs → (e s).isSome = true → q ∈ P.reads e s → q ≠ s → (q ∉ srcs ∧ q ∈ recorded e s))
    (e : Env Path Content) (graph : Path → List Path)
    (hg : ∀ s ∈ srcs, (e s).isSome = true → graph s = recorded e s)
    (op : Op Path Content) (q : Path) (hq : op.touched = some q) :
    Covers P srcs e op (chosen srcs graph q) := by
  intro s hs q' hq' hor
  have : q' = q := by rw [hq] at hq'; exact (Option.some.inj hq').symm
  subst this
  by_cases hsq : s = q'
  · subst hsq; simp [chosen, hs]
  · cases hor with
    | inl h => exact absurd h hsq
    | inr h =>
      have hr := hrec e s q' hs h.1 h.2 (fun hh => hsq hh.symm)
      unfold chosen
      rw [if_neg hr.1]
      apply List.mem_filter.2
      refine ⟨hs, ?_⟩
      rw [hg s hs h.1]
      simpa using hr.2

/-- **Convergence of the code's own re-parse policy.** `update(q)` / `delete(q)` re-parse `q` if it is a source
and otherwise the graph predecessors of `q` (`update_asset`). If every file a parse reads besides the source itself
is a non-source file recorded as a graph edge (`hrec`), and the recorded edges obey the footprint law (`hfp`), then
after every operation sequence the store is the clean-build store and the next postprocessing result is the clean one. -/
theorem code_converge (P : Parser Path Key Page Content) (owner : Key → Path) (srcs : List Path)
    (owns : ∀ e p k pg, (k, pg) ∈ P.parse e p → owner k = p)
    (recorded : Env Path Content → Path → List Path)
    (hrec : ∀ e s q, s ∈ srcs → (e s).isSome = true → q ∈ P.reads e s → q ≠ s → (q ∉ srcs ∧ q ∈ recorded e s))
    (hfp : ∀ e e' s, (∀ f ∈ P.reads e s, e f = e' f) → recorded e s = recorded e' s)
    (post : Store Path Key Page → Result) (e₀ : Env Path Content) (ops : List (Op Path Content)) :
    let final := codeRun P recorded srcs post (CodeSt.init P recorded srcs post e₀) ops
    final.env = envAfter e₀ ops ∧
    final.store = storeOf P srcs (envAfter e₀ ops) ∧
    deliver post final.toSt = post (storeOf P srcs (envAfter e₀ ops)) := by
  intro final
  have hstep : ∀ (st : CodeSt Path Key Page Content Result) (op : Op Path Content),
      CodeInv P owner srcs recorded post st →
      CodeInv P owner srcs recorded post (codeStep P recorded srcs post st op) ∧
        (codeStep P recorded srcs post st op).env = op.env st.env := by
    intro st op hi
    cases ht : op.touched with
    | none =>
      have hop : op = .postprocess := by cases op <;> simp [Op.touched] at ht ⊢
      subst hop
      have hcov : Covers P srcs st.env (Op.postprocess : Op Path Content) [] := by
        intro s _ q hq; simp [Op.touched] at hq
      have h1 := inv_step P owner srcs owns post st.toSt (.postprocess, []) hi.1 hcov
      have he := step_env P owner srcs owns post st.toSt (.postprocess, [])
      unfold codeStep
      simp only [ht]
      refine ⟨⟨h1, ?_⟩, he⟩
      intro s hs hex
      have he' : (step P srcs post st.toSt (Op.postprocess, [])).env = st.env := he
      rw [he'] at hex ⊢
      exact hi.2 s hs hex
    | some q =>
      have hcov := chosen_covers P srcs recorded hrec st.env st.graph hi.2 op q ht
      have h1 := inv_step P owner srcs owns post st.toSt (op, chosen srcs st.graph q) hi.1 hcov
      have he := step_env P owner srcs owns post st.toSt (op, chosen srcs st.graph q)
      unfold codeStep
      simp only [ht]
      refine ⟨⟨h1, ?_⟩, he⟩
      intro s hs hex
      have he' : (step P srcs post st.toSt (op, chosen srcs st.graph q)).env = op.env st.env := he
      rw [he'] at hex ⊢
      show (if s ∈ chosen srcs st.graph q then
          (if s ∈ srcs ∧ (op.env st.env s).isSome = true then recorded (op.env st.env) s else [])
        else st.graph s) = recorded (op.env st.env) s
      by_cases hR : s ∈ chosen srcs st.graph q
      · rw [if_pos hR, if_pos ⟨hs, hex⟩]
      · rw [if_neg hR]
        have hnot : ¬ (s = q ∨ ((st.env s).isSome = true ∧ q ∈ P.reads st.env s)) :=
          fun hor => hR (hcov s hs q ht hor)
        have hself : op.env st.env s = st.env s := by
          apply Op.env_other
          intro h; rw [ht] at h
          exact hnot (Or.inl (Option.some.inj h).symm)
        rw [hself] at hex
        rw [hi.2 s hs hex]
        apply hfp
        intro f hf
        symm
        apply Op.env_other
        intro h; rw [ht] at h
        have : q = f := Option.some.inj h
        subst this
        exact hnot (Or.inr ⟨hex, hf⟩)
  have hrun : ∀ (ops : List (Op Path Content)) (st : CodeSt Path Key Page Content Result),
      CodeInv P owner srcs recorded post st →
      CodeInv P owner srcs recorded post (codeRun P recorded srcs post st ops) ∧
        (codeRun P recorded srcs post st ops).env = envAfter st.env ops := by
    intro ops
    induction ops with
    | nil => intro st hi; exact ⟨hi, rfl⟩
    | cons op rest ih =>
      intro st hi
      have h1 := hstep st op hi
      have h2 := ih _ h1.1
      refine ⟨h2.1, ?_⟩
      show (codeRun P recorded srcs post (codeStep P recorded srcs post st op) rest).env = envAfter (op.env st.env) rest
      rw [h2.2, h1.2]
  have hinit : CodeInv P owner srcs recorded post (CodeSt.init P recorded srcs post e₀) := by
    refine ⟨inv_init P owner srcs owns post e₀, ?_⟩
    intro s hs hex
    have hex' : (e₀ s).isSome = true := hex
    simp [CodeSt.init, hs, hex']
    rfl
  have h := hrun ops _ hinit
  have henv : final.env = envAfter e₀ ops := h.2
  refine ⟨henv, ?_, ?_⟩
  · rw [← henv]; exact h.1.1.1.eq_storeOf P owner srcs owns
  · rw [← henv]; exact deliver_of_inv P owner srcs owns post final.toSt h.1.1

/-! ## Sources that read other sources (layer 3) -/

/-- invariant of the layer-3 model: the edges of every existing source are the recorded ones for the CURRENT environment -
in particular every edge holds what its target holds now -/
def CodeInv3 (P : Parser Path Key Page Content) (owner : Key → Path) (srcs : List Path)
    (recorded : Env Path Content → Path → List (Path × Option Content)) (post : Store Path Key Page → Result)
    (st : CodeSt3 Path Key Page Content Result) : Prop :=
  Inv P owner srcs post st.toSt ∧
    ∀ s ∈ srcs, (st.env s).isSome = true → st.graph s = recorded st.env s

/-- the re-parse set computed from the edges (with what they held) meets the weaker obligation -/
theorem chosen3_covers [DecidableEq Content] (P : Parser Path Key Page Content) (srcs : List Path)
    (recorded : Env Path Content → Path → List (Path × Option Content))
    (hrec : ∀ e s q, s ∈ srcs → (e s).isSome = true → q ∈ P.reads e s → q ≠ s → (q, e q) ∈ recorded e s)
    (e : Env Path Content) (graph : Path → List (Path × Option Content))
    (hg : ∀ s ∈ srcs, (e s).isSome = true → graph s = recorded e s)
    (op : Op Path Content) (q : Path) (hq : op.touched = some q) :
    CoversCh P srcs e op (chosen3 srcs graph e op q) := by
  intro s hs q' hq' hor
  have : q' = q := by rw [hq] at hq'; exact (Option.some.inj hq').symm
  subst this
  unfold chosen3
  by_cases hsq : s = q'
  · subst hsq; simp [hs]
  · cases hor with
    | inl h => exact absurd h hsq
    | inr h =>
      obtain ⟨hex, hread, hch⟩ := h
      have hmem : (q', e q') ∈ graph s := by
        rw [hg s hs hex]; exact hrec e s q' hs hex hread (fun hh => hsq hh.symm)
      apply List.mem_append_right
      apply List.mem_filter.2
      refine ⟨hs, ?_⟩
      simp only [Bool.and_eq_true, decide_eq_true_eq, List.any_eq_true, Bool.or_eq_true]
      refine ⟨hsq, (q', e q'), hmem, rfl, Or.inr ?_⟩
      exact fun hh => hch hh.symm

/-- **Convergence of the code's re-parse policy when sources read other sources.** `update(q)` re-parses `q` and every
source that read `q` when it held something else than it holds now; create / delete / a non-source file re-parse every
source with an edge to `q`. If every file a parse reads besides the source itself is recorded as an edge together with
what it held (`hrec` - no longer restricted to non-source files), and the recorded edges obey the footprint law (`hfp`),
then after every operation sequence the store is the clean-build store and the next postprocessing result is the clean
one. (The environment is the one the parser reads through: for a file that other pages read, its state on disk.) -/
theorem code_converge3 [DecidableEq Content] (P : Parser Path Key Page Content) (owner : Key → Path) (srcs : List Path)
    (owns : ∀ e p k pg, (k, pg) ∈ P.parse e p → owner k = p)
    (recorded : Env Path Content → Path → List (Path × Option Content))
    (hrec : ∀ e s q, s ∈ srcs → (e s).isSome = true → q ∈ P.reads e s → q ≠ s → (q, e q) ∈ recorded e s)
    (hfp : ∀ e e' s, (∀ f ∈ P.reads e s, e f = e' f) → recorded e s = recorded e' s)
    (post : Store Path Key Page → Result) (e₀ : Env Path Content) (ops : List (Op Path Content)) :
    let final := codeRun3 P recorded srcs post (CodeSt3.init P recorded srcs post e₀) ops
    final.env = envAfter e₀ ops ∧
    final.store = storeOf P srcs (envAfter e₀ ops) ∧
    deliver post final.toSt = post (storeOf P srcs (envAfter e₀ ops)) := by
  intro final
  have hstep : ∀ (st : CodeSt3 Path Key Page Content Result) (op : Op Path Content),
      CodeInv3 P owner srcs recorded post st →
      CodeInv3 P owner srcs recorded post (codeStep3 P recorded srcs post st op) ∧
        (codeStep3 P recorded srcs post st op).env = op.env st.env := by
    intro st op hi
    cases ht : op.touched with
    | none =>
      have hop : op = .postprocess := by cases op <;> simp [Op.touched] at ht ⊢
      subst hop
      have hcov : CoversCh P srcs st.env (Op.postprocess : Op Path Content) [] := by
        intro s _ q hq; simp [Op.touched] at hq
      have h1 := inv_step_ch P owner srcs owns post st.toSt (.postprocess, []) hi.1 hcov
      have he := step_env P owner srcs owns post st.toSt (.postprocess, [])
      unfold codeStep3
      simp only [ht]
      refine ⟨⟨h1, ?_⟩, he⟩
      intro s hs hex
      have he' : (step P srcs post st.toSt (Op.postprocess, [])).env = st.env := he
      rw [he'] at hex ⊢
      exact hi.2 s hs hex
    | some q =>
      have hcov := chosen3_covers P srcs recorded hrec st.env st.graph hi.2 op q ht
      have h1 := inv_step_ch P owner srcs owns post st.toSt (op, chosen3 srcs st.graph st.env op q) hi.1 hcov
      have he := step_env P owner srcs owns post st.toSt (op, chosen3 srcs st.graph st.env op q)
      unfold codeStep3
      simp only [ht]
      refine ⟨⟨h1, ?_⟩, he⟩
      intro s hs hex
      have he' : (step P srcs post st.toSt (op, chosen3 srcs st.graph st.env op q)).env = op.env st.env := he
      rw [he'] at hex ⊢
      show (if s ∈ chosen3 srcs st.graph st.env op q then
          (if s ∈ srcs ∧ (op.env st.env s).isSome = true then recorded (op.env st.env) s else [])
        else st.graph s) = recorded (op.env st.env) s
      by_cases hR : s ∈ chosen3 srcs st.graph st.env op q
      · rw [if_pos hR, if_pos ⟨hs, hex⟩]
      · rw [if_neg hR]
        have hnot : ¬ (s = q ∨ ((st.env s).isSome = true ∧ q ∈ P.reads st.env s ∧ op.env st.env q ≠ st.env q)) :=
          fun hor => hR (hcov s hs q ht hor)
        have hself : op.env st.env s = st.env s := by
          apply Op.env_other
          intro h; rw [ht] at h
          exact hnot (Or.inl (Option.some.inj h).symm)
        rw [hself] at hex
        rw [hi.2 s hs hex]
        apply hfp
        intro f hf
        symm
        by_cases htf : op.touched = some f
        · rw [ht] at htf
          have : q = f := Option.some.inj htf
          subst this
          by_cases hch : op.env st.env q = st.env q
          · exact hch
          · exact absurd (Or.inr ⟨hex, hf, hch⟩) hnot
        · exact Op.env_other op st.env f htf
  have hrun : ∀ (ops : List (Op Path Content)) (st : CodeSt3 Path Key Page Content Result),
      CodeInv3 P owner srcs recorded post st →
      CodeInv3 P owner srcs recorded post (codeRun3 P recorded srcs post st ops) ∧
        (codeRun3 P recorded srcs post st ops).env = envAfter st.env ops := by
    intro ops
    induction ops with
    | nil => intro st hi; exact ⟨hi, rfl⟩
    | cons op rest ih =>
      intro st hi
      have h1 := hstep st op hi
      have h2 := ih _ h1.1
      refine ⟨h2.1, ?_⟩
      show (codeRun3 P recorded srcs post (codeStep3 P recorded srcs post st op) rest).env = envAfter (op.env st.env) rest
      rw [h2.2, h1.2]
  have hinit : CodeInv3 P owner srcs recorded post (CodeSt3.init P recorded srcs post e₀) := by
    refine ⟨inv_init P owner srcs owns post e₀, ?_⟩
    intro s hs hex
    have hex' : (e₀ s).isSome = true := hex
    simp [CodeSt3.init, hs, hex']
    rfl
  have h := hrun ops _ hinit
  have henv : final.env = envAfter e₀ ops := h.2
  refine ⟨henv, ?_, ?_⟩
  · rw [← henv]; exact h.1.1.1.eq_storeOf P owner srcs owns
  · rw [← henv]; exact deliver_of_inv P owner srcs owns post final.toSt h.1.1

/-! ### non-vacuity of `code_converge3`: page `0` shows source `1` verbatim -/

def lit3Parse (e : Env Nat Nat) (p : Nat) : List (Nat × Nat) :=
  if p = 0 then [(100, (e 0).getD 0 + 1000 * (e 1).getD 7)] else if p = 1 then [(101, (e 1).getD 0)] else []

def lit3 : Parser Nat Nat Nat Nat :=
  { parse := lit3Parse,
    reads := fun _ p => if p = 0 then [0, 1] else [p],
    footprint := by
      intro e e' p h
      unfold lit3Parse
      by_cases h0 : p = 0
      · subst h0
        have a := h 0 (by simp)
        have b := h 1 (by simp)
        simp [a, b]
      · by_cases h1 : p = 1
        · subst h1
          have b := h 1 (by simp)
          simp [b]
        · simp [h0, h1] }

def lit3Recorded (e : Env Nat Nat) (p : Nat) : List (Nat × Option Nat) := if p = 0 then [(1, e 1)] else []

/-- the hypotheses of `code_converge3` hold for a project in which one SOURCE reads another (excluded by `code_converge`):
for every history the open project delivers the clean build -/
example (post : Store Nat Nat Nat → Nat) (e₀ : Env Nat Nat) (ops : List (Op Nat Nat)) :
    let final := codeRun3 lit3 lit3Recorded [0, 1] post (CodeSt3.init lit3 lit3Recorded [0, 1] post e₀) ops
    final.store = storeOf lit3 [0, 1] (envAfter e₀ ops) ∧
    deliver post final.toSt = post (storeOf lit3 [0, 1] (envAfter e₀ ops)) := by
  have h := code_converge3 lit3 (fun k => if k = 100 then 0 else 1) [0, 1]
    (by
      intro e p k pg hm
      simp only [lit3, lit3Parse] at hm
      by_cases h0 : p = 0
      · subst h0; simp at hm; simp [hm.1]
      · by_cases h1 : p = 1
        · subst h1; simp at hm; simp [hm.1]
        · simp [h0, h1] at hm)
    lit3Recorded
    (by
      intro e s q hs _ hq hne
      simp only [lit3] at hq
      by_cases h0 : s = 0
      · subst h0
        simp at hq
        rcases hq with hq | hq
        · exact absurd hq hne
        · subst hq; simp [lit3Recorded]
      · simp [h0] at hq
        exact absurd hq hne)
    (by
      intro e e' s h
      unfold lit3Recorded
      by_cases h0 : s = 0
      · subst h0
        have b := h 1 (by simp [lit3])
        simp [b]
      · simp [h0])
    post e₀ ops
  exact ⟨h.2.1, h.2.2⟩

/-- ... and the history the repair is about: the shown file changes, the page that shows it is re-parsed -/
example :
    (chosen3 [0, 1] (fun s => lit3Recorded (fun p => if p ≤ 1 then some 5 else none) s)
      (fun p => if p ≤ 1 then some 5 else none) (Op.update 1 6) 1) = [1, 0] ∧
    (chosen3 [0, 1] (fun s => lit3Recorded (fun p => if p ≤ 1 then some 5 else none) s)
      (fun p => if p ≤ 1 then some 5 else none) (Op.update 1 5) 1) = [1] := by
  constructor <;> decide

/-! ## A concrete project (non-vacuity and refutation witnesses)

paths: `0` = `index.txt` (a page that literal-includes file `2`), `1` = `includes/extracts-a.yaml` (one generated
page per entry), `2` = `code/sample.py` (not a source). Contents are lists of numbers; the page of `index.txt` has key
`100`, the page generated for entry `r` has key `200 + r`. -/

def toyParse (e : Env Nat (List Nat)) (p : Nat) : List (Nat × Nat) :=
  match p with
  | 0 => match e 0 with
    | some c => [(100, c.sum + (match e 2 with | some d => d.sum + 1 | none => 0))]
    | none => []
  | 1 => match e 1 with
    | some c => c.map (fun r => (200 + r, r))
    | none => []
  | _ => []

def toyReads (_ : Env Nat (List Nat)) (p : Nat) : List Nat :=
  match p with
  | 0 => [0, 2]
  | 1 => [1]
  | _ => []

def toy : Parser Nat Nat Nat (List Nat) :=
  { parse := toyParse, reads := toyReads,
    footprint := by
      intro e e' p h
      match p with
      | 0 =>
        have h0 := h 0 (by simp [toyReads])
        have h2 := h 2 (by simp [toyReads])
        simp [toyParse, h0, h2]
      | 1 =>
        have h1 := h 1 (by simp [toyReads])
        simp [toyParse, h1]
      | (n + 2) => simp [toyParse] }

def toyOwner (k : Nat) : Nat := if k = 100 then 0 else 1

theorem toy_owns : ∀ e p k pg, (k, pg) ∈ toy.parse e p → toyOwner k = p := by
  intro e p k pg h
  match p with
  | 0 =>
    simp only [toy, toyParse] at h
    cases h0 : e 0 with
    | none => rw [h0] at h; simp at h
    | some c => rw [h0] at h; simp at h; simp [toyOwner, h.1]
  | 1 =>
    simp only [toy, toyParse] at h
    cases h1 : e 1 with
    | none => rw [h1] at h; simp at h
    | some c =>
      rw [h1] at h
      simp at h
      obtain ⟨_, hk⟩ := h
      simp [toyOwner]
      omega
  | (n + 2) => simp [toy, toyParse] at h

/-- a postprocessor for the examples: it looks at four keys -/
def toyPost (s : Store Nat Nat Nat) : Option (Nat × Nat) × Option (Nat × Nat) × Option (Nat × Nat) × Option (Nat × Nat) :=
  (s 100, s 204, s 205, s 206)

def toyEnv : Env Nat (List Nat) := fun p =>
  match p with
  | 0 => some [1]
  | 1 => some [5, 6]
  | 2 => some [7]
  | _ => none

/-- what the code records as graph edges: the literal-included file -/
def toyRecorded (_ : Env Nat (List Nat)) (p : Nat) : List Nat :=
  match p with
  | 0 => [2]
  | _ => []

/-- a history touching everything: edit the included file, drop a YAML entry, delete the YAML file, re-create it,
delete the included file -/
def toyOps : List (Op Nat (List Nat)) :=
  [.update 2 [9], .postprocess, .update 1 [6], .update 0 [3], .delete 1, .postprocess, .create 1 [4], .delete 2]

/-- non-vacuity of `code_converge`: its hypotheses hold for the toy project … -/
example : let final := codeRun toy toyRecorded [0, 1] toyPost (CodeSt.init toy toyRecorded [0, 1] toyPost toyEnv) toyOps
    final.store = storeOf toy [0, 1] (envAfter toyEnv toyOps) :=
  (code_converge toy toyOwner [0, 1] toy_owns toyRecorded
    (by
      intro e s q hs _ hq hne
      simp at hs
      cases hs with
      | inl h => subst h; simp [toy, toyReads] at hq; cases hq with
        | inl h => exact absurd h hne
        | inr h => subst h; simp [toyRecorded]
      | inr h => subst h; simp [toy, toyReads] at hq; exact absurd hq hne)
    (by intro e e' s _; rfl)
    toyPost toyEnv toyOps).2.1

/-- … and the run is not trivial: the page of `index.txt` reflects both its own edit and the deleted include, the YAML
page of the dropped entries are gone, the re-created file's entry is present -/
def toyFinal : CodeSt Nat Nat Nat (List Nat) (Option (Nat × Nat) × Option (Nat × Nat) × Option (Nat × Nat) × Option (Nat × Nat)) :=
  codeRun toy toyRecorded [0, 1] toyPost (CodeSt.init toy toyRecorded [0, 1] toyPost toyEnv) toyOps

example : toyFinal.store 100 = some (3, 0) ∧ toyFinal.store 204 = some (4, 1) ∧ toyFinal.store 205 = none ∧
    toyFinal.store 206 = none ∧ deliver toyPost toyFinal.toSt = (some (3, 0), some (4, 1), none, none) := by decide

/-- non-vacuity of `converge`: explicit re-parse sets satisfying the obligation -/
example : CoversAll toy [0, 1] toyEnv [(.update 2 [9], [0]), (.delete 1, [1]), (.postprocess, [])] := by
  refine ⟨?_, ?_, ?_, trivial⟩
  · intro s hs q hq hor
    simp [Op.touched] at hq; subst hq
    simp at hs
    cases hs with
    | inl h => simp [h]
    | inr h => subst h; simp [toy, toyReads] at hor
  · intro s hs q hq hor
    simp [Op.touched] at hq; subst hq
    simp at hs
    cases hs with
    | inl h => subst h; simp [toy, toyReads] at hor
    | inr h => simp [h]
  · intro s hs q hq; simp [Op.touched] at hq

/-- **The code before the fix did not converge** (defect D13 and its sibling): with exactly the re-parse sets the
obligation asks for, (a) deleting the YAML file leaves its generated pages in the store, (b) updating it to fewer
entries leaves the page of the dropped entry. -/
theorem converge_refuted :
    (CoversAll toy [0, 1] toyEnv [(.delete 1, [1])] ∧
      (runAsWritten toy [0, 1] (fun p => p == 0) (toyEnv, storeOf toy [0, 1] toyEnv) [(.delete 1, [1])]).2
        ≠ storeOf toy [0, 1] (envAfter toyEnv [.delete 1])) ∧
    (CoversAll toy [0, 1] toyEnv [(.update 1 [6], [1])] ∧
      (runAsWritten toy [0, 1] (fun p => p == 0) (toyEnv, storeOf toy [0, 1] toyEnv) [(.update 1 [6], [1])]).2
        ≠ storeOf toy [0, 1] (envAfter toyEnv [.update 1 [6]])) := by
  have hcov : ∀ (op : Op Nat (List Nat)), op.touched = some 1 → CoversAll toy [0, 1] toyEnv [(op, [1])] := by
    intro op hop
    refine ⟨?_, trivial⟩
    intro s hs q hq hor
    rw [hop] at hq
    have : q = 1 := (Option.some.inj hq).symm
    subst this
    simp at hs
    cases hs with
    | inl h => subst h; simp [toy, toyReads] at hor
    | inr h => simp [h]
  refine ⟨⟨hcov _ rfl, ?_⟩, ⟨hcov _ rfl, ?_⟩⟩
  · intro h
    have := congrFun h 205
    revert this
    decide
  · intro h
    have := congrFun h 205
    revert this
    decide

/-- the same histories converge under the fixed operations (`refresh` drops what the source no longer yields) -/
example : (run toy [0, 1] toyPost (St.init toy [0, 1] toyPost toyEnv) [(.delete 1, [1])]).store 205 = none ∧
    (run toy [0, 1] toyPost (St.init toy [0, 1] toyPost toyEnv) [(.update 1 [6], [1])]).store 205 = none ∧
    (run toy [0, 1] toyPost (St.init toy [0, 1] toyPost toyEnv) [(.update 1 [6], [1])]).store 206 = some (6, 1) := by decide

/-- **An unrecorded read breaks convergence** (the obligation `hrec` is necessary): if the parse of `index.txt` reads
file `2` but no edge is recorded for it, `update(2)` re-parses nothing and the stored page stays stale. This is the
shape of the remaining known finding (existence checks of `:doc:` targets are reads without a recorded edge). -/
theorem unrecorded_read_refuted :
    (codeRun toy (fun _ _ => []) [0, 1] toyPost (CodeSt.init toy (fun _ _ => []) [0, 1] toyPost toyEnv) [.update 2 [9]]).store
      ≠ storeOf toy [0, 1] (envAfter toyEnv [.update 2 [9]]) := by
  intro h
  have := congrFun h 100
  revert this
  decide

/-! ## Layer 4: two sources which yield one output key (fix 70b888c)

`converge` asks that every key has one owner in *every* environment. A history may leave that space for a while (an
entry pasted into a second YAML file before it is cut from the first) - what is stored under the shared key then is the
page generated last, and nothing is claimed about it. What the code owes is that the page is still there, from the
remaining file, once the key has one owner again. -/

/-- **The rule added by the fix is conservative**: on projects in which every key has one owner, the operations that
generate the other sources of a dropped key again (`runShared`) are the operations of `converge` (`run`), so the open
project still converges to the clean build. -/
theorem converge_shared (P : Parser Path Key Page Content) (owner : Key → Path) (srcs : List Path) (keys : List Key)
    (owns : ∀ e p k pg, (k, pg) ∈ P.parse e p → owner k = p)
    (post : Store Path Key Page → Result) (e₀ : Env Path Content)
    (xs : List (Op Path Content × List Path)) (hdep : CoversAll P srcs e₀ xs) :
    let final := runShared P srcs keys post (St.init P srcs post e₀) xs
    final.env = envAfter e₀ (xs.map (·.1)) ∧
    final.store = storeOf P srcs (envAfter e₀ (xs.map (·.1))) ∧
    deliver post final = post (storeOf P srcs (envAfter e₀ (xs.map (·.1)))) := by
  intro final
  have heq : final = run P srcs post (St.init P srcs post e₀) xs :=
    runShared_eq_run P owner srcs owns keys post xs (St.init P srcs post e₀) (inv_init P owner srcs owns post e₀) hdep
  rw [heq]
  exact converge P owner srcs owns post e₀ xs hdep

/-- two extracts files: every number in the content of file `p` is an entry, entry `r` yields the page `200 + r`;
the page says which file it came from -/
def twin : Parser Nat Nat Nat (List Nat) :=
  { parse := fun e p => match e p with
      | some c => if p = 1 ∨ p = 2 then c.map (fun r => (200 + r, 10 * p + r)) else []
      | none => [],
    reads := fun _ p => [p],
    footprint := by
      intro e e' p h
      have hp := h p (by simp)
      simp only [hp] }

/-- file 1 defines `foo` (0) and `bar` (1), file 2 defines `qux` (2) -/
def twinEnv : Env Nat (List Nat) := fun p =>
  match p with
  | 1 => some [0, 1]
  | 2 => some [2]
  | _ => none

def twinPost (s : Store Nat Nat Nat) : Option (Nat × Nat) × Option (Nat × Nat) × Option (Nat × Nat) :=
  (s 200, s 201, s 202)

/-- `foo` is pasted into file 2, then file 2 is deleted / the paste is undone: each operation re-parses the touched file -/
def twinDelete : List (Op Nat (List Nat) × List Nat) := [(.update 2 [2, 0], [2]), (.delete 2, [2])]
def twinUndo : List (Op Nat (List Nat) × List Nat) := [(.update 2 [2, 0], [2]), (.update 2 [2], [2])]

/-- **The code before the fix lost the page** (corpus cases 009 and 010): with the re-parse sets the obligation asks
for, after the second file let go of `foo` the store holds no page 200 although a clean build of the final contents
has the one from file 1 - both final environments give every key one owner. -/
theorem shared_key_refuted :
    (CoversAll twin [1, 2] twinEnv twinDelete ∧
      (run twin [1, 2] twinPost (St.init twin [1, 2] twinPost twinEnv) twinDelete).store 200 = none ∧
      storeOf twin [1, 2] (envAfter twinEnv (twinDelete.map (·.1))) 200 = some (10, 1)) ∧
    (CoversAll twin [1, 2] twinEnv twinUndo ∧
      (run twin [1, 2] twinPost (St.init twin [1, 2] twinPost twinEnv) twinUndo).store 200 = none ∧
      storeOf twin [1, 2] (envAfter twinEnv (twinUndo.map (·.1))) 200 = some (10, 1)) := by
  have hcov : ∀ (e : Env Nat (List Nat)) (op : Op Nat (List Nat)), op.touched = some 2 → Covers twin [1, 2] e op [2] := by
    intro e op hop s hs q hq hor
    rw [hop] at hq
    have : q = 2 := (Option.some.inj hq).symm
    subst this
    simp at hs
    cases hs with
    | inl h => subst h; simp [twin] at hor
    | inr h => simp [h]
  refine ⟨⟨⟨hcov _ _ rfl, hcov _ _ rfl, trivial⟩, ?_, ?_⟩, ⟨⟨hcov _ _ rfl, hcov _ _ rfl, trivial⟩, ?_, ?_⟩⟩ <;> decide

/-- **With the rule of the fix the page is there again**, on every key of the two files, and what the next
postprocessing run delivers is what a clean build of the final contents delivers. -/
theorem shared_key_restored :
    (∀ k ∈ [200, 201, 202, 203],
      (runShared twin [1, 2] [200, 201, 202, 203] twinPost (St.init twin [1, 2] twinPost twinEnv) twinDelete).store k =
        storeOf twin [1, 2] (envAfter twinEnv (twinDelete.map (·.1))) k) ∧
    (∀ k ∈ [200, 201, 202, 203],
      (runShared twin [1, 2] [200, 201, 202, 203] twinPost (St.init twin [1, 2] twinPost twinEnv) twinUndo).store k =
        storeOf twin [1, 2] (envAfter twinEnv (twinUndo.map (·.1))) k) ∧
    deliver twinPost (runShared twin [1, 2] [200, 201, 202, 203] twinPost (St.init twin [1, 2] twinPost twinEnv) twinDelete) =
      twinPost (storeOf twin [1, 2] (envAfter twinEnv (twinDelete.map (·.1)))) ∧
    deliver twinPost (runShared twin [1, 2] [200, 201, 202, 203] twinPost (St.init twin [1, 2] twinPost twinEnv) twinUndo) =
      twinPost (storeOf twin [1, 2] (envAfter twinEnv (twinUndo.map (·.1)))) := by
  decide

/-- the witness is not trivial: while both files define `foo` the store holds the page of the file generated last -/
example : (runShared twin [1, 2] [200, 201, 202, 203] twinPost (St.init twin [1, 2] twinPost twinEnv) [(.update 2 [2, 0], [2])]).store 200
    = some (20, 2) := by decide

end SnootyVerif.C12
