import SnootyVerif.Proofs.EventWalk
import SnootyVerif.Gen.Guards
import SnootyVerif.Gen.Handlers
import SnootyVerif.Proofs.Handlers
import SnootyVerif.Proofs.TitleInject
import SnootyVerif.Properties.C06
import SnootyVerif.Properties.C07
import SnootyVerif.Properties.C10

/-!
# C02 — Postprocessing is total: any parsed project yields output plus diagnostics

The event walk that drives all five passes (`EventParser`) is modelled in `Model/EventWalk.lean`;
the unbounded recursions of the passes are the include pass (C06 `expand_terminates`), the
substitution pass (C07 `static_terminates`) and the toctree walk (C10 `buildToc_fuel`), re-exported
here. Handlers' partial operations (option subscripts, `next`, `list.remove`) are not modelled
one by one: they are covered by the correspondence/oracle run over parser-produced projects and by
the guard table `Gen/Guards.lean` (see `guards_justified`).
-/
namespace SnootyVerif.C02
open SnootyVerif.EventWalk

/-- The walk of any tree leaves the file stack exactly as it found it (pushes and pops balance),
and fires exactly the events of the stack-free specification. -/
theorem walk_balanced (d : Nd) (s : Stack) : (iterate s d).2 = s := by
  rw [iterate_spec]

theorem walk_events_eq_spec (d : Nd) (s : Stack) : (iterate s d).1 = spec s.root s.cur d := by
  rw [iterate_spec]

/-- While a page (whose AST is a Root) is walked, `fileid_stack.root` is that page's file and
`fileid_stack.current` is defined at EVERY event: the properties never raise IndexError and
handlers always file diagnostics under a real file. -/
theorem stack_discipline (id : Nat) (file : String) (cs : List Nd) :
    (iterate [] (.root id file cs)).1.all (okEvt file) = true := by
  rw [iterate_spec]
  simp only [Stack.root, Stack.cur, List.getLast?_nil, List.head?_nil]
  have := specL_ok cs file file
  simp [spec, List.all_append, okEvt, evtFiles] at this ⊢
  exact this

/-- After a page the stack is empty again, whatever the page contains. -/
theorem consume_page_clears (file : String) (ast : Nd) : (consumePage file ast).2 = [] := rfl

/-- Content spliced under an include (a nested Root) is attributed to the included file, and the
enclosing file is current again afterwards. -/
example : (iterate [] (.root 1 "index.txt" [.plain 2 [.root 3 "inc.rst" [.leaf 4]], .leaf 5])).1
    = [.enter 1 (some "index.txt") (some "index.txt"), .enter 2 (some "index.txt") (some "index.txt"),
       .enter 3 (some "index.txt") (some "inc.rst"), .enter 4 (some "index.txt") (some "inc.rst"),
       .exit 4 (some "index.txt") (some "inc.rst"), .exit 3 (some "index.txt") (some "inc.rst"),
       .exit 2 (some "index.txt") (some "index.txt"), .enter 5 (some "index.txt") (some "index.txt"),
       .exit 5 (some "index.txt") (some "index.txt"), .exit 1 (some "index.txt") (some "index.txt")] := by
  decide

/-- **Handler bookkeeping never underflows.** A handler that pushes on `enter_node` and pops on
`exit_node` under the SAME test on the node (ContentsHandler / TabsSelectorHandler `scanned_pattern`,
SubstitutionHandler's replacement-table and active-reference stacks, section depth counters) sees,
over the walk of any tree and from any initial stack, no pop from an empty stack, and finds its stack
exactly as before afterwards. (That enter and exit do use the same test is monitored on the real
handlers by the harness: the stack length at exit equals the length before the matching enter.) -/
theorem handler_stack_discipline (P : Nat → Bool) (d : Nd) (s : Stack) (st : List Nat) :
    bracket P (iterate s d).1 st = some st := by
  rw [iterate_spec]
  exact bracket_spec P _ _ d st

/-- Option subscripts that may stay unguarded, with the reason: both keys are written on the page's
Root options by the same function a few lines earlier (`if not options.get(k): options[k] = {}`). -/
def justified : List (String × String) :=
  [("TabsSelectorHandler.exit_page", "selectors"), ("TabsSelectorHandler.exit_page", "default_tabs")]

/-- Every `X.options["key"]` read in postprocess.py (table regenerated from /repo on every run) is
protected by a membership test / early exit / try-except, or is one of the justified reads: no
handler can raise KeyError on a directive whose option the author left out. -/
theorem guards_justified : ∀ p ∈ SnootyVerif.Gen.unguardedOptionReads, p ∈ justified := by decide

/-! ## handler kernels that index into lists -/

section
open SnootyVerif.Handlers

/-- `TabsSelectorHandler.scan_for_pattern` never raises IndexError and reports the nesting exactly when the target pattern
is a subsequence of the open directives - for every stack of directive names and every non-empty pattern. -/
theorem scan_for_pattern_total_and_exact (pattern stack : List String) (h : pattern ≠ []) :
    ∃ b, scanForPattern pattern stack = .ok b ∧ (b = true ↔ pattern.Sublist stack) := by
  unfold scanForPattern
  cases stack with
  | nil =>
    refine ⟨false, by simp, ?_⟩
    constructor
    · intro hb; cases hb
    · intro hs; exact absurd (List.sublist_nil.mp hs) h
  | cons a t =>
    have hl : 0 < pattern.length := List.length_pos_iff.mpr h
    simpa using scanLoop_spec pattern (a :: t) 0 hl

/-- the pattern the code uses (translated from an instance on every run) is non-empty -/
theorem tabs_pattern_nonempty : Gen.tabsTargetPattern ≠ [] := by decide

theorem tabs_scan_total (stack : List String) :
    ∃ b, scanForPattern Gen.tabsTargetPattern stack = .ok b ∧ (b = true ↔ Gen.tabsTargetPattern.Sublist stack) :=
  scan_for_pattern_total_and_exact _ _ tabs_pattern_nonempty

example : (scanForPattern ["tabs", "tabs", "procedure"] ["tabs", "tab", "tabs", "tab", "procedure", "step", "procedure"]).toOption = some true := by decide
example : (scanForPattern ["tabs", "tabs", "procedure"] ["tabs", "tab", "procedure"]).toOption = some false := by decide

/-- the seeded change C02-6 (completeness test hoisted out of the loop) on the model: IndexError on exactly the stack
its demonstration uses -/
theorem scan_no_stop_refuted :
    (scanLoopNoStop ["tabs", "tabs", "procedure"] 0 ["tabs", "tab", "tabs", "tab", "procedure", "step", "procedure"]).toOption = none
    ∧ (scanLoopNoStop ["tabs", "tabs", "procedure"] 0 ["tabs", "tab", "tabs", "tab", "procedure"]).toOption = some true := by
  decide

end

/-! ## the fourth unbounded recursion: title injection of the reference pass -/

section
open SnootyVerif.TitleInject

/-- what `without_ref_roles` returns holds no cross-reference role, whatever the title looked like -/
theorem injected_title_has_no_reference (own : String) (title : List N) : hasRefL (stripL own title) = false :=
  stripL_noRef own title

/-- **The reference pass terminates** (code after the fix): walking any tree, giving every text-less reference the
stripped title of its target and descending into what was injected, never exhausts a recursion budget of
`size of the tree + largest stripped title` - even when titles contain references to themselves or to each other. -/
theorem reference_pass_terminates (titles : Titles) (M : Nat) (hM : TitlesBounded titles M) (n : N) :
    ∃ r, resolve true titles (size n + M) n = some r :=
  resolve_terminates titles M hM n (size n + M) (Nat.le_refl _)

/-- before the fix: a heading that refers to its own label exhausts EVERY recursion limit (Python: RecursionError) -/
theorem reference_pass_diverged_before_fix (fuel : Nat) : resolve false selfTitles fuel (.ref "a" []) = none :=
  resolve_unstripped_diverges fuel

/-- … and the same input after the fix: the reference is given the title without itself -/
example : (resolve true selfTitles 3 (.wrap [.text "See ", .ref "a" [], .text " here"])).map render =
    some ["<", "See ", "[", "a", "]", " here", ">"] := by
  simp [resolve, resolveL, selfTitles, stripL, strip, render, renderL]
example : (resolve true (fun t => if t = "a" then some [.text "See ", .ref "a" [], .wrap [.ref "b" [.text "x"]]] else none) 4 (.ref "a" [])).map render =
    some ["[", "a", "See ", "<", "x", ">", "]"] := by
  simp [resolve, resolveL, stripL, strip, render, renderL]
example : TitlesBounded selfTitles 0 := by
  intro t title h
  unfold selfTitles at h
  split at h
  · next ht => cases h; subst ht; simp [stripL, strip, sizeL]
  · cases h

end

/-- the three unbounded recursions of the postprocessor terminate (re-exported) -/
theorem include_pass_terminates (pages : SnootyVerif.Include.Pages) (page : String) :
    (SnootyVerif.Include.expandPage pages page).isSome := SnootyVerif.C06.expand_terminates pages page

theorem substitution_pass_terminates (env : SnootyVerif.Subst.Table) (name : String) (line : Nat) :
    (SnootyVerif.Subst.useStatic env name line).isSome := SnootyVerif.C07.static_terminates env name line

end SnootyVerif.C02
