import SnootyVerif.Proofs.Toc

/-!
# C10 — the table of contents and navigation metadata agree with the toctree directives

Property theorems only.  Model: `Model/Toc.lean` (`buildToc` = `build_toctree`, a DFS over
toctree entries threading `visited`; `toctreeOrder` = `pre_order`; `parentPaths` = `breadcrumbs`
over `get_paths`).  Vocabulary (`Proofs/Toc.lean`): `nodesL ts` = all nodes of the forest in
pre-order; `expandedL ts` = the labels of page nodes that have children; `Step`/`Reach` = the
toctree graph and its reflexive-transitive closure; `Occ ts p x` = the forest holds a
slug-bearing node with cleaned slug `x` under ancestors `p`.
-/
namespace SnootyVerif.C10
open SnootyVerif.Toc

/-- Termination on every graph (cycles, self references, references to the root included):
with `pages.length + 1` units of depth fuel `build_toctree` is never cut short. -/
theorem buildToc_fuel (P : Pages) (fuel : Nat) (h : fuel ≥ P.length + 1) : ∃ r, buildToc P fuel = some r := by
  unfold buildToc
  cases hs : startPage P with
  | none => exact ⟨_, rfl⟩
  | some sp =>
    simp only
    have hk : (keys P).length = P.length := by simp [keys]
    obtain ⟨⟨ts, st⟩, hr⟩ := walk_total P fuel sp.slug sp.entries _ (inv_start hs)
      (by simp only [List.length_singleton]; omega)
    rw [hr]; exact ⟨_, rfl⟩

/-- Each page is expanded at most once: among all nodes of the tree that have children no two
name the same page, the root page is never expanded again below the root, and the bookkeeping
set `visited` has no duplicates. -/
theorem expanded_once (P : Pages) (fuel : Nat) (r : Result) (ts : List Tree) (sp : Page)
    (h : buildToc P fuel = some r) (hs : startPage P = some sp) (ht : r.tree = some ts) :
    (expandedL ts).Nodup ∧ sp.slug ∉ expandedL ts ∧ r.visited.Nodup := by
  obtain ⟨ts', st, hw, rfl⟩ := buildToc_walk h hs
  cases ht
  obtain ⟨added, ha, hsub⟩ := hw.expanded_sub
  have hnd := (hw.inv (inv_start hs)).1
  rw [ha] at hnd
  simp only at hnd
  rw [List.nodup_append] at hnd
  have hrev : (expandedL ts).reverse.Nodup := hnd.1.sublist hsub
  refine ⟨(List.reverse_perm _).nodup_iff.1 hrev, ?_, by rw [ha]; exact List.nodup_append.2 hnd⟩
  intro hm
  have : sp.slug ∈ added := hsub.subset (List.mem_reverse.2 hm)
  exact hnd.2.2 _ this _ (List.mem_singleton.2 rfl) rfl

/-- Every page node names a page of the build and carries the entry's explicit title, or else
that page's heading (`titleOf`). -/
theorem nodes_name_pages (P : Pages) (fuel : Nat) (r : Result) (ts : List Tree)
    (h : buildToc P fuel = some r) (ht : r.tree = some ts) :
    ∀ t ∈ nodesL ts, t.kind = .page →
      ∃ e s pg, classify e = .page s ∧ lookup P (cleanSlug s) = some pg ∧ pg.slug = t.label ∧
        t.title = (match truthy e.title with | some x => some x | none => pg.heading) := by
  cases hs : startPage P with
  | none => rw [buildToc_none h hs] at ht; cases ht
  | some sp =>
    obtain ⟨ts', st, hw, rfl⟩ := buildToc_walk h hs
    cases ht
    intro t hm hk
    have := hw.nodes_ok t hm
    cases t with
    | node k l tt cs =>
      cases k with
      | page => exact this
      | url => cases hk
      | project => cases hk

/-- The tree follows the toctree entries: the root's children are the nodes emitted for the
entries of the root page, in document order, and the children of every expanded node are the
nodes emitted for the entries of the page it names (`emitOf`: URL/project leaf, page node with
`titleOf`, nothing for an empty entry or an entry naming no page). -/
theorem children_follow_entries (P : Pages) (fuel : Nat) (r : Result) (ts : List Tree) (sp : Page)
    (h : buildToc P fuel = some r) (hs : startPage P = some sp) (ht : r.tree = some ts) :
    ts.map Tree.head = sp.entries.filterMap (emitOf P) ∧
    ∀ t ∈ nodesL ts, isExpanded t = true →
      ∃ pg, lookup P t.label = some pg ∧ t.children.map Tree.head = pg.entries.filterMap (emitOf P) := by
  obtain ⟨ts', st, hw, rfl⟩ := buildToc_walk h hs
  cases ht
  exact ⟨hw.heads, hw.expanded_children⟩

/-- URL entries and project references are leaves; in particular a node without a `slug` key
never has children (so `get_paths` cannot hit its KeyError). -/
theorem url_nodes_leaves (P : Pages) (fuel : Nat) (r : Result) (ts : List Tree)
    (h : buildToc P fuel = some r) (ht : r.tree = some ts) :
    (∀ t ∈ nodesL ts, t.kind ≠ .page → t.children = []) ∧ LeavesOk ts := by
  cases hs : startPage P with
  | none => rw [buildToc_none h hs] at ht; cases ht
  | some sp =>
    obtain ⟨ts', st, hw, rfl⟩ := buildToc_walk h hs
    cases ht
    have key : ∀ t ∈ nodesL ts, t.kind ≠ .page → t.children = [] := by
      intro t hm hk
      have := hw.nodes_ok t hm
      cases t with
      | node k l tt cs =>
        cases k with
        | page => exact absurd rfl hk
        | url => exact this.1
        | project => exact this.1
    refine ⟨key, ?_⟩
    intro t hm hnone
    apply key t hm
    cases t with
    | node k l tt cs => cases k <;> simp [Tree.slugKey] at hnone ⊢ <;> simp [Tree.kind]

/-- A toctree entry naming no page is reported (on the page that holds it, for every page that is
expanded) and never emitted: whatever is reported names no page, whereas every emitted page node
names one (`nodes_name_pages`). -/
theorem missing_reported (P : Pages) (fuel : Nat) (r : Result) (sp : Page)
    (h : buildToc P fuel = some r) (hs : startPage P = some sp) :
    (∀ v ∈ r.visited, ∀ pa e s, lookup P v = some pa → e ∈ pa.entries → classify e = .page s →
        lookup P (cleanSlug s) = none → (v, cleanSlug s) ∈ r.missing) ∧
    (∀ m ∈ r.missing, lookup P m.2 = none) := by
  obtain ⟨ts, st, hw, rfl⟩ := buildToc_walk h hs
  refine ⟨?_, ?_⟩
  · intro v hv pa e s hl he hc hn
    by_cases h0 : v ∈ [sp.slug]
    · simp only [List.mem_singleton] at h0; subst h0
      rw [startPage_lookup hs] at hl; cases hl
      exact hw.missing_complete.1 e he s hc hn
    · exact hw.missing_complete.2 v hv h0 pa e s hl he hc hn
  · intro m hm
    rcases hw.missing_sound m hm with h | h
    · cases h
    · exact h

/-- DFS correctness: the pages whose toctrees were expanded are exactly the pages reachable from
the root page by following toctree entries that name existing pages. -/
theorem visited_eq_reach (P : Pages) (fuel : Nat) (r : Result) (sp : Page)
    (h : buildToc P fuel = some r) (hs : startPage P = some sp) :
    ∀ v, v ∈ r.visited ↔ Reach P sp.slug v := by
  obtain ⟨ts, st, hw, rfl⟩ := buildToc_walk h hs
  intro v
  constructor
  · intro hv
    rcases hw.visited_sound v hv with h | ⟨e, he, s, pg, hc, hl, hr⟩
    · simp only [List.mem_singleton] at h; subst h; exact .refl
    · exact Reach.head ⟨sp, e, s, pg, startPage_lookup hs, he, hc, hl, rfl⟩ hr
  · intro hr
    induction hr with
    | refl => exact hw.visited_mono (List.mem_singleton.2 rfl)
    | @tail b c _ hstep ih =>
      by_cases h0 : b ∈ [sp.slug]
      · simp only [List.mem_singleton] at h0; subst h0
        obtain ⟨pa, e, s, pb, hla, he, hc, hlb, rfl⟩ := hstep
        rw [startPage_lookup hs] at hla; cases hla
        exact hw.visited_complete.1 e he s pb hc hlb
      · exact hw.visited_complete.2 b ih h0 c hstep

/-- The tree is obtained by following toctree entries from the root: the pages named by its
nodes, together with the root page, are exactly the reachable pages. -/
theorem tree_names_reachable (P : Pages) (fuel : Nat) (r : Result) (ts : List Tree) (sp : Page)
    (h : buildToc P fuel = some r) (hs : startPage P = some sp) (ht : r.tree = some ts) :
    ∀ v, Reach P sp.slug v ↔ v = sp.slug ∨ ∃ t ∈ nodesL ts, t.kind = .page ∧ t.label = v := by
  intro v
  rw [← visited_eq_reach P fuel r sp h hs v]
  obtain ⟨ts', st, hw, rfl⟩ := buildToc_walk h hs
  cases ht
  constructor
  · intro hv
    rcases hw.visited_labels v hv with h | h
    · exact .inl (List.mem_singleton.1 h)
    · exact .inr h
  · rintro (rfl | ⟨t, hm, hk, rfl⟩)
    · exact hw.visited_mono (List.mem_singleton.2 rfl)
    · exact hw.labels_visited t hm hk

/-- A page is reported orphaned exactly when it is a `.txt` page that is unreachable from the
root and not marked `:orphan:`. -/
theorem orphan_iff (P : Pages) (fuel : Nat) (r : Result) (sp : Page)
    (h : buildToc P fuel = some r) (hs : startPage P = some sp) :
    ∀ s, s ∈ r.orphans ↔
      ∃ pg ∈ P, pg.slug = s ∧ pg.isTxt = true ∧ pg.orphan = false ∧ ¬ Reach P sp.slug s := by
  intro s
  have hv := visited_eq_reach P fuel r sp h hs
  obtain ⟨ts, st, hw, rfl⟩ := buildToc_walk h hs
  simp only [orphansOf, List.mem_map, List.mem_filter, Bool.and_eq_true, Bool.not_eq_true',
    List.contains_eq_mem, decide_eq_false_iff_not]
  constructor
  · rintro ⟨pg, ⟨hm, ⟨ht, hn⟩, ho⟩, rfl⟩
    exact ⟨pg, hm, rfl, ht, ho, fun hr => hn ((hv _).2 hr)⟩
  · rintro ⟨pg, hm, rfl, ht, ho, hn⟩
    exact ⟨pg, ⟨hm, ⟨ht, fun hvis => hn ((hv _).1 hvis)⟩, ho⟩, rfl⟩

/-- `toctreeOrder` is the pre-order of the tree: the root's "/" followed by the slug keys of all
nodes, each node before its children, children left to right (`nodesL`). -/
theorem order_is_preorder (ts : List Tree) :
    toctreeOrder (some ts) = ['/'] :: (nodesL ts).filterMap Tree.slugKey := by
  simp [toctreeOrder, preOrderAccL_spec]

/-- Every `parentPaths` entry is the chain of ancestors (cleaned slugs, root excluded, outermost
first) of an occurrence of that slug in the tree. -/
theorem parentPaths_sound (ts : List Tree) (s : Str) (p : List Str)
    (h : dictGet (parentPaths (some ts)) s = some p) : Occ ts p s := by
  unfold parentPaths at h
  rcases crumbAll_sound _ _ _ _ h with h | ⟨q, hq, i, hi, rfl⟩
  · cases h
  · rcases getPathsAccL_sound ts [] [] q hq with h | ⟨c, rfl, hb⟩
    · cases h
    · exact hb.occ i s hi

/-- Every slug-bearing node of the tree below the root has a `parentPaths` entry (this is what
the fix to `get_paths` restores). -/
theorem parentPaths_complete (P : Pages) (fuel : Nat) (r : Result) (ts : List Tree)
    (h : buildToc P fuel = some r) (ht : r.tree = some ts) (s : Str) (p : List Str)
    (hocc : Occ ts p s) : ∃ p', dictGet (parentPaths r.tree) s = some p' ∧ Occ ts p' s := by
  have hok := (url_nodes_leaves P fuel r ts h ht).2
  obtain ⟨q, hq, more, hqe⟩ := getPaths_cover hocc hok []
  have hkey : (dictGet (parentPaths (some ts)) s).isSome := by
    unfold parentPaths
    apply crumbAll_keys
    exact .inr ⟨q, hq, by simp [hqe]⟩
  rw [ht]
  obtain ⟨p', hp'⟩ := Option.isSome_iff_exists.1 hkey
  exact ⟨p', hp', parentPaths_sound ts s p' hp'⟩

/-! ### the code before the fix -/

def ent (s : Str) : Entry := ⟨none, none, some s, none⟩
def urlE (t u : Str) : Entry := ⟨some t, some u, none, none⟩

/-- index → x → a → <url> -/
def urlOnly : Pages := [
  ⟨['i','n','d','e','x'], true, none, false, [ent ['x']]⟩,
  ⟨['x'], true, none, false, [ent ['a']]⟩,
  ⟨['a'], true, none, false, [urlE ['U'] ['h',':','x']]⟩]

/-- `get_paths` as it was (URL leaves skipped altogether) loses every page whose toctree lists
only URLs, and with it the ancestors that have no other slug leaf below them: the full
completeness statement is false for it. -/
theorem parentPathsOld_complete_refuted :
    ¬ (∀ (P : Pages) (r : Result) (ts : List Tree), buildToc P (enoughFuel P) = some r → r.tree = some ts →
        ∀ s p, Occ ts p s → ∃ p', dictGet (parentPathsOld r.tree) s = some p') := by
  intro hall
  have hb : buildToc urlOnly (enoughFuel urlOnly) = some
      { tree := some [.node .page ['x'] none [.node .page ['a'] none [.node .url ['h',':','x'] (some ['U']) []]]],
        visited := [['a'], ['x'], ['i','n','d','e','x']], missing := [], orphans := [] } := rfl
  obtain ⟨p', hp'⟩ := hall urlOnly _ _ hb rfl ['a'] [['x']]
    (by
      have h1 : Occ [Tree.node .page ['a'] none [.node .url ['h',':','x'] (some ['U']) []]] [] (cleanSlug ['a']) :=
        .here List.mem_cons_self rfl
      have h2 := Occ.under (ts := [Tree.node .page ['x'] none [.node .page ['a'] none [.node .url ['h',':','x'] (some ['U']) []]]])
        (s := ['x']) List.mem_cons_self rfl h1
      exact h2)
  have : dictGet (parentPathsOld (some [.node .page ['x'] none [.node .page ['a'] none [.node .url ['h',':','x'] (some ['U']) []]]])) ['a'] = none := by
    decide
  rw [this] at hp'
  cases hp'

/-- what the old code still guaranteed: soundness (same proof shape) is unaffected; the fixed
code on the refutation witness gives both pages their chain. -/
example : (buildToc urlOnly (enoughFuel urlOnly)).map (fun r => (parentPaths r.tree, parentPathsOld r.tree)) =
    some ([(['x'], []), (['a'], [['x']])], []) := by decide

/-! ### non-vacuity -/

def entT (t s : Str) : Entry := ⟨some t, none, some s, none⟩

/-- index → a, b ; a → a (self), b, zz (missing), url ; b → a (cycle), index (root reference);
c unreachable; d unreachable but marked `:orphan:` -/
def demo : Pages := [
  ⟨['i','n','d','e','x'], true, none, false, [ent ['/','a'], entT ['B','!'] ['b','.','t','x','t']]⟩,
  ⟨['a'], true, some ['A'], false, [ent ['a'], ent ['/','b','/'], ent ['z','z'], urlE ['U'] ['h',':','x']]⟩,
  ⟨['b'], true, none, false, [ent ['a'], ent ['i','n','d','e','x']]⟩,
  ⟨['c'], true, none, false, []⟩,
  ⟨['d'], true, none, true, []⟩]

example : (buildToc demo (enoughFuel demo)).map
    (fun r => (toctreeOrder r.tree, r.orphans, r.missing, parentPaths r.tree, r.visited, r.tree.map expandedL)) =
    some ([['/'], ['a'], ['a'], ['b'], ['a'], ['/'], ['b']],
          [['c']],
          [(['a'], ['z', 'z'])],
          [(['a'], []), (['b'], []), ([], [['a'], ['b']])],
          [['b'], ['a'], ['i', 'n', 'd', 'e', 'x']],
          some [['a'], ['b']]) := rfl

example : (buildToc demo (enoughFuel demo)).map (fun r => r.tree.map (fun ts => ts.map Tree.head)) =
    some (some [(.page, ['a'], some ['A']), (.page, ['b'], some ['B','!'])]) := rfl
example : demo[0].entries.filterMap (emitOf demo) = [(.page, ['a'], some ['A']), (.page, ['b'], some ['B','!'])] := rfl

/-- with too little fuel the model reports exhaustion (so `buildToc_fuel` is not vacuous) -/
example : buildToc demo 2 = none := by decide
example : (buildToc demo 3).isSome = true := by decide
example : startPage demo = demo[0]? := by decide
example : Step demo ['b'] ['i','n','d','e','x'] :=
  ⟨demo[2], ent ['i','n','d','e','x'], ['i','n','d','e','x'], demo[0], by decide, by decide, by decide, by decide, by decide⟩

/-- `clean_slug` -/
example : [cleanSlug ['/','a','/','b','.','t','x','t','/'], cleanSlug ['.','.','t','x','t'], cleanSlug ['a','.','m','d'],
           cleanSlug ['/'], cleanSlug ['a','/','.','r','s','t']] =
    [['a','/','b'], ['.','.','t','x','t'], ['a','.','m','d'], [], ['a','/','.','r','s','t']] := by decide

/-- `make_toc_entry`: `Title <target>`, bare slug, URL, project reference, and the TypeError of a
project reference without title -/
example : makeTocEntry (· == ' ') (fun t => t == ['h',':','x']) ['T',' ',' ','<','/','a','>'] =
    .ok (some ⟨some ['T'], none, some ['/','a'], none⟩) := rfl
example : makeTocEntry (· == ' ') (fun t => t == ['h',':','x']) ['T',' ','<','h',':','x','>'] =
    .ok (some ⟨some ['T'], some ['h',':','x'], none, none⟩) := rfl
example : makeTocEntry (· == ' ') (fun _ => false) ['P',' ','<','|','p','|','>'] =
    .ok (some ⟨some ['P'], none, none, some ['p']⟩) := rfl
example : makeTocEntry (· == ' ') (fun _ => false) ['<','|','p','|','>'] = .error .typeError := rfl


/-! ## validate_toc_entries (parser.py): entries naming a project that is no associated product are removed — all of
them (the loop used to skip the entry that follows a removed one: fix 211e214) -/

theorem validate_toc_entries_is_filter (products : List Str) (es : List Entry) :
    validateTocEntries products es = es.filter (fun e => !badEntry products e) := by
  have := validate_fold (badEntry products) es [] (by simp)
  simpa [validateTocEntries] using this

/-- no entry with an unknown project survives, and every other entry does, in its place -/
theorem validate_toc_entries_sound (products : List Str) (es : List Entry) :
    (∀ e ∈ validateTocEntries products es, badEntry products e = false) ∧
    (validateTocEntries products es).Sublist es ∧
    (∀ e ∈ es, badEntry products e = false → e ∈ validateTocEntries products es) := by
  rw [validate_toc_entries_is_filter]
  refine ⟨?_, List.filter_sublist, ?_⟩
  · intro e he; simpa using (List.mem_filter.1 he).2
  · intro e he hb; exact List.mem_filter.2 ⟨he, by simp [hb]⟩

/-- the loop as it was before the fix let the second of two adjacent bad entries through -/
theorem validate_toc_entries_old_refuted :
    ∃ products es, ∃ e ∈ validateTocEntriesOld products es, badEntry products e = true :=
  ⟨[], [⟨some ['P'], none, none, some ['p']⟩, ⟨some ['Q'], none, none, some ['q']⟩],
   ⟨some ['Q'], none, none, some ['q']⟩, by decide, by decide⟩

example : validateTocEntries [['k']] [⟨some ['P'], none, none, some ['p']⟩, ⟨some ['Q'], none, none, some ['q']⟩,
    ⟨some ['K'], none, none, some ['k']⟩, ⟨none, none, some ['a'], none⟩] =
    [⟨some ['K'], none, none, some ['k']⟩, ⟨none, none, some ['a'], none⟩] := by decide

end SnootyVerif.C10
