import SnootyVerif.Proofs.Dispatch
import SnootyVerif.Proofs.Enumerator
import SnootyVerif.Proofs.StateMachine
import SnootyVerif.Proofs.Validators
import SnootyVerif.Gen.Dispatch
import SnootyVerif.Gen.NodeKinds
import SnootyVerif.Gen.Emitted
import SnootyVerif.Gen.Enum
import SnootyVerif.Gen.VisitPaths
import SnootyVerif.Proofs.Visitor

/-!
# C01 — Parsing is total: any source text yields an AST plus diagnostics

Four layers, each tied to the code:

1. **Visitor dispatch** (`JSONVisitor.dispatch_visit`, `InlineJSONVisitor`): the isinstance chain, the node-class MROs and
   the set of node classes the parser layer constructs are TRANSLATED from the repo on every run (`Gen/Dispatch.lean`,
   `Gen/NodeKinds.lean`, `Gen/Emitted.lean`); the theorems are `decide`d on those tables, so a removed / reordered branch,
   a new node class without a branch, or a raising catch-all breaks them.
2. **Exception handlers and reporter threshold** (`Gen/Enum.lean`, `Gen/Dispatch.lean`): every exception class the option
   validators / option extraction can raise is turned into `MarkupError`, which `run_directive` / `explicit_construct`
   turn into a system message; `halt_level` is above every message level.
3. **Enumerators** (`roman.py`, `Body.parse_enumerator`): the greedy conversions over the generated numeral map.
4. **Line loop** (`StateMachine.run_sm`): terminates within `4·lines + 6` iterations under the `Progress` contract, which the
   harness monitors on every real parse.

5. **The visitor's node stack** (`Node.walkabout` + the push/pop bookkeeping of `dispatch_visit` / `dispatch_departure`,
   `Model/Visitor.lean`): every control-flow path of every branch is TRANSLATED on each run (`Gen/VisitPaths.lean`) and
   `decide`d to keep pushes and pops paired; for EVERY doctree whose nodes had such outcomes the walk never pops an empty
   stack, never trips the definition-term assertion, and builds exactly the tree of a stack-free specification
   (`visitor_stack_spec`, by induction over the tree). The harness compares, on every real parse, the outcome observed on
   each doctree node with the translated table and the attach events of the real visitor with the model's.

What is NOT modelled (regular expressions of `Inliner`/`Body`, each directive's `run()`, departure handlers) is covered by
the grammar-based fuzz of `harness/props/c01.py` only.
-/
namespace SnootyVerif.C01
open SnootyVerif.Dispatch

/-! ## 1. visitor dispatch -/

/-- `JSONVisitor.dispatch_visit` / `InlineJSONVisitor.dispatch_visit` on the generated tables -/
def visit : String → Option (List String) := dispatch Gen.nodeKinds Gen.visitChain Gen.visitElse
def visitInline : String → Option (List String) := dispatchInline Gen.nodeKinds Gen.visitChain Gen.visitElse Gen.inlineSkip

/-- No node class the state machine, the directives or the role handlers can construct reaches a raising outcome of the
visitor: every one is a known class and each way its branch leaves `dispatch_visit` is a push / return / Skip*. -/
theorem dispatch_total : ∀ k ∈ Gen.emitted, ∃ out, visit k = some out ∧ ∀ t ∈ out, isRaise t = false :=
  allOk_spec _ _ (by decide +kernel)

theorem dispatch_inline_total : ∀ k ∈ Gen.emitted, ∃ out, visitInline k = some out ∧ ∀ t ∈ out, isRaise t = false :=
  allOk_spec _ _ (by decide +kernel)

/-- Stronger, for the fixed code: NO class at all (even one added later) can reach a raising outcome, because neither a
branch nor the catch-all raises. -/
theorem dispatch_total_every_class (mro : List String) :
    outcomeOk (firstMatch Gen.visitChain Gen.visitElse mro) = true :=
  firstMatch_ok _ _ _ (by decide +kernel) (by decide +kernel)

/-- The catch-all branch reports a diagnostic and skips the node (children and departure). -/
theorem dispatch_else_is_diagnostic :
    Gen.visitElse.contains "diag" = true ∧ Gen.visitElse.contains "skipNode" = true ∧ outcomeOk Gen.visitElse = true := by
  decide +kernel

/-- a small copy of the tables as they were before the fix (three branches, the raising catch-all), so that the witness
below does not depend on the regenerated tables -/
def oldKinds : List (String × List String) :=
  [ ("nodes.paragraph", ["nodes.paragraph", "nodes.General", "nodes.TextElement", "nodes.Element", "nodes.Node"])
  , ("nodes.option_list", ["nodes.option_list", "nodes.Element", "nodes.Node"])
  , ("nodes.doctest_block", ["nodes.doctest_block", "nodes.General", "nodes.Body", "nodes.FixedTextElement", "nodes.TextElement", "nodes.Element", "nodes.Node"])
  , ("nodes.citation", ["nodes.citation", "nodes.General", "nodes.Body", "nodes.Element", "nodes.Node"])
  , ("nodes.citation_reference", ["nodes.citation_reference", "nodes.Inline", "nodes.TextElement", "nodes.Element", "nodes.Node"])
  , ("rstparser.target_directive", ["rstparser.target_directive", "rstparser.directive", "nodes.General", "nodes.Body", "nodes.Element", "nodes.Node"]) ]
def oldChain : List (List String × List String) :=
  [ (["rstparser.target_directive"], ["push", "ret"]), (["rstparser.directive"], ["push", "ret"])
  , (["nodes.paragraph"], ["push", "ret", "skipDeparture"]) ]
def oldElse : List String := ["raise:NotImplementedError"]

/-- The unfixed catch-all (`raise NotImplementedError`) is reached by four constructs the state machine emits. -/
theorem dispatch_refuted :
    ["nodes.option_list", "nodes.doctest_block", "nodes.citation", "nodes.citation_reference"].all
      (fun k => dispatch oldKinds oldChain oldElse k = some ["raise:NotImplementedError"]) = true
    ∧ allOk (dispatch oldKinds oldChain oldElse) ["nodes.paragraph", "nodes.option_list"] = false := by
  decide +kernel

example : dispatch oldKinds oldChain ["diag", "skipNode"] "nodes.option_list" = some ["diag", "skipNode"] := by decide +kernel
example : dispatch oldKinds oldChain oldElse "nodes.paragraph" = some ["push", "ret", "skipDeparture"] := by decide +kernel
example : dispatch oldKinds oldChain oldElse "rstparser.target_directive" = some ["push", "ret"] := by decide +kernel  -- first match wins
example : dispatchInline oldKinds oldChain oldElse (["nodes.Body"], ["nodes.Inline"]) "nodes.doctest_block" = some ["ret"] := by decide +kernel
example : dispatchInline oldKinds oldChain oldElse (["nodes.Body"], ["nodes.Inline"]) "nodes.option_list" = some ["raise:NotImplementedError"] := by decide +kernel
example : dispatch oldKinds oldChain oldElse "nodes.nonexistent" = none := by decide +kernel
example : Gen.emitted ≠ [] ∧ Gen.visitChain.length > 10 := by decide +kernel

/-- Branches that contain an `assert`, each with the reason it cannot fire on a doctree built by the state machine.
A new `assert` in any other branch breaks `asserts_justified`. -/
def justifiedAsserts : List String :=
  [ "nodes.field"        -- `field.parent` is a field_list: fields are only created by Body.field / FieldList
  , "rstparser.code"     -- top of state is a Parent: Text/Code/Transition leaves are popped on departure before a sibling
  , "nodes.target"       -- at most one id: set_id appends one id to a node that has none
  , "nodes.list_item"    -- list_item is only appended to bullet_list / enumerated_list, whose branches push a ListNode
  , "nodes.title" ]      -- a title is created inside a section / document

theorem asserts_justified : ∀ b ∈ Gen.assertingBranches, b ∈ justifiedAsserts := by decide +kernel

/-! ## 2. handlers, reporter -/

def mroOfExc (e : String) : List String := (lookup Gen.excKinds e).getD []

/-- Everything `utils.extract_extension_options` can raise — `KeyError` (unknown option), `ValueError`/`TypeError` (the
validators, see `validators_only_value_errors`), the `ExtensionOptionError` family — is re-raised as `MarkupError` by
`parse_extension_options`, and `MarkupError` is handled (turned into a system message) by `explicit_construct`, the frame
through which every construct method (directive, substitution definition with its embedded directive, target, footnote,
citation) is called. (`run_directive` has its own `except MarkupError` for a better message; totality does not need it.) -/
theorem option_errors_handled :
    (["KeyError", "ValueError", "TypeError", "ExtensionOptionError", "BadOptionError", "BadOptionDataError", "DuplicateOptionError"].all
      (fun e => caughtBy Gen.optionHandlers (mroOfExc e) = some ["raise:MarkupError"])) = true
    ∧ caughtBy Gen.explicitConstructHandlers (mroOfExc "MarkupError") = some ["handled"] := by
  decide +kernel

/-- `halt_level` is above every system-message level, so `Reporter.system_message` never raises `SystemMessage`. -/
theorem system_messages_never_raise (level : Nat) (h : level ≤ maxLevel) : reporterRaises Gen.haltLevel level = false := by
  have : maxLevel < Gen.haltLevel := by decide
  simp only [reporterRaises, decide_eq_false_iff_not, ge_iff_le, Nat.not_le]
  omega

example : reporterRaises 3 3 = true := by decide   -- a lowered halt_level would raise on ERROR

/-! ## 3. enumerators -/
open SnootyVerif.Enumerator in
/-- the tables of the running code -/
def romanR : SnootyVerif.Enumerator.Roman := ⟨Gen.romanMap, Gen.romanMax⟩
def enumTables : SnootyVerif.Enumerator.Tables := ⟨romanR, Gen.enumSequences, Gen.converterHandlers⟩

/-- The numeral map is in strictly decreasing order of value, every value is positive and no numeral is empty: both greedy
loops of roman.py terminate (each iteration subtracts a positive value / consumes at least one character). -/
theorem roman_map_strictly_decreasing : Enumerator.mapWellFormed Gen.romanMap = true := by decide +kernel

/-- the part of the map below the thousands round-trips on 0..999 and never writes a numeral starting with the first
numeral — exhaustive kernel evaluation, in four chunks -/
theorem roman_below_first_a : Enumerator.bruteOk ['M'] Gen.romanMap.tail 250 0 = true := by decide +kernel
theorem roman_below_first_b : Enumerator.bruteOk ['M'] Gen.romanMap.tail 250 250 = true := by decide +kernel
theorem roman_below_first_c : Enumerator.bruteOk ['M'] Gen.romanMap.tail 250 500 = true := by decide +kernel
theorem roman_below_first_d : Enumerator.bruteOk ['M'] Gen.romanMap.tail 250 750 = true := by decide +kernel

/-- `from_roman(to_roman(n)) == n` for every n that has a numeral: the thousands are peeled off by the closed form of the
greedy loops (`Proofs/Enumerator.lean: roundtrip_peel`), the rest is `roman_below_first_*`. -/
theorem roman_roundtrip (n : Nat) (h1 : 1 ≤ n) (h2 : n ≤ 4999) :
    (Enumerator.toRoman romanR n).bind (Enumerator.fromRoman romanR) = .ok n := by
  have hmap : Gen.romanMap = (['M'], 1000) :: Gen.romanMap.tail := by decide +kernel
  have hmax : romanR.max = 5000 := by decide +kernel
  apply Enumerator.roundtrip_of_aux romanR n (by omega) (by omega)
  show Enumerator.fromRomanAux Gen.romanMap (Enumerator.toRomanAux Gen.romanMap n) 0 = n
  rw [hmap]
  apply Enumerator.roundtrip_peel ['M'] 1000 (by decide) Gen.romanMap.tail
  intro n' hn'
  by_cases ha : n' < 250
  · exact Enumerator.bruteOk_spec _ _ 250 0 roman_below_first_a n' (by omega) (by omega)
  · by_cases hb : n' < 500
    · exact Enumerator.bruteOk_spec _ _ 250 250 roman_below_first_b n' (by omega) (by omega)
    · by_cases hc : n' < 750
      · exact Enumerator.bruteOk_spec _ _ 250 500 roman_below_first_c n' (by omega) (by omega)
      · exact Enumerator.bruteOk_spec _ _ 250 750 roman_below_first_d n' (by omega) (by omega)

/-- outside 1..4999 `to_roman` raises (a ValueError), it never loops or returns an empty numeral -/
theorem roman_out_of_range : Enumerator.toRoman romanR 0 = .error .ValueError ∧ Enumerator.toRoman romanR 5000 = .error .ValueError := by
  decide +kernel

/-- both conversions return or raise `ValueError`, nothing else -/
theorem fromRoman_total (s : List Char) :
    (∃ n, Enumerator.fromRoman romanR s = .ok n) ∨ Enumerator.fromRoman romanR s = .error .ValueError :=
  Enumerator.fromRoman_total _ s

/-- an accepted numeral is the canonical spelling of its value (`IIII`, `VX`, `IC` are rejected because they do not spell back) -/
theorem fromRoman_canonical (s : List Char) (n : Nat) (h : Enumerator.fromRoman romanR s = .ok n) :
    Enumerator.toRoman romanR n = .ok s :=
  Enumerator.fromRoman_sound _ s n h

example : Enumerator.toRoman romanR 1994 = .ok ['M','C','M','X','C','I','V'] := by decide +kernel
example : Enumerator.fromRoman romanR ['X','X','I'] = .ok 21 := by decide +kernel
example : Enumerator.fromRoman romanR ['M','M','M','M','C','M','X','C','I','X'] = .ok 4999 := by decide +kernel
example : Enumerator.fromRoman romanR ['I','I','I','I'] = .error .ValueError := by decide +kernel
example : Enumerator.fromRoman romanR ['V','X'] = .error .ValueError := by decide +kernel
example : Enumerator.fromRoman romanR ['I','C'] = .error .ValueError := by decide +kernel
example : Enumerator.fromRoman romanR [] = .error .ValueError := by decide +kernel
example : Enumerator.fromRoman romanR ['M','M','M','M','M'] = .error .ValueError := by decide +kernel

/-- the lookup tables of the code before the repairs: first with VIII written "VII" (8 reads back as 7, "VIII" is not a
numeral), then corrected but ending at XX ("XXI" is not a numeral, 21 has none) — while the algorithm handles both -/
def oldRoman : List (List Char) :=
  [['I'], ['I','I'], ['I','I','I'], ['I','V'], ['V'], ['V','I'], ['V','I','I'], ['V','I','I'], ['I','X'], ['X']]
def oldRoman20 : List (List Char) :=
  [['I'], ['I','I'], ['I','I','I'], ['I','V'], ['V'], ['V','I'], ['V','I','I'], ['V','I','I','I'], ['I','X'], ['X'],
   ['X','I'], ['X','I','I'], ['X','I','I','I'], ['X','I','V'], ['X','V'], ['X','V','I'], ['X','V','I','I'],
   ['X','V','I','I','I'], ['X','I','X'], ['X','X']]

theorem roman_table_refuted :
    (Enumerator.toRomanTable oldRoman 8).bind (Enumerator.fromRomanTable oldRoman) = .ok 7
    ∧ Enumerator.fromRomanTable oldRoman ['V','I','I','I'] = .error .ValueError
    ∧ Enumerator.fromRomanTable oldRoman20 ['X','X','I'] = .error .ValueError
    ∧ Enumerator.toRomanTable oldRoman20 21 = .error .ValueError
    ∧ Enumerator.fromRoman romanR ['X','X','I'] = .ok 21
    ∧ Enumerator.fromRoman romanR ['V','I','I','I'] = .ok 8 := by decide +kernel

/-- the `except` around the converter call handles exactly that class by "no ordinal" -/
theorem enumerator_conversion_handled : Enumerator.onConvertError Gen.converterHandlers .ValueError = .ok none := by
  decide +kernel

/-- `Body.parse_enumerator` returns for every text the enumerator pattern can match, whatever sequence the caller expects
(`EnumeratedList` passes the parent list's `enumtype`, always one of the five sequence names). -/
theorem parseEnumerator_total (text : List Char) (expected : Option String)
    (hm : Enumerator.EnumeratorMatch enumTables text)
    (he : ∀ e, expected = some e → e ∈ Gen.enumSequences) :
    ∃ r, Enumerator.parseEnumerator enumTables text expected = .ok r := by
  apply Enumerator.parseEnumerator_ok enumTables text expected enumerator_conversion_handled hm
  intro e hexp
  have hmem := he e hexp
  have : e = "arabic" ∨ e = "loweralpha" ∨ e = "upperalpha" ∨ e = "lowerroman" ∨ e = "upperroman" := by
    simpa [Gen.enumSequences] using hmem
  rcases this with h | h | h | h | h <;> subst h <;> exact ⟨by simp [Enumerator.seqMatches], by decide⟩

/-- the unfixed handler (`except ValueError: raise ParserError`) on `iiii.` -/
theorem parseEnumerator_refuted :
    Enumerator.parseEnumerator ⟨romanR, Gen.enumSequences, [(["ValueError"], ["raise:ParserError"])]⟩ ['i','i','i','i'] none
      = .error .ParserError := by decide +kernel

example : Enumerator.parseEnumerator enumTables ['x','x','i'] none = .ok ("lowerroman", some 21) := by decide +kernel
example : Enumerator.parseEnumerator enumTables ['i','i','i','i'] none = .ok ("lowerroman", none) := by decide +kernel
example : Enumerator.parseEnumerator enumTables ['M','C','M','X','C','I','V'] none = .ok ("upperroman", some 1994) := by decide +kernel
example : Enumerator.parseEnumerator enumTables ['v','i','i','i'] none = .ok ("lowerroman", some 8) := by decide +kernel
example : Enumerator.parseEnumerator enumTables ['i'] none = .ok ("lowerroman", some 1) := by decide +kernel
example : Enumerator.parseEnumerator enumTables ['c'] none = .ok ("loweralpha", some 3) := by decide +kernel
example : Enumerator.parseEnumerator enumTables ['c'] (some "lowerroman") = .ok ("lowerroman", some 100) := by decide +kernel
example : Enumerator.parseEnumerator enumTables ['4','2'] (some "upperroman") = .ok ("arabic", some 42) := by decide +kernel
example : Enumerator.EnumeratorMatch enumTables ['x','x','i'] := Or.inr ⟨"lowerroman", by decide +kernel, by decide +kernel⟩

/-! ## 4. the line loop -/
open SnootyVerif.StateMachine in
/-- Under the Progress contract the `run_sm` loop ends within `4·lines + 6` iterations, from the initial configuration
(`line_offset = -1`, no forced transition, any initial state). -/
theorem runSM_terminates {σ τ : Type} (m : Machine σ τ) (look : σ → Bool) (hP : Progress m look) (init : σ) :
    (run m (4 * m.n + 6) ⟨0, init, none⟩).2 = true ∧ (run m (4 * m.n + 6) ⟨0, init, none⟩).1 ≤ 4 * m.n + 6 := by
  have hw : weight m look (⟨0, init, none⟩ : Cfg σ τ) < 4 * m.n + 6 := by
    simp only [weight, Nat.sub_zero]
    split <;> omega
  have := run_finishes hP (4 * m.n + 6) ⟨0, init, none⟩ hw
  exact ⟨this.1, by omega⟩

section nonvacuity
open SnootyVerif.StateMachine
/-- a three-line input where line 0 is an overline: state 0 = Body, 1 = Line (look-ahead), 2 = Text.
Body@0 enters Line; Line@1 raises StateCorrection back to line 0 with `text` forced; Body.text@0 enters Text; Text reads on. -/
def demo : Machine Nat Unit :=
  { n := 3
    check := fun s f o =>
      match s, f, o with
      | 0, none, 0 => .advance 0 1
      | 1, none, 1 => .stateCorr 0 0 (some ())
      | 0, some _, _ => .advance o 2
      | _, _, _ => .advance o 0 }

example : run demo 18 ⟨0, 0, none⟩ = (6, true) := by decide
end nonvacuity

/-! ## validators -/

/-- An option validator of `specparser.VALIDATORS` (incl. enum choices and unions) can only raise `ValueError` or
`TypeError` — exactly the classes `parse_extension_options` converts (see `option_errors_handled`). -/
theorem validators_only_value_errors (E : Validators.Env) (k : Validators.Kind) (a : Option (List Char)) (e : Validators.PyErr)
    (h : Validators.validate E k a = .error e) : e = .ValueError ∨ e = .TypeError :=
  Validators.validate_err E k a e h

section nonvacuity
open SnootyVerif.Validators
def asciiEnv : Env :=
  { isSpace := fun c => c = ' ' || c = '\t' || c = '\n'
    digitVal := fun c => if '0' ≤ c ∧ c ≤ '9' then some (c.toNat - 48) else none
    lower := fun c => [if 'A' ≤ c ∧ c ≤ 'Z' then Char.ofNat (c.toNat + 32) else c] }

example : validate asciiEnv .nonnegativeInteger (some ['-','1']) = .error .ValueError := by decide +kernel
example : validate asciiEnv .nonnegativeInteger (some [' ','1','_','0']) = .ok (.int 10) := by decide +kernel
example : validate asciiEnv .integer none = .error .TypeError := by decide +kernel
example : validate asciiEnv .boolean (some ['T','r','u','e']) = .ok (.bool true) := by decide +kernel
example : validate asciiEnv .length (some ['1','0',' ','p','x']) = .ok (.str ['1','0','p','x']) := by decide +kernel
example : validate asciiEnv .length (some ['1','.','2','.','3']) = .error .ValueError := by decide +kernel
example : validate asciiEnv (.union [.nonnegativeInteger, .flag]) (some ['x']) = .error .ValueError := by decide +kernel
example : validate asciiEnv (.union [.nonnegativeInteger, .flag]) none = .ok (.bool true) := by decide +kernel
end nonvacuity

/-! ## 5. the visitor's node stack -/

section VisitorStack
open SnootyVerif.Visitor

/-- does `dispatch_departure` return at once for a node whose branch tests `classes`? (`isinstance(node, departSkipClasses)`
is decided per branch: the branch key is the class the node is an instance of) -/
def branchDepartSkip (classes : List String) : Bool := classes.any (fun c => Gen.departSkipClasses.contains c)

/-- paths that do not keep the pairing, each with the reason it cannot be taken on a doctree the state machine builds.
A new unpaired path anywhere in `dispatch_visit` breaks `visit_paths_balanced`. -/
def justifiedPaths : List (String × Nat × String × String) :=
  [ -- `node["names"][0]` raising IndexError: Body.substitution_def always appends the normalised name before the node is
    -- attached (monitored: no substitution_definition node of a real parse has an empty `names`)
    ("nodes.substitution_definition", 0, "normal", "except IndexError") ]

def unbalancedPaths : List (String × Nat × String × String) :=
  (Gen.visitPaths.flatMap (fun (b : List String × List (Nat × String × String)) =>
    (b.2.filter (fun p => !pathBalanced (branchDepartSkip b.1) p)).map (fun p => (b.1.headD "", p.1, p.2.1, p.2.2))))
  ++ (Gen.visitPathsElse.filter (fun p => !pathBalanced false p)).map (fun p => ("<else>", p.1, p.2.1, p.2.2))

/-- **every way through `dispatch_visit` keeps pushes and pops paired** (table regenerated from the source on every run):
a path that returns normally or skips the children pushed exactly one node; a path that raises SkipNode / SkipDeparture
pushed none; no path raises anything else. The only exceptions are the justified ones. -/
theorem visit_paths_balanced : ∀ p ∈ unbalancedPaths, p ∈ justifiedPaths := by decide +kernel

/-- `dispatch_departure` is `if len(state) == 1 or isinstance(node, …): return` followed by exactly one unconditional
`state.pop()`, pushes nothing, and no other method of the visitor classes touches the stack. -/
theorem departure_shape :
    Gen.departLenOneGuard = true ∧ Gen.departPopsTop = 1 ∧ Gen.departPopsAll = 1 ∧ Gen.departFirstIsPop = true
    ∧ Gen.departPushes = 0 ∧ Gen.departOtherWrites = []
    ∧ ∀ m ∈ Gen.stateMutators, m ∈ ["dispatch_visit", "dispatch_departure"] := by decide +kernel

/-- **The stack is a faithful tree builder, for every doctree.** If the outcome of `dispatch_visit` on every node is one
of the paired ones (`balanced`) and terms are handed to definition list items only (`termsOk`), then walking any node
from any non-empty stack succeeds, leaves everything below the top untouched, and hands the top exactly the nodes of the
stack-free specification `emit`, in document order. -/
theorem visitor_stack_spec (d : DNode) (top : T) (rest : List T) (hb : balanced d = true) (ht : termsOk top.kind d = true) :
    walk (top :: rest) d = .ok (attachAllT top (emit d) :: rest) := walk_spec d top rest hb ht

/-- the whole document: the walk starts from the empty stack, never raises, and returns the root built by the specification -/
theorem visitor_document_total (id : Nat) (kind : AKind) (cs : List DNode) (hb : balancedL cs = true) (ht : termsOkL kind cs = true) :
    walkDoc (.mk id 1 .normal kind false cs) = .ok (attachAllT (.mk id kind [] []) (emitL cs)) := walkDoc_spec id kind cs hb ht

/-- nothing is invented: every AST node stems from a doctree node of the subtree it was built from -/
theorem visitor_ids_from_doctree (d : DNode) (i : Nat) (h : i ∈ idsL (emit d)) : i ∈ d.ids := emit_ids_mem d i h

/-- **reading order** (C03): for containers that keep their children, the AST read depth-first is a subsequence of the
doctree read depth-first — nothing reordered, nothing duplicated -/
theorem visitor_reading_order (d : DNode) (h : plain d = true) : (idsL (emit d)).Sublist d.ids := emit_ids_sublist d h

/- non-vacuity and the failure modes the hypotheses exclude -/

/-- a section with a title and a paragraph holding text, an emphasis and a skipped system message -/
def demoDoc : DNode :=
  .mk 0 1 .normal .parent false
    [ .mk 1 1 .normal .parent false
        [ .mk 2 1 .normal .parent false [.mk 3 1 .normal .leaf false []],
          .mk 4 1 .normal .parent false
            [ .mk 5 1 .normal .leaf false [], .mk 6 1 .normal .parent false [.mk 7 1 .normal .leaf false []],
              .mk 8 0 .skipNode .parent false [.mk 9 1 .normal .leaf false []] ] ] ]

example : balanced demoDoc = true ∧ plain demoDoc = true := by decide
example : (walkDoc demoDoc).map T.ids = .ok [0, 1, 2, 3, 4, 5, 6, 7] := by decide

/-- a definition list: term and definition (whose departure returns early) under an item -/
def demoDl : DNode :=
  .mk 0 1 .normal .parent false
    [ .mk 1 1 .normal .parent false
        [ .mk 2 1 .normal .dlItem false
            [ .mk 3 1 .normal .term false [.mk 4 1 .normal .leaf false []],
              .mk 5 0 .normal .parent true [.mk 6 1 .normal .parent false [.mk 7 1 .normal .leaf false []]] ] ] ]

example : balanced demoDl = true ∧ termsOk .parent demoDl = true := by decide
example : (walkDoc demoDl).map T.ids = .ok [0, 1, 2, 4, 6, 7] := by decide

/-- **what an unpaired path does** (the `.. todo::` defect repaired earlier: nothing pushed, normal return): the
departure pops the ENCLOSING node early; the sibling that follows is attached one level too high. -/
theorem unbalanced_misnests :
    let todo : DNode := .mk 2 0 .normal .parent false []
    let doc : DNode := .mk 0 1 .normal .parent false [.mk 1 1 .normal .parent false [todo, .mk 3 1 .normal .leaf false []]]
    balanced doc = false ∧
    (walkDoc doc).map (fun t => t.cs.map (fun c => (c.id, c.cs.map T.id))) = .ok [(1, []), (3, [])]
    ∧ (emit doc).map (fun t => t.cs.map (fun c => (c.id, c.cs.map T.id))) = [[(1, [3])]] := by decide

/-- a term outside a definition list item trips the assertion -/
theorem stray_term_asserts :
    (walkDoc (.mk 0 1 .normal .parent false [.mk 1 1 .normal .term false []])).map T.ids = .error .assertionError := by decide

end VisitorStack

end SnootyVerif.C01
