import SnootyVerif.Proofs.Refs
import SnootyVerif.Proofs.Ids
import SnootyVerif.Model.RoleText

/-!
# C08 — Cross-references resolve to the right target; resolved links never dangle

Property theorems only. Models: `Model/Targets.lean` (database, registration passes),
`Model/Refs.lean` (lookup, disambiguation, resolution, the passes as `run`);
helper lemmas: `Proofs/Targets.lean`, `Proofs/Refs.lean`.

`cands P db invs r` below is what `TargetDatabase.__getitem__` returns for the reference `r`;
`locals` its internal results, `here root` those registered under the referring root page.
-/
namespace SnootyVerif.C08
open SnootyVerif SnootyVerif.Targets SnootyVerif.Refs

/-- the candidates `self.targets[key]` of a reference -/
abbrev cands (P : Params) (db : Db) (invs : List Inventory) (r : Ref) : List Result :=
  lookup P.isSpace P.lower P.prefixes db invs (mkKey r.domain r.role r.target)

abbrev locals (cs : List Result) : List Result := cs.filter Result.isInternal
abbrev here (root : String) (cs : List Result) : List Result := (locals cs).filter (onPage root)

/-- `RefsHandler.enter_node` handles every `std:doc` role separately (page links, no anchor) -/
abbrev notDoc (r : Ref) : Prop := ¬ (r.domain = stdS ∧ r.role = docS)

/-! ## normalisation -/

/-- `normalize_target` is idempotent (`hB`: the blank is whitespace; checked on the running Python). -/
theorem normalize_idempotent (isSpace : Char → Bool) (hB : isSpace ' ' = true) (s : Str) :
    normalize isSpace (normalize isSpace s) = normalize isSpace s :=
  normAux_idem isSpace hB s false

/-- Two spellings that differ only in *which* and *how many* whitespace characters separate two
parts have the same normal form, hence the same database key. -/
theorem normalize_ws_insensitive (isSpace : Char → Bool) (a b ws₁ ws₂ : Str)
    (h₁ : ws₁ ≠ []) (h₂ : ws₂ ≠ []) (hs₁ : ∀ c ∈ ws₁, isSpace c = true) (hs₂ : ∀ c ∈ ws₂, isSpace c = true) :
    normalize isSpace (a ++ ws₁ ++ b) = normalize isSpace (a ++ ws₂ ++ b) := by
  unfold normalize
  rw [List.append_assoc, List.append_assoc]
  apply normAux_prefix
  intro f
  rw [normAux_ws isSpace ws₁ b h₁ hs₁, normAux_ws isSpace ws₂ b h₂ hs₂]

example : normalize (fun c => c == ' ' || c == '\t') "a \t  b".toList = "a b".toList := by decide
example : normalize (fun c => c == ' ' || c == '\t') "a\tb".toList = normalize (fun c => c == ' ' || c == '\t') "a   b".toList := by
  decide

/-! ## pass 4: what is registered is emitted -/

/-- Every local definition `(page, html_id)` that pass 4 adds to the database belongs to a target
node of that very root page which carries that `html_id` (`outs` = the ids stored on the nodes). -/
theorem registered_anchor_emitted {isSpace isWord : Char → Bool} {ps : List Page} {db db' : Db}
    {outs : List (List (Option String))} (h : pass4 isSpace isWord db ps = .ok (db', outs))
    {k : Str} {d : LocalDef} (hd : d ∈ db'.get k) :
    d ∈ db.get k ∨ ∃ pl ∈ ps.zip outs, pl.1.slug = d.page ∧ some d.htmlId ∈ pl.2 :=
  pass4_mem ps h hd

/-- … and conversely every name of a target is found under its normalised key afterwards
(`define_local_target` on a non-empty name list). -/
theorem registered_is_found {isSpace : Char → Bool} {db db' : Db} {dom role : Str} {ts : List Str}
    {page : String} {title : Inls} {hid : String}
    (h : defineLocal isSpace db dom role ts page title hid = .ok db') {t : Str} (ht : t ∈ ts) :
    ∃ d ∈ db'.get (mkKey dom role (normalize isSpace t)), d.page = page ∧ d.htmlId = hid ∧ d.canonical ∈ ts := by
  unfold defineLocal at h
  split at h
  · cases h
  · rename_i canon hc
    injection h with h; subst h
    refine ⟨_, addAll_found isSpace dom role ⟨canon, page, hid, title⟩ ts db t ht, rfl, rfl, ?_⟩
    have hk := @defineLocal_mem isSpace db _ dom role ts page title hid (by unfold defineLocal; rw [hc]) _ _
      (addAll_found isSpace dom role ⟨canon, page, hid, title⟩ ts db t ht)
    rcases hk with hk | hk
    · -- already present before: still the canonical name is a member of `ts`
      clear hk
      have key : ∀ (l : List Str) (c : Str), firstMaxBy countDots l = some c → c ∈ l := by
        intro l
        induction l with
        | nil => intro c h; simp [firstMaxBy] at h
        | cons x xs ih =>
          intro c h
          simp only [firstMaxBy] at h
          split at h
          · injection h with h; simp [h]
          · rename_i y hy
            split at h
            · injection h with h; subst h; exact List.mem_cons_of_mem _ (ih _ hy)
            · injection h with h; simp [h]
      exact key _ _ hc
    · exact hk.2.2.2.1

/-- the html ids handed out on one page are pairwise distinct (C09's `assign_unique_id`), so
"the target carrying this id" is a single node -/
theorem target_ids_nodup (isWord : Char → Bool) (items : List Item) :
    (Ids.assignAll (targetBases isWord items)).Nodup :=
  (Ids.assignFrom_disjoint_nodup _ _ []).2

/-! ## pass 5: resolution -/

/-- `target_candidates[-1]` is never applied to an empty list: resolution cannot raise. -/
theorem resolve_total (P : Params) (db : Db) (invs : List Inventory) (root : String) (r : Ref) :
    ∃ o, resolveRef P db invs root r = .ok o :=
  resolveRef_total P db invs root r

/-- A reference whose key has candidates gets the destination and canonical name of **one of those
candidates**; an internal destination `(slug, html_id)` is a local definition registered under the
reference's own normalised key, and the node's target becomes that definition's canonical name. -/
theorem resolves_to_own_definition {P : Params} {db : Db} {invs : List Inventory} {root : String}
    {r : Ref} {o : RefOut} (hdoc : notDoc r) (hne : cands P db invs r ≠ [])
    (h : resolveRef P db invs root r = .ok o) :
    (∃ res ∈ cands P db invs r, o.dest = res.dest ∧ o.target = res.canonical) ∧
    (∀ slug hid, o.dest = .fileid slug hid →
      ∃ d ∈ db.get (normalize P.isSpace (mkKey r.domain r.role r.target)),
        d.page = slug ∧ d.htmlId = hid ∧ d.canonical = o.target) := by
  obtain ⟨res, hres, ht, hd, _⟩ := resolveRef_found hdoc hne h
  exact ⟨⟨res, pruned_subset _ _ _ (lastOf_mem _ _ hres), hd, ht⟩, fun s hid hs => resolveRef_fileid h hs⟩

/-- Several local definitions, exactly one of them on the referring root page: that one is taken
and no `AmbiguousTarget` is reported. -/
theorem same_page_preferred {P : Params} {db : Db} {invs : List Inventory} {root : String}
    {r : Ref} {o : RefOut} {c : Result} (hdoc : notDoc r)
    (hmany : (locals (cands P db invs r)).length ≠ 1) (hone : here root (cands P db invs r) = [c])
    (h : resolveRef P db invs root r = .ok o) :
    o.dest = c.dest ∧ o.target = c.canonical ∧ (∃ hid, c.dest = .fileid root hid) ∧
      ∀ d ∈ o.diags, isAmbiguousDiag d = false := by
  have hc_mem : c ∈ here root (cands P db invs r) := by rw [hone]; simp
  have hc_loc := (List.mem_filter.1 hc_mem).1
  have hne : cands P db invs r ≠ [] := by
    intro he; rw [he] at hc_loc; simp at hc_loc
  have hlen : (cands P db invs r).length > 1 := by
    have h1 : (locals (cands P db invs r)).length ≤ (cands P db invs r).length := List.length_filter_le _ _
    have h2 : (locals (cands P db invs r)).length ≠ 0 := by
      intro h0; rw [List.eq_nil_of_length_eq_zero h0] at hc_loc; cases hc_loc
    omega
  obtain ⟨res, hres, ht, hd, _, hamb, hno, _⟩ := resolveRef_found hdoc hne h
  have hp : pruned root (cands P db invs r) = [c] := by
    unfold pruned; rw [if_pos hlen]; exact disambiguate_same_page hmany hone
  rw [hp] at hres hno
  simp only [lastOf_singleton, Option.some.injEq] at hres
  subst hres
  refine ⟨hd, ht, ?_, hno (by simp)⟩
  have hon := (List.mem_filter.1 hc_mem).2
  cases c with
  | internal s hid cn t =>
    simp only [onPage, beq_iff_eq] at hon
    exact ⟨hid, by simp [Result.dest, hon]⟩
  | external u cn t => simp [onPage] at hon

/-- A single local definition wins over inventory entries of the same name, silently. -/
theorem single_local_preferred {P : Params} {db : Db} {invs : List Inventory} {root : String}
    {r : Ref} {o : RefOut} {l : Result} (hdoc : notDoc r)
    (hone : locals (cands P db invs r) = [l]) (h : resolveRef P db invs root r = .ok o) :
    o.dest = l.dest ∧ o.target = l.canonical ∧ ∀ d ∈ o.diags, isAmbiguousDiag d = false := by
  have hl_mem : l ∈ locals (cands P db invs r) := by rw [hone]; simp
  have hne : cands P db invs r ≠ [] := by
    intro he; rw [he] at hl_mem; simp at hl_mem
  obtain ⟨res, hres, ht, hd, _, _, hno, _⟩ := resolveRef_found hdoc hne h
  have hp : pruned root (cands P db invs r) = [l] := by
    unfold pruned
    split
    · exact disambiguate_single_local hone
    · rename_i hlen
      -- at most one candidate: it is the local one
      match hcs : cands P db invs r with
      | [] => exact absurd hcs hne
      | [x] =>
        rw [hcs] at hl_mem
        have := (List.mem_filter.1 hl_mem).1
        simp at this; rw [this]
      | x :: y :: rest => rw [hcs] at hlen; simp at hlen
  rw [hp] at hres hno
  simp only [lastOf_singleton, Option.some.injEq] at hres
  subst hres
  exact ⟨hd, ht, hno (by simp)⟩

/-- More than one candidate and neither rule decides: `AmbiguousTarget` is reported, listing exactly
the candidates (in order), and the most recently defined candidate is linked. -/
theorem ambiguous_reported {P : Params} {db : Db} {invs : List Inventory} {root : String}
    {r : Ref} {o : RefOut} (hdoc : notDoc r) (hlen : (cands P db invs r).length > 1)
    (h1 : (locals (cands P db invs r)).length ≠ 1) (h2 : (here root (cands P db invs r)).length ≠ 1)
    (h : resolveRef P db invs root r = .ok o) :
    Diag.ambiguous r.role r.target ((cands P db invs r).map describe) ∈ o.diags ∧
      ∃ res, lastOf (cands P db invs r) = some res ∧ o.dest = res.dest ∧ o.target = res.canonical := by
  have hne : cands P db invs r ≠ [] := by intro he; rw [he] at hlen; simp at hlen
  obtain ⟨res, hres, ht, hd, _, hamb, _, _⟩ := resolveRef_found hdoc hne h
  have hp : pruned root (cands P db invs r) = cands P db invs r := by
    unfold pruned; rw [if_pos hlen]; exact disambiguate_unchanged h1 h2
  rw [hp] at hres hamb
  exact ⟨hamb hlen, res, hres, hd, ht⟩

/-- An undefined name (no local definition, no inventory entry) is reported as `TargetNotFound`
and gets neither a file id nor a url. -/
theorem undefined_reported {P : Params} {db : Db} {invs : List Inventory} {root : String}
    {r : Ref} {o : RefOut} (hdoc : notDoc r) (he : cands P db invs r = [])
    (h : resolveRef P db invs root r = .ok o) :
    o.dest = .none ∧ o.diags = [.notFound r.role r.target] ∧ o.target = r.target := by
  obtain ⟨a, b, c⟩ := resolveRef_notfound hdoc he h
  exact ⟨b, c, a⟩

/-- … and a defined name is never reported as not found. -/
theorem defined_not_reported {P : Params} {db : Db} {invs : List Inventory} {root : String}
    {r : Ref} {o : RefOut} (hdoc : notDoc r) (hne : cands P db invs r ≠ [])
    (h : resolveRef P db invs root r = .ok o) :
    o.dest ≠ .none ∧ ∀ d ∈ o.diags, isNotFoundDiag d = false := by
  obtain ⟨res, _, _, hd, _, _, _, hnf⟩ := resolveRef_found hdoc hne h
  refine ⟨?_, hnf⟩
  rw [hd]; cases res <;> simp [Result.dest]

/-- Explicit link text (children that offer no empty slot for a title) is left untouched, for
every role and every outcome. -/
theorem explicit_text_kept {P : Params} {db : Db} {invs : List Inventory} {root : String}
    {r : Ref} {o : RefOut} (hexp : injectable r.kids = false)
    (h : resolveRef P db invs root r = .ok o) : o.kids = r.kids := by
  by_cases hdoc : r.domain = stdS ∧ r.role = docS
  · unfold resolveRef at h; rw [if_pos hdoc] at h; injection h with h; subst h; rfl
  · by_cases he : cands P db invs r = []
    · unfold resolveRef at h
      simp only [hdoc, if_false, he, List.isEmpty_nil, if_true, hexp] at h
      injection h with h; subst h; rfl
    · obtain ⟨res, _, _, _, hk, _⟩ := resolveRef_found hdoc he h
      rw [hk]; simp [hexp]

/-- Without explicit text the (copied) title of the chosen definition is put into the innermost
empty slot; under `~` its first text node is abbreviated. -/
theorem title_injected {P : Params} {db : Db} {invs : List Inventory} {root : String}
    {r : Ref} {o : RefOut} (hdoc : notDoc r) (hne : cands P db invs r ≠ []) (hinj : injectable r.kids = true)
    (h : resolveRef P db invs root r = .ok o) :
    ∃ res ∈ cands P db invs r, o.dest = res.dest ∧
      o.kids = inject r.kids (if r.flag.contains '~' then abbreviate P.isSpace res.title else res.title) := by
  obtain ⟨res, hres, _, hd, hk, _⟩ := resolveRef_found hdoc hne h
  exact ⟨res, pruned_subset _ _ _ (lastOf_mem _ _ hres), hd, by rw [hk]; simp [hinj]⟩

/-! ## whole run: links never dangle -/

/-- Every reference that `run` resolves to an internal link `(slug, html_id)` names a root page of
the build, and that page either emits a target node carrying `html_id` or (`std:doc` key collision
only) the definition is one of the page-level registrations of pass 3. -/
theorem resolved_never_dangles {P : Params} {invs : List Inventory} {pages : List Page} {out : Output}
    (h : run P invs pages = .ok out) :
    ∃ ps db3, titled pages = .ok ps ∧ pass3Docs P.isSpace P.isWord [] ps = .ok db3 ∧
      ∀ os ∈ out.refs, ∀ x ∈ os, ∀ slug hid, x.2.2.dest = .fileid slug hid →
        slug ∈ pages.map Page.slug ∧
        ((∃ pl ∈ ps.zip out.htmlIds, pl.1.slug = slug ∧ some hid ∈ pl.2) ∨
         (∃ k, ∃ d ∈ db3.get k, d.page = slug ∧ d.htmlId = hid)) := by
  unfold run at h
  split at h
  · cases h
  · rename_i ps hps
    split at h
    · cases h
    · rename_i db3 h3
      split at h
      · cases h
      · rename_i db4 ids h4
        split at h
        · cases h
        · rename_i refs h5
          injection h with h; subst h
          refine ⟨ps, db3, hps, h3, ?_⟩
          intro os hos x hx slug hid hdest
          obtain ⟨p, hp, r, _, _, hr⟩ := pass5_mem ps h5 os hos x hx
          obtain ⟨d, hdm, hpg, hh, _⟩ := resolveRef_fileid hr hdest
          have hsl := titled_slugs pages hps
          rcases pass4_mem ps h4 hdm with h6 | ⟨pl, hpl, hs, hm⟩
          · rcases pass3Docs_mem ps h3 h6 with h7 | h7
            · simp [Db.get] at h7
            · exact ⟨by rw [← hsl, ← hpg]; exact h7, Or.inr ⟨_, d, h6, hpg, hh⟩⟩
          · refine ⟨?_, Or.inl ⟨pl, hpl, by rw [hs, hpg], by rw [← hh]; exact hm⟩⟩
            rw [← hsl, ← hpg, ← hs]
            exact List.mem_map.2 ⟨pl.1, (List.of_mem_zip hpl).1, rfl⟩

/-- Every id in a page's on-this-page list is the id of one of that page's headings
(ids as made unique by `HeadingHandler`, C09). -/
theorem contents_ids_exist (items : List Item) (l : List (Nat × String)) (h : contentsOf items = some l) :
    ∀ x ∈ l, x.2 ∈ Ids.assignAll (headingBases items) := by
  intro x hx
  unfold contentsOf at h
  simp only at h
  split at h
  · split at h
    · cases h
    · injection h with h; subst h
      have := (List.mem_filter.1 hx).1
      rcases contentsAux_mem _ _ _ _ _ _ x this with h1 | h1
      · cases h1
      · exact h1
  · cases h


/-! ## parse-time half: role text → target / label / flag -/

section RoleText
open SnootyVerif.RoleText

theorem findOpen_none_of_not_mem : ∀ (text : RoleText.Str) (prev : Char), '<' ∉ text → findOpen prev text = none
  | [], _, _ => rfl
  | c :: rest, prev, h => by
    have hc : c ≠ '<' := fun e => h (by simp [e])
    have hr : '<' ∉ rest := fun e => h (by simp [e])
    simp [findOpen, hc, findOpen_none_of_not_mem rest c hr]

/-- Role text without `<` is the target itself (no label is invented). -/
theorem role_no_angle_is_target (isSpace : Char → Bool) (text : RoleText.Str) (h : '<' ∉ text) :
    parseExplicit isSpace text = (unescape text, none) := by
  unfold parseExplicit
  rw [findOpen_none_of_not_mem text 'x' h]

/-- Removing a callable's argument list only ever drops a suffix of the name. -/
theorem strip_params_is_prefix (isSpace : Char → Bool) (t : RoleText.Str) : stripParams isSpace t <+: t := by
  have rstrip_prefix : ∀ s : RoleText.Str, rstrip isSpace s <+: s := by
    intro s
    unfold rstrip
    have := List.dropWhile_suffix (l := s.reverse) isSpace
    have := List.reverse_prefix.2 this
    simpa using this
  unfold stripParams
  split
  · split
    · exact (rstrip_prefix _).trans (List.take_prefix _ _)
    · exact List.prefix_refl _
  · exact List.prefix_refl _

/-- **The reference side and the definition side agree on the name.** The directive of a prefixed object registers
`prefix.name` for every written `name`; a plain reference written as `name` (no label, no flag, no escapes) links
`prefix.name` too - unless the name already spells the prefix out (`prefix.`), in which case it is kept. In particular a
name that merely BEGINS with the letters of the prefix (`bindiff` for the prefix `bin`) gets the prefix like any other
(it used not to: fix in /repo). -/
theorem role_prefix_agrees_with_directive (isSpace : Char → Bool) (pfx name : RoleText.Str) (hp : pfx ≠ [])
    (hparse : parseExplicit isSpace name = (name, none))
    (hflag : ∀ r, name ≠ '~' :: r ∧ name ≠ '!' :: r) :
    (roleParse isSpace pfx .plain name).target =
      if (pfx ++ ['.']).isPrefixOf name then name else pfx ++ '.' :: name := by
  unfold roleParse
  rw [hparse]
  dsimp only
  split
  · rename_i r; exact absurd rfl (hflag r).1
  · rename_i r; exact absurd rfl (hflag r).2
  · by_cases hpre : (pfx ++ ['.']).isPrefixOf name = true
    · simp [hpre]
    · have : pfx.isEmpty = false := by cases pfx <;> simp_all
      simp [hpre, this]

example : (roleParse (· == ' ') "bin".toList .plain "bindiff".toList).target = "bin.bindiff".toList := by decide
example : (roleParse (· == ' ') "bin".toList .plain "bin".toList).target = "bin.bin".toList := by decide

example : roleParse (· == ' ') [] .callable "the finder <~db.coll.find(a, b)>".toList =
    ⟨"db.coll.find".toList, some "the finder".toList, "~".toList⟩ := by decide
example : roleParse (· == ' ') "dbcmd".toList .plain "!find".toList = ⟨"dbcmd.find".toList, none, "!".toList⟩ := by decide
example : roleParse (· == ' ') "dbcmd".toList .plain "dbcmd.find".toList = ⟨"dbcmd.find".toList, none, []⟩ := by decide
example : roleParse (· == ' ') [] .cmdlineOption "mongod  --port".toList =
    ⟨"mongod.--port".toList, some "mongod  --port".toList, []⟩ := by decide
/-- a signature that wraps over two lines is stripped like one on a single line (before the repair it was kept) -/
example : stripParams (fun c => c == ' ' || c == '\n') "db.foo(a,\nb)".toList = "db.foo".toList ∧
    stripParamsOld (fun c => c == ' ' || c == '\n') "db.foo(a,\nb)".toList = "db.foo(a,\nb)".toList := by decide
/-- an escaped `<` does not open a target -/
example : (parseExplicit (· == ' ') ['a', ' ', nul, '<', 'b', ' ', '<', 'c', '>']) = ("c".toList, some "a <b".toList) := by decide
end RoleText

/-! ## non-vacuity: a two-page project -/

section Example
def sp (c : Char) : Bool := c == ' ' || c == '\t'
def exP : Params := ⟨sp, fun c => c.isAlphanum, fun s => s.map Char.toLower, []⟩
def lbl (name : String) (title : String) : Item :=
  .target stdS labelS [⟨[name.toList], if title = "" then .nil else .cons (.text title.toList) .nil⟩]
def mkRef (rid : Nat) (target : String) (kids : Inls) (flag : String := "") : Item :=
  .ref "f" ⟨rid, stdS, labelS, target.toList, flag.toList, kids⟩
def exPages : List Page :=
  [⟨"index", [lbl "a b" "Index A", lbl "a b" "", .heading 1 "h" (.cons (.text "H".toList) .nil),
              mkRef 1 "a \t b" .nil, mkRef 2 "c" .nil, mkRef 3 "nope" (.cons (.text "kept".toList) .nil)]⟩,
   ⟨"page1", [lbl "a b" "Other A", lbl "c" "x.y.Short", mkRef 4 "a b" .nil, mkRef 5 "c" (.cons (.wrap "literal" .nil) .nil) "~"]⟩]

def destsOf (o : Except PyErr Output) : List (List (Nat × Dest)) :=
  match o with
  | .ok out => out.refs.map (fun l => l.map (fun x => (x.2.1, x.2.2.dest)))
  | .error _ => []

/-- index: "a \t b" has three definitions, two on index ⇒ ambiguous, last one (page1) taken; "c" is
unique; "nope" undefined. page1: "a b" has exactly one same-page definition ⇒ taken. -/
example : destsOf (run exP [] exPages) =
    [[(1, .fileid "page1" "std-label-a-b"), (2, .fileid "page1" "std-label-c"), (3, .none)],
     [(4, .fileid "page1" "std-label-a-b"), (5, .fileid "page1" "std-label-c")]] := by decide

/-- the ids stored on the nodes: the second "a b" of index gets the suffix -/
example : (match run exP [] exPages with | .ok out => out.htmlIds | .error _ => []) =
    [[some "std-label-a-b", some "std-label-a-b-1"], [some "std-label-a-b", some "std-label-c"]] := by decide

/-- title injection: the title-less label before the heading takes the heading's title; `~` abbreviates -/
example : (match run exP [] exPages with
    | .ok out => out.refs.map (fun l => l.map (fun x => x.2.2.kids)) | .error _ => []) =
    [[.cons (.text "Other A".toList) .nil, .cons (.text "x.y.Short".toList) .nil, .cons (.text "kept".toList) .nil],
     [.cons (.text "Other A".toList) .nil, .cons (.wrap "literal" (.cons (.text "Short".toList) .nil)) .nil]] := by decide

example : (match run exP [] exPages with
    | .ok out => out.refs.map (fun l => l.map (fun x => x.2.2.diags)) | .error _ => []) =
    [[[.ambiguous labelS "a \t b".toList ["index", "index", "page1"]], [], [.notFound labelS "nope".toList]], [[], []]] := by decide

/-- hypotheses of `same_page_preferred` / `ambiguous_reported` / `undefined_reported` hold on it -/
example : ∃ db, (match run exP [] exPages with | .ok out => out.db | .error _ => []) = db ∧
    (locals (cands exP db [] ⟨4, stdS, labelS, "a b".toList, [], .nil⟩)).length = 3 ∧
    (here "page1" (cands exP db [] ⟨4, stdS, labelS, "a b".toList, [], .nil⟩)).length = 1 ∧
    (here "index" (cands exP db [] ⟨1, stdS, labelS, "a \t b".toList, [], .nil⟩)).length = 2 ∧
    cands exP db [] ⟨3, stdS, labelS, "nope".toList, [], .nil⟩ = [] := ⟨_, rfl, by decide⟩

/-- an inventory entry under the lower-cased key competes with nothing local: resolved to its url;
next to one local definition the local one wins -/
def exInv : Inventory := [("std:label:c".toList, ⟨"C".toList, "std:label".toList, "https://x/#c", none⟩)]
example : (resolveRef exP [] [exInv] "index" ⟨1, stdS, labelS, "C".toList, [], .nil⟩).toOption.map (·.dest) =
    some (.url "https://x/#c") := by decide
example : destsOf (run exP [exInv] [⟨"index", [lbl "c" "t", mkRef 1 "c" .nil]⟩]) = [[(1, .fileid "index" "std-label-c")]] := by decide

/-- on-this-page list: depth filter and unique ids -/
example : contentsOf [.heading 1 "t" .nil, .contents (some 1), .heading 2 "h" .nil, .heading 2 "h" .nil, .heading 3 "deep" .nil]
    = some [(2, "h"), (2, "h-1")] := by decide
end Example

end SnootyVerif.C08
