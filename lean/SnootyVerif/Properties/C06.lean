import SnootyVerif.Proofs.Include
import SnootyVerif.Proofs.IncludeSpec
import SnootyVerif.Proofs.IncludeAcyclic

/-!
# C06 — Include expansion transcludes exactly the included content, and terminates

Property theorems only (model: `Model/Include.lean`, lemmas: `Proofs/Include.lean`).
`cutList` is `IncludeHandler.bound_included_AST`; `expandPage` is the include pass over one page
with the circular-include guard of the `fix:` commit.
-/
namespace SnootyVerif.C06
open SnootyVerif.Include

/-- No markers requested/present: the included content is the whole file, unchanged. -/
theorem cut_none (ns : List T) (h1 : hasSL ns = false) (h2 : hasEL ns = false) :
    cutList ns = .ok (ns, false, false) := by
  simp only [cutList, cutEach_none ns h1 h2]
  rw [finish_ok_of_flags] <;> simp [List.map_map, Function.comp_def, List.any_map]

/-- The flags that drive the "could not find start-after/end-before text" diagnostics are exact:
a flag is true iff a node carrying that marker exists anywhere in the included forest. -/
theorem cut_flags (ns : List T) (out : List T) (s e : Bool) (h : cutList ns = .ok (out, s, e)) :
    s = hasSL ns ∧ e = hasEL ns := by
  unfold cutList at h
  split at h
  · cases h
  · rename_i rs hrs
    have fl := cutEach_flags ns rs hrs
    have := finish_ok_eq rs _ h
    simp only [Prod.mk.injEq] at this
    rw [this.2.1, this.2.2]; exact fl

/-- Nothing is invented, duplicated or reordered: the nodes kept are a subsequence (document order)
of the nodes of the included file. -/
theorem cut_sublist (ns : List T) (out : List T) (s e : Bool) (h : cutList ns = .ok (out, s, e)) :
    (flatL out).Sublist (flatL ns) := by
  unfold cutList at h
  split at h
  · cases h
  · rename_i rs hrs
    have := finish_ok_eq rs _ h
    simp only [Prod.mk.injEq] at this
    rw [this.1]
    exact (flatL_sublist_of_sublist (slice_sublist _ _ _)).trans (cutEach_sublist ns rs hrs)

/-- The only exception `bound_included_AST` can raise is the "reversed markers" one, and only when
both markers are present (so it is always reported as `InvalidInclude`, never escapes). -/
theorem cut_error_only_reversed (ns : List T) (m : String) (h : cutList ns = .error m) :
    (hasSL ns = true ∧ hasEL ns = true) ∧ m = "start-after text should precede end-before text" := by
  unfold cutList at h
  split at h
  · rename_i e he; cases h; exact cutEach_error ns _ he
  · rename_i rs hrs
    have fl := cutEach_flags ns rs hrs
    have := finish_error rs m h
    rw [← fl.1, ← fl.2]; exact this

/-- **Exactly the part between the markers.** For every included forest whose marker nodes contain
no further markers (`atomicL`; comments and label targets do not), with at most one start and at
most one end marker, not in reversed order: the cut succeeds, reports both found-flags exactly, and
the content units it keeps (document order; a marker or childless node is one unit) are precisely
`between` = from the start marker (or the beginning) through the end marker (or the end). -/
theorem cut_spec (ns : List T) (ha : atomicL ns = true)
    (hcS : (unitsL ns).countP pS ≤ 1) (hcE : (unitsL ns).countP pE ≤ 1)
    (hrev : reversed (unitsL ns) = false) :
    ∃ out, cutList ns = .ok (out, hasSL ns, hasEL ns) ∧ unitsL out = between (unitsL ns) := by
  cases ns with
  | nil => exact ⟨[], by simp [cutList, cutEach, finish_nil, hasSL, hasEL], by simp [unitsL, between, fromS, toE]⟩
  | cons n ns =>
    have h := cutEach_ok (n :: ns) ha hcS hcE hrev
    obtain ⟨out, hfin, hunits, _⟩ := finish_spec (n :: ns) (by simp) h.2 ha hcS hcE hrev
    refine ⟨out, ?_, hunits⟩
    simp only [cutList, cutEach_map (n :: ns) h.1, hfin]

/-- **Reversed markers always raise** (and the raise is always caught and reported, see
`cut_error_only_reversed`): with at most one start and one end marker, an end marker placed before
the start marker makes `bound_included_AST` raise - at whatever depth the two markers sit. -/
theorem cut_reversed_raises (ns : List T) (ha : atomicL ns = true)
    (hcS : (unitsL ns).countP pS ≤ 1) (hcE : (unitsL ns).countP pE ≤ 1)
    (hrev : reversed (unitsL ns) = true) : ∃ m, cutList ns = .error m := by
  rcases cutEach_reversed ns ha hcS hcE hrev with ⟨m, hm⟩ | ⟨rs, hrs, m, hfin⟩
  · exact ⟨m, by simp [cutList, hm]⟩
  · exact ⟨m, by simp [cutList, hrs, hfin]⟩

/-- **Nothing is invented about a bounded include**: a marker is reported as not found only when the included file holds
no such marker, the order is reported as wrong only when it holds both, and a wanted marker that the file does not hold
is always reported. -/
theorem cut_diags_sound (wantS wantE : Bool) (ns : List T) :
    (CutDiag.noStart ∈ cutDiags wantS wantE ns → wantS = true ∧ hasSL ns = false) ∧
    (CutDiag.noEnd ∈ cutDiags wantS wantE ns → wantE = true ∧ hasEL ns = false) ∧
    (CutDiag.reversed ∈ cutDiags wantS wantE ns → hasSL ns = true ∧ hasEL ns = true) := by
  unfold cutDiags
  split
  · rename_i m hm
    have := (cut_error_only_reversed ns m hm).1
    simp [this]
  · rename_i r hr
    obtain ⟨out, s, e⟩ := r
    have hf := cut_flags ns out s e hr
    obtain ⟨hs, he⟩ := hf
    subst hs; subst he
    refine ⟨?_, ?_, ?_⟩
    · intro h
      cases wantS <;> cases hS : hasSL ns <;> cases wantE <;> cases hE : hasEL ns <;> simp_all
    · intro h
      cases wantS <;> cases hS : hasSL ns <;> cases wantE <;> cases hE : hasEL ns <;> simp_all
    · intro h
      cases wantS <;> cases hS : hasSL ns <;> cases wantE <;> cases hE : hasEL ns <;> simp_all

theorem cut_diags_complete (wantS wantE : Bool) (ns : List T) :
    (wantS = true → hasSL ns = false → CutDiag.noStart ∈ cutDiags wantS wantE ns) ∧
    (wantE = true → hasEL ns = false → CutDiag.noEnd ∈ cutDiags wantS wantE ns) := by
  unfold cutDiags
  split
  · rename_i m hm
    have := (cut_error_only_reversed ns m hm).1
    simp [this]
  · rename_i r hr
    obtain ⟨out, s, e⟩ := r
    obtain ⟨hs, he⟩ := cut_flags ns out s e hr
    subst hs; subst he
    constructor <;> intro hw hh <;> simp [hw, hh]

/-- The code before the repair: with the markers in the wrong order it also reported both of them as not found. -/
theorem cut_diags_old_invents :
    ∃ ns, hasSL ns = true ∧ hasEL ns = true ∧ CutDiag.noStart ∈ cutDiagsOld true true ns ∧ CutDiag.noEnd ∈ cutDiagsOld true true ns :=
  ⟨[.node ⟨0, false, true⟩ [], .node ⟨1, true, false⟩ []], by decide, by decide, by decide, by decide⟩

example : cutDiags true true [.node ⟨0, false, true⟩ [], .node ⟨1, true, false⟩ []] = [.reversed] := by decide
example : cutDiags true true [.node ⟨0, false, false⟩ [], .node ⟨1, true, false⟩ []] = [.noEnd] := by decide

/-- what `between` is, spelled out: units before the start marker and after the end marker are
gone, everything from the one to the other is kept in order -/
theorem between_explicit (pre mid post : List Tag) (s e : Tag)
    (hpre : pre.any pS = false) (hs : pS s = true) (hsE : pE s = false) (hmid : mid.any pE = false) (he : pE e = true) :
    between (pre ++ s :: (mid ++ e :: post)) = s :: (mid ++ [e]) := by
  have hall : (pre ++ s :: (mid ++ e :: post)).any pS = true := by simp [List.any_append, hs]
  have hd : (pre ++ s :: (mid ++ e :: post)).dropWhile (fun t => !pS t) = s :: (mid ++ e :: post) := by
    rw [dropWhile_not_of_none hpre]; simp [List.dropWhile, hs]
  unfold between
  rw [fromS_some _ hall, hd, toE_some _ (by simp [List.any_append, he])]
  simp only [takeThrough, hsE, Bool.false_eq_true, if_false]
  rw [takeThrough_append_none hmid]
  simp [takeThrough, he]

/-- non-vacuity of `cut_spec`: the hypotheses hold for a nested example and the kept units are the
start marker, the node between, and the end marker -/
example : atomicL [.node ⟨0, false, false⟩ [], .node ⟨1, false, false⟩ [.node ⟨2, false, false⟩ [], .node ⟨3, true, false⟩ [.node ⟨9, false, false⟩ []]],
      .node ⟨4, false, false⟩ [], .node ⟨5, false, true⟩ [], .node ⟨6, false, false⟩ []] = true
    ∧ (between (unitsL [.node ⟨0, false, false⟩ [], .node ⟨1, false, false⟩ [.node ⟨2, false, false⟩ [], .node ⟨3, true, false⟩ [.node ⟨9, false, false⟩ []]],
      .node ⟨4, false, false⟩ [], .node ⟨5, false, true⟩ [], .node ⟨6, false, false⟩ []])).map (·.id) = [3, 4, 5] := by
  decide

/-- Include expansion terminates on EVERY include graph (self-inclusion, mutual inclusion, any
cycle): the fuel `room + 1` (number of files not yet on the stack) is never exhausted. -/
theorem expand_terminates (pages : Pages) (page : String) : (expandPage pages page).isSome := by
  unfold expandPage
  split
  · simp
  · exact expandFuel_isSome pages _ _ _ (Nat.lt_succ_self _)

/-- On an acyclic include graph (witnessed by any rank function decreasing along includes of
existing files) the circular-include guard never fires: no include is ever refused as circular, so
every include of an existing file is expanded, recursively. The only diagnostics are missing files. -/
theorem expand_acyclic_complete (pages : Pages) (rank : String → Nat) (hac : Acyclic pages rank)
    (page : String) (out : List Out) (ds : List Diag) (h : expandPage pages page = some (out, ds)) :
    ds.all (fun d => !d.isCircular) = true := by
  unfold expandPage at h
  split at h
  · cases h; rfl
  · rename_i body hb
    exact expandFuel_no_cycle pages rank hac _ [] page body (out, ds) hb
      (by intro s hs; simp at hs; subst hs; exact Nat.le_refl _) h

/-- non-vacuity: a diamond (index includes a and b, both include c) is acyclic with rank = depth -/
example : Acyclic [("index", [.inc 1 "a", .inc 2 "b"]), ("a", [.inc 3 "c"]), ("b", [.inc 4 "c"]), ("c", [.node 5 []])]
    (fun f => if f == "index" then 3 else if f == "c" then 1 else 2) := by
  intro f body hl t ht hs
  simp only [lookup, List.find?_cons] at hl
  split at hl
  · cases hl; rename_i hf; simp at hf; subst hf
    simp [targetsL, targets] at ht; rcases ht with rfl | rfl <;> decide
  · split at hl
    · cases hl; rename_i hf; simp at hf; subst hf
      simp [targetsL, targets] at ht; subst ht; decide
    · split at hl
      · cases hl; rename_i hf; simp at hf; subst hf
        simp [targetsL, targets] at ht; subst ht; decide
      · split at hl
        · cases hl; simp [targetsL, targets] at ht
        · simp at hl

/-- An include whose target is already being expanded is reported on the including file and left
unexpanded. -/
theorem expand_cycle_reported (pages : Pages) (rec : Rec) (stack : List String) (id : Nat) (t : String)
    (body : List Doc) (hl : lookup pages t = some body) (hs : stack.contains t = true) :
    expandIn pages rec stack (.inc id t) = some (.inc id t none, [.circular (stack.headD "") id]) := by
  simp only [expandIn, hl, hs, if_true]

/-- An include naming a missing file is reported on the including file; the walk continues. -/
theorem expand_missing_reported (pages : Pages) (rec : Rec) (stack : List String) (id : Nat) (t : String)
    (hl : lookup pages t = none) :
    expandIn pages rec stack (.inc id t) = some (.inc id t none, [.cannotOpen (stack.headD "") id]) := by
  simp [expandIn, hl]

/-- Before the fix (no guard) a self-including file exhausted every fuel: RecursionError. -/
theorem expandOld_diverges (fuel : Nat) (stack : List String) :
    expandFuelOld [("a", [.inc 0 "a"])] fuel stack [.inc 0 "a"] = none := by
  induction fuel generalizing stack with
  | zero => rfl
  | succ f ih =>
    simp only [expandFuelOld, expandInL, expandIn, lookup]
    simp [ih]

/-- non-vacuity: a two-file cycle expands, reporting the cycle in the inner file. -/
example : expandPage [("a", [.node 1 [], .inc 2 "b"]), ("b", [.inc 3 "a"])] "a"
    = some ([.node 1 [], .inc 2 "b" (some [.inc 3 "a" none])], [.circular "b" 3]) := by
  simp [expandPage, lookup, room, expandFuel, expandInL, expandIn]

/-- non-vacuity of the cut theorems: start marker in a nested list, end marker at top level;
kept = ancestor 1, marker 3, node 4, marker 5 (ids in document order). -/
example : cutSummary [.node ⟨0, false, false⟩ [], .node ⟨1, false, false⟩ [.node ⟨2, false, false⟩ [], .node ⟨3, true, false⟩ []],
                   .node ⟨4, false, false⟩ [], .node ⟨5, false, true⟩ [], .node ⟨6, false, false⟩ []]
    = some ([1, 3, 4, 5], true, true) := by decide

/-- reversed markers raise. -/
example : cutSummary [.node ⟨0, false, true⟩ [], .node ⟨1, true, false⟩ []] = none := by decide

end SnootyVerif.C06
