import SnootyVerif.Model.Subst
namespace SnootyVerif.C07
open SnootyVerif.Subst
theorem placeholder : True := trivial
end SnootyVerif.C07
