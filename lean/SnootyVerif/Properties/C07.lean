import SnootyVerif.Proofs.Subst
import SnootyVerif.Proofs.SubstWalk
import SnootyVerif.Proofs.SubstCtx

/-!
# C07 — Substitutions and source constants resolve by the documented scoping rules

Property theorems only (model `Model/Subst.lean`, lemmas `Proofs/Subst.lean`).
-/
namespace SnootyVerif.C07
open SnootyVerif.Subst

/-! ### scoping order (decision logic of `_search`) -/

/-- 1. a replacement on the innermost enclosing include wins over everything else -/
theorem replacement_first (top defs proj : Table) (name : String) (b : Body)
    (h : tget top name = some b) : lookupOrder (some top) defs proj name = some b := by
  simp [lookupOrder, h]

/-- 2. otherwise a (non-empty) definition on the page wins over snooty.toml -/
theorem page_before_project (top : Option Table) (defs proj : Table) (name : String) (b : Item) (bs : Body)
    (ht : top.bind (tget · name) = none) (hd : tget defs name = some (b :: bs)) :
    lookupOrder top defs proj name = some (b :: bs) := by
  simp [lookupOrder, ht, hd]

/-- 3. otherwise the project-wide substitution -/
theorem project_fallback (top : Option Table) (defs proj : Table) (name : String)
    (ht : top.bind (tget · name) = none) (hd : tget defs name = none ∨ tget defs name = some []) :
    lookupOrder top defs proj name = tget proj name := by
  rcases hd with hd | hd <;> simp [lookupOrder, ht, hd]

/-- only the INNERMOST include's table is consulted (an outer include's replacement does not reach
into a nested include) -/
theorem only_innermost_table (inner outer defs proj : Table) (name : String)
    (hi : tget inner name = none) :
    lookupOrder ((inner :: [outer]).head?) defs proj name = lookupOrder none defs proj name := by
  simp [lookupOrder, hi]

/-- the latest definition of a name on the page replaces the earlier one; other names are untouched -/
theorem latest_definition_wins (defs : Table) (name : String) (b1 b2 : Body) :
    tget (tset (tset defs name b1) name b2) name = some b2 := tget_tset_same _ _ _

theorem definition_does_not_touch_others (defs : Table) (name other : String) (b : Body) (h : name ≠ other) :
    tget (tset defs name b) other = tget defs other := tget_tset_other _ _ _ _ h

/-! ### page level: definitions, uses, deferral, diagnostics -/

/-- a definition with a plain-text body is recorded, and leaves the rest of the handler state alone -/
theorem defn_recorded (proj : Table) (fuel : Nat) (st : St) (name : String) (body : Body) (evs : List Ev)
    (acc : Uses) (hb : allTxt body = true) (hs : st.seen = none) :
    runEvents proj fuel st (.defn name body :: evs) acc
      = runEvents proj fuel { st with defs := tset st.defs name body } evs acc := by
  simp only [runEvents]
  rw [walk_txt _ _ _ _ hb]
  simp only [tget_tset_same]
  have : tset (tset st.defs name body) name body = tset st.defs name body := by
    induction st.defs with
    | nil => simp [tset]
    | cons p t ih =>
      simp only [tset]
      by_cases h : (p.1 == name) = true
      · simp [h, tset]
      · have h' : (p.1 == name) = false := by simpa using h
        simp [h', tset, ih]
  rw [this]
  cases st
  simp_all

/-- a use outside any definition, whose name resolves (by `lookupOrder`) to a plain-text body, holds a
copy of exactly that body, produces no diagnostic and leaves the handler state unchanged -/
theorem use_holds_selected_definition (proj : Table) (fuel : Nat) (st : St) (name : String) (line : Nat)
    (body : Body) (evs : List Ev) (acc : Uses)
    (hs : st.seen = none) (ha : st.active.contains name = false)
    (hl : lookupOrder st.stack.head? st.defs proj name = some body) (hb : allTxt body = true) :
    runEvents proj (fuel + 1) st (.use line name :: evs) acc
      = runEvents proj (fuel + 1) st evs (acc ++ [(line, .ref name line false body)]) := by
  simp only [runEvents, walkItems, hs, ha, hl]
  simp only [Option.isNone_none, Bool.true_and, Bool.false_eq_true, if_false, Option.map_none]
  rw [walk_txt _ _ _ _ hb]
  simp only [walkItems, List.drop_succ_cons, List.drop_zero, Option.isNone_some]
  cases st
  simp_all

/-- a use whose name resolves nowhere at that point is queued; nothing else changes -/
theorem use_deferred (proj : Table) (fuel : Nat) (st : St) (name : String) (line : Nat)
    (evs : List Ev) (acc : Uses)
    (hs : st.seen = none) (ha : st.active.contains name = false)
    (hl : lookupOrder st.stack.head? st.defs proj name = none) :
    runEvents proj (fuel + 1) st (.use line name :: evs) acc
      = runEvents proj (fuel + 1) { st with pending := st.pending ++ [(name, st.file, line)] } evs
          (acc ++ [(line, .ref name line true [])]) := by
  simp only [runEvents, walkItems, hs, ha, hl]
  simp only [Option.isNone_none, Bool.true_and, Bool.false_eq_true, if_false, Option.map_none]
  cases fuel <;> simp [walkItems] <;> (cases st; simp_all)

/-- at the end of the page a queued reference shows the definition that appears LATER on the page … -/
theorem deferred_gets_later_definition (defs : Table) (fuel : Nat) (name : String) (line : Nat) (body : Body)
    (hd : tget defs name = some body) (hb : allTxt body = true) :
    finalText defs (fuel + 1) (.ref name line true []) = String.join (body.map (finalText defs fuel)) := by
  simp [finalText, hd, List.attach_map_subtype_val]

/-- … and a name defined nowhere yields exactly one "could not be replaced" diagnostic, filed under the
file and line of the reference -/
theorem undefined_reported (st : St) (name file : String) (line : Nat)
    (hp : st.pending = [(name, file, line)]) (hd : tget st.defs name = none) :
    pageEndDiags st = st.diags ++ [⟨file, .unresolved, line⟩] := by
  simp [pageEndDiags, hp, hd]

/-- a queued name that IS defined by the end of the page yields no diagnostic -/
theorem defined_later_not_reported (st : St) (name file : String) (line : Nat) (b : Body)
    (hp : st.pending = [(name, file, line)]) (hd : tget st.defs name = some b) :
    pageEndDiags st = st.diags := by
  simp [pageEndDiags, hp, hd]

/-! ### self- and mutually-referential definitions terminate and are reported (static environment) -/

/-- expansion against project-wide substitutions terminates for EVERY table (cycles of any length):
the fuel `#names + 2` is never exhausted -/
theorem static_terminates (env : Table) (name : String) (line : Nat) : (useStatic env name line).isSome := by
  unfold useStatic
  apply expandStatic_isSome
  omega

/-- The general executable walk `walkItems` - the model that is compared with the real handler on every
generated project - computes exactly the static kernel on a page without definitions and include
replacements (parser-fresh references), so it terminates there too, for every project table, with the
same expanded items, the circular diagnostics filed under the current file and the unresolved
references queued for the end of the page. -/
theorem walk_eq_static_and_terminates (proj : Table) (hf : freshEnv proj) (st : St) (hp : Plain st)
    (ha : st.active = []) (name : String) (line : Nat) :
    ∃ r, useStatic proj name line = some r ∧
      walkItems proj (sroom proj [] + 2) st [.ref name line false []] = some (After st r.2, r.1) := by
  have hs := static_terminates proj name line
  obtain ⟨r, hr⟩ := Option.isSome_iff_exists.1 hs
  refine ⟨r, hr, ?_⟩
  apply walk_of_static proj hf _ st _ r hp (by simp [fresh])
  rw [ha]; exact hr

/-- a reference to a name that is being expanded is reported as circular and left empty -/
theorem static_cycle_reported (env : Table) (rec : SRec) (path : List String) (name : String) (line : Nat)
    (pend : Bool) (cs : List Item) (h : path.contains name = true) :
    expandLevel env rec path [.ref name line pend cs]
      = some ([.ref name line false []], [.circular name line]) := by
  simp only [expandLevel, h, if_true]

/-- an undefined name is reported as unresolved -/
theorem static_undefined_reported (env : Table) (rec : SRec) (path : List String) (name : String) (line : Nat)
    (pend : Bool) (cs : List Item) (h : path.contains name = false) (hl : tget env name = none) :
    expandLevel env rec path [.ref name line pend cs]
      = some ([.ref name line true []], [.unresolved name line]) := by
  simp only [expandLevel, h, hl, Bool.false_eq_true, if_false]

/-- before the fix (no path guard) `a = "x |a|"` exhausted every fuel: RecursionError -/
theorem staticOld_diverges (fuel : Nat) :
    (∀ path l, expandStaticOld [("a", [.txt "x", .ref "a" 0 false []])] fuel path [.ref "a" l false []] = none) ∧
    (∀ path, expandStaticOld [("a", [.txt "x", .ref "a" 0 false []])] fuel path [.txt "x", .ref "a" 0 false []] = none) := by
  induction fuel with
  | zero => exact ⟨fun _ _ => rfl, fun _ => rfl⟩
  | succ f ih =>
    constructor
    · intro path l
      simp only [expandStaticOld, expandLevel, tget]
      simp [ih.2]
    · intro path
      simp only [expandStaticOld, expandLevel, tget]
      simp [ih.2]

/-- non-vacuity: a 2-cycle in snooty.toml, used once -/
example : (useStatic [("a", [.txt "x", .ref "b" 0 false []]), ("b", [.ref "a" 0 false [], .txt "y"])] "a" 7).map (·.2)
    = some [.circular "a" 0] := by
  simp [useStatic, sroom, expandStatic, expandLevel, tget]

/-! ### `{+constant+}` substitution -/

/-- substitution never changes the number of lines (so it shifts no later line), provided no constant
value contains a newline; `\w` must not match a newline (checked on the running Python) -/
theorem constants_line_preserving (isWord : Char → Bool) (hnl : isWord '\n' = false)
    (consts : List (List Char × List Char)) (hc : ∀ p ∈ consts, nlCount p.2 = 0) (s : List Char) (line : Nat) :
    nlCount (substConsts isWord consts (s.length + 1) line s).1 = nlCount s :=
  substConsts_nl isWord hnl consts hc _ _ _ (by omega)

/-- a multi-line constant value DOES shift lines (outside the property's input space; recorded) -/
theorem constants_multiline_shifts :
    nlCount (substConsts (fun c => c.isAlphanum) [(['a'], ['x', '\n', 'y'])] 10 0 ['{', '+', 'a', '+', '}']).1 = 1 := by
  decide

/-- an undeclared constant becomes U+200B and is reported at the zero-based line of its placeholder -/
theorem constants_unknown_reported (isWord : Char → Bool) (hplus : isWord '+' = false)
    (consts : List (List Char × List Char)) (name post : List Char) (line fuel : Nat)
    (hne : name ≠ []) (hname : ∀ c ∈ name, isVarChar isWord c = true)
    (hunk : consts.find? (·.1 == name) = none) :
    substConsts isWord consts (fuel + 1) line ('{' :: '+' :: (name ++ '+' :: '}' :: post))
      = ('​' :: (substConsts isWord consts fuel line post).1,
         (name, line) :: (substConsts isWord consts fuel line post).2) := by
  simp only [substConsts, matchVar_placeholder isWord hplus name post hne hname, hunk]

/-- text before a placeholder that contains no '{' is copied unchanged and advances the line count -/
theorem constants_prefix_copied (isWord : Char → Bool) (consts : List (List Char × List Char))
    (c : Char) (t : List Char) (line fuel : Nat) (h : c ≠ '{') :
    substConsts isWord consts (fuel + 1) line (c :: t)
      = (c :: (substConsts isWord consts fuel (if c == '\n' then line + 1 else line) t).1,
         (substConsts isWord consts fuel (if c == '\n' then line + 1 else line) t).2) := by
  simp only [substConsts, matchVar_none_of_head isWord c t h]

/-- non-vacuity: unknown constant on the third line -/
example : (substConsts (fun c => c.isAlphanum) [] 20 0 "a\n\n{+zz+}b".toList).2 = [(['z', 'z'], 2)] := by
  decide

/-! ### block / inline context adaptation (`extract_inline`, `search_inline`, `search_block`; Model/SubstCtx.lean) -/
section Context
open SnootyVerif.SubstCtx

/-- `extract_inline` is total: its `nodes[0]` subscript is never reached with an empty list (an empty definition
satisfies the `all(...)` test before it), so no definition makes the substitution pass raise IndexError. -/
theorem extract_inline_total (ns : List Node) : ∃ r, extractInline ns = .ok r := extractInline_ok ns

/-- what `extract_inline` returns is exactly: the definition itself when it is inline throughout, the children of its
single paragraph when that paragraph is inline throughout - and nothing else. -/
theorem extract_inline_spec (ns out : List Node) :
    extractInline ns = .ok (some out) ↔
      (ns.all Node.isInline = true ∧ out = ns) ∨
      (ns.all Node.isInline = false ∧ ∃ id, ns = [.para id out] ∧ out.all Node.isInline = true) := by
  constructor
  · exact extractInline_some
  · rintro (⟨h, rfl⟩ | ⟨_, id, rfl, h⟩)
    · exact extractInline_of_inline h
    · exact extractInline_of_para h

/-- **Inline context is never given block content.** Whatever children `search_inline` puts under an inline
`|name|` reference are non-empty and inline nodes only, and they are the definition or the content of its single
paragraph. -/
theorem inline_context_sound (defn cs : List Node) (h : searchInline defn = .ok (.children cs)) :
    cs ≠ [] ∧ cs.all Node.isInline = true ∧ (cs = defn ∨ ∃ id, defn = [.para id cs]) := by
  unfold searchInline at h
  split at h
  · cases h
  · rename_i c r he
    simp only [Except.ok.injEq, InlineResult.children.injEq] at h
    subst h
    rcases extractInline_some he with ⟨ha, hd⟩ | ⟨_, id, hd, ha⟩
    · exact ⟨by simp, hd ▸ ha, Or.inl hd⟩
    · exact ⟨by simp, ha, Or.inr ⟨id, hd⟩⟩
  · cases h

/-- **Block content substituted into inline context is reported.** A definition holding a block-level node, unless it
is one paragraph of inline nodes, gets the InvalidContextError diagnostic and the reference is left without children;
so does an empty definition (`if not substitution` is true for the empty list). -/
theorem block_in_inline_reported (defn : List Node) (h1 : defn.all Node.isInline = false)
    (h2 : ∀ id cs, defn = [.para id cs] → cs.all Node.isInline = false) :
    searchInline defn = .ok .invalidContext := by
  unfold searchInline
  rw [extractInline_none_of h1 h2]

theorem empty_in_inline_reported : searchInline [] = .ok .invalidContext := by rfl

/-- `search_inline` never raises. -/
theorem search_inline_total (defn : List Node) : ∃ r, searchInline defn = .ok r := by
  unfold searchInline
  obtain ⟨r, hr⟩ := extractInline_ok defn
  rw [hr]
  split
  · rename_i h; cases h
  · exact ⟨_, rfl⟩
  · exact ⟨_, rfl⟩

example : searchInline [.inl 1, .inl 2] = .ok (.children [.inl 1, .inl 2]) := by rfl
example : searchInline [.para 0 [.inl 1, .inl 2]] = .ok (.children [.inl 1, .inl 2]) := by rfl
example : searchInline [.inl 1, .blk 2] = .ok .invalidContext := by rfl
example : searchInline [.para 0 [.inl 1], .para 3 [.inl 2]] = .ok .invalidContext := by rfl
example : searchInline [.para 0 []] = .ok .invalidContext := by rfl

/-- **Block context: inline content is wrapped, nothing is lost or reordered.** The children `search_block` puts under
a block-level `|name|` reference hold no inline node at the top level; every paragraph it creates is non-empty and
inline throughout; no two created paragraphs are adjacent (adjacent inline nodes share one paragraph); and splicing the
created paragraphs back gives exactly the definition. -/
theorem block_context_wraps (defn : List Node) (hw : ∀ x ∈ defn, x.isWrap = false) :
    (∀ x ∈ searchBlock defn, x.isInline = false) ∧
    (∀ cs, Node.wrap cs ∈ searchBlock defn → cs ≠ [] ∧ cs.all Node.isInline = true) ∧
    noAdjacentWraps (searchBlock defn) = true ∧
    unwrap (searchBlock defn) = defn := by
  refine ⟨fun x hx => blockGo_no_inline defn [] x hx, blockGo_wraps defn [] rfl hw, blockGo_coalesced defn [] hw, ?_⟩
  have := unwrap_blockGo defn [] hw
  simpa [searchBlock] using this

example : searchBlock [.inl 1, .inl 2, .blk 3, .para 4 [.inl 5], .inl 6] =
    [.wrap [.inl 1, .inl 2], .blk 3, .para 4 [.inl 5], .wrap [.inl 6]] := by rfl

end Context

end SnootyVerif.C07
