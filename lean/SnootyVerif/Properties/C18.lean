import SnootyVerif.Proofs.Giza
/-!
# C18 — Giza YAML: inheritance, replacement and page generation are correct and total

Model: `SnootyVerif/Model/Giza.lean` (mirrors `snooty/gizaparser/*` after the D16 fix).
`isName` is `[\w-]` with Python's `\w` as a parameter; the only hypothesis used about it is
`isName '}' = false` (checked over all code points by the harness).
-/
namespace SnootyVerif.C18
open SnootyVerif.Giza

/-! ## termination and totality -/

/-- each recursive call of `reify` follows a resolvable `(file, ref)` key that is not yet in the
cycle set, which strictly decreases the measure `remaining` … -/
theorem reify_measure_decreases (reg : Registry) (cs : List Key) (f : String) (seq : List Entry) (r : Text)
    (par : Entry) (h1 : reg.lookup f = some seq) (h2 : findParent seq r = some par) (h3 : (f, r) ∉ cs) :
    remaining reg ((f, r) :: cs) < remaining reg cs :=
  remaining_lt reg cs (f, r) (mem_allKeys reg f seq r par h1 h2) h3

/-- … so a fuel above the measure is never exhausted (no RecursionError, no hang), for every
registry, cyclic or not. -/
theorem reify_terminates (reg : Registry) (fuel : Nat) (cs : List Key) (e : Entry)
    (h : remaining reg cs < fuel) : ∃ r, resolve reg fuel cs e = .ok r :=
  resolve_fuel_sufficient reg fuel cs e h

/-- `reify` of any entry against any registry returns normally: every failure is a diagnostic. -/
theorem reify_total (isName : Char → Bool) (consts : Repl) (reg : Registry) (refs : List Text) (e : Entry) :
    ∃ r, reifyEntry isName consts reg refs e = .ok r :=
  reifyEntry_total isName consts reg refs e

/-- a whole file is reified whatever its entries are, and no entry is dropped -/
theorem reify_file_total (isName : Char → Bool) (consts : Repl) (reg : Registry) (refs : List Text) (es : List Entry) :
    ∃ out ds, reifyFile isName consts reg refs es = .ok (out, ds) ∧ out.length = es.length := by
  obtain ⟨out, ds, h⟩ := reifyFile_total isName consts reg es refs
  exact ⟨out, ds, h, by rw [reifyFile_values isName consts reg es refs out ds h]; simp⟩

theorem parse_refs_truthy (cat : Category) (src : FileSrc) (hc : cat ≠ .steps) :
    ∀ e ∈ (parseFile cat src).1, truthy e.ref = true := by
  intro e he
  cases src with
  | syntaxError => simp [parseFile] at he
  | docs ds =>
    cases cat with
    | steps => exact absurd rfl hc
    | extracts => simp only [parseFile, List.mem_filter] at he; exact he.2
    | release => simp only [parseFile, List.mem_filter] at he; exact he.2

theorem buildFiles_total (isName : Char → Bool) (consts : Repl) (cat : Category) (reg : Registry)
    (pd : String → List Diag) : ∀ (files : List (String × List Entry)),
    (cat = .steps ∨ ∀ fe ∈ files, ∀ e ∈ fe.2, truthy e.ref = true) →
    ∃ outs, buildFiles isName consts cat reg pd files = .ok outs ∧ outs.length = files.length := by
  intro files
  induction files with
  | nil => intro _; exact ⟨[], rfl, rfl⟩
  | cons fe rest ih =>
    intro h
    obtain ⟨f, es⟩ := fe
    obtain ⟨out, ds, ho⟩ := reifyFile_total isName consts reg es []
    obtain ⟨more, hm, hl⟩ := ih (by
      rcases h with h | h
      · exact Or.inl h
      · exact Or.inr (fun fe hfe => h fe (List.mem_cons_of_mem _ hfe)))
    have hp : ∃ pages, pagesOf cat f out = .ok pages := by
      rcases h with h | h
      · subst h; exact ⟨_, rfl⟩
      · have hs := reifyFile_refs_some isName consts reg es [] out ds ho (h (f, es) (by simp))
        cases cat with
        | steps => exact ⟨_, rfl⟩
        | extracts =>
          obtain ⟨ps, hps, _⟩ := namedPages_ok "extracts" extractRenderDiags out hs
          exact ⟨ps, hps⟩
        | release =>
          obtain ⟨ps, hps, _⟩ := namedPages_ok "release" (fun _ => []) out hs
          exact ⟨ps, hps⟩
    obtain ⟨pages, hpg⟩ := hp
    exact ⟨⟨f, out, pd f ++ ds, pages⟩ :: more, by simp [buildFiles, ho, hpg, hm], by simp [hl]⟩

/-- the whole `load_and_generate` of a category never raises (no RecursionError from a cycle, no
AssertionError from a missing ref, no NotImplementedError from `only:`), and every input file
gets its output record, whatever the YAML files contain. -/
theorem build_total (isName : Char → Bool) (consts : Repl) (cat : Category) (files : List (String × FileSrc)) :
    ∃ outs, buildCategory isName consts cat files = .ok outs ∧ outs.length = files.length := by
  unfold buildCategory
  simp only
  have := buildFiles_total isName consts cat
    (List.map (fun p => (p.1, p.2.1)) (List.map (fun fs => (fs.1, parseFile cat fs.2)) files))
    (fun f => match (List.map (fun fs => (fs.1, parseFile cat fs.2)) files).lookup f with | some p => p.2 | none => [])
    (List.map (fun p => (p.1, p.2.1)) (List.map (fun fs => (fs.1, parseFile cat fs.2)) files))
    (by
      by_cases hc : cat = .steps
      · exact Or.inl hc
      · refine Or.inr ?_
        intro fe hfe e he
        simp only [List.map_map, List.mem_map, Function.comp] at hfe
        obtain ⟨fs, _, rfl⟩ := hfe
        exact parse_refs_truthy cat fs.2 hc e he)
  obtain ⟨outs, h1, h2⟩ := this
  exact ⟨outs, h1, by simpa using h2⟩

/-! ## inheritance = child-first merge along the chain -/

/-- on a registry without inheritance cycle below `e` (the keys followed are pairwise distinct),
every field of the resolved entry is the first value set along `e :: parents` (child first,
transitively) — also when the chain ends in a dangling pointer — and no cycle is reported. -/
theorem reify_eq_mergeChain (reg : Registry) (e : Entry) (r : Resolved)
    (hacyc : (chainKeys reg (topFuel reg) e).Nodup)
    (h : resolve reg (topFuel reg) [] e = .ok r) :
    (∀ i, fieldAt r.entry i = mergeChainField (e :: chain reg (topFuel reg) e) i) ∧
    Diag.inheritanceCycle ∉ r.diags := by
  have := resolve_chain reg (topFuel reg) [] e r (fun _ _ => by simp) hacyc h
  exact ⟨this.1, this.2.2⟩

/-- the replacement table of the resolved entry maps `k` to the value of the first table along
`e :: parents` that defines `k`: the child's replacements win at every level. -/
theorem replacements_child_first (reg : Registry) (e : Entry) (r : Resolved)
    (hacyc : (chainKeys reg (topFuel reg) e).Nodup)
    (h : resolve reg (topFuel reg) [] e = .ok r) (k : Text) :
    replAt r.entry k = mergeChainRepl (e :: chain reg (topFuel reg) e) k :=
  (resolve_chain reg (topFuel reg) [] e r (fun _ _ => by simp) hacyc h).2.1 k

/-- one inheritance step, without any hypothesis: the child's value wins field-wise and key-wise -/
theorem inherit_child_wins (o p : Entry) (i : Nat) (k : Text) :
    (fieldAt (inheritFrom o (some p)) i = match fieldAt o i with | some v => some v | none => fieldAt p i) ∧
    (replAt (inheritFrom o (some p)) k = match replAt o k with | some v => some v | none => replAt p k) :=
  ⟨fieldAt_inherit_some o p i, replAt_inherit_some o p k⟩

/-! ## placeholders -/

/-- text without `{` is unchanged and reports nothing -/
theorem no_placeholder_unchanged (isName : Char → Bool) (env : Text → Option Text) (t : Text)
    (h : ∀ c ∈ t, c ≠ '{') : substituteText isName env t = (t, []) := by
  induction t with
  | nil => exact substituteText_nil isName env
  | cons c cs ih =>
    rw [substituteText_cons_other isName env c cs (h c (by simp)), ih (fun x hx => h x (by simp [hx]))]

/-- `pre {{k}} post` with brace-free `pre`: the placeholder becomes `env k` (the merged
replacements over the project constants), an unknown name becomes "" plus an UnknownSubstitution
diagnostic, the inserted text is not rescanned and the scan continues with `post`. -/
theorem placeholders_filled (isName : Char → Bool) (env : Text → Option Text) (pre k post : Text)
    (hpre : ∀ c ∈ pre, c ≠ '{') (hne : k ≠ []) (hk : ∀ c ∈ k, isName c = true) (hB : isName '}' = false) :
    substituteText isName env (pre ++ '{' :: '{' :: (k ++ '}' :: '}' :: post)) =
      match env k with
      | some v => (pre ++ v ++ (substituteText isName env post).1, (substituteText isName env post).2)
      | none => (pre ++ (substituteText isName env post).1,
                 Diag.unknownSubstitution k :: (substituteText isName env post).2) := by
  induction pre with
  | nil =>
    rw [List.nil_append, substituteText_placeholder isName env k post hne hk hB]
    cases env k <;> simp
  | cons c cs ih =>
    rw [List.cons_append, substituteText_cons_other isName env c _ (hpre c (by simp)),
      ih (fun x hx => hpre x (by simp [hx]))]
    cases env k <;> simp

/-- the entry's own (merged) replacements shadow the project constants -/
theorem replacements_shadow_constants (consts : Repl) (repl : Repl) (k v : Text)
    (h : repl.lookup k = some v) : envOf consts (some repl) k = some v := by
  simp [envOf, h]

/-- base entries (ref starting with `_`) keep their placeholders -/
theorem base_entry_not_substituted (isName : Char → Bool) (consts : Repl) (refs : List Text) (m : Entry)
    (ds : List Diag) (r : Text) (hr : m.ref = some ('_' :: r)) :
    (finishTop isName consts refs m ds).entry = m := by
  simp [finishTop, hr, wantsSubst]

/-- **An entry without ref is rendered like any other**: its placeholders are filled from its merged replacements and
the project constants, and unknown ones are reported (the code before the repair required a non-empty ref and left
`{{x}}` standing in such a step, unreported). -/
theorem refless_entry_substituted (isName : Char → Bool) (consts : Repl) (refs : List Text) (m : Entry)
    (ds : List Diag) (hr : m.ref = some []) :
    (finishTop isName consts refs m ds).entry.fields = (substFields isName (envOf consts m.replacement) m.fields).1 ∧
    ∀ d ∈ (substFields isName (envOf consts m.replacement) m.fields).2, d ∈ (finishTop isName consts refs m ds).diags := by
  have h : finishTop isName consts refs m ds =
      ⟨{ m with fields := (substFields isName (envOf consts m.replacement) m.fields).1 },
       ds ++ dupDiag refs [] ++ (substFields isName (envOf consts m.replacement) m.fields).2, addRef refs []⟩ := by
    simp [finishTop, hr, wantsSubst]
  rw [h]
  refine ⟨rfl, ?_⟩
  intro d hd
  simp [hd]

/-! ## failures are diagnostics -/

/-- an inheritance cycle reachable from `e` is reported on the file (FailedToInheritRef
"Inheritance cycle …") instead of recursing forever -/
theorem cycle_reported (isName : Char → Bool) (consts : Repl) (reg : Registry) (refs : List Text) (e : Entry)
    (r : Reified) (hcyc : ¬ (chainKeys reg (topFuel reg) e).Nodup)
    (h : reifyEntry isName consts reg refs e = .ok r) : Diag.inheritanceCycle ∈ r.diags := by
  unfold reifyEntry at h
  cases hr : resolve reg (topFuel reg) [] e with
  | error x => rw [hr] at h; cases h
  | ok res =>
    rw [hr] at h
    have hc := resolve_cycle reg (topFuel reg) [] e res hr (Or.inl hcyc)
    simp only at h
    split at h
    · cases h; exact finishTop_diags_prefix _ _ _ _ _ _ hc
    · cases h; exact hc

/-- a parent in a file that is not in the registry: CannotOpenFile, entry returned unmerged,
refs set untouched -/
theorem missing_parent_reported (isName : Char → Bool) (consts : Repl) (reg : Registry) (refs : List Text)
    (e : Entry) (p : Ptr) (hp : parentInfo e = some p) (hf : reg.lookup p.file = none) :
    reifyEntry isName consts reg refs e = .ok ⟨e, [.cannotOpenFile p.file], refs⟩ := by
  simp [reifyEntry, topFuel, resolve, hp, hf]

/-- a parent ref that no entry of the named file answers to: FailedToInheritRef, unmerged -/
theorem missing_parent_ref_reported (isName : Char → Bool) (consts : Repl) (reg : Registry) (refs : List Text)
    (e : Entry) (p : Ptr) (seq : List Entry) (hp : parentInfo e = some p) (hf : reg.lookup p.file = some seq)
    (hr : findParent seq p.ref = none) :
    reifyEntry isName consts reg refs e = .ok ⟨e, [.failedToInheritRef], refs⟩ := by
  simp [reifyEntry, topFuel, resolve, hp, hf, hr]

/-- two successfully resolved entries of one file with the same (non-empty) ref: RefAlreadyExists on the file. Entries
WITHOUT a ref do not share one: `refless_not_duplicates`. -/
theorem duplicate_ref_reported (isName : Char → Bool) (consts : Repl) (reg : Registry) (refs : List Text)
    (e1 e2 : Entry) (rest out : List Entry) (ds : List Diag) (res1 res2 : Resolved) (r : Text) (hne : r ≠ [])
    (h : reifyFile isName consts reg refs (e1 :: rest) = .ok (out, ds))
    (h1 : resolve reg (topFuel reg) [] e1 = .ok res1) (m1 : res1.merged = true) (r1 : res1.entry.ref = some r)
    (hmem : e2 ∈ rest)
    (h2 : resolve reg (topFuel reg) [] e2 = .ok res2) (m2 : res2.merged = true) (r2 : res2.entry.ref = some r) :
    Diag.refAlreadyExists r ∈ ds := by
  rw [reifyFile] at h
  cases hr : reifyEntry isName consts reg refs e1 with
  | error x => rw [hr] at h; cases h
  | ok r0 =>
    rw [hr] at h
    simp only at h
    cases ho : reifyFile isName consts reg r0.refs rest with
    | error x => rw [ho] at h; cases h
    | ok od =>
      obtain ⟨o', d⟩ := od
      rw [ho] at h
      simp only at h
      cases h
      apply List.mem_append_right
      exact reifyFile_dup isName consts reg rest r0.refs o' d ho e2 res2 r hmem h2 m2 r2 hne
        (reifyEntry_adds_ref isName consts reg refs e1 res1 r r0 h1 m1 r1 hr)

/-- an entry without ref is never reported as a duplicate, whatever refs the file has seen (the code before the repair
compared the empty ref like any other and reported `ref  already exists` for the second ref-less step of a file) -/
theorem refless_not_duplicates (isName : Char → Bool) (consts : Repl) (refs : List Text) (m : Entry) (ds : List Diag)
    (hr : m.ref = some []) (hd : Diag.refAlreadyExists [] ∉ ds)
    (hs : Diag.refAlreadyExists [] ∉ (substFields isName (envOf consts m.replacement) m.fields).2) :
    Diag.refAlreadyExists [] ∉ (finishTop isName consts refs m ds).diags := by
  have h : (finishTop isName consts refs m ds).diags =
      ds ++ dupDiag refs [] ++ (substFields isName (envOf consts m.replacement) m.fields).2 := by
    simp [finishTop, hr, wantsSubst]
  rw [h]
  simp [dupDiag, hd, hs]

/-- the reified value of every entry of a file is the value it has when reified alone: failures,
duplicate refs and diagnostics of the other entries never change it, and no entry is dropped -/
theorem others_unaffected (isName : Char → Bool) (consts : Repl) (reg : Registry) (refs : List Text)
    (es out : List Entry) (ds : List Diag) (h : reifyFile isName consts reg refs es = .ok (out, ds)) :
    out = es.map (valueOf isName consts reg) :=
  reifyFile_values isName consts reg es refs out ds h

/-- registries that give the same answers to the pointers dereferenced from `e` (so: any change,
damage or failure in entries `e` does not depend on) give the same reified value and the same
diagnostics for `e` -/
theorem others_unaffected_registry (isName : Char → Bool) (consts : Repl) (reg reg' : Registry)
    (refs : List Text) (e : Entry)
    (h : ∀ p ∈ ptrs reg (max (topFuel reg) (topFuel reg')) e, answer reg p = answer reg' p) :
    reifyEntry isName consts reg refs e = reifyEntry isName consts reg' refs e := by
  obtain ⟨r, hr⟩ := resolve_fuel_sufficient reg (topFuel reg) [] e (remaining_le reg [])
  obtain ⟨r', hr'⟩ := resolve_fuel_sufficient reg' (topFuel reg') [] e (remaining_le reg' [])
  have h1 := resolve_mono_le reg _ (max (topFuel reg) (topFuel reg')) (Nat.le_max_left _ _) [] e r hr
  have h2 := resolve_mono_le reg' _ (max (topFuel reg) (topFuel reg')) (Nat.le_max_right _ _) [] e r' hr'
  rw [resolve_congr reg reg' _ [] e h, h2] at h1
  cases h1
  unfold reifyEntry
  rw [hr, hr']

/-- a bad document costs exactly its own entry: the entries kept by `parse` are the well-typed
documents in order (steps), one UnmarshallingError per bad document -/
theorem bad_document_isolated (ds1 ds2 : List Doc) :
    (parseFile .steps (.docs (ds1 ++ .bad :: ds2))).1 = (parseFile .steps (.docs (ds1 ++ ds2))).1 ∧
    (parseFile .steps (.docs (ds1 ++ .bad :: ds2))).2.length = (parseFile .steps (.docs (ds1 ++ ds2))).2.length + 1 := by
  simp [parseFile, List.filterMap_append]
  omega

/-- a falsy document (stray `---`, `null`, `{}`) is skipped and does not end the file -/
theorem empty_document_skipped (cat : Category) (ds1 ds2 : List Doc) :
    parseFile cat (.docs (ds1 ++ .empty :: ds2)) = parseFile cat (.docs (ds1 ++ ds2)) := by
  cases cat <;> simp [parseFile, List.filterMap_append]

/-! ## pages -/

/-- steps: exactly one page per file, whatever the entries -/
theorem page_count_steps (file : String) (es : List Entry) :
    ∃ p, pagesOf .steps file es = .ok [p] := ⟨_, rfl⟩

/-- extracts / release: one page per entry whose ref does not start with `_` -/
theorem page_count (cat : Category) (hc : cat ≠ .steps) (file : String) (es : List Entry)
    (h : ∀ e ∈ es, ∃ x, e.ref = some x) :
    ∃ ps, pagesOf cat file es = .ok ps ∧
      ps.length = (es.filter (fun e => match e.ref with | some r => !startsUnderscore r | none => false)).length := by
  cases cat with
  | steps => exact absurd rfl hc
  | extracts => exact namedPages_ok "extracts" extractRenderDiags es h
  | release => exact namedPages_ok "release" (fun _ => []) es h

/-! ## non-vacuity: concrete registries -/

def isN : Char → Bool := isNameChar (fun c => c.isAlphanum || c == '_')
def T (s : String) : Text := s.toList
def mk (ref : String) (repl : Option (List (String × String))) (inh : Option (String × String))
    (fields : List (Option String)) : Entry :=
  ⟨some (T ref), repl.map (fun l => l.map (fun kv => (T kv.1, T kv.2))), none,
   inh.map (fun p => ⟨p.1, T p.2⟩), fields.map (fun f => f.map (fun s => Val.str (T s)))⟩

/-- `_b` ← `b` ← `a`, replacements overlapping at every level -/
def reg1 : Registry := [("f.yaml", [
  mk "a" (some [("x", "XA")]) (some ("f.yaml", "b")) [none, none],
  mk "b" (some [("x", "XB"), ("y", "YB")]) (some ("f.yaml", "_b")) [some "{{x}}{{y}}", none],
  mk "_b" (some [("y", "YC"), ("z", "ZC")]) none [some "base", some "{{x}} {{y}} {{z}} {{v}} {{u}}"]])]
def a1 : Entry := mk "a" (some [("x", "XA")]) (some ("f.yaml", "b")) [none, none]

example : (chainKeys reg1 (topFuel reg1) a1).Nodup := by decide
example : (match reifyEntry isN [(T "v", T "4.2")] reg1 [] a1 with
    | .ok r => (r.entry.fields, r.entry.replacement, r.diags)
    | .error _ => ([], none, [])) =
    ([some (.str (T "XAYB")), some (.str (T "XA YB ZC 4.2 "))],
     some [(T "x", T "XA"), (T "y", T "YB"), (T "z", T "ZC")],
     [.unknownSubstitution (T "u")]) := by decide

/-- `reg1` plus a file of failing entries (cycle, dangling pointer) that `a1` does not depend on -/
def reg1' : Registry := reg1 ++ [("g.yaml", [
  mk "q" none (some ("g.yaml", "q")) [some "loop", none],
  mk "w" none (some ("nowhere.yaml", "w")) [none, none]])]
example : ∀ p ∈ ptrs reg1 (max (topFuel reg1) (topFuel reg1')) a1, answer reg1 p = answer reg1' p := by decide
example : (ptrs reg1 (max (topFuel reg1) (topFuel reg1')) a1).length = 2 := by decide

/-- a 2-cycle and a self loop -/
def reg2 : Registry := [("f.yaml", [
  mk "a" none (some ("f.yaml", "b")) [some "ca", none],
  mk "b" none (some ("f.yaml", "a")) [none, some "pb"],
  mk "s" none (some ("f.yaml", "s")) [some "self", none]])]
def a2 : Entry := mk "a" none (some ("f.yaml", "b")) [some "ca", none]
def s2 : Entry := mk "s" none (some ("f.yaml", "s")) [some "self", none]

example : ¬ (chainKeys reg2 (topFuel reg2) a2).Nodup := by decide
example : ¬ (chainKeys reg2 (topFuel reg2) s2).Nodup := by decide
example : (match reifyEntry isN [] reg2 [] a2 with
    | .ok r => (r.entry.fields, r.diags) | .error _ => ([], [])) =
    ([some (.str (T "ca")), some (.str (T "pb"))], [.inheritanceCycle]) := by decide
example : (match reifyFile isN [] reg2 [] [a2, s2, a2] with
    | .ok (out, ds) => (out.length, ds) | .error _ => (0, [])) =
    (3, [.inheritanceCycle, .inheritanceCycle, .inheritanceCycle, .refAlreadyExists (T "a")]) := by decide

example : substituteText isN (fun k => if k = T "x" then some (T "{{y}}") else none) (T "a {{x}}{{{x}}} {{ x }} {{q-1}}{{x}") =
    (T "a {{y}}{{{y}}} {{ x }} {{x}", [.unknownSubstitution (T "q-1")]) := by decide
example : isN '}' = false := by decide

example : (match buildCategory isN [] .extracts [("extracts-f.yaml", .docs [
      .entry (mk "_b" none none [none, none, none, none, none, some "html", none, none]),
      .bad, .empty,
      .entry (mk "a" none (some ("extracts-f.yaml", "_b")) [none, none, none, none, some "c", none, none, none]),
      .entry (mk "" none none []),
      .entry (mk "c" none (some ("extracts-missing.yaml", "q")) [])])] with
    | .ok [o] => (o.diags, o.pages.map (fun p => (String.ofList p.name, p.diags)))
    | _ => ([], [])) =
    ([.unmarshallingError, .missingRef, .cannotOpenFile "extracts-missing.yaml"],
     [("a.rst", [.invalidField]), ("c.rst", [])]) := by decide

example : (match pagesOf .steps "steps-foo.bar.yaml" [] with
    | .ok ps => ps.map (fun p => String.ofList p.name) | .error _ => []) = ["foo.bar.rst"] := by decide

end SnootyVerif.C18
