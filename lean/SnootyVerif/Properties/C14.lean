import SnootyVerif.Proofs.Diag

/-!
# C14 — Diagnostics reach the user: complete, correctly attributed, filtered, counted

Property theorems only; model in `Model/Diag.lean`, lemmas in `Proofs/Diag.lean`.
The model is the code *with* fix.patch applied for `__init__` / `main.Backend.on_update`
(both now pass through the silence filter, one spelling of snooty.toml); the behaviour
before the fix is kept as `onStreamOrig` for the refutation. `merge_diagnostics` is modelled WITH fix2.patch
(accumulate over all outputs of a source, each object once); the last-output-wins code before it is kept as
`mergeDiagnosticsOld` (`merge_conservation_refuted`).
-/
namespace SnootyVerif.C14
open SnootyVerif.Diag

/-! ## merge -/

/-- the generic tail of `merge_diagnostics`: per-source dict `base`, then orphan, then the other maps -/
theorem mergeFrom_exact (base : DMap) (orphan : DMap) (order : List FileId) (others : List DMap)
    (hn : order.Nodup) (hk : ∀ f, f ∈ order ↔ ∃ o ∈ others, f ∈ keys o) (f : FileId) :
    mergedAt (mergeFrom base orphan order others) f =
      mergedAt base f ++ getAll orphan f ++ extendFrom others f := by
  unfold mergedAt
  rw [lookup_mergeFrom _ _ _ _ _ hn]
  by_cases h3 : f ∈ order
  · simp [h3]
  · have he : extendFrom others f = [] :=
      extendFrom_nil_of_not_mem others f (fun o ho hm => h3 ((hk f).mpr ⟨o, ho, hm⟩))
    by_cases h1 : f ∈ keys base
    · simp [h1, h3, he]
    · have hp := (lookup_eq_none_iff base f).mpr h1
      by_cases h2 : f ∈ keys orphan
      · simp [h1, h2, h3, he, hp]
      · simp [h1, h2, h3, he, hp, getAll_of_not_mem_keys orphan f h2]

/-- What the fixed `merge_diagnostics` returns for file `f`, exactly, with no hypothesis on the producers:
the accumulation over ALL outputs of `f` (each object once, first-seen order), then the orphan diagnostics of `f`,
then `others[0][f]`, `others[1][f]`, … (`order` = iteration order of the key set). -/
theorem merge_exact (parsed : List Out) (orphan : DMap) (order : List FileId) (others : List DMap)
    (hn : order.Nodup) (hk : ∀ f, f ∈ order ↔ ∃ o ∈ others, f ∈ keys o) (f : FileId) :
    mergedAt (mergeDiagnostics parsed orphan order others) f =
      parsedUnion parsed f ++ getAll orphan f ++ extendFrom others f := by
  unfold mergeDiagnostics
  rw [mergeFrom_exact _ _ _ _ hn hk f, mergedAt_parsedResult]

/-- FULL conservation law of the fixed code, no equal-lists hypothesis: per file the merged list is the first
occurrences (by object identity, in order) of the concatenation of the lists of ALL outputs of that source,
followed by orphan and others. `hU`: no list holds the same object twice. -/
theorem merge_conservation (parsed : List Out) (orphan : DMap) (order : List FileId) (others : List DMap)
    (hn : order.Nodup) (hk : ∀ f, f ∈ order ↔ ∃ o ∈ others, f ∈ keys o) (hU : OutputsNodup parsed) (f : FileId) :
    mergedAt (mergeDiagnostics parsed orphan order others) f =
      dedupInto [] (parsedAll parsed f) ++ getAll orphan f ++ extendFrom others f := by
  rw [merge_exact parsed orphan order others hn hk f]
  unfold parsedUnion
  rw [foldl_accum_eq_dedup parsed f [] hU]

/-- … so every diagnostic of every output of a source is in the merged list of that source (as the same
object), exactly once. -/
theorem merge_each_output_once (parsed : List Out) (hU : OutputsNodup parsed) (f : FileId) :
    (∀ o ∈ parsed, o.src = f → ∀ d ∈ o.ds, ∃ d' ∈ parsedUnion parsed f, d'.oid = d.oid) ∧
    (IdsFaithful (parsedAll parsed f) → ∀ o ∈ parsed, o.src = f → ∀ d ∈ o.ds, d ∈ parsedUnion parsed f) ∧
    ((parsedUnion parsed f).map (·.oid)).Nodup := by
  have hE : parsedUnion parsed f = dedupInto [] (parsedAll parsed f) := by
    unfold parsedUnion; exact foldl_accum_eq_dedup parsed f [] hU
  have hin : ∀ o ∈ parsed, o.src = f → ∀ d ∈ o.ds, d ∈ parsedAll parsed f := by
    intro o ho hs d hd
    exact List.mem_flatMap.mpr ⟨o, ho, by simp [hs, hd]⟩
  rw [hE]
  refine ⟨?_, ?_, dedupInto_nodup [] _ (by simp)⟩
  · intro o ho hs d hd
    exact dedupInto_complete [] _ d (hin o ho hs d hd)
  · intro hF o ho hs d hd
    obtain ⟨d', hd', he⟩ := dedupInto_complete [] _ d (hin o ho hs d hd)
    have hm : d' ∈ parsedAll parsed f := by
      rcases mem_dedupInto [] _ d' hd' with h | h
      · cases h
      · exact h
    rw [← hF d' hm d (hin o ho hs d hd) he]; exact hd'

/-- nothing any producer reported is dropped (fixed code, no equal-lists hypothesis) -/
theorem merge_nothing_dropped (parsed : List Out) (orphan : DMap) (order : List FileId) (others : List DMap)
    (hn : order.Nodup) (hk : ∀ f, f ∈ order ↔ ∃ o ∈ others, f ∈ keys o) (hU : OutputsNodup parsed)
    (f : FileId) (d : D) (h : d ∈ parsedAll parsed f ∨ d ∈ getAll orphan f ∨ d ∈ extendFrom others f) :
    ∃ d' ∈ mergedAt (mergeDiagnostics parsed orphan order others) f, d'.oid = d.oid := by
  rw [merge_conservation parsed orphan order others hn hk hU f]
  rcases h with h | h | h
  · obtain ⟨d', hd', he⟩ := dedupInto_complete [] _ d h
    exact ⟨d', by simp [hd'], he⟩
  · exact ⟨d, by simp [h], rfl⟩
  · exact ⟨d, by simp [h], rfl⟩

/-! ## the store under update / delete -/

/-- REFINEMENT of `PageDatabase` (as far as diagnostics go) to a last-write-wins map, for EVERY history of
`db[k] = …`, `set_orphan_diagnostics`, `del db[k]` (history written latest operation first): the page stored under a key
and the orphan diagnostics recorded for a key are those of the latest operation that named the key; a later `del` forgets
both. -/
theorem store_refines_last_write (hist : List Op) (k : FileId) :
    lookupOut (Store.run hist.reverse).parsed k = specOut hist k ∧
    (Store.run hist.reverse).orphan.lookup k = specOrphan hist k := run_refines hist k

/-- `del db[k]` forgets: whatever happened before, right after a delete nothing is stored under `k` and no orphan
diagnostics are recorded for `k` (so `merge_diagnostics` can only report what `others` say about it). -/
theorem delete_forgets (earlier : List Op) (k : FileId) :
    lookupOut (Store.run ((Op.del k :: earlier).reverse)).parsed k = none ∧
    (Store.run ((Op.del k :: earlier).reverse)).orphan.lookup k = none := by
  have h := run_refines (Op.del k :: earlier) k
  simpa [specOut, specOrphan] using h

/-- keys of the page dict stay unique under every history (so "the page stored under k" is well defined) -/
theorem store_keys_unique (ops : List Op) : ((Store.run ops).parsed.map (·.out)).Nodup := run_keys_nodup ops

/-- conservation after ANY history: what `merge_diagnostics` returns for a file is determined by the state the history
left behind - the outputs currently stored for that source, the orphan diagnostics currently recorded, and the others. -/
theorem merge_after_history (ops : List Op) (order : List FileId) (others : List DMap)
    (hn : order.Nodup) (hk : ∀ f, f ∈ order ↔ ∃ o ∈ others, f ∈ keys o) (f : FileId) :
    mergedAt (mergeDiagnostics (Store.run ops).parsed (Store.run ops).orphan order others) f =
      parsedUnion (Store.run ops).parsed f ++ getAll (Store.run ops).orphan f ++ extendFrom others f :=
  merge_exact _ _ _ _ hn hk f

/-- a YAML file whose parse error was recorded as orphan diagnostics, then deleted: nothing is left to merge -/
example :
    let hist := [Op.setOrphan "includes/extracts-x.yaml" [⟨"ErrorParsingYAMLFile", 1, 3, 7⟩], Op.set ⟨"index.txt", "index.txt", []⟩,
                 Op.del "includes/extracts-x.yaml"]
    mergeDiagnostics (Store.run hist).parsed (Store.run hist).orphan [] [] = [("index.txt", [])] := by decide

/-- … while the early-return variant of `__delitem__` (only when the key is a stored page) would keep it: the witness
of a seeded change (C14-5) on the model -/
example :
    let stepBad : Store → Op → Store := fun s op => match op with
      | .del k => if (lookupOut s.parsed k).isSome then s.step (.del k) else s
      | op => s.step op
    let hist := [Op.setOrphan "includes/extracts-x.yaml" [⟨"ErrorParsingYAMLFile", 1, 3, 7⟩], Op.del "includes/extracts-x.yaml"]
    (hist.foldl stepBad Store.empty).orphan ≠ (Store.run hist).orphan := by decide

/-- The code before the fix kept only the list of the LAST output of a source … -/
theorem merge_old_exact (parsed : List Out) (orphan : DMap) (order : List FileId) (others : List DMap)
    (hn : order.Nodup) (hk : ∀ f, f ∈ order ↔ ∃ o ∈ others, f ∈ keys o) (f : FileId) :
    mergedAt (mergeDiagnosticsOld parsed orphan order others) f =
      (parsedLast parsed f).getD [] ++ getAll orphan f ++ extendFrom others f := by
  unfold mergeDiagnosticsOld
  rw [mergeFrom_exact _ _ _ _ hn hk f]
  unfold mergedAt
  rw [lookup_parsedResultOld]

/-- … so the conservation law was FALSE for it: two outputs of one yaml file, the first carrying a diagnostic
the second does not (a missing image in the first extract: its `CannotOpenFile` is appended by `page.finish`
to that output's list only). -/
theorem merge_conservation_refuted :
    ¬ (∀ (parsed : List Out) (orphan : DMap) (order : List FileId) (others : List DMap) (f : FileId),
        order.Nodup → ∀ d ∈ parsedAll parsed f, d ∈ mergedAt (mergeDiagnosticsOld parsed orphan order others) f) := by
  intro h
  have := h [⟨"includes/extracts/a.rst", "includes/extracts-x.yaml", [⟨"CannotOpenFile", 2, 3, 0⟩]⟩,
             ⟨"includes/extracts/b.rst", "includes/extracts-x.yaml", []⟩] [] [] []
            "includes/extracts-x.yaml" (by decide) ⟨"CannotOpenFile", 2, 3, 0⟩ (by decide)
  revert this
  decide

/-- the fixed code on the same witness keeps it -/
example : mergedAt (mergeDiagnostics
      [⟨"includes/extracts/a.rst", "includes/extracts-x.yaml", [⟨"DocUtilsParseError", 5, 3, 7⟩, ⟨"CannotOpenFile", 2, 3, 0⟩]⟩,
       ⟨"includes/extracts/b.rst", "includes/extracts-x.yaml", [⟨"DocUtilsParseError", 5, 3, 7⟩, ⟨"CannotOpenFile", 2, 3, 1⟩]⟩]
      [] [] []) "includes/extracts-x.yaml"
    = [⟨"DocUtilsParseError", 5, 3, 7⟩, ⟨"CannotOpenFile", 2, 3, 0⟩, ⟨"CannotOpenFile", 2, 3, 1⟩] := by decide

/-- what was provable for the old code: conservation under the hypothesis that outputs sharing a source carry
equal lists -/
theorem merge_conservation_old_partial (parsed : List Out) (orphan : DMap) (order : List FileId) (others : List DMap)
    (hE : EqualLists parsed) (hn : order.Nodup) (hk : ∀ f, f ∈ order ↔ ∃ o ∈ others, f ∈ keys o) (f : FileId) :
    (∀ o ∈ parsed, o.src = f →
        mergedAt (mergeDiagnosticsOld parsed orphan order others) f = o.ds ++ getAll orphan f ++ extendFrom others f) ∧
    (f ∉ srcs parsed →
        mergedAt (mergeDiagnosticsOld parsed orphan order others) f = getAll orphan f ++ extendFrom others f) := by
  rw [merge_old_exact parsed orphan order others hn hk f]
  constructor
  · intro o ho hs
    rw [parsedLast_of_equalLists parsed f hE o ho hs]; rfl
  · intro h
    rw [(parsedLast_none_iff parsed f).mpr h]; rfl

example : mergedAt (mergeDiagnostics
      [⟨"a.txt", "a.txt", [⟨"X", 1, 3, 0⟩]⟩, ⟨"o1", "s.yaml", [⟨"Y", 2, 3, 1⟩]⟩, ⟨"o2", "s.yaml", [⟨"Y", 2, 3, 1⟩]⟩]
      [("s.yaml", [⟨"O", 0, 3, 2⟩])] ["a.txt", "snooty.toml"]
      [[("a.txt", [⟨"P", 5, 2, 3⟩])], [("snooty.toml", [⟨"I", 0, 3, 4⟩]), ("a.txt", [⟨"J", 0, 3, 5⟩])]]) "a.txt"
    = [⟨"X", 1, 3, 0⟩, ⟨"P", 5, 2, 3⟩, ⟨"J", 0, 3, 5⟩] := by decide
example : mergedAt (mergeDiagnostics
      [⟨"o1", "s.yaml", [⟨"Y", 2, 3, 1⟩]⟩, ⟨"o2", "s.yaml", [⟨"Y", 2, 3, 1⟩]⟩]
      [("s.yaml", [⟨"O", 0, 3, 2⟩])] [] []) "s.yaml" = [⟨"Y", 2, 3, 1⟩, ⟨"O", 0, 3, 2⟩] := by decide

/-- The keys of the result are exactly the sources of the parsed outputs, the orphan keys and the keys of the
other maps: no file invented, none lost. -/
theorem merge_keys (parsed : List Out) (orphan : DMap) (order : List FileId) (others : List DMap)
    (hn : order.Nodup) (hk : ∀ f, f ∈ order ↔ ∃ o ∈ others, f ∈ keys o) (f : FileId) :
    f ∈ keys (mergeDiagnostics parsed orphan order others) ↔
      f ∈ srcs parsed ∨ f ∈ keys orphan ∨ ∃ o ∈ others, f ∈ keys o := by
  unfold mergeDiagnostics
  rw [← lookup_isSome_iff_mem_keys, lookup_mergeFrom _ _ _ _ _ hn, ← hk f]
  have hkp := keys_parsedResult parsed f
  split <;> simp_all

/-- Nothing is invented and nothing is filed under another file: a diagnostic in the merged list of `f` was
reported for `f` by the parse producer, the orphan map or one of the other maps. -/
theorem merge_nothing_invented (parsed : List Out) (orphan : DMap) (order : List FileId) (others : List DMap)
    (hn : order.Nodup) (hk : ∀ f, f ∈ order ↔ ∃ o ∈ others, f ∈ keys o) (f : FileId) (d : D)
    (h : d ∈ mergedAt (mergeDiagnostics parsed orphan order others) f) :
    d ∈ parsedAll parsed f ∨ d ∈ getAll orphan f ∨ ∃ o ∈ others, d ∈ getAll o f := by
  rw [merge_exact parsed orphan order others hn hk f] at h
  simp only [List.mem_append] at h
  rcases h with (h | h) | h
  · left
    unfold parsedUnion at h
    rcases mem_foldl_accum parsed f [] d h with h1 | h1
    · cases h1
    · exact h1
  · right; left; exact h
  · right; right
    unfold extendFrom at h
    obtain ⟨o, ho, hd⟩ := List.mem_flatMap.mp h
    refine ⟨o, ho, ?_⟩
    cases hl : o.lookup f with
    | none => simp [hl] at hd
    | some l => rw [hl] at hd; exact mem_getAll_of_lookup o f l hl d hd

example : keys (mergeDiagnostics [⟨"o1", "s.yaml", []⟩, ⟨"o2", "s.yaml", []⟩, ⟨"a.txt", "a.txt", []⟩]
      [("bad.yaml", [])] ["snooty.toml", "a.txt"] [[("snooty.toml", [])], [("a.txt", [])]])
    = ["s.yaml", "a.txt", "bad.yaml", "snooty.toml"] := by decide

/-! ## filter -/

/-- `filter_diagnostics` keeps exactly the diagnostics whose class name is not silenced, in their order. -/
theorem filter_sound_complete (S : List String) (ds : List D) :
    filterDiagnostics S ds = ds.filter (fun d => decide (d.cls ∉ S)) :=
  filterDiagnostics_eq S ds

theorem filter_mem (S : List String) (ds : List D) (d : D) :
    d ∈ filterDiagnostics S ds ↔ d ∈ ds ∧ d.cls ∉ S := mem_filterDiagnostics S ds d

theorem filter_order_kept (S : List String) (ds : List D) : (filterDiagnostics S ds).Sublist ds := by
  rw [filterDiagnostics_eq]; exact List.filter_sublist

example : filterDiagnostics ["OrphanedPage"] [⟨"OrphanedPage", 0, 2, 0⟩, ⟨"TargetNotFound", 4, 3, 1⟩, ⟨"OrphanedPage", 0, 2, 2⟩,
    ⟨"DocUtilsParseError", 1, 3, 3⟩] = [⟨"TargetNotFound", 4, 3, 1⟩, ⟨"DocUtilsParseError", 1, 3, 3⟩] := by decide
example : filterDiagnostics [] [⟨"OrphanedPage", 0, 2, 0⟩] = [⟨"OrphanedPage", 0, 2, 0⟩] := by decide

/-! ## delivery -/

/-- Every list handed to `backend.on_diagnostics` or `backend.set_diagnostics` by `_Project`, and every list
reaching the command-line backend, is free of silenced classes. -/
theorem delivered_never_silenced (S : List String) (p : Producers) (assets : Stream) :
    ∀ e ∈ onStream S p ++ setStream S p ++ cliStream S p assets, ∀ d ∈ e.2, d.cls ∉ S := by
  intro e he
  have h : ∃ m, e ∈ filtered S m := by
    simp only [onStream, setStream, cliStream, List.mem_append] at he
    rcases he with ((((((h | h) | h) | h) | h) | h) | h) | (((((h | h) | h) | h) | h) | h) | h <;> exact ⟨_, h⟩
  obtain ⟨m, hm⟩ := h
  exact filtered_clean S m e hm

/-- Before the fix `__init__` handed its batches to the backend unfiltered: a project that silences
`DocUtilsParseError` still had the one of a snooty.toml substitution delivered (and counted). -/
theorem delivered_never_silenced_orig_refuted :
    ¬ (∀ (S : List String) (cfg2 : FileId) (second : List Bool) (p : Producers),
        ∀ e ∈ onStreamOrig S cfg2 second p, ∀ d ∈ e.2, d.cls ∉ S) := by
  intro h
  have := h ["DocUtilsParseError"] "../snooty.toml" [true]
    ⟨"snooty.toml", [[⟨"DocUtilsParseError", 0, 3, 0⟩]], [], [], [], [], [], []⟩
    ("../snooty.toml", [⟨"DocUtilsParseError", 0, 3, 0⟩]) (by decide) ⟨"DocUtilsParseError", 0, 3, 0⟩ (by decide)
  revert this
  decide

/-- What the `on_diagnostics` channel carries for file `f`, exactly: the unsilenced part of everything every
producer reported for `f`, in production order (one copy per output of a source). -/
theorem on_channel_exact (S : List String) (p : Producers) (f : FileId) :
    deliveredAt (onStream S p) f =
      filterDiagnostics S ((if f = p.cfg then p.init.flatten else []) ++ parsedAll p.parsedA f ++ getAll p.nested f
        ++ parsedAll p.parsedB f ++ getAll p.orphan f ++ getAll p.post f) := by
  unfold deliveredAt onStream
  simp only [← filtered_append, getAll_filtered, getAll_append, getAll_outEvents, getAll_initEvents]

/-- Completeness of the incremental channel: an unsilenced diagnostic of any producer is delivered under its file. -/
theorem delivered_complete (S : List String) (p : Producers) (f : FileId) (d : D) (hS : d.cls ∉ S)
    (h : (f = p.cfg ∧ d ∈ p.init.flatten) ∨ d ∈ parsedAll (p.parsedA ++ p.parsedB) f ∨ d ∈ getAll p.nested f
          ∨ d ∈ getAll p.orphan f ∨ d ∈ getAll p.post f) :
    d ∈ deliveredAt (onStream S p) f := by
  rw [on_channel_exact, mem_filterDiagnostics]
  refine ⟨?_, hS⟩
  simp only [List.mem_append]
  rcases h with ⟨h1, h2⟩ | h | h | h | h
  · simp [h1, h2]
  · simp only [parsedAll, List.flatMap_append, List.mem_append] at h
    rcases h with h | h
    · exact Or.inl (Or.inl (Or.inl (Or.inl (Or.inr h))))
    · exact Or.inl (Or.inl (Or.inr h))
  · exact Or.inl (Or.inl (Or.inl (Or.inr h)))
  · exact Or.inl (Or.inr h)
  · exact Or.inr h

/-- The final set of file `f` (before the filter), exactly: union over all outputs ++ orphan ++ postprocess ++ init.
`hOut`: output ids are distinct (one `_page_updated` per output in a build). -/
theorem final_set_exact (p : Producers)
    (hOut : ((p.parsedA ++ p.parsedB).map (·.out)).Nodup) (hn : p.order.Nodup)
    (hk : ∀ f, f ∈ p.order ↔ ∃ o ∈ [p.post, initMap p.cfg p.init], f ∈ keys o) (f : FileId) :
    mergedAt (finalMerged p) f =
      parsedUnion (p.parsedA ++ p.parsedB) f ++ getAll p.orphan f ++ mergedAt p.post f
        ++ (if f = p.cfg then p.init.flatten else []) := by
  unfold finalMerged
  rw [pagesStore_nodup _ hOut, merge_exact _ _ _ _ hn hk f]
  have := mergedAt_initMap p.cfg p.init f
  unfold mergedAt at this
  simp only [extendFrom, List.flatMap_cons, List.flatMap_nil, List.append_nil, mergedAt, List.append_assoc]
  congr 2
  congr 1
  · cases p.post.lookup f <;> rfl
  · rw [← this]; cases (initMap p.cfg p.init).lookup f <;> rfl

/-- Nothing reaches the final set that was not also delivered incrementally under the same file. -/
theorem final_subset_incremental (S : List String) (p : Producers)
    (hOut : ((p.parsedA ++ p.parsedB).map (·.out)).Nodup) (hn : p.order.Nodup)
    (hk : ∀ f, f ∈ p.order ↔ ∃ o ∈ [p.post, initMap p.cfg p.init], f ∈ keys o) (f : FileId) (d : D)
    (h : d ∈ filterDiagnostics S (mergedAt (finalMerged p) f)) : d ∈ deliveredAt (onStream S p) f := by
  rw [mem_filterDiagnostics] at h
  obtain ⟨h, hS⟩ := h
  rw [final_set_exact p hOut hn hk f] at h
  apply delivered_complete S p f d hS
  simp only [List.mem_append] at h
  rcases h with ((h | h) | h) | h
  · right; left
    unfold parsedUnion at h
    rcases mem_foldl_accum _ f [] d h with h1 | h1
    · cases h1
    · exact h1
  · right; right; right; left; exact h
  · right; right; right; right
    unfold mergedAt at h
    cases hl : p.post.lookup f with
    | none => simp [hl] at h
    | some l => rw [hl] at h; exact mem_getAll_of_lookup p.post f l hl d h
  · left
    by_cases hc : f = p.cfg
    · simp only [hc, if_true] at h; exact ⟨hc, h⟩
    · simp [hc] at h

/-- Conversely, nothing delivered through `on_diagnostics` for a file is missing from its final set
(no hypothesis on how many outputs a source has). `hU`: no list holds one object twice; `hP`: the postprocess
result is a dict; `hN`: no nested-project diagnostics (they are reported incrementally only);
`hF`: object identity determines the object. -/
theorem incremental_subset_final (S : List String) (p : Producers)
    (hOut : ((p.parsedA ++ p.parsedB).map (·.out)).Nodup) (hn : p.order.Nodup)
    (hk : ∀ f, f ∈ p.order ↔ ∃ o ∈ [p.post, initMap p.cfg p.init], f ∈ keys o)
    (hU : OutputsNodup (p.parsedA ++ p.parsedB)) (hP : (keys p.post).Nodup) (hN : p.nested = [])
    (f : FileId) (hF : IdsFaithful (parsedAll (p.parsedA ++ p.parsedB) f)) (d : D)
    (h : d ∈ deliveredAt (onStream S p) f) : d ∈ filterDiagnostics S (mergedAt (finalMerged p) f) := by
  rw [on_channel_exact, mem_filterDiagnostics] at h
  obtain ⟨h, hS⟩ := h
  rw [mem_filterDiagnostics]
  refine ⟨?_, hS⟩
  rw [final_set_exact p hOut hn hk f]
  simp only [List.mem_append, hN, getAll, List.flatMap_nil, List.not_mem_nil, or_false] at h
  simp only [List.mem_append]
  have hpar : d ∈ parsedAll (p.parsedA ++ p.parsedB) f → d ∈ parsedUnion (p.parsedA ++ p.parsedB) f := by
    intro hd
    have hE : parsedUnion (p.parsedA ++ p.parsedB) f = dedupInto [] (parsedAll (p.parsedA ++ p.parsedB) f) := by
      unfold parsedUnion; exact foldl_accum_eq_dedup _ f [] hU
    rw [hE]
    obtain ⟨d', hd', he⟩ := dedupInto_complete [] _ d hd
    have hm : d' ∈ parsedAll (p.parsedA ++ p.parsedB) f := by
      rcases mem_dedupInto [] _ d' hd' with h | h
      · cases h
      · exact h
    rw [← hF d' hm d hd he]; exact hd'
  rcases h with (((h | h) | h) | h) | h
  · right; exact h
  · left; left; left; apply hpar; simp only [parsedAll, List.flatMap_append, List.mem_append]; left; exact h
  · left; left; left; apply hpar; simp only [parsedAll, List.flatMap_append, List.mem_append]; right; exact h
  · left; left; right; exact h
  · left; right
    have := getAll_eq_lookup_of_nodup p.post f hP
    simp only [getAll] at this
    unfold mergedAt
    rw [← this]; exact h

example : onStream ["OrphanedPage"] ⟨"snooty.toml", [[], [⟨"DocUtilsParseError", 0, 3, 0⟩]],
      [⟨"a.txt", "a.txt", [⟨"X", 1, 3, 1⟩]⟩], [], [], [], [("a.txt", [⟨"OrphanedPage", 0, 2, 2⟩])], ["a.txt", "snooty.toml"]⟩
    = [("snooty.toml", [⟨"DocUtilsParseError", 0, 3, 0⟩]), ("a.txt", [⟨"X", 1, 3, 1⟩]), ("a.txt", [])] := by decide
example : setStream ["OrphanedPage"] ⟨"snooty.toml", [[], [⟨"DocUtilsParseError", 0, 3, 0⟩]],
      [⟨"a.txt", "a.txt", [⟨"X", 1, 3, 1⟩]⟩], [], [], [], [("a.txt", [⟨"OrphanedPage", 0, 2, 2⟩])], ["a.txt", "snooty.toml"]⟩
    = [("a.txt", [⟨"X", 1, 3, 1⟩]), ("snooty.toml", [⟨"DocUtilsParseError", 0, 3, 0⟩])] := by decide

/-! ## exit status -/

/-- `snooty build` exits non-zero exactly when the error counter is positive; `1` means "errors and
`fail_on_diagnostics`", `2` (EXIT_STATUS_ERROR_DIAGNOSTICS) means "errors, `fail_on_diagnostics` off". -/
theorem exit_iff_error (errors : Nat) (fail : Bool) :
    (exitCode true errors fail ≠ 0 ↔ errors > 0) ∧
    (exitCode true errors fail = 1 ↔ errors > 0 ∧ fail = true) ∧
    (exitCode true errors fail = 2 ↔ errors > 0 ∧ fail = false) := by
  unfold exitCode
  by_cases h : errors > 0 <;> cases fail <;> simp [h]

/-- other sub-commands (`create-cache`) never turn diagnostics into an exit status; a project that cannot be
loaded exits 1 whatever the settings. -/
theorem exit_other_paths (errors : Nat) (fail build : Bool) :
    exitCode false errors fail = 0 ∧ mainExit true build errors fail = 1 := by
  simp [exitCode, mainExit]

/-- The counter counts what was delivered: the command-line build exits non-zero iff an error-level diagnostic
went through `Backend.on_diagnostics`. -/
theorem exit_iff_delivered_error (S : List String) (p : Producers) (assets : Stream) (fail : Bool) :
    cliExit S p assets fail ≠ 0 ↔ ∃ e ∈ cliStream S p assets, ∃ d ∈ e.2, 3 ≤ d.sev := by
  unfold cliExit mainExit
  simp only [Bool.false_eq_true, if_false]
  rw [(exit_iff_error _ fail).1]
  exact countErrors_pos_iff _

/-- hence a silenced error never fails the build -/
theorem exit_nonzero_has_unsilenced_error (S : List String) (p : Producers) (assets : Stream) (fail : Bool)
    (h : cliExit S p assets fail ≠ 0) : ∃ e ∈ cliStream S p assets, ∃ d ∈ e.2, 3 ≤ d.sev ∧ d.cls ∉ S := by
  obtain ⟨e, he, d, hd, hs⟩ := (exit_iff_delivered_error S p assets fail).mp h
  refine ⟨e, he, d, hd, hs, ?_⟩
  exact delivered_never_silenced S p assets e (List.mem_append_right _ he) d hd

example : exitCode true 3 true = 1 ∧ exitCode true 3 false = 2 ∧ exitCode true 0 true = 0 := by decide
example : cliExit ["X"] ⟨"snooty.toml", [], [⟨"a.txt", "a.txt", [⟨"X", 1, 3, 1⟩]⟩], [], [], [], [], []⟩ [] true = 0 := by decide
example : cliExit [] ⟨"snooty.toml", [], [⟨"a.txt", "a.txt", [⟨"X", 1, 3, 1⟩]⟩], [], [], [], [], []⟩ [] false = 2 := by decide

/-! ## attribution -/

/-- A postprocess diagnostic raised on a node is filed under the file id of the node's nearest enclosing `Root`
(the page itself or the expanded include), never under the including page; the walk of a page cannot hit an
empty stack. -/
theorem attribution (fileid : FileId) (children : List Node) :
    walkPage fileid children = some (ownedList fileid children) := by
  unfold walkPage
  simp only [walk]
  have := walkList_owned [] fileid [] children
  simpa using this

example : walkPage "page.txt" [.fault ⟨"A", 1, 3, 0⟩, .plain [.root "includes/shared.rst" [.fault ⟨"B", 2, 3, 1⟩],
      .fault ⟨"C", 3, 3, 2⟩]]
    = some [("page.txt", [⟨"A", 1, 3, 0⟩]), ("includes/shared.rst", [⟨"B", 2, 3, 1⟩]), ("page.txt", [⟨"C", 3, 3, 2⟩])] := by
  decide

end SnootyVerif.C14
