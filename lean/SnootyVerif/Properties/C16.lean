import SnootyVerif.Proofs.Flutter
import SnootyVerif.Proofs.SpecInherit
import SnootyVerif.Proofs.Constants
import SnootyVerif.Gen.Types

/-!
# C16 — Configuration and spec loading is total and type-sound

Property theorems only. Models: `Model/Flutter.lean` (`flutter.check_type`, glue of
`ProjectConfig.open`), `Model/SpecInherit.lean` (`Spec._resolve_category`); helper lemmas in
`Proofs/Flutter.lean`, `Proofs/SpecInherit.lean`; the repo's real types in `Gen/Types.lean`.
-/
namespace SnootyVerif.C16
open SnootyVerif.Flutter SnootyVerif.SpecInherit

/-! ## the generic loader -/

/-- Type soundness: whatever `check_type` returns has the declared type, for every declared type
and every input value. -/
theorem check_sound (ty : Ty) (v : Val) (x : TVal) (h : check ty v = .ok x) : HasType x ty :=
  Flutter.check_sound ty v x h

example : HasType (.record "R" [("a", .list [.int 1, .bool true]), ("b", .dflt)])
    (.record "R" (.cons "a" (.list .int) false (.cons "b" .str true .nil)) .none) :=
  check_sound _ (.dict [("a", .list [.int 1, .bool true])]) _ (by rfl)

/-- The only exceptions leaving `check_type` are `LoadError`s, provided no dataclass of the type has
a raising `__post_init__` (the single such class, `LinkRoleType`, raises `ValueError`). -/
theorem check_errors_are_load_errors (ty : Ty) (v : Val) (e : LoadErr) (hp : ty.noPost = true)
    (h : check ty v = .error e) : e.isLoadError = true :=
  Flutter.check_err ty v e hp h

example : check (.list .str) (.list [.str "a", .int 1]) = .error .wrongType := by rfl

/-- … and in general the only other exception is that `ValueError`. -/
theorem check_errors_general (ty : Ty) (v : Val) (e : LoadErr) (_ : check ty v = .error e) :
    e.isLoadError = true ∨ e = .postInit := by
  cases e <;> simp [LoadErr.isLoadError]

/-- the `ValueError` branch is real (non-vacuity of the hypothesis `noPost`) -/
example : check (.record "LinkRoleType" (.cons "link" .str false .nil) (.onePlaceholder "link"))
    (.dict [("link", .str "https://x/")]) = .error .postInit := by rfl

/-- A mapping with a key that is not a field of the dataclass is never accepted. -/
theorem check_unknown_field (name : String) (fs : Fields) (post : Post) (kvs : List (String × Val))
    (k : String) (v : Val) (hk : (k, v) ∈ kvs) (hunk : k ∉ fs.names) (x : TVal) :
    check (.record name fs post) (.dict kvs) ≠ .ok x := by
  intro h
  obtain ⟨res, _, _, hres⟩ := record_ok_inv h
  have hit : (k, v, false) ∈ recordItems fs.names kvs :=
    List.mem_append_left _ (List.mem_map.mpr ⟨(k, v), hk, rfl⟩)
  obtain ⟨y, _, hy⟩ := mapM_ok_mem' hres _ hit
  obtain ⟨z, hz, _⟩ := except_map_ok hy
  rw [checkKey_eq_lookup, lookup_none_of_not_mem fs k hunk] at hz
  cases hz

/-- When the unknown key is the first offending item, the error names it (`LoadUnknownField.bad_field`). -/
theorem check_unknown_field_named (name : String) (fs : Fields) (post : Post)
    (pre rest : List (String × Val)) (k : String) (v : Val) (hunk : k ∉ fs.names)
    (hpre : ∀ kv ∈ pre, ∃ y, checkKey fs kv.1 kv.2 false = .ok y) :
    check (.record name fs post) (.dict (pre ++ (k, v) :: rest)) = .error (.unknownField k) := by
  have hitems : recordItems fs.names (pre ++ (k, v) :: rest) =
      pre.map (fun kv => (kv.1, kv.2, false)) ++ (k, v, false) ::
        (rest.map (fun kv => (kv.1, kv.2, false)) ++
          (missingKeys fs.names (pre ++ (k, v) :: rest)).map (fun n => (n, Val.none, true))) := by
    simp [recordItems]
  have hfail : (fun (it : String × Val × Bool) => (checkKey fs it.1 it.2.1 it.2.2).map (fun x => (it.1, x))) (k, v, false)
      = .error (.unknownField k) := by
    simp only [checkKey_eq_lookup, lookup_none_of_not_mem fs k hunk]; rfl
  have hm := mapM_first_error (f := fun (it : String × Val × Bool) => (checkKey fs it.1 it.2.1 it.2.2).map (fun x => (it.1, x)))
    (k, v, false) (rest.map (fun kv => (kv.1, kv.2, false)) ++
          (missingKeys fs.names (pre ++ (k, v) :: rest)).map (fun n => (n, Val.none, true))) _ hfail
    (pre.map (fun kv => (kv.1, kv.2, false)))
    (by intro a ha
        obtain ⟨kv, hkv, rfl⟩ := List.mem_map.mp ha
        obtain ⟨y, hy⟩ := hpre kv hkv
        exact ⟨(kv.1, y), by simp only [hy]; rfl⟩)
  simp only [check]
  rw [hitems, hm]

example : check (.record "BundleConfig" (.cons "manpages" (.union (.cons .str (.cons .none .nil))) true .nil) .none)
    (.dict [("manpages", .str "m"), ("zz", .int 1)]) = .error (.unknownField "zz") :=
  check_unknown_field_named "BundleConfig" _ .none [("manpages", .str "m")] [] "zz" (.int 1) (by decide)
    (by intro kv hkv; simp at hkv; subst hkv; exact ⟨_, rfl⟩)

/-- A field without default that is absent and whose type does not accept `None` makes the load fail. -/
theorem check_missing_required (name : String) (fs : Fields) (post : Post) (kvs : List (String × Val))
    (n : String) (t : Ty) (e : LoadErr) (hdecl : fs.lookup n = some (t, false))
    (habs : ∀ kv ∈ kvs, kv.1 ≠ n) (hnone : check t .none = .error e) (x : TVal) :
    check (.record name fs post) (.dict kvs) ≠ .ok x := by
  intro h
  obtain ⟨res, _, _, hres⟩ := record_ok_inv h
  have hit := missing_mem_recordItems (kvs := kvs) (mem_names_of_lookup fs n _ hdecl) habs
  obtain ⟨y, _, hy⟩ := mapM_ok_mem' hres _ hit
  obtain ⟨z, hz, _⟩ := except_map_ok hy
  rw [checkKey_eq_lookup, hdecl] at hz
  simp [hnone] at hz

example (x : TVal) : check (.record "ManPageConfig" (.cons "file" .str false (.cons "section" .int false .nil)) .none)
    (.dict [("file", .str "f")]) ≠ .ok x :=
  check_missing_required "ManPageConfig" _ .none _ "section" .int .wrongType (by rfl) (by decide) (by rfl) x

/-- An absent field with a default gets the default (and nothing else); an absent field without
default gets the checked `None`. -/
theorem check_default_used (name : String) (fs : Fields) (post : Post) (kvs : List (String × Val))
    (n : String) (t : Ty) (d : Bool) (hdecl : fs.lookup n = some (t, d)) (habs : ∀ kv ∈ kvs, kv.1 ≠ n)
    (x : TVal) (h : check (.record name fs post) (.dict kvs) = .ok x) :
    ∃ res, x = .record name res ∧
      ∃ y, (n, y) ∈ res ∧ (if d then y = .dflt else check t .none = .ok y) := by
  obtain ⟨res, hx, _, hres⟩ := record_ok_inv h
  refine ⟨res, hx, ?_⟩
  have hit := missing_mem_recordItems (kvs := kvs) (mem_names_of_lookup fs n _ hdecl) habs
  obtain ⟨y, hy, hfy⟩ := mapM_ok_mem' hres _ hit
  obtain ⟨z, hz, rfl⟩ := except_map_ok hfy
  refine ⟨z, hy, ?_⟩
  rw [checkKey_eq_lookup, hdecl] at hz
  cases d with
  | true => simp at hz; simp [hz]
  | false => simpa using hz

example : check (.record "BannerConfig" (.cons "targets" (.list .str) false (.cons "variant" .str true .nil)) .none)
    (.dict [("targets", .list [])]) = .ok (.record "BannerConfig" [("targets", .list []), ("variant", .dflt)]) := by rfl

/-- Completeness (partial: types without raising `__post_init__`): a value of the right shape with no
unknown fields is accepted. -/
theorem check_complete_partial (ty : Ty) (v : Val) (hc : Conforms v ty) (hp : ty.noPost = true) :
    ∃ x, check ty v = .ok x :=
  Flutter.check_complete ty v hc hp

example : ∃ x, check (.union (.cons (.list .str) (.cons .none .nil))) .none = .ok x :=
  check_complete_partial _ _ (.union (t := .none) (by simp [Tys.toList]) .none) (by rfl)

/-! ## the repo's real types (`Gen/Types.lean`, regenerated from the imported modules on every run) -/

theorem projectConfig_noPost : Gen.Types.projectConfig.noPost = true := by rfl
theorem taxonomySpec_noPost : Gen.Types.taxonomySpec.noPost = true := by rfl

/-- Soundness at the real `ProjectConfig`: a loaded configuration has every field of its declared type. -/
theorem projectConfig_sound (v : Val) (x : TVal) (h : check Gen.Types.projectConfig v = .ok x) :
    HasType x Gen.Types.projectConfig :=
  check_sound _ v x h

/-- … and loading it can only fail with a `LoadError`. -/
theorem projectConfig_errors (v : Val) (e : LoadErr) (h : check Gen.Types.projectConfig v = .error e) :
    e.isLoadError = true :=
  check_errors_are_load_errors _ v e projectConfig_noPost h

/-- Soundness at the real `Spec` (whose `LinkRoleType` may additionally raise the `ValueError`). -/
theorem spec_sound (v : Val) (x : TVal) (h : check Gen.Types.spec v = .ok x) : HasType x Gen.Types.spec :=
  check_sound _ v x h

example : ∃ x, check Gen.Types.projectConfig
    (.dict [("name", .str "docs"), ("root", .obj ["PosixPath", "Path", "object"]),
            ("bundle", .dict []), ("manpages", .dict [("m", .dict [("file", .str "f"), ("title", .str "t"), ("section", .int 1)])])]) = .ok x :=
  ⟨_, rfl⟩

example : check Gen.Types.projectConfig (.dict [("name", .str "docs"), ("root", .obj ["Path"]), ("title", .int 3)])
    = .error .wrongType := by rfl

/-! ## glue: `ProjectConfig.open` (fixed code) -/

/-- Opening is total: for every TOML outcome the result is a configuration of the declared type or an
`UnmarshallingError` diagnostic — never an escaping exception. -/
theorem open_total (rootClasses : List String) (p : Parsed) :
    (∃ cfg, openConfig Gen.Types.projectConfig rootClasses p = .ok cfg ∧ HasType cfg Gen.Types.projectConfig) ∨
    (∃ line, openConfig Gen.Types.projectConfig rootClasses p = .diag line) := by
  cases p with
  | decodeError line => exact Or.inr ⟨line, rfl⟩
  | table kvs =>
    simp only [openConfig]
    split
    · rename_i cfg h
      exact Or.inl ⟨cfg, rfl, check_sound _ _ _ h⟩
    · rename_i e h
      rw [projectConfig_errors _ e h]
      exact Or.inr ⟨0, rfl⟩

example : openConfig Gen.Types.projectConfig ["Path"] (.decodeError 3) = .diag 3 := rfl
example : openConfig Gen.Types.projectConfig ["Path"] (.table [("nam", .str "x")]) = .diag 0 := by rfl

/-! ## spec inheritance -/

/-- Termination: the recursion bound of the model (number of entries + 1) is never hit, i.e.
`_resolve_category` returns or raises one of its two `ValueError`s for *every* index
(the Lean function is total by construction; this shows the bound is not what makes it so). -/
theorem resolve_terminates (idx : Index) : resolveCategory idx ≠ .error .fuel :=
  SpecInherit.resolveCategory_no_fuel idx

/-- The cycle guard: reaching a key that is on the current resolution path raises the cycle error. -/
theorem resolve_cycle_reported (fuel : Nat) (idx : Index) (pending resolved : List String) (key : String)
    (e : Entry) (h : key ∈ pending) :
    resolveValue (fuel + 1) idx pending resolved key e = .error (.cycle key) := by
  simp [resolveValue, h]

/-- the guard fires on real cycles of any length: concrete 1-, 2- and 3-cycles, also when entered
from outside the cycle (the general statement "ok ⇒ acyclic and closed" is checked on the
implementation by the harness' independent graph oracle, not proved here) -/
example : resolveCategory [("a", ⟨some "b", []⟩), ("b", ⟨some "a", []⟩)] = .error (.cycle "a") := by rfl
example : resolveCategory [("a", ⟨some "a", []⟩)] = .error (.cycle "a") := by rfl
example : resolveCategory [("x", ⟨some "a", []⟩), ("a", ⟨some "b", []⟩), ("b", ⟨some "c", []⟩), ("c", ⟨some "a", []⟩)]
    = .error (.cycle "a") := by rfl

/-- A parent that is not in the index is reported. -/
theorem resolve_missing_parent_reported (fuel : Nat) (idx : Index) (pending resolved : List String)
    (key p : String) (e : Entry) (hp : key ∉ pending) (hr : key ∉ resolved) (hi : e.inherit = some p)
    (hm : lookup idx p = none) :
    resolveValue (fuel + 1) idx pending resolved key e = .error (.missingParent p) := by
  simp [resolveValue, hp, hr, hi, hm]

example : resolveCategory [("a", ⟨none, []⟩), ("b", ⟨some "ghost", []⟩)] = .error (.missingParent "ghost") := by rfl

/-- Merge: an entry that inherits becomes its own set (non-`None`, non-`Missing`) fields over the
*resolved* parent's, and that is what is stored back. -/
theorem resolve_merge (fuel : Nat) (idx idx' : Index) (pending resolved resolved' : List String)
    (key p : String) (e out : Entry) (hp : key ∉ pending) (hr : key ∉ resolved) (hi : e.inherit = some p)
    (h : resolveValue (fuel + 1) idx pending resolved key e = .ok (idx', resolved', out)) :
    ∃ pe idx₁ r₁ base, lookup idx p = some pe ∧
      resolveValue fuel idx (key :: pending) resolved p pe = .ok (idx₁, r₁, base) ∧
      out = merge e base ∧ idx' = setEntry idx₁ key out ∧ resolved' = key :: r₁ := by
  simp only [resolveValue, hp, hr, hi, if_false] at h
  split at h
  · cases h
  · rename_i pe hpe
    split at h
    · cases h
    · rename_i idx₁ r₁ base hrec
      cases h
      exact ⟨pe, idx₁, r₁, base, hpe, hrec, rfl, rfl, rfl⟩

/-- field-wise reading of `merge` -/
theorem merge_field (c b : Entry) (i : Nat) (hc : i < c.fields.length) (hb : i < b.fields.length) :
    (merge c b).fields[i]? = some (match c.fields[i] with | some x => some x | none => b.fields[i]) :=
  SpecInherit.mergeFields_get c.fields b.fields i hc hb

example : resolveCategory [("child", ⟨some "base", [some "own", none]⟩), ("base", ⟨none, [some "b1", some "b2"]⟩)]
    = .ok [("child", ⟨some "base", [some "own", some "b2"]⟩), ("base", ⟨none, [some "b1", some "b2"]⟩)] := by rfl


/-! ## `[constants]` expansion (`ProjectConfig.render_constants`) -/
open SnootyVerif.Constants in
/-- Every placeholder is either expanded from the constants available at that point or reported:
the `ConstantNotDeclared` diagnostics of one source text are exactly its placeholder names that are
not (yet) declared, in order. -/
theorem constants_reported (env : List (String × String)) (segs : List Seg) :
    (substitute env segs).2 = (refs segs).filter (fun n => (env.lookup n).isNone) :=
  substitute_diags env segs

open SnootyVerif.Constants in
/-- A constant is expanded against the *already expanded* constants declared before it and nothing
else: its value does not depend on its own or on later entries (a forward or self reference is
undeclared there, hence reported and replaced, never left as raw `{+name+}` text). -/
theorem constants_use_only_earlier (pre post : List (String × List Seg)) (k : String) (segs : List Seg) :
    ∃ tail, (render (pre ++ (k, segs) :: post)).1 =
      (render pre).1 ++ (k, (substitute (render pre).1 segs).1) :: tail := by
  unfold render
  rw [renderFrom_append]
  simp only [renderFrom]
  obtain ⟨tail, ht⟩ := renderFrom_extends ((renderFrom [] pre).1 ++ [(k, (substitute (renderFrom [] pre).1 segs).1)]) post
  exact ⟨tail, by rw [ht]; simp⟩

open SnootyVerif.Constants in
/-- … and the diagnostics of the table are those of its entries, in table order. -/
theorem constants_diags_append (pre rest : List (String × List Seg)) :
    (render (pre ++ rest)).2 = (render pre).2 ++ (renderFrom (render pre).1 rest).2 := by
  unfold render
  rw [renderFrom_append]

open SnootyVerif.Constants in
/-- forward reference, backward reference, self reference (the table of the seeded-change demo) -/
example : render [("base", [.lit "1"]), ("pkg", [.lit "mongodb-", .ref "version", .lit ".tgz"]),
                  ("version", [.ref "major", .lit ".", .ref "base"]), ("major", [.lit "7"]),
                  ("selfref", [.lit "x", .ref "selfref"])]
    = ([("base", "1"), ("pkg", "mongodb-" ++ zwsp ++ ".tgz"), ("version", zwsp ++ ".1"), ("major", "7"),
        ("selfref", "x" ++ zwsp)], ["version", "major", "selfref"]) := by decide

end SnootyVerif.C16
