import SnootyVerif.Proofs.Indent
import SnootyVerif.Proofs.Sections
import SnootyVerif.Proofs.Escape
import SnootyVerif.Proofs.DocLang
import SnootyVerif.Proofs.Visitor

/-!
# C03 — Parse fidelity: the AST mirrors the document's structure, text and lines

Property theorems only.  Kernels: `Model/Indent.lean` (`get_indented` & co.), `Model/Sections.lean`
(section levels from adornment styles), `Model/Escape.lean` (backslash escapes, explicit titles);
the language model `Model/DocLang.lean` (`render` / `expected`) is the oracle of the end-to-end
differential in `harness/props/c03.py`.  `isSpace` is Python's `str.isspace` / `\s`.
-/
namespace SnootyVerif.C03
open SnootyVerif

/-! ## indented blocks -/
section indent
open SnootyVerif.Indent

/-- `get_indented()` with nothing known (block quotes, literal blocks, definitions): the block is
`data[start:stop]` with `indent` columns removed (if `strip_indent`); every collected line is
indented or empty, and blank or indented by at least `indent`; the line at `stop` (if any) is not
indented (or, with `until_blank`, blank); `indent` is the minimum indentation of the non-blank
lines (0 if there is none). -/
theorem getIndented_spec (isSpace : Char → Bool) (data : List Line) (start : Nat) (ub si : Bool) :
    let r := getIndented isSpace data start ub si none none
    let slice := (data.take r.stop).drop start
    r.block = slice.map (fun l => l.drop (if si then r.indent else 0)) ∧
    (∀ l ∈ slice, unindented isSpace none l = false ∧
        (isBlank isSpace l = true ∨ r.indent ≤ indentOf isSpace l)) ∧
    (∀ h : r.stop < data.length,
        unindented isSpace none data[r.stop] = true ∨ (ub = true ∧ isBlank isSpace data[r.stop] = true)) ∧
    ((∃ l ∈ slice, isBlank isSpace l = false ∧ indentOf isSpace l = r.indent) ∨
      (r.indent = 0 ∧ ∀ l ∈ slice, isBlank isSpace l = true)) ∧
    (r.stop = data.length → r.blankFinish = true) := by
  intro r slice
  have hslice : slice = (data.drop start).take (scan isSpace ub none none none (data.drop start)).n := by
    simp only [slice, r, getIndented, Option.isSome_none, Bool.false_and, Bool.false_eq_true, if_false]
    rw [List.drop_take]; congr 1; omega
  have hstop : r.stop = start + (scan isSpace ub none none none (data.drop start)).n := by
    simp [r, getIndented]
  have hind := scan_indent_none isSpace ub (data.drop start) none none
  rw [← hslice] at hind
  have hrind : r.indent = (scan isSpace ub none none none (data.drop start)).indent.getD 0 := by
    simp [r, getIndented]
  refine ⟨?_, ?_, ?_, ?_, ?_⟩
  · -- the block
    have hb : r.block = stripBlock (scan isSpace ub none none none (data.drop start)).indent si false slice := by
      simp [r, getIndented, slice, dropFirst]
    rw [hb, hrind]
    unfold stripBlock
    cases hi : (scan isSpace ub none none none (data.drop start)).indent with
    | none => cases si <;> simp
    | some i =>
      simp only [Option.getD_some, Bool.false_eq_true, if_false, trimLeft_zero]
      cases si with
      | false => simp
      | true =>
        by_cases h0 : i = 0
        · subst h0; simp
        · simp [h0]
  · intro l hl
    have hl' := hl
    rw [hslice] at hl'
    refine ⟨(scan_taken isSpace ub none _ none none l hl').1, ?_⟩
    cases hb : isBlank isSpace l with
    | true => left; rfl
    | false =>
      right
      rw [hrind]
      cases hi : (scan isSpace ub none none none (data.drop start)).indent with
      | none => simp
      | some m =>
        rw [hi] at hind
        exact minIndent_le isSpace slice none m hind.symm l hl hb
  · intro h
    have hlt : (scan isSpace ub none none none (data.drop start)).n < (data.drop start).length := by
      rw [List.length_drop]; omega
    have := scan_stop isSpace ub none (data.drop start) none none hlt
    simpa [List.getElem_drop, ← hstop] using this
  · rw [hrind]
    cases hi : (scan isSpace ub none none none (data.drop start)).indent with
    | none =>
      rw [hi] at hind
      right
      exact ⟨rfl, (minIndent_none isSpace slice none hind.symm).2⟩
    | some m =>
      rw [hi] at hind
      rcases minIndent_attained isSpace slice none m hind.symm with h | h
      · cases h
      · left; simpa using h
  · intro he
    have hn : (scan isSpace ub none none none (data.drop start)).n = (data.drop start).length := by
      have := scan_n_le isSpace ub none (data.drop start) none none
      rw [List.length_drop] at this ⊢; omega
    have := scan_eof isSpace ub none (data.drop start) none none hn
    simpa [r, getIndented] using this

example : getIndented (fun c => c == ' ')
    ["x".toList, "   a".toList, "".toList, "     b".toList, "  ".toList, "c".toList] 1 false true none none
    = ⟨["a".toList, [], "  b".toList, []], 3, true, 5⟩ := by decide

/-- `get_known_indented(indent)` (list items whose text starts on the marker line): the indent is
the given one, every line after the first is empty or starts with `indent` whitespace columns the
first of which is a space, and the block is the slice with exactly `indent` columns removed from every line. -/
theorem getIndented_known_spec (isSpace : Char → Bool) (data : List Line) (start b : Nat) (ub : Bool)
    (hstart : start < data.length) :
    let r := getIndented isSpace data start ub true (some b) none
    let slice := (data.take r.stop).drop start
    r.indent = b ∧ r.block = slice.map (fun l => l.drop b) ∧ start < r.stop ∧
    (∀ l ∈ (data.take r.stop).drop (start + 1), unindented isSpace (some b) l = false) ∧
    (∀ h : r.stop < data.length,
        unindented isSpace (some b) data[r.stop] = true ∨ (ub = true ∧ isBlank isSpace data[r.stop] = true)) := by
  intro r slice
  have hstop : r.stop = start + 1 + (scan isSpace ub (some b) data[start]? (some b) (data.drop (start + 1))).n := by
    simp [r, getIndented]
  have hi : (scan isSpace ub (some b) data[start]? (some b) (data.drop (start + 1))).indent = some b :=
    scan_indent_block isSpace ub b _ _ _
  refine ⟨by simp [r, getIndented, hi], ?_, by omega, ?_, ?_⟩
  · have hne : ∃ x xs, slice = x :: xs := by
      have : slice.length ≠ 0 := by
        simp only [slice, List.length_drop, List.length_take]; omega
      cases hs : slice with
      | nil => simp [hs] at this
      | cons x xs => exact ⟨x, xs, rfl⟩
    obtain ⟨x, xs, hx⟩ := hne
    have hb : r.block = stripBlock (some b) true true (dropFirst (some b) slice) := by
      simp [r, getIndented, slice, hi]
    rw [hb, hx]
    simp only [dropFirst, stripBlock]
    by_cases h0 : b = 0
    · subst h0; simp
    · simp [h0, trimLeft_one]
  · intro l hl
    have : (data.take r.stop).drop (start + 1) =
        (data.drop (start + 1)).take (scan isSpace ub (some b) data[start]? (some b) (data.drop (start + 1))).n := by
      rw [List.drop_take]; congr 1; omega
    rw [this] at hl
    exact (scan_taken isSpace ub (some b) _ _ _ l hl).1
  · intro h
    have hlt : (scan isSpace ub (some b) data[start]? (some b) (data.drop (start + 1))).n <
        (data.drop (start + 1)).length := by
      rw [List.length_drop]; omega
    have := scan_stop isSpace ub (some b) (data.drop (start + 1)) data[start]? (some b) hlt
    simpa [List.getElem_drop, ← hstop] using this

example : getIndented (fun c => c == ' ')
    ["- item".toList, "  more".toList, "".toList, "   deep".toList, " x".toList] 0 false true (some 2) none
    = ⟨["item".toList, "more".toList, [], " deep".toList], 2, false, 4⟩ := by decide

/-- Every parameter combination: line `i` of the returned block is a right part of source line
`start + i` (nothing is dropped, duplicated or reordered, so `input_offset = start` is the right
offset for a nested parse), and the block has exactly `min stop len - start` lines. -/
theorem getIndented_offset (isSpace : Char → Bool) (data : List Line) (start : Nat) (ub si : Bool)
    (bi fi : Option Nat) :
    let r := getIndented isSpace data start ub si bi fi
    r.block.length = min r.stop data.length - start ∧
    ∀ (i : Nat) (h : i < r.block.length), ∃ (h' : start + i < data.length) (k : Nat),
      r.block[i] = (data[start + i]).drop k := by
  intro r
  have ht := getIndented_trimmed isSpace data start ub si bi fi
  have hlen := TrimmedOf.length _ _ ht
  have hl2 : r.block.length = min r.stop data.length - start := by
    rw [hlen]; simp [r]
  refine ⟨hl2, ?_⟩
  intro i h
  have h1 : i < ((data.take r.stop).drop start).length := by rw [← hlen]; exact h
  have h' : start + i < data.length := by
    simp only [List.length_drop, List.length_take] at h1; omega
  obtain ⟨k, hk⟩ := TrimmedOf.getElem _ _ ht i h h1
  refine ⟨h', k, ?_⟩
  rw [hk]
  simp [List.getElem_drop, List.getElem_take]

/-- the untrimmed block is a contiguous part of the input: no line comes from elsewhere -/
theorem getIndented_sublist (isSpace : Char → Bool) (data : List Line) (start : Nat) (ub si : Bool)
    (bi fi : Option Nat) :
    let r := getIndented isSpace data start ub si bi fi
    ((data.take r.stop).drop start).Sublist data ∧ r.block.length ≤ data.length - start := by
  intro r
  refine ⟨(List.drop_sublist _ _).trans (List.take_sublist _ _), ?_⟩
  have := (getIndented_offset isSpace data start ub si bi fi).1
  show (getIndented isSpace data start ub si bi fi).block.length ≤ data.length - start
  omega

/-- the three `StateMachine` wrappers: line `i` of the block they return comes from input line
`offset - input_offset + i`, where `offset` is the value they return for `input_offset=` of the
nested parse (leading blank lines stripped are counted). -/
theorem stripTop_offset (isSpace : Char → Bool) (data : List Line) (lineOffset inputOffset : Nat)
    (r : Indented) (hr : ∀ (i : Nat) (h : i < r.block.length), ∃ (h' : lineOffset + i < data.length) (k : Nat),
      r.block[i] = (data[lineOffset + i]).drop k) :
    let t := stripTop isSpace r.block (lineOffset + inputOffset)
    inputOffset + lineOffset ≤ t.2 ∧
    ∀ (i : Nat) (h : i < t.1.length), ∃ (h' : t.2 - inputOffset + i < data.length) (k : Nat),
      t.1[i] = (data[t.2 - inputOffset + i]).drop k := by
  intro t
  obtain ⟨k0, hk, hle, _, _⟩ := stripTop_spec isSpace r.block (lineOffset + inputOffset)
  have h1 : t.1 = r.block.drop k0 := by simp [t, hk]
  have h2 : t.2 = lineOffset + inputOffset + k0 := by simp [t, hk]
  refine ⟨by omega, ?_⟩
  intro i h
  have hi : k0 + i < r.block.length := by
    rw [h1, List.length_drop] at h; omega
  obtain ⟨h', k, hk'⟩ := hr (k0 + i) hi
  have he : t.2 - inputOffset + i = lineOffset + (k0 + i) := by omega
  refine ⟨by rw [he]; exact h', k, ?_⟩
  simp only [h1, List.getElem_drop, he]
  exact hk'

theorem smGetFirstKnownIndented_offset (isSpace : Char → Bool) (sm : SM) (indent : Nat) (ub si st : Bool) :
    let g := smGetFirstKnownIndented isSpace sm indent ub si st
    ∀ (i : Nat) (h : i < g.block.length), ∃ (h' : g.offset - sm.inputOffset + i < sm.lines.length) (k : Nat),
      g.block[i] = (sm.lines[g.offset - sm.inputOffset + i]).drop k := by
  intro g
  have hr := (getIndented_offset isSpace sm.lines sm.lineOffset ub si none (some indent)).2
  cases st with
  | true =>
    exact (stripTop_offset isSpace sm.lines sm.lineOffset sm.inputOffset _ hr).2
  | false =>
    intro i h
    obtain ⟨h', k, hk⟩ := hr i h
    have he : g.offset - sm.inputOffset + i = sm.lineOffset + i := by
      simp [g, smGetFirstKnownIndented]
    exact ⟨by rw [he]; exact h', k, by simp only [he]; exact hk⟩

theorem smGetKnownIndented_offset (isSpace : Char → Bool) (sm : SM) (indent : Nat) (ub si : Bool) :
    let g := smGetKnownIndented isSpace sm indent ub si
    ∀ (i : Nat) (h : i < g.block.length), ∃ (h' : g.offset - sm.inputOffset + i < sm.lines.length) (k : Nat),
      g.block[i] = (sm.lines[g.offset - sm.inputOffset + i]).drop k :=
  (stripTop_offset isSpace sm.lines sm.lineOffset sm.inputOffset _
    (getIndented_offset isSpace sm.lines sm.lineOffset ub si (some indent) none).2).2

theorem smGetIndented_offset (isSpace : Char → Bool) (sm : SM) (ub si : Bool) :
    let g := smGetIndented isSpace sm ub si
    ∀ (i : Nat) (h : i < g.block.length), ∃ (h' : g.offset - sm.inputOffset + i < sm.lines.length) (k : Nat),
      g.block[i] = (sm.lines[g.offset - sm.inputOffset + i]).drop k :=
  (stripTop_offset isSpace sm.lines sm.lineOffset sm.inputOffset _
    (getIndented_offset isSpace sm.lines sm.lineOffset ub si none none).2).2

example : smGetFirstKnownIndented (fun c => c == ' ')
    ⟨[".. note::".toList, "".toList, "   body".toList, "".toList, "after".toList], 0, 7⟩ 9 false true true
    = ⟨["body".toList, []], 3, 9, true, 3⟩ := by decide

end indent

/-! ## section levels -/
section sections
open SnootyVerif.Sections

/-- Rendering any section tree with any injective assignment of adornment styles to depths and
parsing the skeleton back yields the tree: the nesting is by title level, no title is rejected,
the root machine is never stopped, and the styles are registered in depth order. -/
theorem sections_roundtrip (σ : Nat → Style) (hσ : Injective σ) (t : Doc) :
    (parseSkeleton (renderSkeleton σ t)).doc = docNodes t ∧
    (parseSkeleton (renderSkeleton σ t)).halted = false ∧
    ∃ n, (parseSkeleton (renderSkeleton σ t)).styles = stylesUpTo σ n := by
  have h := run_rem σ hσ (todoSize [t.subs]) [t.subs] 0 0 (List.replicate t.body Node.other) []
    (Nat.le_refl _) rfl trivial (Nat.le_refl _)
  obtain ⟨n', _, hc, hh, hs⟩ := h
  have hrun : run (renderSkeleton σ t) init =
      run (rem σ 0 [t.subs]) ⟨⟨stylesUpTo σ 0, 0⟩, List.replicate t.body Node.other, [], false⟩ := by
    simp only [renderSkeleton, init, renderSkeleton_rem]
    rw [run_others]
    simp [stylesUpTo]
  simp only [parseSkeleton, hrun]
  exact ⟨by rw [hc]; simp [plug, docNodes], hh, n', hs⟩

def exStyle (d : Nat) : Style := ⟨Char.ofNat (33 + d), if d % 2 = 0 then some (Char.ofNat (33 + d)) else none⟩

example : (parseSkeleton (renderSkeleton exStyle
    ⟨1, [.mk 2 [.mk 0 [.mk 1 []], .mk 0 []], .mk 0 [.mk 0 []]]⟩)).doc =
    docNodes ⟨1, [.mk 2 [.mk 0 [.mk 1 []], .mk 0 []], .mk 0 [.mk 0 []]]⟩ := by rfl

/-- A known style used below a skipped level (its level is more than one deeper than the current
section) only adds the SEVERE "Title level inconsistent" message: nothing else changes. -/
theorem sections_inconsistent (st : St) (s : Style) (i : Nat) (hh : st.halted = false)
    (hi : indexOf s st.memo.styles = some i) (hskip : st.memo.level + 1 < i + 1) :
    step st (Ev.title s) = { st with cur := st.cur ++ [Node.inconsistent] } := by
  simp only [step, hh, Bool.false_eq_true, if_false, titleEvent]
  rw [check_skip _ _ i hi (by omega)]

/-- A new style where deeper levels already have styles is rejected the same way. -/
theorem sections_inconsistent_new (st : St) (s : Style) (hh : st.halted = false)
    (hi : indexOf s st.memo.styles = none) (hlen : st.memo.styles.length ≠ st.memo.level) :
    step st (Ev.title s) = { st with cur := st.cur ++ [Node.inconsistent] } := by
  simp only [step, hh, Bool.false_eq_true, if_false, titleEvent]
  rw [check_new_bad _ _ hi hlen]

/-- For every event list the `EOFError` of a bubbling title is caught by some enclosing
`new_subsection`: it never reaches the root machine (which would silently drop the rest). -/
theorem sections_never_halt (evs : List Ev) : (parseSkeleton evs).halted = false :=
  (run_inv evs init ⟨rfl, trivial⟩).1

example : (parseSkeleton [.title ⟨'=', none⟩, .title ⟨'-', none⟩, .title ⟨'~', none⟩,
    .title ⟨'=', none⟩, .title ⟨'~', none⟩, .title ⟨'^', none⟩]).doc =
    [.sec [.sec [.sec []]], .sec [.inconsistent, .inconsistent]] := by rfl

/-- The level of a style is its position in `title_styles`; the list only grows, by appending a
style at the first title that is accepted with it, and never holds a style twice. -/
theorem sections_first_appearance (evs : List Ev) :
    (parseSkeleton evs).styles.Nodup ∧ ∀ s ∈ (parseSkeleton evs).styles, Ev.title s ∈ evs := by
  obtain ⟨ext, he, hn, hm⟩ := run_grows evs init
  simp only [parseSkeleton]
  simp only [init, List.nil_append] at he hn
  exact ⟨hn List.nodup_nil, fun s hs => hm s (he ▸ hs)⟩

example : (parseSkeleton [.title ⟨'=', none⟩, .other, .title ⟨'-', none⟩, .title ⟨'=', none⟩,
    .title ⟨'-', none⟩, .title ⟨'~', some '~'⟩]).styles = [⟨'=', none⟩, ⟨'-', none⟩, ⟨'~', some '~'⟩] := by
  decide

/-- `render_injective`, the part that is proved: with an injective style assignment two different
section trees never render to the same title skeleton (the expectation is determined by the text).
For whole documents injectivity of `render` is validated by the differential only. -/
theorem render_injective_partial (σ : Nat → Style) (hσ : Injective σ) (t₁ t₂ : Doc)
    (h : renderSkeleton σ t₁ = renderSkeleton σ t₂) : t₁ = t₂ := by
  apply docNodes_inj
  rw [← (sections_roundtrip σ hσ t₁).1, ← (sections_roundtrip σ hσ t₂).1, h]

example : renderSkeleton exStyle ⟨0, [.mk 1 [.mk 0 []]]⟩ ≠ renderSkeleton exStyle ⟨0, [.mk 1 [], .mk 0 []]⟩ := by decide

end sections

/-! ## escapes and explicit titles -/
section escape
open SnootyVerif.Escape

/-- `escape2null` never changes the length: one NUL per escaping backslash -/
theorem escape2null_length (t : Str) : (escape2null t).length = t.length :=
  escape2null_length_aux t.length t (Nat.le_refl _)

/-- text without backslashes (and without NUL) passes `escape2null` + `unescape` unchanged -/
theorem unescape_escape2null_id (t : Str) (restore : Bool) (hb : '\\' ∉ t) (hn : NUL ∉ t) :
    unescape (escape2null t) restore = t := by
  rw [escape2null_noBackslash t hb]
  unfold unescape
  cases restore with
  | true => simp only [if_true]; exact replace1_noA _ _ t hn
  | false =>
    simp only [Bool.false_eq_true, if_false]
    rw [remove2_noA _ _ t hn, remove2_noA _ _ t hn, remove1_noA _ t hn]

/-- restoring mode is the exact inverse of `escape2null` on NUL-free text -/
theorem unescape_restore_escape2null (t : Str) (hn : NUL ∉ t) : unescape (escape2null t) true = t := by
  simp only [unescape, if_true]; exact restore_escape2null t hn

example : unescape (escape2null "a\\*b\\ c\\\\d".toList) false = "a*bc\\d".toList := by decide
example : unescape (escape2null "a\\*b\\ c\\\\d".toList) true = "a\\*b\\ c\\\\d".toList := by decide

/-- `label <target>`: for a label without `<` that does not end in whitespace and any target,
the explicit-title recogniser returns exactly (target, label) (after `unescape_backslashes`). -/
theorem explicitTitle_roundtrip (isSpace : Char → Bool) (label target : Str) (hsp : isSpace ' ' = true)
    (hlt : '<' ∉ label) (hl : ∀ c, label.getLast? = some c → isSpace c = false) :
    parseExplicitTitle isSpace (label ++ ' ' :: '<' :: (target ++ ['>'])) =
      (unescapeBackslashes target, some (unescapeBackslashes label)) := by
  have hs : label ++ ' ' :: '<' :: (target ++ ['>']) = (label ++ ' ' :: '<' :: target) ++ ['>'] := by simp
  have hclose : closePos (label ++ ' ' :: '<' :: (target ++ ['>'])) = some (label ++ ' ' :: '<' :: target).length := by
    rw [hs]; simp only [closePos, List.getLast?_append, List.getLast?_singleton, Option.some_or, if_true]
    simp
  have htake : (label ++ ' ' :: '<' :: (target ++ ['>'])).take (label ++ ' ' :: '<' :: target).length =
      label ++ ' ' :: '<' :: target := by
    rw [hs, List.take_left]
  unfold parseExplicitTitle explicitTitle
  rw [hclose]
  simp only [htake, findLt_label label target hlt]
  have htake2 : (label ++ ' ' :: '<' :: (target ++ ['>'])).take (label.length + 1) =
      (label ++ ' ' :: '<' :: target).take (label.length + 1) := by
    rw [hs, List.take_append_of_le_length (by simp)]
  rw [htake2]
  have h1 : (label ++ ' ' :: '<' :: target).take (label.length + 1) = label ++ [' '] := by
    have : label ++ ' ' :: '<' :: target = (label ++ [' ']) ++ '<' :: target := by simp
    rw [this, List.take_left' (by simp)]
  have h2 : (label ++ ' ' :: '<' :: target).drop (label.length + 1 + 1) = target := by
    have : label ++ ' ' :: '<' :: target = (label ++ [' ', '<']) ++ target := by simp
    rw [this, List.drop_left' (by simp)]
  rw [h1, h2, rstrip_append_space isSpace label hsp hl]

theorem explicitTitle_roundtrip_plain (isSpace : Char → Bool) (label target : Str) (hsp : isSpace ' ' = true)
    (hlt : '<' ∉ label) (hl : ∀ c, label.getLast? = some c → isSpace c = false)
    (hn1 : NUL ∉ label) (hn2 : NUL ∉ target) :
    parseExplicitTitle isSpace (label ++ ' ' :: '<' :: (target ++ ['>'])) = (target, some label) := by
  rw [explicitTitle_roundtrip isSpace label target hsp hlt hl,
    unescapeBackslashes_noNUL _ hn1, unescapeBackslashes_noNUL _ hn2]

example : parseExplicitTitle (fun c => c == ' ') "Some label </path/to>".toList =
    ("/path/to".toList, some "Some label".toList) := by decide
example : parseExplicitTitle (fun c => c == ' ') "no title here >".toList = ("no title here >".toList, none) := by
  decide

end escape

/-! ## the language model: the oracle is self-consistent -/
section doclang
open SnootyVerif.DocLang

/-- For every document tree and every layout: each node of the expected AST that reports a line
(paragraph, directive, code block, label, heading) names exactly the line of the rendered text on
which the model says it starts — the first line of a paragraph with its list marker / indentation,
the `.. name::` line of a directive or code block, the `.. _label:` line, the underline of a title.
So an expectation mismatch found by the differential is a statement about the rendered text. -/
theorem render_lines (ℓ : Layout) (bs : List Blk) :
    ∀ n ∈ flatList (expected ℓ bs), ∀ ln txt, n.claim = some (ln, txt) → (render ℓ bs)[ln]? = some txt := by
  intro n hn ln txt hc
  have h := Consistent.wrap "root" [] none
    (Consistent.append_right (blanks ℓ.trailing) (emitSeq_consistent ℓ bs SeqMode.blocks 0)) noClaim
  have := h n hn ln txt hc
  simpa [render, emitDoc] using this.2

/-- the same for a block rendered anywhere: claims are relative to the line the block starts on -/
theorem render_lines_block (ℓ : Layout) (b : Blk) (start : Nat) :
    ∀ n ∈ flatList (emit ℓ start b).nodes, ∀ ln txt, n.claim = some (ln, txt) →
      start ≤ ln ∧ (emit ℓ start b).lines[ln - start]? = some txt :=
  emit_consistent ℓ b start

def claims (ns : List ENode) : List (Nat × String) := (flatList ns).filterMap ENode.claim

def exLayout : Layout := ⟨0, 0, 3, 1, 1, 0, 0, false, 0⟩
def exDoc : List Blk :=
  [.section [.text "Title"] '=' true
    [.para [.text "alpha", .sp, .emph "beta", .nl, .text "gamma"],
     .bullet '-' [.item [.para [.text "one"]], .item [.para [.text "two"], .label "lbl"]],
     .directive "note" "" [.text "Arg"] [("class", "x", .str "x")] [.para [.text "body"]]]]

example : render exLayout exDoc =
    ["=====", "Title", "=====", "", "alpha *beta*", "gamma", "", "- one", "", "- two", "", "  .. _lbl:", "",
     ".. note:: Arg", "   :class: x", "", "   body"] := by decide

example : claims (expected exLayout exDoc) =
    [(2, "====="), (4, "alpha *beta*"), (7, "- one"), (9, "- two"), (11, "  .. _lbl:"), (13, ".. note:: Arg"),
     (16, "   body")] := by decide

/-- Character data is unchanged apart from markup delimiters and escaping backslashes: the text
nodes the oracle expects for an inline sequence (paragraph, title, term, line, directive argument)
concatenate to exactly the character data of its items, in order (adjacent pieces merged, role
targets that become attributes excluded). `fmtOk`: no role is formatted with a wrapper called "text". -/
theorem expected_text_preserved (xs : List Inl) (h : ∀ x ∈ xs, fmtOk x) :
    nodesText (inlNodes xs) = inlsText xs := by
  unfold inlNodes
  rw [clearList_text, mergeToks_text, inlNodes_text xs h]
  simp

example : nodesText (inlNodes [.text "a", .esc "*", .text "b", .sp, .emph "em", .nl,
      .role "ref" (some "Label") "tgt" ⟨"ref", "std", "label", "", "", none⟩, .sp, .literal "x\\y"]) =
    "a*b em\nLabel x\\y" := by decide

end doclang

/-! ## nesting and reading order are what the visitor's node stack builds

The AST is assembled by `JSONVisitor` with a push/pop stack. On the model of that stack (`Model/Visitor.lean`; tied to
the code by the path translator `Gen/VisitPaths.lean`, theorem `C01.visit_paths_balanced`, and by the recorded walks of
`./check C01`), for EVERY docutils tree: the node built for a docutils node holds exactly what its subtree contributes, in
document order; nodes the visitor skips contribute nothing, transparent wrappers contribute what their children do. -/
section visitor
open SnootyVerif.Visitor

/-- nesting mirrors the document: the walk equals the stack-free specification -/
theorem visitor_nesting (d : DNode) (top : T) (rest : List T) (hb : balanced d = true) (ht : termsOk top.kind d = true) :
    walk (top :: rest) d = .ok (attachAllT top (emit d) :: rest) := walk_spec d top rest hb ht

/-- reading order: nothing is reordered or duplicated -/
theorem visitor_reading_order (d : DNode) (h : plain d = true) : (idsL (emit d)).Sublist d.ids := emit_ids_sublist d h

/-- nothing is invented -/
theorem visitor_ids_from_doctree (d : DNode) (i : Nat) (h : i ∈ idsL (emit d)) : i ∈ d.ids := emit_ids_mem d i h

/-- two paragraphs under a section, the second followed by a skipped comment: ids in document order -/
example : (emit (.mk 1 1 .normal .parent false
    [.mk 2 1 .normal .parent false [.mk 3 1 .normal .leaf false []], .mk 4 0 .skipNode .parent false [],
     .mk 5 1 .normal .parent false [.mk 6 1 .normal .leaf false []]])).map T.ids = [[1, 2, 3, 5, 6]] := by decide

end visitor

end SnootyVerif.C03
