import SnootyVerif.Proofs.Ids

/-!
# C09 — Anchor ids are unique within each built page

Property theorems only. Helper lemmas live in `Proofs/Ids.lean`, the model in
`Model/Ids.lean`.
-/
namespace SnootyVerif.C09
open SnootyVerif.Ids

/-- No two headings/collapsibles (resp. targets) of one page share an id,
for *every* sequence of base ids. -/
theorem assign_nodup (bases : List String) : (assignAll bases).Nodup :=
  (assignFrom_disjoint_nodup bases bases []).2

/-- one id per heading, in order -/
theorem assign_length (bases : List String) : (assignAll bases).length = bases.length :=
  assignFrom_length bases bases []

/-- The first occurrence of every distinct base id keeps the unsuffixed id. -/
theorem assign_first_keeps (pre post : List String) (b : String) (h : b ∉ pre) :
    (assignAll (pre ++ b :: post))[pre.length]? = some b := by
  unfold assignAll
  exact assignFrom_getElem _ pre post [] b (by simp) h (by simp)

/-- Every id is the node's own base id, or that base id followed by `-k`, `k ≥ 1`. -/
theorem assign_suffix_form (reserved issued : List String) (b : String) :
    assignOne reserved issued b = b ∨ ∃ k, 1 ≤ k ∧ assignOne reserved issued b = sfx b k :=
  assignOne_form reserved issued b

/-- Footnote reference ids of a page are pairwise distinct. -/
theorem footnotes_nodup (n : Nat) : (footnotes n).Nodup := by
  unfold footnotes
  rw [List.Nodup, List.pairwise_map]
  exact List.pairwise_lt_range.imp (fun h heq => by have := footnote_inj heq; omega)

/-- `make_html5_id` never returns the empty string … -/
theorem html5id_nonempty (isWord : Char → Bool) (s : List Char) : makeHtml5Id isWord s ≠ [] := by
  unfold makeHtml5Id
  simp only
  split
  · simp [unnamed]
  · rename_i h; intro h2; simp [h2] at h

/-- … and only returns characters of the id alphabet `[\w_.-]`
(`isWord` must accept the ASCII letters of the literal "unnamed"). -/
theorem html5id_valid (isWord : Char → Bool) (hW : ∀ c ∈ unnamed, isWord c = true) (s : List Char) :
    ∀ c ∈ makeHtml5Id isWord s, validIdChar isWord c = true := by
  unfold makeHtml5Id
  simp only
  split
  · intro c hc; simp [validIdChar, hW c hc]
  · intro c hc
    simp only [List.mem_map] at hc
    obtain ⟨a, _, rfl⟩ := hc
    split
    · assumption
    · simp [validIdChar]

/-- hence no whitespace, provided `\w` matches no whitespace (checked over all code points by the harness). -/
theorem html5id_no_space (isWord isSpace : Char → Bool) (hW : ∀ c ∈ unnamed, isWord c = true)
    (hd : ∀ c, isSpace c = true → validIdChar isWord c = false) (s : List Char) :
    ∀ c ∈ makeHtml5Id isWord s, isSpace c = false := by
  intro c hc
  have := html5id_valid isWord hW s c hc
  cases h : isSpace c
  · rfl
  · rw [hd c h] at this; cases this

/-- The counter scheme used before the fix produced duplicate heading ids … -/
theorem headingsOld_refuted : ¬ (headingsOld [] ["foo", "foo", "foo-1"]).Nodup := by decide

/-- … and duplicate target ids. -/
theorem targetsOld_refuted : ¬ (targetsOld [] ["a", "a", "a"]).Nodup := by decide

/-- non-vacuity: the colliding sequence of the refutation is handled. -/
example : assignAll ["foo", "foo", "foo-1"] = ["foo", "foo-2", "foo-1"] := by decide
example : assignAll ["a", "a", "a"] = ["a", "a-1", "a-2"] := by decide

end SnootyVerif.C09
