import SnootyVerif.Gen.Schema
import SnootyVerif.Proofs.Schema
import SnootyVerif.Proofs.Visitor
import SnootyVerif.Proofs.Refs
/-!
# C04 — every emitted AST is well-formed and serialisable

`wf s strict bound a`   : the AST `a` (Python objects) is a well-formed instance of a class derived from `bound`
`wfJson s strict bound j`: the same judgement on the serialized document (this is the ORACLE the harness
                          applies to every page the real parser / postprocessor delivers)
`serialize`              : model of `Node.serialize` followed by the JSON/BSON encoder.

The three `serialize_*` theorems hold for every schema table, in particular for the generated
`Gen.schema`; the `schema_*` theorems are `decide`d on `Gen.schema` itself, so every change of the
dataclasses in `n.py` re-checks them.
-/
namespace SnootyVerif.C04
open SnootyVerif.Schema

/-- a well-formed AST serializes: `Node.serialize` does not raise and the result encodes -/
theorem serialize_total (s : Schema) (strict : Bool) (bound : String) (a : Ast)
    (h : wf s strict bound a = true) : ∃ j, serialize a = .ok j :=
  let ⟨j, hj, _⟩ := wf_ser s strict a bound h
  ⟨j, hj⟩

/-- … and the document it serializes to is well-formed (same schema, same strictness, same bound) -/
theorem serialize_wfJson (s : Schema) (strict : Bool) (bound : String) (a : Ast) (j : Json)
    (h : wf s strict bound a = true) (hj : serialize a = .ok j) : wfJson s strict bound j = true := by
  obtain ⟨j', hj', hw⟩ := wf_ser s strict a bound h
  rw [hj] at hj'
  cases hj'
  exact hw

/-- `raise NotImplementedError(field, value)` (n.py:133) happens only if the traversal of `serialize`
meets a value of a type none of its branches knows -/
theorem serialize_raises_only_on_unknown (a : Ast)
    (h : serialize a = .error .NotImplementedError) : hasUnknown a = true :=
  ser_nie a h

/-- whatever `serialize` raises, the AST was not well-formed (contrapositive of totality, any schema) -/
theorem serialize_error_not_wf (s : Schema) (strict : Bool) (bound : String) (a : Ast) (e : PyErr)
    (h : serialize a = .error e) : wf s strict bound a = false := by
  cases hw : wf s strict bound a with
  | false => rfl
  | true =>
    obtain ⟨j, hj⟩ := serialize_total s strict bound a hw
    rw [h] at hj
    cases hj

/-! ## the generated table -/

/-- `type` tags identify the class except for these documented groups
(abstract bases; inline/block substitution reference; the Directive family) -/
theorem schema_tags_distinct_or_documented :
    Gen.schema.sharedTags.map (fun t => (t, (Gen.schema.classes.filter (fun c => c.tag == t)).map (·.name)))
      = [("node", ["Node", "InlineNode"]),
         ("parent", ["InlineParent", "Parent"]),
         ("substitution_reference", ["SubstitutionReference", "BlockSubstitutionReference"]),
         ("directive", ["Directive", "TocTreeDirective", "ComposableDirective", "ComposableContent"])] := by
  decide

/-- every child rule and every MRO entry names a class of the table -/
theorem schema_child_rules_closed : Gen.schema.closed = true := by decide

/-- class names distinct; field names distinct per class and different from the keys `serialize`
writes itself (`type`, `position`) — the assumption under which the model appends instead of assigning -/
theorem schema_names_ok : Gen.schema.namesOk = true := by decide

/-- every class of the published contract is still there with its published `type` tag -/
theorem schema_tags_pinned : Gen.schema.renamed = [] := by decide

def childBound (cls : String) : Option Kind :=
  (Gen.schema.find cls).bind (fun c => c.kindOf "children")

/-- the containment rules of the property are what the dataclasses declare -/
theorem schema_containment_rules :
    -- every class derived from InlineParent holds inline children only
    (Gen.schema.classes.all (fun c => !c.mro.contains "InlineParent" || c.kindOf "children" == some (.nodes "InlineNode"))) = true
    ∧ childBound "Heading" = some (.nodes "InlineNode")
    ∧ childBound "Line" = some (.nodes "InlineNode")
    ∧ childBound "DirectiveArgument" = some (.nodes "InlineNode")
    ∧ childBound "SubstitutionDefinition" = some (.nodes "InlineNode")
    ∧ childBound "ListNode" = some (.nodes "ListNodeItem")
    ∧ childBound "DefinitionList" = some (.nodes "DefinitionListItem")
    ∧ childBound "FieldList" = some (.nodes "Field")
    ∧ childBound "LineBlock" = some (.nodes "Line")
    ∧ (Gen.schema.find "DefinitionListItem").bind (fun c => c.kindOf "term") = some (.nodes "InlineNode")
    ∧ (Gen.schema.find "_DefinitionListTerm").map (·.internal) = some true
    ∧ (Gen.schema.find "RefRole").map (·.oneOf) = some ["fileid", "url"]
    ∧ (Gen.schema.classes.filter (·.internal)).map (·.name) = ["_DefinitionListTerm"] := by
  decide

/-! ## non-vacuity: concrete ASTs -/

def sp (l : Int) : Val := .tuple (.cons (.int l) .nil)
def vl : List Val → Vals
  | [] => .nil
  | x :: xs => .cons x (vl xs)
def fl : List (String × Val) → Flds
  | [] => .nil
  | (k, v) :: xs => .cons k v (fl xs)
def text (l : Int) (s : String) : Val := .node (.mk "Text" "text" (sp l) (fl [("value", .str s)]))
def refRole (dest : Val) : Val :=
  .node (.mk "RefRole" "ref_role" (sp 3)
    (fl [("children", .list (vl [text 3 "x"])), ("domain", .str "std"), ("name", .str "label"),
         ("target", .str "a"), ("flag", .str ""), ("fileid", dest), ("url", .none)]))
def para (cs : List Val) : Val := .node (.mk "Paragraph" "paragraph" (sp 3) (fl [("children", .list (vl cs))]))
def root (cs : List Val) : Ast :=
  .mk "Root" "root" (sp 0) (fl [("children", .list (vl cs)), ("fileid", .fileid "index.txt"), ("options", .dict .nil)])

/-- heading, paragraph with a resolved ref_role, an enumerated list, a definition list with a term -/
def goodPage : Ast := root [
  .node (.mk "Section" "section" (sp 1) (fl [("children", .list (vl [
    .node (.mk "Heading" "heading" (sp 1) (fl [("children", .list (vl [text 1 "T"])), ("id", .str "t")])),
    para [text 3 "see ", refRole (.tuple (vl [.str "index", .str "std-label-a"]))],
    .node (.mk "ListNode" "list" (sp 5) (fl [
      ("children", .list (vl [.node (.mk "ListNodeItem" "listItem" (sp 5) (fl [("children", .list (vl [para [text 5 "i"]]))]))])),
      ("enumtype", .enum "arabic"), ("startat", .int 3)])),
    .node (.mk "DefinitionList" "definitionList" (sp 7) (fl [("children", .list (vl [
      .node (.mk "DefinitionListItem" "definitionListItem" (sp 7)
        (fl [("children", .list (vl [para [text 8 "d"]])), ("term", .list (vl [text 7 "term"]))]))]))]))
  ]))]))]

example : wf Gen.schema true "Root" goodPage = true := by decide
example : (match serialize goodPage with | .ok j => wfJson Gen.schema true "Root" j | .error _ => false) = true := by
  decide

/-- an unresolved ref_role: accepted after parse alone, rejected in postprocessed output -/
def unresolvedPage : Ast := root [para [refRole .none]]
example : wf Gen.schema false "Root" unresolvedPage = true := by decide
example : wf Gen.schema true "Root" unresolvedPage = false := by decide
example : (match serialize unresolvedPage with | .ok j => wfJson Gen.schema false "Root" j | .error _ => false) = true := by
  decide
example : (match serialize unresolvedPage with | .ok j => wfJson Gen.schema true "Root" j | .error _ => true) = false := by
  decide

/-- a block node under an inline parent, an escaped bookkeeping node, a list holding a paragraph:
each serializes but is rejected by `wfJson` -/
def blockInInline : Ast := root [para [
  .node (.mk "Emphasis" "emphasis" (sp 1) (fl [("children", .list (vl [para [text 1 "x"]]))]))]]
def escapedTerm : Ast := root [para [
  .node (.mk "_DefinitionListTerm" "definition_list_term" (sp 1) (fl [("children", .list (vl [text 1 "x"]))]))]]
def listOfPara : Ast := root [
  .node (.mk "ListNode" "list" (sp 5) (fl [("children", .list (vl [para [text 5 "i"]])),
    ("enumtype", .enum "unordered"), ("startat", .none)]))]
example : (match serialize blockInInline with | .ok j => wfJson Gen.schema false "Root" j | .error _ => true) = false := by
  decide
example : (match serialize escapedTerm with | .ok j => wfJson Gen.schema false "Root" j | .error _ => true) = false := by
  decide
example : (match serialize listOfPara with | .ok j => wfJson Gen.schema false "Root" j | .error _ => true) = false := by
  decide

/-- a field value of a type `serialize` does not know (a set): NotImplementedError, and `hasUnknown` sees it -/
def withSet : Ast := root [.node (.mk "Code" "code" (sp 1) (fl [
  ("lang", .none), ("caption", .none), ("copyable", .bool true), ("emphasize_lines", .other "set"),
  ("value", .str "x"), ("linenos", .bool false), ("lineno_start", .none), ("source", .none)]))]
example : serialize withSet = .error .NotImplementedError := rfl
example : hasUnknown withSet = true := by decide
example : wf Gen.schema false "Root" withSet = false := by decide

/-- a node without a start line: `self.span[0]` raises -/
example : serialize (.mk "Transition" "transition" (.tuple .nil) .nil) = .error .IndexError := rfl
example : serialize (.mk "Transition" "transition" .none .nil) = .error .TypeError := rfl

/-! ## bookkeeping nodes do not escape the visitor

`_DefinitionListTerm` is pushed for a docutils `term` and must be consumed by the departure (its children become
`DefinitionListItem.term`). On the model of the visitor's node stack (`Model/Visitor.lean`, tied to the code by the
path translator and the recorded walks of `./check C01`): whenever terms are handed to definition list items only, the tree
the walk returns contains no node of that kind anywhere — neither among children nor inside a `term` list. -/
section
open SnootyVerif.Visitor

theorem visitor_no_stray_term (id : Nat) (kind : AKind) (cs : List DNode) (hk : kind ≠ .term)
    (hb : balancedL cs = true) (ht : termsOkL kind cs = true) :
    ∃ t, walkDoc (.mk id 1 .normal kind false cs) = .ok t ∧ t.clean = true :=
  ⟨_, walkDoc_spec id kind cs hb ht, spec_clean id kind cs hk ht⟩

/-- a definition list item whose term holds text: the term node itself is gone, its text is in `term` -/
example : (walkDoc (.mk 0 1 .normal .parent false [.mk 1 1 .normal .dlItem false
    [.mk 2 1 .normal .term false [.mk 3 1 .normal .leaf false []], .mk 4 1 .normal .parent false []]])).toOption.map
      (fun t => (t.clean, t.cs.map (fun c => (c.term.map T.id, c.cs.map T.id)))) = some (true, [([3], [4])]) := by decide

end

/-! ### a cross-reference carries a destination or the page has a diagnostic for it -/
section RefDestination
open SnootyVerif SnootyVerif.Targets SnootyVerif.Refs

/-- **Every cross-reference role that `RefsHandler` processes either carries a destination or is reported.** For every
target database, every loaded inventory, every reference other than `:doc:` (whose destination is its `fileid`, attached
by `_attach_doc_title`): the node leaves pass 5 with `fileid`+html id or a `url`, or a target-not-found diagnostic was
appended to the page's diagnostics. There is no third outcome (model of `RefsHandler.enter_node`, tied to the code by the
C08 correspondence). -/
theorem refrole_destination (P : Params) (db : Db) (invs : List Inventory) (root : String) (r : Ref) (o : RefOut)
    (hdoc : ¬ (r.domain = stdS ∧ r.role = docS)) (h : resolveRef P db invs root r = .ok o) :
    o.dest ≠ .none ∨ ∃ d ∈ o.diags, d = Diag.notFound r.role r.target := by
  unfold resolveRef at h
  rw [if_neg hdoc] at h
  simp only at h
  split at h
  · -- no candidate: reported
    cases h
    exact Or.inr ⟨_, by simp, rfl⟩
  · split at h
    · cases h
    · rename_i res hres
      left
      have hd : res.dest ≠ Dest.none := by cases res <;> simp [Result.dest]
      split at h <;> (cases h; exact hd)

end RefDestination

end SnootyVerif.C04
