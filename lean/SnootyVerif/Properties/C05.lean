import SnootyVerif.Proofs.Determinism

/-!
# C05 — Builds are deterministic and reproducible

Property theorems for the order-normalising kernels (model: `Model/Determinism.lean`, helper
lemmas: `Proofs/Determinism.lean`). A Python `set` is a list in *enumeration order*; "the
result does not depend on hash randomisation / arrival order" is invariance under `List.Perm`.
The cross-process part of the property is checked by differential execution (harness).
-/
namespace SnootyVerif.C05
open SnootyVerif.Determinism

/-! ### PageDatabase snapshot -/

/-- The pages handed to the postprocessor do not depend on the order in which the parser
workers delivered them (every page delivered once: distinct keys). -/
theorem snapshot_perm_invariant {κ π : Type} [DecidableEq κ] {le : κ → κ → Bool} (h : LinOrd le)
    {arrivals₁ arrivals₂ : List (κ × π)} (hp : arrivals₁.Perm arrivals₂)
    (hn : (arrivals₁.map Prod.fst).Nodup) :
    snapshotOf le arrivals₁ = snapshotOf le arrivals₂ := by
  have hn2 : (arrivals₂.map Prod.fst).Nodup := (hp.map Prod.fst).nodup_iff.mp hn
  unfold snapshotOf
  rw [lastWins_of_nodup _ hn, lastWins_of_nodup _ hn2]
  exact isort_key_eq_of_perm Prod.fst h hp hn

/-- … and they are in ascending key order, whatever the arrival order. -/
theorem snapshot_sorted {κ π : Type} [DecidableEq κ] {le : κ → κ → Bool} (h : LinOrd le)
    (arrivals : List (κ × π)) :
    (snapshotOf le arrivals).Pairwise (fun a b => le a.1 b.1 = true) :=
  pairwise_isort (le := keyLe Prod.fst le) (fun a b => h.total a.1 b.1) (fun a b c => h.trans a.1 b.1 c.1) _

/-- A page delivered again replaces the earlier delivery (dict semantics): with a repeated
key the later value wins, independently of where the other pages arrive. -/
theorem snapshot_last_wins_example :
    snapshotOf pathLe [([[98]], 1), ([[97]], 2), ([[98]], 3)] = [([[97]], 2), ([[98]], 3)] := by decide

example : snapshotOf pathLe [([[98]], "b"), ([[97], [120]], "a/x"), ([[97]], "a")]
        = snapshotOf pathLe [([[97]], "a"), ([[98]], "b"), ([[97], [120]], "a/x")] :=
  snapshot_perm_invariant pathLe_linOrd (by decide) (by decide)

/-- General form (a key may be delivered several times, the last delivery wins): swapping two
*adjacent deliveries of different pages* — the only reordering the worker pool can cause while
keeping each page's own deliveries in order — never changes the snapshot. Every interleaving that
preserves the per-page order is reachable by such swaps. -/
theorem snapshot_swap_invariant {κ π : Type} [DecidableEq κ] {le : κ → κ → Bool} (h : LinOrd le)
    (pre post : List (κ × π)) (a b : κ × π) (hne : a.1 ≠ b.1) :
    snapshotOf le (pre ++ a :: b :: post) = snapshotOf le (pre ++ b :: a :: post) := by
  unfold snapshotOf lastWins
  have hs := foldl_swap_perm (fun acc (kv : κ × π) => upsert kv.1 kv.2 acc)
    (fun e a₁ a₂ hp hn => by simpa only [upsert_eq_updAt] using updAt_perm _ e.1 hp hn)
    (fun e a hn => by simpa only [upsert_eq_updAt] using nodup_keys_updAt _ e.1 a hn)
    a b (fun acc => by simpa only [upsert_eq_updAt] using updAt_comm _ _ hne acc) pre post
  exact isort_key_eq_of_perm Prod.fst h hs.1 hs.2

example : snapshotOf pathLe ([([[98]], 1)] ++ ([[97]], 2) :: ([[98]], 3) :: [([[97]], 4)])
        = snapshotOf pathLe ([([[98]], 1)] ++ ([[98]], 3) :: ([[97]], 2) :: [([[97]], 4)]) :=
  snapshot_swap_invariant pathLe_linOrd _ _ _ _ (by decide)

/-! ### output manifest -/

/-- The uploadable assets of a page are emitted in an order that does not depend on how the
`static_assets` set is enumerated (asset keys of one page are distinct). -/
theorem manifest_perm_invariant {κ π : Type} {le : κ → κ → Bool} (h : LinOrd le)
    {enum₁ enum₂ : List (κ × Bool × π)} (hp : enum₁.Perm enum₂) (hn : (enum₁.map Prod.fst).Nodup) :
    manifestAssets le enum₁ = manifestAssets le enum₂ := by
  unfold manifestAssets
  refine isort_key_eq_of_perm Prod.fst h (hp.filter _) ?_
  exact List.Nodup.sublist ((List.filter_sublist).map Prod.fst) hn

/-- The same for the page's asset SET as the code holds it: members differ in their file ids (set identity), the
spelling under which the page refers to them may coincide; the order written to the page's document does not depend
on how the set is enumerated. -/
theorem manifest_set_invariant {π : Type} {enum₁ enum₂ : List (Asset π)} (hp : enum₁.Perm enum₂)
    (hn : (enum₁.map (fun a => a.2.1)).Nodup) :
    manifestOfSet enum₁ = manifestOfSet enum₂ := by
  unfold manifestOfSet
  refine manifest_perm_invariant pathLe_linOrd (hp.map _) ?_
  rw [List.map_map]
  have : ∀ l : List (Asset π), (l.map (fun a => a.2.1)).Nodup →
      (l.map (Prod.fst ∘ fun a : Asset π => (assetSortKey a.1 a.2.1, a.2.2.1, a.2.2.2))).Nodup := by
    intro l
    induction l with
    | nil => intro _; simp
    | cons a l ih =>
      intro h
      rw [List.map_cons, List.nodup_cons] at h
      rw [List.map_cons, List.nodup_cons]
      refine ⟨?_, ih h.2⟩
      intro hm
      apply h.1
      rcases List.mem_map.mp hm with ⟨b, hb, hEq⟩
      refine List.mem_map.mpr ⟨b, hb, ?_⟩
      simp only [Function.comp, assetSortKey] at hEq
      injection hEq with _ h2
      injection h2
  exact this _ hn

/-- The code before the repair sorted by the spelling alone: two files under one spelling came out in the order the
set happened to enumerate them (string hashing). -/
theorem manifest_key_only_refuted :
    ∃ e₁ e₂ : List (Asset Nat), e₁.Perm e₂ ∧ (e₁.map (fun a => a.2.1)).Nodup ∧
      manifestOfSetKeyOnly e₁ ≠ manifestOfSetKeyOnly e₂ :=
  ⟨[([112], [97, 47, 112], true, 1), ([112], [98, 47, 112], true, 2)],
   [([112], [98, 47, 112], true, 2), ([112], [97, 47, 112], true, 1)],
   List.Perm.swap _ _ _, by decide, by decide⟩

example : manifestOfSet [([112], [97, 47, 112], true, 1), ([112], [98, 47, 112], true, 2)]
        = manifestOfSet [([112], [98, 47, 112], true, 2), ([112], [97, 47, 112], true, 1)] :=
  manifest_set_invariant (List.Perm.swap _ _ _) (by decide)

/-- The `diagnostics/<file>.bson` entries are written in an order that does not depend on the
order in which the files reported (each file reporting once). -/
theorem manifest_diagnostics_perm_invariant {κ δ : Type} [DecidableEq κ] {le : κ → κ → Bool} (h : LinOrd le)
    {ev₁ ev₂ : List (κ × List δ)} (hp : ev₁.Perm ev₂) (hn : (ev₁.map Prod.fst).Nodup) :
    manifestDiagnostics le ev₁ = manifestDiagnostics le ev₂ := by
  have hn2 : (ev₂.map Prod.fst).Nodup := (hp.map Prod.fst).nodup_iff.mp hn
  unfold manifestDiagnostics
  rw [foldl_extendAt_fresh ev₁ [] (by simpa using hn), foldl_extendAt_fresh ev₂ [] (by simpa using hn2)]
  simp only [List.nil_append]
  refine isort_key_eq_of_perm Prod.fst h (hp.filter _) ?_
  exact List.Nodup.sublist ((List.filter_sublist).map Prod.fst) hn

/-- General form (a file reports several times: parse, postprocess, assets): swapping two adjacent
reports of *different files* never changes the manifest entries — in particular the order of the
diagnostics *within* each file's entry is the order in which that file reported them. -/
theorem manifest_diagnostics_swap_invariant {κ δ : Type} [DecidableEq κ] {le : κ → κ → Bool} (h : LinOrd le)
    (pre post : List (κ × List δ)) (e₁ e₂ : κ × List δ) (hne : e₁.1 ≠ e₂.1) :
    manifestDiagnostics le (pre ++ e₁ :: e₂ :: post) = manifestDiagnostics le (pre ++ e₂ :: e₁ :: post) := by
  unfold manifestDiagnostics
  have hs := foldl_swap_perm
    (fun acc (e : κ × List δ) => if e.2.isEmpty then acc else extendAt e.1 e.2 acc)
    (fun e a₁ a₂ hp hn => by
      rcases he : e.2.isEmpty with _ | _
      · simpa only [Bool.false_eq_true, if_false, extendAt_eq_updAt] using updAt_perm _ e.1 hp hn
      · simpa only [if_true] using hp)
    (fun e a hn => by
      rcases he : e.2.isEmpty with _ | _
      · simpa only [Bool.false_eq_true, if_false, extendAt_eq_updAt] using nodup_keys_updAt _ e.1 a hn
      · simpa only [if_true] using hn)
    e₁ e₂
    (fun acc => by
      rcases h1 : e₁.2.isEmpty with _ | _ <;> rcases h2 : e₂.2.isEmpty with _ | _
      · simpa only [Bool.false_eq_true, if_false, extendAt_eq_updAt] using updAt_comm _ _ hne acc
      · simp only [Bool.false_eq_true, if_true, if_false]; exact List.Perm.refl _
      · simp only [Bool.false_eq_true, if_true, if_false]; exact List.Perm.refl _
      · simp only [if_true]; exact List.Perm.refl _)
    pre post
  exact isort_key_eq_of_perm Prod.fst h hs.1 hs.2

example : manifestDiagnostics pathLe ([([[98]], ["e1"])] ++ ([[97]], ["e2"]) :: ([[98]], ["e3"]) :: [])
        = manifestDiagnostics pathLe ([([[98]], ["e1"])] ++ ([[98]], ["e3"]) :: ([[97]], ["e2"]) :: []) :=
  manifest_diagnostics_swap_invariant pathLe_linOrd _ _ _ _ (by decide)

/-- entries come out in ascending key order for *every* event sequence -/
theorem manifest_diagnostics_sorted {κ δ : Type} [DecidableEq κ] {le : κ → κ → Bool} (h : LinOrd le)
    (ev : List (κ × List δ)) :
    (manifestDiagnostics le ev).Pairwise (fun a b => le a.1 b.1 = true) :=
  pairwise_isort (le := keyLe Prod.fst le) (fun a b => h.total a.1 b.1) (fun a b c => h.trans a.1 b.1 c.1) _

example : manifestAssets pathLe [([[98]], true, 0), ([[99]], false, 1), ([[97]], true, 2)]
        = manifestAssets pathLe [([[97]], true, 2), ([[98]], true, 0), ([[99]], false, 1)] :=
  manifest_perm_invariant pathLe_linOrd (by decide) (by decide)

example : manifestDiagnostics pathLe [([[98]], ["e1"]), ([[97]], []), ([[97]], ["e2"]), ([[98]], ["e3"])]
        = [([[97]], ["e2"]), ([[98]], ["e1", "e3"])] := by decide

/-! ### structural hash -/

/-- Fixed `structural_hash`: the digest of a set depends on its member digests only as a
multiset — for every hash function `H` (compositional form: holds at any nesting depth). -/
theorem shash_set_digest_perm_invariant (H : List Nat → List Nat) {xs ys : List HVal}
    {dx dy : List (List Nat)} (hx : memberDigests (isort bytesLe) H xs = .ok dx)
    (hy : memberDigests (isort bytesLe) H ys = .ok dy) (hp : dx.Perm dy) :
    shash H (.set xs) = shash H (.set ys) := by
  have hl : xs.length = ys.length := by
    rw [← memberDigests_length _ _ xs dx hx, ← memberDigests_length _ _ ys dy hy]; exact hp.length_eq
  unfold shash
  rw [shashW, shashW, hx, hy, hl]
  simp only [isort_eq_of_perm_linOrd bytesLe_linOrd hp]

/-- Fixed `structural_hash`: two enumeration orders of the same set hash equal (digest or
`TypeError` alike), for every hash function `H`. -/
theorem shash_set_perm_invariant (H : List Nat → List Nat) {xs ys : List HVal} (hp : xs.Perm ys) :
    shash H (.set xs) = shash H (.set ys) := by
  rcases memberDigests_perm (isort bytesLe) H hp with ⟨e, h1, h2⟩ | ⟨a, b, h1, h2, h3⟩
  · unfold shash; rw [shashW, shashW, h1, h2]
  · exact shash_set_digest_perm_invariant H h1 h2 h3

/-- `structural_hash` before the fix: with an injective (free) hash, the two enumeration orders of
the set `{"a", "b"}` give different digests — the cache file name depends on PYTHONHASHSEED. -/
theorem shash_set_order_refuted :
    ∃ xs ys : List HVal, xs.Perm ys ∧ shashCur freeHash (.set xs) ≠ shashCur freeHash (.set ys) :=
  ⟨[.prim [97], .prim [98]], [.prim [98], .prim [97]], List.Perm.swap _ _ _, by decide⟩

/-- sequences stay order-sensitive after the fix (the fix does not over-normalise) -/
theorem shash_seq_order_sensitive :
    shash freeHash (.seq [.prim [97], .prim [98]]) ≠ shash freeHash (.seq [.prim [98], .prim [97]]) := by decide

/-- non-vacuity: a nested value with a set inside a record inside a set; a `nohash` field holding an
unhashable object is skipped; an unhashable member raises in both orders. -/
example : shash freeHash (.set [.record [.mk [115] false (.set [.prim [49], .enum [69, 46, 120]])], .none])
        = shash freeHash (.set [.none, .record [.mk [115] false (.set [.enum [69, 46, 120], .prim [49]])]]) := by decide
example : shash freeHash (.record [.mk [98] true .other, .mk [97] false (.prim [49])])
        = .ok [79, 50, 32, 70, 49, 32, 97, 80, 49] := by decide
example : shash freeHash (.set [.other, .none]) = .error .typeError ∧
          shash freeHash (.set [.none, .other]) = .error .typeError := by decide

/-! ### diagnostics that print a collection -/

/-- Fixed message: independent of the enumeration order of the missing-options set. -/
theorem missingOptionsMsg_perm_invariant (name : List Char) {e₁ e₂ : List (List Char)} (hp : e₁.Perm e₂) :
    missingOptionsMsg name e₁ = missingOptionsMsg name e₂ := by
  unfold missingOptionsMsg
  rw [isort_eq_of_perm_linOrd strLe_linOrd hp]

/-- Before the fix the text depended on the enumeration order. -/
theorem missingOptionsMsgCur_refuted :
    ∃ e₁ e₂ : List (List Char), e₁.Perm e₂ ∧ missingOptionsMsgCur ['d'] e₁ ≠ missingOptionsMsgCur ['d'] e₂ :=
  ⟨[['a'], ['b']], [['b'], ['a']], List.Perm.swap _ _ _, by decide⟩

example : String.ofList (missingOptionsMsg ['d'] [['b'], ['a']]) = "\"d\" requires the following options: a, b" := by
  decide

/-- Fixed `check_valid_child` text: independent of the enumeration order of the expected-children set. -/
theorem expectedChildrenStr_perm_invariant (quote : List Char → List Char) {e₁ e₂ : List (List Char)}
    (hp : e₁.Perm e₂) : expectedChildrenStr quote e₁ = expectedChildrenStr quote e₂ := by
  have hs := isort_eq_of_perm_linOrd strLe_linOrd hp
  match e₁, e₂, hp, hs with
  | [], e₂, hp, _ => rw [List.nil_perm.mp hp]
  | [x], e₂, hp, _ => rw [List.singleton_perm.mp hp]
  | x :: y :: r, [], hp, _ => exact absurd hp.symm (by simp)
  | x :: y :: r, [z], hp, _ => exact absurd hp.length_eq (by simp)
  | x :: y :: r, z :: w :: r', _, hs => simp only [expectedChildrenStr, hs]

theorem expectedChildrenStrCur_refuted :
    ∃ e₁ e₂ : List (List Char), e₁.Perm e₂ ∧
      expectedChildrenStrCur (fun s => s) e₁ ≠ expectedChildrenStrCur (fun s => s) e₂ :=
  ⟨[['a'], ['b']], [['b'], ['a']], List.Perm.swap _ _ _, by decide⟩

example : expectedChildrenStr (fun s => ['\''] ++ s ++ ['\'']) [['o'], ['d']] = "{'d', 'o'}".toList := by decide

end SnootyVerif.C05
