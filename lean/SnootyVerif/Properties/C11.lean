import SnootyVerif.Proofs.Cache

/-!
# C11 — The parse cache is transparent: cached builds equal clean builds

Model in `Model/Cache.lean`, helper lemmas in `Proofs/Cache.lean`.

The main theorem REDUCES transparency (for every initial disk content and every history of edits)
to one obligation on the parser, `DepsCoverReads`: every path whose content or existence a parse
looked at is recorded in `page.dependencies` (paths found missing included). That obligation is
checked on the implementation by the harness (audited file access of every generated parse), and
`transparency_needs_deps` shows it cannot be dropped.
-/
namespace SnootyVerif.C11
open SnootyVerif.Cache

deriving instance DecidableEq for Except

section
variable {Page H K : Type} [DecidableEq H] [DecidableEq K]

/-- TRANSPARENCY. For every parser obeying its footprint law and recording everything it reads,
and collision-free `srcKey` (on sources that read cleanly) / `hash`: a cache saved after building the pages `ps₀` of disk `e₀`,
used after ANY history of writes / creations / deletions, on ANY list of source files `ps` found
then, yields exactly the clean build (same pages and diagnostics, or the same error). -/
theorem cache_transparent (srcKey : Bytes → K × Bool) (hash : Bytes → H)
    (hK : KeyInjective srcKey) (hH : Function.Injective hash)
    (P : ParseFn Page) (hdeps : DepsCoverReads P)
    (spec : List String) (e₀ : Env) (ps₀ : List FileId) (history : List Edit) (ps : List FileId) :
    buildWithCache srcKey hash P (saveAt srcKey hash P spec e₀ ps₀) (applyHistory e₀ history) ps
      = buildClean P (applyHistory e₀ history) ps := by
  unfold buildWithCache buildClean
  exact mapM_congr_fun _ _
    (stepCached_eq srcKey hash hK hH P hdeps _ e₀ _ (saveAt_sound srcKey hash P spec e₀ ps₀)) ps

/-- A hit implies: the source key matches the key the entry is stored under, the entry unpickled,
it is cacheable, a source that was read with diagnostics is itself among the recorded dependencies,
and EVERY recorded dependency is readable now with exactly the recorded hash. -/
theorem hit_requires_all_deps (srcKey : Bytes → K × Bool) (hash : Bytes → H) (c : CacheData Page H K)
    (e : Env) (p : FileId) (pg : Page) (h : lookup srcKey hash c e p = .ok (some pg)) :
    ∃ b ent ds, e p = some b ∧
      find (p, (srcKey b).1) c.pages = some (some ent) ∧ ent.page = pg ∧
      ent.deps = some ds ∧ ((srcKey b).2 = true ∨ ∃ d ∈ ds, d.1 = p) ∧
      ∀ d ∈ ds, ∃ b', e d.1 = some b' ∧ d.2 = some (hash b') := by
  unfold lookup at h
  cases hp : e p with
  | none => rw [hp] at h; simp at h
  | some b =>
    rw [hp] at h
    simp only at h
    cases hf : find (p, (srcKey b).1) c.pages with
    | none => rw [hf] at h; simp at h
    | some o =>
      rw [hf] at h
      cases o with
      | none => simp at h
      | some ent =>
        simp only at h
        by_cases hg : (srcKey b).2 = false ∧ selfDep p ent.deps = false
        · rw [if_pos hg] at h; simp at h
        · rw [if_neg hg] at h
          by_cases hc : checkCache hash e ent.deps = true
          · simp [hc] at h
            cases hd : ent.deps with
            | none => rw [hd] at hc; simp [checkCache] at hc
            | some ds =>
              refine ⟨b, ent, ds, rfl, hf, h, hd, ?_, ?_⟩
              · cases h1 : (srcKey b).2 with
                | true => exact Or.inl rfl
                | false =>
                  right
                  cases h2 : selfDep p ent.deps with
                  | false => exact absurd ⟨h1, h2⟩ hg
                  | true =>
                    rw [hd] at h2
                    simpa [selfDep] using h2
              · rw [hd] at hc
                simp only [checkCache, List.all_eq_true] at hc
                intro d hdm
                have := hc d hdm
                unfold depOk at this
                cases hb : e d.1 with
                | none => rw [hb] at this; simp at this
                | some b' =>
                  rw [hb] at this
                  exact ⟨b', rfl, by simpa using this⟩
          · simp [hc] at h

/-- `dependencies = None` (mark_uncacheable), entries that fail to unpickle, and a source read with
diagnostics against an entry without self-dependency never hit. -/
theorem uncacheable_or_corrupt_entry_misses (srcKey : Bytes → K × Bool) (hash : Bytes → H)
    (c : CacheData Page H K) (e : Env) (p : FileId) (b : Bytes) (hp : e p = some b)
    (h : find (p, (srcKey b).1) c.pages = some none ∨
         ∃ ent, find (p, (srcKey b).1) c.pages = some (some ent) ∧
           (ent.deps = none ∨ ((srcKey b).2 = false ∧ selfDep p ent.deps = false))) :
    lookup srcKey hash c e p = .ok none := by
  unfold lookup
  rw [hp]
  rcases h with h | ⟨ent, h, hd | hd⟩
  · simp [h]
  · simp [h, hd, checkCache, selfDep]
  · simp [h, hd]

/-- The specifier determines version, config and spec (given collision-free structural hashes). -/
theorem specifier_injective {Cfg Spec : Type} (hc : Cfg → String) (hs : Spec → String)
    (hcI : Function.Injective hc) (hsI : Function.Injective hs)
    (v v' : String) (cfg cfg' : Cfg) (s s' : Spec)
    (h : specifier v hc hs cfg s = specifier v' hc hs cfg' s') : v = v' ∧ cfg = cfg' ∧ s = s' := by
  simp only [specifier, List.cons.injEq, and_true] at h
  exact ⟨h.1, hcI h.2.1, hsI h.2.2⟩

/-- SPECIFIER GUARD. A cache file whose specifier differs from the current one (other version, config
or spec) is ignored as a whole: the build equals the clean build whatever the file holds. -/
theorem specifier_guard (srcKey : Bytes → K × Bool) (hash : Bytes → H) (P : ParseFn Page)
    (decode : Bytes → Option (CacheData Page H K)) (cur : List String) (b : Bytes)
    (d : CacheData Page H K) (hd : decode b = some d) (hne : d.specifier ≠ cur)
    (e : Env) (ps : List FileId) :
    loadFile decode cur b = none ∧
    buildWithCache srcKey hash P (readCache decode cur (some b)) e ps = buildClean P e ps := by
  have h1 : loadFile decode cur b = none := by simp [loadFile, hd, hne]
  refine ⟨h1, ?_⟩
  unfold buildWithCache buildClean readCache
  simp only [h1]
  exact mapM_congr_fun _ _ (stepCached_empty srcKey hash P cur e) ps

/-- CORRUPTION. `loadFile` is total (an `Option`, it cannot raise); a file it rejects -- truncated,
overwritten, not a gzip, not a pickle of a `CacheData` -- and a missing file give the clean build. -/
theorem corrupt_cache_harmless (srcKey : Bytes → K × Bool) (hash : Bytes → H) (P : ParseFn Page)
    (decode : Bytes → Option (CacheData Page H K)) (cur : List String) (file : Option Bytes)
    (h : ∀ b, file = some b → loadFile decode cur b = none) (e : Env) (ps : List FileId) :
    buildWithCache srcKey hash P (readCache decode cur file) e ps = buildClean P e ps := by
  unfold buildWithCache buildClean readCache
  cases file with
  | none => exact mapM_congr_fun _ _ (stepCached_empty srcKey hash P cur e) ps
  | some b =>
    simp only [h b rfl]
    exact mapM_congr_fun _ _ (stepCached_empty srcKey hash P cur e) ps

/-- END TO END through the cache FILE. The parser depends on (version, config, spec) `w`; the file
was written by `create-cache` under `w₀` on disk `e₀`; it is read under ANY `w` after ANY history.
Whatever the file decodes to under a different specifier is irrelevant; under the same specifier
`decode` returns what was persisted (pickle/gzip round trip, assumed). -/
theorem cache_file_transparent {Cfg Spec : Type} (srcKey : Bytes → K × Bool) (hash : Bytes → H)
    (hK : KeyInjective srcKey) (hH : Function.Injective hash)
    (hc : Cfg → String) (hs : Spec → String)
    (hcI : Function.Injective hc) (hsI : Function.Injective hs)
    (P : String → Cfg → Spec → ParseFn Page) (hdeps : ∀ v c s, DepsCoverReads (P v c s))
    (encode : CacheData Page H K → Bytes) (decode : Bytes → Option (CacheData Page H K))
    (hround : ∀ d, decode (encode d) = some d)
    (v₀ v : String) (c₀ c : Cfg) (s₀ s : Spec)
    (e₀ : Env) (ps₀ : List FileId) (history : List Edit) (ps : List FileId) :
    buildWithCache srcKey hash (P v c s)
        (readCache decode (specifier v hc hs c s)
          (some (encode (saveAt srcKey hash (P v₀ c₀ s₀) (specifier v₀ hc hs c₀ s₀) e₀ ps₀))))
        (applyHistory e₀ history) ps
      = buildClean (P v c s) (applyHistory e₀ history) ps := by
  by_cases hspec : specifier v₀ hc hs c₀ s₀ = specifier v hc hs c s
  · obtain ⟨hv, hcfg, hsp⟩ := specifier_injective hc hs hcI hsI _ _ _ _ _ _ hspec
    subst hv; subst hcfg; subst hsp
    have : readCache decode (specifier v₀ hc hs c₀ s₀)
        (some (encode (saveAt srcKey hash (P v₀ c₀ s₀) (specifier v₀ hc hs c₀ s₀) e₀ ps₀)))
        = saveAt srcKey hash (P v₀ c₀ s₀) (specifier v₀ hc hs c₀ s₀) e₀ ps₀ := by
      simp [readCache, loadFile, hround, saveAt]
    rw [this]
    exact cache_transparent srcKey hash hK hH _ (hdeps _ _ _) _ e₀ ps₀ history ps
  · exact (specifier_guard srcKey hash (P v c s) decode _ _ _ (hround _)
      (by simpa [saveAt] using hspec) _ ps).2

/-- END TO END with `nohash` fields. `structural_hash` skips dataclass fields marked `nohash`, so the config hash is a
collision-free hash of a PROJECTION `π` of the configuration, not of all of it; the parser reads the configuration through
another projection `ρ` (the fields a parse looks at). Transparency holds for every configuration edit and every history
provided every field a parse reads is hashed: `π c = π c' → ρ c = ρ c'` (checked on the implementation by the
configuration-read audit: the ProjectConfig fields read during parsing vs. the `nohash` metadata). -/
theorem cache_file_transparent_nohash {Cfg CfgH CfgR Spec : Type} (srcKey : Bytes → K × Bool) (hash : Bytes → H)
    (hK : KeyInjective srcKey) (hH : Function.Injective hash)
    (π : Cfg → CfgH) (ρ : Cfg → CfgR) (hcover : ∀ c c', π c = π c' → ρ c = ρ c')
    (hc : CfgH → String) (hs : Spec → String)
    (hcI : Function.Injective hc) (hsI : Function.Injective hs)
    (P : String → CfgR → Spec → ParseFn Page) (hdeps : ∀ v c s, DepsCoverReads (P v c s))
    (encode : CacheData Page H K → Bytes) (decode : Bytes → Option (CacheData Page H K))
    (hround : ∀ d, decode (encode d) = some d)
    (v₀ v : String) (c₀ c : Cfg) (s₀ s : Spec)
    (e₀ : Env) (ps₀ : List FileId) (history : List Edit) (ps : List FileId) :
    buildWithCache srcKey hash (P v (ρ c) s)
        (readCache decode (specifier v (hc ∘ π) hs c s)
          (some (encode (saveAt srcKey hash (P v₀ (ρ c₀) s₀) (specifier v₀ (hc ∘ π) hs c₀ s₀) e₀ ps₀))))
        (applyHistory e₀ history) ps
      = buildClean (P v (ρ c) s) (applyHistory e₀ history) ps := by
  by_cases hspec : specifier v₀ (hc ∘ π) hs c₀ s₀ = specifier v (hc ∘ π) hs c s
  · have h := hspec
    simp only [specifier, List.cons.injEq, and_true, Function.comp] at h
    obtain ⟨hv, hcfg, hsp⟩ := h
    have hρ : ρ c₀ = ρ c := hcover _ _ (hcI hcfg)
    have hsp' : s₀ = s := hsI hsp
    subst hv; subst hsp'
    rw [← hρ, ← hspec]
    have : readCache decode (specifier v₀ (hc ∘ π) hs c₀ s₀)
        (some (encode (saveAt srcKey hash (P v₀ (ρ c₀) s₀) (specifier v₀ (hc ∘ π) hs c₀ s₀) e₀ ps₀)))
        = saveAt srcKey hash (P v₀ (ρ c₀) s₀) (specifier v₀ (hc ∘ π) hs c₀ s₀) e₀ ps₀ := by
      simp [readCache, loadFile, hround, saveAt]
    rw [this]
    exact cache_transparent srcKey hash hK hH _ (hdeps _ _ _) _ e₀ ps₀ history ps
  · exact (specifier_guard srcKey hash (P v (ρ c) s) decode _ _ _ (hround _)
      (by simpa [saveAt] using hspec) _ ps).2

end

/-! ## Non-vacuity: a 2-file toy parser (page `a` shows the content of `b`, like a literalinclude) -/

/-- page = (own bytes, bytes of `b` if the page is `a`) -/
def toy : ParseFn (Option Bytes × Option Bytes) where
  parse e p := if p = "a" then (e "a", e "b") else (e p, none)
  reads e p := if p = "a" then ["a", "b"] else [p]
  deps _ p := some (if p = "a" then ["b"] else [])
  footprint := by
    intro e e' p h
    by_cases hp : p = "a"
    · subst hp
      simp only [if_true] at h ⊢
      simp [h "a" (by simp), h "b" (by simp)]
    · simp only [hp, if_false] at h ⊢
      simp [h p (by simp)]

theorem toy_deps_cover : DepsCoverReads toy := by
  intro e p ds hds f hf
  by_cases hp : p = "a"
  · subst hp
    simp only [toy, if_true, Option.some.injEq] at hds hf
    subst hds
    simpa using hf
  · simp only [toy, hp, if_false] at hf
    simp at hf
    exact Or.inl hf

/-- the same parser, but it does NOT record `b` (the shape of the untracked `:doc:` / image
existence checks of the unfixed code) -/
def toyForgetful : ParseFn (Option Bytes × Option Bytes) :=
  { toy with deps := fun _ _ => some [] }

def disk₀ : Env := fun f => if f = "a" then some [1] else none

/-- hypotheses of `cache_transparent` are satisfiable, and on this instance the cached build really
serves from the cache when nothing relevant changed (a hit), and really re-parses when `b` appears -/
example : buildWithCache (K := Bytes) (H := Bytes) (fun b => (b, true)) id toy (saveAt (fun b => (b, true)) id toy [] disk₀ ["a"])
    (applyHistory disk₀ [("b", some [7])]) ["a"] = .ok [("a", (some [1], some [7]))] := by decide

example : lookup (K := Bytes) (H := Bytes) (fun b => (b, true)) id (saveAt (fun b => (b, true)) id toy [] disk₀ ["a"])
    (applyHistory disk₀ [("b", some [7]), ("b", none)]) "a" = .ok none := by decide

example : lookup (K := Bytes) (H := Bytes) (fun b => (b, true)) id
    (saveAt (fun b => (b, true)) id toy [] (applyHistory disk₀ [("b", some [7])]) ["a"])
    (applyHistory disk₀ [("b", some [7]), ("c", some [0])]) "a" = .ok (some (some [1], some [7])) := by decide

example : ∀ h ps, buildWithCache (K := Bytes) (H := Bytes) (fun b => (b, true)) id toy (saveAt (fun b => (b, true)) id toy [] disk₀ ["a"])
    (applyHistory disk₀ h) ps = buildClean toy (applyHistory disk₀ h) ps :=
  fun h ps => cache_transparent (fun b => (b, true)) id (fun _ _ _ _ h => h) (fun _ _ h => h) toy toy_deps_cover [] disk₀ ["a"] h ps

/-- THE OBLIGATION CANNOT BE DROPPED (defect D12 in miniature): a parser that looks at `b` without
recording it gives a cached build that differs from the clean build once `b` is created. -/
theorem transparency_needs_deps :
    buildWithCache (K := Bytes) (H := Bytes) (fun b => (b, true)) id toyForgetful (saveAt (fun b => (b, true)) id toyForgetful [] disk₀ ["a"])
      (applyHistory disk₀ [("b", some [7])]) ["a"]
    ≠ buildClean toyForgetful (applyHistory disk₀ [("b", some [7])]) ["a"] := by decide

/-- A FIELD THE PARSER READS MUST BE HASHED: configuration = (hashed flag, unhashed flag); a parser that shows the
UNHASHED flag on the page is served the stale page from the cache after that flag is edited (the specifier is the same),
while the clean build shows the new value. With `π = ρ` (the flag is hashed) the theorem above applies. -/
def cfgToy (flag : Bool) : ParseFn (Option Bytes × Bool) where
  parse e p := (e p, flag)
  reads _ p := [p]
  deps _ _ := some []
  footprint := by
    intro e e' p h
    simp [h p (by simp)]

theorem unhashed_config_read_refuted :
    let π : Bool × Bool → Bool := Prod.fst
    let spec := fun (c : Bool × Bool) => specifier "v" ((fun b => toString b) ∘ π) (fun (_ : Unit) => "s") c ()
    spec (true, false) = spec (true, true) ∧
    buildWithCache (K := Bytes) (H := Bytes) (fun b => (b, true)) id (cfgToy true)
        (readCache (fun _ => some (saveAt (fun b => (b, true)) id (cfgToy false) (spec (true, false)) disk₀ ["a"])) (spec (true, true)) (some []))
        disk₀ ["a"]
      ≠ buildClean (cfgToy true) disk₀ ["a"] := by decide

/-- specifier guard / corruption: concrete instances (a decoder that accepts only the byte string [1]) -/
example : loadFile (Page := Nat) (H := Bytes) (K := Bytes)
    (fun b => if b = [1] then some ⟨["v1", "c", "s"], []⟩ else none) ["v2", "c", "s"] [1] = none := by decide

example : (loadFile (Page := Nat) (H := Bytes) (K := Bytes)
    (fun b => if b = [1] then some ⟨["v1", "c", "s"], []⟩ else none) ["v1", "c", "s"] [1]).isSome = true := by decide

example : loadFile (Page := Nat) (H := Bytes) (K := Bytes)
    (fun b => if b = [1] then some ⟨["v1", "c", "s"], []⟩ else none) ["v1", "c", "s"] [] = none := by decide

end SnootyVerif.C11
