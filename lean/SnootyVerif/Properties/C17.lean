import SnootyVerif.Proofs.Walk

/-!
# C17 — Source discovery stays inside the project and terminates

Property theorems about `Model/Walk.lean` (`walk` mirrors `util.get_files` over
`os.walk(topdown, followlinks=True)`; the file system — listing order, what every name resolves to,
`inJail`, `hasToml` — is an input, so every symlink topology is covered). Helper lemmas:
`Proofs/Walk.lean`. `res.scans` is the trace of resolved base directories whose listing was processed.
-/
namespace SnootyVerif.C17
open SnootyVerif.Walk

variable {κ : Type} [DecidableEq κ]

/-- a scan root that links back to itself directly and from a subdirectory, an alias of a subdirectory,
a nested project `3`, a directory `5` and a file `50` outside the jail (the outside directory links back in) -/
def exFS : FS Nat :=
  { dirs := [(0, [⟨"a", .dir 1, false⟩, ⟨"l", .dir 0, false⟩, ⟨"x.txt", .file 10, true⟩, ⟨"out", .dir 5, false⟩,
                  ⟨"n", .dir 3, false⟩, ⟨"k.txt", .file 50, true⟩, ⟨"alias", .dir 1, false⟩, ⟨"w.md", .file 13, false⟩,
                  ⟨"d.txt", .dangling 14, true⟩]),
             (1, [⟨"y.txt", .file 11, true⟩, ⟨"up", .dir 0, false⟩, ⟨"self", .dir 1, false⟩]),
             (3, [⟨"z.txt", .file 12, true⟩]),
             (5, [⟨"o.txt", .file 50, true⟩, ⟨"back", .dir 0, false⟩])],
    inJail := fun c => c != 5 && c != 50,
    hasToml := fun c => c == 3 }

/-- a two-directory cycle: every unit of `FS.fuel` is used -/
def exCycle : FS Nat :=
  { dirs := [(0, [⟨"a", .dir 1, false⟩]), (1, [⟨"up", .dir 0, false⟩, ⟨"y.txt", .file 11, true⟩])],
    inJail := fun _ => true, hasToml := fun _ => false }

/-- **Termination.** With the scan root inside the jail, `fs.fuel` = (number of distinct canonical
directories some listed name resolves to) + 1 iterations always suffice — whatever the link topology
(cycles, links to the scan root, aliases): the walk never runs out of fuel. -/
theorem walk_fuel (fs : FS κ) (root : κ) (hroot : fs.inJail root = true) (fuel : Nat)
    (hf : fs.fuel ≤ fuel) : walk fs root fuel ≠ .error .fuel := by
  unfold walk
  apply loop_fuel fs (dedup fs.dirTargets) (fun k hk => (mem_dedup _ k).2 hk)
  · intro x hx; simp at hx; subst hx; exact hroot
  · simp [St.init]
  · simp [St.init]
  · simpa [St.init, FS.fuel, Nat.add_comm] using hf

/-- A scan root that resolves OUTSIDE the jail (the source directory is itself a link to a directory elsewhere): the walk
comes back at once with nothing - whatever that directory holds, links to itself included (`dirs[:] = []` before the
`continue`; the code before the fix left `dirs` alone and `os.walk`, which keeps no record of where it has been, went round
2^depth times). -/
theorem walk_root_outside_jail (fs : FS κ) (root : κ) (hroot : fs.inJail root = false) (fuel : Nat) :
    walk fs root (fuel + 1) = .ok St.init := by
  simp [walk, loop, step, hroot]

/-- **Termination, for every scan root**: `fs.fuel` iterations suffice whether or not the root lies inside the jail. -/
theorem walk_terminates (fs : FS κ) (root : κ) : walk fs root fs.fuel ≠ .error .fuel := by
  by_cases hroot : fs.inJail root = true
  · exact walk_fuel fs root hroot _ (Nat.le_refl _)
  · have h : fs.inJail root = false := by simpa using hroot
    have hf : fs.fuel = (fs.fuel - 1) + 1 := by simp [FS.fuel]
    rw [hf, walk_root_outside_jail fs root h]
    simp

example : walk exFS 0 exFS.fuel ≠ .error .fuel := walk_fuel exFS 0 (by decide) _ (Nat.le_refl _)
/-- the source directory linked to a content directory outside the jail which holds two links to itself -/
example : walk ({ dirs := [(9, [⟨"latest", .dir 9, false⟩, ⟨"current", .dir 9, false⟩, ⟨"page.txt", .file 90, true⟩])],
                  inJail := fun c => c != 9 && c != 90, hasToml := fun _ => false } : FS Nat) 9 1 = .ok St.init :=
  walk_root_outside_jail _ 9 (by decide) 0
/-- the bound is attained (one unit less and the model does run out), so the theorem is not about a slack bound -/
example : (match walk exCycle 0 (exCycle.fuel - 1) with | .error .fuel => true | _ => false) = true := by decide

/-- … and it returns normally, for every file system: a wanted name that is a self-referential link
(`Kind.loop`; `Path.resolve()` raises `RuntimeError`/`OSError`) is skipped by the `except` clause of the repaired
`get_files` (71ff38c), so nothing a listing can contain makes the scan raise. -/
theorem walk_ok (fs : FS κ) (root : κ) (hroot : fs.inJail root = true) :
    ∃ res, walk fs root fs.fuel = .ok res := by
  have h1 := walk_fuel fs root hroot fs.fuel (Nat.le_refl _)
  cases h : walk fs root fs.fuel with
  | ok res => exact ⟨res, rfl⟩
  | error e => cases e; simp_all

/-- a wanted self-referential link next to a wanted file: skipped, the file is still yielded -/
example : (match walk ({ dirs := [(0, [⟨"k.txt", .loop, true⟩, ⟨"x.txt", .file 10, true⟩])],
                         inJail := fun _ => true, hasToml := fun _ => false } : FS Nat) 0 1 with
           | .ok st => st.out | _ => []) = [(["x.txt"], 10)] := by decide

example : (match walk exFS 0 exFS.fuel with | .ok st => st.out | _ => []) =
    [(["x.txt"], 10), (["d.txt"], 14), (["alias", "y.txt"], 11), (["l", "x.txt"], 10), (["l", "d.txt"], 14)] := by decide

/-- **Each directory once.** Every canonical directory other than the scan root is scanned at most once,
the scan root at most twice (once as the root, once through a link: it is never put into `seen`
before the first link to it is met). -/
theorem visited_once (fs : FS κ) (root : κ) (hroot : fs.inJail root = true) (fuel : Nat) (res : St κ)
    (h : walk fs root fuel = .ok res) : ∀ c, res.scans.count c ≤ (if c = root then 2 else 1) := by
  have hI : VisitInv fs root [] res := by
    refine loop_inv fs (VisitInv fs root) (visitInv_step fs root) fuel _ _ res ?_ h
    refine ⟨?_, ?_⟩
    · intro x hx; simp at hx; subst hx; exact hroot
    · intro c
      simp only [St.init, List.count_nil, List.map_cons, List.map_nil, List.count_cons, List.not_mem_nil,
        if_false, beq_iff_eq]
      split <;> simp_all
  intro c
  have := hI.2 c
  simp only [List.map_nil, List.count_nil] at this
  have h1 : (if c ∈ res.seen then 1 else 0) ≤ 1 := by split <;> omega
  by_cases hr : c = root
  · rw [if_pos hr] at this ⊢; omega
  · rw [if_neg hr] at this ⊢; omega

example : (match walk exFS 0 exFS.fuel with | .ok st => st.scans | _ => []) = [0, 1, 0] := by decide

/-- **Jail.** Everything yielded resolves inside the jail, and so does every directory whose listing
was processed (no hypothesis on the file system). -/
theorem jail (fs : FS κ) (root : κ) (fuel : Nat) (res : St κ) (h : walk fs root fuel = .ok res) :
    (∀ y ∈ res.out, fs.inJail y.2 = true) ∧ (∀ b ∈ res.scans, fs.inJail b = true) := by
  refine loop_inv fs (fun _ st => (∀ y ∈ st.out, fs.inJail y.2 = true) ∧ (∀ b ∈ st.scans, fs.inJail b = true))
    ?_ fuel _ _ res ?_ h
  · intro p c rest st ch st' hI hs
    by_cases hj : fs.inJail c = true
    · obtain ⟨_, hst⟩ := step_live hj hs
      subst hst
      refine ⟨?_, ?_⟩
      · intro y hy
        rcases List.mem_append.1 hy with hy | hy
        · exact hI.1 y hy
        · obtain ⟨_, _, _, _, h3, _⟩ := mem_yields.1 hy; exact h3
      · intro b hb
        rcases List.mem_append.1 hb with hb | hb
        · exact hI.2 b hb
        · simp at hb; subst hb; exact hj
    · rw [step_dead (by simpa using hj) hs]; exact hI
  · simp [St.init]

example : ∀ y ∈ (match walk exFS 0 exFS.fuel with | .ok st => st.out | _ => []), y.2 ≠ 50 := by decide

/-- **No descent into nested projects.** Every yielded path is `p ++ [name]` where `name` is a wanted
non-directory entry of a directory reached from the scan root by a `Clean` path `p`: every directory on the
way (the scan root excepted) resolves inside the jail and is not `pruned` - it neither has a `snooty.toml` nor lies
inside a directory below the scan root that has one (`FS.inNested`: a link may lead into the middle of a nested
project). In particular no such directory is ever scanned. -/
theorem no_descent_into_nested (fs : FS κ) (root : κ) (hroot : fs.inJail root = true) (fuel : Nat) (res : St κ)
    (h : walk fs root fuel = .ok res) :
    (∀ y ∈ res.out, ∃ p b e, Clean fs root p b ∧ e ∈ fs.entries b ∧ y.1 = p ++ [e.name] ∧ e.wanted = true ∧
        (e.kind = .file y.2 ∨ e.kind = .dangling y.2)) ∧
    (∀ b ∈ res.scans, b = root ∨ fs.pruned b = false) := by
  have hI : CleanInv fs root [] res := by
    refine loop_inv fs (CleanInv fs root) (cleanInv_step fs root) fuel _ _ res ?_ h
    refine ⟨?_, ?_, ?_, ?_, ?_⟩ <;> try simp [St.init]
    · intro x hx; simp at hx; subst hx; exact hroot
    · exact Clean.root
  refine ⟨hI.2.2.2.1, ?_⟩
  intro b hb
  obtain ⟨p, hp⟩ := hI.2.2.1 b hb
  cases hp with
  | root => exact Or.inl rfl
  | step _ _ _ _ ht => exact Or.inr ht

example : (match walk exFS 0 exFS.fuel with | .ok st => decide (3 ∉ st.scans) | _ => false) = true := by decide

/-- **Nested projects are reported.** Every directory with a `snooty.toml` listed in a directory the walk
reaches cleanly gets a `NestedProject` diagnostic, and only directories with a `snooty.toml` get one. -/
theorem nested_reported (fs : FS κ) (root : κ) (hroot : fs.inJail root = true) (fuel : Nat) (res : St κ)
    (h : walk fs root fuel = .ok res) :
    (∀ p b e k, Clean fs root p b → e ∈ fs.entries b → e.kind = .dir k → fs.hasToml k = true →
        k ∈ res.diags.map (·.1)) ∧
    (∀ kd ∈ res.diags, fs.hasToml kd.1 = true) := by
  have hC : CovInv fs root [] res := by
    refine loop_inv fs (CovInv fs root) (covInv_step fs root) fuel _ _ res ?_ h
    refine ⟨?_, ?_, ?_, ?_, ?_, ?_⟩ <;> try simp [St.init]
    intro x hx; simp at hx; subst hx; exact hroot
  have hI : CleanInv fs root [] res := by
    refine loop_inv fs (CleanInv fs root) (cleanInv_step fs root) fuel _ _ res ?_ h
    refine ⟨?_, ?_, ?_, ?_, ?_⟩ <;> try simp [St.init]
    · intro x hx; simp at hx; subst hx; exact hroot
    · exact Clean.root
  exact ⟨fun p b e k hc he hk ht => hC.2.2.2.2.2 b (clean_scanned hC hc) e he k hk ht, hI.2.2.2.2⟩

example : (match walk exFS 0 exFS.fuel with | .ok st => st.diags | _ => []) = [(3, "n")] := by decide

/-- **Coverage.** If the walk returns normally, every wanted non-directory entry (in particular every
regular file) that resolves inside the jail and sits in a directory reachable from the scan root by a
`Clean` path — through directories *or links to directories* inside the jail, none below a nested
project — is yielded under some path. (Regular in-tree files reachable through real directories are the
special case where `inJail` holds automatically.) -/
theorem coverage (fs : FS κ) (root : κ) (hroot : fs.inJail root = true) (fuel : Nat) (res : St κ)
    (h : walk fs root fuel = .ok res) (p : Path) (b : κ) (hc : Clean fs root p b) (e : Entry κ)
    (he : e ∈ fs.entries b) (c : κ) (hk : e.kind = .file c ∨ e.kind = .dangling c) (hw : e.wanted = true)
    (hj : fs.inJail c = true) : ∃ q, (q, c) ∈ res.out := by
  have hC : CovInv fs root [] res := by
    refine loop_inv fs (CovInv fs root) (covInv_step fs root) fuel _ _ res ?_ h
    refine ⟨?_, ?_, ?_, ?_, ?_, ?_⟩ <;> try simp [St.init]
    intro x hx; simp at hx; subst hx; exact hroot
  exact hC.2.2.2.2.1 b (clean_scanned hC hc) e he c hk hw hj

/-- `y.txt` (canonical id 11) lives in directory `1`, which is only entered through the alias link -/
example : ∃ q, (q, 11) ∈ (match walk exFS 0 exFS.fuel with | .ok st => st.out | _ => []) := by
  obtain ⟨res, hres⟩ := walk_ok exFS 0 (by decide)
  have hcl : Clean exFS 0 ([] ++ ["a"]) 1 :=
    Clean.step (e := ⟨"a", .dir 1, false⟩) Clean.root (by decide) rfl (by decide) (by decide)
  obtain ⟨q, hq⟩ := coverage exFS 0 (by decide) _ res hres _ 1 hcl ⟨"y.txt", .file 11, true⟩ (by decide) 11
    (Or.inl rfl) rfl (by decide)
  exact ⟨q, by rw [hres]; exact hq⟩

end SnootyVerif.C17
