def hello := "world"
