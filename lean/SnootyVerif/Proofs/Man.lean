import SnootyVerif.Model.Man

/-!
Helper lemmas for C19. Specification vocabulary first (`isCtl`, `scan`, `linesOk`, …),
then: the escape keeps control characters off line starts; the handler invariant;
from the chunk invariant to positions of the rendered string; text order; font balance.
-/
namespace SnootyVerif.Man

/-! ## vocabulary -/

/-- troff's control characters -/
def isCtl (c : Char) : Bool := c == '.' || c == '\''

/-- `scan bol s`: no control character of `s` sits at a line start (`bol` = `s` itself starts a line). -/
def scan : Bool → Str → Bool
  | _, [] => true
  | bol, c :: r => !(bol && isCtl c) && scan (c == '\n') r

/-- are we at a line start after writing `s` (having been in state `b` before)? -/
def endsBol (b : Bool) (s : Str) : Bool :=
  match s.getLast? with
  | none => b
  | some c => c == '\n'

/-- a macro chunk is one complete line: `.` body `\n` with no newline inside -/
def MacroShape (s : Str) : Prop := ∃ body, s = '.' :: (body ++ ['\n']) ∧ '\n' ∉ body

def chunkOk (bol : Bool) : Chunk → Prop
  | .macro s => bol = true ∧ MacroShape s
  | .raw s => scan bol s = true
  | .text s => scan bol s = true

/-- every macro chunk starts at a line start and is one line; no other chunk puts a control
character at a line start -/
def linesOk : Bool → List Chunk → Prop
  | _, [] => True
  | b, c :: r => chunkOk b c ∧ linesOk (endsBol b c.str) r

/-- concatenation of the text chunks -/
def textOf : List Chunk → Str
  | [] => []
  | .text s :: r => s ++ textOf r
  | _ :: r => textOf r

/-- the arguments of the `handle_text` calls an event list makes, in order -/
def evTexts : List Ev → List Str
  | [] => []
  | .text s :: r => s :: evTexts r
  | .stop (.url href) :: r => (' ' :: '(' :: (href ++ [')'])) :: evTexts r
  | _ :: r => evTexts r

/-! ## escape -/

def esc1 (c : Char) : Str :=
  if c = '\\' then ['\\', 'e']
  else if c = '-' then ['\\', '-']
  else if c = '\'' then ['\\', '(', 'a', 'q']
  else if c = '´' then ['\\', '\'']
  else if c = '`' then ['\\', '(', 'g', 'a']
  else [c]

/-- `replace("\n.", "\n\\&.")` followed by the `startswith(".")` guard, as one left-to-right pass -/
def guardGo : Bool → Str → Str
  | _, [] => []
  | b, c :: r => (if b && c == '.' then ['\\', '&'] else []) ++ c :: guardGo (c == '\n') r

theorem replaceChar_append (a : Char) (out x y : Str) :
    replaceChar a out (x ++ y) = replaceChar a out x ++ replaceChar a out y := by
  induction x with
  | nil => rfl
  | cons c r ih => simp only [List.cons_append, replaceChar]; split <;> simp [ih]

theorem escapePairs_append (x y : Str) : escapePairs (x ++ y) = escapePairs x ++ escapePairs y := by
  simp only [escapePairs, replaceChar_append]

theorem escapePairs_one (c : Char) :
    escapePairs (if c = '\\' then ['\\', 'e'] else [c]) = esc1 c := by
  by_cases h1 : c = '\\'
  · subst h1; rfl
  by_cases h2 : c = '-'
  · subst h2; rfl
  by_cases h3 : c = '\''
  · subst h3; rfl
  by_cases h4 : c = '´'
  · subst h4; rfl
  by_cases h5 : c = '`'
  · subst h5; rfl
  simp [escapePairs, replaceChar, esc1, h1, h2, h3, h4, h5]

theorem escChain_eq (s : Str) : escapePairs (replaceChar '\\' ['\\', 'e'] s) = s.flatMap esc1 := by
  induction s with
  | nil => rfl
  | cons c r ih =>
    have : replaceChar '\\' ['\\', 'e'] (c :: r)
        = (if c = '\\' then ['\\', 'e'] else [c]) ++ replaceChar '\\' ['\\', 'e'] r := by
      simp only [replaceChar]; split <;> simp
    rw [this, escapePairs_append, ih, escapePairs_one]; simp

theorem replaceNlDot_eq (s : Str) : replaceNlDot s = guardGo false s := by
  fun_induction replaceNlDot s with
  | case1 => rfl
  | case2 c => simp [guardGo]
  | case3 c d r h ih =>
    obtain ⟨rfl, rfl⟩ := h
    simp [guardGo, ih]
  | case4 c d r h ih =>
    rw [ih]
    by_cases hc : c = '\n'
    · subst hc
      have hd : d ≠ '.' := fun hd => h ⟨rfl, hd⟩
      simp [guardGo, hd]
    · simp [guardGo, hc]

theorem guardHead_guardGo (v : Str) : guardHead (guardGo false v) = guardGo true v := by
  cases v with
  | nil => rfl
  | cons c r =>
    by_cases hc : c = '.'
    · subst hc; simp [guardHead, guardGo]
    · simp [guardHead, guardGo, hc]

theorem troffEscape_eq (s : Str) : troffEscape s = guardGo true (s.flatMap esc1) := by
  simp only [troffEscape, escChain_eq, replaceNlDot_eq, guardHead_guardGo]

/-- every apostrophe follows a backslash (`ok` = the previous character was a backslash) -/
def qs : Bool → Str → Bool
  | _, [] => true
  | ok, c :: r => (c != '\'' || ok) && qs (c == '\\') r

theorem qs_flatMap_esc1 (s : Str) : ∀ ok, qs ok (s.flatMap esc1) = true := by
  induction s with
  | nil => intro ok; rfl
  | cons c r ih =>
    intro ok
    simp only [List.flatMap_cons, esc1]
    split
    · simp [qs, ih]
    split
    · simp [qs, ih]
    split
    · simp [qs, ih]
    split
    · simp [qs, ih]
    split
    · simp [qs, ih]
    · rename_i h1 h2 h3 h4 h5
      simp [qs, ih, h3]

theorem scan_guardGo (t : Str) : ∀ b ok, (b = true → ok = false) → qs ok t = true → scan b (guardGo b t) = true := by
  induction t with
  | nil => intros; rfl
  | cons c r ih =>
    intro b ok hb hq
    simp only [qs, Bool.and_eq_true, Bool.or_eq_true, bne_iff_ne, ne_eq] at hq
    obtain ⟨hq1, hq2⟩ := hq
    by_cases hdot : (b && c == '.') = true
    · simp only [Bool.and_eq_true, beq_iff_eq] at hdot
      obtain ⟨rfl, rfl⟩ := hdot
      have := ih false false (by simp) hq2
      simpa [guardGo, scan, isCtl] using this
    · have hnc : (b && isCtl c) = false := by
        cases b with
        | false => rfl
        | true =>
          have hok := hb rfl
          subst hok
          simp only [Bool.true_and, beq_iff_eq] at hdot
          have : c ≠ '\'' := by simpa using hq1
          simp [isCtl, hdot, this]
      have hrec := ih (c == '\n') (c == '\\') (by
        intro h; simp only [beq_iff_eq] at h; subst h; decide) hq2
      simp only [Bool.not_eq_true] at hdot
      simp [guardGo, hdot, scan, hnc, hrec]

/-- an escaped text never puts a control character at a line start, wherever it is written -/
theorem scan_troffEscape (s : Str) : scan true (troffEscape s) = true := by
  rw [troffEscape_eq]
  exact scan_guardGo _ true false (fun _ => rfl) (qs_flatMap_esc1 s false)

theorem scan_mono (s : Str) (b : Bool) (h : scan true s = true) : scan b s = true := by
  cases s with
  | nil => rfl
  | cons c r =>
    simp only [scan, Bool.true_and, Bool.and_eq_true] at h ⊢
    cases b <;> simp [h.1, h.2]

theorem endsBol_append (b : Bool) (x y : Str) : endsBol b (x ++ y) = endsBol (endsBol b x) y := by
  simp only [endsBol, List.getLast?_append]
  cases y.getLast? <;> cases x.getLast? <;> simp

theorem endsBol_macroLine (b : Bool) (name arg : Str) : endsBol b (macroLine name arg) = true := by
  have : macroLine name arg = ('.' :: (name ++ (if arg = [] then [] else ' ' :: arg))) ++ ['\n'] := by
    simp [macroLine]
  rw [this, endsBol_append]
  simp [endsBol]

theorem scan_append (x y : Str) : ∀ b, scan b (x ++ y) = (scan b x && scan (endsBol b x) y) := by
  induction x with
  | nil => intro b; simp [scan, endsBol]
  | cons c r ih =>
    intro b
    have he : endsBol b (c :: r) = endsBol (c == '\n') r := by
      have := endsBol_append b [c] r
      simpa [endsBol] using this
    simp only [List.cons_append, scan, ih, he, Bool.and_assoc]

/-- a string in which no control character starts a line cannot be split before one at a line start -/
theorem scan_split (a : Str) : ∀ (bol : Bool) (c : Char) (r : Str), scan bol (a ++ c :: r) = true →
    ((a = [] ∧ bol = true) ∨ a.getLast? = some '\n') → isCtl c = false := by
  induction a with
  | nil =>
    intro bol c r h hp
    rcases hp with ⟨_, hb⟩ | hp
    · subst hb
      simp only [List.nil_append, scan, Bool.true_and, Bool.and_eq_true, Bool.not_eq_eq_eq_not, Bool.not_true] at h
      exact h.1
    · simp at hp
  | cons x a' ih =>
    intro bol c r h hp
    simp only [List.cons_append, scan, Bool.and_eq_true] at h
    apply ih (x == '\n') c r h.2
    rcases hp with ⟨hnil, _⟩ | hp
    · cases hnil
    · cases a' with
      | nil => left; simpa using hp
      | cons y a'' => right; simpa using hp

/-! ## characters the escape can introduce -/

theorem mem_guardGo (t : Str) : ∀ b c, c ∈ guardGo b t → c ∈ t ∨ c = '\\' ∨ c = '&' := by
  induction t with
  | nil => intro b c h; simp [guardGo] at h
  | cons x r ih =>
    intro b c h
    simp only [guardGo, List.mem_append, List.mem_cons] at h
    rcases h with h | h | h
    · split at h
      · simp only [List.mem_cons, List.not_mem_nil, or_false] at h
        rcases h with h | h <;> simp [h]
      · simp at h
    · simp [h]
    · rcases ih _ _ h with h | h | h <;> simp [h]

theorem nl_not_mem_esc1 (x : Char) (hx : x ≠ '\n') : '\n' ∉ esc1 x := by
  unfold esc1
  split
  · decide
  split
  · decide
  split
  · decide
  split
  · decide
  split
  · decide
  · simpa using hx.symm

theorem nl_not_mem_replace (s : Str) : '\n' ∉ replaceChar '\n' [' '] s := by
  induction s with
  | nil => simp [replaceChar]
  | cons c r ih =>
    simp only [replaceChar]
    split
    · simpa using ih
    · rename_i h
      simp only [List.mem_cons, not_or]
      exact ⟨fun h' => h h'.symm, ih⟩

theorem mem_replaceChar (a c : Char) (rep : Str) : ∀ v : Str, c ∈ replaceChar a rep v → c ∈ v ∨ c ∈ rep
  | [], h => by simp [replaceChar] at h
  | x :: r, h => by
    simp only [replaceChar] at h
    split at h
    · rcases List.mem_append.1 h with h | h
      · exact Or.inr h
      · rcases mem_replaceChar a c rep r h with h | h
        · exact Or.inl (List.mem_cons_of_mem _ h)
        · exact Or.inr h
    · rcases List.mem_cons.1 h with h | h
      · exact Or.inl (by rw [h]; exact List.mem_cons_self)
      · rcases mem_replaceChar a c rep r h with h | h
        · exact Or.inl (List.mem_cons_of_mem _ h)
        · exact Or.inr h

theorem not_mem_replaceChar (a : Char) (rep : Str) (ha : a ∉ rep) : ∀ v : Str, a ∉ replaceChar a rep v
  | [] => by simp [replaceChar]
  | x :: r => by
    simp only [replaceChar]
    split
    · intro h
      rcases List.mem_append.1 h with h | h
      · exact ha h
      · exact not_mem_replaceChar a rep ha r h
    · rename_i hx
      intro h
      rcases List.mem_cons.1 h with h | h
      · exact hx h.symm
      · exact not_mem_replaceChar a rep ha r h

theorem nl_not_mem_troffEscapeArg (s : Str) : '\n' ∉ troffEscapeArg s := by
  unfold troffEscapeArg
  intro h0
  have h : '\n' ∈ troffEscape (replaceChar '\n' [' '] s) := by
    rcases mem_replaceChar _ _ _ _ h0 with h | h
    · exact h
    · exact absurd h (by decide)
  revert h
  rw [troffEscape_eq]
  intro h
  rcases mem_guardGo _ _ _ h with h | h | h
  · simp only [List.mem_flatMap] at h
    obtain ⟨x, hx, hmem⟩ := h
    have hne : x ≠ '\n' := by
      intro hxe; subst hxe; exact nl_not_mem_replace s hx
    exact nl_not_mem_esc1 x hne hmem
  · cases h
  · cases h

theorem nl_not_mem_bulletArg (n : Nat) : '\n' ∉ bulletArg n := by
  unfold bulletArg
  intro h
  simp only [List.mem_append] at h
  rcases h with h | h
  · revert h; decide
  · have := Nat.isDigit_of_mem_toDigits (by decide) (by decide) h
    revert this; decide

theorem macroShape_macroLine (name arg : Str) (hn : '\n' ∉ name) (ha : '\n' ∉ arg) :
    MacroShape (macroLine name arg) := by
  refine ⟨name ++ (if arg = [] then [] else ' ' :: arg), by simp [macroLine], ?_⟩
  intro h
  simp only [List.mem_append] at h
  rcases h with h | h
  · exact hn h
  · split at h
    · simp at h
    · simp only [List.mem_cons] at h
      rcases h with h | h
      · cases h
      · exact ha h

/-! ## handler invariant -/

theorem flat_append (xs ys : List Chunk) : flat (xs ++ ys) = flat xs ++ flat ys := by
  simp [flat]

theorem linesOk_append (xs ys : List Chunk) : ∀ b,
    linesOk b (xs ++ ys) ↔ linesOk b xs ∧ linesOk (endsBol b (flat xs)) ys := by
  induction xs with
  | nil => intro b; simp [linesOk, flat, endsBol]
  | cons c r ih =>
    intro b
    have : flat (c :: r) = c.str ++ flat r := by simp [flat]
    simp only [List.cons_append, linesOk, ih, this, endsBol_append, and_assoc]

structure Inv (st : St) : Prop where
  lines : linesOk true st.out
  tnl : st.trailingNl = endsBol true (flat st.out)
  buf : scan true st.buf = true

theorem inv_init : Inv {} := ⟨trivial, rfl, rfl⟩

theorem inv_write (st : St) (c : Chunk) (hi : Inv st) (hc : ∀ b, chunkOk b c) : Inv (st.write c) := by
  unfold St.write
  split
  · exact hi
  · rename_i hne
    refine ⟨?_, ?_, hi.buf⟩
    · simp only [linesOk_append]
      exact ⟨hi.lines, hc _, trivial⟩
    · simp only [flat_append, endsBol_append]
      have : flat [c] = c.str := by simp [flat]
      rw [this]
      unfold endsBol
      cases h : c.str.getLast? with
      | none => exact absurd (by simpa using h) hne
      | some x => rw [Bool.eq_iff_iff]; simp

theorem chunkOk_raw (s : Str) (h : scan true s = true) : ∀ b, chunkOk b (.raw s) :=
  fun b => scan_mono s b h

theorem chunkOk_text (s : Str) (h : scan true s = true) : ∀ b, chunkOk b (.text s) :=
  fun b => scan_mono s b h

theorem inv_flush (st : St) (hi : Inv st) : Inv st.flush := by
  have := inv_write st (.text st.buf) hi (chunkOk_text _ hi.buf)
  exact ⟨this.lines, this.tnl, rfl⟩

theorem macro_eq (st : St) (name arg : Str) : st.macro name arg =
    { st.flush with
      out := st.flush.out ++ (if st.flush.trailingNl then [] else [Chunk.raw ['\n']]) ++ [Chunk.macro (macroLine name arg)],
      trailingNl := true } := by
  unfold St.macro
  cases h : st.flush.trailingNl <;> simp [h]

theorem inv_macro (st : St) (name arg : Str) (hi : Inv st) (hn : '\n' ∉ name) (ha : '\n' ∉ arg) :
    Inv (st.macro name arg) := by
  have hf := inv_flush st hi
  rw [macro_eq]
  generalize st.flush = s at hf
  have hshape := macroShape_macroLine name arg hn ha
  have hend : ∀ b, endsBol b (flat [Chunk.macro (macroLine name arg)]) = true := by
    intro b; simp [flat, Chunk.str, endsBol_macroLine]
  refine ⟨?_, ?_, hf.buf⟩
  · simp only [linesOk_append]
    refine ⟨⟨hf.lines, ?_⟩, ⟨?_, hshape⟩, trivial⟩
    · cases htn : s.trailingNl
      · simp only [Bool.false_eq_true, if_false]
        exact ⟨scan_mono _ _ (by decide), trivial⟩
      · simp [linesOk]
    · cases htn : s.trailingNl
      · simp [flat_append, endsBol_append, flat, Chunk.str, endsBol]
      · simp only [if_true, List.append_nil]
        rw [← hf.tnl]; exact htn
  · simp only [flat_append, endsBol_append, hend]

theorem inv_handleText (st : St) (s : Str) (hi : Inv st) : Inv (st.handleText s) := by
  refine ⟨hi.lines, hi.tnl, ?_⟩
  simp only [St.handleText, scan_append, hi.buf, Bool.true_and]
  exact scan_mono _ _ (scan_troffEscape s)

theorem inv_set_needSplit (st : St) (b : Bool) (hi : Inv st) : Inv { st with needSplit := b } :=
  ⟨hi.lines, hi.tnl, hi.buf⟩

theorem inv_set_depth (st : St) (d : Int) (hi : Inv st) : Inv { st with depth := d } :=
  ⟨hi.lines, hi.tnl, hi.buf⟩

theorem inv_set_lstack (st : St) (l : List Bool) (hi : Inv st) : Inv { st with lstack := l } :=
  ⟨hi.lines, hi.tnl, hi.buf⟩

theorem inv_set_fstack (st : St) (l : List Fmt) (hi : Inv st) : Inv { st with fstack := l } :=
  ⟨hi.lines, hi.tnl, hi.buf⟩

theorem scan_fontEsc (f : Fmt) : scan true (fontEsc f) = true := by cases f <;> decide

theorem inv_push (st : St) (f : Fmt) (hi : Inv st) : Inv (st.push f) := by
  unfold St.push
  split
  · exact inv_set_fstack _ _ hi
  · exact inv_set_fstack _ _ (inv_write _ _ hi (chunkOk_raw _ (scan_fontEsc f)))

theorem inv_pop (st st' : St) (hi : Inv st) (h : st.pop = .ok st') : Inv st' := by
  unfold St.pop at h
  split at h
  · cases h
  · rename_i x rest hfs
    split at h
    · cases h
      exact inv_write _ _ (inv_set_fstack _ _ hi) (chunkOk_raw _ (scan_fontEsc _))
    · cases h
      exact inv_write _ _ (inv_set_fstack _ _ hi) (chunkOk_raw _ (by decide))

theorem inv_handleStart (up : Char → Str) (st st' : St) (h : Hd) (hi : Inv st)
    (hs : st.handleStart up h = .ok st') : Inv st' := by
  unfold St.handleStart at hs
  have hpre : Inv (if (isBlock h && st.needSplit) = true then
      (if st.lstack ≠ [] then st.macro ['I', 'P'] [] else st.macro ['P', 'P'] []) else st) := by
    split
    · split
      · exact inv_macro _ _ _ hi (by decide) (by decide)
      · exact inv_macro _ _ _ hi (by decide) (by decide)
    · exact hi
  simp only at hs
  generalize (if (isBlock h && st.needSplit) = true then
      (if st.lstack ≠ [] then st.macro ['I', 'P'] [] else st.macro ['P', 'P'] []) else st) = s at hs hpre
  cases h with
  | manpage name sec =>
    cases hs; exact inv_macro _ _ _ hpre (by decide) (nl_not_mem_troffEscapeArg _)
  | sect name =>
    cases hs
    refine inv_macro _ _ _ (inv_set_depth _ _ hpre) ?_ (nl_not_mem_troffEscapeArg _)
    split <;> decide
  | paragraph => cases hs; exact hpre
  | url href => cases hs; exact hpre
  | strong => cases hs; exact inv_push _ _ hpre
  | emphasis => cases hs; exact inv_push _ _ hpre
  | list o => cases hs; exact inv_macro _ _ _ (inv_set_lstack _ _ hpre) (by decide) (by decide)
  | listItem =>
    simp only at hs
    split at hs
    · cases hs
    · cases hs
      exact inv_macro _ _ _ (inv_set_needSplit _ _ hpre) (by decide) (nl_not_mem_bulletArg _)
  | text => cases hs; exact hpre
  | indent => cases hs; exact inv_macro _ _ _ hpre (by decide) (by decide)
  | preformatted => cases hs; exact inv_macro _ _ _ hpre (by decide) (by decide)

theorem inv_handleEnd (st st' : St) (h : Hd) (hi : Inv st) (hs : st.handleEnd h = .ok st') : Inv st' := by
  unfold St.handleEnd at hs
  have hpre : Inv (if isBlock h = true then { st.flush with needSplit := true } else st.flush) := by
    split
    · exact inv_set_needSplit _ _ (inv_flush _ hi)
    · exact inv_flush _ hi
  simp only at hs
  generalize (if isBlock h = true then { st.flush with needSplit := true } else st.flush) = s at hs hpre
  cases h with
  | manpage name sec => cases hs; exact hpre
  | sect name => cases hs; exact inv_set_depth _ _ hpre
  | paragraph => cases hs; exact hpre
  | url href => cases hs; exact inv_handleText _ _ hpre
  | strong => exact inv_pop _ _ hpre hs
  | emphasis => exact inv_pop _ _ hpre hs
  | list o =>
    simp only at hs
    split at hs
    · cases hs
    · cases hs; exact inv_macro _ _ _ (inv_set_lstack _ _ hpre) (by decide) (by decide)
  | listItem => cases hs; exact hpre
  | text => cases hs; exact hpre
  | indent => cases hs; exact inv_macro _ _ _ hpre (by decide) (by decide)
  | preformatted => cases hs; exact inv_macro _ _ _ hpre (by decide) (by decide)

theorem inv_step (up : Char → Str) (st st' : St) (e : Ev) (hi : Inv st) (hs : st.step up e = .ok st') : Inv st' := by
  cases e with
  | start h => exact inv_handleStart up _ _ h hi hs
  | text s => cases hs; exact inv_handleText _ _ hi
  | bad => cases hs
  | stop h => exact inv_handleEnd _ _ h hi hs

theorem inv_run (up : Char → Str) (es : List Ev) : ∀ st st', Inv st → run up st es = .ok st' → Inv st' := by
  induction es with
  | nil => intro st st' hi h; cases h; exact hi
  | cons e es ih =>
    intro st st' hi h
    simp only [run] at h
    split at h
    · cases h
    · rename_i s hs
      exact ih _ _ (inv_step up _ _ e hi hs) h

/-! ## from chunks to positions of the rendered string -/

theorem linesOk_split (cs : List Chunk) : ∀ (bol : Bool) (a : Str) (c : Char) (b : Str),
    linesOk bol cs → flat cs = a ++ c :: b → ((a = [] ∧ bol = true) ∨ a.getLast? = some '\n') → isCtl c = true →
    ∃ pre body post, cs = pre ++ Chunk.macro ('.' :: (body ++ ['\n'])) :: post ∧ flat pre = a ∧ '\n' ∉ body := by
  induction cs with
  | nil => intro bol a c b _ h; simp [flat] at h
  | cons ch rest ih =>
    intro bol a c b hl hflat hpos hctl
    have hf : flat (ch :: rest) = ch.str ++ flat rest := by simp [flat]
    rw [hf] at hflat
    obtain ⟨hch, hrest⟩ := hl
    -- position in the remaining chunks
    have later : ∀ a', a = ch.str ++ a' → flat rest = a' ++ c :: b →
        ∃ pre body post, ch :: rest = pre ++ Chunk.macro ('.' :: (body ++ ['\n'])) :: post ∧ flat pre = a ∧ '\n' ∉ body := by
      intro a' ha hr
      have hpos' : (a' = [] ∧ endsBol bol ch.str = true) ∨ a'.getLast? = some '\n' := by
        cases a' with
        | nil =>
          left; refine ⟨rfl, ?_⟩
          simp only [List.append_nil] at ha
          subst ha
          rcases hpos with ⟨h1, h2⟩ | h2
          · simp [endsBol, h1, h2]
          · simp [endsBol, h2]
        | cons y ys =>
          right
          rcases hpos with ⟨h1, _⟩ | h2
          · subst ha; simp at h1
          · subst ha
            simpa [List.getLast?_append] using h2
      obtain ⟨pre, body, post, h1, h2, h3⟩ := ih _ a' c b hrest hr hpos' hctl
      exact ⟨ch :: pre, body, post, by simp [h1], by simp [flat] at h2 ⊢; simp [h2, ha], h3⟩
    rcases List.append_eq_append_iff.mp hflat with ⟨a', ha, hr⟩ | ⟨c', hs, hr⟩
    · exact later a' ha hr
    · cases c' with
      | nil =>
        simp only [List.append_nil] at hs
        simp only [List.nil_append] at hr
        exact later [] (by simp [hs]) hr.symm
      | cons x c'' =>
        simp only [List.cons_append, List.cons.injEq] at hr
        obtain ⟨rfl, _⟩ := hr
        -- the position lies inside chunk `ch`
        cases ch with
        | raw s =>
          have := scan_split a bol c c'' (by simpa [Chunk.str] using hs ▸ hch) hpos
          rw [this] at hctl; cases hctl
        | text s =>
          have := scan_split a bol c c'' (by simpa [Chunk.str] using hs ▸ hch) hpos
          rw [this] at hctl; cases hctl
        | «macro» s =>
          obtain ⟨hb, body, hbody, hnl⟩ := hch
          simp only [Chunk.str] at hs
          cases a with
          | nil => exact ⟨[], body, rest, by simp [hbody], by simp [flat], hnl⟩
          | cons y ys =>
            exfalso
            rcases hpos with ⟨h1, _⟩ | h2
            · cases h1
            · -- a = a0 ++ ['\n'] is a proper prefix of the single line `s`
              obtain ⟨a0, ha0⟩ : ∃ a0, y :: ys = a0 ++ ['\n'] := List.getLast?_eq_some_iff.mp h2
              rw [ha0, hbody] at hs
              have hs' : ('.' :: body) ++ ['\n'] = (a0 ++ ['\n']) ++ (c :: c'') := by simpa using hs
              rcases List.append_eq_append_iff.mp hs' with ⟨z, hz1, hz2⟩ | ⟨z, hz1, hz2⟩
              · -- a0 ++ ['\n'] = '.' :: body ++ z : impossible unless newline in '.'::body or c = ...
                cases z with
                | nil =>
                  simp only [List.append_nil] at hz1
                  have : '\n' ∈ '.' :: body := by rw [← hz1]; simp
                  simp only [List.mem_cons] at this
                  rcases this with h | h
                  · cases h
                  · exact hnl h
                | cons z0 zs =>
                  have hlen := congrArg List.length hz2
                  simp at hlen
              · have : '\n' ∈ '.' :: body := by rw [hz1]; simp
                simp only [List.mem_cons] at this
                rcases this with h | h
                · cases h
                · exact hnl h

/-! ## text order -/

theorem textOf_append (xs ys : List Chunk) : textOf (xs ++ ys) = textOf xs ++ textOf ys := by
  induction xs with
  | nil => rfl
  | cons c r ih => cases c <;> simp [textOf, ih]

/-- all text so far: flushed text chunks followed by the pending buffer -/
def St.allText (st : St) : Str := textOf st.out ++ st.buf

theorem allText_write_raw (st : St) (s : Str) : (st.write (.raw s)).allText = st.allText := by
  unfold St.write St.allText
  split <;> simp [textOf_append, textOf]

theorem allText_flush (st : St) : st.flush.allText = st.allText := by
  unfold St.flush St.write St.allText
  split
  · rename_i h; simp only [Chunk.str] at h; simp [h]
  · simp [textOf_append, textOf]

theorem allText_macro (st : St) (name arg : Str) : (st.macro name arg).allText = st.allText := by
  rw [macro_eq, ← allText_flush st]
  generalize st.flush = s
  unfold St.allText
  cases s.trailingNl <;> simp [textOf_append, textOf]

theorem allText_handleText (st : St) (s : Str) : (st.handleText s).allText = st.allText ++ troffEscape s := by
  simp [St.handleText, St.allText]

theorem allText_push (st : St) (f : Fmt) : (st.push f).allText = st.allText := by
  unfold St.push
  split
  · rfl
  · exact allText_write_raw st _

theorem allText_pop (st st' : St) (h : st.pop = .ok st') : st'.allText = st.allText := by
  unfold St.pop at h
  split at h
  · cases h
  · split at h <;> (cases h; rw [allText_write_raw]; rfl)

theorem allText_handleStart (up : Char → Str) (st st' : St) (h : Hd) (hs : st.handleStart up h = .ok st') :
    st'.allText = st.allText := by
  unfold St.handleStart at hs
  have hpre : (if (isBlock h && st.needSplit) = true then
      (if st.lstack ≠ [] then st.macro ['I', 'P'] [] else st.macro ['P', 'P'] []) else st).allText = st.allText := by
    split
    · split <;> exact allText_macro _ _ _
    · rfl
  simp only at hs
  generalize (if (isBlock h && st.needSplit) = true then
      (if st.lstack ≠ [] then st.macro ['I', 'P'] [] else st.macro ['P', 'P'] []) else st) = s at hs hpre
  rw [← hpre]
  cases h with
  | manpage name sec => cases hs; exact allText_macro _ _ _
  | sect name => cases hs; rw [allText_macro]; rfl
  | paragraph => cases hs; rfl
  | url href => cases hs; rfl
  | strong => cases hs; exact allText_push _ _
  | emphasis => cases hs; exact allText_push _ _
  | list o => cases hs; rw [allText_macro]; rfl
  | listItem =>
    simp only at hs
    split at hs
    · cases hs
    · cases hs; rw [allText_macro]; rfl
  | text => cases hs; rfl
  | indent => cases hs; exact allText_macro _ _ _
  | preformatted => cases hs; exact allText_macro _ _ _

theorem allText_handleEnd (st st' : St) (h : Hd) (hs : st.handleEnd h = .ok st') :
    st'.allText = st.allText ++ (evTexts [.stop h]).flatMap troffEscape := by
  unfold St.handleEnd at hs
  have hpre : (if isBlock h = true then { st.flush with needSplit := true } else st.flush).allText = st.allText := by
    split
    · exact allText_flush st
    · exact allText_flush st
  simp only at hs
  generalize (if isBlock h = true then { st.flush with needSplit := true } else st.flush) = s at hs hpre
  rw [← hpre]
  cases h with
  | manpage name sec => cases hs; simp [evTexts]
  | sect name => cases hs; simp [evTexts, St.allText]
  | paragraph => cases hs; simp [evTexts]
  | url href => cases hs; simp [evTexts, allText_handleText]
  | strong => simp [evTexts, allText_pop _ _ hs]
  | emphasis => simp [evTexts, allText_pop _ _ hs]
  | list o =>
    simp only at hs
    split at hs
    · cases hs
    · cases hs; rw [allText_macro]; simp [evTexts, St.allText]
  | listItem => cases hs; simp [evTexts]
  | text => cases hs; simp [evTexts]
  | indent => cases hs; simp [evTexts, allText_macro]
  | preformatted => cases hs; simp [evTexts, allText_macro]

theorem allText_run (up : Char → Str) (es : List Ev) : ∀ st st', run up st es = .ok st' →
    st'.allText = st.allText ++ (evTexts es).flatMap troffEscape := by
  induction es with
  | nil => intro st st' h; cases h; simp [evTexts]
  | cons e es ih =>
    intro st st' h
    simp only [run] at h
    split at h
    · cases h
    · rename_i s hs
      rw [ih _ _ h]
      cases e with
      | start hd =>
        have := allText_handleStart up _ _ hd hs
        rw [this]
        cases hd <;> simp [evTexts]
      | text t => cases hs; simp [evTexts, allText_handleText]
      | bad => cases hs
      | stop hd =>
        have := allText_handleEnd _ _ hd hs
        rw [this]
        cases hd <;> simp [evTexts]

theorem run_append (up : Char → Str) (xs ys : List Ev) : ∀ st,
    run up st (xs ++ ys) = (match run up st xs with | .error e => .error e | .ok s => run up s ys) := by
  induction xs with
  | nil => intro st; rfl
  | cons e es ih =>
    intro st
    simp only [List.cons_append, run]
    split
    · rfl
    · exact ih _

theorem evTexts_append (xs ys : List Ev) : evTexts (xs ++ ys) = evTexts xs ++ evTexts ys := by
  induction xs with
  | nil => rfl
  | cons e r ih =>
    cases e with
    | start h => simpa [evTexts] using ih
    | text s => simp [evTexts, ih]
    | bad => simpa [evTexts] using ih
    | stop h => cases h <;> simp [evTexts, ih]

theorem run_snoc (up : Char → Str) (es : List Ev) (e : Ev) (st st' : St)
    (h : run up st (es ++ [e]) = .ok st') : ∃ s, run up st es = .ok s ∧ s.step up e = .ok st' := by
  rw [run_append] at h
  split at h
  · cases h
  · rename_i s hs
    refine ⟨s, hs, ?_⟩
    simp only [run] at h
    split at h
    · cases h
    · rename_i s2 hs2; cases h; exact hs2

/-! ## fonts -/

def pushF : Hd → List Fmt → List Fmt
  | .strong, fs => .bold :: fs
  | .emphasis, fs => .emphasis :: fs
  | _, fs => fs

def popF : Hd → List Fmt → List Fmt
  | .strong, fs => fs.tail
  | .emphasis, fs => fs.tail
  | _, fs => fs

theorem popF_pushF (h : Hd) (fs : List Fmt) : popF h (pushF h fs) = fs := by cases h <;> rfl

def isFontChunk : Chunk → Bool
  | .raw s => s == fontEsc .bold || s == fontEsc .emphasis || s == fontRoman
  | _ => false

/-- the font escapes written so far -/
def fontsOf (cs : List Chunk) : List Chunk := cs.filter isFontChunk

@[simp] theorem write_fstack (st : St) (c : Chunk) : (st.write c).fstack = st.fstack := by
  unfold St.write; split <;> rfl
@[simp] theorem flush_fstack (st : St) : st.flush.fstack = st.fstack := by simp [St.flush]
@[simp] theorem macro_fstack (st : St) (n a : Str) : (st.macro n a).fstack = st.fstack := by
  rw [macro_eq]; simp
@[simp] theorem handleText_fstack (st : St) (s : Str) : (st.handleText s).fstack = st.fstack := rfl

theorem fontsOf_write (st : St) (c : Chunk) (h : isFontChunk c = false) : fontsOf (st.write c).out = fontsOf st.out := by
  unfold St.write; split
  · rfl
  · simp [fontsOf, List.filter_append, h]
theorem fontsOf_flush (st : St) : fontsOf st.flush.out = fontsOf st.out := by
  simp only [St.flush]; exact fontsOf_write st _ rfl
theorem fontsOf_macro (st : St) (n a : Str) : fontsOf (st.macro n a).out = fontsOf st.out := by
  rw [macro_eq, ← fontsOf_flush st]
  generalize st.flush = s
  cases s.trailingNl <;> simp [fontsOf, List.filter_append, isFontChunk] <;> decide

/-- whenever no font change is open, the last font escape written (if any) selects roman -/
def FontInv (st : St) : Prop := st.fstack = [] → ∀ c ∈ (fontsOf st.out).getLast?, c = Chunk.raw fontRoman

theorem fontInv_same {st st' : St} (hf : st'.fstack = st.fstack) (ho : fontsOf st'.out = fontsOf st.out)
    (hi : FontInv st) : FontInv st' := by
  intro h; rw [ho]; exact hi (hf ▸ h)

theorem fontInv_macro (st : St) (n a : Str) (hi : FontInv st) : FontInv (st.macro n a) :=
  fontInv_same (by simp) (fontsOf_macro _ _ _) hi

theorem push_fstack (st : St) (f : Fmt) : (st.push f).fstack = f :: st.fstack := by
  unfold St.push; simp only; split <;> simp

theorem fontInv_push (st : St) (f : Fmt) : FontInv (st.push f) := by
  intro h; simp [push_fstack] at h

theorem pop_fstack (st st' : St) (h : st.pop = .ok st') : st'.fstack = st.fstack.tail := by
  unfold St.pop at h
  split at h
  · cases h
  · rename_i x rest hfs
    split at h <;> (cases h; simp [hfs])

theorem fontInv_pop (st st' : St) (h : st.pop = .ok st') : FontInv st' := by
  unfold St.pop at h
  split at h
  · cases h
  · rename_i x rest hfs
    split at h
    · cases h; intro hh; simp at hh
    · cases h
      intro _ c hc
      have hout : ({ st with fstack := rest }.write (Chunk.raw fontRoman)).out = st.out ++ [Chunk.raw fontRoman] := by
        simp [St.write, Chunk.str, fontRoman]
      have hfo : fontsOf (st.out ++ [Chunk.raw fontRoman]) = fontsOf st.out ++ [Chunk.raw fontRoman] := by
        simp [fontsOf, List.filter_append, isFontChunk]
      rw [hout, hfo] at hc
      simp at hc
      exact hc.symm

theorem handleStart_fonts (up : Char → Str) (st st' : St) (h : Hd) (hi : FontInv st)
    (hs : st.handleStart up h = .ok st') : st'.fstack = pushF h st.fstack ∧ FontInv st' := by
  unfold St.handleStart at hs
  have hpre : (if (isBlock h && st.needSplit) = true then
      (if st.lstack ≠ [] then st.macro ['I', 'P'] [] else st.macro ['P', 'P'] []) else st).fstack = st.fstack ∧
      FontInv (if (isBlock h && st.needSplit) = true then
      (if st.lstack ≠ [] then st.macro ['I', 'P'] [] else st.macro ['P', 'P'] []) else st) := by
    split
    · split <;> exact ⟨by simp, fontInv_macro _ _ _ hi⟩
    · exact ⟨rfl, hi⟩
  simp only at hs
  generalize (if (isBlock h && st.needSplit) = true then
      (if st.lstack ≠ [] then st.macro ['I', 'P'] [] else st.macro ['P', 'P'] []) else st) = s at hs hpre
  obtain ⟨hf, hi'⟩ := hpre
  rw [← hf]
  cases h with
  | manpage name sec => cases hs; exact ⟨by simp [pushF], fontInv_macro _ _ _ hi'⟩
  | sect name =>
    cases hs
    exact ⟨by simp [pushF], fontInv_macro _ _ _ (fontInv_same rfl rfl hi')⟩
  | paragraph => cases hs; exact ⟨rfl, hi'⟩
  | url href => cases hs; exact ⟨rfl, hi'⟩
  | strong => cases hs; exact ⟨by simp [push_fstack, pushF], fontInv_push _ _⟩
  | emphasis => cases hs; exact ⟨by simp [push_fstack, pushF], fontInv_push _ _⟩
  | list o => cases hs; exact ⟨by simp [pushF], fontInv_macro _ _ _ (fontInv_same rfl rfl hi')⟩
  | listItem =>
    simp only at hs
    split at hs
    · cases hs
    · cases hs; exact ⟨by simp [pushF], fontInv_macro _ _ _ (fontInv_same rfl rfl hi')⟩
  | text => cases hs; exact ⟨rfl, hi'⟩
  | indent => cases hs; exact ⟨by simp [pushF], fontInv_macro _ _ _ hi'⟩
  | preformatted => cases hs; exact ⟨by simp [pushF], fontInv_macro _ _ _ hi'⟩

theorem handleEnd_fonts (st st' : St) (h : Hd) (hi : FontInv st)
    (hs : st.handleEnd h = .ok st') : st'.fstack = popF h st.fstack ∧ FontInv st' := by
  unfold St.handleEnd at hs
  have hpre : (if isBlock h = true then { st.flush with needSplit := true } else st.flush).fstack = st.fstack ∧
      FontInv (if isBlock h = true then { st.flush with needSplit := true } else st.flush) := by
    split
    · exact ⟨by simp, fontInv_same (by simp) (fontsOf_flush st) hi⟩
    · exact ⟨by simp, fontInv_same (by simp) (fontsOf_flush st) hi⟩
  simp only at hs
  generalize (if isBlock h = true then { st.flush with needSplit := true } else st.flush) = s at hs hpre
  obtain ⟨hf, hi'⟩ := hpre
  rw [← hf]
  cases h with
  | manpage name sec => cases hs; exact ⟨rfl, hi'⟩
  | sect name => cases hs; exact ⟨rfl, fontInv_same rfl rfl hi'⟩
  | paragraph => cases hs; exact ⟨rfl, hi'⟩
  | url href => cases hs; exact ⟨rfl, fontInv_same rfl rfl hi'⟩
  | strong => exact ⟨pop_fstack _ _ hs, fontInv_pop _ _ hs⟩
  | emphasis => exact ⟨pop_fstack _ _ hs, fontInv_pop _ _ hs⟩
  | list o =>
    simp only at hs
    split at hs
    · cases hs
    · cases hs; exact ⟨by simp [popF], fontInv_macro _ _ _ (fontInv_same rfl rfl hi')⟩
  | listItem => cases hs; exact ⟨rfl, hi'⟩
  | text => cases hs; exact ⟨rfl, hi'⟩
  | indent => cases hs; exact ⟨by simp [popF], fontInv_macro _ _ _ hi'⟩
  | preformatted => cases hs; exact ⟨by simp [popF], fontInv_macro _ _ _ hi'⟩

theorem run_cons_ok (up : Char → Str) (e : Ev) (es : List Ev) (st st' : St) (h : run up st (e :: es) = .ok st') :
    ∃ s, st.step up e = .ok s ∧ run up s es = .ok st' := by
  simp only [run] at h
  split at h
  · cases h
  · rename_i s hs; exact ⟨s, hs, h⟩

theorem run_append_ok (up : Char → Str) (xs ys : List Ev) (st st' : St) (h : run up st (xs ++ ys) = .ok st') :
    ∃ s, run up st xs = .ok s ∧ run up s ys = .ok st' := by
  rw [run_append] at h
  split at h
  · cases h
  · rename_i s hs; exact ⟨s, hs, h⟩

mutual
/-- rendering a subtree leaves the formatting stack as it found it -/
theorem events_fonts (up : Char → Str) : ∀ (t : ManNode) (st st' : St), FontInv st →
    run up st t.events = .ok st' → st'.fstack = st.fstack ∧ FontInv st'
  | .node h cs, st, st', hi, hr => by
    simp only [ManNode.events] at hr
    obtain ⟨s1, h1, hr⟩ := run_cons_ok up _ _ _ _ hr
    obtain ⟨s2, h2, hr⟩ := run_append_ok up _ _ _ _ hr
    obtain ⟨s3, h3, hr⟩ := run_cons_ok up _ _ _ _ hr
    cases hr
    obtain ⟨f1, i1⟩ := handleStart_fonts up _ _ h hi h1
    obtain ⟨f2, i2⟩ := eventsL_fonts up cs _ _ i1 h2
    obtain ⟨f3, i3⟩ := handleEnd_fonts _ _ h i2 h3
    exact ⟨by rw [f3, f2, f1, popF_pushF], i3⟩
  | .leaf h s, st, st', hi, hr => by
    simp only [ManNode.events] at hr
    obtain ⟨s1, h1, hr⟩ := run_cons_ok up _ _ _ _ hr
    obtain ⟨s2, h2, hr⟩ := run_cons_ok up _ _ _ _ hr
    obtain ⟨s3, h3, hr⟩ := run_cons_ok up _ _ _ _ hr
    cases hr
    obtain ⟨f1, i1⟩ := handleStart_fonts up _ _ h hi h1
    have h2' : s2.fstack = s1.fstack ∧ FontInv s2 := by
      split at h2
      · cases h2; exact ⟨rfl, fontInv_same rfl rfl i1⟩
      · cases h2
    obtain ⟨f3, i3⟩ := handleEnd_fonts _ _ h h2'.2 h3
    exact ⟨by rw [f3, h2'.1, f1, popF_pushF], i3⟩
theorem eventsL_fonts (up : Char → Str) : ∀ (ts : List ManNode) (st st' : St), FontInv st →
    run up st (eventsL ts) = .ok st' → st'.fstack = st.fstack ∧ FontInv st'
  | [], st, st', hi, hr => by
    simp only [eventsL, run] at hr; cases hr; exact ⟨rfl, hi⟩
  | t :: ts, st, st', hi, hr => by
    simp only [eventsL] at hr
    obtain ⟨s1, h1, hr⟩ := run_append_ok up _ _ _ _ hr
    obtain ⟨f1, i1⟩ := events_fonts up t _ _ hi h1
    obtain ⟨f2, i2⟩ := eventsL_fonts up ts _ _ i1 hr
    exact ⟨by rw [f2, f1], i2⟩
end

/-! ## render -/

theorem render_ok (up : Char → Str) (name sec : Str) (ast : Ast) (cs : List Chunk)
    (h : render up name sec ast = .ok cs) :
    ∃ k st, ast.toMan = .ok k ∧
      run up {} (ManNode.node (.manpage name sec) k).events = .ok st ∧ cs = st.out := by
  unfold render at h
  split at h
  · cases h
  · rename_i k hk
    unfold ManNode.toTroff at h
    split at h
    · cases h
    · rename_i st hst
      cases h
      exact ⟨k, st, hk, hst, rfl⟩

theorem manpage_events (name sec : Str) (k : List ManNode) :
    (ManNode.node (.manpage name sec) k).events = (Ev.start (.manpage name sec) :: eventsL k) ++ [Ev.stop (.manpage name sec)] := by
  simp [ManNode.events]

theorem render_linesOk (up : Char → Str) (name sec : Str) (ast : Ast) (cs : List Chunk)
    (h : render up name sec ast = .ok cs) : linesOk true cs := by
  obtain ⟨k, st, _, hrun, rfl⟩ := render_ok up name sec ast cs h
  exact (inv_run up _ _ _ inv_init hrun).lines

theorem render_text (up : Char → Str) (name sec : Str) (ast : Ast) (cs : List Chunk)
    (h : render up name sec ast = .ok cs) :
    ∃ k, ast.toMan = .ok k ∧ textOf cs = (evTexts (eventsL k)).flatMap troffEscape := by
  obtain ⟨k, st, hk, hrun, rfl⟩ := render_ok up name sec ast cs h
  refine ⟨k, hk, ?_⟩
  have hall := allText_run up _ _ _ hrun
  rw [manpage_events] at hrun hall
  obtain ⟨s, _, hstep⟩ := run_snoc up _ _ _ _ hrun
  have hbuf : st.buf = [] := by
    simp only [St.step, St.handleEnd, isBlock] at hstep
    cases hstep; rfl
  simp only [St.allText, hbuf, List.append_nil] at hall
  rw [hall]
  simp [evTexts_append, evTexts, textOf]

theorem render_fonts (up : Char → Str) (name sec : Str) (ast : Ast) (cs : List Chunk)
    (h : render up name sec ast = .ok cs) : ∀ c ∈ (fontsOf cs).getLast?, c = Chunk.raw fontRoman := by
  obtain ⟨k, st, _, hrun, rfl⟩ := render_ok up name sec ast cs h
  have hinit : FontInv {} := by intro _; simp [fontsOf]
  obtain ⟨hf, hi⟩ := events_fonts up _ _ _ hinit hrun
  exact hi hf

end SnootyVerif.Man
