import SnootyVerif.Model.Determinism

/-! Helper lemmas for C05: linear orders, insertion sort, permutation invariance. -/
namespace SnootyVerif.Determinism

deriving instance DecidableEq for Except

/-- a decidable linear (total, antisymmetric, transitive) order -/
structure LinOrd {α : Type} (le : α → α → Bool) : Prop where
  total : ∀ a b, le a b = true ∨ le b a = true
  antisymm : ∀ a b, le a b = true → le b a = true → a = b
  trans : ∀ a b c, le a b = true → le b c = true → le a c = true

theorem natLe_linOrd : LinOrd natLe where
  total a b := by simp only [natLe, Nat.ble_eq]; omega
  antisymm a b := by simp only [natLe, Nat.ble_eq]; omega
  trans a b c := by simp only [natLe, Nat.ble_eq]; omega

theorem charLe_linOrd : LinOrd charLe where
  total a b := by simp only [charLe, Nat.ble_eq]; omega
  antisymm a b := by
    simp only [charLe, Nat.ble_eq]
    intro h1 h2
    exact Char.toNat_inj.mp (by omega)
  trans a b c := by simp only [charLe, Nat.ble_eq]; omega

section lex
variable {α : Type} {le : α → α → Bool}

theorem lexLe_total (h : LinOrd le) : ∀ l₁ l₂ : List α, lexLe le l₁ l₂ = true ∨ lexLe le l₂ l₁ = true
  | [], _ => by simp [lexLe]
  | _ :: _, [] => by simp [lexLe]
  | a :: as, b :: bs => by
    simp only [lexLe]
    rcases hab : le a b with _ | _ <;> rcases hba : le b a with _ | _
    · rcases h.total a b with h1 | h1 <;> simp_all
    · simp
    · simp
    · simpa using lexLe_total h as bs

theorem lexLe_antisymm (h : LinOrd le) : ∀ l₁ l₂ : List α, lexLe le l₁ l₂ = true → lexLe le l₂ l₁ = true → l₁ = l₂
  | [], [] => by simp
  | [], _ :: _ => by simp [lexLe]
  | _ :: _, [] => by simp [lexLe]
  | a :: as, b :: bs => by
    simp only [lexLe]
    rcases hab : le a b with _ | _ <;> rcases hba : le b a with _ | _ <;> simp
    intro h1 h2
    exact ⟨h.antisymm a b hab hba, lexLe_antisymm h as bs h1 h2⟩

theorem lexLe_trans (h : LinOrd le) : ∀ l₁ l₂ l₃ : List α,
    lexLe le l₁ l₂ = true → lexLe le l₂ l₃ = true → lexLe le l₁ l₃ = true
  | [], _, _ => by simp [lexLe]
  | _ :: _, [], _ => by simp [lexLe]
  | _ :: _, _ :: _, [] => by simp [lexLe]
  | a :: as, b :: bs, c :: cs => by
    simp only [lexLe]
    rcases hab : le a b with _ | _
    · simp
    rcases hbc : le b c with _ | _
    · simp
    have hac := h.trans a b c hab hbc
    simp only [hac, if_true]
    rcases hca : le c a with _ | _
    · simp
    have hba : le b a = true := h.trans b c a hbc hca
    have hcb : le c b = true := h.trans c a b hca hab
    simp only [hba, hcb, if_true]
    exact lexLe_trans h as bs cs

theorem lexLe_linOrd (h : LinOrd le) : LinOrd (lexLe le) where
  total := lexLe_total h
  antisymm := lexLe_antisymm h
  trans := lexLe_trans h

end lex

theorem bytesLe_linOrd : LinOrd bytesLe := lexLe_linOrd natLe_linOrd
theorem pathLe_linOrd : LinOrd pathLe := lexLe_linOrd bytesLe_linOrd
theorem strLe_linOrd : LinOrd strLe := lexLe_linOrd charLe_linOrd

section sort
variable {α : Type} {le : α → α → Bool}

theorem insertBy_perm (x : α) : ∀ l : List α, (insertBy le x l).Perm (x :: l)
  | [] => by simp [insertBy]
  | y :: ys => by
    simp only [insertBy]
    split
    · exact List.Perm.refl _
    · exact ((insertBy_perm x ys).cons y).trans (List.Perm.swap x y ys)

theorem isort_perm : ∀ l : List α, (isort le l).Perm l
  | [] => by simp [isort]
  | x :: xs => by
    simp only [isort]
    exact (insertBy_perm x _).trans ((isort_perm xs).cons x)

theorem pairwise_insertBy (total : ∀ a b, le a b = true ∨ le b a = true)
    (trans : ∀ a b c, le a b = true → le b c = true → le a c = true) (x : α) :
    ∀ l : List α, l.Pairwise (fun a b => le a b = true) → (insertBy le x l).Pairwise (fun a b => le a b = true)
  | [], _ => by simp [insertBy]
  | y :: ys, hp => by
    simp only [insertBy]
    rcases hxy : le x y with _ | _
    · have hyx : le y x = true := by rcases total x y with h | h <;> simp_all
      simp only [Bool.false_eq_true, if_false]
      rw [List.pairwise_cons] at hp ⊢
      refine ⟨?_, pairwise_insertBy total trans x ys hp.2⟩
      intro z hz
      rcases List.mem_cons.mp ((insertBy_perm (le := le) x ys).mem_iff.mp hz) with hz | hz
      · rw [hz]; exact hyx
      · exact hp.1 z hz
    · simp only [if_true]
      rw [List.pairwise_cons]
      refine ⟨?_, hp⟩
      intro z hz
      rw [List.pairwise_cons] at hp
      rcases List.mem_cons.mp hz with rfl | hz
      · exact hxy
      · exact trans x y z hxy (hp.1 z hz)

theorem pairwise_isort (total : ∀ a b, le a b = true ∨ le b a = true)
    (trans : ∀ a b c, le a b = true → le b c = true → le a c = true) :
    ∀ l : List α, (isort le l).Pairwise (fun a b => le a b = true)
  | [] => by simp [isort]
  | x :: xs => by
    simp only [isort]
    exact pairwise_insertBy total trans x _ (pairwise_isort total trans xs)

/-- sorting two enumerations of the same multiset gives the same list, provided the
comparison is antisymmetric *on the elements present* -/
theorem isort_eq_of_perm (total : ∀ a b, le a b = true ∨ le b a = true)
    (trans : ∀ a b c, le a b = true → le b c = true → le a c = true)
    {l₁ l₂ : List α} (hp : l₁.Perm l₂)
    (anti : ∀ a b, a ∈ l₁ → b ∈ l₁ → le a b = true → le b a = true → a = b) :
    isort le l₁ = isort le l₂ := by
  apply List.Perm.eq_of_pairwise (le := fun a b => le a b = true)
  · intro a b ha hb
    have ha' : a ∈ l₁ := (isort_perm l₁).mem_iff.mp ha
    have hb' : b ∈ l₁ := hp.mem_iff.mpr ((isort_perm l₂).mem_iff.mp hb)
    exact anti a b ha' hb'
  · exact pairwise_isort total trans l₁
  · exact pairwise_isort total trans l₂
  · exact (isort_perm l₁).trans (hp.trans (isort_perm l₂).symm)

theorem isort_eq_of_perm_linOrd (h : LinOrd le) {l₁ l₂ : List α} (hp : l₁.Perm l₂) :
    isort le l₁ = isort le l₂ :=
  isort_eq_of_perm h.total h.trans hp (fun a b _ _ => h.antisymm a b)

theorem eq_of_key_eq {κ : Type} (key : α → κ) : ∀ (l : List α), (l.map key).Nodup →
    ∀ a b, a ∈ l → b ∈ l → key a = key b → a = b
  | [], _ => by simp
  | x :: xs, hn => by
    simp only [List.map_cons, List.nodup_cons, List.mem_map, not_exists, not_and] at hn
    intro a b ha hb hk
    rcases List.mem_cons.mp ha with ha | ha <;> rcases List.mem_cons.mp hb with hb | hb
    · rw [ha, hb]
    · rw [ha] at hk; exact absurd hk.symm (hn.1 b hb)
    · rw [hb] at hk; exact absurd hk (hn.1 a ha)
    · exact eq_of_key_eq key xs hn.2 a b ha hb hk

/-- `sorted(xs, key=…)` of two enumerations with pairwise distinct keys -/
theorem isort_key_eq_of_perm {κ : Type} (key : α → κ) {lek : κ → κ → Bool} (h : LinOrd lek)
    {l₁ l₂ : List α} (hp : l₁.Perm l₂) (hn : (l₁.map key).Nodup) :
    isort (keyLe key lek) l₁ = isort (keyLe key lek) l₂ :=
  isort_eq_of_perm (le := keyLe key lek) (fun a b => h.total (key a) (key b))
    (fun a b c => h.trans (key a) (key b) (key c)) hp
    (fun a b ha hb h1 h2 => eq_of_key_eq key l₁ hn a b ha hb (h.antisymm (key a) (key b) h1 h2))

end sort

/-! ### structural hash -/

section shash
variable (norm : List (List Nat) → List (List Nat)) (H : List Nat → List Nat)

/-- member digests of two enumerations of the same members: both raise, or both succeed with
permuted digest lists -/
theorem memberDigests_perm {xs ys : List HVal} (hp : xs.Perm ys) :
    (∃ e, memberDigests norm H xs = .error e ∧ memberDigests norm H ys = .error e) ∨
    (∃ a b, memberDigests norm H xs = .ok a ∧ memberDigests norm H ys = .ok b ∧ a.Perm b) := by
  induction hp with
  | nil => right; exact ⟨[], [], by simp [memberDigests]⟩
  | cons x _ ih =>
    rw [memberDigests, memberDigests]
    rcases hx : shashW norm H x with e | d
    · left; cases e; exact ⟨.typeError, rfl, rfl⟩
    · rcases ih with ⟨e, h1, h2⟩ | ⟨a, b, h1, h2, h3⟩
      · left; exact ⟨e, by simp [h1], by simp [h2]⟩
      · right; exact ⟨d :: a, d :: b, by simp [h1], by simp [h2], h3.cons d⟩
  | swap x y l =>
    rw [memberDigests, memberDigests, memberDigests, memberDigests]
    rcases hx : shashW norm H x with ex | dx <;> rcases hy : shashW norm H y with ey | dy
    · left; cases ex; cases ey; exact ⟨.typeError, rfl, rfl⟩
    · left; cases ex; exact ⟨.typeError, rfl, rfl⟩
    · left; cases ey; exact ⟨.typeError, rfl, rfl⟩
    · rcases hl : memberDigests norm H l with el | dl
      · left; cases el; exact ⟨.typeError, rfl, rfl⟩
      · right; exact ⟨dy :: dx :: dl, dx :: dy :: dl, rfl, rfl, List.Perm.swap dx dy dl⟩
  | trans _ _ ih1 ih2 =>
    rcases ih1 with ⟨e, h1, h2⟩ | ⟨a, b, h1, h2, h3⟩
    · rcases ih2 with ⟨e', h1', h2'⟩ | ⟨a', b', h1', h2', h3'⟩
      · left; exact ⟨e, h1, by cases e; cases e'; exact h2'⟩
      · rw [h2] at h1'; cases h1'
    · rcases ih2 with ⟨e', h1', h2'⟩ | ⟨a', b', h1', h2', h3'⟩
      · rw [h2] at h1'; cases h1'
      · rw [h2] at h1'; cases h1'
        right; exact ⟨a, b', h1, h2', h3.trans h3'⟩

theorem memberDigests_length : ∀ (xs : List HVal) (ds : List (List Nat)),
    memberDigests norm H xs = .ok ds → ds.length = xs.length
  | [], ds, h => by simp [memberDigests] at h; subst h; rfl
  | x :: xs, ds, h => by
    rw [memberDigests] at h
    rcases hx : shashW norm H x with e | d
    · simp [hx] at h
    · rcases hl : memberDigests norm H xs with e | dl
      · simp [hx, hl] at h
      · simp [hx, hl] at h
        subst h
        simp [memberDigests_length xs dl hl]

end shash

/-! ### dict updates -/

section dict
variable {κ π : Type} [DecidableEq κ]

theorem upsert_fresh (k : κ) (v : π) : ∀ acc : List (κ × π), k ∉ acc.map Prod.fst → upsert k v acc = acc ++ [(k, v)]
  | [], _ => rfl
  | (k', v') :: rest, h => by
    simp only [List.map_cons, List.mem_cons, not_or] at h
    simp only [upsert, if_neg (Ne.symm h.1), List.cons_append, upsert_fresh k v rest h.2]

theorem foldl_upsert_fresh : ∀ (arrivals acc : List (κ × π)),
    ((acc ++ arrivals).map Prod.fst).Nodup →
    arrivals.foldl (fun acc kv => upsert kv.1 kv.2 acc) acc = acc ++ arrivals
  | [], acc, _ => by simp
  | (k, v) :: rest, acc, h => by
    simp only [List.foldl_cons]
    have hk : k ∉ acc.map Prod.fst := by
      intro hmem
      simp only [List.map_append, List.map_cons] at h
      have := (List.nodup_append.mp h).2.2 k hmem k (by simp)
      exact this rfl
    rw [upsert_fresh k v acc hk, foldl_upsert_fresh rest (acc ++ [(k, v)]) (by simpa using h)]
    simp

theorem lastWins_of_nodup (arrivals : List (κ × π)) (h : (arrivals.map Prod.fst).Nodup) :
    lastWins arrivals = arrivals := by
  simpa [lastWins] using foldl_upsert_fresh arrivals [] (by simpa using h)

theorem extendAt_fresh {δ : Type} (k : κ) (ds : List δ) : ∀ acc : List (κ × List δ),
    k ∉ acc.map Prod.fst → extendAt k ds acc = acc ++ [(k, ds)]
  | [], _ => rfl
  | (k', v') :: rest, h => by
    simp only [List.map_cons, List.mem_cons, not_or] at h
    simp only [extendAt, if_neg (Ne.symm h.1), List.cons_append, extendAt_fresh k ds rest h.2]

theorem foldl_extendAt_fresh {δ : Type} : ∀ (events acc : List (κ × List δ)),
    ((acc ++ events).map Prod.fst).Nodup →
    events.foldl (fun acc e => if e.2.isEmpty then acc else extendAt e.1 e.2 acc) acc
      = acc ++ events.filter (fun e => !e.2.isEmpty)
  | [], acc, _ => by simp
  | (k, ds) :: rest, acc, h => by
    simp only [List.foldl_cons]
    have hk : k ∉ acc.map Prod.fst := by
      intro hmem
      simp only [List.map_append, List.map_cons] at h
      exact (List.nodup_append.mp h).2.2 k hmem k (by simp) rfl
    have hrest : ((acc ++ rest).map Prod.fst).Nodup := by
      simp only [List.map_append, List.map_cons] at h ⊢
      refine List.Nodup.sublist ?_ h
      exact List.Sublist.append_left (List.sublist_cons_self _ _) _
    rcases he : ds.isEmpty with _ | _
    · simp only [Bool.false_eq_true, if_false]
      rw [extendAt_fresh k ds acc hk, foldl_extendAt_fresh rest (acc ++ [(k, ds)]) (by simpa using h)]
      simp [he]
    · simp only [if_true]
      rw [foldl_extendAt_fresh rest acc hrest]
      simp [he]

end dict

section updAt
variable {κ β : Type} [DecidableEq κ]

/-- common shape of `upsert` / `extendAt`: update the entry of `k` (first occurrence) or append one -/
def updAt (h : Option β → β) (k : κ) : List (κ × β) → List (κ × β)
  | [] => [(k, h none)]
  | (k', v') :: rest => if k' = k then (k', h (some v')) :: rest else (k', v') :: updAt h k rest

theorem upsert_eq_updAt (k : κ) (v : β) : ∀ acc, upsert k v acc = updAt (fun _ => v) k acc
  | [] => rfl
  | (k', v') :: rest => by simp only [upsert, updAt, upsert_eq_updAt k v rest]

theorem extendAt_eq_updAt {δ : Type} (k : κ) (ds : List δ) :
    ∀ acc, extendAt k ds acc = updAt (fun o => match o with | some old => old ++ ds | none => ds) k acc
  | [] => rfl
  | (k', v') :: rest => by simp only [extendAt, updAt, extendAt_eq_updAt k ds rest]

theorem keys_updAt (h : Option β → β) (k : κ) : ∀ acc : List (κ × β),
    (updAt h k acc).map Prod.fst = if k ∈ acc.map Prod.fst then acc.map Prod.fst else acc.map Prod.fst ++ [k]
  | [] => by simp [updAt]
  | (k', v') :: rest => by
    simp only [updAt]
    by_cases hk : k' = k
    · simp [hk]
    · have hk' : ¬ k = k' := fun e => hk e.symm
      simp only [hk, if_false, List.map_cons, keys_updAt h k rest, List.mem_cons, hk', false_or]
      split <;> simp

theorem nodup_keys_updAt (h : Option β → β) (k : κ) (acc : List (κ × β)) (hn : (acc.map Prod.fst).Nodup) :
    ((updAt h k acc).map Prod.fst).Nodup := by
  rw [keys_updAt]
  split
  · exact hn
  · rename_i hk
    exact List.nodup_append.mpr ⟨hn, by simp, by intro a ha b hb; simp at hb; subst hb; intro e; subst e; exact hk ha⟩

theorem updAt_perm (h : Option β → β) (k : κ) {l₁ l₂ : List (κ × β)} (hp : l₁.Perm l₂) :
    (l₁.map Prod.fst).Nodup → (updAt h k l₁).Perm (updAt h k l₂) := by
  induction hp with
  | nil => intro _; exact List.Perm.refl _
  | cons x _ ih =>
    intro hn
    obtain ⟨xk, xv⟩ := x
    simp only [updAt]
    by_cases hk : xk = k
    · simp only [hk, if_true]; exact List.Perm.cons _ ‹_›
    · simp only [hk, if_false]
      exact List.Perm.cons _ (ih (List.nodup_cons.mp hn).2)
  | swap x y l =>
    intro hn
    obtain ⟨xk, xv⟩ := x
    obtain ⟨yk, yv⟩ := y
    have hne : yk ≠ xk := by
      intro e
      simp [e] at hn
    simp only [updAt]
    by_cases hy : yk = k
    · have hx : ¬ xk = k := fun e => hne (hy.trans e.symm)
      simp only [hy, hx, if_true, if_false]
      exact List.Perm.swap _ _ _
    · by_cases hx : xk = k
      · simp only [hy, hx, if_true, if_false]
        exact List.Perm.swap _ _ _
      · simp only [hy, hx, if_false]
        exact List.Perm.swap _ _ _
  | trans hp1 _ ih1 ih2 =>
    intro hn
    exact (ih1 hn).trans (ih2 ((hp1.map Prod.fst).nodup_iff.mp hn))

theorem updAt_comm (h₁ h₂ : Option β → β) {k₁ k₂ : κ} (hne : k₁ ≠ k₂) : ∀ acc : List (κ × β),
    (updAt h₂ k₂ (updAt h₁ k₁ acc)).Perm (updAt h₁ k₁ (updAt h₂ k₂ acc))
  | [] => by
    have hne' : k₂ ≠ k₁ := fun e => hne e.symm
    simp only [updAt, hne, hne', if_false]
    exact List.Perm.swap _ _ _
  | (k', v') :: rest => by
    by_cases e1 : k' = k₁
    · have e2 : ¬ k' = k₂ := fun e => hne (e1.symm.trans e)
      simp only [updAt, e1, if_true]
      subst e1
      simp only [updAt, e2, if_true, if_false]
      exact List.Perm.refl _
    · by_cases e2 : k' = k₂
      · simp only [updAt, e2, if_true]
        subst e2
        simp only [updAt, e1, if_true, if_false]
        exact List.Perm.refl _
      · simp only [updAt, e1, e2, if_false]
        exact List.Perm.cons _ (updAt_comm h₁ h₂ hne rest)

end updAt

section fold
variable {κ β ε : Type}

/-- a fold of key-local updates: permuted accumulators (distinct keys) stay permuted -/
theorem foldl_perm_of_step (step : List (κ × β) → ε → List (κ × β))
    (hperm : ∀ e a₁ a₂, a₁.Perm a₂ → (a₁.map Prod.fst).Nodup → (step a₁ e).Perm (step a₂ e))
    (hnodup : ∀ e a, (a.map Prod.fst).Nodup → ((step a e).map Prod.fst).Nodup) :
    ∀ (evs : List ε) (a₁ a₂ : List (κ × β)), a₁.Perm a₂ → (a₁.map Prod.fst).Nodup →
      (evs.foldl step a₁).Perm (evs.foldl step a₂) ∧ ((evs.foldl step a₁).map Prod.fst).Nodup
  | [], _, _, hp, hn => ⟨hp, hn⟩
  | e :: evs, a₁, a₂, hp, hn => by
    simp only [List.foldl_cons]
    exact foldl_perm_of_step step hperm hnodup evs _ _ (hperm e a₁ a₂ hp hn) (hnodup e a₁ hn)

/-- swapping two adjacent events whose updates commute does not change the final table up to order -/
theorem foldl_swap_perm (step : List (κ × β) → ε → List (κ × β))
    (hperm : ∀ e a₁ a₂, a₁.Perm a₂ → (a₁.map Prod.fst).Nodup → (step a₁ e).Perm (step a₂ e))
    (hnodup : ∀ e a, (a.map Prod.fst).Nodup → ((step a e).map Prod.fst).Nodup)
    (e₁ e₂ : ε) (hcomm : ∀ a, (step (step a e₁) e₂).Perm (step (step a e₂) e₁))
    (pre post : List ε) :
    ((pre ++ e₁ :: e₂ :: post).foldl step []).Perm ((pre ++ e₂ :: e₁ :: post).foldl step []) ∧
    (((pre ++ e₁ :: e₂ :: post).foldl step []).map Prod.fst).Nodup := by
  simp only [List.foldl_append, List.foldl_cons]
  have h0 := foldl_perm_of_step step hperm hnodup pre [] [] (List.Perm.refl _) (by simp)
  exact foldl_perm_of_step step hperm hnodup post _ _ (hcomm _) (hnodup _ _ (hnodup _ _ h0.2))

end fold

end SnootyVerif.Determinism
