import SnootyVerif.Model.Sections
/-! helper lemmas for `Model/Sections.lean` -/
namespace SnootyVerif.Sections

/-! ## styles assigned by depth -/

def stylesUpTo (σ : Nat → Style) (n : Nat) : List Style := (List.range n).map σ

def Injective (σ : Nat → Style) : Prop := ∀ i j, σ i = σ j → i = j

theorem stylesUpTo_length (σ : Nat → Style) (n : Nat) : (stylesUpTo σ n).length = n := by
  simp [stylesUpTo]

theorem stylesUpTo_succ (σ : Nat → Style) (n : Nat) : stylesUpTo σ (n + 1) = stylesUpTo σ n ++ [σ n] := by
  simp [stylesUpTo, List.range_succ]

theorem indexOf_append_single (s x : Style) : ∀ (l : List Style),
    indexOf s (l ++ [x]) =
      match indexOf s l with
      | some i => some i
      | none => if x = s then some l.length else none := by
  intro l
  induction l with
  | nil => simp [indexOf]
  | cons y ys ih =>
    simp only [List.cons_append, indexOf]
    split
    · rfl
    · rw [ih]
      cases indexOf s ys with
      | some i => simp
      | none => simp only [Option.map_none]; split <;> simp

theorem indexOf_stylesUpTo (σ : Nat → Style) (hσ : Injective σ) (i : Nat) :
    ∀ n, indexOf (σ i) (stylesUpTo σ n) = if i < n then some i else none := by
  intro n
  induction n with
  | zero => simp [stylesUpTo, indexOf]
  | succ n ih =>
    rw [stylesUpTo_succ, indexOf_append_single, ih]
    by_cases h : i < n
    · simp [h, Nat.lt_succ_of_lt h]
    · simp only [h, if_false, stylesUpTo_length]
      by_cases h2 : i = n
      · subst h2; simp
      · have : ¬ σ n = σ i := fun e => h2 (hσ _ _ e).symm
        have h3 : ¬ i < n + 1 := by omega
        simp [this, h3]

/-! ## the five outcomes of `check_subsection` -/

theorem check_new_ok (m : Memo) (s : Style) (h : indexOf s m.styles = none) (hl : m.styles.length = m.level) :
    checkSubsection m s = .sub { m with styles := m.styles ++ [s] } := by
  simp [checkSubsection, h, hl]

theorem check_new_bad (m : Memo) (s : Style) (h : indexOf s m.styles = none) (hl : m.styles.length ≠ m.level) :
    checkSubsection m s = .inconsistent m := by
  simp [checkSubsection, h, hl]

theorem check_bubble (m : Memo) (s : Style) (i : Nat) (h : indexOf s m.styles = some i) (hl : i + 1 ≤ m.level) :
    checkSubsection m s = .bubble { m with level := i + 1 } := by
  simp [checkSubsection, h, hl]

theorem check_sub (m : Memo) (s : Style) (i : Nat) (h : indexOf s m.styles = some i) (hl : i = m.level) :
    checkSubsection m s = .sub m := by
  simp [checkSubsection, h, hl]

theorem check_skip (m : Memo) (s : Style) (i : Nat) (h : indexOf s m.styles = some i) (hl : m.level < i) :
    checkSubsection m s = .inconsistent m := by
  have h1 : ¬ i + 1 ≤ m.level := by omega
  have h2 : ¬ i = m.level := by omega
  simp [checkSubsection, h, h1, h2]

/-! ## frames -/

/-- the frame stack of a machine running at nesting depth `d`: the saved `mylevel`s are `d-1 … 0` -/
def GoodFrames : Nat → List Frame → Prop
  | 0, [] => True
  | d + 1, f :: fs => f.mylevel = d ∧ GoodFrames d fs
  | _, _ => False

theorem resume_pop (s : Style) (f : Frame) (fs : List Frame) (m : Memo) (cur : List Node)
    (h : m.level ≤ f.mylevel) :
    resume s (f :: fs) m cur = resume s fs m (f.kids ++ [Node.sec cur]) := by
  simp [resume, h]

theorem resume_redispatch (s : Style) (f : Frame) (fs : List Frame) (m : Memo) (cur : List Node)
    (h : ¬ m.level ≤ f.mylevel) :
    resume s (f :: fs) m cur =
      titleEvent s ⟨{ m with level := f.mylevel }, f.kids ++ [Node.sec cur], fs, false⟩ := by
  simp only [resume, h, if_false, titleEvent]

theorem run_cons (e : Ev) (evs : List Ev) (st : St) : run (e :: evs) st = run evs (step st e) := rfl

theorem run_append (a b : List Ev) (st : St) : run (a ++ b) st = run b (run a st) := by
  simp [run, List.foldl_append]

theorem run_others (m : Memo) (frames : List Frame) : ∀ (k : Nat) (cur : List Node) (evs : List Ev),
    run (List.replicate k Ev.other ++ evs) ⟨m, cur, frames, false⟩ =
      run evs ⟨m, cur ++ List.replicate k Node.other, frames, false⟩ := by
  intro k
  induction k with
  | zero => intro cur evs; simp
  | succ k ih =>
    intro cur evs
    rw [List.replicate_succ, List.cons_append, run_cons]
    simp only [step, Bool.false_eq_true, if_false]
    rw [ih]
    simp [List.replicate_succ]

/-! ## the invariant that excludes a halt of the root machine -/

def Inv (st : St) : Prop := st.halted = false ∧ GoodFrames st.memo.level st.frames

theorem resume_inv (s : Style) : ∀ (frames : List Frame) (d : Nat) (m : Memo) (cur : List Node) (i : Nat),
    GoodFrames d frames → indexOf s m.styles = some i → m.level = i + 1 → i + 1 ≤ d →
    Inv (resume s frames m cur) := by
  intro frames
  induction frames with
  | nil => intro d m cur i hg _ _ hle; cases d <;> simp [GoodFrames] at hg; omega
  | cons f fs ih =>
    intro d m cur i hg hidx hlev hle
    cases d with
    | zero => omega
    | succ d =>
      obtain ⟨hf, hg'⟩ := hg
      by_cases hp : m.level ≤ f.mylevel
      · rw [resume_pop _ _ _ _ _ hp]
        exact ih d m _ i hg' hidx hlev (by omega)
      · have hd : i = d := by omega
        rw [resume_redispatch _ _ _ _ _ hp]
        have hc : checkSubsection { m with level := f.mylevel } s = .sub { m with level := f.mylevel } :=
          check_sub _ s i hidx (by simp only [hf]; exact hd)
        simp only [titleEvent, hc]
        exact ⟨rfl, rfl, hf ▸ hg'⟩

theorem indexOf_lt (s : Style) : ∀ (l : List Style) (i : Nat), indexOf s l = some i → i < l.length := by
  intro l
  induction l with
  | nil => intro i h; simp [indexOf] at h
  | cons x xs ih =>
    intro i h
    simp only [indexOf] at h
    split at h
    · cases h; simp
    · cases hx : indexOf s xs with
      | none => simp [hx] at h
      | some j =>
        simp only [hx, Option.map_some, Option.some.injEq] at h
        subst h
        simp only [List.length_cons]
        exact Nat.succ_lt_succ (ih j hx)

theorem step_inv (st : St) (e : Ev) (h : Inv st) : Inv (step st e) := by
  obtain ⟨hh, hg⟩ := h
  simp only [step, hh, Bool.false_eq_true, if_false]
  cases e with
  | other => exact ⟨rfl, hg⟩
  | title s =>
    simp only [titleEvent]
    cases hidx : indexOf s st.memo.styles with
    | none =>
      by_cases hl : st.memo.styles.length = st.memo.level
      · rw [check_new_ok _ _ hidx hl]; exact ⟨rfl, rfl, hg⟩
      · rw [check_new_bad _ _ hidx hl]; exact ⟨rfl, hg⟩
    | some i =>
      by_cases hle : i + 1 ≤ st.memo.level
      · rw [check_bubble _ _ i hidx hle]
        exact resume_inv s st.frames st.memo.level _ st.cur i hg hidx rfl hle
      · by_cases heq : i = st.memo.level
        · rw [check_sub _ _ i hidx heq]; exact ⟨rfl, rfl, hg⟩
        · rw [check_skip _ _ i hidx (by omega)]; exact ⟨rfl, hg⟩

theorem run_inv : ∀ (evs : List Ev) (st : St), Inv st → Inv (run evs st) := by
  intro evs
  induction evs with
  | nil => intro st h; exact h
  | cons e es ih => intro st h; rw [run_cons]; exact ih _ (step_inv st e h)

/-! ## styles only grow, by appending styles not yet in the list -/

/-- `l'` extends `l` by styles that occur as titles in `evs`, and stays duplicate-free -/
def Grows (evs : List Ev) (l l' : List Style) : Prop :=
  ∃ ext, l' = l ++ ext ∧ (l.Nodup → l'.Nodup) ∧ ∀ s ∈ ext, Ev.title s ∈ evs

theorem indexOf_none_not_mem (s : Style) : ∀ (l : List Style), indexOf s l = none → s ∉ l := by
  intro l
  induction l with
  | nil => intro _; simp
  | cons x xs ih =>
    intro h
    simp only [indexOf] at h
    split at h
    · simp at h
    · next hx =>
      cases hi : indexOf s xs with
      | some j => simp [hi] at h
      | none =>
        simp only [List.mem_cons, not_or]
        exact ⟨fun e => hx e.symm, ih hi⟩

theorem resume_styles (s : Style) : ∀ (frames : List Frame) (m : Memo) (cur : List Node),
    (∃ i, indexOf s m.styles = some i) → (resume s frames m cur).memo.styles = m.styles := by
  intro frames
  induction frames with
  | nil => intro m cur _; rfl
  | cons f fs ih =>
    intro m cur hi
    obtain ⟨i, hi⟩ := hi
    by_cases hp : m.level ≤ f.mylevel
    · rw [resume_pop _ _ _ _ _ hp]; exact ih m _ ⟨i, hi⟩
    · rw [resume_redispatch _ _ _ _ _ hp]
      simp only [titleEvent]
      have hi' : indexOf s ({ m with level := f.mylevel } : Memo).styles = some i := hi
      by_cases hle : i + 1 ≤ f.mylevel
      · rw [check_bubble { m with level := f.mylevel } _ i hi' hle]; exact ih _ _ ⟨i, hi⟩
      · by_cases heq : i = f.mylevel
        · rw [check_sub { m with level := f.mylevel } _ i hi' heq]
        · rw [check_skip { m with level := f.mylevel } _ i hi' (by simp only; omega)]

theorem step_styles (st : St) (e : Ev) :
    (step st e).memo.styles = st.memo.styles ∨
      ∃ s, e = Ev.title s ∧ s ∉ st.memo.styles ∧ (step st e).memo.styles = st.memo.styles ++ [s] := by
  simp only [step]
  split
  · left; rfl
  · cases e with
    | other => left; rfl
    | title s =>
      simp only [titleEvent]
      cases hidx : indexOf s st.memo.styles with
      | none =>
        by_cases hl : st.memo.styles.length = st.memo.level
        · rw [check_new_ok _ _ hidx hl]
          right; exact ⟨s, rfl, indexOf_none_not_mem s _ hidx, rfl⟩
        · rw [check_new_bad _ _ hidx hl]; left; rfl
      | some i =>
        by_cases hle : i + 1 ≤ st.memo.level
        · rw [check_bubble _ _ i hidx hle]
          left; exact resume_styles s st.frames _ st.cur ⟨i, hidx⟩
        · by_cases heq : i = st.memo.level
          · rw [check_sub _ _ i hidx heq]; left; rfl
          · rw [check_skip _ _ i hidx (by omega)]; left; rfl

theorem run_grows : ∀ (evs : List Ev) (st : St), Grows evs st.memo.styles (run evs st).memo.styles := by
  intro evs
  induction evs with
  | nil => intro st; exact ⟨[], by simp [run], by simp [run], by simp⟩
  | cons e es ih =>
    intro st
    rw [run_cons]
    obtain ⟨ext, he, hn, hm⟩ := ih (step st e)
    rcases step_styles st e with h | ⟨s, rfl, hs, h⟩
    · rw [h] at he hn
      exact ⟨ext, he, hn, fun s hs => List.mem_cons_of_mem _ (hm s hs)⟩
    · rw [h] at he hn
      refine ⟨s :: ext, by simp [he], ?_, ?_⟩
      · intro hnd
        apply hn
        rw [List.nodup_append]
        refine ⟨hnd, by simp, ?_⟩
        intro a ha b hb
        simp only [List.mem_singleton] at hb
        subst hb
        intro e; subst e; exact hs ha
      · intro t ht
        simp only [List.mem_cons] at ht
        rcases ht with rfl | ht
        · exact List.mem_cons_self
        · exact List.mem_cons_of_mem _ (hm t ht)

/-! ## the round trip -/

mutual
  def secSize : Sec → Nat
    | .mk _ subs => secsSize subs + 2
  def secsSize : List Sec → Nat
    | [] => 0
    | s :: ss => secSize s + secsSize ss
end

def todoSize : List (List Sec) → Nat
  | [] => 0
  | ss :: rest => secsSize ss + 1 + todoSize rest

/-- events still to come: the pending siblings of the innermost level (depth `d`), then of the
enclosing levels -/
def rem (σ : Nat → Style) : Nat → List (List Sec) → List Ev
  | _, [] => []
  | d, ss :: rest => renderSecs σ d ss ++ rem σ (d - 1) rest

/-- the document that results when the pending siblings are added at every open level -/
def plug : List Node → List Frame → List (List Sec) → List Node
  | cur, [], [ss] => cur ++ secNodes ss
  | cur, f :: fs, ss :: rest => plug (f.kids ++ [Node.sec (cur ++ secNodes ss)]) fs rest
  | _, _, _ => []

theorem plug_cons_sec (s : Sec) (ss : List Sec) (rest : List (List Sec)) (cur : List Node) :
    ∀ (frames : List Frame), plug cur frames ((s :: ss) :: rest) = plug (cur ++ [secNode s]) frames (ss :: rest) := by
  intro frames
  cases frames with
  | nil =>
    cases rest with
    | nil => simp [plug, secNodes]
    | cons _ _ => simp [plug]
  | cons f fs => simp [plug, secNodes]

theorem rem_head (σ : Nat → Style) : ∀ (todo : List (List Sec)) (d : Nat),
    rem σ d todo = [] ∨ ∃ e evs, e ≤ d ∧ rem σ d todo = Ev.title (σ e) :: evs := by
  intro todo
  induction todo with
  | nil => intro d; left; rfl
  | cons ss rest ih =>
    intro d
    cases ss with
    | nil =>
      simp only [rem, renderSecs, List.nil_append]
      rcases ih (d - 1) with h | ⟨e, evs, hle, h⟩
      · left; exact h
      · right; exact ⟨e, evs, by omega, h⟩
    | cons s ss =>
      right
      cases s with
      | mk body subs =>
        exact ⟨d, _, Nat.le_refl _, by simp only [rem, renderSecs, renderSec, List.cons_append]; rfl⟩

/-- a pending title that is a sibling/supersection of the innermost open section acts the same
whether or not that section has already been closed -/
theorem step_pop_equiv (σ : Nat → Style) (hσ : Injective σ) (d n e : Nat) (cur : List Node)
    (f : Frame) (fs : List Frame) (hf : f.mylevel = d) (hn : d + 1 ≤ n) (he : e ≤ d) :
    step ⟨⟨stylesUpTo σ n, d + 1⟩, cur, f :: fs, false⟩ (Ev.title (σ e)) =
      step ⟨⟨stylesUpTo σ n, d⟩, f.kids ++ [Node.sec cur], fs, false⟩ (Ev.title (σ e)) := by
  have hidx : indexOf (σ e) (stylesUpTo σ n) = some e := by
    rw [indexOf_stylesUpTo σ hσ]; simp; omega
  simp only [step, Bool.false_eq_true, if_false]
  have hb : checkSubsection ⟨stylesUpTo σ n, d + 1⟩ (σ e) = .bubble ⟨stylesUpTo σ n, e + 1⟩ := by
    simp only [checkSubsection, hidx]
    have : e + 1 ≤ d + 1 := by omega
    simp [this]
  conv => lhs; simp only [titleEvent, hb]
  by_cases hlt : e + 1 ≤ d
  · -- keeps bubbling: the outer machine bubbles too
    rw [resume_pop _ _ _ _ _ (by simp only [hf]; exact hlt)]
    have hb2 : checkSubsection ⟨stylesUpTo σ n, d⟩ (σ e) = .bubble ⟨stylesUpTo σ n, e + 1⟩ := by
      simp only [checkSubsection, hidx]
      simp [hlt]
    simp only [titleEvent, hb2]
  · rw [resume_redispatch _ _ _ _ _ (by simp only [hf]; exact hlt)]
    simp only [hf]

theorem run_rem (σ : Nat → Style) (hσ : Injective σ) :
    ∀ (k : Nat) (todo : List (List Sec)) (d n : Nat) (cur : List Node) (frames : List Frame),
      todoSize todo ≤ k → todo.length = d + 1 → GoodFrames d frames → d ≤ n →
      ∃ n', n ≤ n' ∧
        close (run (rem σ d todo) ⟨⟨stylesUpTo σ n, d⟩, cur, frames, false⟩).cur
            (run (rem σ d todo) ⟨⟨stylesUpTo σ n, d⟩, cur, frames, false⟩).frames = plug cur frames todo ∧
        (run (rem σ d todo) ⟨⟨stylesUpTo σ n, d⟩, cur, frames, false⟩).halted = false ∧
        (run (rem σ d todo) ⟨⟨stylesUpTo σ n, d⟩, cur, frames, false⟩).memo.styles = stylesUpTo σ n' := by
  intro k
  induction k with
  | zero =>
    intro todo d n cur frames hk hlen _ _
    cases todo with
    | nil => simp at hlen
    | cons ss rest => simp [todoSize] at hk
  | succ k ih =>
    intro todo d n cur frames hk hlen hg hdn
    match todo, hlen, hk with
    | [], hlen, _ => simp at hlen
    | [] :: rest, hlen, hk =>
      -- the innermost level has no pending sibling
      cases frames with
      | nil =>
        cases d with
        | zero =>
          have : rest = [] := by
            cases rest with
            | nil => rfl
            | cons _ _ => simp at hlen
          subst this
          exact ⟨n, Nat.le_refl _, by simp [rem, renderSecs, run, close, plug, secNodes], rfl, rfl⟩
        | succ d => exact False.elim hg
      | cons f fs =>
        cases d with
        | zero => exact False.elim hg
        | succ d =>
          obtain ⟨hf, hg'⟩ := hg
          cases rest with
          | nil => simp at hlen
          | cons ss' rest' =>
            have hrem : rem σ (d + 1) ([] :: ss' :: rest') = rem σ d (ss' :: rest') := by
              simp [rem, renderSecs]
            have hsize : todoSize (ss' :: rest') ≤ k := by
              simp only [todoSize, secsSize] at hk ⊢; omega
            have hlen' : (ss' :: rest').length = d + 1 := by simpa using hlen
            obtain ⟨n', hn', hc, hh, hs⟩ :=
              ih (ss' :: rest') d n (f.kids ++ [Node.sec cur]) fs hsize hlen' hg' (by omega)
            have hplug : plug cur (f :: fs) ([] :: ss' :: rest') =
                plug (f.kids ++ [Node.sec cur]) fs (ss' :: rest') := by
              simp [plug, secNodes]
            rw [hrem, hplug]
            rcases rem_head σ (ss' :: rest') d with h0 | ⟨e, evs, hle, h1⟩
            · rw [h0] at hc hh hs ⊢
              exact ⟨n', hn', by simpa [run, close] using hc, by simpa [run] using hh, by simpa [run] using hs⟩
            · rw [h1] at hc hh hs ⊢
              rw [run_cons] at hc hh hs ⊢
              rw [step_pop_equiv σ hσ d n e cur f fs hf hdn hle]
              exact ⟨n', hn', hc, hh, hs⟩
    | (Sec.mk body subs :: ss) :: rest, hlen, hk =>
      have hrem : rem σ d ((Sec.mk body subs :: ss) :: rest) =
          Ev.title (σ d) :: (List.replicate body Ev.other ++ rem σ (d + 1) (subs :: ss :: rest)) := by
        simp [rem, renderSecs, renderSec, List.append_assoc]
      have hsize : todoSize (subs :: ss :: rest) ≤ k := by
        simp only [todoSize, secsSize, secSize] at hk ⊢; omega
      have hlen' : (subs :: ss :: rest).length = (d + 1) + 1 := by simpa using hlen
      -- the title is accepted as an immediate subsection
      have hstep : ∃ n1, n ≤ n1 ∧ d + 1 ≤ n1 ∧
          step ⟨⟨stylesUpTo σ n, d⟩, cur, frames, false⟩ (Ev.title (σ d)) =
            ⟨⟨stylesUpTo σ n1, d + 1⟩, [], ⟨d, cur⟩ :: frames, false⟩ := by
        simp only [step, Bool.false_eq_true, if_false, titleEvent, checkSubsection]
        rw [indexOf_stylesUpTo σ hσ]
        by_cases hlt : d < n
        · refine ⟨n, Nat.le_refl _, hlt, ?_⟩
          have : ¬ d + 1 ≤ d := by omega
          simp [hlt, this]
        · have hnd : n = d := by omega
          subst hnd
          refine ⟨n + 1, by omega, Nat.le_refl _, ?_⟩
          simp [stylesUpTo_length, stylesUpTo_succ]
      obtain ⟨n1, hn1, hdn1, hst⟩ := hstep
      obtain ⟨n', hn', hc, hh, hs⟩ :=
        ih (subs :: ss :: rest) (d + 1) n1 (List.replicate body Node.other) (⟨d, cur⟩ :: frames)
          hsize hlen' ⟨rfl, hg⟩ hdn1
      rw [hrem, run_cons, hst, run_others]
      simp only [List.nil_append]
      refine ⟨n', by omega, ?_, hh, hs⟩
      rw [hc, plug_cons_sec]
      simp [plug, secNode]

theorem renderSkeleton_rem (σ : Nat → Style) (subs : List Sec) : renderSecs σ 0 subs = rem σ 0 [subs] := by
  simp [rem]

theorem todoSize_single (subs : List Sec) : todoSize [subs] = secsSize subs + 1 := by simp [todoSize]

end SnootyVerif.Sections

namespace SnootyVerif.Sections

theorem replicate_split : ∀ (b1 b2 : Nat) (x y : List Node),
    x.head? ≠ some Node.other → y.head? ≠ some Node.other →
    List.replicate b1 Node.other ++ x = List.replicate b2 Node.other ++ y → b1 = b2 ∧ x = y := by
  intro b1
  induction b1 with
  | zero =>
    intro b2 x y hx hy h
    cases b2 with
    | zero => exact ⟨rfl, by simpa using h⟩
    | succ b2 =>
      simp only [List.replicate_zero, List.nil_append, List.replicate_succ, List.cons_append] at h
      rw [h] at hx; simp at hx
  | succ b1 ih =>
    intro b2 x y hx hy h
    cases b2 with
    | zero =>
      simp only [List.replicate_zero, List.nil_append, List.replicate_succ, List.cons_append] at h
      rw [← h] at hy; simp at hy
    | succ b2 =>
      simp only [List.replicate_succ, List.cons_append, List.cons.injEq, true_and] at h
      obtain ⟨h1, h2⟩ := ih b2 x y hx hy h
      exact ⟨by rw [h1], h2⟩

theorem secNodes_head (ss : List Sec) : (secNodes ss).head? ≠ some Node.other := by
  cases ss with
  | nil => simp [secNodes]
  | cons s ss => cases s; simp [secNodes, secNode]

mutual
  theorem secNode_inj : ∀ (a b : Sec), secNode a = secNode b → a = b
    | .mk b1 s1, .mk b2 s2, h => by
      simp only [secNode, Node.sec.injEq] at h
      obtain ⟨hb, hs⟩ := replicate_split b1 b2 _ _ (secNodes_head s1) (secNodes_head s2) h
      rw [hb, secNodes_inj s1 s2 hs]
  theorem secNodes_inj : ∀ (a b : List Sec), secNodes a = secNodes b → a = b
    | [], [], _ => rfl
    | [], _ :: _, h => by simp [secNodes] at h
    | _ :: _, [], h => by simp [secNodes] at h
    | x :: xs, y :: ys, h => by
      simp only [secNodes, List.cons.injEq] at h
      rw [secNode_inj x y h.1, secNodes_inj xs ys h.2]
end

theorem docNodes_inj (t1 t2 : Doc) (h : docNodes t1 = docNodes t2) : t1 = t2 := by
  obtain ⟨b1, s1⟩ := t1
  obtain ⟨b2, s2⟩ := t2
  simp only [docNodes] at h
  obtain ⟨hb, hs⟩ := replicate_split b1 b2 _ _ (secNodes_head s1) (secNodes_head s2) h
  rw [hb, secNodes_inj s1 s2 hs]

end SnootyVerif.Sections
