import SnootyVerif.Model.Handlers
namespace SnootyVerif.Handlers

/-- the loop, entered with `starting_point` inside the pattern, never indexes past it and answers whether the rest of the
pattern is a subsequence of the rest of the stack -/
theorem scanLoop_spec (pattern : List String) :
    ∀ (stack : List String) (sp : Nat), sp < pattern.length →
      ∃ b, scanLoop pattern sp stack = .ok b ∧ (b = true ↔ (pattern.drop sp).Sublist stack)
  | [], sp, h => by
    refine ⟨false, rfl, ?_⟩
    constructor
    · intro hb; cases hb
    · intro hs
      have : pattern.drop sp = [] := List.sublist_nil.mp hs
      have hl : (pattern.drop sp).length = pattern.length - sp := List.length_drop
      rw [this] at hl
      simp at hl
      omega
  | item :: rest, sp, h => by
    have hget : pattern[sp]? = some pattern[sp] := List.getElem?_eq_getElem h
    have hdrop : pattern.drop sp = pattern[sp] :: pattern.drop (sp + 1) := List.drop_eq_getElem_cons h
    unfold scanLoop
    simp only [hget]
    by_cases hi : item = pattern[sp]
    · have hb : (item == pattern[sp]) = true := by simp [hi]
      simp only [hb, if_true]
      by_cases hend : sp + 1 ≥ pattern.length
      · simp only [hend, if_true]
        refine ⟨true, rfl, ?_⟩
        have : pattern.drop (sp + 1) = [] := List.drop_eq_nil_of_le hend
        rw [hdrop, this, hi]
        simp
      · simp only [hend, if_false]
        obtain ⟨b, hb1, hb2⟩ := scanLoop_spec pattern rest (sp + 1) (by omega)
        refine ⟨b, hb1, ?_⟩
        rw [hb2, hdrop, hi]
        exact (List.cons_sublist_cons).symm
    · have hb : (item == pattern[sp]) = false := by simp [hi]
      simp only [hb, Bool.false_eq_true, if_false]
      have hnot : ¬ sp ≥ pattern.length := by omega
      simp only [hnot, if_false]
      obtain ⟨b, hb1, hb2⟩ := scanLoop_spec pattern rest sp h
      refine ⟨b, hb1, ?_⟩
      rw [hb2, hdrop]
      constructor
      · intro hs; exact List.Sublist.cons _ hs
      · intro hs
        cases hs with
        | cons _ h' => exact h'
        | cons_cons _ h' => exact absurd rfl hi

end SnootyVerif.Handlers
