import SnootyVerif.Model.Giza
/-! Helper lemmas for property C18 (Giza YAML). -/
namespace SnootyVerif.Giza

/-! ### substitution -/

theorem spanName_length (p : Char → Bool) (t : Text) :
    (spanName p t).1.length + (spanName p t).2.length = t.length := by
  induction t with
  | nil => simp [spanName]
  | cons c cs ih =>
    unfold spanName
    split
    · simp; omega
    · simp

theorem spanName_run (p : Char → Bool) (k rest : Text) (stop : Char)
    (hk : ∀ c ∈ k, p c = true) (hs : p stop = false) :
    spanName p (k ++ stop :: rest) = (k, stop :: rest) := by
  induction k with
  | nil => simp [spanName, hs]
  | cons c cs ih =>
    have hc : p c = true := hk c (by simp)
    have := ih (fun x hx => hk x (by simp [hx]))
    simp [spanName, hc, this]

theorem matchAt_length (p : Char → Bool) (t nm rest : Text) (h : matchAt p t = some (nm, rest)) :
    rest.length < t.length := by
  unfold matchAt at h
  split at h
  · rename_i r
    have hl := spanName_length p r
    split at h
    · cases h
    · rename_i nm' rest' heq
      cases h
      rw [heq] at hl
      simp at hl ⊢
      omega
    · cases h
  · cases h

theorem substAux_fuel (p : Char → Bool) (env : Text → Option Text) :
    ∀ (f g : Nat) (t : Text), t.length ≤ f → t.length ≤ g → substAux p env f t = substAux p env g t := by
  intro f
  induction f with
  | zero =>
    intro g t hf hg
    have : t = [] := by cases t <;> simp_all
    subst this
    cases g <;> simp [substAux]
  | succ f ih =>
    intro g t hf hg
    cases t with
    | nil => cases g <;> simp [substAux]
    | cons c cs =>
      cases g with
      | zero => simp at hg
      | succ g =>
        simp only [List.length_cons] at hf hg
        unfold substAux
        split
        · rename_i nm rest hm
          have hl := matchAt_length p _ _ _ hm
          simp only [List.length_cons] at hl
          rw [ih g rest (by omega) (by omega)]
        · rw [ih g cs (by omega) (by omega)]

theorem substAux_succ_cons (p : Char → Bool) (env : Text → Option Text) (f : Nat) (c : Char) (cs : Text) :
    substAux p env (f + 1) (c :: cs) =
      match matchAt p (c :: cs) with
      | some (nm, rest) =>
        match env nm with
        | some v => (v ++ (substAux p env f rest).1, (substAux p env f rest).2)
        | none => ((substAux p env f rest).1, Diag.unknownSubstitution nm :: (substAux p env f rest).2)
      | none => (c :: (substAux p env f cs).1, (substAux p env f cs).2) := by
  rw [substAux]
  cases matchAt p (c :: cs) with
  | none => rfl
  | some x => cases x; rfl

theorem substituteText_nil (p : Char → Bool) (env : Text → Option Text) :
    substituteText p env [] = ([], []) := by
  simp [substituteText, substAux]

theorem matchAt_not_brace (p : Char → Bool) (c : Char) (cs : Text) (h : c ≠ '{') :
    matchAt p (c :: cs) = none := by
  unfold matchAt
  split
  · rename_i heq
    cases heq
    exact absurd rfl h
  · rfl

theorem substituteText_cons_other (p : Char → Bool) (env : Text → Option Text) (c : Char) (cs : Text)
    (h : c ≠ '{') :
    substituteText p env (c :: cs) = (c :: (substituteText p env cs).1, (substituteText p env cs).2) := by
  simp only [substituteText, List.length_cons]
  rw [substAux_succ_cons, matchAt_not_brace p c cs h]

theorem matchAt_placeholder (p : Char → Bool) (k post : Text) (hne : k ≠ [])
    (hk : ∀ c ∈ k, p c = true) (hB : p '}' = false) :
    matchAt p ('{' :: '{' :: (k ++ '}' :: '}' :: post)) = some (k, post) := by
  cases k with
  | nil => exact absurd rfl hne
  | cons a as =>
    unfold matchAt
    simp only [spanName_run p (a :: as) ('}' :: post) '}' hk hB]

theorem substituteText_placeholder (p : Char → Bool) (env : Text → Option Text) (k post : Text)
    (hne : k ≠ []) (hk : ∀ c ∈ k, p c = true) (hB : p '}' = false) :
    substituteText p env ('{' :: '{' :: (k ++ '}' :: '}' :: post)) =
      match env k with
      | some v => (v ++ (substituteText p env post).1, (substituteText p env post).2)
      | none => ((substituteText p env post).1, Diag.unknownSubstitution k :: (substituteText p env post).2) := by
  simp only [substituteText, List.length_cons]
  rw [substAux_succ_cons, matchAt_placeholder p k post hne hk hB]
  simp only
  rw [substAux_fuel p env _ post.length post (by simp; omega) (Nat.le_refl _)]

/-! ### inherit -/

theorem addMissing_lookup (k : Text) : ∀ (ps acc : Repl),
    (addMissing acc ps).lookup k =
      match acc.lookup k with
      | some v => some v
      | none => ps.lookup k := by
  intro ps
  induction ps with
  | nil => intro acc; simp [addMissing]; cases acc.lookup k <;> rfl
  | cons kv ps ih =>
    intro acc
    obtain ⟨k', v'⟩ := kv
    unfold addMissing
    split
    · rename_i hsome
      rw [ih acc]
      cases hk : acc.lookup k with
      | some v => rfl
      | none =>
        simp only [List.lookup_cons]
        have hne : (k == k') = false := by
          cases hkk : (k == k') with
          | false => rfl
          | true =>
            have : k = k' := by simpa using hkk
            subst this
            rw [hk] at hsome
            cases hsome
        simp [hne]
    · rename_i hnone
      rw [ih (acc ++ [(k', v')])]
      rw [List.lookup_append]
      cases hk : acc.lookup k with
      | some v => simp
      | none =>
        simp only [Option.none_or, List.lookup_cons, List.lookup_nil]
        cases hkk : (k == k') <;> simp

theorem mergeFields_get (i : Nat) : ∀ (c p : List (Option Val)),
    ((mergeFields c p)[i]?).join =
      match (c[i]?).join with
      | some v => some v
      | none => (p[i]?).join := by
  induction i with
  | zero =>
    intro c p
    cases c with
    | nil => simp [mergeFields]
    | cons a as =>
      cases p with
      | nil => simp [mergeFields]; cases a <;> rfl
      | cons b bs => cases a <;> simp [mergeFields]
  | succ i ih =>
    intro c p
    cases c with
    | nil => simp [mergeFields]
    | cons a as =>
      cases p with
      | nil =>
        simp [mergeFields]
        cases h : (as[i]?).join <;> simp
      | cons b bs =>
        simp only [mergeFields, List.getElem?_cons_succ]
        exact ih as bs

theorem firstSome_single {α : Type} (x : Option α) : firstSome [x] = x := by
  cases x <;> rfl

theorem firstSome_cons {α : Type} (x : Option α) (xs : List (Option α)) :
    firstSome (x :: xs) = match x with | some v => some v | none => firstSome xs := by
  cases x <;> rfl

/-! ### registry keys and the termination measure -/

theorem lookup_mem (reg : Registry) (f : String) (seq : List Entry) (h : reg.lookup f = some seq) :
    (f, seq) ∈ reg := by
  induction reg with
  | nil => simp at h
  | cons fe rest ih =>
    obtain ⟨f', s'⟩ := fe
    simp only [List.lookup_cons] at h
    cases hff : (f == f') with
    | true =>
      simp [hff] at h
      have : f = f' := by simpa using hff
      subst this; subst h
      simp
    | false =>
      simp [hff] at h
      exact List.mem_cons_of_mem _ (ih h)

theorem findParent_spec (seq : List Entry) (r : Text) (par : Entry) (h : findParent seq r = some par) :
    par ∈ seq ∧ getRef par = some r := by
  unfold findParent at h
  constructor
  · exact List.mem_of_find?_eq_some h
  · have := List.find?_some h
    simpa using this

theorem mem_allKeys (reg : Registry) (f : String) (seq : List Entry) (r : Text) (par : Entry)
    (h1 : reg.lookup f = some seq) (h2 : findParent seq r = some par) : (f, r) ∈ allKeys reg := by
  have hm := lookup_mem reg f seq h1
  obtain ⟨hp, hr⟩ := findParent_spec seq r par h2
  unfold allKeys
  rw [List.mem_flatMap]
  refine ⟨(f, seq), hm, ?_⟩
  rw [List.mem_filterMap]
  exact ⟨par, hp, by simp [hr]⟩

theorem filter_length_lt {α : Type} (p q : α → Bool) (l : List α) (himp : ∀ x, q x = true → p x = true)
    (k : α) (hk : k ∈ l) (hpk : p k = true) (hqk : q k = false) :
    (l.filter q).length < (l.filter p).length := by
  induction l with
  | nil => cases hk
  | cons a as ih =>
    have hle : (as.filter q).length ≤ (as.filter p).length := by
      clear ih hk
      induction as with
      | nil => simp
      | cons b bs ihb =>
        simp only [List.filter_cons]
        cases hq : q b with
        | true => simp [himp b hq]; exact ihb
        | false => cases hp : p b <;> simp <;> omega
    simp only [List.filter_cons]
    rcases List.mem_cons.mp hk with rfl | hmem
    · simp [hpk, hqk]; omega
    · have := ih hmem
      cases hq : q a with
      | true => simp [himp a hq]; exact this
      | false => cases hp : p a <;> simp <;> omega

theorem remaining_lt (reg : Registry) (cs : List Key) (k : Key) (hk : k ∈ allKeys reg) (hn : k ∉ cs) :
    remaining reg (k :: cs) < remaining reg cs := by
  unfold remaining
  apply filter_length_lt (fun x => !(cs.contains x)) (fun x => !((k :: cs).contains x)) (allKeys reg) _ k hk
  · simpa using hn
  · simp
  · intro x hx
    simp at hx ⊢
    exact hx.2

theorem remaining_le (reg : Registry) (cs : List Key) : remaining reg cs < topFuel reg := by
  unfold remaining topFuel
  have := List.length_filter_le (fun k => !(cs.contains k)) (allKeys reg)
  omega

/-! ### resolve -/

theorem resolve_fuel_sufficient (reg : Registry) : ∀ (fuel : Nat) (cs : List Key) (e : Entry),
    remaining reg cs < fuel → ∃ r, resolve reg fuel cs e = .ok r := by
  intro fuel
  induction fuel with
  | zero => intro cs e h; omega
  | succ n ih =>
    intro cs e h
    rw [resolve]
    split
    · exact ⟨_, rfl⟩
    · split
      · exact ⟨_, rfl⟩
      · split
        · exact ⟨_, rfl⟩
        · rename_i _ pid _ _ seq hl _ par hf
          simp only
          split
          · exact ⟨_, rfl⟩
          · rename_i hnot
            have hk := mem_allKeys reg _ _ _ _ hl hf
            have hlt := remaining_lt reg cs _ hk hnot
            obtain ⟨r, hr⟩ := ih ((pid.file, pid.ref) :: cs) par (by omega)
            rw [hr]; exact ⟨_, rfl⟩

theorem fixRef_fields (e : Entry) : (fixRef e).fields = e.fields := by
  unfold fixRef; split <;> rfl

theorem fixRef_replacement (e : Entry) : (fixRef e).replacement = e.replacement := by
  unfold fixRef; split <;> rfl

theorem fixRef_ref_isSome (e : Entry) : ∃ r, (fixRef e).ref = some r := by
  unfold fixRef; split
  · exact ⟨[], rfl⟩
  · rename_i r h; exact ⟨r, h⟩

theorem fixRef_truthy (e : Entry) (h : truthy e.ref = true) : fixRef e = e := by
  unfold fixRef; split
  · rename_i hn; rw [hn] at h; cases h
  · rfl

theorem fieldAt_inherit_some (o p : Entry) (i : Nat) :
    fieldAt (inheritFrom o (some p)) i =
      match fieldAt o i with
      | some v => some v
      | none => fieldAt p i := by
  simp only [fieldAt, inheritFrom]
  exact mergeFields_get i o.fields p.fields

theorem fieldAt_inherit_none (o : Entry) (i : Nat) : fieldAt (inheritFrom o none) i = fieldAt o i := rfl

theorem replAt_inherit_none (o : Entry) (k : Text) : replAt (inheritFrom o none) k = replAt o k := by
  simp only [replAt, inheritFrom]
  cases o.replacement <;> rfl

theorem replAt_inherit_some (o p : Entry) (k : Text) :
    replAt (inheritFrom o (some p)) k =
      match replAt o k with
      | some v => some v
      | none => replAt p k := by
  simp only [replAt, inheritFrom]
  cases hp : p.replacement with
  | none =>
    cases ho : o.replacement with
    | none => rfl
    | some t => simp only; cases t.lookup k <;> rfl
  | some pr =>
    simp only
    rw [addMissing_lookup]
    cases ho : o.replacement with
    | none => rfl
    | some t => rfl

/-- the entry whose ref was possibly adopted from the parent: same fields and replacements -/
theorem adopt_fieldAt (e : Entry) (x : Option Text) (i : Nat) :
    fieldAt (fixRef (if truthy e.ref = true then e else { e with ref := x })) i = fieldAt e i := by
  simp only [fieldAt, fixRef_fields]
  split <;> rfl

theorem adopt_replAt (e : Entry) (x : Option Text) (k : Text) :
    replAt (fixRef (if truthy e.ref = true then e else { e with ref := x })) k = replAt e k := by
  have h : (if truthy e.ref = true then e else { e with ref := x }).replacement = e.replacement := by
    split <;> rfl
  simp only [replAt, fixRef_replacement, h]

theorem resolve_chain (reg : Registry) : ∀ (n : Nat) (cs : List Key) (e : Entry) (r : Resolved),
    (∀ k ∈ chainKeys reg n e, k ∉ cs) → (chainKeys reg n e).Nodup →
    resolve reg n cs e = .ok r →
    (∀ i, fieldAt r.entry i = mergeChainField (e :: chain reg n e) i) ∧
    (∀ k, replAt r.entry k = mergeChainRepl (e :: chain reg n e) k) ∧
    Diag.inheritanceCycle ∉ r.diags := by
  intro n
  induction n with
  | zero => intro cs e r _ _ h; simp [resolve] at h
  | succ n ih =>
    intro cs e r hk hnd h
    rw [resolve] at h
    rw [chain]
    rw [chainKeys] at hk hnd
    cases hp : parentInfo e with
    | none =>
      simp only [hp] at h ⊢
      cases h
      refine ⟨fun i => ?_, fun k => ?_, by simp⟩
      · rw [fieldAt_inherit_none]
        simp only [mergeChainField, List.map, firstSome_single, fieldAt, fixRef_fields]
      · rw [replAt_inherit_none]
        simp only [mergeChainRepl, List.map, firstSome_single, replAt, fixRef_replacement]
    | some pid =>
      simp only [hp] at h hk hnd ⊢
      cases hl : reg.lookup pid.file with
      | none =>
        simp only [hl] at h ⊢
        cases h
        exact ⟨fun i => by simp [mergeChainField, firstSome_single], fun k => by simp [mergeChainRepl, firstSome_single], by simp⟩
      | some seq =>
        simp only [hl] at h hk hnd ⊢
        cases hf : findParent seq pid.ref with
        | none =>
          simp only [hf] at h ⊢
          cases h
          exact ⟨fun i => by simp [mergeChainField, firstSome_single], fun k => by simp [mergeChainRepl, firstSome_single], by simp⟩
        | some par =>
          simp only [hf] at h hk hnd ⊢
          have hnot : (pid.file, pid.ref) ∉ cs := hk _ (by simp)
          simp only [hnot, if_false] at h
          cases hr : resolve reg n ((pid.file, pid.ref) :: cs) par with
          | error x => rw [hr] at h; cases h
          | ok r' =>
            rw [hr] at h
            simp only at h
            cases h
            have hnd' := List.nodup_cons.mp hnd
            obtain ⟨ihf, ihr, ihc⟩ := ih ((pid.file, pid.ref) :: cs) par r'
              (by
                intro k hkm
                simp only [List.mem_cons, not_or]
                refine ⟨?_, hk k (List.mem_cons_of_mem _ hkm)⟩
                intro heq
                subst heq
                exact hnd'.1 hkm)
              hnd'.2 hr
            refine ⟨fun i => ?_, fun k => ?_, ihc⟩
            · rw [fieldAt_inherit_some, adopt_fieldAt, ihf i]
              simp only [mergeChainField, List.map, firstSome_cons]
              cases fieldAt e i <;> cases fieldAt par i <;> rfl
            · rw [replAt_inherit_some, adopt_replAt, ihr k]
              simp only [mergeChainRepl, List.map, firstSome_cons]
              cases replAt e k <;> cases replAt par k <;> rfl

theorem resolve_cycle (reg : Registry) : ∀ (n : Nat) (cs : List Key) (e : Entry) (r : Resolved),
    resolve reg n cs e = .ok r →
    (¬ (chainKeys reg n e).Nodup ∨ ∃ k ∈ chainKeys reg n e, k ∈ cs) →
    Diag.inheritanceCycle ∈ r.diags := by
  intro n
  induction n with
  | zero => intro cs e r h; simp [resolve] at h
  | succ n ih =>
    intro cs e r h hc
    rw [resolve] at h
    rw [chainKeys] at hc
    cases hp : parentInfo e with
    | none => simp [hp] at hc
    | some pid =>
      simp only [hp] at h hc
      cases hl : reg.lookup pid.file with
      | none => simp [hl] at hc
      | some seq =>
        simp only [hl] at h hc
        cases hf : findParent seq pid.ref with
        | none => simp [hf] at hc
        | some par =>
          simp only [hf] at h hc
          by_cases hin : (pid.file, pid.ref) ∈ cs
          · simp only [hin, if_true] at h
            cases h
            simp
          · simp only [hin, if_false] at h
            cases hr : resolve reg n ((pid.file, pid.ref) :: cs) par with
            | error x => rw [hr] at h; cases h
            | ok r' =>
              rw [hr] at h
              simp only at h
              cases h
              apply ih ((pid.file, pid.ref) :: cs) par r' hr
              rcases hc with hnd | ⟨k, hk, hkc⟩
              · rw [List.nodup_cons] at hnd
                by_cases hmem : (pid.file, pid.ref) ∈ chainKeys reg n par
                · exact Or.inr ⟨_, hmem, by simp⟩
                · exact Or.inl (fun h2 => hnd ⟨hmem, h2⟩)
              · rcases List.mem_cons.mp hk with rfl | hk'
                · exact absurd hkc hin
                · exact Or.inr ⟨k, hk', List.mem_cons_of_mem _ hkc⟩

theorem inheritFrom_ref (o : Entry) (p : Option Entry) : (inheritFrom o p).ref = o.ref := by
  cases p <;> rfl

theorem resolve_ref (reg : Registry) (n : Nat) (cs : List Key) (e : Entry) (r : Resolved)
    (h : resolve reg n cs e = .ok r) (ht : truthy e.ref = true) : r.entry.ref = e.ref := by
  cases n with
  | zero => simp [resolve] at h
  | succ n =>
    rw [resolve] at h
    simp only [ht, if_true] at h
    split at h
    · cases h; simp only [inheritFrom_ref, fixRef_truthy e ht]
    · split at h
      · cases h; rfl
      · split at h
        · cases h; rfl
        · split at h
          · cases h; rfl
          · split at h
            · cases h
            · cases h; simp only [inheritFrom_ref, fixRef_truthy e ht]

theorem resolve_congr (reg reg' : Registry) : ∀ (n : Nat) (cs : List Key) (e : Entry),
    (∀ p ∈ ptrs reg n e, answer reg p = answer reg' p) → resolve reg n cs e = resolve reg' n cs e := by
  intro n
  induction n with
  | zero => intro cs e _; rfl
  | succ n ih =>
    intro cs e h
    rw [resolve, resolve]
    rw [ptrs] at h
    cases hp : parentInfo e with
    | none => rfl
    | some pid =>
      simp only [hp] at h ⊢
      have ha := h pid (by simp)
      unfold answer at ha
      cases hl : reg.lookup pid.file with
      | none =>
        cases hl' : reg'.lookup pid.file with
        | none => rfl
        | some seq' => rw [hl, hl'] at ha; cases ha
      | some seq =>
        cases hl' : reg'.lookup pid.file with
        | none => rw [hl, hl'] at ha; cases ha
        | some seq' =>
          rw [hl, hl'] at ha
          simp only [Option.some.injEq] at ha
          simp only [hl] at h
          simp only [← ha]
          cases hf : findParent seq pid.ref with
          | none => rfl
          | some par =>
            simp only [hf] at h ⊢
            rw [ih ((pid.file, pid.ref) :: cs) par (fun p hp' => h p (List.mem_cons_of_mem _ hp'))]

theorem resolve_mono (reg : Registry) : ∀ (n : Nat) (cs : List Key) (e : Entry) (r : Resolved),
    resolve reg n cs e = .ok r → resolve reg (n + 1) cs e = .ok r := by
  intro n
  induction n with
  | zero => intro cs e r h; simp [resolve] at h
  | succ n ih =>
    intro cs e r h
    rw [resolve] at h ⊢
    cases hp : parentInfo e with
    | none => simp only [hp] at h ⊢; exact h
    | some pid =>
      simp only [hp] at h ⊢
      cases hl : reg.lookup pid.file with
      | none => simp only [hl] at h ⊢; exact h
      | some seq =>
        simp only [hl] at h ⊢
        cases hf : findParent seq pid.ref with
        | none => simp only [hf] at h ⊢; exact h
        | some par =>
          simp only [hf] at h ⊢
          by_cases hin : (pid.file, pid.ref) ∈ cs
          · simp only [hin, if_true] at h ⊢; exact h
          · simp only [hin, if_false] at h ⊢
            cases hr : resolve reg n ((pid.file, pid.ref) :: cs) par with
            | error x => rw [hr] at h; cases h
            | ok r' =>
              rw [hr] at h
              rw [ih _ _ r' hr]
              exact h

theorem resolve_mono_le (reg : Registry) (n m : Nat) (hle : n ≤ m) (cs : List Key) (e : Entry) (r : Resolved)
    (h : resolve reg n cs e = .ok r) : resolve reg m cs e = .ok r := by
  induction m with
  | zero =>
    have : n = 0 := by omega
    subst this; exact h
  | succ m ih =>
    by_cases hn : n = m + 1
    · subst hn; exact h
    · exact resolve_mono reg m cs e r (ih (by omega))

/-! ### the top-level half: duplicate refs, substitution -/

theorem finishTop_ref (p : Char → Bool) (c : Repl) (refs : List Text) (m : Entry) (ds : List Diag) :
    (finishTop p c refs m ds).entry.ref = m.ref := by
  unfold finishTop
  cases hm : m.ref with
  | none => exact hm
  | some r => simp only; split <;> first | rfl | exact hm

theorem finishTop_entry_indep (p : Char → Bool) (c : Repl) (refs refs' : List Text) (m : Entry) (ds ds' : List Diag) :
    (finishTop p c refs m ds).entry = (finishTop p c refs' m ds').entry := by
  unfold finishTop
  cases m.ref with
  | none => rfl
  | some r => simp only; split <;> rfl

theorem finishTop_dup (p : Char → Bool) (c : Repl) (refs : List Text) (m : Entry) (ds : List Diag)
    (r : Text) (hr : m.ref = some r) (hne : r ≠ []) (hin : r ∈ refs) :
    Diag.refAlreadyExists r ∈ (finishTop p c refs m ds).diags := by
  unfold finishTop
  simp only [hr]
  split <;> simp [dupDiag, hin, hne]

theorem addRef_spec (refs : List Text) (r : Text) : (∀ x ∈ refs, x ∈ addRef refs r) ∧ r ∈ addRef refs r := by
  unfold addRef
  by_cases h : r ∈ refs <;> simp [h]
  intro x hx; exact Or.inr hx

theorem finishTop_refs (p : Char → Bool) (c : Repl) (refs : List Text) (m : Entry) (ds : List Diag) :
    (∀ x ∈ refs, x ∈ (finishTop p c refs m ds).refs) ∧
    (∀ r, m.ref = some r → r ∈ (finishTop p c refs m ds).refs) := by
  unfold finishTop
  cases hm : m.ref with
  | none => exact ⟨fun x hx => hx, fun r hr => by cases hr⟩
  | some r0 =>
    simp only
    split
    · exact ⟨(addRef_spec refs r0).1, fun r hr => by cases hr; exact (addRef_spec refs r0).2⟩
    · exact ⟨(addRef_spec refs r0).1, fun r hr => by cases hr; exact (addRef_spec refs r0).2⟩

theorem finishTop_diags_prefix (p : Char → Bool) (c : Repl) (refs : List Text) (m : Entry) (ds : List Diag) :
    ∀ d ∈ ds, d ∈ (finishTop p c refs m ds).diags := by
  intro d hd
  unfold finishTop
  cases m.ref with
  | none => exact hd
  | some r => simp only; split <;> simp [hd]

theorem reifyEntry_total (p : Char → Bool) (c : Repl) (reg : Registry) (refs : List Text) (e : Entry) :
    ∃ r, reifyEntry p c reg refs e = .ok r := by
  obtain ⟨r, hr⟩ := resolve_fuel_sufficient reg (topFuel reg) [] e (remaining_le reg [])
  unfold reifyEntry
  rw [hr]
  simp only
  split <;> exact ⟨_, rfl⟩

theorem reifyEntry_entry_indep (p : Char → Bool) (c : Repl) (reg : Registry) (refs refs' : List Text) (e : Entry)
    (r r' : Reified) (h : reifyEntry p c reg refs e = .ok r) (h' : reifyEntry p c reg refs' e = .ok r') :
    r.entry = r'.entry ∧ (∀ x ∈ refs, x ∈ r.refs) := by
  unfold reifyEntry at h h'
  cases hr : resolve reg (topFuel reg) [] e with
  | error x => rw [hr] at h; cases h
  | ok res =>
    rw [hr] at h h'
    simp only at h h'
    by_cases hm : res.merged = true
    · simp only [hm, if_true] at h h'
      cases h; cases h'
      exact ⟨finishTop_entry_indep _ _ _ _ _ _ _, (finishTop_refs _ _ _ _ _).1⟩
    · simp only [hm] at h h'
      cases h; cases h'
      exact ⟨rfl, fun x hx => hx⟩

theorem reifyEntry_ref (p : Char → Bool) (c : Repl) (reg : Registry) (refs : List Text) (e : Entry)
    (r : Reified) (h : reifyEntry p c reg refs e = .ok r) (ht : truthy e.ref = true) : r.entry.ref = e.ref := by
  unfold reifyEntry at h
  cases hr : resolve reg (topFuel reg) [] e with
  | error x => rw [hr] at h; cases h
  | ok res =>
    rw [hr] at h
    simp only at h
    have := resolve_ref reg _ _ e res hr ht
    split at h
    · cases h; rw [finishTop_ref]; exact this
    · cases h; exact this

theorem reifyFile_total (p : Char → Bool) (c : Repl) (reg : Registry) : ∀ (es : List Entry) (refs : List Text),
    ∃ out ds, reifyFile p c reg refs es = .ok (out, ds) := by
  intro es
  induction es with
  | nil => intro refs; exact ⟨[], [], rfl⟩
  | cons e es ih =>
    intro refs
    obtain ⟨r, hr⟩ := reifyEntry_total p c reg refs e
    obtain ⟨out, ds, ho⟩ := ih r.refs
    exact ⟨r.entry :: out, r.diags ++ ds, by simp [reifyFile, hr, ho]⟩

/-- value of one entry reified on its own (empty refs set) -/
def valueOf (p : Char → Bool) (c : Repl) (reg : Registry) (e : Entry) : Entry :=
  match reifyEntry p c reg [] e with
  | .ok r => r.entry
  | .error _ => e

theorem reifyFile_values (p : Char → Bool) (c : Repl) (reg : Registry) : ∀ (es : List Entry) (refs : List Text)
    (out : List Entry) (ds : List Diag), reifyFile p c reg refs es = .ok (out, ds) →
    out = es.map (valueOf p c reg) := by
  intro es
  induction es with
  | nil => intro refs out ds h; simp [reifyFile] at h; simp [h.1]
  | cons e es ih =>
    intro refs out ds h
    rw [reifyFile] at h
    cases hr : reifyEntry p c reg refs e with
    | error x => rw [hr] at h; cases h
    | ok r =>
      rw [hr] at h
      simp only at h
      cases ho : reifyFile p c reg r.refs es with
      | error x => rw [ho] at h; cases h
      | ok od =>
        obtain ⟨o, d⟩ := od
        rw [ho] at h
        simp only at h
        cases h
        obtain ⟨r0, hr0⟩ := reifyEntry_total p c reg [] e
        have := (reifyEntry_entry_indep p c reg refs [] e r r0 hr hr0).1
        simp only [List.map, valueOf, hr0, ← this, ih r.refs o d ho]

theorem reifyFile_refs_some (p : Char → Bool) (c : Repl) (reg : Registry) : ∀ (es : List Entry) (refs : List Text)
    (out : List Entry) (ds : List Diag), reifyFile p c reg refs es = .ok (out, ds) →
    (∀ e ∈ es, truthy e.ref = true) → ∀ o ∈ out, ∃ x, o.ref = some x := by
  intro es
  induction es with
  | nil => intro refs out ds h _ o ho; simp [reifyFile] at h; rw [h.1] at ho; cases ho
  | cons e es ih =>
    intro refs out ds h ht o hmem
    rw [reifyFile] at h
    cases hr : reifyEntry p c reg refs e with
    | error x => rw [hr] at h; cases h
    | ok r =>
      rw [hr] at h
      simp only at h
      cases ho : reifyFile p c reg r.refs es with
      | error x => rw [ho] at h; cases h
      | ok od =>
        obtain ⟨o', d⟩ := od
        rw [ho] at h
        simp only at h
        cases h
        rcases List.mem_cons.mp hmem with rfl | hm
        · have he := ht e (by simp)
          rw [reifyEntry_ref p c reg refs e r hr he]
          cases hx : e.ref with
          | none => rw [hx] at he; cases he
          | some x => exact ⟨x, rfl⟩
        · exact ih r.refs o' d ho (fun e' he' => ht e' (List.mem_cons_of_mem _ he')) o hm

/-- a second successfully merged entry with a ref already in the set is reported -/
theorem reifyFile_dup (p : Char → Bool) (c : Repl) (reg : Registry) : ∀ (es : List Entry) (refs : List Text)
    (out : List Entry) (ds : List Diag), reifyFile p c reg refs es = .ok (out, ds) →
    ∀ (e : Entry) (res : Resolved) (r : Text), e ∈ es → resolve reg (topFuel reg) [] e = .ok res →
      res.merged = true → res.entry.ref = some r → r ≠ [] → r ∈ refs → Diag.refAlreadyExists r ∈ ds := by
  intro es
  induction es with
  | nil => intro refs out ds _ e res r he; cases he
  | cons e0 es ih =>
    intro refs out ds h e res r he hres hm href hne hin
    rw [reifyFile] at h
    cases hr : reifyEntry p c reg refs e0 with
    | error x => rw [hr] at h; cases h
    | ok r0 =>
      rw [hr] at h
      simp only at h
      cases ho : reifyFile p c reg r0.refs es with
      | error x => rw [ho] at h; cases h
      | ok od =>
        obtain ⟨o', d⟩ := od
        rw [ho] at h
        simp only at h
        cases h
        rcases List.mem_cons.mp he with rfl | hmem
        · apply List.mem_append_left
          unfold reifyEntry at hr
          rw [hres] at hr
          simp only [hm, if_true] at hr
          cases hr
          exact finishTop_dup p c refs res.entry res.diags r href hne hin
        · apply List.mem_append_right
          obtain ⟨r1, hr1⟩ := reifyEntry_total p c reg [] e0
          exact ih r0.refs o' d ho e res r hmem hres hm href hne
            ((reifyEntry_entry_indep p c reg refs [] e0 r0 r1 hr hr1).2 r hin)

/-- after a successfully merged entry, its ref is in the set -/
theorem reifyEntry_adds_ref (p : Char → Bool) (c : Repl) (reg : Registry) (refs : List Text) (e : Entry)
    (res : Resolved) (r : Text) (r0 : Reified)
    (hres : resolve reg (topFuel reg) [] e = .ok res) (hm : res.merged = true) (href : res.entry.ref = some r)
    (h : reifyEntry p c reg refs e = .ok r0) : r ∈ r0.refs := by
  unfold reifyEntry at h
  rw [hres] at h
  simp only [hm, if_true] at h
  cases h
  exact (finishTop_refs p c refs res.entry res.diags).2 r href

/-! ### pages -/

theorem namedPages_ok (dir : String) (rd : Entry → List Diag) : ∀ (es : List Entry),
    (∀ e ∈ es, ∃ x, e.ref = some x) →
    ∃ ps, namedPages dir rd es = .ok ps ∧
      ps.length = (es.filter (fun e => match e.ref with | some r => !startsUnderscore r | none => false)).length := by
  intro es
  induction es with
  | nil => intro _; exact ⟨[], rfl, rfl⟩
  | cons e es ih =>
    intro h
    obtain ⟨x, hx⟩ := h e (by simp)
    obtain ⟨ps, hps, hlen⟩ := ih (fun e' he' => h e' (List.mem_cons_of_mem _ he'))
    rw [namedPages]
    simp only [hx, hps, List.filter_cons]
    cases hs : startsUnderscore x with
    | true => exact ⟨ps, by simp, by simp [hlen]⟩
    | false => exact ⟨⟨dir, x ++ ".rst".toList, rd e⟩ :: ps, by simp, by simp [hlen]⟩

end SnootyVerif.Giza
