import SnootyVerif.Model.TitleInject
namespace SnootyVerif.TitleInject

theorem hasRefL_append (a b : List N) : hasRefL (a ++ b) = (hasRefL a || hasRefL b) := by
  induction a with
  | nil => simp [hasRefL]
  | cons n ns ih => simp [hasRefL, ih, Bool.or_assoc]

mutual
/-- what is injected holds no cross-reference role -/
theorem strip_noRef (own : String) : ∀ (n : N), hasRefL (strip own n) = false
  | .text s => by simp [strip, hasRefL, hasRef]
  | .wrap cs => by simp [strip, hasRefL, hasRef, stripL_noRef own cs]
  | .ref t cs => by
    unfold strip
    split
    · simp [hasRefL]
    · exact stripL_noRef own cs
theorem stripL_noRef (own : String) : ∀ (ns : List N), hasRefL (stripL own ns) = false
  | [] => by simp [stripL, hasRefL]
  | n :: ns => by simp [stripL, hasRefL_append, strip_noRef own n, stripL_noRef own ns]
end

theorem size_pos (n : N) : 0 < size n := by
  cases n <;> simp [size] <;> omega

mutual
/-- on a tree without references the pass changes nothing and needs no more fuel than the tree has nodes -/
theorem resolve_noRef (b : Bool) (titles : Titles) : ∀ (n : N) (fuel : Nat), hasRef n = false → size n ≤ fuel →
    resolve b titles fuel n = some n
  | .text s, fuel, _, hs => by
    cases fuel with
    | zero => simp [size] at hs
    | succ f => simp [resolve]
  | .wrap cs, fuel, hr, hs => by
    cases fuel with
    | zero => simp [size] at hs
    | succ f =>
      have h := resolveL_noRef b titles cs f (by simpa [hasRef] using hr) (by simp [size] at hs; omega)
      simp [resolve, h]
  | .ref t cs, _, hr, _ => by simp [hasRef] at hr
theorem resolveL_noRef (b : Bool) (titles : Titles) : ∀ (ns : List N) (fuel : Nat), hasRefL ns = false → sizeL ns ≤ fuel →
    resolveL b titles fuel ns = some ns
  | [], _, _, _ => by simp [resolveL]
  | n :: ns, fuel, hr, hs => by
    simp only [hasRefL, Bool.or_eq_false_iff] at hr
    simp only [sizeL] at hs
    have h1 := resolve_noRef b titles n fuel hr.1 (by omega)
    have h2 := resolveL_noRef b titles ns fuel hr.2 (by omega)
    simp [resolveL, h1, h2]
end

/-- `M` bounds the size of every title after stripping -/
def TitlesBounded (titles : Titles) (M : Nat) : Prop :=
  ∀ t title, titles t = some title → sizeL (stripL t title) ≤ M

mutual
/-- **the fixed pass terminates**: fuel `size + M` is never exhausted, whatever the titles refer to -/
theorem resolve_terminates (titles : Titles) (M : Nat) (hM : TitlesBounded titles M) :
    ∀ (n : N) (fuel : Nat), size n + M ≤ fuel → ∃ r, resolve true titles fuel n = some r
  | .text s, fuel, hs => by
    cases fuel with
    | zero => simp [size] at hs
    | succ f => exact ⟨.text s, by simp [resolve]⟩
  | .wrap cs, fuel, hs => by
    cases fuel with
    | zero => simp [size] at hs
    | succ f =>
      obtain ⟨rs, hrs⟩ := resolveL_terminates titles M hM cs f (by simp [size] at hs; omega)
      exact ⟨.wrap rs, by simp [resolve, hrs]⟩
  | .ref t cs, fuel, hs => by
    cases fuel with
    | zero => simp [size] at hs
    | succ f =>
      cases cs with
      | nil =>
        cases ht : titles t with
        | none => exact ⟨.ref t [], by simp [resolve, ht]⟩
        | some title =>
          have hb := hM t title ht
          have hsz : sizeL (stripL t title) ≤ f := by simp [size, sizeL] at hs; omega
          have h := resolveL_noRef true titles (stripL t title) f (stripL_noRef t title) hsz
          exact ⟨.ref t (stripL t title), by simp [resolve, ht, h]⟩
      | cons c cs' =>
        obtain ⟨rs, hrs⟩ := resolveL_terminates titles M hM (c :: cs') f (by simp [size] at hs; omega)
        exact ⟨.ref t rs, by simp [resolve, hrs]⟩
theorem resolveL_terminates (titles : Titles) (M : Nat) (hM : TitlesBounded titles M) :
    ∀ (ns : List N) (fuel : Nat), sizeL ns + M ≤ fuel → ∃ rs, resolveL true titles fuel ns = some rs
  | [], _, _ => ⟨[], by simp [resolveL]⟩
  | n :: ns, fuel, hs => by
    simp only [sizeL] at hs
    obtain ⟨r, hr⟩ := resolve_terminates titles M hM n fuel (by omega)
    obtain ⟨rs, hrs⟩ := resolveL_terminates titles M hM ns fuel (by omega)
    exact ⟨r :: rs, by simp [resolveL, hr, hrs]⟩
end

/-- the heading that refers to its own label: the title of `a` is `[:ref:`a`]` -/
def selfTitles : Titles := fun t => if t = "a" then some [.ref "a" []] else none

/-- **before the fix the pass never terminates on it**: whatever the recursion limit, it is hit -/
theorem resolve_unstripped_diverges : ∀ (fuel : Nat), resolve false selfTitles fuel (.ref "a" []) = none
  | 0 => by simp [resolve]
  | fuel + 1 => by
    have ih := resolve_unstripped_diverges fuel
    simp [resolve, selfTitles, resolveL, ih]

end SnootyVerif.TitleInject
