import SnootyVerif.Model.EventWalk
namespace SnootyVerif.EventWalk

theorem root_cons (f : String) (s : Stack) : Stack.root (f :: s) = (match s.root with | some r => some r | none => some f) := by
  unfold Stack.root
  cases s with
  | nil => simp
  | cons a t =>
    rw [List.getLast?_cons_cons]
    cases h : (a :: t).getLast? with
    | none => simp at h
    | some r => rfl

mutual
/-- the walk restores the stack and fires exactly the events of the stack-free specification -/
theorem iterate_spec : ∀ (d : Nd) (s : Stack), iterate s d = (spec s.root s.cur d, s)
  | .leaf i, s => by simp [iterate, spec]
  | .plain i cs, s => by
    have h := iterateL_spec cs s
    simp [iterate, spec, h]
  | .pre i pre cs, s => by
    have h1 := iterateL_spec pre s
    have h2 := iterateL_spec cs s
    simp [iterate, spec, h1, h2]
  | .root i file cs, s => by
    have h := iterateL_spec cs (file :: s)
    simp only [iterate, spec, h, root_cons, Stack.cur, List.head?_cons, List.drop_succ_cons, List.drop_zero]
    rfl
theorem iterateL_spec : ∀ (ds : List Nd) (s : Stack), iterateL s ds = (specL s.root s.cur ds, s)
  | [], s => by simp [iterateL, specL]
  | d :: ds, s => by
    have h1 := iterate_spec d s
    have h2 := iterateL_spec ds s
    simp [iterateL, specL, h1, h2]
end

def evtFiles : Evt → Option String × Option String
  | .pageStart r c | .pageEnd r c | .enter _ r c | .exit _ r c => (r, c)

/-- root is the page file and current is defined -/
def okEvt (r : String) (e : Evt) : Bool := (evtFiles e).1 == some r && (evtFiles e).2.isSome

mutual
theorem spec_ok : ∀ (d : Nd) (r c : String), (spec (some r) (some c) d).all (okEvt r) = true
  | .leaf i, r, c => by simp [spec, okEvt, evtFiles]
  | .plain i cs, r, c => by
    have := specL_ok cs r c
    simp [spec, List.all_append, okEvt, evtFiles] at this ⊢
    exact this
  | .pre i pre cs, r, c => by
    have h1 := specL_ok pre r c
    have h2 := specL_ok cs r c
    simp [spec, List.all_append, okEvt, evtFiles] at h1 h2 ⊢
    exact ⟨h1, h2⟩
  | .root i file cs, r, c => by
    have := specL_ok cs r file
    simp [spec, List.all_append, okEvt, evtFiles] at this ⊢
    exact this
theorem specL_ok : ∀ (ds : List Nd) (r c : String), (specL (some r) (some c) ds).all (okEvt r) = true
  | [], r, c => by simp [specL]
  | d :: ds, r, c => by
    have h1 := spec_ok d r c
    have h2 := specL_ok ds r c
    simp [specL, List.all_append, h1, h2]
end

end SnootyVerif.EventWalk

namespace SnootyVerif.EventWalk

/-! ### push-on-enter / pop-on-exit bookkeeping of handlers -/

/-- A handler stack driven by the events: push the node on `enter` when `P` holds for it, pop on
`exit` when `P` holds. `none` = pop from an empty stack (Python: IndexError). -/
def bracket (P : Nat → Bool) : List Evt → List Nat → Option (List Nat)
  | [], st => some st
  | .enter i _ _ :: es, st => bracket P es (if P i then i :: st else st)
  | .exit i _ _ :: es, st =>
    if P i then
      match st with
      | [] => none
      | _ :: st' => bracket P es st'
    else bracket P es st
  | _ :: es, st => bracket P es st

theorem bracket_append (P : Nat → Bool) (a b : List Evt) (st st' : List Nat)
    (h : bracket P a st = some st') : bracket P (a ++ b) st = bracket P b st' := by
  induction a generalizing st with
  | nil => simp [bracket] at h; subst h; rfl
  | cons e a ih =>
    cases e with
    | enter i r c => simp only [List.cons_append, bracket] at h ⊢; exact ih _ h
    | exit i r c =>
      simp only [List.cons_append, bracket] at h ⊢
      split
      · rename_i hp
        simp only [hp, if_true] at h
        cases st with
        | nil => simp at h
        | cons s st2 => simp only at h ⊢; exact ih _ h
      · rename_i hp
        simp only [hp] at h
        exact ih _ h
    | pageStart r c => simp only [List.cons_append, bracket] at h ⊢; exact ih _ h
    | pageEnd r c => simp only [List.cons_append, bracket] at h ⊢; exact ih _ h

mutual
theorem bracket_spec (P : Nat → Bool) (r c : Option String) : ∀ (d : Nd) (st : List Nat),
    bracket P (spec r c d) st = some st
  | .leaf i, st => by
    simp only [spec, bracket]
    cases h : P i <;> simp [h]
  | .plain i cs, st => by
    simp only [spec, List.cons_append, bracket]
    rw [bracket_append P _ _ _ _ (bracketL_spec P r c cs _)]
    cases h : P i <;> simp [bracket, h]
  | .pre i pre cs, st => by
    simp only [spec, List.cons_append, bracket, List.append_assoc]
    rw [bracket_append P _ _ _ _ (bracketL_spec P r c pre _)]
    rw [bracket_append P _ _ _ _ (bracketL_spec P r c cs _)]
    cases h : P i <;> simp [bracket, h]
  | .root i file cs, st => by
    simp only [spec, List.cons_append, bracket]
    rw [bracket_append P _ _ _ _ (bracketL_spec P _ _ cs _)]
    cases h : P i <;> simp [bracket, h]
theorem bracketL_spec (P : Nat → Bool) (r c : Option String) : ∀ (ds : List Nd) (st : List Nat),
    bracket P (specL r c ds) st = some st
  | [], st => by simp [specL, bracket]
  | d :: ds, st => by
    simp only [specL]
    rw [bracket_append P _ _ _ _ (bracket_spec P r c d st)]
    exact bracketL_spec P r c ds st
end

end SnootyVerif.EventWalk
