import SnootyVerif.Model.Cache

/-! Helper lemmas for C11 (parse cache transparency). -/
namespace SnootyVerif.Cache

section
variable {Page H K : Type} [DecidableEq H] [DecidableEq K]

theorem find_mem {κ ν : Type} [DecidableEq κ] (k : κ) (v : ν) (l : List (κ × ν))
    (h : find k l = some v) : (k, v) ∈ l := by
  induction l with
  | nil => simp [find] at h
  | cons x t ih =>
    obtain ⟨k', v'⟩ := x
    simp only [find] at h
    split at h
    · rename_i hk
      simp only [Option.some.injEq] at h
      subst hk; subst h
      exact List.mem_cons_self
    · exact List.mem_cons_of_mem _ (ih h)

theorem mem_setEntry {κ ν : Type} [DecidableEq κ] (k : κ) (v : ν) (l : List (κ × ν)) (x : κ × ν)
    (h : x ∈ setEntry k v l) : x = (k, v) ∨ x ∈ l := by
  induction l with
  | nil => simp [setEntry] at h; exact Or.inl h
  | cons y t ih =>
    obtain ⟨k', v'⟩ := y
    simp only [setEntry] at h
    split at h
    · rcases List.mem_cons.mp h with h | h
      · exact Or.inl h
      · exact Or.inr (List.mem_cons_of_mem _ h)
    · rcases List.mem_cons.mp h with h | h
      · exact Or.inr (h ▸ List.mem_cons_self)
      · rcases ih h with h | h
        · exact Or.inl h
        · exact Or.inr (List.mem_cons_of_mem _ h)

/-- after `d[k] = v`, `d[k]` is `v` -/
theorem find_setEntry_self {κ ν : Type} [DecidableEq κ] (k : κ) (v : ν) (l : List (κ × ν)) :
    find k (setEntry k v l) = some v := by
  induction l with
  | nil => simp [setEntry, find]
  | cons y t ih =>
    obtain ⟨k', v'⟩ := y
    simp only [setEntry]
    split
    · simp [find]
    · rename_i hne
      simp only [find, hne, if_false]
      exact ih

/-- every entry of the cache is a record made at `e₀` (what `update_cache` after a build at `e₀` writes) -/
def SoundAt (srcKey : Bytes → K × Bool) (hash : Bytes → H) (P : ParseFn Page) (c : CacheData Page H K)
    (e₀ : Env) : Prop :=
  ∀ (k : FileId × K) (v : Payload Page H), (k, some v) ∈ c.pages →
    ∃ b₀, e₀ k.1 = some b₀ ∧ k.2 = (srcKey b₀).1 ∧ v = record srcKey hash P e₀ k.1

theorem saveAt_sound (srcKey : Bytes → K × Bool) (hash : Bytes → H) (P : ParseFn Page) (spec : List String)
    (e₀ : Env) (ps : List FileId) : SoundAt srcKey hash P (saveAt srcKey hash P spec e₀ ps) e₀ := by
  unfold SoundAt saveAt
  simp only
  suffices h : ∀ (acc : List ((FileId × K) × Option (Payload Page H))),
      (∀ k v, (k, some v) ∈ acc → ∃ b₀, e₀ k.1 = some b₀ ∧ k.2 = (srcKey b₀).1 ∧ v = record srcKey hash P e₀ k.1) →
      ∀ k v, (k, some v) ∈ ps.foldl (fun acc p =>
        match e₀ p with
        | some b => setEntry (p, (srcKey b).1) (some (record srcKey hash P e₀ p)) acc
        | none => acc) acc →
      ∃ b₀, e₀ k.1 = some b₀ ∧ k.2 = (srcKey b₀).1 ∧ v = record srcKey hash P e₀ k.1 by
    exact h [] (by intro k v hm; simp at hm)
  induction ps with
  | nil => intro acc hacc k v hm; exact hacc k v hm
  | cons p t ih =>
    intro acc hacc k v hm
    simp only [List.foldl_cons] at hm
    refine ih _ ?_ k v hm
    intro k' v' hm'
    cases hp : e₀ p with
    | none => rw [hp] at hm'; exact hacc k' v' hm'
    | some b =>
      rw [hp] at hm'
      simp only at hm'
      rcases mem_setEntry _ _ _ _ hm' with h | h
      · simp only [Prod.mk.injEq, Option.some.injEq] at h
        obtain ⟨hk, hv⟩ := h
        subst hk
        exact ⟨b, hp, rfl, hv⟩
      · exact hacc k' v' h

/-- the injectivity that matters: two sources that both read cleanly and have the same key are the same -/
def KeyInjective (srcKey : Bytes → K × Bool) : Prop :=
  ∀ b b', (srcKey b).2 = true → (srcKey b').2 = true → (srcKey b).1 = (srcKey b').1 → b = b'

omit [DecidableEq K] in
/-- a passing dependency check against hashes recorded at `e₀` means every recorded path holds now
what it held then (given collision-free hashing) -/
theorem recorded_agree (hash : Bytes → H) (hH : Function.Injective hash) (e₀ e : Env) (fs : List FileId)
    (h : checkCache hash e (some (fs.map (fun f => (f, (e₀ f).map hash)))) = true) :
    ∀ f ∈ fs, e₀ f = e f := by
  simp only [checkCache, List.all_eq_true, List.mem_map] at h
  intro f hf
  have := h (f, (e₀ f).map hash) ⟨f, hf, rfl⟩
  unfold depOk at this
  simp only at this
  cases hef : e f with
  | none => rw [hef] at this; simp at this
  | some b =>
    rw [hef] at this
    simp only [decide_eq_true_eq] at this
    cases he0 : e₀ f with
    | none => rw [he0] at this; simp at this
    | some b₀ =>
      rw [he0] at this
      simp only [Option.map_some, Option.some.injEq] at this
      rw [hH this]

omit [DecidableEq K] in
theorem checkCache_record (srcKey : Bytes → K × Bool) (hash : Bytes → H) (hH : Function.Injective hash)
    (P : ParseFn Page) (e₀ e : Env) (p : FileId)
    (h : checkCache hash e (record srcKey hash P e₀ p).deps = true) :
    ∃ ds, P.deps e₀ p = some ds ∧ (∀ f ∈ ds, e₀ f = e f) ∧
      (cleanAt srcKey e₀ p = false → e₀ p = e p) ∧
      (selfDep p (record srcKey hash P e₀ p).deps = true → e₀ p = e p) := by
  unfold record recordedPaths at h ⊢
  simp only at h ⊢
  cases hd : P.deps e₀ p with
  | none => rw [hd] at h; simp [checkCache] at h
  | some ds =>
    rw [hd] at h
    simp only [Option.map_some] at h ⊢
    have hall := recorded_agree hash hH e₀ e _ h
    refine ⟨ds, rfl, ?_, ?_, ?_⟩
    · intro f hf
      apply hall
      split
      · exact hf
      · exact List.mem_cons_of_mem _ hf
    · intro hcl
      apply hall
      simp [hcl]
    · intro hsd
      simp only [selfDep, List.any_eq_true, List.mem_map, decide_eq_true_eq] at hsd
      obtain ⟨d, ⟨f, hf, rfl⟩, hfp⟩ := hsd
      simp only at hfp
      subst hfp
      exact hall f hf

omit [DecidableEq K] in
/-- the heart of the reduction: a hit on a record made at `e₀` returns what a fresh parse returns -/
theorem hit_sound (srcKey : Bytes → K × Bool) (hash : Bytes → H)
    (hK : KeyInjective srcKey) (hH : Function.Injective hash)
    (P : ParseFn Page) (hdeps : DepsCoverReads P)
    (e₀ e : Env) (p : FileId) (b b₀ : Bytes)
    (hp : e p = some b) (hp₀ : e₀ p = some b₀)
    (hk : (srcKey b).1 = (srcKey b₀).1)
    (hself : (srcKey b).2 = true ∨ selfDep p (record srcKey hash P e₀ p).deps = true)
    (hc : checkCache hash e (record srcKey hash P e₀ p).deps = true) :
    (record srcKey hash P e₀ p).page = P.parse e p := by
  obtain ⟨ds, hds, hsame, hunclean, hsd⟩ := checkCache_record srcKey hash hH P e₀ e p hc
  have hpp : e₀ p = e p := by
    cases hcl₀ : cleanAt srcKey e₀ p with
    | false => exact hunclean hcl₀
    | true =>
      rcases hself with hcl | hs
      · have hcl₀' : (srcKey b₀).2 = true := by simpa [cleanAt, hp₀] using hcl₀
        rw [hp, hp₀, hK b b₀ hcl hcl₀' hk]
      · exact hsd hs
  have hagree : ∀ f ∈ P.reads e₀ p, e₀ f = e f := by
    intro f hf
    rcases hdeps e₀ p ds hds f hf with h | h
    · subst h; exact hpp
    · exact hsame f h
  exact (P.footprint e₀ e p hagree).1

theorem stepCached_eq (srcKey : Bytes → K × Bool) (hash : Bytes → H)
    (hK : KeyInjective srcKey) (hH : Function.Injective hash)
    (P : ParseFn Page) (hdeps : DepsCoverReads P)
    (c : CacheData Page H K) (e₀ e : Env) (hs : SoundAt srcKey hash P c e₀) (p : FileId) :
    stepCached srcKey hash P c e p = stepClean P e p := by
  unfold stepCached lookup
  cases hp : e p with
  | none => simp [stepClean, hp]
  | some b =>
    simp only
    cases hf : find (p, (srcKey b).1) c.pages with
    | none => rfl
    | some o =>
      cases o with
      | none => rfl
      | some ent =>
        simp only
        by_cases hg : (srcKey b).2 = false ∧ selfDep p ent.deps = false
        · simp only [hg, and_self, if_true]
        · rw [if_neg hg]
          by_cases hc : checkCache hash e ent.deps = true
          · obtain ⟨b₀, hp₀, hk, hent⟩ := hs (p, (srcKey b).1) ent (find_mem _ _ _ hf)
            simp only at hp₀ hk
            subst hent
            have hself : (srcKey b).2 = true ∨ selfDep p (record srcKey hash P e₀ p).deps = true := by
              cases h1 : (srcKey b).2 with
              | true => exact Or.inl rfl
              | false =>
                cases h2 : selfDep p (record srcKey hash P e₀ p).deps with
                | true => exact Or.inr rfl
                | false => exact absurd ⟨h1, h2⟩ hg
            have := hit_sound srcKey hash hK hH P hdeps e₀ e p b b₀ hp hp₀ hk hself hc
            simp only [hc, if_true]
            simp [stepClean, hp, this]
          · simp only [hc]
            rfl

theorem mapM_congr_fun {α β ε : Type} (f g : α → Except ε β) (h : ∀ a, f a = g a) (l : List α) :
    l.mapM f = l.mapM g := by
  have : f = g := funext h
  rw [this]

/-- with an empty cache every lookup misses -/
theorem stepCached_empty (srcKey : Bytes → K × Bool) (hash : Bytes → H) (P : ParseFn Page)
    (spec : List String) (e : Env) (p : FileId) :
    stepCached srcKey hash P (CacheData.empty spec) e p = stepClean P e p := by
  unfold stepCached lookup CacheData.empty
  cases hp : e p with
  | none => simp [stepClean, hp]
  | some b => simp [find]

end
end SnootyVerif.Cache
