import SnootyVerif.Model.Ids
import Std.Data.String.ToNat

namespace SnootyVerif.Ids

theorem sfx_inj (base : String) {i j : Nat} (h : sfx base i = sfx base j) : i = j := by
  unfold sfx at h
  have h1 : toString i = toString j := by
    have := (String.append_right_inj (base ++ "-")).1 h
    exact this
  exact Nat.repr_injective h1

theorem firstFreeAux_spec (base : String) (f : Nat) (taken : List String) (k : Nat)
    (hf : taken.length = f) :
    k ≤ firstFreeAux base f taken k ∧ sfx base (firstFreeAux base f taken k) ∉ taken := by
  induction f generalizing taken k with
  | zero =>
    have : taken = [] := List.eq_nil_of_length_eq_zero hf
    simp [firstFreeAux, this]
  | succ f ih =>
    simp only [firstFreeAux]
    split
    · rename_i h
      have hlen : (taken.erase (sfx base k)).length = f := by
        rw [List.length_erase_of_mem h]; omega
      have ⟨h1, h2⟩ := ih (taken.erase (sfx base k)) (k + 1) hlen
      refine ⟨by omega, ?_⟩
      intro hm
      have hne : sfx base (firstFreeAux base f (taken.erase (sfx base k)) (k + 1)) ≠ sfx base k := by
        intro heq
        have := sfx_inj base heq
        omega
      exact h2 ((List.mem_erase_of_ne hne).2 hm)
    · rename_i h; exact ⟨Nat.le_refl _, h⟩

theorem firstFree_spec (base : String) (taken : List String) (k : Nat) :
    k ≤ firstFree base taken k ∧ sfx base (firstFree base taken k) ∉ taken :=
  firstFreeAux_spec base taken.length taken k rfl

theorem assignOne_not_issued (reserved issued : List String) (b : String) :
    assignOne reserved issued b ∉ issued := by
  unfold assignOne
  split
  · intro hm
    exact (firstFree_spec b (reserved ++ issued) 1).2 (List.mem_append_right _ hm)
  · assumption

theorem assignFrom_disjoint_nodup (reserved : List String) (bs issued : List String) :
    (∀ x ∈ assignFrom reserved issued bs, x ∉ issued) ∧ (assignFrom reserved issued bs).Nodup := by
  induction bs generalizing issued with
  | nil => simp [assignFrom]
  | cons b bs ih =>
    simp only [assignFrom]
    have h1 := assignOne_not_issued reserved issued b
    have ⟨h2, h3⟩ := ih (assignOne reserved issued b :: issued)
    refine ⟨?_, ?_⟩
    · intro x hx
      rcases List.mem_cons.1 hx with rfl | hx
      · exact h1
      · intro hxi
        exact h2 x hx (List.mem_cons_of_mem _ hxi)
    · refine List.nodup_cons.2 ⟨?_, h3⟩
      intro hm
      exact h2 _ hm List.mem_cons_self

theorem assignFrom_length (reserved : List String) (bs issued : List String) :
    (assignFrom reserved issued bs).length = bs.length := by
  induction bs generalizing issued with
  | nil => simp [assignFrom]
  | cons b bs ih => simp [assignFrom, ih]

/-- every output is its own base or a suffixed form of it with `k ≥ 1`. -/
theorem assignOne_form (reserved issued : List String) (b : String) :
    assignOne reserved issued b = b ∨ ∃ k, 1 ≤ k ∧ assignOne reserved issued b = sfx b k := by
  unfold assignOne
  split
  · exact Or.inr ⟨_, (firstFree_spec b (reserved ++ issued) 1).1, rfl⟩
  · exact Or.inl rfl

/-- a suffixed output never equals a reserved id. -/
theorem assignOne_reserved (reserved issued : List String) (b : String)
    (h : assignOne reserved issued b ∈ reserved) : assignOne reserved issued b = b := by
  unfold assignOne at *
  split at h
  · exact absurd (List.mem_append_left _ h) (firstFree_spec b (reserved ++ issued) 1).2
  · simp [*]

/-- Invariant used for "first occurrence keeps its id": every issued id that is
reserved is one of the bases already consumed. -/
theorem assignFrom_getElem (reserved : List String) (pre post issued : List String) (b : String)
    (hb : b ∉ issued) (hpre : b ∉ pre) (hres : b ∈ reserved) :
    (assignFrom reserved issued (pre ++ b :: post))[pre.length]? = some b := by
  induction pre generalizing issued with
  | nil =>
    simp [assignFrom, assignOne, hb]
  | cons p pre ih =>
    simp only [List.cons_append, assignFrom, List.length_cons, List.getElem?_cons_succ]
    apply ih
    · intro hm
      rcases List.mem_cons.1 hm with h | h
      · have hr : assignOne reserved issued p ∈ reserved := h ▸ hres
        have := assignOne_reserved reserved issued p hr
        rw [this] at h
        exact hpre (h ▸ List.mem_cons_self)
      · exact hb h
    · intro hm; exact hpre (List.mem_cons_of_mem _ hm)

theorem footnote_inj {i j : Nat} (h : "id" ++ toString (i + 1) = "id" ++ toString (j + 1)) : i = j := by
  have := (String.append_right_inj "id").1 h
  have := Nat.repr_injective this
  omega

end SnootyVerif.Ids
