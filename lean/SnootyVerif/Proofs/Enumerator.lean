import SnootyVerif.Model.Enumerator
namespace SnootyVerif.Enumerator

/-! ## roman.py: the greedy loops in closed form -/

/-- `num` written `q` times -/
def rep : Nat → List Char → List Char
  | 0, _ => []
  | q + 1, num => num ++ rep q num

theorem length_rep (q : Nat) (num : List Char) : (rep q num).length = q * num.length := by
  induction q with
  | zero => simp [rep]
  | succ q ih => simp [rep, ih, Nat.succ_mul]; omega

/-- the `while n >= value` loop emits `numeral` `n / value` times and leaves `n % value` -/
theorem emit_closed (num : List Char) (v : Nat) (hv : 0 < v) :
    ∀ (fuel n : Nat), n / v ≤ fuel → emit num v fuel n = (rep (n / v) num, n % v) := by
  intro fuel
  induction fuel with
  | zero =>
    intro n h
    have h0 : n / v = 0 := Nat.eq_zero_of_le_zero h
    have hlt : n < v := by
      rcases (Nat.div_eq_zero_iff).mp h0 with h' | h'
      · omega
      · exact h'
    simp [emit, h0, rep, Nat.mod_eq_of_lt hlt]
  | succ f ih =>
    intro n h
    unfold emit
    by_cases hle : v ≤ n
    · have hd : n / v = (n - v) / v + 1 := Nat.div_eq_sub_div hv hle
      have hm : n % v = (n - v) % v := Nat.mod_eq_sub_mod hle
      rw [if_pos hle, ih (n - v) (by omega), hd, hm]
      simp [rep]
    · have hlt : n < v := by omega
      rw [if_neg hle, Nat.div_eq_of_lt hlt, Nat.mod_eq_of_lt hlt]
      simp [rep]

theorem toRomanAux_cons (num : List Char) (v : Nat) (hv : 0 < v) (rest : List (List Char × Nat)) (n : Nat) :
    toRomanAux ((num, v) :: rest) n = rep (n / v) num ++ toRomanAux rest (n % v) := by
  simp only [toRomanAux]
  rw [emit_closed num v hv n n (Nat.div_le_self n v)]

theorem isPrefixOf_append_self : ∀ (num x : List Char), num.isPrefixOf (num ++ x) = true
  | [], x => by simp [List.isPrefixOf]
  | c :: cs, x => by simp [List.isPrefixOf, isPrefixOf_append_self cs x]

theorem eat_acc (num : List Char) (v : Nat) : ∀ (fuel : Nat) (t : List Char) (a b : Nat),
    eat num v fuel t (a + b) = ((eat num v fuel t b).1, a + (eat num v fuel t b).2) := by
  intro fuel
  induction fuel with
  | zero => intro t a b; simp [eat]
  | succ f ih =>
    intro t a b
    unfold eat
    split
    · rw [Nat.add_assoc, ih]
    · rfl

theorem fromRomanAux_acc : ∀ (m : List (List Char × Nat)) (t : List Char) (a b : Nat),
    fromRomanAux m t (a + b) = a + fromRomanAux m t b
  | [], t, a, b => by simp [fromRomanAux]
  | (num, v) :: rest, t, a, b => by
    simp only [fromRomanAux]
    rw [eat_acc]
    exact fromRomanAux_acc rest _ a _

/-- reading back `q` copies of a numeral followed by text that does not start with it -/
theorem eat_rep (num : List Char) (v : Nat) (w : List Char) (hw : num.isPrefixOf w = false) :
    ∀ (q fuel acc : Nat), q ≤ fuel → eat num v fuel (rep q num ++ w) acc = (w, acc + q * v) := by
  intro q
  induction q with
  | zero =>
    intro fuel acc _
    cases fuel with
    | zero => simp [eat, rep]
    | succ f => simp [eat, rep, hw]
  | succ q ih =>
    intro fuel acc h
    cases fuel with
    | zero => omega
    | succ f =>
      unfold eat
      have hp : num.isPrefixOf (rep (q + 1) num ++ w) = true := by
        simp only [rep, List.append_assoc]
        exact isPrefixOf_append_self _ _
      rw [if_pos hp]
      have hd : (rep (q + 1) num ++ w).drop num.length = rep q num ++ w := by
        simp [rep, List.append_assoc]
      rw [hd, ih f (acc + v) (by omega), Nat.succ_mul]
      congr 1
      omega

/-- exhaustive check of the part of the map below the thousands: `k` numbers from `start` on read back as themselves and
do not start with the numeral `top` -/
def bruteOk (top : List Char) (m : List (List Char × Nat)) : Nat → Nat → Bool
  | 0, _ => true
  | k + 1, start =>
    (fromRomanAux m (toRomanAux m start) 0 == start && !(top.isPrefixOf (toRomanAux m start))) && bruteOk top m k (start + 1)

theorem bruteOk_spec (top : List Char) (m : List (List Char × Nat)) : ∀ (k start : Nat), bruteOk top m k start = true →
    ∀ n, start ≤ n → n < start + k →
      fromRomanAux m (toRomanAux m n) 0 = n ∧ top.isPrefixOf (toRomanAux m n) = false := by
  intro k
  induction k with
  | zero => intro start _ n h1 h2; omega
  | succ k ih =>
    intro start h n h1 h2
    simp only [bruteOk, Bool.and_eq_true, beq_iff_eq, Bool.not_eq_true'] at h
    by_cases hn : n = start
    · subst hn; exact h.1
    · exact ih (start + 1) h.2 n (by omega) (by omega)

/-- peeling the first numeral (value `v`, written `n / v` times) off the round trip -/
theorem roundtrip_peel (top : List Char) (v : Nat) (hv : 0 < v) (m : List (List Char × Nat))
    (hb : ∀ n', n' < v → fromRomanAux m (toRomanAux m n') 0 = n' ∧ top.isPrefixOf (toRomanAux m n') = false) (n : Nat) :
    fromRomanAux ((top, v) :: m) (toRomanAux ((top, v) :: m) n) 0 = n := by
  rw [toRomanAux_cons top v hv]
  obtain ⟨h1, h2⟩ := hb (n % v) (Nat.mod_lt n hv)
  have htop : 0 < top.length := by
    cases top with
    | nil => simp [List.isPrefixOf] at h2
    | cons c cs => simp
  have hlen : n / v ≤ (rep (n / v) top ++ toRomanAux m (n % v)).length := by
    rw [List.length_append, length_rep]
    exact Nat.le_trans (Nat.le_mul_of_pos_right _ htop) (Nat.le_add_right _ _)
  simp only [fromRomanAux]
  rw [eat_rep top v _ h2 (n / v) _ 0 hlen]
  show fromRomanAux m (toRomanAux m (n % v)) (0 + n / v * v) = n
  rw [Nat.zero_add, ← Nat.add_zero (n / v * v), fromRomanAux_acc, h1]
  exact Nat.div_add_mod' n v

theorem toRoman_total (R : Roman) (n : Nat) :
    (∃ s, toRoman R n = .ok s) ∨ toRoman R n = .error .ValueError := by
  unfold toRoman
  split
  · exact Or.inl ⟨_, rfl⟩
  · exact Or.inr rfl

theorem fromRoman_total (R : Roman) (s : List Char) :
    (∃ n, fromRoman R s = .ok n) ∨ fromRoman R s = .error .ValueError := by
  unfold fromRoman
  split
  · exact Or.inl ⟨_, rfl⟩
  · exact Or.inr rfl

/-- `from_roman` only ever accepts what `to_roman` writes: an accepted numeral is the canonical spelling of its value -/
theorem fromRoman_sound (R : Roman) (s : List Char) (n : Nat) (h : fromRoman R s = .ok n) : toRoman R n = .ok s := by
  unfold fromRoman at h
  split at h
  · rename_i hc
    cases h
    simp [toRoman, hc.1, hc.2.1, hc.2.2]
  · cases h

/-- the round trip through both functions, from the round trip of the loops -/
theorem roundtrip_of_aux (R : Roman) (n : Nat) (h1 : 0 < n) (h2 : n < R.max)
    (h : fromRomanAux R.map (toRomanAux R.map n) 0 = n) : (toRoman R n).bind (fromRoman R) = .ok n := by
  simp only [toRoman, h1, h2, and_self, if_true, Except.bind, fromRoman, h]

/-! ### the former lookup table -/

theorem fromRomanTable_total (table : List (List Char)) (s : List Char) :
    (∃ n, fromRomanTable table s = .ok n) ∨ fromRomanTable table s = .error .ValueError := by
  unfold fromRomanTable
  split
  · exact Or.inl ⟨_, rfl⟩
  · exact Or.inr rfl

/-! ## parse_enumerator -/

theorem firstSeq_spec : ∀ (seqs : List String) (text : List Char) (s : String),
    firstSeq seqs text = some s → seqMatches s text = some true
  | [], _, _, h => by simp [firstSeq] at h
  | x :: rest, text, s, h => by
    unfold firstSeq at h
    split at h
    · rename_i hx
      cases h
      exact hx
    · exact firstSeq_spec rest text s h

theorem firstSeq_isSome : ∀ (seqs : List String) (text : List Char),
    (∃ s ∈ seqs, seqMatches s text = some true) → ∃ s, firstSeq seqs text = some s
  | [], _, ⟨s, hs, _⟩ => by simp at hs
  | x :: rest, text, ⟨s, hs, hm⟩ => by
    unfold firstSeq
    split
    · exact ⟨_, rfl⟩
    · rename_i hx
      rcases List.mem_cons.mp hs with rfl | hr
      · exact absurd hm hx
      · exact firstSeq_isSome rest text ⟨s, hr, hm⟩

/-- a converter applied to a text its own pattern accepts can only fail with ValueError -/
theorem convert_err (table : Roman) (s : String) (text : List Char) (hm : seqMatches s text = some true)
    (e : PyErr) (h : convert table s text = .error e) : e = .ValueError := by
  unfold convert at h
  unfold seqMatches at hm
  split at h
  · split at h
    · cases h; rfl
    · cases h
  · rw [if_neg (by assumption)] at hm
    split at h
    · rename_i hla
      rw [if_pos hla] at hm
      split at h
      · cases h
      · rename_i hne
        split at hm
        · exact absurd rfl (hne _)
        · simp at hm
    · rw [if_neg (by assumption)] at hm
      split at h
      · rename_i hua
        rw [if_pos hua] at hm
        split at h
        · cases h
        · rename_i hne
          split at hm
          · exact absurd rfl (hne _)
          · simp at hm
      · rw [if_neg (by assumption)] at hm
        split at h
        · rcases fromRoman_total table (text.map upperAscii) with ⟨n, hn⟩ | hn
          · rw [hn] at h; cases h
          · rw [hn] at h; cases h; rfl
        · rw [if_neg (by assumption)] at hm
          split at h
          · rcases fromRoman_total table text with ⟨n, hn⟩ | hn
            · rw [hn] at h; cases h
            · rw [hn] at h; cases h; rfl
          · rw [if_neg (by assumption)] at hm
            cases hm

theorem hintSeq_ok (text : List Char) (expected : Option String)
    (he : ∀ e, expected = some e → seqMatches e text ≠ none ∧ e ≠ "") :
    ∃ s, hintSeq text expected = .ok s ∧ (s = "" ∨ seqMatches s text = some true) := by
  unfold hintSeq
  cases expected with
  | none =>
    simp only
    split
    · rename_i hi
      subst hi
      exact ⟨"lowerroman", rfl, Or.inr (by decide)⟩
    · split
      · rename_i hI
        subst hI
        exact ⟨"upperroman", rfl, Or.inr (by decide)⟩
      · exact ⟨"", rfl, Or.inl rfl⟩
  | some e =>
    obtain ⟨hne, _⟩ := he e rfl
    simp only
    cases hsm : seqMatches e text with
    | none => exact absurd hsm hne
    | some b =>
      cases b with
      | true => exact ⟨e, rfl, Or.inr hsm⟩
      | false => exact ⟨"", rfl, Or.inl rfl⟩

theorem determineSeq_ok (T : Tables) (text : List Char) (expected : Option String) (hm : EnumeratorMatch T text)
    (he : ∀ e, expected = some e → seqMatches e text ≠ none ∧ e ≠ "") :
    ∃ s, determineSeq T text expected = .ok s ∧ (s = "#" ∨ seqMatches s text = some true) := by
  unfold determineSeq
  split
  · exact ⟨"#", rfl, Or.inl rfl⟩
  · rename_i hhash
    have hex : ∃ s ∈ T.sequences, seqMatches s text = some true := by
      rcases hm with h | h
      · exact absurd h hhash
      · exact h
    obtain ⟨f, hf⟩ := firstSeq_isSome T.sequences text hex
    have hfm := firstSeq_spec _ _ _ hf
    obtain ⟨s, hs, hsm⟩ := hintSeq_ok text expected he
    rw [hs]
    simp only
    split
    · rename_i hne
      rcases hsm with h | h
      · exact absurd h hne
      · exact ⟨s, rfl, Or.inr h⟩
    · rw [hf]
      exact ⟨f, rfl, Or.inr hfm⟩

theorem ordinalOf_ok (T : Tables) (s : String) (text : List Char)
    (hh : onConvertError T.handlers .ValueError = .ok none)
    (hs : s = "#" ∨ seqMatches s text = some true) : ∃ o, ordinalOf T s text = .ok o := by
  unfold ordinalOf
  split
  · exact ⟨_, rfl⟩
  · rename_i hne
    rcases hs with h | h
    · exact absurd h hne
    · cases hc : convert T.roman s text with
      | ok n => exact ⟨_, rfl⟩
      | error e =>
        have := convert_err T.roman s text h e hc
        subst this
        exact ⟨none, by simpa using hh⟩

theorem parseEnumerator_ok (T : Tables) (text : List Char) (expected : Option String)
    (hh : onConvertError T.handlers .ValueError = .ok none)
    (hm : EnumeratorMatch T text)
    (he : ∀ e, expected = some e → seqMatches e text ≠ none ∧ e ≠ "") :
    ∃ r, parseEnumerator T text expected = .ok r := by
  obtain ⟨s, hs, hsm⟩ := determineSeq_ok T text expected hm he
  obtain ⟨o, ho⟩ := ordinalOf_ok T s text hh hsm
  exact ⟨(s, o), by simp [parseEnumerator, hs, ho]⟩

end SnootyVerif.Enumerator
