import SnootyVerif.Model.Enumerator
namespace SnootyVerif.Enumerator

/-! ## roman table -/

theorem indexOf_of_nodup : ∀ (table : List (List Char)) (i : Nat) (s : List Char),
    table.Nodup → table[i]? = some s → indexOf table s = some i
  | [], i, s, _, h => by simp at h
  | x :: rest, 0, s, _, h => by
    simp only [List.getElem?_cons_zero, Option.some.injEq] at h
    simp [indexOf, h]
  | x :: rest, i + 1, s, hn, h => by
    simp only [List.getElem?_cons_succ] at h
    have hn' := List.nodup_cons.mp hn
    have hmem : s ∈ rest := List.mem_of_getElem? h
    have hne : x ≠ s := fun hxs => hn'.1 (hxs ▸ hmem)
    simp [indexOf, hne, indexOf_of_nodup rest i s hn'.2 h]

/-- on a duplicate-free table, `from_roman(to_roman(n)) == n` for every `n` the table covers -/
theorem roundtrip_of_nodup (table : List (List Char)) (hn : table.Nodup) (n : Nat) (h1 : 1 ≤ n) (h2 : n ≤ table.length) :
    (toRoman table n).bind (fromRoman table) = .ok n := by
  unfold toRoman
  have hlt : n - 1 < table.length := by omega
  rw [if_neg (by omega)]
  have hget : table[n - 1]? = some table[n - 1] := List.getElem?_eq_getElem hlt
  rw [hget]
  simp only [Except.bind, fromRoman]
  rw [indexOf_of_nodup table (n - 1) _ hn hget]
  simp
  omega

theorem toRoman_total (table : List (List Char)) (n : Nat) :
    (∃ s, toRoman table n = .ok s) ∨ toRoman table n = .error .ValueError := by
  unfold toRoman
  split
  · exact Or.inr rfl
  · split
    · exact Or.inl ⟨_, rfl⟩
    · exact Or.inr rfl

theorem fromRoman_total (table : List (List Char)) (s : List Char) :
    (∃ n, fromRoman table s = .ok n) ∨ fromRoman table s = .error .ValueError := by
  unfold fromRoman
  split
  · exact Or.inl ⟨_, rfl⟩
  · exact Or.inr rfl

/-! ## parse_enumerator -/

theorem firstSeq_spec : ∀ (seqs : List String) (text : List Char) (s : String),
    firstSeq seqs text = some s → seqMatches s text = some true
  | [], _, _, h => by simp [firstSeq] at h
  | x :: rest, text, s, h => by
    unfold firstSeq at h
    split at h
    · rename_i hx
      cases h
      exact hx
    · exact firstSeq_spec rest text s h

theorem firstSeq_isSome : ∀ (seqs : List String) (text : List Char),
    (∃ s ∈ seqs, seqMatches s text = some true) → ∃ s, firstSeq seqs text = some s
  | [], _, ⟨s, hs, _⟩ => by simp at hs
  | x :: rest, text, ⟨s, hs, hm⟩ => by
    unfold firstSeq
    split
    · exact ⟨_, rfl⟩
    · rename_i hx
      rcases List.mem_cons.mp hs with rfl | hr
      · exact absurd hm hx
      · exact firstSeq_isSome rest text ⟨s, hr, hm⟩

/-- a converter applied to a text its own pattern accepts can only fail with ValueError -/
theorem convert_err (table : List (List Char)) (s : String) (text : List Char) (hm : seqMatches s text = some true)
    (e : PyErr) (h : convert table s text = .error e) : e = .ValueError := by
  unfold convert at h
  unfold seqMatches at hm
  split at h
  · split at h
    · cases h; rfl
    · cases h
  · rw [if_neg (by assumption)] at hm
    split at h
    · rename_i hla
      rw [if_pos hla] at hm
      split at h
      · cases h
      · rename_i hne
        split at hm
        · exact absurd rfl (hne _)
        · simp at hm
    · rw [if_neg (by assumption)] at hm
      split at h
      · rename_i hua
        rw [if_pos hua] at hm
        split at h
        · cases h
        · rename_i hne
          split at hm
          · exact absurd rfl (hne _)
          · simp at hm
      · rw [if_neg (by assumption)] at hm
        split at h
        · rcases fromRoman_total table (text.map upperAscii) with ⟨n, hn⟩ | hn
          · rw [hn] at h; cases h
          · rw [hn] at h; cases h; rfl
        · rw [if_neg (by assumption)] at hm
          split at h
          · rcases fromRoman_total table text with ⟨n, hn⟩ | hn
            · rw [hn] at h; cases h
            · rw [hn] at h; cases h; rfl
          · rw [if_neg (by assumption)] at hm
            cases hm

theorem hintSeq_ok (text : List Char) (expected : Option String)
    (he : ∀ e, expected = some e → seqMatches e text ≠ none ∧ e ≠ "") :
    ∃ s, hintSeq text expected = .ok s ∧ (s = "" ∨ seqMatches s text = some true) := by
  unfold hintSeq
  cases expected with
  | none =>
    simp only
    split
    · rename_i hi
      subst hi
      exact ⟨"lowerroman", rfl, Or.inr (by decide)⟩
    · split
      · rename_i hI
        subst hI
        exact ⟨"upperroman", rfl, Or.inr (by decide)⟩
      · exact ⟨"", rfl, Or.inl rfl⟩
  | some e =>
    obtain ⟨hne, _⟩ := he e rfl
    simp only
    cases hsm : seqMatches e text with
    | none => exact absurd hsm hne
    | some b =>
      cases b with
      | true => exact ⟨e, rfl, Or.inr hsm⟩
      | false => exact ⟨"", rfl, Or.inl rfl⟩

theorem determineSeq_ok (T : Tables) (text : List Char) (expected : Option String) (hm : EnumeratorMatch T text)
    (he : ∀ e, expected = some e → seqMatches e text ≠ none ∧ e ≠ "") :
    ∃ s, determineSeq T text expected = .ok s ∧ (s = "#" ∨ seqMatches s text = some true) := by
  unfold determineSeq
  split
  · exact ⟨"#", rfl, Or.inl rfl⟩
  · rename_i hhash
    have hex : ∃ s ∈ T.sequences, seqMatches s text = some true := by
      rcases hm with h | h
      · exact absurd h hhash
      · exact h
    obtain ⟨f, hf⟩ := firstSeq_isSome T.sequences text hex
    have hfm := firstSeq_spec _ _ _ hf
    obtain ⟨s, hs, hsm⟩ := hintSeq_ok text expected he
    rw [hs]
    simp only
    split
    · rename_i hne
      rcases hsm with h | h
      · exact absurd h hne
      · exact ⟨s, rfl, Or.inr h⟩
    · rw [hf]
      exact ⟨f, rfl, Or.inr hfm⟩

theorem ordinalOf_ok (T : Tables) (s : String) (text : List Char)
    (hh : onConvertError T.handlers .ValueError = .ok none)
    (hs : s = "#" ∨ seqMatches s text = some true) : ∃ o, ordinalOf T s text = .ok o := by
  unfold ordinalOf
  split
  · exact ⟨_, rfl⟩
  · rename_i hne
    rcases hs with h | h
    · exact absurd h hne
    · cases hc : convert T.roman s text with
      | ok n => exact ⟨_, rfl⟩
      | error e =>
        have := convert_err T.roman s text h e hc
        subst this
        exact ⟨none, by simpa using hh⟩

theorem parseEnumerator_ok (T : Tables) (text : List Char) (expected : Option String)
    (hh : onConvertError T.handlers .ValueError = .ok none)
    (hm : EnumeratorMatch T text)
    (he : ∀ e, expected = some e → seqMatches e text ≠ none ∧ e ≠ "") :
    ∃ r, parseEnumerator T text expected = .ok r := by
  obtain ⟨s, hs, hsm⟩ := determineSeq_ok T text expected hm he
  obtain ⟨o, ho⟩ := ordinalOf_ok T s text hh hsm
  exact ⟨(s, o), by simp [parseEnumerator, hs, ho]⟩

end SnootyVerif.Enumerator
