import SnootyVerif.Proofs.Include

/-! On acyclic include graphs the guard never fires: every include of an existing file is expanded. -/
namespace SnootyVerif.Include

mutual
/-- the files named by include directives anywhere in a document -/
def targets : Doc → List String
  | .node _ cs => targetsL cs
  | .inc _ t => [t]
def targetsL : List Doc → List String
  | [] => []
  | d :: ds => targets d ++ targetsL ds
end

/-- `rank` witnesses acyclicity: every include of an existing file goes to a strictly smaller rank -/
def Acyclic (pages : Pages) (rank : String → Nat) : Prop :=
  ∀ f body, lookup pages f = some body → ∀ t ∈ targetsL body, (lookup pages t).isSome → rank t < rank f

def Diag.isCircular : Diag → Bool
  | .circular _ _ => true
  | .cannotOpen _ _ => false

/-- every file on the stack has a rank above `r` -/
def Above (rank : String → Nat) (r : Nat) (stack : List String) : Prop := ∀ s ∈ stack, r ≤ rank s

mutual
theorem expandIn_no_cycle (pages : Pages) (rank : String → Nat) (rec : Rec) (stack : List String) (r : Nat)
    (hab : Above rank r stack)
    (hrec : ∀ t body res, lookup pages t = some body → rank t < r → rec (t :: stack) body = some res →
      res.2.all (fun d => !d.isCircular) = true) :
    ∀ (d : Doc) (res : Out × List Diag), (∀ t ∈ targets d, (lookup pages t).isSome → rank t < r) →
      expandIn pages rec stack d = some res → res.2.all (fun d => !d.isCircular) = true
  | .node id cs, res, ht, h => by
    simp only [expandIn] at h
    split at h
    · cases h
    · rename_i r' hr'
      cases h
      exact expandInL_no_cycle pages rank rec stack r hab hrec cs r' (by simpa [targets] using ht) hr'
  | .inc id target, res, ht, h => by
    simp only [expandIn] at h
    split at h
    · cases h; simp [Diag.isCircular]
    · rename_i body hb
      have hlt : rank target < r := ht target (by simp [targets]) (by simp [hb])
      split at h
      · rename_i hc
        -- the target is on the stack: impossible, its rank is below everything on the stack
        exfalso
        have hmem : target ∈ stack := by simpa using hc
        have := hab target hmem
        omega
      · split at h
        · cases h
        · rename_i r' hr'
          cases h
          exact hrec target body r' hb hlt hr'
theorem expandInL_no_cycle (pages : Pages) (rank : String → Nat) (rec : Rec) (stack : List String) (r : Nat)
    (hab : Above rank r stack)
    (hrec : ∀ t body res, lookup pages t = some body → rank t < r → rec (t :: stack) body = some res →
      res.2.all (fun d => !d.isCircular) = true) :
    ∀ (ds : List Doc) (res : List Out × List Diag), (∀ t ∈ targetsL ds, (lookup pages t).isSome → rank t < r) →
      expandInL pages rec stack ds = some res → res.2.all (fun d => !d.isCircular) = true
  | [], res, _, h => by simp [expandInL] at h; cases h; rfl
  | d :: ds, res, ht, h => by
    simp only [expandInL] at h
    split at h
    · cases h
    · rename_i r1 h1
      split at h
      · cases h
      · rename_i r2 h2
        cases h
        have a1 := expandIn_no_cycle pages rank rec stack r hab hrec d r1
          (fun t htm => ht t (by simp [targetsL, htm])) h1
        have a2 := expandInL_no_cycle pages rank rec stack r hab hrec ds r2
          (fun t htm => ht t (by simp [targetsL, htm])) h2
        simp [List.all_append, a1, a2]
end

theorem expandFuel_no_cycle (pages : Pages) (rank : String → Nat) (hac : Acyclic pages rank) :
    ∀ (fuel : Nat) (stack : List String) (f : String) (body : List Doc) (res : List Out × List Diag),
      lookup pages f = some body → Above rank (rank f) (f :: stack) →
      expandFuel pages fuel (f :: stack) body = some res → res.2.all (fun d => !d.isCircular) = true
  | 0, _, _, _, _, _, _, h => by simp [expandFuel] at h
  | fuel + 1, stack, f, body, res, hl, hab, h => by
    simp only [expandFuel] at h
    apply expandInL_no_cycle pages rank (expandFuel pages fuel) (f :: stack) (rank f) hab _ body res
      (fun t ht hs => hac f body hl t ht hs) h
    intro t b r' hb hlt hr'
    apply expandFuel_no_cycle pages rank hac fuel (f :: stack) t b r' hb _ hr'
    intro s hs
    rcases List.mem_cons.1 hs with rfl | hs
    · exact Nat.le_refl _
    · have := hab s hs
      omega

end SnootyVerif.Include
