import SnootyVerif.Model.Validators
namespace SnootyVerif.Validators

def allowed (e : PyErr) : Prop := e = .ValueError ∨ e = .TypeError

theorem pyIntBody_cases (E : Env) (neg : Bool) (b : List Char) :
    (∃ v, pyIntBody E neg b = .ok v) ∨ pyIntBody E neg b = .error .ValueError := by
  unfold pyIntBody
  split
  · exact Or.inr rfl
  · split
    · exact Or.inl ⟨_, rfl⟩
    · exact Or.inr rfl

theorem pyInt_cases (E : Env) (s : List Char) : (∃ v, pyInt E s = .ok v) ∨ pyInt E s = .error .ValueError := by
  unfold pyInt
  split <;> exact pyIntBody_cases _ _ _

theorem pyInt_err (E : Env) (s : List Char) (e : PyErr) (h : pyInt E s = .error e) : e = .ValueError := by
  rcases pyInt_cases E s with ⟨v, hv⟩ | hv
  · rw [hv] at h; cases h
  · rw [hv] at h; cases h; rfl

theorem choice_cases (E : Env) (a) (vs) : (∃ v, choice E a vs = .ok v) ∨ choice E a vs = .error .ValueError := by
  unfold choice
  split
  · exact Or.inr rfl
  · simp only
    split
    · exact Or.inl ⟨_, rfl⟩
    · exact Or.inr rfl

theorem choice_err (E : Env) (a) (vs) (e : PyErr) (h : choice E a vs = .error e) : e = .ValueError := by
  rcases choice_cases E a vs with ⟨v, hv⟩ | hv
  · rw [hv] at h; cases h
  · rw [hv] at h; cases h; rfl

theorem getMeasure_cases (s : List Char) (us) : (∃ v, getMeasure s us = .ok v) ∨ getMeasure s us = .error .ValueError := by
  unfold getMeasure
  split
  · split
    · exact Or.inl ⟨_, rfl⟩
    · exact Or.inr rfl
  · exact Or.inr rfl

theorem getMeasure_err (s : List Char) (us) (e : PyErr) (h : getMeasure s us = .error e) : e = .ValueError := by
  rcases getMeasure_cases s us with ⟨v, hv⟩ | hv
  · rw [hv] at h; cases h
  · rw [hv] at h; cases h; rfl

theorem length_err (a) (e : PyErr) (h : lengthOrPercentage a = .error e) : allowed e := by
  unfold lengthOrPercentage at h
  split at h
  · cases h; exact Or.inr rfl
  · split at h
    · cases h
    · split at h
      · cases h
      · exact Or.inl (getMeasure_err _ _ _ h)

mutual
theorem validate_err (E : Env) : ∀ (k : Kind) (a : Option (List Char)) (e : PyErr), validate E k a = .error e → allowed e
  | .integer, a, e, h => by
    unfold validate at h
    split at h
    · cases h; exact Or.inr rfl
    · rename_i s
      cases hp : pyInt E s with
      | ok v => simp [hp, Except.map] at h
      | error e' =>
        simp only [hp, Except.map] at h
        cases h
        exact Or.inl (pyInt_err E s _ hp)
  | .nonnegativeInteger, a, e, h => by
    unfold validate at h
    split at h
    · cases h; exact Or.inr rfl
    · rename_i s
      split at h
      · split at h
        · cases h; exact Or.inl rfl
        · cases h
      · rename_i e' hp
        cases h
        exact Or.inl (pyInt_err E s _ hp)
  | .string, a, e, h => by
    unfold validate at h
    split at h
    · cases h
    · cases h; exact Or.inl rfl
  | .uri, a, e, h => by
    unfold validate at h
    split at h
    · cases h; exact Or.inl rfl
    · cases h
  | .length, a, e, h => by
    unfold validate at h
    cases hl : lengthOrPercentage a with
    | ok v => simp [hl, Except.map] at h
    | error e' =>
      simp only [hl, Except.map] at h
      cases h
      exact length_err a _ hl
  | .boolean, a, e, h => by
    unfold validate at h
    split at h
    · cases hc : choice E a [['t','r','u','e'], ['f','a','l','s','e']] with
      | ok v => simp [hc, Except.map] at h
      | error e' =>
        simp only [hc, Except.map] at h
        cases h
        exact Or.inl (choice_err E a _ _ hc)
    · cases h
  | .flag, a, e, h => by
    unfold validate at h
    split at h
    · cases h; exact Or.inl rfl
    · cases h
  | .enum values, a, e, h => by
    unfold validate at h
    cases hc : choice E a values with
    | ok v => simp [hc, Except.map] at h
    | error e' =>
      simp only [hc, Except.map] at h
      cases h
      exact Or.inl (choice_err E a _ _ hc)
  | .union ks, a, e, h => by
    unfold validate at h
    exact validateUnion_err E ks a e h
theorem validateUnion_err (E : Env) : ∀ (ks : List Kind) (a : Option (List Char)) (e : PyErr), validateUnion E ks a = .error e → allowed e
  | [], a, e, h => by
    unfold validateUnion at h
    cases h; exact Or.inl rfl
  | k :: ks, a, e, h => by
    unfold validateUnion at h
    split at h
    · cases h
    · exact validateUnion_err E ks a e h
end

end SnootyVerif.Validators
