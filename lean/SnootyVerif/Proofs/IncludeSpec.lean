import SnootyVerif.Proofs.Include

/-!
Positional specification of `bound_included_AST` ("exactly the part between the markers") and the
lemmas connecting the code's index arithmetic to it.
-/
namespace SnootyVerif.Include

def Tag.isM (tg : Tag) : Bool := tg.isS || tg.isE

mutual
/-- content units in document order: a marker node counts as one unit, so does a childless node;
any other node stands for the units of its children -/
def units : T → List Tag
  | .node tg cs => if tg.isM || cs.isEmpty then [tg] else unitsL cs
def unitsL : List T → List Tag
  | [] => []
  | n :: ns => units n ++ unitsL ns
end

mutual
/-- marker nodes (comments / label targets) contain no further markers -/
def atomic : T → Bool
  | .node tg cs => (if tg.isM then !hasSL cs && !hasEL cs else true) && atomicL cs
def atomicL : List T → Bool
  | [] => true
  | n :: ns => atomic n && atomicL ns
end

def pS (t : Tag) : Bool := t.isS
def pE (t : Tag) : Bool := t.isE

/-- everything from the start marker on (whole list if there is no start marker) -/
def fromS (L : List Tag) : List Tag := if L.any pS then L.dropWhile (fun t => !pS t) else L

def takeThrough (p : Tag → Bool) : List Tag → List Tag
  | [] => []
  | x :: xs => if p x then [x] else x :: takeThrough p xs

/-- everything up to and including the end marker (whole list if there is none) -/
def toE (L : List Tag) : List Tag := if L.any pE then takeThrough pE L else L

/-- the specification: the units between the two markers, markers included -/
def between (L : List Tag) : List Tag := toE (fromS L)

/-- an end marker strictly before a start marker -/
def reversed : List Tag → Bool
  | [] => false
  | x :: xs => (pE x && xs.any pS) || reversed xs

/-! ### list lemmas -/

theorem any_append_false {p : Tag → Bool} {A B : List Tag} (h : (A ++ B).any p = false) :
    A.any p = false ∧ B.any p = false := by
  simpa [List.any_append] using h

theorem dropWhile_not_of_none {p : Tag → Bool} {A : List Tag} (h : A.any p = false) (B : List Tag) :
    (A ++ B).dropWhile (fun t => !p t) = B.dropWhile (fun t => !p t) := by
  induction A with
  | nil => rfl
  | cons a A ih =>
    simp only [List.any_cons, Bool.or_eq_false_iff] at h
    simp [List.dropWhile, h.1, ih h.2]

theorem takeThrough_append_none {p : Tag → Bool} {A : List Tag} (h : A.any p = false) (B : List Tag) :
    takeThrough p (A ++ B) = A ++ takeThrough p B := by
  induction A with
  | nil => rfl
  | cons a A ih =>
    simp only [List.any_cons, Bool.or_eq_false_iff] at h
    simp [takeThrough, h.1, ih h.2]

theorem takeThrough_append_some {p : Tag → Bool} {A : List Tag} (h : A.any p = true) (B : List Tag) :
    takeThrough p (A ++ B) = takeThrough p A := by
  induction A with
  | nil => simp at h
  | cons a A ih =>
    simp only [List.cons_append, takeThrough]
    by_cases ha : p a = true
    · simp [ha]
    · have ha' : p a = false := by simpa using ha
      simp only [List.any_cons, ha', Bool.false_or] at h
      simp [ha', ih h]

theorem dropWhile_append_some {p : Tag → Bool} {A : List Tag} (h : A.any p = true) (B : List Tag) :
    (A ++ B).dropWhile (fun t => !p t) = A.dropWhile (fun t => !p t) ++ B := by
  induction A with
  | nil => simp at h
  | cons a A ih =>
    by_cases ha : p a = true
    · simp [List.dropWhile, ha]
    · have ha' : p a = false := by simpa using ha
      simp only [List.any_cons, ha', Bool.false_or] at h
      simp [List.dropWhile, ha', ih h]

theorem any_dropWhile {p q : Tag → Bool} (A : List Tag) (h : A.any q = false) :
    (A.dropWhile (fun t => !p t)).any q = false := by
  induction A with
  | nil => rfl
  | cons a A ih =>
    simp only [List.any_cons, Bool.or_eq_false_iff] at h
    simp only [List.dropWhile]
    split
    · exact ih h.2
    · simp [h.1, h.2]

theorem any_takeThrough {p q : Tag → Bool} (A : List Tag) (h : A.any q = false) :
    (takeThrough p A).any q = false := by
  induction A with
  | nil => rfl
  | cons a A ih =>
    simp only [List.any_cons, Bool.or_eq_false_iff] at h
    simp only [takeThrough]
    split
    · simp [h.1]
    · simp [h.1, ih h.2]

theorem any_dropWhile_self {p : Tag → Bool} (A : List Tag) (h : A.any p = true) :
    (A.dropWhile (fun t => !p t)).any p = true := by
  induction A with
  | nil => simp at h
  | cons a A ih =>
    by_cases ha : p a = true
    · simp [List.dropWhile, ha]
    · have ha' : p a = false := by simpa using ha
      simp only [List.any_cons, ha', Bool.false_or] at h
      simp [List.dropWhile, ha', ih h]

theorem reversed_append (A B : List Tag) :
    reversed (A ++ B) = (reversed A || (A.any pE && B.any pS) || reversed B) := by
  induction A with
  | nil => simp [reversed]
  | cons a A ih =>
    simp only [List.cons_append, reversed, ih, List.any_append, List.any_cons]
    cases pE a <;> cases A.any pS <;> cases B.any pS <;> cases reversed A <;> cases A.any pE <;> cases reversed B <;> rfl

end SnootyVerif.Include

namespace SnootyVerif.Include

/-! ### index arithmetic of `finish` -/

theorem lastIdxFrom_at (A B : List Bool) (d i : Nat) (hB : B.any id = false) :
    lastIdxFrom d i (A ++ true :: B) = i + A.length := by
  induction A generalizing d i with
  | nil =>
    simp only [List.nil_append, lastIdxFrom, if_true, List.length_nil, Nat.add_zero]
    exact lastIdxFrom_none B i (i + 1) hB
  | cons a A ih =>
    simp only [List.cons_append, lastIdxFrom, List.length_cons]
    rw [ih]
    omega

theorem slice_mid (A X B : List α) : slice (A ++ X ++ B) A.length (A.length + X.length) = X := by
  simp [slice, List.drop_append, List.take_append]

theorem slice_from (A X : List α) (b : Nat) (hb : A.length + X.length ≤ b) : slice (A ++ X) A.length b = X := by
  simp only [slice, List.drop_append, List.drop_length, Nat.sub_self, List.drop_zero, List.nil_append]
  apply List.take_of_length_le
  omega

theorem slice_upto (X B : List α) : slice (X ++ B) 0 X.length = X := by
  simp [slice, List.take_append]

abbrev fS (r : R) : Bool := r.2.1
abbrev fE (r : R) : Bool := r.2.2

theorem any_map_id (f : R → Bool) (l : List R) : (l.map f).any id = l.any f := by
  simp [List.any_map, Function.comp_def]

/-- only a start flag, at `x` -/
theorem finish_onlyS (A B : List R) (x : R) (hx : fS x = true)
    (hBS : B.any fS = false) (hE : (A ++ x :: B).any fE = false) :
    finish (A ++ x :: B) = .ok ((x :: B).map (·.1), true, false) := by
  unfold finish lastIdx
  have h1 : lastIdxFrom 0 0 ((A ++ x :: B).map (·.2.1)) = A.length := by
    have : (A ++ x :: B).map (·.2.1) = A.map (·.2.1) ++ true :: B.map (·.2.1) := by
      simp [List.map_append]; exact hx
    rw [this, lastIdxFrom_at _ _ _ _ (by rw [any_map_id]; exact hBS)]
    simp
  have h2 : lastIdxFrom (A ++ x :: B).length 0 ((A ++ x :: B).map (·.2.2)) = (A ++ x :: B).length :=
    lastIdxFrom_none _ _ _ (by rw [any_map_id]; exact hE)
  simp only [h1, h2]
  have hlt : ¬ (A.length > (A ++ x :: B).length) := by simp <;> omega
  simp only [hlt, if_false]
  have hs : slice ((A ++ x :: B).map (·.1)) A.length ((A ++ x :: B).length + 1) = (x :: B).map (·.1) := by
    have : (A ++ x :: B).map (·.1) = A.map (·.1) ++ (x :: B).map (·.1) := by simp [List.map_append]
    rw [this]
    have hl : A.length = (A.map (·.1)).length := by simp
    rw [hl]
    apply slice_from
    simp <;> omega
  have hanyS : (A ++ x :: B).any (·.2.1) = true := by
    simp [List.any_append]; right; left; exact hx
  have hanyE : (A ++ x :: B).any (·.2.2) = false := hE
  rw [hs, hanyS, hanyE]

/-- only an end flag, at `y` -/
theorem finish_onlyE (A B : List R) (y : R) (hy : fE y = true)
    (hBE : B.any fE = false) (hS : (A ++ y :: B).any fS = false) :
    finish (A ++ y :: B) = .ok ((A ++ [y]).map (·.1), false, true) := by
  unfold finish lastIdx
  have h1 : lastIdxFrom 0 0 ((A ++ y :: B).map (·.2.1)) = 0 :=
    lastIdxFrom_none _ _ _ (by rw [any_map_id]; exact hS)
  have h2 : lastIdxFrom (A ++ y :: B).length 0 ((A ++ y :: B).map (·.2.2)) = A.length := by
    have : (A ++ y :: B).map (·.2.2) = A.map (·.2.2) ++ true :: B.map (·.2.2) := by
      simp [List.map_append]; exact hy
    rw [this, lastIdxFrom_at _ _ _ _ (by rw [any_map_id]; exact hBE)]
    simp
  simp only [h1, h2]
  have hlt : ¬ (0 > A.length) := by omega
  simp only [hlt, if_false]
  have hs : slice ((A ++ y :: B).map (·.1)) 0 (A.length + 1) = (A ++ [y]).map (·.1) := by
    have : (A ++ y :: B).map (·.1) = (A ++ [y]).map (·.1) ++ B.map (·.1) := by simp [List.map_append]
    rw [this]
    have hl : A.length + 1 = ((A ++ [y]).map (·.1)).length := by simp
    rw [hl]
    apply slice_upto
  have hanyE : (A ++ y :: B).any (·.2.2) = true := by
    simp [List.any_append]; right; left; exact hy
  have hanyS : (A ++ y :: B).any (·.2.1) = false := hS
  rw [hs, hanyS, hanyE]

/-- start flag at `x`, end flag at `y`, `x` strictly before `y` -/
theorem finish_both (A M B : List R) (x y : R) (hx : fS x = true) (hy : fE y = true)
    (hS2 : (M ++ y :: B).any fS = false) (hBE : B.any fE = false) :
    finish (A ++ x :: (M ++ y :: B)) = .ok ((x :: (M ++ [y])).map (·.1), true, true) := by
  unfold finish lastIdx
  have h1 : lastIdxFrom 0 0 ((A ++ x :: (M ++ y :: B)).map (·.2.1)) = A.length := by
    have : (A ++ x :: (M ++ y :: B)).map (·.2.1) = A.map (·.2.1) ++ true :: (M ++ y :: B).map (·.2.1) := by
      simp [List.map_append]; exact hx
    rw [this, lastIdxFrom_at _ _ _ _ (by rw [any_map_id]; exact hS2)]
    simp
  have h2 : lastIdxFrom (A ++ x :: (M ++ y :: B)).length 0 ((A ++ x :: (M ++ y :: B)).map (·.2.2))
      = A.length + 1 + M.length := by
    have : (A ++ x :: (M ++ y :: B)).map (·.2.2) = (A ++ x :: M).map (·.2.2) ++ true :: B.map (·.2.2) := by
      simp [List.map_append]; exact hy
    rw [this, lastIdxFrom_at _ _ _ _ (by rw [any_map_id]; exact hBE)]
    simp <;> omega
  simp only [h1, h2]
  have hlt : ¬ (A.length > A.length + 1 + M.length) := by omega
  simp only [hlt, if_false]
  have hs : slice ((A ++ x :: (M ++ y :: B)).map (·.1)) A.length (A.length + 1 + M.length + 1)
      = (x :: (M ++ [y])).map (·.1) := by
    have : (A ++ x :: (M ++ y :: B)).map (·.1) = A.map (·.1) ++ (x :: (M ++ [y])).map (·.1) ++ B.map (·.1) := by
      simp [List.map_append]
    rw [this]
    have hl : A.length = (A.map (·.1)).length := by simp
    have hl2 : A.length + 1 + M.length + 1 = (A.map (·.1)).length + ((x :: (M ++ [y])).map (·.1)).length := by
      simp; omega
    rw [hl2, hl]
    simp only [List.length_map]
    have := slice_mid (A.map (·.1)) ((x :: (M ++ [y])).map (·.1)) (B.map (·.1))
    simpa using this
  have hanyS : (A ++ x :: (M ++ y :: B)).any (·.2.1) = true := by
    simp [List.any_append]; right; left; exact hx
  have hanyE : (A ++ x :: (M ++ y :: B)).any (·.2.2) = true := by
    simp [List.any_append]; right; right; right; left; exact hy
  rw [hs, hanyS, hanyE]

/-- one element carries both flags -/
theorem finish_same (A B : List R) (x : R) (hx : fS x = true) (hy : fE x = true)
    (hBS : B.any fS = false) (hBE : B.any fE = false) :
    finish (A ++ x :: B) = .ok ([x.1], true, true) := by
  unfold finish lastIdx
  have h1 : lastIdxFrom 0 0 ((A ++ x :: B).map (·.2.1)) = A.length := by
    have : (A ++ x :: B).map (·.2.1) = A.map (·.2.1) ++ true :: B.map (·.2.1) := by
      simp [List.map_append]; exact hx
    rw [this, lastIdxFrom_at _ _ _ _ (by rw [any_map_id]; exact hBS)]
    simp
  have h2 : lastIdxFrom (A ++ x :: B).length 0 ((A ++ x :: B).map (·.2.2)) = A.length := by
    have : (A ++ x :: B).map (·.2.2) = A.map (·.2.2) ++ true :: B.map (·.2.2) := by
      simp [List.map_append]; exact hy
    rw [this, lastIdxFrom_at _ _ _ _ (by rw [any_map_id]; exact hBE)]
    simp
  simp only [h1, h2]
  have hlt : ¬ (A.length > A.length) := by omega
  simp only [hlt, if_false]
  have hs : slice ((A ++ x :: B).map (·.1)) A.length (A.length + 1) = [x.1] := by
    have : (A ++ x :: B).map (·.1) = A.map (·.1) ++ [x.1] ++ B.map (·.1) := by simp [List.map_append]
    rw [this]
    have := slice_mid (A.map (·.1)) [x.1] (B.map (·.1))
    simpa using this
  have hanyS : (A ++ x :: B).any (·.2.1) = true := by
    simp [List.any_append]; right; left; exact hx
  have hanyE : (A ++ x :: B).any (·.2.2) = true := by
    simp [List.any_append]; right; left; exact hy
  rw [hs, hanyS, hanyE]

end SnootyVerif.Include

namespace SnootyVerif.Include

/-! ### units of trees -/

mutual
theorem units_ne_nil : ∀ t : T, units t ≠ []
  | .node tg cs => by
    simp only [units]
    split
    · simp
    · rename_i h
      cases cs with
      | nil => simp at h
      | cons c cs' =>
        simp only [unitsL]
        intro h2
        exact units_ne_nil c (List.append_eq_nil_iff.1 h2).1
end

theorem unitsL_ne_nil : ∀ ns : List T, ns ≠ [] → unitsL ns ≠ []
  | [], h => absurd rfl h
  | n :: ns, _ => by
    simp only [unitsL]
    intro h2
    exact units_ne_nil n (List.append_eq_nil_iff.1 h2).1

mutual
theorem hasS_units : ∀ t : T, atomic t = true → hasS t = (units t).any pS
  | .node tg cs, ha => by
    simp only [atomic, Bool.and_eq_true] at ha
    simp only [hasS, units]
    by_cases hm : tg.isM = true
    · simp only [hm, if_true, Bool.true_or] at ha ⊢
      simp only [Bool.and_eq_true, Bool.not_eq_true'] at ha
      simp [ha.1.1, pS]
    · have hm' : tg.isM = false := by simpa using hm
      have hs : tg.isS = false := by simp [Tag.isM] at hm'; exact hm'.1
      by_cases hc : cs.isEmpty = true
      · have : cs = [] := by simpa using hc
        simp [hm', this, hasSL, hs, pS]
      · have hc' : cs.isEmpty = false := by simpa using hc
        simp only [hm', hc', Bool.or_false, Bool.false_eq_true, if_false, hs, Bool.false_or]
        exact hasSL_units cs ha.2
theorem hasSL_units : ∀ ns : List T, atomicL ns = true → hasSL ns = (unitsL ns).any pS
  | [], _ => by simp [hasSL, unitsL]
  | n :: ns, ha => by
    simp only [atomicL, Bool.and_eq_true] at ha
    simp [hasSL, unitsL, List.any_append, hasS_units n ha.1, hasSL_units ns ha.2]
end

mutual
theorem hasE_units : ∀ t : T, atomic t = true → hasE t = (units t).any pE
  | .node tg cs, ha => by
    simp only [atomic, Bool.and_eq_true] at ha
    simp only [hasE, units]
    by_cases hm : tg.isM = true
    · simp only [hm, if_true, Bool.true_or] at ha ⊢
      simp only [Bool.and_eq_true, Bool.not_eq_true'] at ha
      simp [ha.1.2, pE]
    · have hm' : tg.isM = false := by simpa using hm
      have hs : tg.isE = false := by simp [Tag.isM] at hm'; exact hm'.2
      by_cases hc : cs.isEmpty = true
      · have : cs = [] := by simpa using hc
        simp [hm', this, hasEL, hs, pE]
      · have hc' : cs.isEmpty = false := by simpa using hc
        simp only [hm', hc', Bool.or_false, Bool.false_eq_true, if_false, hs, Bool.false_or]
        exact hasEL_units cs ha.2
theorem hasEL_units : ∀ ns : List T, atomicL ns = true → hasEL ns = (unitsL ns).any pE
  | [], _ => by simp [hasEL, unitsL]
  | n :: ns, ha => by
    simp only [atomicL, Bool.and_eq_true] at ha
    simp [hasEL, unitsL, List.any_append, hasE_units n ha.1, hasEL_units ns ha.2]
end

theorem unitsL_append (A B : List T) : unitsL (A ++ B) = unitsL A ++ unitsL B := by
  induction A with
  | nil => rfl
  | cons a A ih => simp [unitsL, ih]

theorem atomicL_append (A B : List T) : atomicL (A ++ B) = (atomicL A && atomicL B) := by
  induction A with
  | nil => simp [atomicL]
  | cons a A ih => simp [atomicL, ih, Bool.and_assoc]

theorem hasSL_append (A B : List T) : hasSL (A ++ B) = (hasSL A || hasSL B) := by
  induction A with
  | nil => simp [hasSL]
  | cons a A ih => simp [hasSL, ih, Bool.or_assoc]

theorem hasEL_append (A B : List T) : hasEL (A ++ B) = (hasEL A || hasEL B) := by
  induction A with
  | nil => simp [hasEL]
  | cons a A ih => simp [hasEL, ih, Bool.or_assoc]

/-! ### `between` on pieces -/

theorem between_none (L : List Tag) (hS : L.any pS = false) (hE : L.any pE = false) : between L = L := by
  simp [between, fromS, toE, hS, hE]

theorem fromS_none (L : List Tag) (hS : L.any pS = false) : fromS L = L := by simp [fromS, hS]
theorem toE_none (L : List Tag) (hE : L.any pE = false) : toE L = L := by simp [toE, hE]

theorem fromS_some (L : List Tag) (hS : L.any pS = true) : fromS L = L.dropWhile (fun t => !pS t) := by
  simp [fromS, hS]
theorem toE_some (L : List Tag) (hE : L.any pE = true) : toE L = takeThrough pE L := by simp [toE, hE]

/-- the result of one loop iteration, defaulting when the recursion raised -/
def cutD (n : T) : R := match cutNode n with | .ok r => r | .error _ => (n, false, false)

theorem cutEach_map : ∀ ns : List T, (∀ n ∈ ns, ∃ r, cutNode n = .ok r) → cutEach ns = .ok (ns.map cutD)
  | [], _ => by simp [cutEach]
  | n :: ns, h => by
    obtain ⟨r, hr⟩ := h n List.mem_cons_self
    have ih := cutEach_map ns (fun m hm => h m (List.mem_cons_of_mem _ hm))
    simp [cutEach, hr, ih, cutD]

end SnootyVerif.Include

namespace SnootyVerif.Include

theorem hasSL_eq_any : ∀ ns : List T, hasSL ns = ns.any hasS
  | [] => rfl
  | n :: ns => by simp [hasSL, hasSL_eq_any ns]

theorem hasEL_eq_any : ∀ ns : List T, hasEL ns = ns.any hasE
  | [] => rfl
  | n :: ns => by simp [hasEL, hasEL_eq_any ns]

theorem split_first {α : Type} (f : α → Bool) : ∀ l : List α, l.any f = true →
    ∃ A x B, l = A ++ x :: B ∧ f x = true ∧ A.any f = false
  | [], h => by simp at h
  | a :: l, h => by
    by_cases ha : f a = true
    · exact ⟨[], a, l, rfl, ha, rfl⟩
    · have ha' : f a = false := by simpa using ha
      simp only [List.any_cons, ha', Bool.false_or] at h
      obtain ⟨A, x, B, rfl, hx, hA⟩ := split_first f l h
      exact ⟨a :: A, x, B, rfl, hx, by simp [ha', hA]⟩

theorem any_false_of_countP_zero {p : Tag → Bool} {L : List Tag} (h : L.countP p = 0) : L.any p = false := by
  induction L with
  | nil => rfl
  | cons a L ih =>
    rw [List.countP_cons] at h
    by_cases ha : p a = true
    · simp [ha] at h
    · have ha' : p a = false := by simpa using ha
      simp only [ha', Bool.false_eq_true, if_false, Nat.add_zero] at h
      simp [ha', ih h]

theorem one_le_countP_of_any {p : Tag → Bool} {L : List Tag} (h : L.any p = true) : 1 ≤ L.countP p := by
  induction L with
  | nil => simp at h
  | cons a L ih =>
    rw [List.countP_cons]
    by_cases ha : p a = true
    · simp [ha]
    · have ha' : p a = false := by simpa using ha
      simp only [List.any_cons, ha', Bool.false_or] at h
      have := ih h
      omega

/-- the invariant each loop iteration establishes -/
def Inv (n : T) : Prop :=
  (cutD n).2.1 = hasS n ∧ (cutD n).2.2 = hasE n ∧ units (cutD n).1 = between (units n)

theorem flagsS_map (ns : List T) (h : ∀ n ∈ ns, Inv n) : (ns.map cutD).any fS = hasSL ns := by
  induction ns with
  | nil => rfl
  | cons n ns ih =>
    have h1 := (h n List.mem_cons_self).1
    have := ih (fun m hm => h m (List.mem_cons_of_mem _ hm))
    simp only [List.map_cons, List.any_cons, hasSL, fS] at this ⊢
    rw [h1, this]

theorem flagsE_map (ns : List T) (h : ∀ n ∈ ns, Inv n) : (ns.map cutD).any fE = hasEL ns := by
  induction ns with
  | nil => rfl
  | cons n ns ih =>
    have h1 := (h n List.mem_cons_self).2.1
    have := ih (fun m hm => h m (List.mem_cons_of_mem _ hm))
    simp only [List.map_cons, List.any_cons, hasEL, fE] at this ⊢
    rw [h1, this]

/-- elements without markers come out with the same units -/
theorem units_map_none (B : List T) (h : ∀ n ∈ B, Inv n) (ha : atomicL B = true)
    (hS : hasSL B = false) (hE : hasEL B = false) :
    unitsL ((B.map cutD).map (·.1)) = unitsL B := by
  induction B with
  | nil => rfl
  | cons n B ih =>
    simp only [atomicL, Bool.and_eq_true] at ha
    simp only [hasSL, Bool.or_eq_false_iff] at hS
    simp only [hasEL, Bool.or_eq_false_iff] at hE
    have hn := (h n List.mem_cons_self).2.2
    have hs : (units n).any pS = false := by rw [← hasS_units n ha.1]; exact hS.1
    have he : (units n).any pE = false := by rw [← hasE_units n ha.1]; exact hE.1
    rw [between_none _ hs he] at hn
    simp only [List.map_cons, unitsL, hn]
    rw [ih (fun m hm => h m (List.mem_cons_of_mem _ hm)) ha.2 hS.2 hE.2]

end SnootyVerif.Include

namespace SnootyVerif.Include

theorem dropWhile_keeps_end (L : List Tag) (hr : reversed L = false) (hS : L.any pS = true) (hE : L.any pE = true) :
    (L.dropWhile (fun t => !pS t)).any pE = true := by
  induction L with
  | nil => simp at hS
  | cons a L ih =>
    by_cases ha : pS a = true
    · simp only [List.dropWhile, ha, Bool.not_true]
      exact hE
    · have ha' : pS a = false := by simpa using ha
      simp only [List.any_cons, ha', Bool.false_or] at hS
      simp only [reversed, hS, Bool.and_true, Bool.or_eq_false_iff] at hr
      simp only [List.any_cons, hr.1, Bool.false_or] at hE
      simp only [List.dropWhile, ha', Bool.not_false]
      exact ih hr.2 hS hE

theorem between_S_only (UA Ux UB : List Tag) (hA : UA.any pS = false) (hx : Ux.any pS = true)
    (hE : (UA ++ (Ux ++ UB)).any pE = false) :
    between (UA ++ (Ux ++ UB)) = between Ux ++ UB := by
  have hEs := any_append_false hE
  have hEs2 := any_append_false hEs.2
  have hall : (UA ++ (Ux ++ UB)).any pS = true := by simp [List.any_append, hx]
  unfold between
  rw [fromS_some _ hall, dropWhile_not_of_none hA, dropWhile_append_some hx, fromS_some _ hx]
  rw [toE_none, toE_none]
  · exact any_dropWhile _ hEs2.1
  · simp only [List.any_append, Bool.or_eq_false_iff]
    exact ⟨any_dropWhile _ hEs2.1, hEs2.2⟩

theorem between_E_only (UA Uy UB : List Tag) (hA : UA.any pE = false) (hy : Uy.any pE = true)
    (hS : (UA ++ (Uy ++ UB)).any pS = false) :
    between (UA ++ (Uy ++ UB)) = UA ++ between Uy := by
  have hSs := any_append_false hS
  have hSs2 := any_append_false hSs.2
  have hall : (UA ++ (Uy ++ UB)).any pE = true := by simp [List.any_append, hy]
  unfold between
  rw [fromS_none _ hS, fromS_none _ hSs2.1, toE_some _ hall, toE_some _ hy]
  rw [takeThrough_append_none hA, takeThrough_append_some hy]

theorem between_same (UA Ux UB : List Tag) (hA : UA.any pS = false) (hxS : Ux.any pS = true)
    (hxE : Ux.any pE = true) (hr : reversed Ux = false) :
    between (UA ++ (Ux ++ UB)) = between Ux := by
  have hall : (UA ++ (Ux ++ UB)).any pS = true := by simp [List.any_append, hxS]
  have hk := dropWhile_keeps_end Ux hr hxS hxE
  unfold between
  rw [fromS_some _ hall, dropWhile_not_of_none hA, dropWhile_append_some hxS, fromS_some _ hxS]
  rw [toE_some _ (by simp [List.any_append, hk]), toE_some _ hk, takeThrough_append_some hk]

theorem between_both (UA Ux UM Uy UB : List Tag) (hA : UA.any pS = false) (hxS : Ux.any pS = true)
    (hxE : Ux.any pE = false) (hM : UM.any pE = false) (hyE : Uy.any pE = true) (hyS : Uy.any pS = false) :
    between (UA ++ (Ux ++ (UM ++ (Uy ++ UB)))) = between Ux ++ (UM ++ between Uy) := by
  have hall : (UA ++ (Ux ++ (UM ++ (Uy ++ UB)))).any pS = true := by simp [List.any_append, hxS]
  unfold between
  rw [fromS_some _ hall, dropWhile_not_of_none hA, dropWhile_append_some hxS, fromS_some _ hxS, fromS_none _ hyS]
  have hd : (Ux.dropWhile (fun t => !pS t)).any pE = false := any_dropWhile _ hxE
  rw [toE_some _ (by simp [List.any_append, hyE]), toE_none _ hd, toE_some _ hyE]
  rw [takeThrough_append_none hd, takeThrough_append_none hM, takeThrough_append_some hyE]

end SnootyVerif.Include

namespace SnootyVerif.Include

theorem hasSL_false_of_units (B : List T) (ha : atomicL B = true) (h : (unitsL B).any pS = false) : hasSL B = false := by
  rw [hasSL_units B ha]; exact h
theorem hasEL_false_of_units (B : List T) (ha : atomicL B = true) (h : (unitsL B).any pE = false) : hasEL B = false := by
  rw [hasEL_units B ha]; exact h

theorem forall_of_append_left {P : T → Prop} {A B : List T} (h : ∀ n ∈ A ++ B, P n) : ∀ n ∈ A, P n :=
  fun n hn => h n (List.mem_append_left _ hn)
theorem forall_of_append_right {P : T → Prop} {A B : List T} (h : ∀ n ∈ A ++ B, P n) : ∀ n ∈ B, P n :=
  fun n hn => h n (List.mem_append_right _ hn)

/-- The index arithmetic of `bound_included_AST` at ONE sibling level implements the positional
specification, given that every child already does (`Inv`). -/
theorem finish_spec (ns : List T) (hne : ns ≠ [])
    (hInv : ∀ n ∈ ns, Inv n) (ha : atomicL ns = true)
    (hcS : (unitsL ns).countP pS ≤ 1) (hcE : (unitsL ns).countP pE ≤ 1)
    (hrev : reversed (unitsL ns) = false) :
    ∃ out, finish (ns.map cutD) = .ok (out, hasSL ns, hasEL ns) ∧ unitsL out = between (unitsL ns) ∧ out ≠ [] := by
  cases hS : hasSL ns <;> cases hE : hasEL ns
  · -- no markers at this level
    refine ⟨(ns.map cutD).map (·.1), ?_, ?_, ?_⟩
    · exact finish_ok_of_flags _ (by rw [flagsS_map ns hInv]; exact hS) (by rw [flagsE_map ns hInv]; exact hE)
    · rw [units_map_none ns hInv ha hS hE, between_none]
      · rw [← hasSL_units ns ha]; exact hS
      · rw [← hasEL_units ns ha]; exact hE
    · cases ns with
      | nil => exact absurd rfl hne
      | cons n ns => simp
  · -- only the end marker
    rw [hasEL_eq_any] at hE
    obtain ⟨A, y, B, rfl, hy, hA⟩ := split_first hasE ns hE
    rw [atomicL_append] at ha
    simp only [atomicL, Bool.and_eq_true] at ha
    obtain ⟨haA, hay, haB⟩ := ha
    have hyU : (units y).any pE = true := by rw [← hasE_units y hay]; exact hy
    have hAU : (unitsL A).any pE = false := by rw [← hasEL_units A haA, hasEL_eq_any]; exact hA
    have hBU : (unitsL B).any pE = false := by
      apply any_false_of_countP_zero
      have := one_le_countP_of_any hyU
      simp only [unitsL_append, unitsL, List.countP_append] at hcE
      omega
    have hSU : (unitsL (A ++ y :: B)).any pS = false := by rw [← hasSL_units _ (by simp [atomicL_append, atomicL, haA, hay, haB])]; exact hS
    have hSU' : (unitsL A ++ (units y ++ unitsL B)).any pS = false := by simpa [unitsL_append, unitsL] using hSU
    have hSs := any_append_false hSU'
    have hSs2 := any_append_false hSs.2
    have hBE : hasEL B = false := hasEL_false_of_units B haB hBU
    have hAS : hasSL A = false := hasSL_false_of_units A haA hSs.1
    have hBS : hasSL B = false := hasSL_false_of_units B haB hSs2.2
    have hAE : hasEL A = false := hasEL_false_of_units A haA hAU
    have hInvA := forall_of_append_left hInv
    have hInvyB := forall_of_append_right hInv
    have hInvy := hInvyB y List.mem_cons_self
    have hInvB : ∀ n ∈ B, Inv n := fun n hn => hInvyB n (List.mem_cons_of_mem _ hn)
    refine ⟨((A.map cutD) ++ [cutD y]).map (·.1), ?_, ?_, ?_⟩
    · have := finish_onlyE (A.map cutD) (B.map cutD) (cutD y) (by show (cutD y).2.2 = true; rw [hInvy.2.1]; exact hy)
        (by rw [flagsE_map B hInvB]; exact hBE)
        (by
          have := flagsS_map (A ++ y :: B) hInv
          simp only [List.map_append, List.map_cons] at this
          rw [this]; exact hS)
      simp only [List.map_append, List.map_cons] at this ⊢
      rw [this]
    · simp only [List.map_append, List.map_cons, List.map_nil, unitsL_append, unitsL, List.append_nil]
      rw [units_map_none A hInvA haA hAS hAE, hInvy.2.2]
      exact (between_E_only _ _ _ hAU hyU hSU').symm
    · simp
  · -- only the start marker
    rw [hasSL_eq_any] at hS
    obtain ⟨A, x, B, rfl, hx, hA⟩ := split_first hasS ns hS
    rw [atomicL_append] at ha
    simp only [atomicL, Bool.and_eq_true] at ha
    obtain ⟨haA, hax, haB⟩ := ha
    have hxU : (units x).any pS = true := by rw [← hasS_units x hax]; exact hx
    have hAU : (unitsL A).any pS = false := by rw [← hasSL_units A haA, hasSL_eq_any]; exact hA
    have hBU : (unitsL B).any pS = false := by
      apply any_false_of_countP_zero
      have := one_le_countP_of_any hxU
      simp only [unitsL_append, unitsL, List.countP_append] at hcS
      omega
    have hEU : (unitsL (A ++ x :: B)).any pE = false := by rw [← hasEL_units _ (by simp [atomicL_append, atomicL, haA, hax, haB])]; exact hE
    have hEU' : (unitsL A ++ (units x ++ unitsL B)).any pE = false := by simpa [unitsL_append, unitsL] using hEU
    have hEs := any_append_false hEU'
    have hEs2 := any_append_false hEs.2
    have hBS : hasSL B = false := hasSL_false_of_units B haB hBU
    have hBE : hasEL B = false := hasEL_false_of_units B haB hEs2.2
    have hInvxB := forall_of_append_right hInv
    have hInvx := hInvxB x List.mem_cons_self
    have hInvB : ∀ n ∈ B, Inv n := fun n hn => hInvxB n (List.mem_cons_of_mem _ hn)
    refine ⟨(cutD x :: B.map cutD).map (·.1), ?_, ?_, ?_⟩
    · have := finish_onlyS (A.map cutD) (B.map cutD) (cutD x) (by show (cutD x).2.1 = true; rw [hInvx.1]; exact hx)
        (by rw [flagsS_map B hInvB]; exact hBS)
        (by
          have := flagsE_map (A ++ x :: B) hInv
          simp only [List.map_append, List.map_cons] at this
          rw [this]; exact hE)
      simp only [List.map_append, List.map_cons] at this ⊢
      rw [this]
    · simp only [List.map_cons, unitsL_append, unitsL]
      rw [units_map_none B hInvB haB hBS hBE, hInvx.2.2]
      exact (between_S_only _ _ _ hAU hxU hEU').symm
    · simp
  · -- both markers
    rw [hasSL_eq_any] at hS
    obtain ⟨A, x, B, rfl, hx, hA⟩ := split_first hasS ns hS
    rw [atomicL_append] at ha
    simp only [atomicL, Bool.and_eq_true] at ha
    obtain ⟨haA, hax, haB⟩ := ha
    have hxU : (units x).any pS = true := by rw [← hasS_units x hax]; exact hx
    have hAU : (unitsL A).any pS = false := by rw [← hasSL_units A haA, hasSL_eq_any]; exact hA
    have hBU : (unitsL B).any pS = false := by
      apply any_false_of_countP_zero
      have := one_le_countP_of_any hxU
      simp only [unitsL_append, unitsL, List.countP_append] at hcS
      omega
    have hBS : hasSL B = false := hasSL_false_of_units B haB hBU
    have hInvA := forall_of_append_left hInv
    have hInvxB := forall_of_append_right hInv
    have hInvx := hInvxB x List.mem_cons_self
    have hInvB : ∀ n ∈ B, Inv n := fun n hn => hInvxB n (List.mem_cons_of_mem _ hn)
    -- the end marker cannot be in A (that would be reversed)
    have hrev' : reversed (unitsL A ++ (units x ++ unitsL B)) = false := by simpa [unitsL_append, unitsL] using hrev
    rw [reversed_append] at hrev'
    simp only [Bool.or_eq_false_iff, Bool.and_eq_false_iff] at hrev'
    have hAE_U : (unitsL A).any pE = false := by
      rcases hrev'.1.2 with h | h
      · exact h
      · simp [List.any_append, hxU] at h
    have hAE : hasEL A = false := hasEL_false_of_units A haA hAE_U
    have hE' : hasE x = true ∨ hasEL B = true := by
      simp only [hasEL_append, hasEL, hAE, Bool.false_or, Bool.or_eq_true] at hE
      exact hE
    by_cases hxE : hasE x = true
    · -- same child carries both
      have hxEU : (units x).any pE = true := by rw [← hasE_units x hax]; exact hxE
      have hBEU : (unitsL B).any pE = false := by
        apply any_false_of_countP_zero
        have := one_le_countP_of_any hxEU
        simp only [unitsL_append, unitsL, List.countP_append] at hcE
        omega
      have hBE : hasEL B = false := hasEL_false_of_units B haB hBEU
      have hrx : reversed (units x) = false := by
        have := hrev'.2
        rw [reversed_append] at this
        simp only [Bool.or_eq_false_iff] at this
        exact this.1.1
      refine ⟨[(cutD x).1], ?_, ?_, by simp⟩
      · have := finish_same (A.map cutD) (B.map cutD) (cutD x) (by show (cutD x).2.1 = true; rw [hInvx.1]; exact hx)
          (by show (cutD x).2.2 = true; rw [hInvx.2.1]; exact hxE)
          (by rw [flagsS_map B hInvB]; exact hBS) (by rw [flagsE_map B hInvB]; exact hBE)
        simp only [List.map_append, List.map_cons] at this ⊢
        rw [this]
      · simp only [unitsL, List.append_nil, unitsL_append]
        rw [hInvx.2.2]
        exact (between_same _ _ _ hAU hxU hxEU hrx).symm
    · have hxE' : hasE x = false := by simpa using hxE
      have hBE : hasEL B = true := by rcases hE' with h | h; exact absurd h hxE; exact h
      rw [hasEL_eq_any] at hBE
      obtain ⟨M, y, B', rfl, hy, hM⟩ := split_first hasE B hBE
      rw [atomicL_append] at haB
      simp only [atomicL, Bool.and_eq_true] at haB
      obtain ⟨haM, hay, haB'⟩ := haB
      have hyU : (units y).any pE = true := by rw [← hasE_units y hay]; exact hy
      have hxEU : (units x).any pE = false := by rw [← hasE_units x hax]; exact hxE'
      have hMU : (unitsL M).any pE = false := by rw [← hasEL_units M haM, hasEL_eq_any]; exact hM
      have hB'EU : (unitsL B').any pE = false := by
        apply any_false_of_countP_zero
        have := one_le_countP_of_any hyU
        simp only [unitsL_append, unitsL, List.countP_append] at hcE
        omega
      have hBU' : (unitsL M ++ (units y ++ unitsL B')).any pS = false := by simpa [unitsL_append, unitsL] using hBU
      have hs1 := any_append_false hBU'
      have hs2 := any_append_false hs1.2
      have hInvM := forall_of_append_left hInvB
      have hInvyB' := forall_of_append_right hInvB
      have hInvy := hInvyB' y List.mem_cons_self
      have hInvB' : ∀ n ∈ B', Inv n := fun n hn => hInvyB' n (List.mem_cons_of_mem _ hn)
      have hMS : hasSL M = false := hasSL_false_of_units M haM hs1.1
      have hME : hasEL M = false := hasEL_false_of_units M haM hMU
      have hB'E : hasEL B' = false := hasEL_false_of_units B' haB' hB'EU
      refine ⟨(cutD x :: (M.map cutD ++ [cutD y])).map (·.1), ?_, ?_, by simp⟩
      · have := finish_both (A.map cutD) (M.map cutD) (B'.map cutD) (cutD x) (cutD y)
          (by show (cutD x).2.1 = true; rw [hInvx.1]; exact hx)
          (by show (cutD y).2.2 = true; rw [hInvy.2.1]; exact hy)
          (by
            have := flagsS_map (M ++ y :: B') hInvB
            simp only [List.map_append, List.map_cons] at this
            rw [this]; exact hBS)
          (by rw [flagsE_map B' hInvB']; exact hB'E)
        simp only [List.map_append, List.map_cons] at this ⊢
        rw [this]
      · simp only [List.map_cons, List.map_append, List.map_nil, unitsL, unitsL_append, List.append_nil]
        rw [units_map_none M hInvM haM hMS hME, hInvx.2.2, hInvy.2.2]
        have := between_both (unitsL A) (units x) (unitsL M) (units y) (unitsL B') hAU hxU hxEU hMU hyU hs2.1
        exact this.symm

end SnootyVerif.Include


namespace SnootyVerif.Include

theorem between_singleton (tg : Tag) : between [tg] = [tg] := by
  unfold between fromS toE
  cases h1 : pS tg <;> cases h2 : pE tg <;> simp [h1, h2, takeThrough, List.dropWhile]

theorem finish_nil : finish [] = .ok ([], false, false) := by
  simp [finish, lastIdx, lastIdxFrom, slice]

theorem countP_append_le {p : Tag → Bool} {A B : List Tag} (h : (A ++ B).countP p ≤ 1) :
    A.countP p ≤ 1 ∧ B.countP p ≤ 1 := by
  rw [List.countP_append] at h
  omega

mutual
theorem cutNode_spec : ∀ t : T, atomic t = true → (units t).countP pS ≤ 1 → (units t).countP pE ≤ 1 →
    reversed (units t) = false →
    ∃ t', cutNode t = .ok (t', hasS t, hasE t) ∧ units t' = between (units t)
  | .node tg cs, ha, hcS, hcE, hrev => by
    have ha0 := ha
    simp only [atomic, Bool.and_eq_true] at ha
    by_cases hm : tg.isM = true
    · -- a marker node: nothing below it is a marker, the node is kept whole
      simp only [hm, if_true, Bool.and_eq_true, Bool.not_eq_true'] at ha
      have hc := cutEach_none cs ha.1.1 ha.1.2
      refine ⟨.node tg cs, ?_, ?_⟩
      · simp only [cutNode, hc]
        rw [finish_ok_of_flags]
        · simp [hasS, hasE, ha.1.1, ha.1.2, List.map_map, Function.comp_def]
        · simp [List.any_map, Function.comp_def]
        · simp [List.any_map, Function.comp_def]
      · simp [units, hm, between_singleton]
    · have hm' : tg.isM = false := by simpa using hm
      have hs : tg.isS = false := by simp [Tag.isM] at hm'; exact hm'.1
      have he : tg.isE = false := by simp [Tag.isM] at hm'; exact hm'.2
      cases cs with
      | nil =>
        refine ⟨.node tg [], ?_, ?_⟩
        · simp [cutNode, cutEach, finish_nil, hasS, hasE, hasSL, hasEL, hs, he]
        · simp [units, hm', between_singleton]
      | cons c cs' =>
        have hu : units (.node tg (c :: cs')) = unitsL (c :: cs') := by simp [units, hm']
        rw [hu] at hcS hcE hrev
        have ih := cutEach_ok (c :: cs') ha.2 hcS hcE hrev
        have hmap := cutEach_map (c :: cs') ih.1
        obtain ⟨out, hfin, hunits, hne⟩ := finish_spec (c :: cs') (by simp) ih.2 ha.2 hcS hcE hrev
        refine ⟨.node tg out, ?_, ?_⟩
        · simp only [cutNode, hmap, hfin]
          simp [hasS, hasE, hs, he]
        · rw [hu, ← hunits]
          have : out.isEmpty = false := by cases out with | nil => exact absurd rfl hne | cons _ _ => rfl
          simp [units, hm', this]
theorem cutEach_ok : ∀ ns : List T, atomicL ns = true → (unitsL ns).countP pS ≤ 1 → (unitsL ns).countP pE ≤ 1 →
    reversed (unitsL ns) = false →
    (∀ n ∈ ns, ∃ r, cutNode n = .ok r) ∧ (∀ n ∈ ns, Inv n)
  | [], _, _, _, _ => by simp
  | n :: ns, ha, hcS, hcE, hrev => by
    simp only [atomicL, Bool.and_eq_true] at ha
    simp only [unitsL] at hcS hcE hrev
    have cS := countP_append_le hcS
    have cE := countP_append_le hcE
    rw [reversed_append] at hrev
    simp only [Bool.or_eq_false_iff] at hrev
    obtain ⟨t', ht, hu⟩ := cutNode_spec n ha.1 cS.1 cE.1 hrev.1.1
    have ih := cutEach_ok ns ha.2 cS.2 cE.2 hrev.2
    constructor
    · intro m hm
      rcases List.mem_cons.1 hm with rfl | hm
      · exact ⟨_, ht⟩
      · exact ih.1 m hm
    · intro m hm
      rcases List.mem_cons.1 hm with rfl | hm
      · simp only [Inv, cutD, ht]
        exact ⟨trivial, trivial, hu⟩
      · exact ih.2 m hm
end

end SnootyVerif.Include


namespace SnootyVerif.Include

/-! ### reversed markers always raise -/

theorem lastIdxFrom_shift (fl : List Bool) (d i : Nat) (h : fl.any id = true) :
    lastIdxFrom d (i + 1) fl = lastIdxFrom d i fl + 1 := by
  induction fl generalizing d i with
  | nil => simp at h
  | cons f fs ih =>
    simp only [lastIdxFrom]
    cases f
    · simp only [List.any_cons, id, Bool.false_or] at h
      simp only [Bool.false_eq_true, if_false]
      exact ih d (i + 1) h
    · simp only [if_true]
      by_cases hfs : fs.any id = true
      · -- the default is irrelevant once a later flag is found
        have hd : ∀ (d1 d2 j : Nat), lastIdxFrom d1 j fs = lastIdxFrom d2 j fs := by
          intro d1 d2 j
          clear ih h
          induction fs generalizing d1 d2 j with
          | nil => simp at hfs
          | cons g gs ihg =>
            simp only [lastIdxFrom]
            cases g
            · simp only [List.any_cons, id, Bool.false_or] at hfs
              simp only [Bool.false_eq_true, if_false]
              exact ihg hfs d1 d2 (j + 1)
            · simp
        rw [hd (i + 1) i (i + 1 + 1)]
        exact ih i (i + 1) hfs
      · have hfs' : fs.any id = false := by simpa using hfs
        rw [lastIdxFrom_none fs _ _ hfs', lastIdxFrom_none fs _ _ hfs']

end SnootyVerif.Include


namespace SnootyVerif.Include

theorem lastIdxFrom_default_irrel (fl : List Bool) (h : fl.any id = true) (d1 d2 j : Nat) :
    lastIdxFrom d1 j fl = lastIdxFrom d2 j fl := by
  induction fl generalizing d1 d2 j with
  | nil => simp at h
  | cons g gs ih =>
    simp only [lastIdxFrom]
    cases g
    · simp only [List.any_cons, id, Bool.false_or] at h
      simp only [Bool.false_eq_true, if_false]
      exact ih h d1 d2 (j + 1)
    · simp

theorem reversed_has (L : List Tag) (h : reversed L = true) : L.any pE = true ∧ L.any pS = true := by
  induction L with
  | nil => simp [reversed] at h
  | cons a L ih =>
    simp only [reversed, Bool.or_eq_true, Bool.and_eq_true] at h
    rcases h with ⟨h1, h2⟩ | h
    · simp [h1, h2]
    · have := ih h
      simp [this.1, this.2]

/-- prepending an unflagged element keeps the raise -/
theorem finish_cons_error (r : R) (rs : List R) (hrS : fS r = false) (hrE : fE r = false)
    (hS : rs.any fS = true) (hE : rs.any fE = true) (m : String) (h : finish rs = .error m) :
    ∃ m', finish (r :: rs) = .error m' := by
  unfold finish lastIdx at h ⊢
  simp only at h ⊢
  have aS : (rs.map (·.2.1)).any id = true := by rw [any_map_id]; exact hS
  have aE : (rs.map (·.2.2)).any id = true := by rw [any_map_id]; exact hE
  have e1 : lastIdxFrom 0 0 ((r :: rs).map (·.2.1)) = lastIdxFrom 0 0 (rs.map (·.2.1)) + 1 := by
    simp only [List.map_cons, lastIdxFrom]
    have : r.2.1 = false := hrS
    simp only [this, Bool.false_eq_true, if_false]
    exact lastIdxFrom_shift _ 0 0 aS
  have e2 : lastIdxFrom (r :: rs).length 0 ((r :: rs).map (·.2.2)) = lastIdxFrom rs.length 0 (rs.map (·.2.2)) + 1 := by
    simp only [List.map_cons, lastIdxFrom]
    have : r.2.2 = false := hrE
    simp only [this, Bool.false_eq_true, if_false]
    rw [lastIdxFrom_default_irrel _ aE (r :: rs).length rs.length (0 + 1)]
    exact lastIdxFrom_shift _ rs.length 0 aE
  rw [e1, e2]
  split at h
  · rename_i hgt
    have : lastIdxFrom 0 0 (rs.map (·.2.1)) + 1 > lastIdxFrom rs.length 0 (rs.map (·.2.2)) + 1 := by omega
    simp only [this, if_true]
    exact ⟨_, rfl⟩
  · cases h

/-- an end flag on the first element and a start flag later: raise -/
theorem finish_E_then_S (r : R) (rs : List R) (hrE : fE r = true) (hS : rs.any fS = true) (hE : rs.any fE = false) :
    ∃ m, finish (r :: rs) = .error m := by
  unfold finish lastIdx
  simp only
  have aS : (rs.map (·.2.1)).any id = true := by rw [any_map_id]; exact hS
  have aE : (rs.map (·.2.2)).any id = false := by rw [any_map_id]; exact hE
  have e2 : lastIdxFrom (r :: rs).length 0 ((r :: rs).map (·.2.2)) = 0 := by
    simp only [List.map_cons, lastIdxFrom]
    have : r.2.2 = true := hrE
    simp only [this, if_true]
    exact lastIdxFrom_none _ _ _ aE
  have e1 : 1 ≤ lastIdxFrom 0 0 ((r :: rs).map (·.2.1)) := by
    simp only [List.map_cons, lastIdxFrom]
    have hr := lastIdxFrom_range (rs.map (·.2.1)) (if r.2.1 = true then 0 else 0) (0 + 1)
    rcases hr with hr | ⟨_, h2, _⟩
    · -- found a flag, so the result cannot be the default unless … use the shift form instead
      have := lastIdxFrom_shift (rs.map (·.2.1)) (if r.2.1 = true then 0 else 0) 0 aS
      omega
    · omega
  rw [e2]
  have : lastIdxFrom 0 0 ((r :: rs).map (·.2.1)) > 0 := by omega
  simp only [this, if_true]
  exact ⟨_, rfl⟩

end SnootyVerif.Include


namespace SnootyVerif.Include

theorem reversed_singleton (tg : Tag) : reversed [tg] = false := by simp [reversed]

/-- outcome of the loop at one sibling level when the markers are reversed: either the recursion
already raised, or `finish` raises on the collected results -/
def RaisesL (ns : List T) : Prop :=
  (∃ m, cutEach ns = .error m) ∨ (∃ rs, cutEach ns = .ok rs ∧ ∃ m, finish rs = .error m)

mutual
theorem cutNode_reversed : ∀ t : T, atomic t = true → (units t).countP pS ≤ 1 → (units t).countP pE ≤ 1 →
    reversed (units t) = true → ∃ m, cutNode t = .error m
  | .node tg cs, ha, hcS, hcE, hrev => by
    simp only [atomic, Bool.and_eq_true] at ha
    by_cases hm : tg.isM = true
    · simp [units, hm, reversed_singleton] at hrev
    · have hm' : tg.isM = false := by simpa using hm
      cases cs with
      | nil => simp [units, hm', reversed_singleton] at hrev
      | cons c cs' =>
        have hu : units (.node tg (c :: cs')) = unitsL (c :: cs') := by simp [units, hm']
        rw [hu] at hcS hcE hrev
        rcases cutEach_reversed (c :: cs') ha.2 hcS hcE hrev with ⟨m, hm⟩ | ⟨rs, hrs, m, hfin⟩
        · exact ⟨m, by simp [cutNode, hm]⟩
        · exact ⟨m, by simp [cutNode, hrs, hfin]⟩
theorem cutEach_reversed : ∀ ns : List T, atomicL ns = true → (unitsL ns).countP pS ≤ 1 → (unitsL ns).countP pE ≤ 1 →
    reversed (unitsL ns) = true → RaisesL ns
  | [], _, _, _, hrev => by simp [unitsL, reversed] at hrev
  | n :: ns, ha, hcS, hcE, hrev => by
    simp only [atomicL, Bool.and_eq_true] at ha
    simp only [unitsL] at hcS hcE hrev
    have cS := countP_append_le hcS
    have cE := countP_append_le hcE
    rw [List.countP_append] at hcS hcE
    rw [reversed_append] at hrev
    simp only [Bool.or_eq_true, Bool.and_eq_true] at hrev
    -- whatever happens below, an error of `cutNode n` ends the loop with that error
    cases hn : cutNode n with
    | error m => exact Or.inl ⟨m, by simp [cutEach, hn]⟩
    | ok r =>
      have hfl := cutNode_flags n r hn
      rcases hrev with (h1 | ⟨hE1, hS2⟩) | h3
      · obtain ⟨m, hm⟩ := cutNode_reversed n ha.1 cS.1 cE.1 h1
        rw [hn] at hm; cases hm
      · -- end marker in `n`, start marker later
        have hS1 : (units n).any pS = false := by
          apply any_false_of_countP_zero
          have := one_le_countP_of_any hS2
          omega
        have hE2 : (unitsL ns).any pE = false := by
          apply any_false_of_countP_zero
          have := one_le_countP_of_any hE1
          omega
        cases hns : cutEach ns with
        | error m => exact Or.inl ⟨m, by simp [cutEach, hn, hns]⟩
        | ok rs =>
          have hfls := cutEach_flags ns rs hns
          right
          refine ⟨r :: rs, by simp [cutEach, hn, hns], ?_⟩
          apply finish_E_then_S
          · show r.2.2 = true
            rw [hfl.2, hasE_units n ha.1]; exact hE1
          · show rs.any (·.2.1) = true
            rw [hfls.1, hasSL_units ns ha.2]; exact hS2
          · show rs.any (·.2.2) = false
            rw [hfls.2, hasEL_units ns ha.2]; exact hE2
      · -- both markers later, reversed there
        have hh := reversed_has _ h3
        have hS1 : (units n).any pS = false := by
          apply any_false_of_countP_zero
          have := one_le_countP_of_any hh.2
          omega
        have hE1 : (units n).any pE = false := by
          apply any_false_of_countP_zero
          have := one_le_countP_of_any hh.1
          omega
        rcases cutEach_reversed ns ha.2 cS.2 cE.2 h3 with ⟨m, hm⟩ | ⟨rs, hrs, m, hfin⟩
        · exact Or.inl ⟨m, by simp [cutEach, hn, hm]⟩
        · have hfls := cutEach_flags ns rs hrs
          right
          refine ⟨r :: rs, by simp [cutEach, hn, hrs], ?_⟩
          apply finish_cons_error r rs _ _ _ _ m hfin
          · show r.2.1 = false
            rw [hfl.1, hasS_units n ha.1]; exact hS1
          · show r.2.2 = false
            rw [hfl.2, hasE_units n ha.1]; exact hE1
          · show rs.any (·.2.1) = true
            rw [hfls.1, hasSL_units ns ha.2]; exact hh.2
          · show rs.any (·.2.2) = true
            rw [hfls.2, hasEL_units ns ha.2]; exact hh.1
end

end SnootyVerif.Include
