import SnootyVerif.Model.DocLang
/-! self-consistency of the oracle: every line claim of `emit` points at the claimed text -/
namespace SnootyVerif.DocLang

/-- every claim among `nodes` (and their descendants) names a line `≥ start` whose text in `lines`
(which begin at absolute line `start`) is the claimed one -/
def Consistent (start : Nat) (lines : List String) (nodes : List ENode) : Prop :=
  ∀ n ∈ flatList nodes, ∀ ln txt, n.claim = some (ln, txt) → start ≤ ln ∧ lines[ln - start]? = some txt

theorem flatList_append : ∀ (a b : List ENode), flatList (a ++ b) = flatList a ++ flatList b
  | [], b => by simp [flatList]
  | n :: ns, b => by simp [flatList, flatList_append ns b]

theorem flatList_single (k : String) (a : List (String × Val)) (c : Option (Nat × String)) (ks : List ENode) :
    flatList [ENode.mk k a c ks] = ENode.mk k a c ks :: flatList ks := by
  simp [flatList, flat]

theorem Consistent.nil (s : Nat) (l : List String) : Consistent s l [] := by
  intro n hn; simp [flatList] at hn

theorem Consistent.append_right {s : Nat} {l : List String} {ns : List ENode} (r : List String)
    (h : Consistent s l ns) : Consistent s (l ++ r) ns := by
  intro n hn ln txt hc
  obtain ⟨h1, h2⟩ := h n hn ln txt hc
  refine ⟨h1, ?_⟩
  have hlt : ln - s < l.length := by
    rcases Nat.lt_or_ge (ln - s) l.length with h | h
    · exact h
    · rw [List.getElem?_eq_none h] at h2; cases h2
  rw [List.getElem?_append_left hlt]; exact h2

theorem Consistent.shift {s : Nat} {l : List String} {ns : List ENode} (pre : List String)
    (h : Consistent (s + pre.length) l ns) : Consistent s (pre ++ l) ns := by
  intro n hn ln txt hc
  obtain ⟨h1, h2⟩ := h n hn ln txt hc
  refine ⟨by omega, ?_⟩
  rw [List.getElem?_append_right (by omega)]
  have : ln - s - pre.length = ln - (s + pre.length) := by omega
  rw [this]; exact h2

theorem Consistent.union {s : Nat} {l : List String} {a b : List ENode}
    (ha : Consistent s l a) (hb : Consistent s l b) : Consistent s l (a ++ b) := by
  intro n hn
  rw [flatList_append, List.mem_append] at hn
  rcases hn with h | h
  · exact ha n h
  · exact hb n h

theorem Consistent.wrap {s : Nat} {l : List String} {ks : List ENode} (k : String) (a : List (String × Val))
    (c : Option (Nat × String)) (hk : Consistent s l ks)
    (hc : ∀ ln txt, c = some (ln, txt) → s ≤ ln ∧ l[ln - s]? = some txt) :
    Consistent s l [ENode.mk k a c ks] := by
  intro n hn
  rw [flatList_single, List.mem_cons] at hn
  rcases hn with rfl | h
  · intro ln txt h; exact hc ln txt h
  · exact hk n h

theorem Consistent.cons {s : Nat} {l : List String} {n : ENode} {ns : List ENode}
    (h1 : Consistent s l [n]) (h2 : Consistent s l ns) : Consistent s l (n :: ns) :=
  Consistent.union (a := [n]) h1 h2

mutual
  theorem clear_noClaims : ∀ (n : ENode), ∀ m ∈ flat (clearClaims n), m.claim = none
    | .mk k a c ks => by
      intro m hm
      simp only [clearClaims, flat, List.mem_cons] at hm
      rcases hm with rfl | h
      · rfl
      · exact clearList_noClaims ks m h
  theorem clearList_noClaims : ∀ (ns : List ENode), ∀ m ∈ flatList (clearClaimsList ns), m.claim = none
    | [] => by intro m hm; simp [clearClaimsList, flatList] at hm
    | n :: ns => by
      intro m hm
      simp only [clearClaimsList, flatList, List.mem_append] at hm
      rcases hm with h | h
      · exact clear_noClaims n m h
      · exact clearList_noClaims ns m h
end

theorem Consistent.ofNoClaims {s : Nat} {l : List String} {ns : List ENode}
    (h : ∀ m ∈ flatList ns, m.claim = none) : Consistent s l ns := by
  intro n hn ln txt hc
  rw [h n hn] at hc; cases hc

theorem inlNodes_consistent (s : Nat) (l : List String) (xs : List Inl) : Consistent s l (inlNodes xs) :=
  Consistent.ofNoClaims (clearList_noClaims _)

mutual
  /-- claims after `mapClaims`: the same lines, texts transformed -/
  theorem mapClaims_flat (base : Nat) (g : Nat → String → String) :
      ∀ (n : ENode), ∀ m ∈ flat (mapClaims base g n), ∃ m0 ∈ flat n,
        m.claim = (match m0.claim with | some (ln, t) => some (ln, g (ln - base) t) | none => none)
    | .mk k a c ks => by
      intro m hm
      simp only [mapClaims, flat, List.mem_cons] at hm
      rcases hm with rfl | h
      · exact ⟨.mk k a c ks, by simp [flat], by cases c <;> rfl⟩
      · obtain ⟨m0, h0, he⟩ := mapClaimsList_flat base g ks m h
        exact ⟨m0, by simp [flat, h0], he⟩
  theorem mapClaimsList_flat (base : Nat) (g : Nat → String → String) :
      ∀ (ns : List ENode), ∀ m ∈ flatList (mapClaimsList base g ns), ∃ m0 ∈ flatList ns,
        m.claim = (match m0.claim with | some (ln, t) => some (ln, g (ln - base) t) | none => none)
    | [] => by intro m hm; simp [mapClaimsList, flatList] at hm
    | n :: ns => by
      intro m hm
      simp only [mapClaimsList, flatList, List.mem_append] at hm
      rcases hm with h | h
      · obtain ⟨m0, h0, he⟩ := mapClaims_flat base g n m h
        exact ⟨m0, by simp [flatList, h0], he⟩
      · obtain ⟨m0, h0, he⟩ := mapClaimsList_flat base g ns m h
        exact ⟨m0, by simp [flatList, h0], he⟩
end

theorem Consistent.mapIdx {s : Nat} {l : List String} {ns : List ENode} (g : Nat → String → String)
    (h : Consistent s l ns) : Consistent s (l.mapIdx g) (mapClaimsList s g ns) := by
  intro m hm ln txt hc
  obtain ⟨m0, h0, he⟩ := mapClaimsList_flat s g ns m hm
  rw [hc] at he
  cases hm0 : m0.claim with
  | none => rw [hm0] at he; cases he
  | some p =>
    obtain ⟨ln0, t0⟩ := p
    rw [hm0] at he
    simp only [Option.some.injEq, Prod.mk.injEq] at he
    obtain ⟨h1, h2⟩ := h m0 h0 ln0 t0 hm0
    obtain ⟨rfl, rfl⟩ := he
    refine ⟨h1, ?_⟩
    rw [List.getElem?_mapIdx, h2]; rfl

theorem Consistent.prefix {s : Nat} {l : List String} {ns : List ENode} (pb : Bool) (first rest : String)
    (h : Consistent s l ns) :
    Consistent s (prefixLines pb first rest l) (mapClaimsList s (pfxAt pb first rest) ns) :=
  Consistent.mapIdx _ h

end SnootyVerif.DocLang

namespace SnootyVerif.DocLang

theorem inlLines_ne_nil : ∀ (xs : List Inl) (cur : String), inlLines xs cur ≠ []
  | [], cur => by simp [inlLines]
  | x :: xs, cur => by
    cases x <;> simp [inlLines, inlLines_ne_nil xs]

theorem headLine_spec (l : List String) (h : l ≠ []) : l[0]? = some (headLine l) := by
  cases l with
  | nil => exact absurd rfl h
  | cons a as => rfl

theorem blanks_length (n : Nat) : (blanks n).length = n := by simp [blanks]

theorem claim0 {s : Nat} {l0 : String} {rest : List String} :
    ∀ ln txt, (some (s, l0) : Option (Nat × String)) = some (ln, txt) → s ≤ ln ∧ (l0 :: rest)[ln - s]? = some txt := by
  intro ln txt h
  simp only [Option.some.injEq, Prod.mk.injEq] at h
  obtain ⟨rfl, rfl⟩ := h
  exact ⟨Nat.le_refl _, by simp⟩

theorem noClaim {s : Nat} {l : List String} :
    ∀ ln txt, (none : Option (Nat × String)) = some (ln, txt) → s ≤ ln ∧ l[ln - s]? = some txt := by
  intro ln txt h; cases h

theorem emitSeq_blocks_cons (ℓ : Layout) (start : Nat) (b b2 : Blk) (bs : List Blk) :
    emitSeq ℓ SeqMode.blocks start (b :: b2 :: bs) =
      ⟨(emit ℓ start b).lines ++ blanks (ℓ.gapAt (start + (emit ℓ start b).lines.length)) ++
        (emitSeq ℓ SeqMode.blocks (start + (emit ℓ start b).lines.length +
          ℓ.gapAt (start + (emit ℓ start b).lines.length)) (b2 :: bs)).lines,
       (emit ℓ start b).nodes ++ (emitSeq ℓ SeqMode.blocks (start + (emit ℓ start b).lines.length +
          ℓ.gapAt (start + (emit ℓ start b).lines.length)) (b2 :: bs)).nodes⟩ := by
  simp only [emitSeq]

theorem emitSeq_defs_cons (ℓ : Layout) (start : Nat) (b b2 : Blk) (bs : List Blk) :
    emitSeq ℓ SeqMode.defs start (b :: b2 :: bs) =
      ⟨(emit ℓ start b).lines ++ blanks (ℓ.gapAt (start + (emit ℓ start b).lines.length)) ++
        (emitSeq ℓ SeqMode.defs (start + (emit ℓ start b).lines.length +
          ℓ.gapAt (start + (emit ℓ start b).lines.length)) (b2 :: bs)).lines,
       (emit ℓ start b).nodes ++ (emitSeq ℓ SeqMode.defs (start + (emit ℓ start b).lines.length +
          ℓ.gapAt (start + (emit ℓ start b).lines.length)) (b2 :: bs)).nodes⟩ := by
  simp only [emitSeq]

/-- the rendered lines and the node of one list item whose marker (with padding) is `first` -/
def itemLines (ℓ : Layout) (first : String) (start : Nat) (b : Blk) : List String :=
  prefixLines ℓ.padBlank first (spaces first.length) (emit ℓ start b).lines
def itemNode (ℓ : Layout) (first : String) (start : Nat) (b : Blk) : ENode :=
  ENode.mk "listItem" [] none (mapClaimsList start (pfxAt ℓ.padBlank first (spaces first.length)) (emit ℓ start b).nodes)

theorem emitSeq_bullets_cons (ℓ : Layout) (marker : String) (sep start : Nat) (b b2 : Blk) (bs : List Blk) :
    emitSeq ℓ (SeqMode.bullets marker sep) start (b :: b2 :: bs) =
      ⟨itemLines ℓ (marker ++ spaces ℓ.bulletPad) start b ++ blanks sep ++
        (emitSeq ℓ (SeqMode.bullets marker sep)
          (start + (itemLines ℓ (marker ++ spaces ℓ.bulletPad) start b).length + sep) (b2 :: bs)).lines,
       itemNode ℓ (marker ++ spaces ℓ.bulletPad) start b ::
        (emitSeq ℓ (SeqMode.bullets marker sep)
          (start + (itemLines ℓ (marker ++ spaces ℓ.bulletPad) start b).length + sep) (b2 :: bs)).nodes⟩ := by
  simp only [emitSeq, itemLines, itemNode]

theorem emitSeq_enums_cons (ℓ : Layout) (seq : EnumSeq) (fmt : EnumFmt) (ord : Nat) (auto : Bool) (sep start : Nat)
    (b b2 : Blk) (bs : List Blk) :
    emitSeq ℓ (SeqMode.enums seq fmt ord auto sep) start (b :: b2 :: bs) =
      ⟨itemLines ℓ (enumMarker fmt (if auto then "#" else enumText seq ord) ++ spaces ℓ.bulletPad) start b ++ blanks sep ++
        (emitSeq ℓ (SeqMode.enums seq fmt (ord + 1) auto sep)
          (start + (itemLines ℓ (enumMarker fmt (if auto then "#" else enumText seq ord) ++ spaces ℓ.bulletPad) start b).length + sep)
          (b2 :: bs)).lines,
       itemNode ℓ (enumMarker fmt (if auto then "#" else enumText seq ord) ++ spaces ℓ.bulletPad) start b ::
        (emitSeq ℓ (SeqMode.enums seq fmt (ord + 1) auto sep)
          (start + (itemLines ℓ (enumMarker fmt (if auto then "#" else enumText seq ord) ++ spaces ℓ.bulletPad) start b).length + sep)
          (b2 :: bs)).nodes⟩ := by
  simp only [emitSeq, itemLines, itemNode]

theorem seq_step {s : Nat} {l1 : List String} {n1 : List ENode} (g : Nat) {l2 : List String} {n2 : List ENode}
    (h1 : Consistent s l1 n1) (h2 : Consistent (s + l1.length + g) l2 n2) :
    Consistent s (l1 ++ blanks g ++ l2) (n1 ++ n2) := by
  have hlen : s + l1.length + g = s + (l1 ++ blanks g).length := by
    simp [blanks_length]; omega
  rw [hlen] at h2
  exact Consistent.union (by simpa [List.append_assoc] using Consistent.append_right (blanks g ++ l2) h1)
    (Consistent.shift (l1 ++ blanks g) h2)

mutual
  theorem emit_consistent (ℓ : Layout) : ∀ (b : Blk) (start : Nat),
      Consistent start (emit ℓ start b).lines (emit ℓ start b).nodes
    | .para xs, start => by
      simp only [emit]
      refine Consistent.wrap _ _ _ (inlNodes_consistent _ _ _) ?_
      intro ln txt h
      simp only [Option.some.injEq, Prod.mk.injEq] at h
      obtain ⟨rfl, rfl⟩ := h
      exact ⟨Nat.le_refl _, by rw [Nat.sub_self]; exact headLine_spec _ (inlLines_ne_nil xs "")⟩
    | .section title style over kids, start => by
      simp only [emit]
      generalize hpre : ((if over = true then [repeatChar style ((concatSrc title).length + ℓ.underExtra)] else []) ++
        [concatSrc title, repeatChar style ((concatSrc title).length + ℓ.underExtra)] ++
        blanks (if kids.isEmpty = true then 0 else ℓ.afterTitle)) = pre
      have hk := emitSeq_consistent ℓ kids SeqMode.blocks (start + pre.length)
      refine Consistent.wrap _ _ _ (Consistent.cons (Consistent.wrap _ _ _ (inlNodes_consistent _ _ _) ?_)
        (Consistent.shift pre hk)) noClaim
      intro ln txt h
      simp only [Option.some.injEq, Prod.mk.injEq] at h
      obtain ⟨rfl, rfl⟩ := h
      refine ⟨by omega, ?_⟩
      rw [← hpre]
      cases over <;> simp
    | .bullet marker items, start => by
      simp only [emit]
      exact Consistent.wrap _ _ _ (emitSeq_consistent ℓ items _ start) noClaim
    | .enumerated seq fmt st auto items, start => by
      simp only [emit]
      exact Consistent.wrap _ _ _ (emitSeq_consistent ℓ items _ start) noClaim
    | .item kids, start => by
      simp only [emit]
      exact emitSeq_consistent ℓ kids _ start
    | .deflist items, start => by
      simp only [emit]
      exact Consistent.wrap _ _ _ (emitSeq_consistent ℓ items _ start) noClaim
    | .defitem term kids, start => by
      simp only [emit]
      have hk := emitSeq_consistent ℓ kids SeqMode.blocks (start + 1)
      have h2 := Consistent.shift (s := start) [concatSrc term]
        (Consistent.prefix ℓ.padBlank (spaces ℓ.bodyIndent) (spaces ℓ.bodyIndent) hk)
      exact Consistent.wrap _ _ _ (Consistent.cons (Consistent.wrap _ _ _ (inlNodes_consistent _ _ _) noClaim) h2) noClaim
    | .lineblock ls, start => by
      simp only [emit]
      exact Consistent.wrap _ _ _ (Consistent.ofNoClaims (clearList_noClaims _)) noClaim
    | .comment ls, start => by
      simp only [emit]
      exact Consistent.wrap _ _ _ (Consistent.ofNoClaims (clearList_noClaims _)) noClaim
    | .label name, start => by
      simp only [emit]
      exact Consistent.wrap _ _ _ (Consistent.ofNoClaims (clearList_noClaims _)) claim0
    | .directive name domain arg opts kids, start => by
      simp only [emit]
      generalize hl0 : (".. " ++ name ++ "::" ++ if arg.isEmpty = true then "" else " " ++ concatSrc arg) = l0
      generalize hrest : (opts.map fun o => spaces ℓ.bodyIndent ++ optLine o) = rest
      generalize hg : (if kids.isEmpty = true then 0 else ℓ.gapAt start) = g
      have hk := emitSeq_consistent ℓ kids SeqMode.blocks (start + (l0 :: rest).length + g)
      have hlen : start + (l0 :: rest).length + g = start + ((l0 :: rest) ++ blanks g).length := by
        simp [blanks_length]; omega
      rw [hlen] at hk
      have h2 := Consistent.shift (s := start) ((l0 :: rest) ++ blanks g)
        (Consistent.prefix ℓ.padBlank (spaces ℓ.bodyIndent) (spaces ℓ.bodyIndent) hk)
      rw [← hlen] at h2
      refine Consistent.wrap _ _ _ (Consistent.cons (Consistent.wrap _ _ _ (inlNodes_consistent _ _ _) noClaim)
        (Consistent.cons (Consistent.wrap _ _ _ (Consistent.nil _ _) noClaim) ?_)) ?_
      · simpa [List.append_assoc] using h2
      · simpa [List.append_assoc] using (claim0 (s := start) (l0 := l0))
    | .directiveML name domain nextLine arg kids, start => by
      simp only [emit]
      generalize hl1 : (spaces ℓ.bodyIndent ++ headLine (inlLines arg "")) = l1
      generalize hrest : (((inlLines arg "").drop 1).map fun l => spaces ℓ.bodyIndent ++ l) = rest
      generalize hg : (if kids.isEmpty = true then 0 else ℓ.gapAt start) = g
      cases nextLine with
      | false =>
        simp only [Bool.false_eq_true, if_false]
        generalize hl0 : (".. " ++ name ++ ":: " ++ headLine (inlLines arg "")) = l0
        have hk := emitSeq_consistent ℓ kids SeqMode.blocks (start + (l0 :: rest).length + g)
        have hlen : start + (l0 :: rest).length + g = start + ((l0 :: rest) ++ blanks g).length := by
          simp [blanks_length]; omega
        rw [hlen] at hk
        have h2 := Consistent.shift (s := start) ((l0 :: rest) ++ blanks g)
          (Consistent.prefix ℓ.padBlank (spaces ℓ.bodyIndent) (spaces ℓ.bodyIndent) hk)
        rw [← hlen] at h2
        refine Consistent.wrap _ _ _ (Consistent.cons (Consistent.wrap _ _ _ (Consistent.nil _ _) noClaim)
          (Consistent.cons (Consistent.wrap _ _ _ (Consistent.nil _ _) noClaim)
            (Consistent.cons (Consistent.wrap _ _ _ (inlNodes_consistent _ _ _) ?_) ?_))) ?_
        · simpa [List.append_assoc] using (claim0 (s := start) (l0 := l0))
        · simpa [List.append_assoc] using h2
        · simpa [List.append_assoc] using (claim0 (s := start) (l0 := l0))
      | true =>
        simp only [if_true]
        generalize hl0 : (".. " ++ name ++ "::") = l0
        have hk := emitSeq_consistent ℓ kids SeqMode.blocks (start + (l0 :: l1 :: rest).length + g)
        have hlen : start + (l0 :: l1 :: rest).length + g = start + ((l0 :: l1 :: rest) ++ blanks g).length := by
          simp [blanks_length]; omega
        rw [hlen] at hk
        have h2 := Consistent.shift (s := start) ((l0 :: l1 :: rest) ++ blanks g)
          (Consistent.prefix ℓ.padBlank (spaces ℓ.bodyIndent) (spaces ℓ.bodyIndent) hk)
        rw [← hlen] at h2
        refine Consistent.wrap _ _ _ (Consistent.cons (Consistent.wrap _ _ _ (Consistent.nil _ _) noClaim)
          (Consistent.cons (Consistent.wrap _ _ _ (Consistent.nil _ _) noClaim)
            (Consistent.cons (Consistent.wrap _ _ _ (inlNodes_consistent _ _ _) ?_) ?_))) ?_
        · intro ln txt h
          simp only [Option.some.injEq, Prod.mk.injEq] at h
          obtain ⟨rfl, rfl⟩ := h
          exact ⟨by omega, by simp⟩
        · simpa [List.append_assoc] using h2
        · simpa [List.append_assoc] using (claim0 (s := start) (l0 := l0))
    | .code dirname lang opts attrs ls, start => by
      simp only [emit]
      refine Consistent.wrap _ _ _ (Consistent.nil _ _) ?_
      simpa [List.append_assoc] using (claim0 (s := start))
    | .transition style len, start => by
      simp only [emit]
      exact Consistent.wrap _ _ _ (Consistent.nil _ _) claim0
    | .footnote name kids, start => by
      simp only [emit]
      have hk := emitSeq_consistent ℓ kids SeqMode.blocks start
      have h2 := Consistent.prefix ℓ.padBlank (".. [#" ++ name ++ "] ") (spaces ℓ.bodyIndent) hk
      by_cases he : (prefixLines ℓ.padBlank (".. [#" ++ name ++ "] ") (spaces ℓ.bodyIndent)
          (emitSeq ℓ SeqMode.blocks start kids).lines).isEmpty = true
      · simp only [he, if_true]
        have hnil : prefixLines ℓ.padBlank (".. [#" ++ name ++ "] ") (spaces ℓ.bodyIndent)
            (emitSeq ℓ SeqMode.blocks start kids).lines = [] := List.isEmpty_iff.mp he
        rw [hnil] at h2
        refine Consistent.wrap _ _ _ ?_ ?_
        · intro n hn ln txt hc
          have := h2 n hn ln txt hc
          simp at this
        · simpa [headLine] using (claim0 (s := start) (l0 := ".. [#" ++ name ++ "]") (rest := []))
      · simp only [he, Bool.false_eq_true, if_false]
        refine Consistent.wrap _ _ _ h2 ?_
        intro ln txt h
        simp only [Option.some.injEq, Prod.mk.injEq] at h
        obtain ⟨rfl, rfl⟩ := h
        refine ⟨Nat.le_refl _, ?_⟩
        rw [Nat.sub_self]
        exact headLine_spec _ (by intro hn; rw [hn] at he; simp at he)
    | .substdef name xs, start => by
      simp only [emit]
      exact Consistent.wrap _ _ _ (inlNodes_consistent _ _ _) claim0
    | .blocksub name, start => by
      simp only [emit]
      exact Consistent.wrap _ _ _ (Consistent.nil _ _) claim0
    | .namedtarget name uri, start => by
      simp only [emit]
      exact Consistent.wrap _ _ _ (Consistent.nil _ _) claim0
  theorem emitSeq_consistent (ℓ : Layout) : ∀ (bs : List Blk) (mode : SeqMode) (start : Nat),
      Consistent start (emitSeq ℓ mode start bs).lines (emitSeq ℓ mode start bs).nodes
    | [], mode, start => by
      simp only [emitSeq]; exact Consistent.nil _ _
    | [b], mode, start => by
      have hb := emit_consistent ℓ b start
      cases mode with
      | blocks => simpa only [emitSeq] using hb
      | defs => simpa only [emitSeq] using hb
      | bullets marker sep =>
        simp only [emitSeq]
        exact Consistent.wrap _ _ _ (Consistent.prefix _ _ _ hb) noClaim
      | enums seq fmt ord auto sep =>
        simp only [emitSeq]
        exact Consistent.wrap _ _ _ (Consistent.prefix _ _ _ hb) noClaim
    | b :: b2 :: bs, mode, start => by
      have hb := emit_consistent ℓ b start
      cases mode with
      | blocks =>
        rw [emitSeq_blocks_cons]
        exact seq_step _ hb (emitSeq_consistent ℓ (b2 :: bs) _ _)
      | defs =>
        rw [emitSeq_defs_cons]
        exact seq_step _ hb (emitSeq_consistent ℓ (b2 :: bs) _ _)
      | bullets marker sep =>
        rw [emitSeq_bullets_cons]
        have hp := Consistent.wrap "listItem" [] none
          (Consistent.prefix ℓ.padBlank (marker ++ spaces ℓ.bulletPad) (spaces (marker ++ spaces ℓ.bulletPad).length) hb) noClaim
        exact seq_step (n1 := [itemNode ℓ _ start b]) sep hp (emitSeq_consistent ℓ (b2 :: bs) _ _)
      | enums seq fmt ord auto sep =>
        rw [emitSeq_enums_cons]
        have hp := Consistent.wrap "listItem" [] none
          (Consistent.prefix ℓ.padBlank (enumMarker fmt (if auto then "#" else enumText seq ord) ++ spaces ℓ.bulletPad)
            (spaces (enumMarker fmt (if auto then "#" else enumText seq ord) ++ spaces ℓ.bulletPad).length) hb) noClaim
        exact seq_step (n1 := [itemNode ℓ _ start b]) sep hp (emitSeq_consistent ℓ (b2 :: bs) _ _)
end

end SnootyVerif.DocLang

namespace SnootyVerif.DocLang

/-! ## character data of the expected inline nodes -/

def valStr : Val → String
  | .str s => s
  | _ => ""

def attrValue : List (String × Val) → String
  | [] => ""
  | (k, v) :: rest => if k = "value" then valStr v else attrValue rest

mutual
  /-- concatenation of the `value`s of all text nodes below a node, in order -/
  def nodeText : ENode → String
    | .mk k a _ ks => if k = "text" then attrValue a else nodesText ks
  def nodesText : List ENode → String
    | [] => ""
    | n :: ns => nodeText n ++ nodesText ns
end

theorem nodesText_append : ∀ (a b : List ENode), nodesText (a ++ b) = nodesText a ++ nodesText b
  | [], b => by simp [nodesText]
  | n :: ns, b => by simp [nodesText, nodesText_append ns b, String.append_assoc]

theorem nodeText_textNode (s : String) : nodeText (textNode s) = s := by
  simp [textNode, leaf, nodeText, attrValue, valStr]

theorem nodesText_single (n : ENode) : nodesText [n] = nodeText n := by simp [nodesText]

mutual
  theorem clear_text : ∀ (n : ENode), nodeText (clearClaims n) = nodeText n
    | .mk k a c ks => by simp only [clearClaims, nodeText, clearList_text ks]
  theorem clearList_text : ∀ (ns : List ENode), nodesText (clearClaimsList ns) = nodesText ns
    | [] => rfl
    | n :: ns => by simp only [clearClaimsList, nodesText, clear_text n, clearList_text ns]
end

theorem wrapFmt_text (fmt : Option String) (kids : List ENode) (h : fmt ≠ some "text") :
    nodesText (wrapFmt fmt kids) = nodesText kids := by
  cases fmt with
  | none => rfl
  | some f =>
    have : f ≠ "text" := fun e => h (by rw [e])
    simp [wrapFmt, nodesText, nodeText, this]

def toksText : List Tok → String
  | [] => ""
  | .t s :: ts => s ++ toksText ts
  | .n es :: ts => nodesText es ++ toksText ts

theorem mergeToks_text : ∀ (ts : List Tok) (acc : String), nodesText (mergeToks ts acc) = acc ++ toksText ts
  | [], acc => by
    simp only [mergeToks, toksText]
    split
    · next h => simp [h, nodesText]
    · simp [nodesText, nodeText_textNode]
  | .t s :: ts, acc => by
    simp only [mergeToks, toksText, mergeToks_text ts (acc ++ s), String.append_assoc]
  | .n es :: ts, acc => by
    simp only [mergeToks, toksText, nodesText_append, mergeToks_text ts ""]
    split
    · next h => simp [h, nodesText]
    · simp [nodesText, nodeText_textNode, String.append_assoc]

def fmtOk : Inl → Prop
  | .role _ _ _ sp => sp.fmt ≠ some "text"
  | .roleL _ _ _ _ sp => sp.fmt ≠ some "text"
  | _ => True

theorem inlTok_text (x : Inl) (h : fmtOk x) : toksText [inlTok x] = inlText x := by
  cases x with
  | text s => simp [inlTok, toksText, inlText]
  | esc c => simp [inlTok, toksText, inlText]
  | sp => simp [inlTok, toksText, inlText]
  | nl => simp [inlTok, toksText, inlText]
  | escnl => simp [inlTok, toksText, inlText]
  | emph s => simp [inlTok, toksText, inlText, nodesText, nodeText, nodeText_textNode]
  | strong s => simp [inlTok, toksText, inlText, nodesText, nodeText, nodeText_textNode]
  | literal s => simp [inlTok, toksText, inlText, nodesText, nodeText, nodeText_textNode]
  | extref l u => simp [inlTok, toksText, inlText, nodesText, nodeText, nodeText_textNode, leaf]
  | footref nm => simp [inlTok, toksText, inlText, nodesText, nodeText, leaf]
  | subref nm => simp [inlTok, toksText, inlText, nodesText, nodeText, leaf]
  | namedref nm => simp [inlTok, toksText, inlText, nodesText, nodeText, nodeText_textNode]
  | roleL m ls lt t sp =>
    have hf : sp.fmt ≠ some "text" := h
    simp only [inlTok, toksText, String.append_empty, roleNodes]
    by_cases h1 : sp.kind = "text"
    · simp [h1, inlText, nodesText, nodeText, nodeText_textNode]
    · by_cases h2 : sp.kind = "explicit_title"
      · simp [h1, h2, inlText, nodesText, nodeText, nodeText_textNode]
      · by_cases h3 : sp.kind = "ref"
        · simp [h1, h2, h3, inlText, nodesText, nodeText, wrapFmt_text _ _ hf, nodeText_textNode]
        · simp [h1, h2, h3, inlText, wrapFmt_text _ _ hf, nodesText, nodeText, nodeText_textNode]
  | role m l t sp =>
    have hf : sp.fmt ≠ some "text" := h
    simp only [inlTok, toksText, String.append_empty, roleNodes]
    by_cases h1 : sp.kind = "text"
    · cases l <;> simp [h1, inlText, nodesText, nodeText, nodeText_textNode]
    · by_cases h2 : sp.kind = "explicit_title"
      · cases l <;> simp [h1, h2, inlText, nodesText, nodeText, nodeText_textNode]
      · by_cases h3 : sp.kind = "ref"
        · cases l with
          | some l => simp [h1, h2, h3, inlText, nodesText, nodeText, wrapFmt_text _ _ hf, nodeText_textNode]
          | none =>
            cases hfm : sp.fmt with
            | none => simp [h1, h2, h3, inlText, nodesText, nodeText, hfm]
            | some f =>
              have : f ≠ "text" := fun e => hf (by rw [hfm, e])
              simp [h1, h2, h3, inlText, nodesText, nodeText, hfm, this]
        · cases l <;> simp [h1, h2, h3, inlText, wrapFmt_text _ _ hf, nodesText, nodeText, nodeText_textNode]

theorem toksText_cons (t : Tok) (ts : List Tok) : toksText (t :: ts) = toksText [t] ++ toksText ts := by
  cases t <;> simp [toksText]

theorem inlNodes_text : ∀ (xs : List Inl), (∀ x ∈ xs, fmtOk x) → toksText (xs.map inlTok) = inlsText xs
  | [], _ => rfl
  | x :: xs, h => by
    rw [List.map_cons, toksText_cons, inlTok_text x (h x List.mem_cons_self),
      inlNodes_text xs (fun y hy => h y (List.mem_cons_of_mem _ hy))]
    rfl

end SnootyVerif.DocLang
