import SnootyVerif.Model.Constants

/-! Helper lemmas for C16 (`render_constants` model). -/
namespace SnootyVerif.Constants

theorem substitute_diags (env : List (String × String)) : ∀ (segs : List Seg),
    (substitute env segs).2 = (refs segs).filter (fun n => (env.lookup n).isNone)
  | [] => rfl
  | .lit s :: r => by simp [substitute, refs, substitute_diags env r]
  | .ref n :: r => by
    simp only [substitute, refs]
    cases h : env.lookup n with
    | some v => simp [List.filter, h, substitute_diags env r]
    | none => simp [List.filter, h, substitute_diags env r]

theorem renderFrom_append (env : List (String × String)) : ∀ (pre rest : List (String × List Seg)),
    renderFrom env (pre ++ rest) =
      ((renderFrom (renderFrom env pre).1 rest).1, (renderFrom env pre).2 ++ (renderFrom (renderFrom env pre).1 rest).2)
  | [], rest => by simp [renderFrom]
  | (k, segs) :: pre, rest => by
    simp only [List.cons_append, renderFrom]
    rw [renderFrom_append (env ++ [(k, (substitute env segs).1)]) pre rest]
    simp [List.append_assoc]

/-- rendering only ever appends to the dict built so far -/
theorem renderFrom_extends (env : List (String × String)) : ∀ (tbl : List (String × List Seg)),
    ∃ tail, (renderFrom env tbl).1 = env ++ tail
  | [] => ⟨[], by simp [renderFrom]⟩
  | (k, segs) :: rest => by
    obtain ⟨tail, ht⟩ := renderFrom_extends (env ++ [(k, (substitute env segs).1)]) rest
    exact ⟨(k, (substitute env segs).1) :: tail, by simp [renderFrom, ht]⟩

end SnootyVerif.Constants
