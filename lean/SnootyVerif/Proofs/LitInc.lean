import SnootyVerif.Model.LitInc

/-!
Helper lemmas and specification-level definitions for C20 (`Model/LitInc.lean`).
-/
namespace SnootyVerif.LitInc

deriving instance DecidableEq for Except

/-! ## split / join -/

theorem splitLines_nil : splitLines [] = [[]] := rfl

theorem splitLines_cons (c : Char) (cs : List Char) :
    splitLines (c :: cs) =
      if c = '\n' then [] :: splitLines cs
      else (c :: (splitNE cs).1) :: (splitNE cs).2 := by
  unfold splitLines
  simp only [splitNE]
  split <;> rfl

theorem joinLines_cons_cons (l l' : Line) (ls : List Line) :
    joinLines (l :: l' :: ls) = l ++ '\n' :: joinLines (l' :: ls) := rfl

theorem joinLines_cons_ne (l : Line) (ls : List Line) (h : ls ≠ []) :
    joinLines (l :: ls) = l ++ '\n' :: joinLines ls := by
  cases ls with
  | nil => exact absurd rfl h
  | cons l' ls => rfl

theorem join_split (t : List Char) : joinLines (splitLines t) = t := by
  induction t with
  | nil => rfl
  | cons c cs ih =>
    rw [splitLines_cons]
    split
    · rename_i h
      rw [joinLines_cons_ne _ _ (by simp [splitLines]), ih, h]; rfl
    · unfold splitLines at ih
      cases hr : (splitNE cs).2 with
      | nil => rw [hr] at ih; simp only [joinLines] at ih ⊢; rw [ih]
      | cons l' ls =>
        rw [hr] at ih
        rw [joinLines_cons_cons] at ih ⊢
        rw [List.cons_append, ih]

theorem splitLines_no_nl (t : List Char) : ∀ l ∈ splitLines t, '\n' ∉ l := by
  induction t with
  | nil => intro l hl; simp [splitLines, splitNE] at hl; simp [hl]
  | cons c cs ih =>
    rw [splitLines_cons]
    split
    · intro l hl
      rcases List.mem_cons.mp hl with h | h
      · simp [h]
      · exact ih l h
    · rename_i hc
      intro l hl
      unfold splitLines at ih
      rcases List.mem_cons.mp hl with h | h
      · subst h
        intro hm
        rcases List.mem_cons.mp hm with h1 | h1
        · exact hc h1.symm
        · exact ih _ (List.mem_cons_self) h1
      · exact ih l (List.mem_cons_of_mem _ h)

theorem splitNE_append_no_nl (l : Line) (h : '\n' ∉ l) (rest : List Char) :
    splitNE (l ++ rest) = (l ++ (splitNE rest).1, (splitNE rest).2) := by
  induction l with
  | nil => simp
  | cons c cs ih =>
    have hc : c ≠ '\n' := fun e => h (by simp [e])
    have hcs : '\n' ∉ cs := fun e => h (List.mem_cons_of_mem _ e)
    simp only [List.cons_append, splitNE, ih hcs, if_neg hc]

theorem split_join (ls : List Line) (hne : ls ≠ []) (h : ∀ l ∈ ls, '\n' ∉ l) :
    splitLines (joinLines ls) = ls := by
  induction ls with
  | nil => exact absurd rfl hne
  | cons l ls ih =>
    cases ls with
    | nil =>
      simp only [joinLines, splitLines]
      have := splitNE_append_no_nl l (h l (by simp)) []
      simp only [List.append_nil] at this
      rw [this]; simp [splitNE]
    | cons l' ls' =>
      rw [joinLines_cons_cons]
      have ih' := ih (by simp) (fun x hx => h x (List.mem_cons_of_mem _ hx))
      unfold splitLines at ih' ⊢
      rw [splitNE_append_no_nl l (h l (by simp))]
      simp only [splitNE, if_true, List.append_nil]
      rw [ih']

/-! ## the marker recogniser -/

theorem matchHere_iff (isWord : Char → Bool) (needle line : Line) :
    matchHere isWord needle line = true ↔ ∃ s, line = needle ++ s ∧ allNonWord isWord s = true := by
  induction needle generalizing line with
  | nil => simp [matchHere]
  | cons n ns ih =>
    cases line with
    | nil => simp [matchHere]
    | cons c cs =>
      simp only [matchHere, Bool.and_eq_true, beq_iff_eq, ih, List.cons_append, List.cons.injEq]
      constructor
      · rintro ⟨rfl, s, rfl, hs⟩; exact ⟨s, ⟨rfl, rfl⟩, hs⟩
      · rintro ⟨s, ⟨rfl, rfl⟩, hs⟩; exact ⟨rfl, s, rfl, hs⟩

/-- `^\W*needle\W*$`: the line is the needle surrounded only by non-word characters. -/
theorem matchLine_iff (isWord : Char → Bool) (needle line : Line) :
    matchLine isWord needle line = true ↔
      ∃ p s, line = p ++ needle ++ s ∧ allNonWord isWord p = true ∧ allNonWord isWord s = true := by
  induction line with
  | nil =>
    simp only [matchLine, matchHere_iff]
    constructor
    · rintro ⟨s, h, hs⟩; exact ⟨[], s, by simpa using h, by simp [allNonWord], hs⟩
    · rintro ⟨p, s, h, _, hs⟩
      have h' := h.symm
      simp only [List.append_eq_nil_iff] at h'
      obtain ⟨⟨rfl, rfl⟩, rfl⟩ := h'
      exact ⟨[], rfl, hs⟩
  | cons c cs ih =>
    simp only [matchLine, Bool.or_eq_true, Bool.and_eq_true, ih, matchHere_iff]
    constructor
    · rintro (⟨s, h, hs⟩ | ⟨hc, p, s, h, hp, hs⟩)
      · exact ⟨[], s, by simpa using h, by simp [allNonWord], hs⟩
      · refine ⟨c :: p, s, by simp [h], ?_, hs⟩
        simp only [allNonWord, List.all_cons, Bool.and_eq_true] at hp ⊢
        exact ⟨hc, hp⟩
    · rintro ⟨p, s, h, hp, hs⟩
      cases p with
      | nil => left; exact ⟨s, by simpa using h, hs⟩
      | cons a p' =>
        right
        simp only [List.cons_append, List.cons.injEq] at h
        obtain ⟨rfl, rfl⟩ := h
        simp only [allNonWord, List.all_cons, Bool.and_eq_true] at hp
        exact ⟨hp.1, p', s, rfl, hp.2, hs⟩

/-! ## first match (specification) and `lines_contain` -/

/-- index of the first line carrying the marker -/
def firstMatch (isWord : Char → Bool) (needle : Line) : List Line → Option Nat
  | [] => none
  | l :: ls => if matchLine isWord needle l then some 0 else (firstMatch isWord needle ls).map (· + 1)

theorem firstMatch_none_iff (isWord : Char → Bool) (needle : Line) (ls : List Line) :
    firstMatch isWord needle ls = none ↔ ∀ l ∈ ls, matchLine isWord needle l = false := by
  induction ls with
  | nil => simp [firstMatch]
  | cons l ls ih =>
    simp only [firstMatch]
    split
    · rename_i h; simp [h]
    · rename_i h; simp [ih, h]

theorem firstMatch_some_iff (isWord : Char → Bool) (needle : Line) (ls : List Line) (i : Nat) :
    firstMatch isWord needle ls = some i ↔
      ∃ pre l post, ls = pre ++ l :: post ∧ pre.length = i ∧ matchLine isWord needle l = true ∧
        ∀ x ∈ pre, matchLine isWord needle x = false := by
  induction ls generalizing i with
  | nil => simp [firstMatch]
  | cons a ls ih =>
    simp only [firstMatch]
    split
    · rename_i h
      constructor
      · intro hi
        have : i = 0 := by simpa using hi.symm
        subst this
        exact ⟨[], a, ls, rfl, rfl, h, by simp⟩
      · rintro ⟨pre, l, post, heq, hlen, hm, hpre⟩
        cases pre with
        | nil => simp at hlen; simp [hlen]
        | cons b pre' =>
          simp only [List.cons_append, List.cons.injEq] at heq
          have := hpre b (by simp)
          rw [← heq.1, h] at this
          exact absurd this (by simp)
    · rename_i h
      constructor
      · intro hi
        simp only [Option.map_eq_some_iff] at hi
        obtain ⟨k, hk, rfl⟩ := hi
        obtain ⟨pre, l, post, heq, hlen, hm, hpre⟩ := (ih k).mp hk
        refine ⟨a :: pre, l, post, by simp [heq], by simp [hlen], hm, ?_⟩
        intro x hx
        rcases List.mem_cons.mp hx with rfl | hx
        · simpa using h
        · exact hpre x hx
      · rintro ⟨pre, l, post, heq, hlen, hm, hpre⟩
        cases pre with
        | nil =>
          simp only [List.nil_append, List.cons.injEq] at heq
          rw [heq.1, hm] at h
          exact absurd rfl h
        | cons b pre' =>
          simp only [List.cons_append, List.cons.injEq] at heq
          simp only [Option.map_eq_some_iff]
          refine ⟨pre'.length, (ih _).mpr ⟨pre', l, post, heq.2, rfl, hm, fun x hx => hpre x (List.mem_cons_of_mem _ hx)⟩, ?_⟩
          simpa using hlen

theorem firstMatch_lt (isWord : Char → Bool) (needle : Line) (ls : List Line) (i : Nat)
    (h : firstMatch isWord needle ls = some i) : i < ls.length := by
  obtain ⟨pre, l, post, rfl, rfl, _, _⟩ := (firstMatch_some_iff isWord needle ls i).mp h
  simp

/-- the first index `lines_contain` yields is the first match -/
theorem linesContainFrom_head? (isWord : Char → Bool) (needle : Line) (i : Nat) (ls : List Line) :
    (linesContainFrom isWord needle i ls).head? = (firstMatch isWord needle ls).map (i + ·) := by
  induction ls generalizing i with
  | nil => rfl
  | cons l ls ih =>
    simp only [linesContainFrom, firstMatch]
    split
    · simp
    · rw [ih]
      cases firstMatch isWord needle ls <;> simp [Nat.add_assoc, Nat.add_comm 1]

/-- `lines_contain` yields exactly the indices of the matching lines -/
theorem mem_linesContainFrom (isWord : Char → Bool) (needle : Line) (i : Nat) (ls : List Line) (k : Nat) :
    k ∈ linesContainFrom isWord needle i ls ↔
      ∃ m, k = i + m ∧ ∃ h : m < ls.length, matchLine isWord needle ls[m] = true := by
  induction ls generalizing i with
  | nil => simp [linesContainFrom]
  | cons l ls ih =>
    simp only [linesContainFrom]
    constructor
    · intro hk
      split at hk
      · rename_i hm
        rcases List.mem_cons.mp hk with rfl | hk
        · exact ⟨0, rfl, by simp, by simpa using hm⟩
        · obtain ⟨m, rfl, hlt, hmm⟩ := (ih (i + 1)).mp hk
          exact ⟨m + 1, by omega, by simp; omega, by simpa using hmm⟩
      · obtain ⟨m, rfl, hlt, hmm⟩ := (ih (i + 1)).mp hk
        exact ⟨m + 1, by omega, by simp; omega, by simpa using hmm⟩
    · rintro ⟨m, rfl, hlt, hmm⟩
      cases m with
      | zero =>
        simp only [List.getElem_cons_zero] at hmm
        simp [hmm]
      | succ m' =>
        simp only [List.getElem_cons_succ] at hmm
        have : i + (m' + 1) ∈ linesContainFrom isWord needle (i + 1) ls :=
          (ih (i + 1)).mpr ⟨m', by omega, by simpa using hlt, hmm⟩
        split
        · exact List.mem_cons_of_mem _ this
        · exact this

/-- in increasing order, without repetition -/
theorem linesContainFrom_sorted (isWord : Char → Bool) (needle : Line) (i : Nat) (ls : List Line) :
    (linesContainFrom isWord needle i ls).Pairwise (· < ·) := by
  induction ls generalizing i with
  | nil => simp [linesContainFrom]
  | cons l ls ih =>
    simp only [linesContainFrom]
    split
    · refine List.pairwise_cons.mpr ⟨?_, ih (i + 1)⟩
      intro k hk
      obtain ⟨m, rfl, _, _⟩ := (mem_linesContainFrom isWord needle (i + 1) ls k).mp hk
      omega
    · exact ih (i + 1)

/-- value returned by `_locate_text`, in terms of the first match -/
theorem locate_fst (isWord : Char → Bool) (needle : Line) (ls : List Line) :
    (locate (linesContain isWord needle ls)).1 =
      match firstMatch isWord needle ls with
      | none => -1
      | some i => (i : Int) := by
  have h := linesContainFrom_head? isWord needle 0 ls
  unfold linesContain
  cases hl : linesContainFrom isWord needle 0 ls with
  | nil =>
    rw [hl] at h
    cases hf : firstMatch isWord needle ls with
    | none => simp [locate]
    | some i => rw [hf] at h; simp at h
  | cons m rest =>
    rw [hl] at h
    cases hf : firstMatch isWord needle ls with
    | none => rw [hf] at h; simp at h
    | some i =>
      rw [hf] at h
      simp at h
      simp [locate, h]

theorem locate_snd (ms : List Nat) :
    (locate ms).2 = (if ms = [] then [Diag.notFound] else []) ++ (if 2 ≤ ms.length then [Diag.ambiguous] else []) := by
  cases ms with
  | nil => simp [locate]
  | cons m rest =>
    cases rest with
    | nil => simp [locate]
    | cons a b => simp [locate]

theorem linesContain_eq_nil_iff (isWord : Char → Bool) (needle : Line) (ls : List Line) :
    linesContain isWord needle ls = [] ↔ firstMatch isWord needle ls = none := by
  have h := linesContainFrom_head? isWord needle 0 ls
  unfold linesContain
  cases hl : linesContainFrom isWord needle 0 ls with
  | nil => rw [hl] at h; cases hf : firstMatch isWord needle ls <;> simp_all
  | cons m rest => rw [hl] at h; cases hf : firstMatch isWord needle ls <;> simp_all

/-! ## slicing -/

theorem normIdx_nat (n k : Nat) : normIdx n (k : Int) = min k n := by
  unfold normIdx
  have : ¬ ((k : Int) < 0) := by omega
  simp [this]

theorem pySlice_nat {α : Type} (xs : List α) (a b : Nat) :
    pySlice xs (a : Int) (b : Int) = (xs.take b).drop a := by
  unfold pySlice
  rw [normIdx_nat, normIdx_nat]
  have h1 : xs.take (min b xs.length) = xs.take b := by
    rw [List.take_eq_take_iff]; omega
  rw [h1]
  by_cases h : a ≤ xs.length
  · rw [Nat.min_eq_left h]
  · have h' : xs.length ≤ a := by omega
    rw [Nat.min_eq_right h']
    rw [List.drop_eq_nil_of_le (by simp; omega), List.drop_eq_nil_of_le (by simp; omega)]

/-! ## bounds of the excerpt (specification) -/

/-- index of the first line of the excerpt -/
def lowerBound (isWord : Char → Bool) (sa : Option Line) (lines : List Line) : Nat :=
  match sa with
  | none => 0
  | some s => match firstMatch isWord s lines with
    | none => 0
    | some i => i + 1

/-- index just past the last line of the excerpt -/
def upperBound (isWord : Char → Bool) (eb : Option Line) (lines : List Line) : Nat :=
  match eb with
  | none => lines.length
  | some e => match firstMatch isWord e lines with
    | none => lines.length
    | some j => j

theorem bounds_startAfter (isWord : Char → Bool) (sa eb : Option Line) (lines : List Line) :
    (bounds isWord sa eb lines).startAfter = (lowerBound isWord sa lines : Int) := by
  unfold bounds lowerBound
  cases sa with
  | none => simp
  | some s =>
    simp only [locate_fst]
    cases firstMatch isWord s lines <;> simp

theorem bounds_endBefore (isWord : Char → Bool) (sa eb : Option Line) (lines : List Line) :
    (bounds isWord sa eb lines).endBefore = (upperBound isWord eb lines : Int) := by
  unfold bounds upperBound
  cases eb with
  | none =>
    simp only
    have : ¬ ((lines.length : Int) = -1) := by omega
    simp [this]
  | some e =>
    simp only [locate_fst]
    cases firstMatch isWord e lines with
    | none => simp
    | some j =>
      have : ¬ ((j : Int) = -1) := by omega
      simp [this]

/-- **the index arithmetic**: the excerpt is `lines[lowerBound : upperBound]` -/
theorem excerpt_fst (isWord : Char → Bool) (sa eb : Option Line) (lines : List Line) :
    (excerpt isWord sa eb lines).1 =
      (lines.take (upperBound isWord eb lines)).drop (lowerBound isWord sa lines) := by
  unfold excerpt
  simp only [bounds_startAfter, bounds_endBefore, pySlice_nat]

theorem excerpt_snd (isWord : Char → Bool) (sa eb : Option Line) (lines : List Line) :
    (excerpt isWord sa eb lines).2 =
      (match sa with | none => [] | some s => (locate (linesContain isWord s lines)).2) ++
      (match eb with | none => [] | some e => (locate (linesContain isWord e lines)).2) ++
      (match sa, eb with
        | some _, some e =>
          (match firstMatch isWord e lines with
           | some j => if j < lowerBound isWord sa lines then [Diag.order] else []
           | none => [])
        | _, _ => []) := by
  cases sa with
  | none => unfold excerpt bounds lowerBound; cases eb <;> simp
  | some s =>
    cases eb with
    | none => unfold excerpt bounds lowerBound; simp
    | some e =>
      have hlb : ((lowerBound isWord (some s) lines : Nat) : Int) = (locate (linesContain isWord s lines)).1 + 1 := by
        unfold lowerBound
        simp only [locate_fst]
        cases firstMatch isWord s lines <;> simp
      have he := locate_fst isWord e lines
      unfold excerpt bounds
      simp only [Option.isSome_some, Bool.true_and]
      generalize locate (linesContain isWord s lines) = rs at hlb ⊢
      generalize locate (linesContain isWord e lines) = re at he ⊢
      generalize lowerBound isWord (some s) lines = lb at hlb ⊢
      cases hfe : firstMatch isWord e lines <;> simp only [hfe] at he ⊢ <;> simp [he]
      rw [← hlb]; simp

/-! ## dedent -/

theorem minList_le_init (m : Nat) (xs : List Nat) : minList m xs ≤ m := by
  induction xs generalizing m with
  | nil => simp [minList]
  | cons x xs ih => simp only [minList]; exact Nat.le_trans (ih _) (Nat.min_le_left _ _)

theorem minList_le_mem (m : Nat) (xs : List Nat) (x : Nat) (hx : x ∈ xs) : minList m xs ≤ x := by
  induction xs generalizing m with
  | nil => simp at hx
  | cons y ys ih =>
    simp only [minList]
    rcases List.mem_cons.mp hx with rfl | h
    · exact Nat.le_trans (minList_le_init _ _) (Nat.min_le_right _ _)
    · exact ih _ h

theorem minList_mem (m : Nat) (xs : List Nat) : minList m xs ∈ m :: xs := by
  induction xs generalizing m with
  | nil => simp [minList]
  | cons y ys ih =>
    simp only [minList]
    have := ih (min m y)
    rcases List.mem_cons.mp this with h | h
    · rw [h]
      by_cases hmy : m ≤ y
      · rw [Nat.min_eq_left hmy]; simp
      · rw [Nat.min_eq_right (by omega)]; simp
    · exact List.mem_cons_of_mem _ (List.mem_cons_of_mem _ h)

theorem minIndent_le (isSpace : Char → Bool) (lines : List Line) (l : Line)
    (hl : l ∈ lines) (hb : nonBlank isSpace l = true) : minIndent isSpace lines ≤ indent isSpace l := by
  unfold minIndent
  have hmem : indent isSpace l ∈ (lines.filter (nonBlank isSpace)).map (indent isSpace) :=
    List.mem_map.mpr ⟨l, List.mem_filter.mpr ⟨hl, hb⟩, rfl⟩
  cases h : (lines.filter (nonBlank isSpace)).map (indent isSpace) with
  | nil => rw [h] at hmem; simp at hmem
  | cons x xs =>
    rw [h] at hmem
    simp only
    rcases List.mem_cons.mp hmem with e | e
    · rw [e]; exact minList_le_init _ _
    · exact minList_le_mem _ _ _ e

theorem minIndent_attained (isSpace : Char → Bool) (lines : List Line)
    (h : ∃ l ∈ lines, nonBlank isSpace l = true) :
    ∃ l ∈ lines, nonBlank isSpace l = true ∧ indent isSpace l = minIndent isSpace lines := by
  unfold minIndent
  cases hm : (lines.filter (nonBlank isSpace)).map (indent isSpace) with
  | nil =>
    obtain ⟨l, hl, hb⟩ := h
    have : indent isSpace l ∈ (lines.filter (nonBlank isSpace)).map (indent isSpace) :=
      List.mem_map.mpr ⟨l, List.mem_filter.mpr ⟨hl, hb⟩, rfl⟩
    rw [hm] at this; simp at this
  | cons x xs =>
    simp only
    have := minList_mem x xs
    rw [← hm] at this
    obtain ⟨l, hl, he⟩ := List.mem_map.mp this
    have hl' := List.mem_filter.mp hl
    exact ⟨l, hl'.1, hl'.2, he⟩

theorem minIndent_none (isSpace : Char → Bool) (lines : List Line)
    (h : ∀ l ∈ lines, nonBlank isSpace l = false) : minIndent isSpace lines = 0 := by
  unfold minIndent
  have : lines.filter (nonBlank isSpace) = [] := by
    rw [List.filter_eq_nil_iff]; intro l hl; simp [h l hl]
  simp [this]

theorem lstrip_eq_drop (isSpace : Char → Bool) (l : Line) :
    lstrip isSpace l = l.drop (l.takeWhile isSpace).length := by
  unfold lstrip
  induction l with
  | nil => rfl
  | cons c cs ih =>
    simp only [List.dropWhile_cons, List.takeWhile_cons]
    split <;> simp [ih]

theorem indent_eq (isSpace : Char → Bool) (l : Line) :
    indent isSpace l = (l.takeWhile isSpace).length := by
  unfold indent lstrip
  have h := congrArg List.length (List.takeWhile_append_dropWhile (p := isSpace) (l := l))
  simp only [List.length_append] at h
  omega

/-- the first `indent l` characters of a line are whitespace -/
theorem take_indent_all_space (isSpace : Char → Bool) (l : Line) (n : Nat) (h : n ≤ indent isSpace l) :
    (l.take n).all isSpace = true := by
  rw [indent_eq] at h
  induction l generalizing n with
  | nil => simp
  | cons c cs ih =>
    cases n with
    | zero => simp
    | succ k =>
      simp only [List.takeWhile_cons] at h
      split at h
      · rename_i hc
        simp only [List.length_cons] at h
        simp only [List.take_succ_cons, List.all_cons, Bool.and_eq_true]
        exact ⟨hc, ih k (by omega)⟩
      · simp at h

/-- a blank line (nothing left after `lstrip`) consists of whitespace only -/
theorem blank_all_space (isSpace : Char → Bool) (l : Line) (h : nonBlank isSpace l = false) :
    l.all isSpace = true := by
  unfold nonBlank lstrip at h
  have h0 : (l.dropWhile isSpace) = [] := by
    have : ¬ (l.dropWhile isSpace).length > 0 := by simpa using h
    exact List.eq_nil_of_length_eq_zero (by omega)
  clear h
  induction l with
  | nil => rfl
  | cons c cs ih =>
    simp only [List.dropWhile_cons] at h0
    split at h0
    · rename_i hc; simp [hc, ih h0]
    · cases h0

/-! ## parse_linenos -/

theorem parseTerm_ok (isSpace : Char → Bool) (maxVal : Nat) (t : List Char) (lo hi : Int)
    (h : parseTerm isSpace maxVal t = .ok (lo, hi)) : 0 ≤ lo ∧ lo ≤ hi ∧ hi ≤ (maxVal : Int) := by
  unfold parseTerm at h
  simp only at h
  split at h
  · cases h
  · rename_i lower _
    split at h
    · cases h
    · rename_i higher _
      split at h
      · cases h
      · split at h
        · cases h
        · split at h
          · cases h
          · injection h with h
            injection h with h1 h2
            subst h1; subst h2
            omega

theorem parseTerms_ok (isSpace : Char → Bool) (maxVal : Nat) (ts : List (List Char)) (ps : List (Int × Int))
    (h : parseTerms isSpace maxVal ts = .ok ps) :
    ps.length = ts.length ∧ ∀ p ∈ ps, 0 ≤ p.1 ∧ p.1 ≤ p.2 ∧ p.2 ≤ (maxVal : Int) := by
  induction ts generalizing ps with
  | nil => simp [parseTerms] at h; cases h; simp
  | cons t ts ih =>
    simp only [parseTerms] at h
    split at h
    · cases h
    · rename_i p hp
      split at h
      · cases h
      · rename_i ps' hps
        injection h with h
        subst h
        obtain ⟨hl, hall⟩ := ih ps' hps
        refine ⟨by simp [hl], ?_⟩
        intro q hq
        rcases List.mem_cons.mp hq with rfl | hq
        · exact parseTerm_ok isSpace maxVal t q.1 q.2 hp
        · exact hall q hq

theorem parseTerms_error_of_mem (isSpace : Char → Bool) (maxVal : Nat) (ts : List (List Char)) (t : List Char)
    (ht : t ∈ ts) (e : LnErr) (he : parseTerm isSpace maxVal t = .error e) :
    ∃ e', parseTerms isSpace maxVal ts = .error e' := by
  induction ts with
  | nil => simp at ht
  | cons a ts ih =>
    simp only [parseTerms]
    rcases List.mem_cons.mp ht with rfl | h
    · rw [he]; exact ⟨e, rfl⟩
    · split
      · rename_i e1 _; exact ⟨e1, rfl⟩
      · obtain ⟨e', h'⟩ := ih h
        rw [h']; exact ⟨e', rfl⟩

end SnootyVerif.LitInc
