import SnootyVerif.Model.Project

/-! Helper lemmas for C12: pointwise characterisation of `putAll`, `dropSource`, `refresh`, `storeOf`
under key ownership, and preservation of the invariant `Good` by one covered step. -/
namespace SnootyVerif.Project
set_option linter.unusedSectionVars false

variable {Path Key Page Content Result : Type} [DecidableEq Path] [DecidableEq Key]

theorem lookupLast_cons (k k' : Key) (pg : Page) (rest : List (Key × Page)) :
    lookupLast k ((k', pg) :: rest) =
      (match lookupLast k rest with | some x => some x | none => if k' = k then some pg else none) := rfl

theorem lookupLast_mem {k : Key} {pg : Page} : ∀ {out : List (Key × Page)}, lookupLast k out = some pg → (k, pg) ∈ out
  | [], h => by simp [lookupLast] at h
  | (k', pg') :: rest, h => by
    rw [lookupLast_cons] at h
    cases hr : lookupLast k rest with
    | some x =>
      rw [hr] at h
      simp at h
      subst h
      exact List.mem_cons_of_mem _ (lookupLast_mem hr)
    | none =>
      rw [hr] at h
      simp at h
      obtain ⟨h1, h2⟩ := h
      subst h1; subst h2
      exact List.mem_cons_self

theorem putAll_apply (p : Path) (k : Key) : ∀ (out : List (Key × Page)) (s : Store Path Key Page),
    putAll s p out k = (match lookupLast k out with | some pg => some (pg, p) | none => s k)
  | [], s => by simp [putAll, lookupLast]
  | (k', pg') :: rest, s => by
    have ih := putAll_apply p k rest (fun k => if k = k' then some (pg', p) else s k)
    unfold putAll at ih ⊢
    rw [List.foldl_cons]
    rw [ih]
    rw [lookupLast_cons]
    cases hr : lookupLast k rest with
    | some x => simp
    | none =>
      simp
      by_cases hk : k' = k
      · subst hk; simp
      · have : ¬ k = k' := fun h => hk h.symm
        simp [hk, this]

/-- the specification of the store of a clean build, key by key -/
def spec (P : Parser Path Key Page Content) (owner : Key → Path) (srcs : List Path)
    (e : Env Path Content) (k : Key) : Option (Page × Path) :=
  if owner k ∈ srcs ∧ (e (owner k)).isSome = true then
    (match lookupLast k (P.parse e (owner k)) with | some pg => some (pg, owner k) | none => none)
  else none

/-- every stored page is filed under the source that owns its key -/
def WellOwned (owner : Key → Path) (s : Store Path Key Page) : Prop :=
  ∀ k pg q, s k = some (pg, q) → q = owner k

def Good (P : Parser Path Key Page Content) (owner : Key → Path) (srcs : List Path)
    (e : Env Path Content) (s : Store Path Key Page) : Prop :=
  ∀ k, s k = spec P owner srcs e k

section
variable (P : Parser Path Key Page Content) (owner : Key → Path) (srcs : List Path)
variable (owns : ∀ e p k pg, (k, pg) ∈ P.parse e p → owner k = p)
include owns

theorem lookupLast_other {e : Env Path Content} {p : Path} {k : Key} (h : owner k ≠ p) :
    lookupLast k (P.parse e p) = none := by
  cases hr : lookupLast k (P.parse e p) with
  | none => rfl
  | some pg => exact absurd (owns e p k pg (lookupLast_mem hr)) h

omit owns in
theorem spec_wellOwned (e : Env Path Content) : WellOwned owner (spec P owner srcs e) := by
  intro k pg q h
  unfold spec at h
  split at h
  · split at h
    · simp at h; exact h.2.symm
    · simp at h
  · simp at h

theorem Good.wellOwned {e : Env Path Content} {s : Store Path Key Page} (h : Good P owner srcs e s) :
    WellOwned owner s := by
  intro k pg q hk
  rw [h k] at hk
  exact spec_wellOwned P owner srcs e k pg q hk

omit owns in
theorem dropSource_apply_owner {s : Store Path Key Page} (hw : WellOwned owner s) (p : Path) (k : Key) :
    dropSource s p k = if owner k = p then none else s k := by
  unfold dropSource
  cases hs : s k with
  | none => simp
  | some v =>
    obtain ⟨pg, q⟩ := v
    have hq := hw k pg q hs
    subst hq
    simp

theorem refresh_apply (e : Env Path Content) {s : Store Path Key Page} (hw : WellOwned owner s)
    (p : Path) (k : Key) :
    refresh P srcs e s p k = if owner k = p then spec P owner srcs e k else s k := by
  unfold refresh
  by_cases hg : p ∈ srcs ∧ (e p).isSome = true
  · rw [if_pos hg, putAll_apply, dropSource_apply_owner owner hw]
    by_cases hk : owner k = p
    · subst hk
      simp only [if_true]
      unfold spec
      rw [if_pos hg]
    · rw [lookupLast_other P owner owns hk]
      simp [hk]
  · rw [if_neg hg, dropSource_apply_owner owner hw]
    by_cases hk : owner k = p
    · subst hk
      unfold spec
      rw [if_neg hg]
    · simp [hk]

theorem refresh_wellOwned (e : Env Path Content) {s : Store Path Key Page} (hw : WellOwned owner s)
    (p : Path) : WellOwned owner (refresh P srcs e s p) := by
  intro k pg q h
  rw [refresh_apply P owner srcs owns e hw] at h
  split at h
  · exact spec_wellOwned P owner srcs e k pg q h
  · exact hw k pg q h

theorem refreshAll_apply (e : Env Path Content) (k : Key) :
    ∀ (R : List Path) (s : Store Path Key Page), WellOwned owner s →
      R.foldl (refresh P srcs e) s k = if owner k ∈ R then spec P owner srcs e k else s k
  | [], s, _ => by simp
  | p :: R, s, hw => by
    rw [List.foldl_cons, refreshAll_apply e k R _ (refresh_wellOwned P owner srcs owns e hw p),
      refresh_apply P owner srcs owns e hw]
    by_cases h1 : owner k ∈ R
    · simp [h1]
    · by_cases h2 : owner k = p
      · simp [h2]
      · have : ¬ owner k ∈ p :: R := by
          intro hm
          cases List.mem_cons.1 hm with
          | inl h => exact h2 h
          | inr h => exact h1 h
        simp [h1, h2]

/-- the fold of a clean build, started from any store -/
theorem buildFold_apply (e : Env Path Content) (k : Key) :
    ∀ (L : List Path) (s0 : Store Path Key Page),
      L.foldl (fun s p => if (e p).isSome then putAll s p (P.parse e p) else s) s0 k =
        if owner k ∈ L ∧ (e (owner k)).isSome = true then
          (match lookupLast k (P.parse e (owner k)) with | some pg => some (pg, owner k) | none => s0 k)
        else s0 k
  | [], s0 => by simp
  | p :: L, s0 => by
    rw [List.foldl_cons, buildFold_apply e k L]
    by_cases hk : owner k = p
    · subst hk
      by_cases hex : (e (owner k)).isSome = true
      · simp only [hex, if_true, and_true, List.mem_cons, true_or]
        rw [putAll_apply]
        cases hl : lookupLast k (P.parse e (owner k)) with
        | some pg => simp
        | none => simp
      · simp [hex]
    · have hne : ¬ p = owner k := fun h => hk h.symm
      have hmem : (owner k ∈ p :: L) ↔ owner k ∈ L := by
        simp [List.mem_cons, hk]
      have hs1 : (if (e p).isSome then putAll s0 p (P.parse e p) else s0) k = s0 k := by
        split
        · rw [putAll_apply, lookupLast_other P owner owns hk]
        · rfl
      simp only [hmem, hs1]

theorem storeOf_apply (e : Env Path Content) (k : Key) :
    storeOf P srcs e k = spec P owner srcs e k := by
  unfold storeOf
  rw [buildFold_apply P owner owns e k srcs]
  unfold spec emptyStore
  split
  · cases lookupLast k (P.parse e (owner k)) <;> rfl
  · rfl

theorem good_storeOf (e : Env Path Content) : Good P owner srcs e (storeOf P srcs e) :=
  fun k => storeOf_apply P owner srcs owns e k

theorem Good.eq_storeOf {e : Env Path Content} {s : Store Path Key Page} (h : Good P owner srcs e s) :
    s = storeOf P srcs e := by
  funext k
  rw [h k, storeOf_apply P owner srcs owns]

end

theorem Op.env_other (op : Op Path Content) (e : Env Path Content) (f : Path)
    (h : op.touched ≠ some f) : op.env e f = e f := by
  cases op with
  | update p c =>
    have : ¬ f = p := fun hh => h (by simp [Op.touched, hh])
    simp [Op.env, this]
  | create p c =>
    have : ¬ f = p := fun hh => h (by simp [Op.touched, hh])
    simp [Op.env, this]
  | delete p =>
    have : ¬ f = p := fun hh => h (by simp [Op.touched, hh])
    simp [Op.env, this]
  | postprocess => rfl

section
variable (P : Parser Path Key Page Content) (owner : Key → Path) (srcs : List Path)
variable (owns : ∀ e p k pg, (k, pg) ∈ P.parse e p → owner k = p)
include owns

omit owns in
/-- a source the operation does not have to re-parse has the same clean-build pages before and after -/
theorem spec_stable (e : Env Path Content) (op : Op Path Content) (R : List Path)
    (hc : Covers P srcs e op R) (k : Key) (hk : owner k ∉ R) :
    spec P owner srcs (op.env e) k = spec P owner srcs e k := by
  by_cases hs : owner k ∈ srcs
  · have hnot : ∀ q, op.touched = some q →
        ¬ (owner k = q ∨ ((e (owner k)).isSome = true ∧ q ∈ P.reads e (owner k))) :=
      fun q hq hor => hk (hc _ hs q hq hor)
    have hself : op.env e (owner k) = e (owner k) := by
      apply Op.env_other
      intro ht
      exact hnot _ ht (Or.inl rfl)
    unfold spec
    rw [hself]
    by_cases hex : (e (owner k)).isSome = true
    · have hp : P.parse e (owner k) = P.parse (op.env e) (owner k) := by
        apply P.footprint
        intro f hf
        symm
        apply Op.env_other
        intro ht
        exact hnot _ ht (Or.inr ⟨hex, hf⟩)
      rw [hp]
    · simp [hex]
  · unfold spec
    simp [hs]

theorem good_step_store (e : Env Path Content) (s : Store Path Key Page) (op : Op Path Content)
    (R : List Path) (hg : Good P owner srcs e s) (hc : Covers P srcs e op R) :
    Good P owner srcs (op.env e) (R.foldl (refresh P srcs (op.env e)) s) := by
  intro k
  rw [refreshAll_apply P owner srcs owns (op.env e) k R s (hg.wellOwned P owner srcs owns)]
  split
  · rfl
  · rename_i hk
    rw [hg k, spec_stable P owner srcs e op R hc k hk]

/-- invariant of the open project: the store is the clean-build store of the current environment, and a
clean (not dirty) cache holds the postprocessor result of the current store -/
def Inv (post : Store Path Key Page → Result) (st : St Path Key Page Content Result) : Prop :=
  Good P owner srcs st.env st.store ∧ (st.dirty = false → st.cache = post st.store)

theorem inv_init (post : Store Path Key Page → Result) (e : Env Path Content) :
    Inv P owner srcs post (St.init P srcs post e) :=
  ⟨good_storeOf P owner srcs owns e, fun _ => rfl⟩

theorem inv_step (post : Store Path Key Page → Result) (st : St Path Key Page Content Result)
    (x : Op Path Content × List Path) (hi : Inv P owner srcs post st)
    (hc : Covers P srcs st.env x.1 x.2) : Inv P owner srcs post (step P srcs post st x) := by
  obtain ⟨op, R⟩ := x
  have hmut : ∀ (o : Op Path Content), Covers P srcs st.env o R →
      Inv P owner srcs post
        { env := o.env st.env, store := R.foldl (refresh P srcs (o.env st.env)) st.store,
          cache := st.cache, dirty := true } := by
    intro o ho
    exact ⟨good_step_store P owner srcs owns st.env st.store o R hi.1 ho, fun h => by simp at h⟩
  cases op with
  | postprocess =>
    unfold step
    simp only
    split
    · exact ⟨hi.1, fun _ => rfl⟩
    · exact hi
  | update p c => exact hmut _ hc
  | create p c => exact hmut _ hc
  | delete p => exact hmut _ hc

/-! ### the weaker obligation (re-parse a reader only if what it read changed) -/

omit owns in
theorem spec_stable_ch (e : Env Path Content) (op : Op Path Content) (R : List Path)
    (hc : CoversCh P srcs e op R) (k : Key) (hk : owner k ∉ R) :
    spec P owner srcs (op.env e) k = spec P owner srcs e k := by
  by_cases hs : owner k ∈ srcs
  · have hnot : ∀ q, op.touched = some q →
        ¬ (owner k = q ∨ ((e (owner k)).isSome = true ∧ q ∈ P.reads e (owner k) ∧ op.env e q ≠ e q)) :=
      fun q hq hor => hk (hc _ hs q hq hor)
    have hself : op.env e (owner k) = e (owner k) := by
      apply Op.env_other
      intro ht
      exact hnot _ ht (Or.inl rfl)
    unfold spec
    rw [hself]
    by_cases hex : (e (owner k)).isSome = true
    · have hp : P.parse e (owner k) = P.parse (op.env e) (owner k) := by
        apply P.footprint
        intro f hf
        symm
        by_cases ht : op.touched = some f
        · by_cases hch : op.env e f = e f
          · exact hch
          · exact absurd (Or.inr ⟨hex, hf, hch⟩) (hnot _ ht)
        · exact Op.env_other op e f ht
      rw [hp]
    · simp [hex]
  · unfold spec
    simp [hs]

theorem good_step_store_ch (e : Env Path Content) (s : Store Path Key Page) (op : Op Path Content)
    (R : List Path) (hg : Good P owner srcs e s) (hc : CoversCh P srcs e op R) :
    Good P owner srcs (op.env e) (R.foldl (refresh P srcs (op.env e)) s) := by
  intro k
  rw [refreshAll_apply P owner srcs owns (op.env e) k R s (hg.wellOwned P owner srcs owns)]
  split
  · rfl
  · rename_i hk
    rw [hg k, spec_stable_ch P owner srcs e op R hc k hk]

theorem inv_step_ch (post : Store Path Key Page → Result) (st : St Path Key Page Content Result)
    (x : Op Path Content × List Path) (hi : Inv P owner srcs post st)
    (hc : CoversCh P srcs st.env x.1 x.2) : Inv P owner srcs post (step P srcs post st x) := by
  obtain ⟨op, R⟩ := x
  have hmut : ∀ (o : Op Path Content), CoversCh P srcs st.env o R →
      Inv P owner srcs post
        { env := o.env st.env, store := R.foldl (refresh P srcs (o.env st.env)) st.store,
          cache := st.cache, dirty := true } := by
    intro o ho
    exact ⟨good_step_store_ch P owner srcs owns st.env st.store o R hi.1 ho, fun h => by simp at h⟩
  cases op with
  | postprocess =>
    unfold step
    simp only
    split
    · exact ⟨hi.1, fun _ => rfl⟩
    · exact hi
  | update p c => exact hmut _ hc
  | create p c => exact hmut _ hc
  | delete p => exact hmut _ hc

theorem step_env (post : Store Path Key Page → Result) (st : St Path Key Page Content Result)
    (x : Op Path Content × List Path) : (step P srcs post st x).env = x.1.env st.env := by
  obtain ⟨op, R⟩ := x
  cases op with
  | postprocess =>
    unfold step
    simp only
    split <;> rfl
  | update p c => rfl
  | create p c => rfl
  | delete p => rfl

theorem inv_run (post : Store Path Key Page → Result) :
    ∀ (xs : List (Op Path Content × List Path)) (st : St Path Key Page Content Result),
      Inv P owner srcs post st → CoversAll P srcs st.env xs →
      Inv P owner srcs post (run P srcs post st xs) ∧
        (run P srcs post st xs).env = envAfter st.env (xs.map (·.1))
  | [], st, hi, _ => ⟨hi, rfl⟩
  | x :: xs, st, hi, hc => by
    have h1 := inv_step P owner srcs owns post st x hi hc.1
    have he := step_env P owner srcs owns post st x
    have h2 := inv_run post xs (step P srcs post st x) h1 (by rw [he]; exact hc.2)
    refine ⟨h2.1, ?_⟩
    show (run P srcs post (step P srcs post st x) xs).env = envAfter (x.1.env st.env) (xs.map (·.1))
    rw [h2.2, he]

theorem deliver_of_inv (post : Store Path Key Page → Result) (st : St Path Key Page Content Result)
    (hi : Inv P owner srcs post st) : deliver post st = post (storeOf P srcs st.env) := by
  unfold deliver
  rw [← hi.1.eq_storeOf P owner srcs owns]
  cases hd : st.dirty with
  | true => simp
  | false => simp [hi.2 hd]

/-! ### Layer 4 (sources sharing a key are generated again) changes nothing where every key has one owner -/

theorem otherGenerators_nil (keys : List Key) (e : Env Path Content) {s : Store Path Key Page}
    (hw : WellOwned owner s) (p : Path) (out : List (Key × Page)) :
    otherGenerators P srcs e p (droppedKeys keys s p out) = [] := by
  unfold otherGenerators
  rw [List.filter_eq_nil_iff]
  intro q _ hq
  simp only [Bool.and_eq_true, decide_eq_true_eq, List.any_eq_true] at hq
  obtain ⟨⟨hne, _⟩, kp, hkp, hd⟩ := hq
  unfold droppedKeys at hd
  rw [List.mem_filter] at hd
  obtain ⟨_, hm⟩ := hd
  cases hs : s kp.1 with
  | none => rw [hs] at hm; simp at hm
  | some v =>
    obtain ⟨pg, q'⟩ := v
    rw [hs] at hm
    simp at hm
    have h1 : q' = owner kp.1 := hw _ _ _ hs
    have h2 : owner kp.1 = q := owns e q kp.1 kp.2 hkp
    exact hne (by rw [← h2, ← h1, hm.1])

theorem refreshShared_eq_refresh (keys : List Key) (e : Env Path Content) {s : Store Path Key Page}
    (hw : WellOwned owner s) (p : Path) :
    refreshShared P srcs keys e s p = refresh P srcs e s p := by
  unfold refreshShared
  simp only
  rw [otherGenerators_nil P owner srcs owns keys e hw]
  rfl

theorem foldl_refreshShared (keys : List Key) (e : Env Path Content) :
    ∀ (R : List Path) (s : Store Path Key Page), WellOwned owner s →
      R.foldl (refreshShared P srcs keys e) s = R.foldl (refresh P srcs e) s
  | [], _, _ => rfl
  | p :: R, s, hw => by
    rw [List.foldl_cons, List.foldl_cons, refreshShared_eq_refresh P owner srcs owns keys e hw]
    exact foldl_refreshShared keys e R _ (refresh_wellOwned P owner srcs owns e hw p)

theorem stepShared_eq_step (keys : List Key) (post : Store Path Key Page → Result)
    (st : St Path Key Page Content Result) (x : Op Path Content × List Path) (hw : WellOwned owner st.store) :
    stepShared P srcs keys post st x = step P srcs post st x := by
  obtain ⟨op, R⟩ := x
  cases op <;> simp only [stepShared, step, foldl_refreshShared P owner srcs owns keys _ R st.store hw]

theorem runShared_eq_run (keys : List Key) (post : Store Path Key Page → Result) :
    ∀ (xs : List (Op Path Content × List Path)) (st : St Path Key Page Content Result),
      Inv P owner srcs post st → CoversAll P srcs st.env xs →
      runShared P srcs keys post st xs = run P srcs post st xs
  | [], _, _, _ => rfl
  | x :: xs, st, hi, hc => by
    have hw := hi.1.wellOwned P owner srcs owns
    show runShared P srcs keys post (stepShared P srcs keys post st x) xs = run P srcs post (step P srcs post st x) xs
    rw [stepShared_eq_step P owner srcs owns keys post st x hw]
    have h1 := inv_step P owner srcs owns post st x hi hc.1
    have he := step_env P owner srcs owns post st x
    exact runShared_eq_run keys post xs _ h1 (by rw [he]; exact hc.2)

end
end SnootyVerif.Project
