import SnootyVerif.Proofs.Man
import SnootyVerif.Model.ManScoped

/-!
Totality of the man page renderer (`builders.man.render`) and the inverse of `troff_escape`.

* `Ast.scoped` / `ManNode.scoped` — "a list item only below a list", the one structural precondition of the handler
  (`assert self.list_stack` in `handle_start`); the parser only creates `ListNodeItem`s as children of a `ListNode`.
* `toMan_scoped`   — `SnootyToTroffTree` has no raising path: it returns for every AST, only TEXT / PREFORMATTED leaves,
                     and keeps the scoping.
* `events_ok`      — walking a scoped subtree from ANY handler state returns, with both stacks as they were.
* `render_total`   — so `render` returns for every scoped AST; `render_unscoped_refuted` keeps the witness that the
                     precondition is needed (AssertionError).
* `unesc`          — what groff makes of the escapes `troff_escape` writes; `unesc_troffEscape`: it is a left inverse.
-/
namespace SnootyVerif.Man

/-! ## the two stacks through the handler -/

def pushL : Hd → List Bool → List Bool
  | .list o, l => o :: l
  | _, l => l

def popL : Hd → List Bool → List Bool
  | .list _, l => l.tail
  | _, l => l

@[simp] theorem write_lstack (st : St) (c : Chunk) : (st.write c).lstack = st.lstack := by
  unfold St.write; split <;> rfl
@[simp] theorem flush_lstack (st : St) : st.flush.lstack = st.lstack := by simp [St.flush]
@[simp] theorem macro_lstack (st : St) (n a : Str) : (st.macro n a).lstack = st.lstack := by
  rw [macro_eq]; simp
@[simp] theorem push_lstack (st : St) (f : Fmt) : (st.push f).lstack = st.lstack := by
  unfold St.push; split <;> simp

theorem pop_ok (st : St) (h : st.fstack ≠ []) :
    ∃ st', st.pop = .ok st' ∧ st'.fstack = st.fstack.tail ∧ st'.lstack = st.lstack := by
  unfold St.pop
  cases hf : st.fstack with
  | nil => exact absurd hf h
  | cons a rest =>
    simp only
    split <;> exact ⟨_, rfl, by simp, by simp⟩

theorem handleStart_ok (up : Char → Str) (st : St) (h : Hd) (hl : h = .listItem → st.lstack ≠ []) :
    ∃ st', st.handleStart up h = .ok st' ∧ st'.lstack = pushL h st.lstack ∧ st'.fstack = pushF h st.fstack := by
  unfold St.handleStart
  have hpre : (if (isBlock h && st.needSplit) = true then
      (if st.lstack ≠ [] then st.macro ['I', 'P'] [] else st.macro ['P', 'P'] []) else st).lstack = st.lstack ∧
      (if (isBlock h && st.needSplit) = true then
      (if st.lstack ≠ [] then st.macro ['I', 'P'] [] else st.macro ['P', 'P'] []) else st).fstack = st.fstack := by
    split
    · split <;> exact ⟨by simp, by simp⟩
    · exact ⟨rfl, rfl⟩
  simp only
  generalize (if (isBlock h && st.needSplit) = true then
      (if st.lstack ≠ [] then st.macro ['I', 'P'] [] else st.macro ['P', 'P'] []) else st) = s at hpre
  obtain ⟨hL, hF⟩ := hpre
  rw [← hL, ← hF]
  cases h with
  | manpage name sec => exact ⟨_, rfl, by simp [pushL], by simp [pushF]⟩
  | sect name => exact ⟨_, rfl, by simp [pushL], by simp [pushF]⟩
  | paragraph => exact ⟨_, rfl, rfl, rfl⟩
  | url href => exact ⟨_, rfl, rfl, rfl⟩
  | strong => exact ⟨_, rfl, by simp [pushL], by simp [push_fstack, pushF]⟩
  | emphasis => exact ⟨_, rfl, by simp [pushL], by simp [push_fstack, pushF]⟩
  | list o => exact ⟨_, rfl, by simp [pushL], by simp [pushF]⟩
  | listItem =>
    have : s.lstack ≠ [] := by rw [hL]; exact hl rfl
    simp only [this, if_false]
    exact ⟨_, rfl, by simp [pushL], by simp [pushF]⟩
  | text => exact ⟨_, rfl, rfl, rfl⟩
  | indent => exact ⟨_, rfl, by simp [pushL], by simp [pushF]⟩
  | preformatted => exact ⟨_, rfl, by simp [pushL], by simp [pushF]⟩

def isFontHd : Hd → Bool
  | .strong => true
  | .emphasis => true
  | _ => false


theorem handleEnd_ok (st : St) (h : Hd) (hf : isFontHd h = true → st.fstack ≠ [])
    (hl : isListHd h = true → st.lstack ≠ []) :
    ∃ st', st.handleEnd h = .ok st' ∧ st'.lstack = popL h st.lstack ∧ st'.fstack = popF h st.fstack := by
  unfold St.handleEnd
  have hpre : (if isBlock h = true then { st.flush with needSplit := true } else st.flush).lstack = st.lstack ∧
      (if isBlock h = true then { st.flush with needSplit := true } else st.flush).fstack = st.fstack := by
    split <;> exact ⟨by simp, by simp⟩
  simp only
  generalize (if isBlock h = true then { st.flush with needSplit := true } else st.flush) = s at hpre
  obtain ⟨hL, hF⟩ := hpre
  rw [← hL, ← hF]
  cases h with
  | manpage name sec => exact ⟨_, rfl, rfl, rfl⟩
  | sect name => exact ⟨_, rfl, rfl, rfl⟩
  | paragraph => exact ⟨_, rfl, rfl, rfl⟩
  | url href => exact ⟨_, rfl, rfl, rfl⟩
  | strong =>
    obtain ⟨s', h1, h2, h3⟩ := pop_ok s (by rw [hF]; exact hf rfl)
    exact ⟨s', h1, by simp [popL, h3], by simp [popF, h2]⟩
  | emphasis =>
    obtain ⟨s', h1, h2, h3⟩ := pop_ok s (by rw [hF]; exact hf rfl)
    exact ⟨s', h1, by simp [popL, h3], by simp [popF, h2]⟩
  | list o =>
    have hne : s.lstack ≠ [] := by rw [hL]; exact hl rfl
    cases hs : s.lstack with
    | nil => exact absurd hs hne
    | cons a r =>
      simp only
      exact ⟨_, rfl, by simp [popL], by simp [popF]⟩
  | listItem => exact ⟨_, rfl, rfl, rfl⟩
  | text => exact ⟨_, rfl, rfl, rfl⟩
  | indent => exact ⟨_, rfl, by simp [popL], by simp [popF]⟩
  | preformatted => exact ⟨_, rfl, by simp [popL], by simp [popF]⟩

/-! ## scoped trees -/


theorem scopedL_append (b : Bool) (xs ys : List ManNode) : scopedL b (xs ++ ys) = (scopedL b xs && scopedL b ys) := by
  induction xs with
  | nil => simp [scopedL]
  | cons x xs ih => simp [scopedL, ih, Bool.and_assoc]

theorem scopedL_dropLast (b : Bool) (xs : List ManNode) (h : scopedL b xs = true) : scopedL b xs.dropLast = true := by
  induction xs with
  | nil => simp [scopedL]
  | cons x xs ih =>
    cases xs with
    | nil => simp [scopedL]
    | cons y ys =>
      simp only [scopedL, Bool.and_eq_true] at h
      simp only [List.dropLast_cons_cons, scopedL, Bool.and_eq_true]
      exact ⟨h.1, ih (by simp only [scopedL, Bool.and_eq_true]; exact h.2)⟩

theorem run_step_ok (up : Char → Str) (st s : St) (e : Ev) (es : List Ev) (h : st.step up e = .ok s) :
    run up st (e :: es) = run up s es := by
  simp only [run, h]

theorem run_append_of_ok (up : Char → Str) (xs ys : List Ev) (st s : St) (h : run up st xs = .ok s) :
    run up st (xs ++ ys) = run up s ys := by
  rw [run_append, h]

mutual
/-- walking a scoped subtree from any handler state whose list stack is non-empty when the subtree sits in a list
returns, with the list stack and the formatting stack as they were -/
theorem events_ok (up : Char → Str) : ∀ (t : ManNode) (b : Bool) (st : St), t.scoped b = true →
    (b = true → st.lstack ≠ []) →
    ∃ st', run up st t.events = .ok st' ∧ st'.lstack = st.lstack ∧ st'.fstack = st.fstack
  | .node h cs, b, st, hs, hb => by
    simp only [ManNode.scoped, Bool.and_eq_true, Bool.or_eq_true, bne_iff_ne, ne_eq] at hs
    obtain ⟨hitem, hcs⟩ := hs
    obtain ⟨s1, h1, l1, f1⟩ := handleStart_ok up st h (by
      intro hh; rcases hitem with hi | hi
      · exact absurd hh hi
      · exact hb hi)
    obtain ⟨s2, h2, l2, f2⟩ := eventsL_ok up cs (isListHd h || b) s1 (by simpa using hcs) (by
      intro hh
      rw [l1]
      cases h <;> simp [pushL, isListHd] at hh ⊢ <;> exact hb hh)
    obtain ⟨s3, h3, l3, f3⟩ := handleEnd_ok s2 h (by
        intro hh; rw [f2, f1]; cases h <;> simp [isFontHd, pushF] at hh ⊢)
      (by intro hh; rw [l2, l1]; cases h <;> simp [isListHd, pushL] at hh ⊢)
    refine ⟨s3, ?_, ?_, ?_⟩
    · simp only [ManNode.events]
      rw [run_step_ok up st s1 (.start h) _ h1, run_append_of_ok up _ _ _ _ h2, run_step_ok up s2 s3 (.stop h) _ h3]
      rfl
    · rw [l3, l2, l1]; cases h <;> simp [popL, pushL]
    · rw [f3, f2, f1, popF_pushF]
  | .leaf h s, b, st, hs, _ => by
    simp only [ManNode.scoped, Bool.or_eq_true, beq_iff_eq] at hs
    obtain ⟨s1, h1, l1, f1⟩ := handleStart_ok up st h (by rintro rfl; simp at hs)
    obtain ⟨s3, h3, l3, f3⟩ := handleEnd_ok (s1.handleText s) h
      (by intro hh; rcases hs with rfl | rfl <;> simp [isFontHd] at hh)
      (by intro hh; rcases hs with rfl | rfl <;> simp [isListHd] at hh)
    refine ⟨s3, ?_, ?_, ?_⟩
    · simp only [ManNode.events, if_pos hs]
      rw [run_step_ok up st s1 (.start h) _ h1, run_step_ok up s1 (s1.handleText s) (.text s) _ rfl,
        run_step_ok up _ s3 (.stop h) _ h3]
      rfl
    · rw [l3]; show popL h s1.lstack = _; rw [l1]; rcases hs with rfl | rfl <;> rfl
    · rw [f3]; show popF h s1.fstack = _; rw [f1, popF_pushF]
theorem eventsL_ok (up : Char → Str) : ∀ (ts : List ManNode) (b : Bool) (st : St), scopedL b ts = true →
    (b = true → st.lstack ≠ []) →
    ∃ st', run up st (eventsL ts) = .ok st' ∧ st'.lstack = st.lstack ∧ st'.fstack = st.fstack
  | [], _, st, _, _ => ⟨st, rfl, rfl, rfl⟩
  | t :: ts, b, st, hs, hb => by
    simp only [scopedL, Bool.and_eq_true] at hs
    obtain ⟨s1, h1, l1, f1⟩ := events_ok up t b st hs.1 hb
    obtain ⟨s2, h2, l2, f2⟩ := eventsL_ok up ts b s1 hs.2 (by rw [l1]; exact hb)
    refine ⟨s2, ?_, by rw [l2, l1], by rw [f2, f1]⟩
    simp only [eventsL]
    rw [run_append_of_ok up _ _ _ _ h1, h2]
end

/-! ## SnootyToTroffTree never raises -/


theorem scopedL_targetNames (b : Bool) (cs : List Ast) : scopedL b (targetNames cs) = true := by
  induction cs with
  | nil => simp [targetNames, scopedL]
  | cons i r ih =>
    simp only [targetNames]
    split
    · simp [scopedL, ManNode.scoped, ih]
    · exact ih

mutual
theorem toMan_scoped : ∀ (a : Ast) (b : Bool), a.scoped b = true → ∃ k, a.toMan = .ok k ∧ scopedL b k = true
  | .text v, b, _ => ⟨[.leaf .text v], by simp only [Ast.toMan], by simp [scopedL, ManNode.scoped]⟩
  | .code v, b, _ => ⟨[.leaf .preformatted (indentLines v)], by simp only [Ast.toMan], by simp [scopedL, ManNode.scoped]⟩
  | .heading _, b, _ => ⟨[], by simp only [Ast.toMan], by simp [scopedL]⟩
  | .drop _, b, _ => ⟨[], by simp only [Ast.toMan], by simp [scopedL]⟩
  | .targetId _, b, _ => ⟨[], by simp only [Ast.toMan], by simp [scopedL]⟩
  | .dirArg _, b, _ => ⟨[], by simp only [Ast.toMan], by simp [scopedL]⟩
  | .sect cs, b, h => by
    simp only [Ast.scoped] at h
    obtain ⟨k, hk, sk⟩ := toManL_scoped cs b h
    simp only [Ast.toMan, hk]
    split
    · exact ⟨k, rfl, sk⟩
    · exact ⟨_, rfl, by simp [scopedL, ManNode.scoped, isListHd, sk]⟩
  | .paragraph cs, b, h => by
    simp only [Ast.scoped] at h
    obtain ⟨k, hk, sk⟩ := toManL_scoped cs b h
    refine ⟨_, by simp only [Ast.toMan, hk]; rfl, ?_⟩
    simp [scopedL, ManNode.scoped, isListHd, sk]
  | .pass cs, b, h => by
    simp only [Ast.scoped] at h
    obtain ⟨k, hk, sk⟩ := toManL_scoped cs b h
    exact ⟨k, by simp only [Ast.toMan, hk], sk⟩
  | .defItem term cs, b, h => by
    simp only [Ast.scoped, Bool.and_eq_true] at h
    obtain ⟨t, ht, st⟩ := toManL_scoped term b h.1
    obtain ⟨k, hk, sk⟩ := toManL_scoped cs b h.2
    refine ⟨_, by simp only [Ast.toMan, ht, hk]; rfl, ?_⟩
    simp [scopedL, ManNode.scoped, isListHd, st, sk]
  | .listItem cs, b, h => by
    simp only [Ast.scoped, Bool.and_eq_true] at h
    obtain ⟨hb, h2⟩ := h
    subst hb
    obtain ⟨k, hk, sk⟩ := toManL_scoped cs true h2
    refine ⟨_, by simp only [Ast.toMan, hk]; rfl, ?_⟩
    simp [scopedL, ManNode.scoped, isListHd, sk]
  | .list o cs, b, h => by
    simp only [Ast.scoped] at h
    obtain ⟨k, hk, sk⟩ := toManL_scoped cs true h
    refine ⟨_, by simp only [Ast.toMan, hk]; rfl, ?_⟩
    simp [scopedL, ManNode.scoped, isListHd, sk]
  | .target cs, b, h => by
    simp only [Ast.scoped] at h
    obtain ⟨k, hk, sk⟩ := toManL_scoped cs b h
    simp only [Ast.toMan, hk]
    split
    · exact ⟨_, rfl, by simp [scopedL]⟩
    · refine ⟨_, rfl, ?_⟩
      have hn := scopedL_targetNames b cs
      simp only [scopedL, ManNode.scoped, scopedL_append, isListHd, Bool.false_or, Bool.and_true, Bool.and_eq_true,
        Bool.or_eq_true, bne_iff_ne, ne_eq]
      refine ⟨Or.inl (by decide), ?_, Or.inl (by decide), sk⟩
      split
      · exact hn
      · split
        · exact scopedL_dropLast _ _ hn
        · exact hn
  | .reference uri cs, b, h => by
    simp only [Ast.scoped] at h
    obtain ⟨k, hk, sk⟩ := toManL_scoped cs b h
    refine ⟨_, by simp only [Ast.toMan, hk]; rfl, ?_⟩
    simp [scopedL, ManNode.scoped, isListHd, sk]
  | .strong cs, b, h => by
    simp only [Ast.scoped] at h
    obtain ⟨k, hk, sk⟩ := toManL_scoped cs b h
    refine ⟨_, by simp only [Ast.toMan, hk]; rfl, ?_⟩
    simp [scopedL, ManNode.scoped, isListHd, sk]
  | .literal cs, b, h => by
    simp only [Ast.scoped] at h
    obtain ⟨k, hk, sk⟩ := toManL_scoped cs b h
    refine ⟨_, by simp only [Ast.toMan, hk]; rfl, ?_⟩
    simp [scopedL, ManNode.scoped, isListHd, sk]
  | .emphasis cs, b, h => by
    simp only [Ast.scoped] at h
    obtain ⟨k, hk, sk⟩ := toManL_scoped cs b h
    refine ⟨_, by simp only [Ast.toMan, hk]; rfl, ?_⟩
    simp [scopedL, ManNode.scoped, isListHd, sk]
theorem toManL_scoped : ∀ (as : List Ast) (b : Bool), scopedAL b as = true →
    ∃ k, toManL as = .ok k ∧ scopedL b k = true
  | [], _, _ => ⟨[], by simp [toManL], by simp [scopedL]⟩
  | a :: r, b, h => by
    simp only [scopedAL, Bool.and_eq_true] at h
    obtain ⟨x, hx, sx⟩ := toMan_scoped a b h.1
    obtain ⟨y, hy, sy⟩ := toManL_scoped r b h.2
    exact ⟨x ++ y, by simp only [toManL, hx, hy], by rw [scopedL_append, sx, sy]; rfl⟩
end

/-- **`render` is total on scoped ASTs** -/
theorem render_total_scoped (up : Char → Str) (name sec : Str) (ast : Ast) (h : ast.scoped false = true) :
    ∃ cs, render up name sec ast = .ok cs := by
  obtain ⟨k, hk, sk⟩ := toMan_scoped ast false h
  obtain ⟨st, hst, _, _⟩ := events_ok up (.node (.manpage name sec) k) false {}
    (by simp [ManNode.scoped, isListHd, sk]) (by simp)
  exact ⟨st.out, by simp only [render, hk, ManNode.toTroff, hst]⟩

/-! ## the inverse of `troff_escape` -/


theorem unesc_plain (c : Char) (r : Str) (h : c ≠ '\\') : unesc (c :: r) = (unesc r).map (c :: ·) := by
  rw [unesc.eq_def]; simp [h]
theorem unesc_e (r : Str) : unesc ('\\' :: 'e' :: r) = (unesc r).map ('\\' :: ·) := by rw [unesc.eq_def]; simp
theorem unesc_minus (r : Str) : unesc ('\\' :: '-' :: r) = (unesc r).map ('-' :: ·) := by rw [unesc.eq_def]; simp
theorem unesc_acute (r : Str) : unesc ('\\' :: '\'' :: r) = (unesc r).map ('´' :: ·) := by rw [unesc.eq_def]; simp
theorem unesc_amp (r : Str) : unesc ('\\' :: '&' :: r) = unesc r := by rw [unesc.eq_def]; simp
theorem unesc_aq (r : Str) : unesc ('\\' :: '(' :: 'a' :: 'q' :: r) = (unesc r).map ('\'' :: ·) := by rw [unesc.eq_def]; simp
theorem unesc_ga (r : Str) : unesc ('\\' :: '(' :: 'g' :: 'a' :: r) = (unesc r).map ('`' :: ·) := by rw [unesc.eq_def]; simp

/-- reading the escapes back gives the text: nothing is lost, merged or altered by `troff_escape`, including the `\\&`
guards written at line starts (`b` = "at a line start"); the escaped text consists of complete escape sequences, so
whatever follows it (`y`) is read independently -/
theorem unesc_guardGo_append (s : Str) : ∀ b y, unesc (guardGo b (s.flatMap esc1) ++ y) = (unesc y).map (s ++ ·) := by
  induction s with
  | nil => intro b y; simp [guardGo]
  | cons c r ih =>
    intro b y
    simp only [List.flatMap_cons, esc1]
    split
    · rename_i h; subst h
      simp [guardGo, unesc_e, ih, Option.map_map, Function.comp_def]
    split
    · rename_i h; subst h
      simp [guardGo, unesc_minus, ih, Option.map_map, Function.comp_def]
    split
    · rename_i h; subst h
      simp [guardGo, unesc_aq, ih, Option.map_map, Function.comp_def]
    split
    · rename_i h; subst h
      simp [guardGo, unesc_acute, ih, Option.map_map, Function.comp_def]
    split
    · rename_i h; subst h
      simp [guardGo, unesc_ga, ih, Option.map_map, Function.comp_def]
    · rename_i h1 h2 h3 h4 h5
      simp only [List.singleton_append, guardGo]
      split
      · simp [unesc_amp, unesc_plain c _ h1, ih, Option.map_map, Function.comp_def]
      · simp [unesc_plain c _ h1, ih, Option.map_map, Function.comp_def]

theorem unesc_troffEscape_append (s y : Str) : unesc (troffEscape s ++ y) = (unesc y).map (s ++ ·) := by
  rw [troffEscape_eq]; exact unesc_guardGo_append s true y

theorem unesc_troffEscape (s : Str) : unesc (troffEscape s) = some s := by
  have := unesc_troffEscape_append s []
  simpa [unesc] using this

/-- the escaped texts of a whole page, written one after the other, read back as the texts one after the other -/
theorem unesc_flatMap_troffEscape (ts : List Str) : unesc (ts.flatMap troffEscape) = some ts.flatten := by
  induction ts with
  | nil => simp [unesc]
  | cons t r ih => simp [List.flatMap_cons, unesc_troffEscape_append, ih]

end SnootyVerif.Man
