import SnootyVerif.Model.Walk

/-! Helper lemmas for C17 (`Properties/C17.lean`). -/
namespace SnootyVerif.Walk

variable {κ : Type} [DecidableEq κ]

/-! ## insertion-ordered dicts -/

theorem keys_dictInsert (k : κ) (v : String) (d : List (κ × String)) :
    (dictInsert k v d).map (·.1) = if k ∈ d.map (·.1) then d.map (·.1) else d.map (·.1) ++ [k] := by
  induction d with
  | nil => simp [dictInsert]
  | cons a t ih =>
    obtain ⟨k', v'⟩ := a
    by_cases h : k' = k
    · subst h; simp [dictInsert]
    · have h' : ¬ k = k' := fun e => h e.symm
      simp only [dictInsert, h, if_false, List.map_cons, ih, List.mem_cons, h', false_or]
      split <;> simp

theorem mem_dictInsert {k : κ} {v : String} {d : List (κ × String)} {x : κ × String}
    (h : x ∈ dictInsert k v d) : x = (k, v) ∨ x ∈ d := by
  induction d with
  | nil => simp [dictInsert] at h; exact Or.inl h
  | cons a t ih =>
    obtain ⟨k', v'⟩ := a
    by_cases e : k' = k
    · subst e
      simp only [dictInsert, if_true, List.mem_cons] at h
      rcases h with h | h
      · exact Or.inl h
      · exact Or.inr (List.mem_cons_of_mem _ h)
    · simp only [dictInsert, e, if_false, List.mem_cons] at h
      rcases h with h | h
      · exact Or.inr (by simp [h])
      · rcases ih h with h | h
        · exact Or.inl h
        · exact Or.inr (List.mem_cons_of_mem _ h)

/-- fold of conditional inserts: the shape shared by `mkDict` and `addDiags` -/
def foldIns (P : κ → Bool) (ps : List (κ × String)) (acc : List (κ × String)) : List (κ × String) :=
  ps.foldl (fun d kv => if P kv.1 then dictInsert kv.1 kv.2 d else d) acc

theorem addDiags_eq (P : κ → Bool) (ps acc : List (κ × String)) : addDiags P ps acc = foldIns P ps acc := rfl

theorem mkDict_eq (ps : List (κ × String)) : mkDict ps = foldIns (fun _ => true) ps [] := by
  simp [mkDict, foldIns]

theorem foldIns_keys_nodup (P : κ → Bool) (ps : List (κ × String)) :
    ∀ acc : List (κ × String), (acc.map (·.1)).Nodup → ((foldIns P ps acc).map (·.1)).Nodup := by
  induction ps with
  | nil => intro acc h; exact h
  | cons a t ih =>
    intro acc h
    simp only [foldIns, List.foldl_cons]
    apply ih
    split
    · rw [keys_dictInsert]
      split
      · exact h
      · rename_i hn
        rw [List.nodup_append]
        refine ⟨h, by simp, ?_⟩
        intro x hx y hy
        simp at hy
        subst hy
        intro e; subst e; exact hn hx
    · exact h

theorem foldIns_mem_keys (P : κ → Bool) (ps : List (κ × String)) :
    ∀ (acc : List (κ × String)) (k : κ),
      k ∈ (foldIns P ps acc).map (·.1) ↔ k ∈ acc.map (·.1) ∨ (k ∈ ps.map (·.1) ∧ P k = true) := by
  induction ps with
  | nil => intro acc k; simp [foldIns]
  | cons a t ih =>
    intro acc k
    simp only [foldIns, List.foldl_cons]
    have := ih (if P a.1 then dictInsert a.1 a.2 acc else acc) k
    simp only [foldIns] at this
    rw [this]
    by_cases hp : P a.1 = true
    · simp only [hp, if_true, keys_dictInsert, List.map_cons, List.mem_cons]
      split
      · rename_i hm
        constructor
        · rintro (h | ⟨h, h2⟩)
          · exact Or.inl h
          · exact Or.inr ⟨Or.inr h, h2⟩
        · rintro (h | ⟨h | h, h2⟩)
          · exact Or.inl h
          · subst h; exact Or.inl hm
          · exact Or.inr ⟨h, h2⟩
      · simp only [List.mem_append, List.mem_singleton]
        constructor
        · rintro ((h | h) | ⟨h, h2⟩)
          · exact Or.inl h
          · subst h; exact Or.inr ⟨Or.inl rfl, hp⟩
          · exact Or.inr ⟨Or.inr h, h2⟩
        · rintro (h | ⟨h | h, h2⟩)
          · exact Or.inl (Or.inl h)
          · exact Or.inl (Or.inr h)
          · exact Or.inr ⟨h, h2⟩
    · simp only [hp, List.map_cons, List.mem_cons]
      constructor
      · rintro (h | ⟨h, h2⟩)
        · exact Or.inl h
        · exact Or.inr ⟨Or.inr h, h2⟩
      · rintro (h | ⟨h | h, h2⟩)
        · exact Or.inl h
        · subst h; exact absurd h2 hp
        · exact Or.inr ⟨h, h2⟩

theorem foldIns_mem (P : κ → Bool) (ps : List (κ × String)) :
    ∀ (acc : List (κ × String)) (x : κ × String),
      x ∈ foldIns P ps acc → x ∈ acc ∨ (x ∈ ps ∧ P x.1 = true) := by
  induction ps with
  | nil => intro acc x h; exact Or.inl h
  | cons a t ih =>
    intro acc x h
    simp only [foldIns, List.foldl_cons] at h
    rcases ih _ x h with h | ⟨h, h2⟩
    · split at h
      · rename_i hp
        rcases mem_dictInsert h with h | h
        · subst h; exact Or.inr ⟨by simp, hp⟩
        · exact Or.inl h
      · exact Or.inl h
    · exact Or.inr ⟨List.mem_cons_of_mem _ h, h2⟩

/-! ## listings -/

omit [DecidableEq κ] in
theorem mem_dirPairs {es : List (Entry κ)} {k : κ} {d : String} :
    (k, d) ∈ dirPairs es ↔ ∃ e ∈ es, e.kind = .dir k ∧ e.name = d := by
  simp only [dirPairs, List.mem_filterMap]
  constructor
  · rintro ⟨e, he, h⟩
    refine ⟨e, he, ?_⟩
    cases hk : e.kind <;> simp [hk] at h
    exact ⟨by rw [h.1], h.2⟩
  · rintro ⟨e, he, hk, hn⟩
    exact ⟨e, he, by simp [hk, hn]⟩

theorem mem_dirPairs_keys {es : List (Entry κ)} {k : κ} :
    k ∈ (dirPairs es).map (·.1) ↔ ∃ e ∈ es, e.kind = .dir k := by
  simp only [List.mem_map]
  constructor
  · rintro ⟨⟨k', d⟩, h, rfl⟩
    obtain ⟨e, he, hk, _⟩ := mem_dirPairs.1 h
    exact ⟨e, he, hk⟩
  · rintro ⟨e, he, hk⟩
    exact ⟨(k, e.name), mem_dirPairs.2 ⟨e, he, hk, rfl⟩, rfl⟩

/-- `dirs_set` of the directory `c` -/
def dset (fs : FS κ) (c : κ) : List (κ × String) := mkDict (dirPairs (fs.entries c))

theorem dset_nodup (fs : FS κ) (c : κ) : ((dset fs c).map (·.1)).Nodup := by
  rw [dset, mkDict_eq]; exact foldIns_keys_nodup _ _ [] (by simp)

theorem mem_dset_keys {fs : FS κ} {c k : κ} :
    k ∈ (dset fs c).map (·.1) ↔ ∃ e ∈ fs.entries c, e.kind = .dir k := by
  rw [dset, mkDict_eq, foldIns_mem_keys]
  simp [mem_dirPairs_keys]

theorem mem_dset {fs : FS κ} {c k : κ} {d : String} (h : (k, d) ∈ dset fs c) :
    ∃ e ∈ fs.entries c, e.kind = .dir k ∧ e.name = d := by
  rw [dset, mkDict_eq] at h
  rcases foldIns_mem _ _ _ _ h with h | ⟨h, _⟩
  · simp at h
  · exact mem_dirPairs.1 h

theorem lookupDir_mem (c : κ) (ds : List (κ × List (Entry κ))) :
    lookupDir c ds = [] ∨ (c, lookupDir c ds) ∈ ds := by
  induction ds with
  | nil => exact Or.inl rfl
  | cons a t ih =>
    obtain ⟨k, es⟩ := a
    by_cases h : k = c
    · subst h; simp [lookupDir]
    · simp only [lookupDir, h, if_false]
      rcases ih with ih | ih
      · exact Or.inl ih
      · exact Or.inr (List.mem_cons_of_mem _ ih)

theorem dir_mem_dirTargets {fs : FS κ} {c k : κ} {e : Entry κ}
    (he : e ∈ fs.entries c) (hk : e.kind = .dir k) : k ∈ fs.dirTargets := by
  unfold FS.entries at he
  rcases lookupDir_mem c fs.dirs with h | h
  · rw [h] at he; simp at he
  · simp only [FS.dirTargets, List.mem_flatMap]
    exact ⟨_, h, mem_dirPairs_keys.2 ⟨e, he, hk⟩⟩

theorem mem_dedup (l : List κ) : ∀ a : κ, a ∈ dedup l ↔ a ∈ l := by
  induction l with
  | nil => simp [dedup]
  | cons b t ih =>
    intro a
    simp only [dedup]
    split
    · rename_i h
      simp only [List.mem_cons, ih]
      constructor
      · exact Or.inr
      · rintro (h' | h')
        · subst h'; exact (ih a).1 h
        · exact h'
    · simp [ih]

theorem nodup_dedup (l : List κ) : (dedup l).Nodup := by
  induction l with
  | nil => simp [dedup]
  | cons b t ih =>
    simp only [dedup]
    split
    · exact ih
    · rename_i h; exact List.nodup_cons.2 ⟨h, ih⟩

/-! ## one iteration -/

/-- what is left in `dirs` -/
def kept (fs : FS κ) (c : κ) (seen : List κ) : List (κ × String) :=
  (dset fs c).filter fun kd => decide (kd.1 ∉ seen) && fs.inJail kd.1 && !fs.pruned kd.1

/-- the keys `seen.update(dirs_set)` adds -/
def newKeys (fs : FS κ) (c : κ) (seen : List κ) : List κ :=
  ((dset fs c).map (·.1)).filter (fun k => decide (k ∉ seen))

theorem step_live {fs : FS κ} {p : Path} {c : κ} {st st' : St κ} {ch : List (Path × κ)}
    (hj : fs.inJail c = true) (h : step fs p c st = .ok (ch, st')) :
    ch = (kept fs c st.seen).map (fun kd => (p ++ [kd.2], kd.1)) ∧
    st' = { seen := st.seen ++ newKeys fs c st.seen,
            out := st.out ++ yields fs.inJail p (fs.entries c),
            diags := addDiags fs.hasToml (dset fs c) st.diags,
            scans := st.scans ++ [c] } := by
  unfold step at h
  rw [if_neg (by simp [hj])] at h
  simp only [Except.ok.injEq, Prod.mk.injEq] at h
  exact ⟨h.1.symm, h.2.symm⟩

theorem step_dead {fs : FS κ} {p : Path} {c : κ} {st st' : St κ} {ch : List (Path × κ)}
    (hj : fs.inJail c = false) (h : step fs p c st = .ok (ch, st')) : st' = st := by
  unfold step at h
  simp only [hj, if_true] at h
  simp only [Except.ok.injEq, Prod.mk.injEq] at h
  exact h.2.symm

theorem mem_kept {fs : FS κ} {c : κ} {seen : List κ} {kd : κ × String} :
    kd ∈ kept fs c seen ↔ kd ∈ dset fs c ∧ kd.1 ∉ seen ∧ fs.inJail kd.1 = true ∧ fs.pruned kd.1 = false := by
  simp [kept, List.mem_filter, and_assoc]

theorem kept_keys_nodup (fs : FS κ) (c : κ) (seen : List κ) : ((kept fs c seen).map (·.1)).Nodup := by
  have h := dset_nodup fs c
  unfold kept
  exact List.Nodup.sublist (List.Sublist.map _ List.filter_sublist) h

theorem mem_newKeys {fs : FS κ} {c k : κ} {seen : List κ} :
    k ∈ newKeys fs c seen ↔ k ∈ (dset fs c).map (·.1) ∧ k ∉ seen := by
  simp [newKeys, List.mem_filter]

theorem newKeys_nodup (fs : FS κ) (c : κ) (seen : List κ) : (newKeys fs c seen).Nodup :=
  List.Nodup.sublist List.filter_sublist (dset_nodup fs c)

omit [DecidableEq κ] in
theorem filter_len_le (l : List (κ × String)) (P : κ × String → Bool) (Q : κ → Bool)
    (h : ∀ x, P x = true → Q x.1 = true) : (l.filter P).length ≤ ((l.map (·.1)).filter Q).length := by
  induction l with
  | nil => simp
  | cons a t ih =>
    by_cases hp : P a = true
    · rw [List.filter_cons_of_pos hp, List.map_cons, List.filter_cons_of_pos (h a hp)]
      simp only [List.length_cons]; omega
    · rw [List.filter_cons_of_neg hp, List.map_cons]
      by_cases hq : Q a.1 = true
      · rw [List.filter_cons_of_pos hq]; simp only [List.length_cons]; omega
      · rw [List.filter_cons_of_neg hq]; exact ih

theorem kept_length_le (fs : FS κ) (c : κ) (seen : List κ) :
    (kept fs c seen).length ≤ (newKeys fs c seen).length := by
  unfold kept newKeys
  apply filter_len_le
  intro x hx
  simp only [Bool.and_eq_true] at hx
  exact hx.1.1

/-! ## the loop -/

theorem loop_inv (fs : FS κ) (I : List (Path × κ) → St κ → Prop)
    (hstep : ∀ p c rest st ch st', I ((p, c) :: rest) st → step fs p c st = .ok (ch, st') → I (ch ++ rest) st') :
    ∀ (fuel : Nat) (stack : List (Path × κ)) (st res : St κ),
      I stack st → loop fs fuel stack st = .ok res → I [] res := by
  intro fuel
  induction fuel with
  | zero =>
    intro stack st res hI h
    cases stack with
    | nil => simp [loop] at h; subst h; exact hI
    | cons a t => simp [loop] at h
  | succ n ih =>
    intro stack st res hI h
    cases stack with
    | nil => simp [loop] at h; subst h; exact hI
    | cons a t =>
      obtain ⟨p, c⟩ := a
      simp only [loop] at h
      split at h
      · cases h
      · rename_i ch st' hs
        exact ih _ _ _ (hstep _ _ _ _ _ _ hI hs) h

/-- every stack item is inside the jail -/
def StackJ (fs : FS κ) (stack : List (Path × κ)) : Prop := ∀ x ∈ stack, fs.inJail x.2 = true

theorem stackJ_step {fs : FS κ} {p : Path} {c : κ} {rest ch : List (Path × κ)} {st st' : St κ}
    (hJ : StackJ fs ((p, c) :: rest)) (h : step fs p c st = .ok (ch, st')) : StackJ fs (ch ++ rest) := by
  have hj : fs.inJail c = true := hJ (p, c) (by simp)
  obtain ⟨hch, _⟩ := step_live hj h
  intro x hx
  rcases List.mem_append.1 hx with hx | hx
  · subst hch
    obtain ⟨kd, hkd, rfl⟩ := List.mem_map.1 hx
    exact (mem_kept.1 hkd).2.2.1
  · exact hJ x (List.mem_cons_of_mem _ hx)

end SnootyVerif.Walk

namespace SnootyVerif.Walk
variable {κ : Type} [DecidableEq κ]

/-! ## termination -/

theorem step_err {fs : FS κ} {p : Path} {c : κ} {st : St κ} {e : Err}
    (h : step fs p c st = .error e) : False := by
  unfold step at h
  split at h <;> cases h

theorem loop_fuel (fs : FS κ) (U : List κ) (hT : ∀ k ∈ fs.dirTargets, k ∈ U) :
    ∀ (fuel : Nat) (stack : List (Path × κ)) (st : St κ),
      StackJ fs stack → st.seen.Nodup → (∀ k ∈ st.seen, k ∈ U) →
      stack.length + (U.length - st.seen.length) ≤ fuel →
      loop fs fuel stack st ≠ .error .fuel := by
  intro fuel
  induction fuel with
  | zero =>
    intro stack st _ _ _ hm
    cases stack with
    | nil => simp [loop]
    | cons a t => simp at hm
  | succ n ih =>
    intro stack st hJ hN hS hm
    cases stack with
    | nil => simp [loop]
    | cons a t =>
      obtain ⟨p, c⟩ := a
      simp only [loop]
      split
      · rename_i e he
        exact (step_err he).elim
      · rename_i ch st' hs
        have hj : fs.inJail c = true := hJ (p, c) (by simp)
        obtain ⟨hch, hst⟩ := step_live hj hs
        have hN' : st'.seen.Nodup := by
          subst hst
          exact List.nodup_append.2 ⟨hN, newKeys_nodup _ _ _, fun a ha b hb => by
            rintro rfl; exact (mem_newKeys.1 hb).2 ha⟩
        have hS' : ∀ k ∈ st'.seen, k ∈ U := by
          subst hst
          intro k hk
          rcases List.mem_append.1 hk with hk | hk
          · exact hS k hk
          · obtain ⟨e, he, hd⟩ := mem_dset_keys.1 (mem_newKeys.1 hk).1
            exact hT k (dir_mem_dirTargets he hd)
        apply ih _ _ (stackJ_step hJ hs) hN' hS'
        have h1 : ch.length ≤ (newKeys fs c st.seen).length := by
          subst hch; simpa using kept_length_le fs c st.seen
        have h2 : st'.seen.length = st.seen.length + (newKeys fs c st.seen).length := by
          subst hst; simp
        have h3 : st'.seen.length ≤ U.length := List.Nodup.length_le_of_subset hN' hS'
        simp only [List.length_append, List.length_cons] at hm ⊢
        omega

end SnootyVerif.Walk

namespace SnootyVerif.Walk
variable {κ : Type} [DecidableEq κ]

/-! ## visited once -/

def VisitInv (fs : FS κ) (root : κ) (stack : List (Path × κ)) (st : St κ) : Prop :=
  StackJ fs stack ∧
  ∀ c, st.scans.count c + (stack.map (·.2)).count c ≤ (if c = root then 1 else 0) + (if c ∈ st.seen then 1 else 0)

theorem kept_map_snd (fs : FS κ) (c : κ) (seen : List κ) (p : Path) :
    ((kept fs c seen).map (fun kd => (p ++ [kd.2], kd.1))).map (·.2) = (kept fs c seen).map (·.1) := by
  simp [List.map_map, Function.comp_def]

theorem kept_key_new {fs : FS κ} {c k : κ} {seen : List κ} (h : k ∈ (kept fs c seen).map (·.1)) :
    k ∈ newKeys fs c seen := by
  obtain ⟨kd, hkd, rfl⟩ := List.mem_map.1 h
  have := mem_kept.1 hkd
  exact mem_newKeys.2 ⟨List.mem_map.2 ⟨kd, this.1, rfl⟩, this.2.1⟩

theorem visitInv_step (fs : FS κ) (root : κ) (p : Path) (c : κ) (rest : List (Path × κ)) (st : St κ)
    (ch : List (Path × κ)) (st' : St κ) (hI : VisitInv fs root ((p, c) :: rest) st)
    (hs : step fs p c st = .ok (ch, st')) : VisitInv fs root (ch ++ rest) st' := by
  refine ⟨stackJ_step hI.1 hs, ?_⟩
  have hj : fs.inJail c = true := hI.1 (p, c) (by simp)
  obtain ⟨hch, hst⟩ := step_live hj hs
  subst hch hst
  intro c'
  have old := hI.2 c'
  have hk := List.Nodup.count (a := c') (kept_keys_nodup fs c st.seen)
  simp only [List.map_cons, List.count_cons, List.map_append, List.count_append, kept_map_snd,
    List.count_nil, List.mem_append] at old ⊢
  by_cases hm : c' ∈ (kept fs c st.seen).map (·.1)
  · have hn := mem_newKeys.1 (kept_key_new hm)
    rw [if_pos hm] at hk
    rw [if_neg hn.2] at old
    rw [if_pos (Or.inr (kept_key_new hm))]
    omega
  · rw [if_neg hm] at hk
    by_cases hseen : c' ∈ st.seen
    · rw [if_pos hseen] at old
      rw [if_pos (Or.inl hseen)]
      omega
    · rw [if_neg hseen] at old
      omega

/-! ## clean chains -/

def YieldOK (fs : FS κ) (root : κ) (y : Path × κ) : Prop :=
  ∃ p b e, Clean fs root p b ∧ e ∈ fs.entries b ∧ y.1 = p ++ [e.name] ∧ e.wanted = true ∧
    (e.kind = .file y.2 ∨ e.kind = .dangling y.2)

def CleanInv (fs : FS κ) (root : κ) (stack : List (Path × κ)) (st : St κ) : Prop :=
  StackJ fs stack ∧ (∀ x ∈ stack, Clean fs root x.1 x.2) ∧ (∀ b ∈ st.scans, ∃ p, Clean fs root p b) ∧
  (∀ y ∈ st.out, YieldOK fs root y) ∧ (∀ kd ∈ st.diags, fs.hasToml kd.1 = true)

omit [DecidableEq κ] in
theorem mem_yields {inJail : κ → Bool} {p : Path} {es : List (Entry κ)} {y : Path × κ} :
    y ∈ yields inJail p es ↔ ∃ e ∈ es, y.1 = p ++ [e.name] ∧ e.wanted = true ∧ inJail y.2 = true ∧
      (e.kind = .file y.2 ∨ e.kind = .dangling y.2) := by
  simp only [yields, List.mem_filterMap]
  constructor
  · rintro ⟨e, he, h⟩
    refine ⟨e, he, ?_⟩
    cases hk : e.kind <;> simp [hk] at h
    · obtain ⟨⟨h1, h2⟩, rfl⟩ := h; simp [h1, h2]
    · obtain ⟨⟨h1, h2⟩, rfl⟩ := h; simp [h1, h2]
  · rintro ⟨e, he, h1, h2, h3, h4 | h4⟩
    · exact ⟨e, he, by obtain ⟨a, b⟩ := y; simp at h1 h3; simp [h4, h2, h3, h1]⟩
    · exact ⟨e, he, by obtain ⟨a, b⟩ := y; simp at h1 h3; simp [h4, h2, h3, h1]⟩

theorem cleanInv_step (fs : FS κ) (root : κ) (p : Path) (c : κ) (rest : List (Path × κ)) (st : St κ)
    (ch : List (Path × κ)) (st' : St κ) (hI : CleanInv fs root ((p, c) :: rest) st)
    (hs : step fs p c st = .ok (ch, st')) : CleanInv fs root (ch ++ rest) st' := by
  obtain ⟨hJ, hC, hS, hY, hD⟩ := hI
  have hj : fs.inJail c = true := hJ (p, c) (by simp)
  have hc : Clean fs root p c := hC (p, c) (by simp)
  obtain ⟨hch, hst⟩ := step_live hj hs
  refine ⟨stackJ_step hJ hs, ?_, ?_, ?_, ?_⟩
  · intro x hx
    rcases List.mem_append.1 hx with hx | hx
    · subst hch
      obtain ⟨kd, hkd, rfl⟩ := List.mem_map.1 hx
      obtain ⟨h1, _, h3, h4⟩ := mem_kept.1 hkd
      obtain ⟨e, he, hk, hn⟩ := mem_dset (k := kd.1) (d := kd.2) h1
      show Clean fs root (p ++ [kd.2]) kd.1
      rw [← hn]
      exact Clean.step hc he hk h3 h4
    · exact hC x (List.mem_cons_of_mem _ hx)
  · subst hst
    intro b hb
    rcases List.mem_append.1 hb with hb | hb
    · exact hS b hb
    · simp at hb; subst hb; exact ⟨p, hc⟩
  · subst hst
    intro y hy
    rcases List.mem_append.1 hy with hy | hy
    · exact hY y hy
    · obtain ⟨e, he, h1, h2, _, h4⟩ := mem_yields.1 hy
      exact ⟨p, c, e, hc, he, h1, h2, h4⟩
  · subst hst
    intro kd hkd
    rw [addDiags_eq] at hkd
    rcases foldIns_mem _ _ _ _ hkd with h | ⟨_, h⟩
    · exact hD kd h
    · exact h

/-! ## coverage -/

def CovInv (fs : FS κ) (root : κ) (stack : List (Path × κ)) (st : St κ) : Prop :=
  StackJ fs stack ∧
  (root ∈ st.scans ∨ root ∈ stack.map (·.2)) ∧
  (∀ k ∈ st.seen, fs.inJail k = true → fs.pruned k = false → k ∈ st.scans ∨ k ∈ stack.map (·.2)) ∧
  (∀ b ∈ st.scans, ∀ e ∈ fs.entries b, ∀ k, e.kind = .dir k → k ∈ st.seen) ∧
  (∀ b ∈ st.scans, ∀ e ∈ fs.entries b, ∀ c, (e.kind = .file c ∨ e.kind = .dangling c) → e.wanted = true →
      fs.inJail c = true → ∃ q, (q, c) ∈ st.out) ∧
  (∀ b ∈ st.scans, ∀ e ∈ fs.entries b, ∀ k, e.kind = .dir k → fs.hasToml k = true → k ∈ st.diags.map (·.1))

theorem covInv_step (fs : FS κ) (root : κ) (p : Path) (c : κ) (rest : List (Path × κ)) (st : St κ)
    (ch : List (Path × κ)) (st' : St κ) (hI : CovInv fs root ((p, c) :: rest) st)
    (hs : step fs p c st = .ok (ch, st')) : CovInv fs root (ch ++ rest) st' := by
  obtain ⟨hJ, h1, h2, h3, h4, h5⟩ := hI
  have hj : fs.inJail c = true := hJ (p, c) (by simp)
  obtain ⟨hch, hst⟩ := step_live hj hs
  refine ⟨stackJ_step hJ hs, ?_, ?_, ?_, ?_, ?_⟩
  · subst hst
    simp only [List.map_cons, List.mem_cons, List.map_append, List.mem_append, List.not_mem_nil, or_false] at h1 ⊢
    rcases h1 with h | h | h
    · exact Or.inl (Or.inl h)
    · exact Or.inl (Or.inr h)
    · exact Or.inr (Or.inr h)
  · subst hst hch
    intro k hk hkj hkt
    simp only [List.map_cons, List.mem_cons, List.map_append, List.mem_append, List.not_mem_nil, or_false, kept_map_snd] at h2 hk ⊢
    rcases hk with hk | hk
    · rcases h2 k hk hkj hkt with h | h | h
      · exact Or.inl (Or.inl h)
      · exact Or.inl (Or.inr h)
      · exact Or.inr (Or.inr h)
    · obtain ⟨hd, hns⟩ := mem_newKeys.1 hk
      obtain ⟨kd, hkd, rfl⟩ := List.mem_map.1 hd
      exact Or.inr (Or.inl (List.mem_map.2 ⟨kd, mem_kept.2 ⟨hkd, hns, hkj, hkt⟩, rfl⟩))
  · subst hst
    intro b hb e he k hk
    simp only [List.mem_append, List.mem_singleton] at hb ⊢
    rcases hb with hb | hb
    · exact Or.inl (h3 b hb e he k hk)
    · subst hb
      by_cases hs : k ∈ st.seen
      · exact Or.inl hs
      · exact Or.inr (mem_newKeys.2 ⟨mem_dset_keys.2 ⟨e, he, hk⟩, hs⟩)
  · subst hst
    intro b hb e he c' hk hw hcj
    simp only [List.mem_append, List.mem_singleton] at hb
    rcases hb with hb | hb
    · obtain ⟨q, hq⟩ := h4 b hb e he c' hk hw hcj
      exact ⟨q, List.mem_append.2 (Or.inl hq)⟩
    · subst hb
      exact ⟨p ++ [e.name], List.mem_append.2 (Or.inr (mem_yields.2 ⟨e, he, rfl, hw, hcj, hk⟩))⟩
  · subst hst
    intro b hb e he k hk ht
    simp only [List.mem_append, List.mem_singleton] at hb
    rw [addDiags_eq, foldIns_mem_keys]
    rcases hb with hb | hb
    · exact Or.inl (h5 b hb e he k hk ht)
    · subst hb
      exact Or.inr ⟨mem_dset_keys.2 ⟨e, he, hk⟩, ht⟩

theorem clean_scanned {fs : FS κ} {root : κ} {st : St κ} (hI : CovInv fs root [] st) {p : Path} {b : κ}
    (hc : Clean fs root p b) : b ∈ st.scans := by
  obtain ⟨_, h1, h2, h3, _, _⟩ := hI
  induction hc with
  | root => simpa using h1
  | step _ he hk hj ht ih => simpa using h2 _ (h3 _ ih _ he _ hk) hj ht

end SnootyVerif.Walk
