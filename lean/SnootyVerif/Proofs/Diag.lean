import SnootyVerif.Model.Diag

/-! Helper lemmas for C14 (diagnostic delivery). -/
namespace SnootyVerif.Diag

/-! ### dict primitives -/

theorem lookup_cons_eq (k f : FileId) (v : List D) (t : DMap) :
    List.lookup f ((k, v) :: t) = if f = k then some v else t.lookup f := by
  by_cases h : f = k
  · subst h; simp [List.lookup]
  · have : (f == k) = false := by simp [h]
    simp [List.lookup, this, h]

theorem lookup_dictSet (m : DMap) (k f : FileId) (v : List D) :
    (dictSet m k v).lookup f = if f = k then some v else m.lookup f := by
  induction m with
  | nil => simp [dictSet, lookup_cons_eq]
  | cons e t ih =>
    obtain ⟨k', v'⟩ := e
    unfold dictSet
    by_cases hk : k' = k
    · subst hk
      simp only [if_true, lookup_cons_eq]
      by_cases h : f = k' <;> simp [h]
    · simp only [hk, if_false, lookup_cons_eq, ih]
      by_cases h : f = k
      · subst h
        have : ¬ f = k' := fun a => hk a.symm
        simp [this]
      · simp [h]

theorem getAll_of_not_mem_keys (m : DMap) (f : FileId) (h : f ∉ keys m) : getAll m f = [] := by
  unfold getAll
  rw [List.flatMap_eq_nil_iff]
  intro e he
  have : ¬ e.1 = f := fun a => h (a ▸ List.mem_map.mpr ⟨e, he, rfl⟩)
  simp [this]

theorem keys_dictSet (m : DMap) (k : FileId) (v : List D) (f : FileId) :
    f ∈ keys (dictSet m k v) ↔ f ∈ keys m ∨ f = k := by
  induction m with
  | nil => simp [dictSet, keys]
  | cons e t ih =>
    obtain ⟨k', v'⟩ := e
    unfold dictSet
    by_cases hk : k' = k
    · subst hk; simp only [if_true, keys, List.map_cons, List.mem_cons]
      constructor
      · intro h; exact Or.inl h
      · rintro (h | h)
        · exact h
        · exact Or.inl h
    · simp only [hk, if_false]
      simp only [keys, List.map_cons, List.mem_cons] at ih ⊢
      rw [ih]
      constructor
      · rintro (h | h | h)
        · exact Or.inl (Or.inl h)
        · exact Or.inl (Or.inr h)
        · exact Or.inr h
      · rintro ((h | h) | h)
        · exact Or.inl h
        · exact Or.inr (Or.inl h)
        · exact Or.inr (Or.inr h)

theorem lookup_isSome_iff_mem_keys (m : DMap) (f : FileId) : (m.lookup f).isSome ↔ f ∈ keys m := by
  induction m with
  | nil => simp [keys]
  | cons e t ih =>
    obtain ⟨k', v'⟩ := e
    by_cases h : f = k'
    · subst h; simp [List.lookup, keys]
    · have : (f == k') = false := by simp [h]
      simp only [List.lookup, this, keys, List.map_cons, List.mem_cons, h, false_or]
      exact ih

theorem lookup_eq_none_iff (m : DMap) (f : FileId) : m.lookup f = none ↔ f ∉ keys m := by
  rw [← lookup_isSome_iff_mem_keys]
  cases m.lookup f <;> simp

theorem lookup_appendAt (m : DMap) (k f : FileId) (xs : List D) :
    (appendAt m k xs).lookup f = if f = k then some ((m.lookup k).getD [] ++ xs) else m.lookup f := by
  unfold appendAt
  cases h : m.lookup k with
  | some l => simp [lookup_dictSet]
  | none => simp [lookup_dictSet]

theorem lookup_foldl_appendAt (ps : DMap) (acc : DMap) (f : FileId) :
    (ps.foldl (fun a e => appendAt a e.1 e.2) acc).lookup f =
      if f ∈ keys ps then some ((acc.lookup f).getD [] ++ getAll ps f) else acc.lookup f := by
  induction ps generalizing acc with
  | nil => simp [keys]
  | cons e t ih =>
    obtain ⟨k, xs⟩ := e
    simp only [List.foldl_cons]
    rw [ih, lookup_appendAt]
    by_cases h1 : f = k
    · subst h1
      by_cases h2 : f ∈ keys t
      · simp only [keys] at h2
        simp [h2, keys, getAll]
      · have := getAll_of_not_mem_keys t f h2
        simp only [getAll] at this
        simp only [keys] at h2
        simp [h2, keys, getAll, this]
    · simp only [h1, if_false, keys, List.map_cons, List.mem_cons, false_or, getAll, List.flatMap_cons]
      have : ¬ (k = f) := fun a => h1 a.symm
      simp [this]

theorem lookup_addOrphan (acc orphan : DMap) (f : FileId) :
    (addOrphan acc orphan).lookup f =
      if f ∈ keys orphan then some ((acc.lookup f).getD [] ++ getAll orphan f) else acc.lookup f :=
  lookup_foldl_appendAt orphan acc f

theorem getAll_map_order (order : List FileId) (g : FileId → List D) (f : FileId) (hn : order.Nodup) :
    getAll (order.map (fun k => (k, g k))) f = if f ∈ order then g f else [] := by
  induction order with
  | nil => simp [getAll]
  | cons k t ih =>
    have hn' := List.nodup_cons.mp hn
    simp only [List.map_cons, getAll, List.flatMap_cons] at ih ⊢
    rw [ih hn'.2]
    by_cases h : k = f
    · subst h
      simp [hn'.1]
    · have : ¬ f = k := fun a => h a.symm
      simp [h, this]

theorem keys_map_order (order : List FileId) (g : FileId → List D) :
    keys (order.map (fun k => (k, g k))) = order := by
  simp [keys, Function.comp_def]

theorem mergeOthers_eq (acc : DMap) (order : List FileId) (others : List DMap) :
    mergeOthers acc order others =
      (order.map (fun k => (k, extendFrom others k))).foldl (fun a e => appendAt a e.1 e.2) acc := by
  simp [mergeOthers, List.foldl_map]

theorem lookup_mergeOthers (acc : DMap) (order : List FileId) (others : List DMap) (f : FileId)
    (hn : order.Nodup) :
    (mergeOthers acc order others).lookup f =
      if f ∈ order then some ((acc.lookup f).getD [] ++ extendFrom others f) else acc.lookup f := by
  rw [mergeOthers_eq, lookup_foldl_appendAt, keys_map_order, getAll_map_order _ _ _ hn]
  by_cases h : f ∈ order <;> simp [h]

/-! ### the dict comprehension over `_parsed` -/

theorem lookup_foldl_dictSet (parsed : List Out) (acc : DMap) (f : FileId) :
    (parsed.foldl (fun acc o => dictSet acc o.src o.ds) acc).lookup f =
      parsed.foldl (fun a o => if o.src = f then some o.ds else a) (acc.lookup f) := by
  induction parsed generalizing acc with
  | nil => rfl
  | cons o t ih =>
    simp only [List.foldl_cons]
    rw [ih, lookup_dictSet]
    by_cases h : o.src = f
    · simp [h]
    · have : ¬ f = o.src := fun a => h a.symm
      simp [h, this]

theorem lookup_parsedResultOld (parsed : List Out) (f : FileId) :
    (parsedResultOld parsed).lookup f = parsedLast parsed f := by
  unfold parsedResultOld parsedLast
  rw [lookup_foldl_dictSet]; rfl

theorem foldl_last_of_not_mem (parsed : List Out) (f : FileId) (init : Option (List D))
    (h : f ∉ srcs parsed) :
    parsed.foldl (fun a o => if o.src = f then some o.ds else a) init = init := by
  induction parsed generalizing init with
  | nil => rfl
  | cons o t ih =>
    simp only [srcs, List.map_cons, List.mem_cons, not_or] at h
    have h1 : ¬ o.src = f := fun a => h.1 a.symm
    simp only [List.foldl_cons, h1, if_false]
    exact ih init h.2

/-- the value the comprehension keeps is the list of *some* output of that source -/
theorem foldl_last_mem (parsed : List Out) (f : FileId) (init : Option (List D)) :
    (parsed.foldl (fun a o => if o.src = f then some o.ds else a) init = init ∧ f ∉ srcs parsed) ∨
    ∃ o ∈ parsed, o.src = f ∧
      parsed.foldl (fun a o => if o.src = f then some o.ds else a) init = some o.ds := by
  induction parsed generalizing init with
  | nil => left; simp [srcs]
  | cons o t ih =>
    simp only [List.foldl_cons]
    by_cases h : o.src = f
    · simp only [h, if_true]
      rcases ih (some o.ds) with ⟨h1, _⟩ | ⟨o', ho', hs, he⟩
      · right; exact ⟨o, List.mem_cons_self, h, h1⟩
      · right; exact ⟨o', List.mem_cons_of_mem _ ho', hs, he⟩
    · simp only [h, if_false]
      rcases ih init with ⟨h1, h2⟩ | ⟨o', ho', hs, he⟩
      · left; refine ⟨h1, ?_⟩
        simp only [srcs, List.map_cons, List.mem_cons, not_or]
        exact ⟨fun a => h a.symm, h2⟩
      · right; exact ⟨o', List.mem_cons_of_mem _ ho', hs, he⟩

theorem parsedLast_none_iff (parsed : List Out) (f : FileId) :
    parsedLast parsed f = none ↔ f ∉ srcs parsed := by
  unfold parsedLast
  constructor
  · intro h
    rcases foldl_last_mem parsed f none with ⟨_, h2⟩ | ⟨o, _, _, he⟩
    · exact h2
    · rw [he] at h; cases h
  · intro h; exact foldl_last_of_not_mem parsed f none h

theorem parsedLast_of_equalLists (parsed : List Out) (f : FileId) (hE : EqualLists parsed)
    (o : Out) (ho : o ∈ parsed) (hs : o.src = f) : parsedLast parsed f = some o.ds := by
  unfold parsedLast
  rcases foldl_last_mem parsed f none with ⟨_, h2⟩ | ⟨o', ho', hs', he⟩
  · exact absurd (List.mem_map.mpr ⟨o, ho, hs⟩) h2
  · rw [he, hE o' ho' o ho (hs'.trans hs.symm)]

/-! ### the fixed per-source accumulation -/

theorem accum_nil (ds : List D) : accum [] ds = ds := by
  simp [accum]

theorem lookup_foldl_parsedStep (parsed : List Out) (acc : DMap) (f : FileId) :
    (parsed.foldl parsedStep acc).lookup f =
      parsed.foldl (fun a o => if o.src = f then some (accum (a.getD []) o.ds) else a) (acc.lookup f) := by
  induction parsed generalizing acc with
  | nil => rfl
  | cons o t ih =>
    simp only [List.foldl_cons]
    rw [ih]
    congr 1
    unfold parsedStep
    by_cases h : o.src = f
    · subst h
      cases hl : acc.lookup o.src <;> simp [lookup_dictSet]
    · have h' : ¬ f = o.src := fun a => h a.symm
      cases hl : acc.lookup o.src <;> simp [lookup_dictSet, h, h']

theorem foldl_list_of_not_mem (parsed : List Out) (f : FileId) (init : List D) (h : f ∉ srcs parsed) :
    parsed.foldl (fun l o => if o.src = f then accum l o.ds else l) init = init := by
  induction parsed generalizing init with
  | nil => rfl
  | cons o t ih =>
    simp only [srcs, List.map_cons, List.mem_cons, not_or] at h
    have h1 : ¬ o.src = f := fun a => h.1 a.symm
    simp only [List.foldl_cons, h1, if_false]
    exact ih init h.2

theorem foldl_opt_eq (parsed : List Out) (f : FileId) (a : Option (List D)) :
    parsed.foldl (fun a o => if o.src = f then some (accum (a.getD []) o.ds) else a) a =
      if f ∈ srcs parsed then
        some (parsed.foldl (fun l o => if o.src = f then accum l o.ds else l) (a.getD []))
      else a := by
  induction parsed generalizing a with
  | nil => simp [srcs]
  | cons o t ih =>
    simp only [List.foldl_cons]
    rw [ih]
    by_cases h : o.src = f
    · simp only [h, if_true, srcs, List.map_cons, List.mem_cons, true_or, Option.getD_some]
      by_cases h2 : f ∈ srcs t
      · simp only [srcs] at h2; simp [h2]
      · rw [foldl_list_of_not_mem t f _ h2]
        simp only [srcs] at h2; simp [h2]
    · have h' : ¬ f = o.src := fun e => h e.symm
      simp [h, h', srcs]

theorem lookup_parsedResult (parsed : List Out) (f : FileId) :
    (parsedResult parsed).lookup f = if f ∈ srcs parsed then some (parsedUnion parsed f) else none := by
  unfold parsedResult parsedUnion
  rw [lookup_foldl_parsedStep, foldl_opt_eq]
  simp

theorem mergedAt_parsedResult (parsed : List Out) (f : FileId) :
    mergedAt (parsedResult parsed) f = parsedUnion parsed f := by
  unfold mergedAt
  rw [lookup_parsedResult]
  by_cases h : f ∈ srcs parsed
  · simp [h]
  · simp only [h, if_false, Option.getD_none]
    unfold parsedUnion
    rw [foldl_list_of_not_mem parsed f [] h]

theorem keys_parsedResult (parsed : List Out) (f : FileId) :
    f ∈ keys (parsedResult parsed) ↔ f ∈ srcs parsed := by
  rw [← lookup_isSome_iff_mem_keys, lookup_parsedResult]
  by_cases h : f ∈ srcs parsed <;> simp [h]

theorem keys_parsedResultOld (parsed : List Out) (f : FileId) :
    f ∈ keys (parsedResultOld parsed) ↔ f ∈ srcs parsed := by
  rw [← lookup_isSome_iff_mem_keys, lookup_parsedResultOld]
  have := parsedLast_none_iff parsed f
  cases h : parsedLast parsed f with
  | none => simp [this.mp h]
  | some l =>
    simp only [Option.isSome_some, true_iff]
    apply Classical.byContradiction
    intro hn
    rw [this.mpr hn] at h; cases h

/-- the accumulated list only holds diagnostics some output of `f` carried (no hypothesis) -/
theorem mem_foldl_accum (parsed : List Out) (f : FileId) (init : List D) (d : D)
    (h : d ∈ parsed.foldl (fun l o => if o.src = f then accum l o.ds else l) init) :
    d ∈ init ∨ d ∈ parsedAll parsed f := by
  induction parsed generalizing init with
  | nil => left; exact h
  | cons o t ih =>
    simp only [List.foldl_cons] at h
    rcases ih _ h with h1 | h1
    · by_cases hs : o.src = f
      · simp only [hs, if_true, accum, List.mem_append, List.mem_filter] at h1
        rcases h1 with h1 | h1
        · left; exact h1
        · right; simp [parsedAll, hs, h1.1]
      · simp only [hs, if_false] at h1; left; exact h1
    · right
      simp only [parsedAll, List.flatMap_cons, List.mem_append] at h1 ⊢
      right; exact h1

theorem dedupInto_append (acc xs ys : List D) :
    dedupInto acc (xs ++ ys) = dedupInto (dedupInto acc xs) ys := by
  induction xs generalizing acc with
  | nil => rfl
  | cons d t ih =>
    simp only [List.cons_append, dedupInto]
    split
    · exact ih acc
    · exact ih _

theorem dedupInto_eq_accum (acc ds : List D) (hn : (ds.map (·.oid)).Nodup) :
    dedupInto acc ds = accum acc ds := by
  induction ds generalizing acc with
  | nil => simp [dedupInto, accum]
  | cons d t ih =>
    have hn' : d.oid ∉ t.map (·.oid) ∧ (t.map (·.oid)).Nodup := List.nodup_cons.mp hn
    simp only [dedupInto]
    split
    · rename_i hc
      rw [ih acc hn'.2]
      have hc' : d.oid ∈ acc.map (·.oid) := by simpa using hc
      obtain ⟨a, ha, he⟩ := List.mem_map.mp hc'
      simp only [accum, List.filter_cons, hc, Bool.not_true, Bool.false_eq_true, if_false]
    · rename_i hc
      rw [ih _ hn'.2]
      simp only [accum, List.filter_cons, hc, Bool.not_false, if_true, List.append_assoc, List.cons_append,
        List.nil_append]
      congr 2
      apply List.filter_congr
      intro x hx
      have hne : ¬ x.oid = d.oid := by
        intro e
        exact hn'.1 (List.mem_map.mpr ⟨x, hx, e⟩)
      simp [hne]

theorem foldl_accum_eq_dedup (parsed : List Out) (f : FileId) (init : List D) (hU : OutputsNodup parsed) :
    parsed.foldl (fun l o => if o.src = f then accum l o.ds else l) init =
      dedupInto init (parsedAll parsed f) := by
  induction parsed generalizing init with
  | nil => simp [parsedAll, dedupInto]
  | cons o t ih =>
    have hU' : OutputsNodup t := fun x hx => hU x (List.mem_cons_of_mem _ hx)
    simp only [List.foldl_cons, parsedAll, List.flatMap_cons]
    rw [ih _ hU']
    by_cases hs : o.src = f
    · simp only [hs, if_true]
      rw [dedupInto_append, dedupInto_eq_accum _ _ (hU o List.mem_cons_self)]
      rfl
    · simp only [hs, if_false, List.nil_append]
      rfl

theorem mem_dedupInto (acc ds : List D) (d : D) (h : d ∈ dedupInto acc ds) : d ∈ acc ∨ d ∈ ds := by
  induction ds generalizing acc with
  | nil => left; exact h
  | cons x t ih =>
    simp only [dedupInto] at h
    split at h
    · rcases ih acc h with h1 | h1
      · left; exact h1
      · right; exact List.mem_cons_of_mem _ h1
    · rcases ih _ h with h1 | h1
      · simp only [List.mem_append, List.mem_singleton] at h1
        rcases h1 with h1 | h1
        · left; exact h1
        · right; rw [h1]; exact List.mem_cons_self
      · right; exact List.mem_cons_of_mem _ h1

theorem acc_subset_dedupInto (acc ds : List D) (d : D) (h : d ∈ acc) : d ∈ dedupInto acc ds := by
  induction ds generalizing acc with
  | nil => exact h
  | cons x t ih =>
    simp only [dedupInto]
    split
    · exact ih acc h
    · exact ih _ (List.mem_append_left _ h)

theorem dedupInto_complete (acc ds : List D) (d : D) (h : d ∈ ds) :
    ∃ d' ∈ dedupInto acc ds, d'.oid = d.oid := by
  induction ds generalizing acc with
  | nil => cases h
  | cons x t ih =>
    simp only [dedupInto]
    rcases List.mem_cons.mp h with h1 | h1
    · subst h1
      split
      · rename_i hc
        have hc' : d.oid ∈ acc.map (·.oid) := by simpa using hc
        obtain ⟨d', hd', he⟩ := List.mem_map.mp hc'
        exact ⟨d', acc_subset_dedupInto acc t d' hd', he⟩
      · exact ⟨d, acc_subset_dedupInto _ t d (by simp), rfl⟩
    · split
      · exact ih acc h1
      · exact ih _ h1

theorem dedupInto_nodup (acc ds : List D) (h : (acc.map (·.oid)).Nodup) :
    ((dedupInto acc ds).map (·.oid)).Nodup := by
  induction ds generalizing acc with
  | nil => exact h
  | cons x t ih =>
    simp only [dedupInto]
    split
    · exact ih acc h
    · rename_i hc
      apply ih
      simp only [List.map_append, List.map_cons, List.map_nil]
      rw [List.nodup_append]
      refine ⟨h, by simp, ?_⟩
      intro a ha b hb
      simp only [List.mem_singleton] at hb
      subst hb
      intro e
      subst e
      exact hc (by simpa using ha)

/-! ### the whole merge -/

theorem lookup_mergeFrom (base : DMap) (orphan : DMap) (order : List FileId) (others : List DMap)
    (f : FileId) (hn : order.Nodup) :
    (mergeFrom base orphan order others).lookup f =
      if f ∈ keys base ∨ f ∈ keys orphan ∨ f ∈ order then
        some ((base.lookup f).getD [] ++ getAll orphan f ++
              (if f ∈ order then extendFrom others f else []))
      else none := by
  unfold mergeFrom
  rw [lookup_mergeOthers _ _ _ _ hn, lookup_addOrphan]
  have hg := getAll_of_not_mem_keys orphan f
  by_cases h1 : f ∈ keys base
  · by_cases h2 : f ∈ keys orphan
    · by_cases h3 : f ∈ order <;> simp [h1, h2, h3]
    · by_cases h3 : f ∈ order
      · simp [h1, h2, h3, hg h2]
      · have hp : base.lookup f ≠ none := fun a => (lookup_eq_none_iff base f).mp a h1
        cases hq : base.lookup f with
        | none => exact absurd hq hp
        | some l => simp [h1, h2, h3, hg h2]
  · have hp := (lookup_eq_none_iff base f).mpr h1
    by_cases h2 : f ∈ keys orphan
    · by_cases h3 : f ∈ order <;> simp [h1, h2, h3, hp]
    · by_cases h3 : f ∈ order <;> simp [h1, h2, h3, hp, hg h2]

theorem extendFrom_nil_of_not_mem (others : List DMap) (f : FileId)
    (h : ∀ o ∈ others, f ∉ keys o) : extendFrom others f = [] := by
  unfold extendFrom
  rw [List.flatMap_eq_nil_iff]
  intro o ho
  rw [(lookup_eq_none_iff o f).mpr (h o ho)]

/-! ### filter -/

theorem filterDiagnostics_eq (S : List String) (ds : List D) :
    filterDiagnostics S ds = ds.filter (fun d => decide (d.cls ∉ S)) := by
  unfold filterDiagnostics
  cases S with
  | nil =>
    simp only [List.isEmpty_nil, if_true]
    symm
    rw [List.filter_eq_self]
    intro d _; simp
  | cons a t =>
    simp only [List.isEmpty_cons, Bool.false_eq_true, if_false]
    congr 1
    funext d
    simp

theorem mem_filterDiagnostics (S : List String) (ds : List D) (d : D) :
    d ∈ filterDiagnostics S ds ↔ d ∈ ds ∧ d.cls ∉ S := by
  rw [filterDiagnostics_eq]; simp

/-! ### streams -/

theorem mem_filtered (S : List String) (m : Stream) (e : FileId × List D) :
    e ∈ filtered S m ↔ ∃ e' ∈ m, e = (e'.1, filterDiagnostics S e'.2) := by
  unfold filtered
  simp only [List.mem_map]
  constructor
  · rintro ⟨a, ha, rfl⟩; exact ⟨a, ha, rfl⟩
  · rintro ⟨a, ha, rfl⟩; exact ⟨a, ha, rfl⟩

theorem filtered_clean (S : List String) (m : Stream) :
    ∀ e ∈ filtered S m, ∀ d ∈ e.2, d.cls ∉ S := by
  intro e he d hd
  obtain ⟨e', _, rfl⟩ := (mem_filtered S m e).mp he
  exact ((mem_filterDiagnostics S _ d).mp hd).2

theorem filtered_append (S : List String) (a b : Stream) :
    filtered S (a ++ b) = filtered S a ++ filtered S b := by
  simp [filtered]

theorem getAll_append (a b : DMap) (f : FileId) : getAll (a ++ b) f = getAll a f ++ getAll b f := by
  simp [getAll]

theorem getAll_filtered (S : List String) (m : Stream) (f : FileId) :
    getAll (filtered S m) f = filterDiagnostics S (getAll m f) := by
  induction m with
  | nil => simp [getAll, filtered, filterDiagnostics_eq]
  | cons e t ih =>
    simp only [getAll, filtered, List.map_cons, List.flatMap_cons] at ih ⊢
    rw [ih]
    by_cases h : e.1 = f
    · simp [h, filterDiagnostics_eq]
    · simp [h, filterDiagnostics_eq]

theorem getAll_outEvents (outs : List Out) (f : FileId) : getAll (outEvents outs) f = parsedAll outs f := by
  simp [getAll, outEvents, parsedAll, List.flatMap_map]

theorem countErrors_append (a b : Stream) : countErrors (a ++ b) = countErrors a + countErrors b := by
  simp [countErrors, List.countP_append]

theorem countErrors_pos_iff (s : Stream) :
    0 < countErrors s ↔ ∃ e ∈ s, ∃ d ∈ e.2, 3 ≤ d.sev := by
  unfold countErrors
  rw [List.countP_pos_iff]
  simp only [List.mem_flatMap, isError, decide_eq_true_eq]
  constructor
  · rintro ⟨d, ⟨e, he, hd⟩, h⟩; exact ⟨e, he, d, hd, h⟩
  · rintro ⟨e, he, d, hd, h⟩; exact ⟨d, ⟨e, he, hd⟩, h⟩

/-! ### pages store with distinct output keys -/

theorem storeSet_of_not_mem (m : List Out) (o : Out) (h : o.out ∉ m.map (·.out)) :
    storeSet m o = m ++ [o] := by
  induction m with
  | nil => rfl
  | cons a t ih =>
    simp only [List.map_cons, List.mem_cons, not_or] at h
    have : ¬ a.out = o.out := fun e => h.1 e.symm
    simp only [storeSet, this, if_false, List.cons_append]
    rw [ih h.2]

theorem foldl_storeSet_nodup (outs acc : List Out) (h : ((acc ++ outs).map (·.out)).Nodup) :
    outs.foldl storeSet acc = acc ++ outs := by
  induction outs generalizing acc with
  | nil => simp
  | cons o t ih =>
    simp only [List.foldl_cons]
    have hnot : o.out ∉ acc.map (·.out) := by
      simp only [List.map_append, List.map_cons] at h
      have := (List.nodup_append.mp h).2.2
      intro hm
      exact this _ hm _ List.mem_cons_self rfl
    rw [storeSet_of_not_mem acc o hnot]
    have : acc ++ [o] ++ t = acc ++ o :: t := by simp
    rw [ih (acc ++ [o]) (by rw [this]; exact h), this]

theorem pagesStore_nodup (outs : List Out) (h : (outs.map (·.out)).Nodup) : pagesStore outs = outs := by
  unfold pagesStore
  rw [foldl_storeSet_nodup outs [] (by simpa using h)]
  simp

/-! ### initialization map and init events -/

theorem initMap_eq_foldl (cfg : FileId) (init : List (List D)) (acc : DMap) :
    init.foldl (fun acc b => if b.isEmpty then acc else appendAt acc cfg b) acc =
      ((init.filter (fun b => !b.isEmpty)).map (fun b => (cfg, b))).foldl (fun a e => appendAt a e.1 e.2) acc := by
  induction init generalizing acc with
  | nil => rfl
  | cons b t ih =>
    simp only [List.foldl_cons, List.filter_cons]
    cases hb : b.isEmpty
    · simp only [Bool.false_eq_true, if_false, Bool.not_false, if_true, List.map_cons, List.foldl_cons]
      exact ih _
    · simp only [if_true, Bool.not_true, Bool.false_eq_true, if_false]
      exact ih _

theorem getAll_initEvents (cfg : FileId) (init : List (List D)) (f : FileId) :
    getAll ((init.filter (fun b => !b.isEmpty)).map (fun b => (cfg, b))) f =
      if f = cfg then init.flatten else [] := by
  induction init with
  | nil => simp [getAll]
  | cons b t ih =>
    simp only [getAll, List.filter_cons] at ih ⊢
    cases hb : b.isEmpty
    · simp only [Bool.not_false, if_true, List.map_cons, List.flatMap_cons, List.flatten_cons]
      rw [ih]
      by_cases h : f = cfg
      · subst h; simp
      · have : ¬ cfg = f := fun a => h a.symm
        simp [h, this]
    · have : b = [] := by simpa using hb
      subst this
      simp only [Bool.not_true, Bool.false_eq_true, if_false, List.flatten_cons, List.nil_append]
      exact ih

theorem mergedAt_initMap (cfg : FileId) (init : List (List D)) (f : FileId) :
    mergedAt (initMap cfg init) f = if f = cfg then init.flatten else [] := by
  unfold mergedAt initMap
  rw [initMap_eq_foldl, lookup_foldl_appendAt]
  by_cases hk : f ∈ keys ((init.filter (fun b => !b.isEmpty)).map (fun b => (cfg, b)))
  · simp only [hk, if_true, List.lookup_nil, Option.getD_none, List.nil_append, Option.getD_some]
    exact getAll_initEvents cfg init f
  · simp only [hk, if_false, List.lookup_nil, Option.getD_none]
    rw [← getAll_initEvents cfg init f, getAll_of_not_mem_keys _ _ hk]

theorem keys_initMap (cfg : FileId) (init : List (List D)) (f : FileId) :
    f ∈ keys (initMap cfg init) → f = cfg := by
  intro h
  rw [← lookup_isSome_iff_mem_keys] at h
  unfold initMap at h
  rw [initMap_eq_foldl, lookup_foldl_appendAt] at h
  by_cases hk : f ∈ keys ((init.filter (fun b => !b.isEmpty)).map (fun b => (cfg, b)))
  · simp only [keys, List.map_map, List.mem_map, Function.comp] at hk
    obtain ⟨b, _, hb⟩ := hk
    exact hb.symm
  · simp [hk] at h

/-- the list the comprehension keeps was reported by the parse producer -/
theorem parsedLast_subset (parsed : List Out) (f : FileId) (l : List D)
    (h : parsedLast parsed f = some l) : ∀ d ∈ l, d ∈ parsedAll parsed f := by
  unfold parsedLast at h
  rcases foldl_last_mem parsed f none with ⟨h1, _⟩ | ⟨o, ho, hs, he⟩
  · rw [h1] at h; cases h
  · rw [he] at h
    injection h with h
    subst h
    intro d hd
    unfold parsedAll
    exact List.mem_flatMap.mpr ⟨o, ho, by simp [hs, hd]⟩

theorem mem_getAll_of_lookup (m : DMap) (f : FileId) (l : List D) (h : m.lookup f = some l) :
    ∀ d ∈ l, d ∈ getAll m f := by
  induction m with
  | nil => simp at h
  | cons e t ih =>
    obtain ⟨k, v⟩ := e
    rw [lookup_cons_eq] at h
    intro d hd
    simp only [getAll, List.flatMap_cons, List.mem_append]
    by_cases hk : f = k
    · subst hk
      simp only [if_true] at h
      injection h with h
      subst h
      left; simp [hd]
    · simp only [hk, if_false] at h
      right; exact ih h d hd

theorem getAll_eq_lookup_of_nodup (m : DMap) (f : FileId) (h : (keys m).Nodup) :
    getAll m f = (m.lookup f).getD [] := by
  induction m with
  | nil => rfl
  | cons e t ih =>
    obtain ⟨k, v⟩ := e
    have h' : k ∉ keys t ∧ (keys t).Nodup := List.nodup_cons.mp h
    rw [lookup_cons_eq]
    simp only [getAll, List.flatMap_cons]
    by_cases hk : f = k
    · subst hk
      have := getAll_of_not_mem_keys t f h'.1
      simp only [getAll] at this
      simp [this]
    · have hk' : ¬ k = f := fun a => hk a.symm
      simp only [hk, hk', if_false, List.nil_append]
      exact ih h'.2

/-! ### attribution -/

mutual
theorem walk_owned (stack : List FileId) (cur : FileId) (acc : Stream) (x : Node) :
    walk (stack ++ [cur]) acc x = some (acc ++ owned cur x) := by
  cases x with
  | fault d => simp [walk, owned]
  | plain cs => simp only [walk, owned]; exact walkList_owned stack cur acc cs
  | root f cs =>
    simp only [walk, owned]
    exact walkList_owned (stack ++ [cur]) f acc cs
theorem walkList_owned (stack : List FileId) (cur : FileId) (acc : Stream) (xs : List Node) :
    walkList (stack ++ [cur]) acc xs = some (acc ++ ownedList cur xs) := by
  cases xs with
  | nil => simp [walkList, ownedList]
  | cons c cs =>
    simp only [walkList, ownedList]
    rw [walk_owned stack cur acc c]
    simp only
    rw [walkList_owned stack cur (acc ++ owned cur c) cs]
    simp
end

end SnootyVerif.Diag

namespace SnootyVerif.Diag

/-! ### the store under update / delete -/

theorem lookupOut_cons (a : Out) (t : List Out) (k : FileId) :
    lookupOut (a :: t) k = if a.out = k then some a else lookupOut t k := by
  unfold lookupOut
  by_cases h : a.out = k
  · simp [List.find?, h]
  · have : (a.out == k) = false := by simp [h]
    simp [List.find?, h, this]

theorem lookupOut_storeSet (m : List Out) (o : Out) (k : FileId) :
    lookupOut (storeSet m o) k = if o.out = k then some o else lookupOut m k := by
  induction m with
  | nil => simp [storeSet, lookupOut_cons, lookupOut]
  | cons a t ih =>
    unfold storeSet
    by_cases ha : a.out = o.out
    · simp only [ha, if_true, lookupOut_cons]
      by_cases h : o.out = k <;> simp [h]
    · simp only [ha, if_false, lookupOut_cons, ih]
      by_cases hk : a.out = k
      · have : ¬ o.out = k := fun h => ha (hk.trans h.symm)
        simp [hk, this]
      · simp [hk]

theorem lookupOut_filter (m : List Out) (k' k : FileId) :
    lookupOut (m.filter (fun o => o.out != k')) k = if k' = k then none else lookupOut m k := by
  induction m with
  | nil => by_cases h : k' = k <;> simp [lookupOut, h]
  | cons a t ih =>
    by_cases ha : a.out = k'
    · have hf : List.filter (fun o => o.out != k') (a :: t) = List.filter (fun o => o.out != k') t := by
        simp [List.filter_cons, ha]
      rw [hf, ih, lookupOut_cons]
      by_cases h : k' = k
      · simp [h]
      · have : ¬ a.out = k := fun x => h (ha.symm.trans x)
        simp [h, this]
    · have hf : List.filter (fun o => o.out != k') (a :: t) = a :: List.filter (fun o => o.out != k') t := by
        simp [List.filter_cons, ha]
      rw [hf, lookupOut_cons, lookupOut_cons, ih]
      by_cases hk : a.out = k
      · have : ¬ k' = k := fun h => ha (hk.trans h.symm)
        simp [hk, this]
      · simp [hk]

theorem lookup_filter_ne (m : DMap) (k' k : FileId) :
    (m.filter (fun e => e.1 != k')).lookup k = if k' = k then none else m.lookup k := by
  induction m with
  | nil => by_cases h : k' = k <;> simp [h]
  | cons a t ih =>
    obtain ⟨ak, av⟩ := a
    by_cases ha : ak = k'
    · have hf : List.filter (fun e => e.1 != k') ((ak, av) :: t) = List.filter (fun e => e.1 != k') t := by
        simp [List.filter_cons, ha]
      rw [hf, ih, lookup_cons_eq]
      by_cases h : k' = k
      · simp [h]
      · have : ¬ k = ak := fun x => h (ha.symm.trans x.symm)
        simp [h, this]
    · have hf : List.filter (fun e => e.1 != k') ((ak, av) :: t) = (ak, av) :: List.filter (fun e => e.1 != k') t := by
        simp [List.filter_cons, ha]
      rw [hf, lookup_cons_eq, lookup_cons_eq, ih]
      by_cases hk : k = ak
      · subst hk
        have : ¬ k' = k := fun h => ha h.symm
        simp [this]
      · simp [hk]

/-- the state after `earlier ++ [op]` is one step from the state after `earlier` -/
theorem run_snoc (earlier : List Op) (op : Op) : Store.run (earlier ++ [op]) = (Store.run earlier).step op := by
  simp [Store.run, List.foldl_append]

/-- REFINEMENT: whatever the history, the page stored under `k` and the orphan diagnostics recorded for `k` are those of
the last-write-wins specification (history given latest operation first). -/
theorem run_refines (hist : List Op) (k : FileId) :
    lookupOut (Store.run hist.reverse).parsed k = specOut hist k ∧
    (Store.run hist.reverse).orphan.lookup k = specOrphan hist k := by
  induction hist with
  | nil => simp [Store.run, Store.empty, lookupOut, specOut, specOrphan]
  | cons op earlier ih =>
    rw [List.reverse_cons, run_snoc]
    cases op with
    | set o =>
      simp only [Store.step, specOut, specOrphan]
      exact ⟨by rw [lookupOut_storeSet, ih.1], ih.2⟩
    | setOrphan k' ds =>
      simp only [Store.step, specOut, specOrphan]
      refine ⟨ih.1, ?_⟩
      rw [lookup_dictSet, ih.2]
      by_cases h : k = k'
      · subst h; simp
      · have h' : ¬ k' = k := fun x => h x.symm
        simp only [h, h', if_false]
    | del k' =>
      simp only [Store.step, specOut, specOrphan]
      exact ⟨by rw [lookupOut_filter, ih.1], by rw [lookup_filter_ne, ih.2]⟩

/-- dict keys stay unique -/
theorem storeSet_keys_nodup (m : List Out) (o : Out) (h : (m.map (·.out)).Nodup) : ((storeSet m o).map (·.out)).Nodup := by
  induction m with
  | nil => simp [storeSet]
  | cons a t ih =>
    simp only [List.map_cons, List.nodup_cons] at h
    simp only [storeSet]
    by_cases ha : a.out = o.out
    · simp only [ha, if_true, List.map_cons, List.nodup_cons]
      exact ⟨ha ▸ h.1, h.2⟩
    · simp only [ha, if_false, List.map_cons, List.nodup_cons]
      refine ⟨?_, ih h.2⟩
      intro hm
      have : ∀ (t : List Out), a.out ∈ (storeSet t o).map (·.out) → a.out ∈ t.map (·.out) ∨ a.out = o.out := by
        intro t
        induction t with
        | nil => intro h; simp [storeSet] at h; exact Or.inr h
        | cons b u ihu =>
          intro h
          simp only [storeSet] at h
          by_cases hb : b.out = o.out
          · simp only [hb, if_true, List.map_cons, List.mem_cons] at h
            rcases h with h | h
            · exact Or.inr h
            · exact Or.inl (by simp [h])
          · simp only [hb, if_false, List.map_cons, List.mem_cons] at h
            rcases h with h | h
            · exact Or.inl (by simp [h])
            · rcases ihu h with h' | h'
              · exact Or.inl (by simp [h'])
              · exact Or.inr h'
      rcases this t hm with h' | h'
      · exact h.1 h'
      · exact ha h'

theorem run_keys_nodup (ops : List Op) : ((Store.run ops).parsed.map (·.out)).Nodup := by
  suffices h : ∀ (s : Store), (s.parsed.map (·.out)).Nodup → ((ops.foldl Store.step s).parsed.map (·.out)).Nodup from
    h Store.empty (by simp [Store.empty])
  induction ops with
  | nil => intro s h; exact h
  | cons op rest ih =>
    intro s h
    simp only [List.foldl]
    apply ih
    cases op with
    | set o => exact storeSet_keys_nodup _ _ h
    | setOrphan k ds => exact h
    | del k =>
      simp only [Store.step]
      exact List.Nodup.sublist (List.Sublist.map _ List.filter_sublist) h

end SnootyVerif.Diag
