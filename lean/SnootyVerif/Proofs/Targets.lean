import SnootyVerif.Model.Targets

namespace SnootyVerif.Targets

/-! ### normalize -/

theorem normAux_idem (isSpace : Char → Bool) (hB : isSpace ' ' = true) (s : Str) :
    ∀ b, normAux isSpace b (normAux isSpace b s) = normAux isSpace b s := by
  induction s with
  | nil => intro b; simp [normAux]
  | cons c cs ih =>
    intro b
    by_cases hc : isSpace c = true
    · cases b
      · simp [normAux, hc, hB, ih true]
      · simp [normAux, hc, ih true]
    · simp [normAux, hc, ih false]

/-- a non-empty run of whitespace collapses to one blank (or nothing when already inside a run) -/
theorem normAux_ws (isSpace : Char → Bool) (ws t : Str) (hne : ws ≠ []) (hall : ∀ c ∈ ws, isSpace c = true) :
    ∀ b, normAux isSpace b (ws ++ t) = (if b then [] else [' ']) ++ normAux isSpace true t := by
  induction ws with
  | nil => exact absurd rfl hne
  | cons c cs ih =>
    intro b
    have hc : isSpace c = true := hall c (by simp)
    by_cases hcs : cs = []
    · subst hcs
      cases b <;> simp [normAux, hc]
    · have ih' := ih hcs (fun x hx => hall x (by simp [hx])) true
      cases b <;> simp [normAux, hc, ih']

theorem normAux_prefix (isSpace : Char → Bool) (a t1 t2 : Str)
    (h : ∀ b, normAux isSpace b t1 = normAux isSpace b t2) :
    ∀ b, normAux isSpace b (a ++ t1) = normAux isSpace b (a ++ t2) := by
  induction a with
  | nil => simpa using h
  | cons c cs ih =>
    intro b
    by_cases hc : isSpace c = true
    · cases b <;> simp [normAux, hc, ih true]
    · simp [normAux, hc, ih false]

/-! ### Db -/

theorem Db.get_add (db : Db) (k0 k : Str) (d : LocalDef) :
    (db.add k0 d).get k = if k0 = k then db.get k ++ [d] else db.get k := by
  induction db with
  | nil => simp [Db.add, Db.get]
  | cons kv rest ih =>
    obtain ⟨k', l⟩ := kv
    simp only [Db.add]
    by_cases h1 : k' = k0
    · subst h1
      by_cases h2 : k' = k <;> simp [Db.get, h2]
    · by_cases h2 : k' = k
      · subst h2
        have : ¬ k0 = k' := fun h => h1 h.symm
        simp [Db.get, h1, this]
      · simp [Db.get, h1, h2, ih]

theorem Db.mem_get_add {db : Db} {k0 k : Str} {d d' : LocalDef} (h : d' ∈ (db.add k0 d).get k) :
    d' ∈ db.get k ∨ (d' = d ∧ k0 = k) := by
  rw [Db.get_add] at h
  split at h
  · rcases List.mem_append.1 h with h | h
    · exact Or.inl h
    · exact Or.inr ⟨by simpa using h, by assumption⟩
  · exact Or.inl h

theorem Db.mem_get_add_of_mem {db : Db} {k0 k : Str} {d d' : LocalDef} (h : d' ∈ db.get k) :
    d' ∈ (db.add k0 d).get k := by
  rw [Db.get_add]; split
  · exact List.mem_append_left _ h
  · exact h

theorem addAll_mem (isSpace : Char → Bool) (dom role : Str) (d : LocalDef) (ts : List Str) :
    ∀ (db : Db) (k : Str) (d' : LocalDef), d' ∈ (addAll isSpace dom role d db ts).get k →
      d' ∈ db.get k ∨ (d' = d ∧ ∃ t ∈ ts, k = mkKey dom role (normalize isSpace t)) := by
  induction ts with
  | nil => intro db k d' h; exact Or.inl h
  | cons t ts ih =>
    intro db k d' h
    simp only [addAll] at h
    rcases ih _ _ _ h with h | ⟨h1, t', ht', hk⟩
    · rcases Db.mem_get_add h with h | ⟨h1, h2⟩
      · exact Or.inl h
      · exact Or.inr ⟨h1, t, by simp, h2.symm⟩
    · exact Or.inr ⟨h1, t', by simp [ht'], hk⟩

theorem addAll_mono (isSpace : Char → Bool) (dom role : Str) (d : LocalDef) (ts : List Str) :
    ∀ (db : Db) (k : Str) (d' : LocalDef), d' ∈ db.get k → d' ∈ (addAll isSpace dom role d db ts).get k := by
  induction ts with
  | nil => intro db k d' h; exact h
  | cons t ts ih =>
    intro db k d' h
    simp only [addAll]
    exact ih _ _ _ (Db.mem_get_add_of_mem h)

/-- every name handed to `define_local_target` finds the definition under its normalised key -/
theorem addAll_found (isSpace : Char → Bool) (dom role : Str) (d : LocalDef) (ts : List Str) :
    ∀ (db : Db) (t : Str), t ∈ ts → d ∈ (addAll isSpace dom role d db ts).get (mkKey dom role (normalize isSpace t)) := by
  induction ts with
  | nil => intro db t h; cases h
  | cons t0 ts ih =>
    intro db t h
    simp only [addAll]
    rcases List.mem_cons.1 h with rfl | h
    · apply addAll_mono
      rw [Db.get_add]; simp
    · exact ih _ _ h

theorem defineLocal_mem {isSpace : Char → Bool} {db db' : Db} {dom role : Str} {ts : List Str}
    {page : String} {title : Inls} {hid : String}
    (h : defineLocal isSpace db dom role ts page title hid = .ok db') {k : Str} {d : LocalDef}
    (hd : d ∈ db'.get k) : d ∈ db.get k ∨ (d.page = page ∧ d.htmlId = hid ∧ d.title = title ∧ d.canonical ∈ ts ∧
      ∃ t ∈ ts, k = mkKey dom role (normalize isSpace t)) := by
  unfold defineLocal at h
  split at h
  · cases h
  · rename_i canon hc
    injection h with h; subst h
    rcases addAll_mem _ _ _ _ _ _ _ _ hd with h | ⟨rfl, ht⟩
    · exact Or.inl h
    · refine Or.inr ⟨rfl, rfl, rfl, ?_, ht⟩
      -- the canonical name is one of the names
      clear hd ht
      have key : ∀ (l : List Str) (c : Str), firstMaxBy countDots l = some c → c ∈ l := by
        intro l
        induction l with
        | nil => intro c h; simp [firstMaxBy] at h
        | cons x xs ih =>
          intro c h
          simp only [firstMaxBy] at h
          split at h
          · injection h with h; simp [h]
          · rename_i y hy
            split at h
            · injection h with h; subst h; exact List.mem_cons_of_mem _ (ih _ hy)
            · injection h with h; simp [h]
      exact key _ _ hc

theorem defineLocal_mono {isSpace : Char → Bool} {db db' : Db} {dom role : Str} {ts : List Str}
    {page : String} {title : Inls} {hid : String}
    (h : defineLocal isSpace db dom role ts page title hid = .ok db') {k : Str} {d : LocalDef}
    (hd : d ∈ db.get k) : d ∈ db'.get k := by
  unfold defineLocal at h
  split at h
  · cases h
  · injection h with h; subst h
    exact addAll_mono _ _ _ _ _ _ _ _ hd

theorem defineIdents_mem {isSpace : Char → Bool} {dom role : Str} {page hid : String} (idents : List Ident) :
    ∀ {db db' : Db}, defineIdents isSpace dom role page hid db idents = .ok db' →
      ∀ {k : Str} {d : LocalDef}, d ∈ db'.get k → d ∈ db.get k ∨ (d.page = page ∧ d.htmlId = hid) := by
  induction idents with
  | nil => intro db db' h k d hd; simp only [defineIdents] at h; injection h with h; subst h; exact Or.inl hd
  | cons i is ih =>
    intro db db' h k d hd
    simp only [defineIdents] at h
    split at h
    · cases h
    · rename_i db1 h1
      rcases ih h hd with h2 | h2
      · rcases defineLocal_mem h1 h2 with h3 | ⟨h3, h4, _⟩
        · exact Or.inl h3
        · exact Or.inr ⟨h3, h4⟩
      · exact Or.inr h2

theorem pass4Items_mem {isSpace isWord : Char → Bool} {page : String} {reserved : List String} (items : List Item) :
    ∀ {db db' : Db} {issued : List String} {out : List (Option String)},
      pass4Items isSpace isWord page reserved db items issued = .ok (db', out) →
      ∀ {k : Str} {d : LocalDef}, d ∈ db'.get k → d ∈ db.get k ∨ (d.page = page ∧ some d.htmlId ∈ out) := by
  induction items with
  | nil =>
    intro db db' issued out h k d hd
    simp only [pass4Items] at h; injection h with h; injection h with h1 h2; subst h1; exact Or.inl hd
  | cons it rest ih =>
    intro db db' issued out h k d hd
    cases it with
    | target dm r idents =>
      simp only [pass4Items] at h
      split at h
      · split at h
        · cases h
        · rename_i db2 out2 h2
          injection h with h; injection h with ha hb; subst ha; subst hb
          rcases ih h2 hd with h3 | ⟨h3, h4⟩
          · exact Or.inl h3
          · exact Or.inr ⟨h3, List.mem_cons_of_mem _ h4⟩
      · split at h
        · cases h
        · rename_i db1 h1
          split at h
          · cases h
          · rename_i db2 out2 h2
            injection h with h; injection h with ha hb; subst ha; subst hb
            rcases ih h2 hd with h3 | ⟨h3, h4⟩
            · rcases defineIdents_mem idents h1 h3 with h5 | ⟨h5, h6⟩
              · exact Or.inl h5
              · exact Or.inr ⟨h5, by simp [h6]⟩
            · exact Or.inr ⟨h3, List.mem_cons_of_mem _ h4⟩
    | heading _ _ _ => simp only [pass4Items] at h; exact ih h hd
    | ref _ _ => simp only [pass4Items] at h; exact ih h hd
    | contents _ => simp only [pass4Items] at h; exact ih h hd
    | other => simp only [pass4Items] at h; exact ih h hd

theorem pass4_mem {isSpace isWord : Char → Bool} (ps : List Page) :
    ∀ {db db' : Db} {outs : List (List (Option String))},
      pass4 isSpace isWord db ps = .ok (db', outs) →
      ∀ {k : Str} {d : LocalDef}, d ∈ db'.get k →
        d ∈ db.get k ∨ ∃ pl ∈ ps.zip outs, pl.1.slug = d.page ∧ some d.htmlId ∈ pl.2 := by
  induction ps with
  | nil =>
    intro db db' outs h k d hd
    simp only [pass4] at h; injection h with h; injection h with h1 h2; subst h1; exact Or.inl hd
  | cons p ps ih =>
    intro db db' outs h k d hd
    simp only [pass4] at h
    split at h
    · cases h
    · rename_i db1 out1 h1
      split at h
      · cases h
      · rename_i db2 outs2 h2
        injection h with h; injection h with ha hb; subst ha; subst hb
        rcases ih h2 hd with h3 | ⟨pl, hpl, h4⟩
        · unfold pass4Page at h1
          rcases pass4Items_mem _ h1 h3 with h5 | ⟨h5, h6⟩
          · exact Or.inl h5
          · exact Or.inr ⟨(p, out1), by simp, h5.symm, h6⟩
        · exact Or.inr ⟨pl, by simp [hpl], h4⟩

end SnootyVerif.Targets
