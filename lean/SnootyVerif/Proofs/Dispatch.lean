import SnootyVerif.Model.Dispatch
namespace SnootyVerif.Dispatch

/-- if no branch of the chain and not the else branch raises, then dispatch raises for NO class whatsoever -/
theorem firstMatch_ok (chain : List (List String × List String)) (elseOut mro : List String)
    (hc : chain.all (fun e => outcomeOk e.2) = true) (he : outcomeOk elseOut = true) :
    outcomeOk (firstMatch chain elseOut mro) = true := by
  induction chain with
  | nil => simpa [firstMatch] using he
  | cons e rest ih =>
    obtain ⟨cs, out⟩ := e
    simp only [List.all_cons, Bool.and_eq_true] at hc
    unfold firstMatch
    split
    · exact hc.1
    · exact ih hc.2

theorem allOk_spec (f : String → Option (List String)) (ks : List String) (h : allOk f ks = true) :
    ∀ k ∈ ks, ∃ out, f k = some out ∧ ∀ t ∈ out, isRaise t = false := by
  intro k hk
  have := (List.all_eq_true.mp h) k hk
  cases hf : f k with
  | none => simp [hf] at this
  | some out =>
    refine ⟨out, rfl, ?_⟩
    simp only [hf, outcomeOk, List.all_eq_true] at this
    intro t ht
    simpa using this t ht

end SnootyVerif.Dispatch
