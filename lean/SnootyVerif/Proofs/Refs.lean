import SnootyVerif.Model.Refs
import SnootyVerif.Proofs.Targets

namespace SnootyVerif.Refs
open SnootyVerif.Targets

theorem invResults_external (lower : Str → Str) (prefixes : Prefixes) (key : Str) (invs : List Inventory) :
    ∀ r ∈ invResults lower prefixes key invs, r.isInternal = false := by
  induction invs with
  | nil => intro r h; simp [invResults] at h
  | cons inv rest ih =>
    intro r h
    simp only [invResults] at h
    split at h
    · exact ih r h
    · rcases List.mem_cons.1 h with rfl | h
      · rfl
      · exact ih r h

/-- an internal result of a lookup is one of the local definitions stored under the normalised key -/
theorem lookup_internal {isSpace : Char → Bool} {lower : Str → Str} {prefixes : Prefixes} {db : Db}
    {invs : List Inventory} {key : Str} {r : Result}
    (h : r ∈ lookup isSpace lower prefixes db invs key) (hi : r.isInternal = true) :
    ∃ d ∈ db.get (normalize isSpace key), r = ofLocal d := by
  unfold lookup at h
  rcases List.mem_append.1 h with h | h
  · obtain ⟨d, hd, rfl⟩ := List.mem_map.1 h
    exact ⟨d, hd, rfl⟩
  · have := invResults_external _ _ _ _ r h
    rw [this] at hi; cases hi

theorem disambiguate_subset (root : String) (cands : List Result) :
    ∀ r ∈ disambiguate root cands, r ∈ cands := by
  intro r h
  unfold disambiguate at h
  split at h
  · rename_i l hl
    have : l ∈ cands.filter Result.isInternal := by rw [hl]; simp
    rw [List.mem_singleton.1 h]
    exact (List.mem_filter.1 this).1
  · split at h
    · rename_i c hc
      have : c ∈ (cands.filter Result.isInternal).filter (onPage root) := by rw [hc]; simp
      rw [List.mem_singleton.1 h]
      exact (List.mem_filter.1 (List.mem_filter.1 this).1).1
    · exact h

theorem disambiguate_ne_nil (root : String) (cands : List Result) (h : cands ≠ []) :
    disambiguate root cands ≠ [] := by
  unfold disambiguate
  split
  · simp
  · split
    · simp
    · exact h

/-- the single-local rule -/
theorem disambiguate_single_local {root : String} {cands : List Result} {l : Result}
    (h : cands.filter Result.isInternal = [l]) : disambiguate root cands = [l] := by
  unfold disambiguate; rw [h]

/-- the same-page rule -/
theorem disambiguate_same_page {root : String} {cands : List Result} {c : Result}
    (h1 : (cands.filter Result.isInternal).length ≠ 1)
    (h2 : (cands.filter Result.isInternal).filter (onPage root) = [c]) : disambiguate root cands = [c] := by
  unfold disambiguate
  split
  · rename_i l hl; rw [hl] at h1; simp at h1
  · rw [h2]

/-- neither rule applies: the candidate list is returned unchanged -/
theorem disambiguate_unchanged {root : String} {cands : List Result}
    (h1 : (cands.filter Result.isInternal).length ≠ 1)
    (h2 : ((cands.filter Result.isInternal).filter (onPage root)).length ≠ 1) : disambiguate root cands = cands := by
  unfold disambiguate
  split
  · rename_i l hl; rw [hl] at h1; simp at h1
  · split
    · rename_i c hc; rw [hc] at h2; simp at h2
    · rfl

theorem lastOf_mem : ∀ (l : List Result) (r : Result), lastOf l = some r → r ∈ l
  | [], r, h => by simp [lastOf] at h
  | [x], r, h => by simp [lastOf] at h; simp [h]
  | x :: y :: rest, r, h => by
    simp only [lastOf] at h
    exact List.mem_cons_of_mem _ (lastOf_mem (y :: rest) r h)

theorem lastOf_ne_none : ∀ (l : List Result), l ≠ [] → lastOf l ≠ none
  | [], h => absurd rfl h
  | [x], _ => by simp [lastOf]
  | x :: y :: rest, _ => by
    simp only [lastOf]
    exact lastOf_ne_none (y :: rest) (by simp)

theorem lastOf_singleton (r : Result) : lastOf [r] = some r := rfl

theorem inject_not_injectable (k t : Inls) (h : injectable k = false) : inject k t = k := by
  fun_induction inject k t <;> simp_all [injectable]

/-- the candidate list after the optional disambiguation step of `RefsHandler.enter_node` -/
def pruned (root : String) (cands : List Result) : List Result :=
  if cands.length > 1 then disambiguate root cands else cands

theorem pruned_subset (root : String) (cands : List Result) : ∀ r ∈ pruned root cands, r ∈ cands := by
  intro r h; unfold pruned at h
  split at h
  · exact disambiguate_subset _ _ r h
  · exact h

theorem pruned_ne_nil (root : String) (cands : List Result) (h : cands ≠ []) : pruned root cands ≠ [] := by
  unfold pruned; split
  · exact disambiguate_ne_nil _ _ h
  · exact h

def isAmbiguousDiag : Diag → Bool
  | .ambiguous .. => true
  | _ => false

def isNotFoundDiag : Diag → Bool
  | .notFound .. => true
  | _ => false

theorem mem_ite_singleton {c : Prop} [Decidable c] {a d : Diag} (h : d ∈ (if c then [a] else [])) : d = a := by
  split at h
  · exact List.mem_singleton.1 h
  · cases h

/-- characterisation of `resolveRef` when the key has candidates -/
theorem resolveRef_found {P : Params} {db : Db} {invs : List Inventory} {root : String} {r : Ref} {o : RefOut}
    (hdoc : ¬ (r.domain = stdS ∧ r.role = docS))
    (hne : lookup P.isSpace P.lower P.prefixes db invs (mkKey r.domain r.role r.target) ≠ [])
    (h : resolveRef P db invs root r = .ok o) :
    ∃ res, lastOf (pruned root (lookup P.isSpace P.lower P.prefixes db invs (mkKey r.domain r.role r.target))) = some res ∧
      o.target = res.canonical ∧ o.dest = res.dest ∧
      o.kids = (if injectable r.kids then
          inject r.kids (if r.flag.contains '~' then abbreviate P.isSpace res.title else res.title) else r.kids) ∧
      ((pruned root (lookup P.isSpace P.lower P.prefixes db invs (mkKey r.domain r.role r.target))).length > 1 →
        Diag.ambiguous r.role r.target
          ((pruned root (lookup P.isSpace P.lower P.prefixes db invs (mkKey r.domain r.role r.target))).map describe) ∈ o.diags) ∧
      ((pruned root (lookup P.isSpace P.lower P.prefixes db invs (mkKey r.domain r.role r.target))).length ≤ 1 →
        ∀ d ∈ o.diags, isAmbiguousDiag d = false) ∧
      (∀ d ∈ o.diags, isNotFoundDiag d = false) := by
  generalize hc : lookup P.isSpace P.lower P.prefixes db invs (mkKey r.domain r.role r.target) = cands at *
  unfold resolveRef at h
  simp only [hdoc, if_false, hc] at h
  have hemp : cands.isEmpty = false := by cases cands <;> simp_all
  simp only [hemp] at h
  change (match lastOf (pruned root cands) with | none => _ | some res => _) = _ at h
  split at h
  · cases h
  · rename_i res hres
    refine ⟨res, hres, ?_⟩
    by_cases hinj : injectable r.kids = true
    · simp only [hinj, if_true] at h
      injection h with h; subst h
      refine ⟨rfl, rfl, by simp [hinj], ?_, ?_, ?_⟩
      · intro hl; simp only [pruned] at hl ⊢; simp [hl]
      · intro hl d hd
        have hl' : ¬ (pruned root cands).length > 1 := by omega
        simp only [pruned] at hl'
        simp only [hl', if_false, List.nil_append] at hd
        rw [mem_ite_singleton hd]; rfl
      · intro d hd
        rcases List.mem_append.1 hd with hd | hd
        · rw [mem_ite_singleton hd]; rfl
        · rw [mem_ite_singleton hd]; rfl
    · simp only [hinj] at h
      injection h with h; subst h
      refine ⟨rfl, rfl, by simp [hinj], ?_, ?_, ?_⟩
      · intro hl; simp only [pruned] at hl ⊢; simp [hl]
      · intro hl d hd
        have hl' : ¬ (pruned root cands).length > 1 := by omega
        simp only [pruned] at hl'
        simp only [hl', if_false] at hd
        cases hd
      · intro d hd
        dsimp only at hd
        rw [mem_ite_singleton hd]; rfl


/-- `resolveRef` never takes its `IndexError` branch (`target_candidates[-1]` is applied to a non-empty list) -/
theorem resolveRef_total (P : Params) (db : Db) (invs : List Inventory) (root : String) (r : Ref) :
    ∃ o, resolveRef P db invs root r = .ok o := by
  by_cases hdoc : r.domain = stdS ∧ r.role = docS
  · exact ⟨_, by unfold resolveRef; rw [if_pos hdoc]⟩
  · generalize hc : lookup P.isSpace P.lower P.prefixes db invs (mkKey r.domain r.role r.target) = cands
    unfold resolveRef
    simp only [hdoc, if_false, hc]
    cases hcs : cands with
    | nil => exact ⟨_, rfl⟩
    | cons c cs =>
      simp only [List.isEmpty_cons, Bool.false_eq_true, if_false]
      have hnn := lastOf_ne_none _ (pruned_ne_nil root (c :: cs) (by simp))
      simp only [pruned] at hnn
      split
      · rename_i h; exact absurd h hnn
      · split <;> exact ⟨_, rfl⟩

theorem resolveRef_notfound {P : Params} {db : Db} {invs : List Inventory} {root : String} {r : Ref} {o : RefOut}
    (hdoc : ¬ (r.domain = stdS ∧ r.role = docS))
    (he : lookup P.isSpace P.lower P.prefixes db invs (mkKey r.domain r.role r.target) = [])
    (h : resolveRef P db invs root r = .ok o) :
    o.target = r.target ∧ o.dest = .none ∧ o.diags = [.notFound r.role r.target] := by
  unfold resolveRef at h
  simp only [hdoc, if_false, he, List.isEmpty_nil, if_true] at h
  injection h with h; subst h; exact ⟨rfl, rfl, rfl⟩

theorem dest_fileid_internal {res : Result} {s hid : String} (h : res.dest = .fileid s hid) :
    ∃ c t, res = .internal s hid c t := by
  cases res with
  | internal s' h' c t => simp only [Result.dest] at h; injection h with h1 h2; subst h1; subst h2; exact ⟨c, t, rfl⟩
  | external u c t => simp [Result.dest] at h

/-- an internal destination is a local definition stored under the reference's normalised key -/
theorem resolveRef_fileid {P : Params} {db : Db} {invs : List Inventory} {root : String} {r : Ref} {o : RefOut}
    {s hid : String} (h : resolveRef P db invs root r = .ok o) (hd : o.dest = .fileid s hid) :
    ∃ d ∈ db.get (normalize P.isSpace (mkKey r.domain r.role r.target)),
      d.page = s ∧ d.htmlId = hid ∧ d.canonical = o.target := by
  by_cases hdoc : r.domain = stdS ∧ r.role = docS
  · unfold resolveRef at h; rw [if_pos hdoc] at h; injection h with h; subst h; cases hd
  · by_cases he : lookup P.isSpace P.lower P.prefixes db invs (mkKey r.domain r.role r.target) = []
    · have := (resolveRef_notfound hdoc he h).2.1
      rw [this] at hd; cases hd
    · obtain ⟨res, hres, ht, hdst, _⟩ := resolveRef_found hdoc he h
      rw [hdst] at hd
      obtain ⟨c, t, rfl⟩ := dest_fileid_internal hd
      have hm := pruned_subset _ _ _ (lastOf_mem _ _ hres)
      obtain ⟨d, hdm, hdeq⟩ := lookup_internal hm rfl
      refine ⟨d, hdm, ?_⟩
      simp only [ofLocal] at hdeq
      injection hdeq with h1 h2 h3 h4
      exact ⟨h1.symm, h2.symm, by rw [ht]; exact h3.symm⟩

theorem pass5Items_mem {P : Params} {db : Db} {invs : List Inventory} {root : String} (items : List Item) :
    ∀ {os : List (String × Nat × RefOut)}, pass5Items P db invs root items = .ok os →
      ∀ x ∈ os, ∃ r, Item.ref x.1 r ∈ items ∧ x.2.1 = r.rid ∧ resolveRef P db invs root r = .ok x.2.2 := by
  induction items with
  | nil => intro os h x hx; simp only [pass5Items] at h; injection h with h; subst h; cases hx
  | cons it rest ih =>
    intro os h x hx
    cases it with
    | ref src r =>
      simp only [pass5Items] at h
      split at h
      · cases h
      · rename_i o ho
        split at h
        · cases h
        · rename_i os' hos
          injection h with h; subst h
          rcases List.mem_cons.1 hx with rfl | hx
          · exact ⟨r, by simp, rfl, ho⟩
          · obtain ⟨r', h1, h2⟩ := ih hos x hx
            exact ⟨r', List.mem_cons_of_mem _ h1, h2⟩
    | target _ _ _ => simp only [pass5Items] at h; obtain ⟨r', h1, h2⟩ := ih h x hx; exact ⟨r', List.mem_cons_of_mem _ h1, h2⟩
    | heading _ _ _ => simp only [pass5Items] at h; obtain ⟨r', h1, h2⟩ := ih h x hx; exact ⟨r', List.mem_cons_of_mem _ h1, h2⟩
    | contents _ => simp only [pass5Items] at h; obtain ⟨r', h1, h2⟩ := ih h x hx; exact ⟨r', List.mem_cons_of_mem _ h1, h2⟩
    | other => simp only [pass5Items] at h; obtain ⟨r', h1, h2⟩ := ih h x hx; exact ⟨r', List.mem_cons_of_mem _ h1, h2⟩

theorem pass5_mem {P : Params} {db : Db} {invs : List Inventory} (ps : List Page) :
    ∀ {oss : List (List (String × Nat × RefOut))}, pass5 P db invs ps = .ok oss →
      ∀ os ∈ oss, ∀ x ∈ os, ∃ p ∈ ps, ∃ r, Item.ref x.1 r ∈ p.items ∧ x.2.1 = r.rid ∧
        resolveRef P db invs p.slug r = .ok x.2.2 := by
  induction ps with
  | nil => intro oss h os hos; simp only [pass5] at h; injection h with h; subst h; cases hos
  | cons p ps ih =>
    intro oss h os hos x hx
    simp only [pass5] at h
    split at h
    · cases h
    · rename_i o ho
      split at h
      · cases h
      · rename_i os' hos'
        injection h with h; subst h
        rcases List.mem_cons.1 hos with rfl | hos
        · obtain ⟨r, h1, h2⟩ := pass5Items_mem _ ho x hx
          exact ⟨p, by simp, r, h1, h2⟩
        · obtain ⟨p', hp', r⟩ := ih hos' os hos x hx
          exact ⟨p', List.mem_cons_of_mem _ hp', r⟩

theorem titled_slugs : ∀ (pages : List Page) {ps : List Page}, titled pages = .ok ps →
    ps.map Page.slug = pages.map Page.slug
  | [], ps, h => by simp only [titled] at h; injection h with h; subst h; rfl
  | p :: rest, ps, h => by
    simp only [titled] at h
    split at h
    · cases h
    · split at h
      · cases h
      · rename_i ps' hps
        injection h with h; subst h
        simp [titled_slugs rest hps]

theorem pass3Docs_mem {isSpace isWord : Char → Bool} (ps : List Page) :
    ∀ {db db' : Db}, pass3Docs isSpace isWord db ps = .ok db' →
      ∀ {k : Str} {d : LocalDef}, d ∈ db'.get k → d ∈ db.get k ∨ d.page ∈ ps.map Page.slug := by
  induction ps with
  | nil => intro db db' h k d hd; simp only [pass3Docs] at h; injection h with h; subst h; exact Or.inl hd
  | cons p ps ih =>
    intro db db' h k d hd
    simp only [pass3Docs] at h
    split at h
    · rcases ih h hd with h1 | h1
      · exact Or.inl h1
      · exact Or.inr (by simp [h1])
    · split at h
      · cases h
      · rename_i db1 h1
        split at h
        · cases h
        · rename_i db2 h2
          rcases ih h hd with h3 | h3
          · rcases defineLocal_mem h2 h3 with h4 | ⟨h4, _⟩
            · rcases defineLocal_mem h1 h4 with h5 | ⟨h5, _⟩
              · exact Or.inl h5
              · exact Or.inr (by simp [h5])
            · exact Or.inr (by simp [h4])
          · exact Or.inr (by simp [h3])

/-! ### on-this-page list -/

theorem contentsAux_mem (reserved : List String) (items : List Item) :
    ∀ (issued : List String) (has : Bool) (cd : Option Int) (acc : List (Nat × String)),
      ∀ x ∈ (contentsAux reserved items issued has cd acc).2.2,
        x ∈ acc ∨ x.2 ∈ Ids.assignFrom reserved issued (headingBases items) := by
  induction items with
  | nil => intro issued has cd acc x hx; simp only [contentsAux] at hx; exact Or.inl hx
  | cons it rest ih =>
    intro issued has cd acc x hx
    cases it with
    | heading dp b t =>
      simp only [contentsAux] at hx
      simp only [headingBases, Ids.assignFrom]
      split at hx
      · rcases ih _ _ _ _ x hx with h | h
        · exact Or.inl h
        · exact Or.inr (List.mem_cons_of_mem _ h)
      · split at hx
        · rcases ih _ _ _ _ x hx with h | h
          · rcases List.mem_append.1 h with h | h
            · exact Or.inl h
            · refine Or.inr ?_
              rw [List.mem_singleton.1 h]; simp
          · exact Or.inr (List.mem_cons_of_mem _ h)
        · rcases ih _ _ _ _ x hx with h | h
          · exact Or.inl h
          · exact Or.inr (List.mem_cons_of_mem _ h)
    | contents d =>
      simp only [contentsAux] at hx
      simp only [headingBases]
      split at hx <;> exact ih _ _ _ _ x hx
    | target _ _ _ => simp only [contentsAux] at hx; simp only [headingBases]; exact ih _ _ _ _ x hx
    | ref _ _ => simp only [contentsAux] at hx; simp only [headingBases]; exact ih _ _ _ _ x hx
    | other => simp only [contentsAux] at hx; simp only [headingBases]; exact ih _ _ _ _ x hx

end SnootyVerif.Refs
