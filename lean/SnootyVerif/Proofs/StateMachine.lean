import SnootyVerif.Model.StateMachine
/-! Termination of the `run_sm` loop under the Progress contract: the potential `weight` drops on every iteration. -/
namespace SnootyVerif.StateMachine

theorem step_decreases {σ τ : Type} {m : Machine σ τ} {look : σ → Bool} (hP : Progress m look)
    (c c' : Cfg σ τ) (h : step m c = some c') : weight m look c' < weight m look c := by
  unfold step at h
  split at h
  · cases h
  · rename_i hge
    have hlt : c.next < m.n := by omega
    generalize hck : m.check c.state c.forced c.next = r at h
    cases r with
    | advance off s' =>
      simp only [Option.some.injEq] at h
      subst h
      have h1 := hP.adv_mono _ _ _ _ _ hlt hck
      cases hf : c.forced with
      | none =>
        simp only [weight, hf]
        split <;> split <;> omega
      | some t =>
        rw [hf] at hck
        have h2 := hP.adv_forced _ _ _ _ _ hlt hck
        simp only [weight, hf, h2]
        simp
        omega
    | transCorr off t =>
      simp only [Option.some.injEq] at h
      subst h
      cases hf : c.forced with
      | none =>
        rw [hf] at hck
        have h1 := hP.trans_same _ _ _ _ hlt hck
        subst h1
        simp only [weight, hf]
        split <;> omega
      | some t' =>
        rw [hf] at hck
        exact absurd hck ((hP.forced_settles _ _ _ hlt).1 _ _)
    | stateCorr off s' t =>
      simp only [Option.some.injEq] at h
      subst h
      cases hf : c.forced with
      | none =>
        rw [hf] at hck
        obtain ⟨hl, _, ht, h1, h2⟩ := hP.state_corr _ _ _ _ _ hlt hck
        cases t with
        | none => simp at ht
        | some t =>
          simp only [weight, hf, hl]
          simp
          omega
      | some t' =>
        rw [hf] at hck
        exact absurd hck ((hP.forced_settles _ _ _ hlt).2 _ _ _)
    | eof => cases h

theorem run_finishes {σ τ : Type} {m : Machine σ τ} {look : σ → Bool} (hP : Progress m look) :
    ∀ (fuel : Nat) (c : Cfg σ τ), weight m look c < fuel →
      (run m fuel c).2 = true ∧ (run m fuel c).1 ≤ weight m look c + 1 := by
  intro fuel
  induction fuel with
  | zero => intro c h; omega
  | succ k ih =>
    intro c h
    unfold run
    cases hs : step m c with
    | none => simp
    | some c' =>
      have hd := step_decreases hP c c' hs
      have := ih c' (by omega)
      simp only
      constructor
      · exact this.1
      · omega

end SnootyVerif.StateMachine
