import SnootyVerif.Model.Subst

namespace SnootyVerif.Subst

/-! ## tables (Python dict semantics) -/

theorem tget_tset_same (t : Table) (k : String) (v : Body) : tget (tset t k v) k = some v := by
  induction t with
  | nil => simp [tset, tget]
  | cons p t ih =>
    obtain ⟨k', v'⟩ := p
    simp only [tset]
    by_cases h : (k' == k) = true
    · simp [h, tget]
    · have h' : (k' == k) = false := by simpa using h
      simp only [h', Bool.false_eq_true, if_false]
      unfold tget at ih ⊢
      simp [List.find?_cons, h', ih]

theorem tget_tset_other (t : Table) (k k' : String) (v : Body) (hne : k ≠ k') :
    tget (tset t k v) k' = tget t k' := by
  induction t with
  | nil =>
    have : (k == k') = false := by simpa using hne
    simp [tset, tget, this]
  | cons p t ih =>
    obtain ⟨k0, v0⟩ := p
    simp only [tset]
    by_cases h : (k0 == k) = true
    · have hk : k0 = k := by simpa using h
      have : (k0 == k') = false := by simpa [hk] using hne
      simp [h, tget, List.find?_cons, this]
    · have h' : (k0 == k) = false := by simpa using h
      simp only [h', Bool.false_eq_true, if_false]
      unfold tget at ih ⊢
      by_cases h2 : (k0 == k') = true
      · simp [List.find?_cons, h2]
      · have h2' : (k0 == k') = false := by simpa using h2
        simp [List.find?_cons, h2', ih]

/-! ## static expansion -/

theorem sroom_le (env : Table) (path : List String) (t : String) :
    sroom env (t :: path) ≤ sroom env path := by
  induction env with
  | nil => simp [sroom]
  | cons p ps ih =>
    simp only [sroom, List.contains_cons]
    cases h1 : path.contains p.1 <;> cases h2 : (p.1 == t) <;> simp <;> omega

theorem sroom_lt (env : Table) (path : List String) (t : String) (body : Body)
    (hl : tget env t = some body) (hs : path.contains t = false) :
    sroom env (t :: path) < sroom env path := by
  unfold tget at hl
  induction env with
  | nil => simp at hl
  | cons p ps ih =>
    simp only [List.find?_cons] at hl
    have hle := sroom_le ps path t
    simp only [sroom, List.contains_cons]
    cases hp : (p.1 == t)
    · simp only [hp] at hl
      have := ih hl
      cases h1 : path.contains p.1 <;> simp <;> omega
    · have hpt : p.1 = t := by simpa using hp
      rw [hpt, hs]
      simp
      omega

theorem expandLevel_isSome (env : Table) (rec : SRec) (path : List String)
    (hrec : ∀ t body, tget env t = some body → path.contains t = false → (rec (t :: path) body).isSome) :
    ∀ items : List Item, (expandLevel env rec path items).isSome := by
  intro items
  induction items with
  | nil => simp [expandLevel]
  | cons it rest ih =>
    cases it with
    | txt s =>
      simp only [expandLevel]
      split
      · simp_all
      · simp
    | ref name line pend cs =>
      simp only [expandLevel]
      split
      · split
        · simp_all
        · simp
      · rename_i hc
        split
        · split
          · simp_all
          · simp
        · rename_i body hb
          have := hrec name body hb (by simpa using hc)
          split
          · simp_all
          · split
            · simp_all
            · simp

theorem expandStatic_isSome (env : Table) : ∀ (fuel : Nat) (path : List String) (items : List Item),
    sroom env path < fuel → (expandStatic env fuel path items).isSome
  | 0, _, _, h => by omega
  | fuel + 1, path, items, h => by
    simp only [expandStatic]
    apply expandLevel_isSome
    intro t b hl hs
    apply expandStatic_isSome env fuel
    have := sroom_lt env path t b hl hs
    omega

/-! ## walking plain text -/

def allTxt : List Item → Bool
  | [] => true
  | .txt _ :: rest => allTxt rest
  | .ref _ _ _ _ :: _ => false

theorem walk_txt (proj : Table) (fuel : Nat) (st : St) (items : List Item) (h : allTxt items = true) :
    walkItems proj fuel st items = some (st, items) := by
  induction items with
  | nil => cases fuel <;> simp [walkItems]
  | cons it rest ih =>
    cases it with
    | txt s =>
      have := ih (by simpa [allTxt] using h)
      cases fuel <;> simp [walkItems, this]
    | ref _ _ _ _ => simp [allTxt] at h

/-! ## constants -/

def nlCount (s : List Char) : Nat := s.count '\n'

theorem takeWhile_dropWhile (p : Char → Bool) (l : List Char) : l.takeWhile p ++ l.dropWhile p = l :=
  List.takeWhile_append_dropWhile

theorem matchVar_shape (isWord : Char → Bool) (hnl : isWord '\n' = false) (s name rest : List Char)
    (h : matchVar isWord s = some (name, rest)) :
    nlCount s = nlCount rest ∧ rest.length < s.length := by
  unfold matchVar at h
  split at h
  · rename_i t
    dsimp only at h
    split at h
    · rename_i c cs rest' hname hdrop
      simp only [Option.some.injEq, Prod.mk.injEq] at h
      obtain ⟨h1, h2⟩ := h
      subst h2
      have hsplit := takeWhile_dropWhile (isVarChar isWord) t
      rw [hdrop] at hsplit
      have hno : nlCount (t.takeWhile (isVarChar isWord)) = 0 := by
        unfold nlCount
        apply List.count_eq_zero.2
        intro hm
        have hall : (t.takeWhile (isVarChar isWord)).all (isVarChar isWord) = true := List.all_takeWhile
        have := List.all_eq_true.1 hall _ hm
        simp [isVarChar, hnl] at this
      constructor
      · have : nlCount t = nlCount (t.takeWhile (isVarChar isWord)) + nlCount ('+' :: '}' :: rest') := by
          unfold nlCount
          rw [← List.count_append, hsplit]
        unfold nlCount at this hno ⊢
        simp only [List.count_cons] at this ⊢
        simp at this ⊢
        omega
      · have : t.length = (t.takeWhile (isVarChar isWord)).length + (rest'.length + 2) := by
          conv => lhs; rw [← hsplit]
          simp
        simp only [List.length_cons]
        omega
    · cases h
  · cases h

end SnootyVerif.Subst

namespace SnootyVerif.Subst

theorem substConsts_nl (isWord : Char → Bool) (hnl : isWord '\n' = false)
    (consts : List (List Char × List Char)) (hc : ∀ p ∈ consts, nlCount p.2 = 0) :
    ∀ (fuel line : Nat) (s : List Char), s.length ≤ fuel →
      nlCount (substConsts isWord consts fuel line s).1 = nlCount s := by
  intro fuel
  induction fuel with
  | zero =>
    intro line s h
    have : s = [] := List.eq_nil_of_length_eq_zero (by omega)
    simp [this, substConsts]
  | succ f ih =>
    intro line s h
    cases s with
    | nil => simp [substConsts]
    | cons c t =>
      simp only [substConsts]
      split
      · rename_i name rest hm
        have hs := matchVar_shape isWord hnl _ _ _ hm
        have ihr := ih line rest (by simp only [List.length_cons] at h hs; omega)
        split
        · rename_i k v hf
          have hv := hc _ (List.mem_of_find?_eq_some hf)
          simp only at hv
          unfold nlCount at *
          simp only [List.count_append]
          omega
        · unfold nlCount at *
          rw [List.count_cons]
          simp
          omega
      · have iht := ih (if c == '\n' then line + 1 else line) t (by simp only [List.length_cons] at h; omega)
        unfold nlCount at *
        simp only [List.count_cons]
        omega

theorem matchVar_none_of_head (isWord : Char → Bool) (c : Char) (t : List Char) (h : c ≠ '{') :
    matchVar isWord (c :: t) = none := by
  unfold matchVar
  split
  · rename_i heq; simp at heq; exact absurd heq.1 h
  · rfl

theorem matchVar_placeholder (isWord : Char → Bool) (hplus : isWord '+' = false)
    (name post : List Char) (hne : name ≠ []) (hname : ∀ c ∈ name, isVarChar isWord c = true) :
    matchVar isWord ('{' :: '+' :: (name ++ '+' :: '}' :: post)) = some (name, post) := by
  have hstop : isVarChar isWord '+' = false := by simp [isVarChar, hplus]
  have htw : (name ++ '+' :: '}' :: post).takeWhile (isVarChar isWord) = name := by
    induction name with
    | nil => simp [List.takeWhile, hstop]
    | cons a as ih =>
      have ha := hname a List.mem_cons_self
      simp only [List.cons_append, List.takeWhile_cons, ha, if_true]
      by_cases has : as = []
      · subst has; simp [List.takeWhile, hstop]
      · rw [ih has (fun c hc => hname c (List.mem_cons_of_mem _ hc))]
  have hdw : (name ++ '+' :: '}' :: post).dropWhile (isVarChar isWord) = '+' :: '}' :: post := by
    have := takeWhile_dropWhile (isVarChar isWord) (name ++ '+' :: '}' :: post)
    rw [htw] at this
    exact List.append_cancel_left this
  unfold matchVar
  simp only [htw, hdw]
  cases name with
  | nil => exact absurd rfl hne
  | cons a as => rfl

end SnootyVerif.Subst
