import SnootyVerif.Model.Include

namespace SnootyVerif.Include

/-! ## cut -/

theorem lastIdxFrom_none : ∀ (fl : List Bool) (d i : Nat), fl.any id = false → lastIdxFrom d i fl = d := by
  intro fl
  induction fl with
  | nil => intros; rfl
  | cons f fs ih =>
    intro d i h
    simp only [List.any_cons, Bool.or_eq_false_iff, id] at h
    simp only [lastIdxFrom, h.1]
    exact ih _ _ h.2

/-- the index is either the default or a position of a `true` flag inside the scanned range -/
theorem lastIdxFrom_range : ∀ (fl : List Bool) (d i : Nat), lastIdxFrom d i fl = d ∨
    (fl.any id = true ∧ i ≤ lastIdxFrom d i fl ∧ lastIdxFrom d i fl < i + fl.length) := by
  intro fl
  induction fl with
  | nil => intros; left; rfl
  | cons f fs ih =>
    intro d i
    simp only [lastIdxFrom, List.length_cons, List.any_cons, id]
    cases f
    · rcases ih d (i + 1) with h | ⟨h1, h2, h3⟩
      · left; simpa using h
      · right; refine ⟨by simpa using h1, ?_, ?_⟩ <;> simp at h2 h3 ⊢ <;> omega
    · right
      rcases ih i (i + 1) with h | ⟨_, h2, h3⟩
      · simp only [if_true, Bool.true_or, true_and]; rw [h]; omega
      · simp only [if_true, Bool.true_or, true_and]; omega

theorem finish_ok_eq (rs : List R) (v : List T × Bool × Bool) (h : finish rs = .ok v) :
    v = (slice (rs.map (·.1)) (lastIdx (rs.map (·.2.1)) 0) (lastIdx (rs.map (·.2.2)) rs.length + 1),
         rs.any (·.2.1), rs.any (·.2.2)) := by
  unfold finish at h
  simp only at h
  split at h
  · cases h
  · cases h; rfl

theorem finish_ok_of_flags (rs : List R) (h1 : rs.any (·.2.1) = false) (h2 : rs.any (·.2.2) = false) :
    finish rs = .ok (rs.map (·.1), false, false) := by
  have a1 : (rs.map (·.2.1)).any id = false := by simpa [List.any_map] using h1
  have a2 : (rs.map (·.2.2)).any id = false := by simpa [List.any_map] using h2
  unfold finish lastIdx
  simp only [lastIdxFrom_none _ _ _ a1, lastIdxFrom_none _ _ _ a2, h1, h2]
  have : slice (rs.map (·.1)) 0 (rs.length + 1) = rs.map (·.1) := by
    simp only [slice, List.drop_zero, Nat.sub_zero]
    apply List.take_of_length_le
    simp
  simp [this]

/-- `finish` can only raise when both a start and an end flag are present -/
theorem finish_error (rs : List R) (m : String) (h : finish rs = .error m) :
    (rs.any (·.2.1) = true ∧ rs.any (·.2.2) = true) ∧ m = "start-after text should precede end-before text" := by
  unfold finish at h
  simp only at h
  split at h
  · rename_i hgt
    cases h
    refine ⟨?_, rfl⟩
    have a1 := lastIdxFrom_range (rs.map (·.2.1)) 0 0
    have a2 := lastIdxFrom_range (rs.map (·.2.2)) rs.length 0
    simp only [lastIdx] at hgt
    rcases a1 with a1 | ⟨s1, _, s3⟩
    · omega
    · rcases a2 with a2 | ⟨e1, _, _⟩
      · simp at s3; omega
      · exact ⟨by simpa [List.any_map] using s1, by simpa [List.any_map] using e1⟩
  · cases h

mutual
theorem cutNode_flags : ∀ (t : T) (r : R), cutNode t = .ok r → r.2.1 = hasS t ∧ r.2.2 = hasE t
  | .node tg cs, r, h => by
    simp only [cutNode] at h
    split at h
    · cases h
    · rename_i rs hrs
      have ih := cutEach_flags cs rs hrs
      split at h
      · cases h
      · rename_i v hv
        have := finish_ok_eq rs v hv
        cases h
        subst this
        simp [hasS, hasE, ih.1, ih.2]
theorem cutEach_flags : ∀ (ns : List T) (rs : List R), cutEach ns = .ok rs →
    rs.any (·.2.1) = hasSL ns ∧ rs.any (·.2.2) = hasEL ns
  | [], rs, h => by
    simp only [cutEach, Except.ok.injEq] at h
    subst h; simp [hasSL, hasEL]
  | n :: ns, rs, h => by
    simp only [cutEach] at h
    split at h
    · cases h
    · rename_i r hr
      split at h
      · cases h
      · rename_i rs' hrs'
        cases h
        have h1 := cutNode_flags n r hr
        have h2 := cutEach_flags ns rs' hrs'
        simp [hasSL, hasEL, h1.1, h1.2, h2.1, h2.2]
end

theorem slice_sublist (xs : List α) (a b : Nat) : (slice xs a b).Sublist xs :=
  (List.take_sublist _ _).trans (List.drop_sublist _ _)

theorem flatL_sublist_of_sublist {xs ys : List T} (h : xs.Sublist ys) : (flatL xs).Sublist (flatL ys) := by
  induction h with
  | slnil => exact List.Sublist.refl _
  | cons a _ ih => simp only [flatL]; exact ih.trans (List.sublist_append_right _ _)
  | cons_cons a _ ih => simp only [flatL]; exact List.Sublist.append (List.Sublist.refl _) ih

mutual
theorem cutNode_sublist : ∀ (t : T) (r : R), cutNode t = .ok r → (flat r.1).Sublist (flat t)
  | .node tg cs, r, h => by
    simp only [cutNode] at h
    split at h
    · cases h
    · rename_i rs hrs
      have ih := cutEach_sublist cs rs hrs
      split at h
      · cases h
      · rename_i v hv
        have := finish_ok_eq rs v hv
        cases h
        subst this
        simp only [flat]
        exact List.Sublist.cons_cons _ ((flatL_sublist_of_sublist (slice_sublist _ _ _)).trans ih)
theorem cutEach_sublist : ∀ (ns : List T) (rs : List R), cutEach ns = .ok rs →
    (flatL (rs.map (·.1))).Sublist (flatL ns)
  | [], rs, h => by
    simp only [cutEach, Except.ok.injEq] at h
    subst h; simp [flatL]
  | n :: ns, rs, h => by
    simp only [cutEach] at h
    split at h
    · cases h
    · rename_i r hr
      split at h
      · cases h
      · rename_i rs' hrs'
        cases h
        simp only [List.map_cons, flatL]
        exact List.Sublist.append (cutNode_sublist n r hr) (cutEach_sublist ns rs' hrs')
end

mutual
theorem cutNode_none : ∀ (t : T), hasS t = false → hasE t = false → cutNode t = .ok (t, false, false)
  | .node tg cs, h1, h2 => by
    simp only [hasS, hasE, Bool.or_eq_false_iff] at h1 h2
    have ih := cutEach_none cs h1.2 h2.2
    simp only [cutNode, ih]
    rw [finish_ok_of_flags]
    · simp [h1.1, h2.1, List.map_map, Function.comp_def]
    · simp [List.any_map, Function.comp_def]
    · simp [List.any_map, Function.comp_def]
theorem cutEach_none : ∀ (ns : List T), hasSL ns = false → hasEL ns = false →
    cutEach ns = .ok (ns.map (fun t => (t, false, false)))
  | [], _, _ => by simp [cutEach]
  | n :: ns, h1, h2 => by
    simp only [hasSL, hasEL, Bool.or_eq_false_iff] at h1 h2
    simp [cutEach, cutNode_none n h1.1 h2.1, cutEach_none ns h1.2 h2.2]
end

mutual
theorem cutNode_error : ∀ (t : T) (m : String), cutNode t = .error m →
    (hasS t = true ∧ hasE t = true) ∧ m = "start-after text should precede end-before text"
  | .node tg cs, m, h => by
    simp only [cutNode] at h
    split at h
    · rename_i e he
      cases h
      have := cutEach_error cs _ he
      simp [hasS, hasE, this.1.1, this.1.2, this.2]
    · rename_i rs hrs
      have fl := cutEach_flags cs rs hrs
      split at h
      · rename_i e he
        cases h
        have := finish_error rs _ he
        simp [hasS, hasE, ← fl.1, ← fl.2, this.1.1, this.1.2, this.2]
      · cases h
theorem cutEach_error : ∀ (ns : List T) (m : String), cutEach ns = .error m →
    (hasSL ns = true ∧ hasEL ns = true) ∧ m = "start-after text should precede end-before text"
  | [], m, h => by simp [cutEach] at h
  | n :: ns, m, h => by
    simp only [cutEach] at h
    split at h
    · rename_i e he
      cases h
      have := cutNode_error n _ he
      simp [hasSL, hasEL, this.1.1, this.1.2, this.2]
    · split at h
      · rename_i e he
        cases h
        have := cutEach_error ns _ he
        simp [hasSL, hasEL, this.1.1, this.1.2, this.2]
      · cases h
end

/-! ## expansion -/

theorem room_le (pages : Pages) (stack : List String) (t : String) :
    room pages (t :: stack) ≤ room pages stack := by
  induction pages with
  | nil => simp [room]
  | cons p ps ih =>
    simp only [room, List.contains_cons]
    cases h1 : stack.contains p.1 <;> cases h2 : (p.1 == t) <;> simp <;> omega

theorem room_lt (pages : Pages) (stack : List String) (t : String) (body : List Doc)
    (hl : lookup pages t = some body) (hs : stack.contains t = false) :
    room pages (t :: stack) < room pages stack := by
  unfold lookup at hl
  induction pages with
  | nil => simp at hl
  | cons p ps ih =>
    simp only [List.find?_cons] at hl
    have hle := room_le ps stack t
    simp only [room, List.contains_cons]
    cases hp : (p.1 == t)
    · simp only [hp] at hl
      have := ih hl
      cases h1 : stack.contains p.1 <;> simp <;> omega
    · have hpt : p.1 = t := by simpa using hp
      rw [hpt, hs]
      simp
      omega

mutual
theorem expandIn_isSome (pages : Pages) (rec : Rec) (stack : List String)
    (hrec : ∀ t body, lookup pages t = some body → stack.contains t = false → (rec (t :: stack) body).isSome) :
    ∀ d : Doc, (expandIn pages rec stack d).isSome
  | .node id cs => by
    have := expandInL_isSome pages rec stack hrec cs
    simp only [expandIn]
    split
    · simp_all
    · simp
  | .inc id target => by
    simp only [expandIn]
    split
    · simp
    · rename_i body hb
      split
      · simp
      · rename_i hc
        have := hrec target body hb (by simpa using hc)
        split
        · simp_all
        · simp
theorem expandInL_isSome (pages : Pages) (rec : Rec) (stack : List String)
    (hrec : ∀ t body, lookup pages t = some body → stack.contains t = false → (rec (t :: stack) body).isSome) :
    ∀ ds : List Doc, (expandInL pages rec stack ds).isSome
  | [] => by simp [expandInL]
  | d :: ds => by
    have h1 := expandIn_isSome pages rec stack hrec d
    have h2 := expandInL_isSome pages rec stack hrec ds
    simp only [expandInL]
    split
    · simp_all
    · split
      · simp_all
      · simp
end

theorem expandFuel_isSome (pages : Pages) : ∀ (fuel : Nat) (stack : List String) (body : List Doc),
    room pages stack < fuel → (expandFuel pages fuel stack body).isSome
  | 0, _, _, h => by omega
  | fuel + 1, stack, body, h => by
    simp only [expandFuel]
    apply expandInL_isSome
    intro t b hl hs
    apply expandFuel_isSome pages fuel
    have := room_lt pages stack t b hl hs
    omega

end SnootyVerif.Include
