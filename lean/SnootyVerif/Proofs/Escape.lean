import SnootyVerif.Model.Escape
/-! helper lemmas for `Model/Escape.lean` -/
namespace SnootyVerif.Escape

theorem escape2null_length_aux : ∀ (n : Nat) (t : Str), t.length ≤ n → (escape2null t).length = t.length := by
  intro n
  induction n with
  | zero => intro t h; cases t with
    | nil => rfl
    | cons _ _ => simp at h
  | succ n ih =>
    intro t h
    match t with
    | [] => rfl
    | [c] => simp only [escape2null]; split <;> rfl
    | c :: d :: cs =>
      simp only [escape2null]
      split
      · simp only [List.length_cons] at h ⊢
        rw [ih cs (by omega)]
      · simp only [List.length_cons] at h ⊢
        have := ih (d :: cs) (by simp only [List.length_cons]; omega)
        simp only [List.length_cons] at this
        omega

theorem escape2null_noBackslash : ∀ (t : Str), '\\' ∉ t → escape2null t = t
  | [], _ => rfl
  | [c], h => by
    have : c ≠ '\\' := fun e => h (by simp [e])
    simp [escape2null, this]
  | c :: d :: cs, h => by
    have hc : c ≠ '\\' := fun e => h (by simp [e])
    have ht : '\\' ∉ d :: cs := fun m => h (List.mem_cons_of_mem _ m)
    simp only [escape2null, hc, if_false]
    rw [escape2null_noBackslash (d :: cs) ht]

theorem remove2_noA (a b : Char) : ∀ (t : Str), a ∉ t → remove2 a b t = t
  | [], _ => rfl
  | [c], _ => rfl
  | c :: d :: cs, h => by
    have hc : c ≠ a := fun e => h (by simp [e])
    have ht : a ∉ d :: cs := fun m => h (List.mem_cons_of_mem _ m)
    simp only [remove2, hc, false_and, if_false]
    rw [remove2_noA a b (d :: cs) ht]

theorem dropBefore_noA (a b : Char) : ∀ (t : Str), a ∉ t → dropBefore a b t = t
  | [], _ => rfl
  | [c], _ => rfl
  | c :: d :: cs, h => by
    have hc : c ≠ a := fun e => h (by simp [e])
    have ht : a ∉ d :: cs := fun m => h (List.mem_cons_of_mem _ m)
    simp only [dropBefore, hc, false_and, if_false]
    rw [dropBefore_noA a b (d :: cs) ht]

theorem remove1_noA (a : Char) (t : Str) (h : a ∉ t) : remove1 a t = t := by
  unfold remove1
  rw [List.filter_eq_self]
  intro c hc
  have : c ≠ a := fun e => h (e ▸ hc)
  simp [this]

theorem replace1_noA (a r : Char) (t : Str) (h : a ∉ t) : replace1 a r t = t := by
  unfold replace1
  induction t with
  | nil => rfl
  | cons c cs ih =>
    have hc : c ≠ a := fun e => h (by simp [e])
    have ht : a ∉ cs := fun m => h (List.mem_cons_of_mem _ m)
    simp [hc, ih ht]

theorem unescapeBackslashes_noNUL (t : Str) (h : NUL ∉ t) : unescapeBackslashes t = t := by
  unfold unescapeBackslashes
  rw [dropBefore_noA _ _ t h, dropBefore_noA _ _ t h, dropBefore_noA _ _ t h, replace1_noA _ _ t h]

/-- restoring mode is the inverse of `escape2null` on NUL-free text -/
theorem restore_escape2null : ∀ (t : Str), NUL ∉ t → replace1 NUL '\\' (escape2null t) = t
  | [], _ => rfl
  | [c], h => by
    have hc : c ≠ NUL := fun e => h (by simp [e])
    simp only [escape2null]
    split
    · next e => simp [replace1, e]
    · simp [replace1, hc]
  | c :: d :: cs, h => by
    have hc : c ≠ NUL := fun e => h (by simp [e])
    have hd : d ≠ NUL := fun e => h (by simp [e])
    have ht : NUL ∉ d :: cs := fun m => h (List.mem_cons_of_mem _ m)
    have hcs : NUL ∉ cs := fun m => ht (List.mem_cons_of_mem _ m)
    simp only [escape2null]
    split
    · next e =>
      have ih := restore_escape2null cs hcs
      simp only [replace1] at ih ⊢
      simp [hd, ih, e]
    · have ih := restore_escape2null (d :: cs) ht
      simp only [replace1] at ih ⊢
      simp only [List.map_cons, hc, if_false, ih]

theorem findLt_label (label target : Str) (h : '<' ∉ label) :
    ∀ p, findLt p (label ++ ' ' :: '<' :: target) = some (label.length + 1) := by
  induction label with
  | nil => intro p; simp [findLt, NUL]
  | cons c cs ih =>
    intro p
    have hc : c ≠ '<' := fun e => h (by simp [e])
    have ht : '<' ∉ cs := fun m => h (List.mem_cons_of_mem _ m)
    simp only [List.cons_append, findLt, hc, false_and, if_false, ih ht, Option.map_some, List.length_cons]

theorem rstrip_append_space (isSpace : Char → Bool) (label : Str) (hsp : isSpace ' ' = true)
    (hl : ∀ c, label.getLast? = some c → isSpace c = false) :
    rstrip isSpace (label ++ [' ']) = label := by
  unfold rstrip
  rw [List.reverse_append]
  simp only [List.reverse_cons, List.reverse_nil, List.nil_append, List.singleton_append,
    List.dropWhile_cons, hsp, if_true]
  cases hr : label.reverse with
  | nil =>
    have : label = [] := by simpa using hr
    simp [this]
  | cons c cs =>
    have hlast : label.getLast? = some c := by
      rw [List.getLast?_eq_head?_reverse, hr]; rfl
    simp only [List.dropWhile_cons, hl c hlast]
    rw [← hr]; simp

end SnootyVerif.Escape
