import SnootyVerif.Model.Indent
/-! helper lemmas for `Model/Indent.lean` -/
namespace SnootyVerif.Indent

/-! ## the scanning loop -/

theorem scan_n_le (isSpace : Char → Bool) (ub : Bool) (bi : Option Nat) :
    ∀ (rest : List Line) (prev : Option Line) (ind : Option Nat),
      (scan isSpace ub bi prev ind rest).n ≤ rest.length := by
  intro rest
  induction rest with
  | nil => intro prev ind; simp [scan]
  | cons l ls ih =>
    intro prev ind
    simp only [scan]
    split
    · simp
    · split
      · split
        · simp
        · simp only [List.length_cons]; exact Nat.succ_le_succ (ih _ _)
      · simp only [List.length_cons]; exact Nat.succ_le_succ (ih _ _)

/-- every line the loop advanced over is indented (or empty) and, with `until_blank`, not blank -/
theorem scan_taken (isSpace : Char → Bool) (ub : Bool) (bi : Option Nat) :
    ∀ (rest : List Line) (prev : Option Line) (ind : Option Nat),
      ∀ l ∈ rest.take (scan isSpace ub bi prev ind rest).n,
        unindented isSpace bi l = false ∧ (ub = true → isBlank isSpace l = false) := by
  intro rest
  induction rest with
  | nil => intro prev ind l hl; simp at hl
  | cons x xs ih =>
    intro prev ind l hl
    simp only [scan] at hl
    split at hl
    · simp at hl
    · next hu =>
      split at hl
      · next hb =>
        split at hl
        · simp at hl
        · next hub =>
          simp only [List.take_succ_cons, List.mem_cons] at hl
          rcases hl with rfl | hl
          · exact ⟨by simpa using hu, fun h => absurd h hub⟩
          · exact ih _ _ l hl
      · next hb =>
        simp only [List.take_succ_cons, List.mem_cons] at hl
        rcases hl with rfl | hl
        · exact ⟨by simpa using hu, fun _ => by simpa using hb⟩
        · exact ih _ _ l hl

/-- the loop stops before the end only on an unindented line or (with `until_blank`) a blank one -/
theorem scan_stop (isSpace : Char → Bool) (ub : Bool) (bi : Option Nat) :
    ∀ (rest : List Line) (prev : Option Line) (ind : Option Nat)
      (h : (scan isSpace ub bi prev ind rest).n < rest.length),
      unindented isSpace bi (rest[(scan isSpace ub bi prev ind rest).n]'h) = true ∨
        (ub = true ∧ isBlank isSpace (rest[(scan isSpace ub bi prev ind rest).n]'h) = true) := by
  intro rest
  induction rest with
  | nil => intro prev ind h; simp at h
  | cons x xs ih =>
    intro prev ind h
    simp only [scan] at h ⊢
    split
    · next hu => left; simpa using hu
    · next hu =>
      split
      · next hb =>
        split
        · next hub => right; exact ⟨hub, by simpa using hb⟩
        · next hub =>
          simp only [List.getElem_cons_succ]
          have h' : (scan isSpace ub bi (some x) ind xs).n < xs.length := by
            have hub' : ub = false := by simpa using hub
            subst hub'
            have h2 := h
            simp only [hu, hb] at h2
            simpa using h2
          exact ih _ _ h'
      · next hb =>
        simp only [List.getElem_cons_succ]
        have h' : (scan isSpace ub bi (some x)
            (if bi.isNone then minOpt ind (indentOf isSpace x) else ind) xs).n < xs.length := by
          have h2 := h
          simp only [hu, hb] at h2
          simpa using h2
        exact ih _ _ h'

theorem scan_eof (isSpace : Char → Bool) (ub : Bool) (bi : Option Nat) :
    ∀ (rest : List Line) (prev : Option Line) (ind : Option Nat),
      (scan isSpace ub bi prev ind rest).n = rest.length →
      (scan isSpace ub bi prev ind rest).blankFinish = true := by
  intro rest
  induction rest with
  | nil => intro prev ind _; simp [scan]
  | cons x xs ih =>
    intro prev ind h
    simp only [scan] at h ⊢
    split
    · next hu => simp [hu] at h
    · next hu =>
      split
      · next hb =>
        split
        · rfl
        · next hub =>
          have hub' : ub = false := by simpa using hub
          subst hub'
          simp only [hu, hb] at h
          exact ih _ _ (by simpa using h)
      · next hb =>
        simp only [hu, hb] at h
        exact ih _ _ (by simpa using h)

/-- with a known block indent the indent is never recomputed -/
theorem scan_indent_block (isSpace : Char → Bool) (ub : Bool) (b : Nat) :
    ∀ (rest : List Line) (prev : Option Line) (ind : Option Nat),
      (scan isSpace ub (some b) prev ind rest).indent = ind := by
  intro rest
  induction rest with
  | nil => intro prev ind; simp [scan]
  | cons x xs ih =>
    intro prev ind
    simp only [scan]
    split
    · rfl
    · split
      · split
        · rfl
        · exact ih _ _
      · simp only [Option.isNone_some]; exact ih _ _

/-- running minimum over the non-blank lines -/
def minIndent (isSpace : Char → Bool) : Option Nat → List Line → Option Nat
  | ind, [] => ind
  | ind, l :: ls =>
    if isBlank isSpace l then minIndent isSpace ind ls
    else minIndent isSpace (minOpt ind (indentOf isSpace l)) ls

theorem scan_indent_none (isSpace : Char → Bool) (ub : Bool) :
    ∀ (rest : List Line) (prev : Option Line) (ind : Option Nat),
      (scan isSpace ub none prev ind rest).indent =
        minIndent isSpace ind (rest.take (scan isSpace ub none prev ind rest).n) := by
  intro rest
  induction rest with
  | nil => intro prev ind; simp [scan, minIndent]
  | cons x xs ih =>
    intro prev ind
    simp only [scan]
    split
    · simp [minIndent]
    · split
      · next hb =>
        split
        · simp [minIndent]
        · simp only [List.take_succ_cons, minIndent, hb, if_true]; exact ih _ _
      · next hb =>
        simp only [List.take_succ_cons, minIndent, hb, Option.isNone_none, if_true]
        exact ih _ _

theorem minIndent_le_init (isSpace : Char → Bool) :
    ∀ (ls : List Line) (i : Nat), ∃ m, minIndent isSpace (some i) ls = some m ∧ m ≤ i := by
  intro ls
  induction ls with
  | nil => intro i; exact ⟨i, rfl, Nat.le_refl _⟩
  | cons l ls ih =>
    intro i
    simp only [minIndent]
    split
    · exact ih i
    · obtain ⟨m, hm, hle⟩ := ih (min i (indentOf isSpace l))
      exact ⟨m, by simpa [minOpt] using hm, Nat.le_trans hle (Nat.min_le_left _ _)⟩

/-- lower bound: the result is ≤ the indentation of every non-blank line -/
theorem minIndent_le (isSpace : Char → Bool) :
    ∀ (ls : List Line) (ind : Option Nat) (m : Nat), minIndent isSpace ind ls = some m →
      ∀ l ∈ ls, isBlank isSpace l = false → m ≤ indentOf isSpace l := by
  intro ls
  induction ls with
  | nil => intro ind m _ l hl; simp at hl
  | cons x xs ih =>
    intro ind m hm l hl hb
    simp only [minIndent] at hm
    simp only [List.mem_cons] at hl
    split at hm
    · next hx =>
      rcases hl with rfl | hl
      · simp [hb] at hx
      · exact ih _ _ hm l hl hb
    · next hx =>
      rcases hl with rfl | hl
      · cases ind with
        | none =>
          obtain ⟨m', hm', hle⟩ := minIndent_le_init isSpace xs (indentOf isSpace l)
          simp only [minOpt] at hm
          rw [hm'] at hm; cases hm; exact hle
        | some i =>
          obtain ⟨m', hm', hle⟩ := minIndent_le_init isSpace xs (min i (indentOf isSpace l))
          simp only [minOpt] at hm
          rw [hm'] at hm; cases hm; exact Nat.le_trans hle (Nat.min_le_right _ _)
      · exact ih _ _ hm l hl hb

/-- attainment: the result is the initial value or the indentation of some non-blank line -/
theorem minIndent_attained (isSpace : Char → Bool) :
    ∀ (ls : List Line) (ind : Option Nat) (m : Nat), minIndent isSpace ind ls = some m →
      ind = some m ∨ ∃ l ∈ ls, isBlank isSpace l = false ∧ indentOf isSpace l = m := by
  intro ls
  induction ls with
  | nil => intro ind m hm; left; simpa [minIndent] using hm
  | cons x xs ih =>
    intro ind m hm
    simp only [minIndent] at hm
    split at hm
    · rcases ih _ _ hm with h | ⟨l, hl, hb, he⟩
      · left; exact h
      · right; exact ⟨l, List.mem_cons_of_mem _ hl, hb, he⟩
    · next hx =>
      rcases ih _ _ hm with h | ⟨l, hl, hb, he⟩
      · cases ind with
        | none =>
          simp only [minOpt, Option.some.injEq] at h
          right; exact ⟨x, List.mem_cons_self, by simpa using hx, h⟩
        | some i =>
          simp only [minOpt, Option.some.injEq] at h
          by_cases hi : i ≤ indentOf isSpace x
          · left; rw [Nat.min_eq_left hi] at h; rw [h]
          · right
            refine ⟨x, List.mem_cons_self, by simpa using hx, ?_⟩
            rw [Nat.min_eq_right (by omega)] at h; exact h
      · right; exact ⟨l, List.mem_cons_of_mem _ hl, hb, he⟩

theorem minIndent_none (isSpace : Char → Bool) :
    ∀ (ls : List Line) (ind : Option Nat), minIndent isSpace ind ls = none →
      ind = none ∧ ∀ l ∈ ls, isBlank isSpace l = true := by
  intro ls
  induction ls with
  | nil => intro ind h; exact ⟨by simpa [minIndent] using h, by simp⟩
  | cons x xs ih =>
    intro ind h
    simp only [minIndent] at h
    split at h
    · next hx =>
      obtain ⟨h1, h2⟩ := ih _ h
      refine ⟨h1, ?_⟩
      intro l hl
      simp only [List.mem_cons] at hl
      rcases hl with rfl | hl
      · exact hx
      · exact h2 l hl
    · obtain ⟨h1, _⟩ := ih _ h
      cases ind <;> simp [minOpt] at h1

/-! ## "block line i is a right part of source line i" -/

/-- `ys` is `xs` with some number of leading characters removed from each line -/
def TrimmedOf : List Line → List Line → Prop
  | [], [] => True
  | x :: xs, y :: ys => (∃ k, y = x.drop k) ∧ TrimmedOf xs ys
  | _, _ => False

theorem TrimmedOf.refl : ∀ xs, TrimmedOf xs xs
  | [] => trivial
  | x :: xs => ⟨⟨0, by simp⟩, TrimmedOf.refl xs⟩

theorem TrimmedOf.map_drop (i : Nat) : ∀ xs ys, TrimmedOf xs ys → TrimmedOf xs (ys.map (fun l => l.drop i))
  | [], [], _ => trivial
  | x :: xs, y :: ys, ⟨⟨k, hk⟩, h⟩ => ⟨⟨k + i, by simp [hk, List.drop_drop]⟩, TrimmedOf.map_drop i xs ys h⟩
  | [], _ :: _, h => False.elim h
  | _ :: _, [], h => False.elim h

theorem TrimmedOf.length : ∀ xs ys, TrimmedOf xs ys → ys.length = xs.length
  | [], [], _ => rfl
  | x :: xs, y :: ys, ⟨_, h⟩ => by simp [TrimmedOf.length xs ys h]
  | [], _ :: _, h => False.elim h
  | _ :: _, [], h => False.elim h

theorem TrimmedOf.getElem : ∀ xs ys, TrimmedOf xs ys → ∀ (i : Nat) (h : i < ys.length) (h' : i < xs.length),
    ∃ k, ys[i] = (xs[i]).drop k
  | [], [], _, i, h, _ => by simp at h
  | x :: xs, y :: ys, ⟨hk, ht⟩, i, h, h' => by
    cases i with
    | zero => simpa using hk
    | succ i =>
      simp only [List.getElem_cons_succ]
      exact TrimmedOf.getElem xs ys ht i (by simpa using h) (by simpa using h')
  | [], _ :: _, h, _, _, _ => False.elim h
  | _ :: _, [], h, _, _, _ => False.elim h

theorem trimLeft_zero (i : Nat) (b : List Line) : trimLeft i 0 none b = b.map (fun l => l.drop i) := by
  simp [trimLeft]

theorem trimLeft_one (i : Nat) (b : Line) (bs : List Line) :
    trimLeft i 1 none (b :: bs) = b :: bs.map (fun l => l.drop i) := by
  simp [trimLeft]

theorem TrimmedOf.dropFirst (fi : Option Nat) : ∀ xs ys, TrimmedOf xs ys → TrimmedOf xs (dropFirst fi ys)
  | [], [], _ => by cases fi <;> exact trivial
  | x :: xs, y :: ys, ⟨⟨k, hk⟩, h⟩ => by
    cases fi with
    | none => exact ⟨⟨k, hk⟩, h⟩
    | some f => exact ⟨⟨k + f, by simp [hk, List.drop_drop]⟩, h⟩
  | [], _ :: _, h => False.elim h
  | _ :: _, [], h => False.elim h

theorem TrimmedOf.stripBlock (ind : Option Nat) (si first : Bool) :
    ∀ xs ys, TrimmedOf xs ys → TrimmedOf xs (stripBlock ind si first ys) := by
  intro xs ys h
  unfold Indent.stripBlock
  cases ind with
  | none => exact h
  | some i =>
    simp only
    split
    · cases first with
      | false =>
        simp only [Bool.false_eq_true, if_false, trimLeft_zero]
        exact TrimmedOf.map_drop i _ _ h
      | true =>
        simp only [if_true]
        match xs, ys, h with
        | [], [], _ => simp [trimLeft]; exact trivial
        | x :: xs, y :: ys, ⟨hk, ht⟩ =>
          rw [trimLeft_one]
          exact ⟨hk, TrimmedOf.map_drop i _ _ ht⟩
    · exact h

theorem getIndented_trimmed (isSpace : Char → Bool) (data : List Line) (start : Nat) (ub si : Bool)
    (bi fi : Option Nat) :
    TrimmedOf ((data.take (getIndented isSpace data start ub si bi fi).stop).drop start)
      (getIndented isSpace data start ub si bi fi).block := by
  simp only [getIndented]
  exact TrimmedOf.stripBlock _ _ _ _ _ (TrimmedOf.dropFirst _ _ _ (TrimmedOf.refl _))

theorem stripTop_spec (isSpace : Char → Bool) :
    ∀ (b : List Line) (off : Nat), ∃ k, (stripTop isSpace b off) = (b.drop k, off + k) ∧ k ≤ b.length ∧
      (∀ l ∈ b.take k, isBlank isSpace l = true) ∧
      (∀ l, (b.drop k).head? = some l → isBlank isSpace l = false) := by
  intro b
  induction b with
  | nil => intro off; exact ⟨0, by simp [stripTop], by simp, by simp, by simp⟩
  | cons x xs ih =>
    intro off
    simp only [stripTop]
    split
    · next hx =>
      obtain ⟨k, hk, hle, hall, hhead⟩ := ih (off + 1)
      refine ⟨k + 1, by simp [hk]; omega, by simp; omega, ?_, by simpa using hhead⟩
      intro l hl
      simp only [List.take_succ_cons, List.mem_cons] at hl
      rcases hl with rfl | hl
      · exact hx
      · exact hall l hl
    · next hx =>
      exact ⟨0, by simp, by simp, by simp, by intro l hl; simp at hl; subst hl; simpa using hx⟩

end SnootyVerif.Indent
