import SnootyVerif.Model.PageDb

/-! Invariant of the page-store transition system and its preservation by every step. -/
namespace SnootyVerif.PageDb
variable {R : Type}

/-- `res` is the postprocessing of the store as it was at generation `g` -/
def ValidRes (post : Store → R) (gen : Nat) (hist : List Store) (g : Nat) (res : R) : Prop :=
  g ≤ gen ∧ ∃ st, hist[g]? = some st ∧ res = post (snapshotOf st)

/-- what a worker phase carries is a genuine snapshot / result of one generation; in mode `fixed`
that generation is not older than the request -/
def WInv (m : Mode) (post : Store → R) (gen : Nat) (hist : List Store) (g₀ : Nat) : WPhase R → Prop
  | .copied g snap => (g ≤ gen ∧ ∃ st, hist[g]? = some st ∧ snap = snapshotOf st) ∧ (m = .fixed → g₀ ≤ g)
  | .ran g res => ValidRes post gen hist g res ∧ (m = .fixed → g₀ ≤ g)
  | .published g res => ValidRes post gen hist g res ∧ (m = .fixed → g₀ ≤ g)
  | .cachedHit g res => ValidRes post gen hist g res ∧ (m = .fixed → g₀ ≤ g)
  | .done (.ok g res) => ValidRes post gen hist g res ∧ (m = .fixed → g₀ ≤ g)
  | _ => True

structure Inv (m : Mode) (post : Store → R) (s : St R) : Prop where
  len : s.hist.length = s.gen + 1
  cur : s.hist[s.gen]? = some s.store
  cval : ValidRes post s.gen s.hist s.cachedGen s.cached
  ops : ∀ o ∈ s.ops, o.startGen ≤ s.gen ∧ WInv m post s.gen s.hist o.startGen o.w

theorem ValidRes_mono {post : Store → R} {gen gen' : Nat} {hist hist' : List Store} {g : Nat} {res : R}
    (hg : gen ≤ gen') (hh : ∀ (g : Nat) (st : Store), hist[g]? = some st → hist'[g]? = some st)
    (h : ValidRes post gen hist g res) : ValidRes post gen' hist' g res := by
  obtain ⟨h1, st, h2, h3⟩ := h
  exact ⟨Nat.le_trans h1 hg, st, hh _ _ h2, h3⟩

theorem WInv_mono {m : Mode} {post : Store → R} {gen gen' : Nat} {hist hist' : List Store} {g₀ : Nat}
    {w : WPhase R} (hg : gen ≤ gen') (hh : ∀ (g : Nat) (st : Store), hist[g]? = some st → hist'[g]? = some st)
    (h : WInv m post gen hist g₀ w) : WInv m post gen' hist' g₀ w := by
  cases w with
  | copied g snap =>
    obtain ⟨⟨h1, st, h2, h3⟩, h4⟩ := h
    exact ⟨⟨Nat.le_trans h1 hg, st, hh _ _ h2, h3⟩, h4⟩
  | ran g res => exact ⟨ValidRes_mono hg hh h.1, h.2⟩
  | published g res => exact ⟨ValidRes_mono hg hh h.1, h.2⟩
  | cachedHit g res => exact ⟨ValidRes_mono hg hh h.1, h.2⟩
  | done out =>
    cases out with
    | ok g res => exact ⟨ValidRes_mono hg hh h.1, h.2⟩
    | cancelled => trivial
  | none => trivial
  | started => trivial
  | cancelled => trivial

theorem hist_append (hist : List Store) (x : Store) :
    ∀ (g : Nat) (st : Store), hist[g]? = some st → (hist ++ [x])[g]? = some st := by
  intro g st h
  have hlt : g < hist.length := by
    cases Nat.lt_or_ge g hist.length with
    | inl h' => exact h'
    | inr h' => rw [List.getElem?_eq_none h'] at h; cases h
  rw [List.getElem?_append_left hlt]; exact h

theorem inv_init (m : Mode) (post : Store → R) : Inv m post (init post) :=
  { len := rfl, cur := rfl, cval := ⟨Nat.le_refl _, [], rfl, rfl⟩,
    ops := by intro o ho; cases ho }

theorem inv_mutate {m : Mode} {post : Store → R} {s : St R} (h : Inv m post s) (k : Key) (st' : Store) :
    Inv m post (mutate s k st') := by
  have hh := hist_append s.hist st'
  refine { len := ?_, cur := ?_, cval := ?_, ops := ?_ }
  · simp [mutate, h.len]
  · show (s.hist ++ [st'])[s.gen + 1]? = some st'
    rw [← h.len]; simp
  · exact ValidRes_mono (Nat.le_succ _) hh h.cval
  · intro o ho
    have := h.ops o ho
    exact ⟨Nat.le_succ_of_le this.1, WInv_mono (Nat.le_succ _) hh this.2⟩

theorem inv_invalidate {m : Mode} {post : Store → R} {s : St R} (h : Inv m post s) :
    Inv m post { s with gen := s.gen + 1, hist := s.hist ++ [s.store] } := by
  have hh := hist_append s.hist s.store
  refine { len := ?_, cur := ?_, cval := ?_, ops := ?_ }
  · simp [h.len]
  · show (s.hist ++ [s.store])[s.gen + 1]? = some s.store
    rw [← h.len]; simp
  · exact ValidRes_mono (Nat.le_succ _) hh h.cval
  · intro o ho
    have := h.ops o ho
    exact ⟨Nat.le_succ_of_le this.1, WInv_mono (Nat.le_succ _) hh this.2⟩

/-- updating the record of one operation (and launcher-only fields) keeps the invariant, provided
the new worker phase is justified -/
theorem inv_update {m : Mode} {post : Store → R} {s : St R} (h : Inv m post s) (r : Nat) (o : Op R)
    (ho : s.ops[r]? = some o) (c' : CPhase) (w' : WPhase R) (f' : Bool) (t' j' : Option Nat)
    (hw : WInv m post s.gen s.hist o.startGen w') :
    Inv m post (setOp { s with flag := f', tracked := t', joiner := j' } r { o with c := c', w := w' }) := by
  refine { len := h.len, cur := h.cur, cval := h.cval, ops := ?_ }
  intro o' ho'
  have hmem : o ∈ s.ops := List.mem_of_getElem? ho
  cases List.mem_or_eq_of_mem_set ho' with
  | inl h' => exact h.ops o' h'
  | inr h' => subst h'; exact ⟨(h.ops o hmem).1, hw⟩

theorem inv_publish {m : Mode} {post : Store → R} {s : St R} (h : Inv m post s) (g : Nat) (res : R)
    (hv : ValidRes post s.gen s.hist g res) : Inv m post (publish m s g res) := by
  cases m with
  | asWritten => exact { len := h.len, cur := h.cur, cval := hv, ops := h.ops }
  | fixed =>
    unfold publish
    simp only
    split
    · exact { len := h.len, cur := h.cur, cval := hv, ops := h.ops }
    · exact h

theorem publish_gen (m : Mode) (s : St R) (g : Nat) (res : R) : (publish m s g res).gen = s.gen := by
  cases m <;> simp only [publish] <;> (try split) <;> rfl

theorem publish_hist (m : Mode) (s : St R) (g : Nat) (res : R) : (publish m s g res).hist = s.hist := by
  cases m <;> simp only [publish] <;> (try split) <;> rfl

theorem publish_ops (m : Mode) (s : St R) (g : Nat) (res : R) : (publish m s g res).ops = s.ops := by
  cases m <;> simp only [publish] <;> (try split) <;> rfl

theorem publish_store (m : Mode) (s : St R) (g : Nat) (res : R) : (publish m s g res).store = s.store := by
  cases m <;> simp only [publish] <;> (try split) <;> rfl

theorem inv_append {m : Mode} {post : Store → R} {s : St R} (h : Inv m post s) (isReq : Bool) (c : CPhase)
    (f' : Bool) (j' : Option Nat) :
    Inv m post { s with flag := f', joiner := j',
                        ops := s.ops ++ [{ isReq := isReq, startGen := s.gen, c := c, w := .none }] } := by
  refine { len := h.len, cur := h.cur, cval := h.cval, ops := ?_ }
  intro o ho
  cases List.mem_append.mp ho with
  | inl h' => exact h.ops o h'
  | inr h' =>
    have : o = { isReq := isReq, startGen := s.gen, c := c, w := .none } := by simpa using h'
    subst this
    exact ⟨Nat.le_refl _, trivial⟩

theorem inv_step {m : Mode} {post : Store → R} {s s' : St R} {l : Label}
    (h : Inv m post s) (hs : step m post s l = some s') : Inv m post s' := by
  cases l with
  | set k v => simp only [step, Option.some.injEq] at hs; subst hs; exact inv_mutate h _ _
  | del k => simp only [step, Option.some.injEq] at hs; subst hs; exact inv_mutate h _ _
  | inv => simp only [step, Option.some.injEq] at hs; subst hs; exact inv_invalidate h
  | cEnter r isReq =>
    simp only [step] at hs
    split at hs
    · split at hs
      · simp only [Option.some.injEq] at hs; subst hs
        exact inv_append h isReq .joining true (some r)
      · simp only [Option.some.injEq] at hs; subst hs
        have := inv_append h isReq .unlocked false s.joiner
        exact this
    · cases hs
  | cJoin r =>
    simp only [step] at hs
    split at hs
    · rename_i o ho
      split at hs
      · simp only [Option.some.injEq] at hs; subst hs
        have hw : WInv m post s.gen s.hist o.startGen o.w := (h.ops o (List.mem_of_getElem? ho)).2
        exact inv_update h r o ho .unlocked o.w false s.tracked none hw
      · cases hs
    · cases hs
  | cClear r =>
    simp only [step] at hs
    split at hs
    · rename_i o ho
      split at hs
      · simp only [Option.some.injEq] at hs; subst hs
        have hw : WInv m post s.gen s.hist o.startGen o.w := (h.ops o (List.mem_of_getElem? ho)).2
        exact inv_update h r o ho .cleared o.w s.flag s.tracked s.joiner hw
      · cases hs
    · cases hs
  | rTrack r =>
    simp only [step] at hs
    split at hs
    · rename_i o ho
      split at hs
      · simp only [Option.some.injEq] at hs; subst hs
        have hw : WInv m post s.gen s.hist o.startGen o.w := (h.ops o (List.mem_of_getElem? ho)).2
        exact inv_update h r o ho .tracked o.w s.flag (some r) s.joiner hw
      · cases hs
    · cases hs
  | rStart r =>
    simp only [step] at hs
    split at hs
    · rename_i o ho
      split at hs
      · simp only [Option.some.injEq] at hs; subst hs
        exact inv_update h r o ho .launched .started s.flag s.tracked s.joiner trivial
      · cases hs
    · cases hs
  | wBegin r =>
    simp only [step] at hs
    split at hs
    · rename_i o ho
      split at hs
      · split at hs
        · rename_i hd
          simp only [Option.some.injEq] at hs; subst hs
          refine inv_update h r o ho o.c _ s.flag s.tracked s.joiner ⟨h.cval, ?_⟩
          intro hm; subst hm
          have : s.gen = s.cachedGen := by simpa [dirty] using hd
          rw [← this]; exact (h.ops o (List.mem_of_getElem? ho)).1
        · split at hs
          · simp only [Option.some.injEq] at hs; subst hs
            exact inv_update h r o ho o.c .cancelled s.flag s.tracked s.joiner trivial
          · simp only [Option.some.injEq] at hs; subst hs
            exact inv_update h r o ho o.c _ s.flag s.tracked s.joiner
              ⟨⟨Nat.le_refl _, s.store, h.cur, rfl⟩, fun _ => (h.ops o (List.mem_of_getElem? ho)).1⟩
      · cases hs
    · cases hs
  | wRun r =>
    simp only [step] at hs
    split at hs
    · rename_i o ho
      split at hs
      · rename_i g snap hw
        have hwi := (h.ops o (List.mem_of_getElem? ho)).2
        rw [hw] at hwi
        split at hs
        · simp only [Option.some.injEq] at hs; subst hs
          exact inv_update h r o ho o.c .cancelled s.flag s.tracked s.joiner trivial
        · simp only [Option.some.injEq] at hs; subst hs
          obtain ⟨⟨h1, st, h2, h3⟩, h4⟩ := hwi
          exact inv_update h r o ho o.c _ s.flag s.tracked s.joiner ⟨⟨h1, st, h2, by rw [h3]⟩, h4⟩
      · cases hs
    · cases hs
  | wPublish r =>
    simp only [step] at hs
    split at hs
    · rename_i o ho
      split at hs
      · rename_i g res hw
        have hwi := (h.ops o (List.mem_of_getElem? ho)).2
        rw [hw] at hwi
        simp only [Option.some.injEq] at hs; subst hs
        have hp := inv_publish h g res hwi.1
        have ho' : (publish m s g res).ops[r]? = some o := by rw [publish_ops]; exact ho
        have := inv_update hp r o ho' o.c (.published g res) (publish m s g res).flag
          (publish m s g res).tracked (publish m s g res).joiner
          (by rw [publish_gen, publish_hist]; exact hwi)
        exact this
      · cases hs
    · cases hs
  | wRet r =>
    simp only [step] at hs
    split at hs
    · rename_i o ho
      have hwi := (h.ops o (List.mem_of_getElem? ho)).2
      split at hs
      · rename_i g res hw
        rw [hw] at hwi
        simp only [Option.some.injEq] at hs; subst hs
        refine inv_update h r o ho o.c _ s.flag s.tracked s.joiner ?_
        split
        · trivial
        · exact hwi
      · rename_i g res hw
        rw [hw] at hwi
        simp only [Option.some.injEq] at hs; subst hs
        refine inv_update h r o ho o.c _ s.flag s.tracked s.joiner ?_
        split
        · trivial
        · exact hwi
      · simp only [Option.some.injEq] at hs; subst hs
        exact inv_update h r o ho o.c _ s.flag s.tracked s.joiner trivial
      · cases hs
    · cases hs

theorem inv_run {m : Mode} {post : Store → R} {ls : List Label} :
    ∀ {s s' : St R}, Inv m post s → runFrom m post s ls = some s' → Inv m post s' := by
  induction ls with
  | nil => intro s s' h hr; simp only [runFrom, Option.some.injEq] at hr; subst hr; exact h
  | cons l ls ih =>
    intro s s' h hr
    simp only [runFrom] at hr
    split at hr
    · rename_i s1 hs1; exact ih (inv_step h hs1) hr
    · cases hr

/-- what the invariant says about a finished request -/
theorem inv_outcome {m : Mode} {post : Store → R} {s : St R} (h : Inv m post s) {r g : Nat} {res : R}
    (ho : outcome? s r = some (.ok g res)) :
    ∃ o, s.ops[r]? = some o ∧ o.startGen ≤ s.gen ∧ ValidRes post s.gen s.hist g res ∧
      (m = .fixed → o.startGen ≤ g) := by
  unfold outcome? at ho
  split at ho
  · rename_i o hop
    split at ho
    · rename_i out hw
      simp only [Option.some.injEq] at ho; subst ho
      have := h.ops o (List.mem_of_getElem? hop)
      rw [hw] at this
      exact ⟨o, hop, this.1, this.2.1, this.2.2⟩
    · cases ho
  · cases ho

/-! ### the sorted copy holds exactly the stored pages -/

theorem insertByKey_perm (p : Key × Ver) (s : Store) : (insertByKey p s).Perm (p :: s) := by
  induction s with
  | nil => exact List.Perm.refl _
  | cons q r ih =>
    simp only [insertByKey]
    split
    · exact List.Perm.refl _
    · exact (List.Perm.cons q ih).trans (List.Perm.swap p q r)

theorem snapshotOf_perm (s : Store) : (snapshotOf s).Perm s := by
  induction s with
  | nil => exact List.Perm.refl _
  | cons p r ih => exact (insertByKey_perm p _).trans (List.Perm.cons p ih)

/-! ### only `wPublish` of a worker that finished `run` touches the published state -/

theorem setOp_cached (s : St R) (r : Nat) (o : Op R) :
    (setOp s r o).cached = s.cached ∧ (setOp s r o).cachedGen = s.cachedGen ∧
    (setOp s r o).changed = s.changed ∧ (setOp s r o).store = s.store ∧ (setOp s r o).gen = s.gen :=
  ⟨rfl, rfl, rfl, rfl, rfl⟩

theorem step_cache_change {m : Mode} {post : Store → R} {s s' : St R} {l : Label}
    (hs : step m post s l = some s') (hc : s'.cached ≠ s.cached ∨ s'.cachedGen ≠ s.cachedGen) :
    ∃ r o g res, l = .wPublish r ∧ s.ops[r]? = some o ∧ o.w = .ran g res := by
  cases l with
  | set k v => simp only [step, Option.some.injEq] at hs; subst hs; simp [mutate] at hc
  | del k => simp only [step, Option.some.injEq] at hs; subst hs; simp [mutate] at hc
  | inv => simp only [step, Option.some.injEq] at hs; subst hs; simp at hc
  | cEnter r isReq =>
    simp only [step] at hs
    split at hs
    · split at hs <;> (simp only [Option.some.injEq] at hs; subst hs; simp at hc)
    · cases hs
  | cJoin r =>
    simp only [step] at hs
    split at hs
    · split at hs
      · simp only [Option.some.injEq] at hs; subst hs; simp [setOp] at hc
      · cases hs
    · cases hs
  | cClear r =>
    simp only [step] at hs
    split at hs
    · split at hs
      · simp only [Option.some.injEq] at hs; subst hs; simp [setOp] at hc
      · cases hs
    · cases hs
  | rTrack r =>
    simp only [step] at hs
    split at hs
    · split at hs
      · simp only [Option.some.injEq] at hs; subst hs; simp [setOp] at hc
      · cases hs
    · cases hs
  | rStart r =>
    simp only [step] at hs
    split at hs
    · split at hs
      · simp only [Option.some.injEq] at hs; subst hs; simp [setOp] at hc
      · cases hs
    · cases hs
  | wBegin r =>
    simp only [step] at hs
    split at hs
    · split at hs
      · split at hs
        · simp only [Option.some.injEq] at hs; subst hs; simp [setOp] at hc
        · split at hs <;> (simp only [Option.some.injEq] at hs; subst hs; simp [setOp] at hc)
      · cases hs
    · cases hs
  | wRun r =>
    simp only [step] at hs
    split at hs
    · split at hs
      · split at hs <;> (simp only [Option.some.injEq] at hs; subst hs; simp [setOp] at hc)
      · cases hs
    · cases hs
  | wPublish r =>
    simp only [step] at hs
    split at hs
    · rename_i o ho
      split at hs
      · rename_i g res hw
        exact ⟨r, o, g, res, rfl, ho, hw⟩
      · cases hs
    · cases hs
  | wRet r =>
    simp only [step] at hs
    split at hs
    · split at hs
      · simp only [Option.some.injEq] at hs; subst hs; simp [setOp] at hc
      · simp only [Option.some.injEq] at hs; subst hs; simp [setOp] at hc
      · simp only [Option.some.injEq] at hs; subst hs; simp [setOp] at hc
      · cases hs
    · cases hs

end SnootyVerif.PageDb
