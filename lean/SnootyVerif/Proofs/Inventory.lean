import SnootyVerif.Model.Inventory

/-! Helper lemmas for C15 (inventory round trip). -/
namespace SnootyVerif.Inventory

/-! ### takeWhile / dropWhile at a stop character -/

theorem takeWhile_append_stop {α : Type} {p : α → Bool} {s : List α} {x : α} {r : List α}
    (hs : ∀ c ∈ s, p c = true) (hx : p x = false) : (s ++ x :: r).takeWhile p = s := by
  induction s with
  | nil => simp [hx]
  | cons a t ih =>
    have ha : p a = true := hs a (by simp)
    simp only [List.cons_append, List.takeWhile_cons, ha, if_true]
    rw [ih (fun c hc => hs c (by simp [hc]))]

theorem dropWhile_append_stop {α : Type} {p : α → Bool} {s : List α} {x : α} {r : List α}
    (hs : ∀ c ∈ s, p c = true) (hx : p x = false) : (s ++ x :: r).dropWhile p = x :: r := by
  induction s with
  | nil => simp [hx]
  | cons a t ih =>
    have ha : p a = true := hs a (by simp)
    simp only [List.cons_append, List.dropWhile_cons, ha, if_true]
    exact ih (fun c hc => hs c (by simp [hc]))

/-- a run stops at the first failing character at the latest -/
theorem mem_takeWhile_append_stop {p : Char → Bool} {s : List Char} {x : Char} {r : List Char}
    (hx : p x = false) : ∀ c ∈ (s ++ x :: r).takeWhile p, c ∈ s := by
  induction s with
  | nil => simp [hx]
  | cons a t ih =>
    intro c hc
    simp only [List.cons_append, List.takeWhile_cons] at hc
    split at hc
    · rcases List.mem_cons.1 hc with h | h
      · simp [h]
      · exact List.mem_cons_of_mem _ (ih c h)
    · cases hc

theorem takeWhile_all {p : Char → Bool} {s : List Char} (hs : ∀ c ∈ s, p c = true) : s.takeWhile p = s := by
  induction s with
  | nil => rfl
  | cons a t ih =>
    simp only [List.takeWhile_cons, hs a (by simp), if_true]
    rw [ih (fun c hc => hs c (by simp [hc]))]

theorem dropWhile_head_stop {p : Char → Bool} {a : Char} {t : List Char} (ha : p a = false) :
    (a :: t).dropWhile p = a :: t := by
  simp [ha]


/-! ### the remainder of the pattern cannot match inside a name -/

/-- the token following a whitespace run inside `s ++ [z]` (z not whitespace), followed by a
space, lies inside `s ++ [z]` -/
theorem token_inside (P : PyRe) (hsp : P.isSpace ' ' = true) (s : List Char) (z : Char) (r : List Char)
    (hz : P.isSpace z = false) :
    ∀ c ∈ ((s ++ z :: ' ' :: r).dropWhile P.isSpace).takeWhile (nonSpace P), c ∈ s ++ [z] := by
  induction s with
  | nil =>
    intro c hc
    simp only [List.nil_append] at hc ⊢
    rw [dropWhile_head_stop hz] at hc
    have := mem_takeWhile_append_stop (p := nonSpace P) (s := [z]) (x := ' ') (r := r) (by simp [nonSpace, hsp]) c
    exact this hc
  | cons a t ih =>
    intro c hc
    simp only [List.cons_append, List.dropWhile_cons] at hc
    split at hc
    · exact List.mem_cons_of_mem _ (ih c hc)
    · have := mem_takeWhile_append_stop (p := nonSpace P) (s := a :: (t ++ [z])) (x := ' ') (r := r)
        (by simp [nonSpace, hsp]) c
      simp only [List.cons_append, List.append_assoc] at this
      exact this hc

theorem parseRest_inside_name (P : PyRe) (hsp : P.isSpace ' ' = true) (s : List Char) (z : Char) (r : List Char)
    (hz : P.isSpace z = false) (hcolon : ':' ∉ s ++ [z]) :
    parseRest P (s ++ z :: ' ' :: r) = none := by
  have htok := token_inside P hsp s z r hz
  have hnc : (((s ++ z :: ' ' :: r).dropWhile P.isSpace).takeWhile (nonSpace P)).contains ':' = false := by
    cases h : (((s ++ z :: ' ' :: r).dropWhile P.isSpace).takeWhile (nonSpace P)).contains ':'
    · rfl
    · exact absurd (htok ':' (by simpa using h)) hcolon
  unfold parseRest
  cases hl : s ++ z :: ' ' :: r with
  | nil => rfl
  | cons c cs =>
    simp only
    split
    · rfl
    · rw [hl] at hnc
      simp only [hnc, Bool.not_false, ↓reduceIte]

/-- the lazy name group stops exactly at the end of a name that has no ':' , no newline and
does not end with whitespace, provided the remainder parses there -/
theorem splitName_name (P : PyRe) (hsp : P.isSpace ' ' = true) (nm rest : List Char) (g : Groups)
    (hcolon : ':' ∉ nm) (hnl : '\n' ∉ nm) (hlast : ∀ z, nm.getLast? = some z → P.isSpace z = false)
    (hrest : parseRest P (' ' :: rest) = some g) :
    splitName P (nm ++ ' ' :: rest) = some (nm, g) := by
  induction nm with
  | nil => simp [splitName, hrest]
  | cons c t ih =>
    have hne : c :: t ≠ [] := by simp
    have hdl : (c :: t).dropLast ++ [(c :: t).getLast hne] = c :: t := List.dropLast_concat_getLast hne
    have hz : P.isSpace ((c :: t).getLast hne) = false := hlast _ (List.getLast?_eq_some_getLast hne)
    have hnone : parseRest P (c :: (t ++ ' ' :: rest)) = none := by
      have := parseRest_inside_name P hsp (c :: t).dropLast ((c :: t).getLast hne) rest hz (by rw [hdl]; exact hcolon)
      rw [show (c :: t).dropLast ++ (c :: t).getLast hne :: ' ' :: rest
            = ((c :: t).dropLast ++ [(c :: t).getLast hne]) ++ ' ' :: rest by simp, hdl] at this
      exact this
    have hc : (c == '\n') = false := by
      cases h : c == '\n'
      · rfl
      · exact absurd (by simp at h; simp [h]) hnl
    have hih := ih (fun h => hcolon (List.mem_cons_of_mem _ h)) (fun h => hnl (List.mem_cons_of_mem _ h))
      (fun z hzz => by
        cases t with
        | nil => simp at hzz
        | cons b u => exact hlast z (by rw [List.getLast?_cons_cons]; exact hzz))
    simp only [List.cons_append, splitName, hnone, hc, hih]
    rfl


/-! ### priorities: `str(int)` is read back by `-?\d+` and `int()` -/

theorem foldl_congr_mem {f g : Nat → Char → Nat} (l : List Char) (init : Nat)
    (h : ∀ a, ∀ c ∈ l, f a c = g a c) : l.foldl f init = l.foldl g init := by
  induction l generalizing init with
  | nil => rfl
  | cons x t ih =>
    simp only [List.foldl_cons]
    rw [h init x (by simp)]
    exact ih _ (fun a c hc => h a c (by simp [hc]))

theorem toDigits_ascii (n : Nat) : ∀ c ∈ Nat.toDigits 10 n, c.isDigit = true :=
  fun _ hc => Nat.isDigit_of_mem_toDigits (by decide) (by decide) hc

theorem digitsVal_toDigits (P : PyRe) (hP : PyReOk P) (n : Nat) : digitsVal P (Nat.toDigits 10 n) = n := by
  have h1 : digitsVal P (Nat.toDigits 10 n) = Nat.ofDigitChars 10 (Nat.toDigits 10 n) 0 := by
    rw [Nat.ofDigitChars_eq_foldl]
    unfold digitsVal
    apply foldl_congr_mem
    intro a c hc
    rw [(hP.dig_ascii c (toDigits_ascii n c hc)).2]
    rfl
  rw [h1, Nat.ofDigitChars_ten_toDigits]

theorem isDigit_space (P : PyRe) (hP : PyReOk P) : P.isDigit ' ' = false := by
  cases h : P.isDigit ' '
  · rfl
  · have := hP.dig_nospace ' ' h
    rw [hP.sp_space] at this
    cases this

theorem parsePrio_digits (P : PyRe) (D Z : List Char) (hne : D ≠ []) (hall : ∀ c ∈ D, P.isDigit c = true)
    (hdash : ∀ c ∈ D, c ≠ '-') (hsp : P.isDigit ' ' = false) :
    parsePrio P (D ++ ' ' :: Z) = some (D, ' ' :: Z) := by
  cases D with
  | nil => exact absurd rfl hne
  | cons d t =>
    have hd : d ≠ '-' := hdash d (by simp)
    have htw : ((d :: t) ++ ' ' :: Z).takeWhile P.isDigit = d :: t := takeWhile_append_stop hall hsp
    have hdw : ((d :: t) ++ ' ' :: Z).dropWhile P.isDigit = ' ' :: Z := dropWhile_append_stop hall hsp
    simp only [List.cons_append] at htw hdw
    simp only [List.cons_append, parsePrio, hd, if_false, htw, hdw]
    rfl

theorem parsePrio_neg (P : PyRe) (D Z : List Char) (hne : D ≠ []) (hall : ∀ c ∈ D, P.isDigit c = true)
    (hsp : P.isDigit ' ' = false) :
    parsePrio P ('-' :: (D ++ ' ' :: Z)) = some ('-' :: D, ' ' :: Z) := by
  have htw : (D ++ ' ' :: Z).takeWhile P.isDigit = D := takeWhile_append_stop hall hsp
  have hdw : (D ++ ' ' :: Z).dropWhile P.isDigit = ' ' :: Z := dropWhile_append_stop hall hsp
  cases D with
  | nil => exact absurd rfl hne
  | cons d t =>
    simp only [parsePrio, if_true, htw, hdw]
    rfl

theorem parsePrio_show (P : PyRe) (hP : PyReOk P) (i : Int) (Z : List Char) :
    parsePrio P (showInt i ++ ' ' :: Z) = some (showInt i, ' ' :: Z) := by
  have hall : ∀ n, ∀ c ∈ Nat.toDigits 10 n, P.isDigit c = true :=
    fun n c hc => (hP.dig_ascii c (toDigits_ascii n c hc)).1
  cases i with
  | ofNat n =>
    exact parsePrio_digits P _ Z Nat.toDigits_ne_nil (hall n)
      (fun c hc h => by have := toDigits_ascii n c hc; rw [h] at this; exact absurd this (by decide))
      (isDigit_space P hP)
  | negSucc n =>
    exact parsePrio_neg P _ Z Nat.toDigits_ne_nil (hall (n + 1)) (isDigit_space P hP)

theorem readInt_show (P : PyRe) (hP : PyReOk P) (i : Int) : readInt P (showInt i) = some i := by
  have hall : ∀ n, (Nat.toDigits 10 n).all P.isDigit = true := by
    intro n
    rw [List.all_eq_true]
    exact fun c hc => (hP.dig_ascii c (toDigits_ascii n c hc)).1
  cases i with
  | ofNat n =>
    have hv := digitsVal_toDigits P hP n
    have ha := hall n
    have hne : Nat.toDigits 10 n ≠ [] := Nat.toDigits_ne_nil
    have hd : ∀ c ∈ Nat.toDigits 10 n, c ≠ '-' :=
      fun c hc h => by have := toDigits_ascii n c hc; rw [h] at this; exact absurd this (by decide)
    show readInt P (Nat.toDigits 10 n) = some (Int.ofNat n)
    generalize Nat.toDigits 10 n = D at hv ha hne hd ⊢
    cases D with
    | nil => exact absurd rfl hne
    | cons d t =>
      have hd' : d ≠ '-' := hd d (by simp)
      simp only [readInt, hd', if_false, ha, Bool.not_true, hv]
      rfl
  | negSucc n =>
    have hv := digitsVal_toDigits P hP (n + 1)
    have ha := hall (n + 1)
    have hne : Nat.toDigits 10 (n + 1) ≠ [] := Nat.toDigits_ne_nil
    show readInt P ('-' :: Nat.toDigits 10 (n + 1)) = some (Int.negSucc n)
    generalize Nat.toDigits 10 (n + 1) = D at hv ha hne ⊢
    cases D with
    | nil => exact absurd rfl hne
    | cons d t =>
      simp only [readInt, if_true, ha, hv, List.isEmpty_cons, Bool.not_true, Bool.or_self]
      rfl


/-! ### the remainder of the pattern matches after the name -/

theorem nonSpace_space (P : PyRe) (hsp : P.isSpace ' ' = true) : nonSpace P ' ' = false := by
  simp [nonSpace, hsp]

theorem parseTail_ok (P : PyRe) (hsp : P.isSpace ' ' = true) (uri : List Char) (d0 : Char) (dt : List Char)
    (huri : ∀ c ∈ uri, nonSpace P c = true) (hd0 : P.isSpace d0 = false) (hnl : '\n' ∉ d0 :: dt) :
    parseTail P (' ' :: (uri ++ ' ' :: d0 :: dt)) = some (uri, d0 :: dt) := by
  have h1 : (uri ++ ' ' :: d0 :: dt).dropWhile (nonSpace P) = ' ' :: d0 :: dt :=
    dropWhile_append_stop huri (nonSpace_space P hsp)
  have h2 : (uri ++ ' ' :: d0 :: dt).takeWhile (nonSpace P) = uri :=
    takeWhile_append_stop huri (nonSpace_space P hsp)
  have h3 : (' ' :: d0 :: dt).dropWhile P.isSpace = d0 :: dt := by
    simp [hsp, hd0]
  have h4 : (d0 :: dt).takeWhile (fun c => c != '\n') = d0 :: dt :=
    takeWhile_all (fun c hc => by
      cases h : c != '\n'
      · simp at h; exact absurd (h ▸ hc) hnl
      · rfl)
  simp only [parseTail, hsp, Bool.not_true, Bool.false_eq_true, if_false, h1, h2, h3, h4]

theorem showInt_head (P : PyRe) (hP : PyReOk P) (i : Int) :
    ∃ h t, showInt i = h :: t ∧ P.isSpace h = false := by
  cases i with
  | ofNat n =>
    have hne : Nat.toDigits 10 n ≠ [] := Nat.toDigits_ne_nil
    have hd := toDigits_ascii n
    show ∃ h t, Nat.toDigits 10 n = h :: t ∧ _
    generalize Nat.toDigits 10 n = D at hne hd
    cases D with
    | nil => exact absurd rfl hne
    | cons d t => exact ⟨d, t, rfl, hP.dig_nospace d (hP.dig_ascii d (hd d (by simp))).1⟩
  | negSucc n => exact ⟨'-', _, rfl, hP.sp_dash⟩

theorem parseRest_ok (P : PyRe) (hP : PyReOk P) (dr : List Char) (i : Int) (uri : List Char)
    (d0 : Char) (dt : List Char)
    (hdr : ∀ c ∈ dr, nonSpace P c = true) (hcolon : ':' ∈ dr)
    (huri : ∀ c ∈ uri, nonSpace P c = true) (hd0 : P.isSpace d0 = false) (hnl : '\n' ∉ d0 :: dt) :
    parseRest P (' ' :: (dr ++ (' ' :: (showInt i ++ (' ' :: (uri ++ (' ' :: d0 :: dt)))))))
      = some { role := dr, prio := showInt i, uri := uri, disp := d0 :: dt } := by
  have hsp := hP.sp_space
  obtain ⟨ph, pt, hshow, hph⟩ := showInt_head P hP i
  generalize hY : showInt i ++ (' ' :: (uri ++ (' ' :: d0 :: dt))) = Y
  have hYhead : (' ' :: Y).dropWhile P.isSpace = Y := by
    rw [← hY, hshow]
    simp [hsp, hph]
  cases dr with
  | nil => cases hcolon
  | cons a t =>
    have ha : P.isSpace a = false := by
      have := hdr a (by simp)
      simpa [nonSpace] using this
    have h1 : (' ' :: ((a :: t) ++ ' ' :: Y)).dropWhile P.isSpace = (a :: t) ++ ' ' :: Y := by
      simp [hsp, ha]
    have h2 : ((a :: t) ++ ' ' :: Y).takeWhile (nonSpace P) = a :: t :=
      takeWhile_append_stop hdr (nonSpace_space P hsp)
    have h3 : ((a :: t) ++ ' ' :: Y).dropWhile (nonSpace P) = ' ' :: Y :=
      dropWhile_append_stop hdr (nonSpace_space P hsp)
    have h4 : (a :: t).contains ':' = true := by simpa using hcolon
    have h5 : parsePrio P Y = some (showInt i, ' ' :: (uri ++ (' ' :: d0 :: dt))) := by
      rw [← hY]; exact parsePrio_show P hP i _
    have h6 := parseTail_ok P hsp uri d0 dt huri hd0 hnl
    simp only [parseRest, hsp, Bool.not_true, Bool.false_eq_true, if_false, h1, h2, h3, h4, hYhead, h5, h6]


/-! ### well-formedness unpacked -/

structure WF (P : PyRe) (e : Entry) : Prop where
  name_ne : e.name ≠ []
  name_nl : '\n' ∉ e.name
  name_colon : ':' ∉ e.name
  name_edge : edgeOk P e.name = true
  dom_ns : ∀ c ∈ e.domain, nonSpace P c = true
  dom_colon : ':' ∉ e.domain
  role_ns : ∀ c ∈ e.role, nonSpace P c = true
  uri_ns : ∀ c ∈ e.uriBase, nonSpace P c = true
  disp : dispOk P e.display = true

theorem wf_unpack {P : PyRe} {e : Entry} (h : WFEntry P e) : WF P e := by
  unfold WFEntry wfEntry at h
  simp only [Bool.and_eq_true, Bool.not_eq_true', List.all_eq_true, List.isEmpty_eq_false_iff,
    List.contains_eq_mem, decide_eq_false_iff_not] at h
  obtain ⟨⟨⟨⟨⟨⟨⟨⟨h1, h2⟩, h3⟩, h4⟩, h5⟩, h6⟩, h7⟩, h8⟩, h9⟩ := h
  exact ⟨h1, h2, h3, h4, h5, h6, h7, h8, h9⟩

theorem edge_head {P : PyRe} {c : Char} {t : List Char} (h : edgeOk P (c :: t) = true) : P.isSpace c = false := by
  unfold edgeOk at h
  simp only [List.head?_cons, Bool.and_eq_true, Bool.not_eq_true'] at h
  exact h.1

theorem edge_last {P : PyRe} {l : List Char} (h : edgeOk P l = true) :
    ∀ z, l.getLast? = some z → P.isSpace z = false := by
  intro z hz
  unfold edgeOk at h
  simp only [hz, Bool.and_eq_true, Bool.not_eq_true'] at h
  exact h.2

/-- the text written for the display name: non-empty, first/last character not whitespace, no newline -/
theorem disp_shape {P : PyRe} (hP : PyReOk P) {d : Option (List Char)} (h : dispOk P d = true) :
    ∃ d0 dt, dispOrDash d = d0 :: dt ∧ P.isSpace d0 = false ∧ '\n' ∉ d0 :: dt ∧
      (∀ z, (d0 :: dt).getLast? = some z → P.isSpace z = false) ∧
      (if d0 :: dt = ['-'] then none else some (d0 :: dt)) = d := by
  cases d with
  | none =>
    refine ⟨'-', [], rfl, hP.sp_dash, by decide, ?_, by simp⟩
    intro z hz
    simp at hz
    rw [← hz]; exact hP.sp_dash
  | some l =>
    unfold dispOk at h
    simp only [Bool.and_eq_true, Bool.not_eq_true', List.isEmpty_eq_false_iff, bne_iff_ne, ne_eq,
      List.contains_eq_mem, decide_eq_false_iff_not] at h
    obtain ⟨⟨⟨h1, h2⟩, h3⟩, h4⟩ := h
    cases l with
    | nil => exact absurd rfl h1
    | cons d0 dt =>
      exact ⟨d0, dt, rfl, edge_head h4, h3, edge_last h4, by simp [h2]⟩

/-! ### role aliases and the first-colon split -/

theorem splitFirstColon_join (d r : List Char) (hd : ':' ∉ d) :
    splitFirstColon (d ++ ':' :: r) = some (d, r) := by
  induction d with
  | nil => simp [splitFirstColon]
  | cons a t ih =>
    have ha : (a == ':') = false := by
      cases h : a == ':'
      · rfl
      · exact absurd (by simp at h; simp [h]) hd
    simp only [List.cons_append, splitFirstColon, ha, Bool.false_eq_true, if_false,
      ih (fun h => hd (List.mem_cons_of_mem _ h))]

theorem splitFirstColon_eq {x d r : List Char} (h : splitFirstColon x = some (d, r)) : x = d ++ ':' :: r := by
  induction x generalizing d r with
  | nil => simp [splitFirstColon] at h
  | cons a t ih =>
    unfold splitFirstColon at h
    split at h
    · rename_i hc
      simp at hc
      simp only [Option.some.injEq, Prod.mk.injEq] at h
      rw [← h.1, ← h.2, hc]; rfl
    · split at h
      · rename_i a' b' heq
        simp only [Option.some.injEq, Prod.mk.injEq] at h
        rw [← h.1, ← h.2, List.cons_append, ← ih heq]
      · cases h

theorem splitFirstColon_isSome {x : List Char} (h : ':' ∈ x) : ∃ p, splitFirstColon x = some p := by
  induction x with
  | nil => cases h
  | cons a t ih =>
    unfold splitFirstColon
    by_cases hc : (a == ':') = true
    · exact ⟨([], t), by simp only [hc, if_true]⟩
    · have : ':' ∈ t := by
        rcases List.mem_cons.1 h with h | h
        · exact absurd (by rw [← h]; rfl) hc
        · exact h
      obtain ⟨p, hp⟩ := ih this
      exact ⟨(a :: p.1, p.2), by simp [hc, hp]⟩

theorem aliasTable_colon : ∀ p ∈ aliasTable, ':' ∈ p.2 := by decide

theorem lookup_mem {k : List Char} {v : List Char} :
    ∀ (l : List (List Char × List Char)), l.lookup k = some v → ∃ k', (k', v) ∈ l := by
  intro l
  induction l with
  | nil => intro h; simp at h
  | cons a t ih =>
    intro h
    obtain ⟨ka, va⟩ := a
    rw [List.lookup_cons] at h
    split at h
    · simp only [Option.some.injEq] at h
      exact ⟨ka, by simp [h]⟩
    · obtain ⟨k', hk'⟩ := ih h
      exact ⟨k', List.mem_cons_of_mem _ hk'⟩

theorem aliasRole_colon {dr : List Char} (h : ':' ∈ dr) : ':' ∈ aliasRole dr := by
  unfold aliasRole
  split
  · rename_i t ht
    obtain ⟨k', hk'⟩ := lookup_mem _ ht
    exact aliasTable_colon _ hk'
  · exact h

/-- `canonRole` is what `parse` computes, and rebuilding the key from it gives the parsed key -/
theorem canonRole_spec (d r : List Char) :
    splitFirstColon (aliasRole (d ++ ':' :: r)) = some (canonRole d r) ∧
    aliasRole (d ++ ':' :: r) = (canonRole d r).1 ++ ':' :: (canonRole d r).2 := by
  obtain ⟨p, hp⟩ := splitFirstColon_isSome (aliasRole_colon (dr := d ++ ':' :: r) (by simp))
  have : canonRole d r = p := by unfold canonRole; rw [hp]
  rw [this]
  exact ⟨hp, splitFirstColon_eq (d := p.1) (r := p.2) hp⟩

/-! ### `rstrip` and the blank-line test on a dumped line -/

theorem rstrip_concat (P : PyRe) (a : List Char) (z : Char) (hz : P.isSpace z = false) :
    rstrip P (a ++ [z]) = a ++ [z] := by
  unfold rstrip
  simp [hz]

theorem rstrip_of_last (P : PyRe) (l : List Char) (hne : l ≠ [])
    (hl : ∀ z, l.getLast? = some z → P.isSpace z = false) : rstrip P l = l := by
  have := List.dropLast_concat_getLast hne
  rw [← this]
  exact rstrip_concat P _ _ (hl _ (List.getLast?_eq_some_getLast hne))

theorem getLast?_append_cons (a : List Char) (x : Char) (b : List Char) :
    (a ++ x :: b).getLast? = (x :: b).getLast? := by
  cases h : (x :: b).getLast? with
  | none => simp at h
  | some z => simp [List.getLast?_append, h]


/-! ### one line -/

theorem parseLine_dumpLine (P : PyRe) (hP : PyReOk P) (e : Entry) (h : WFEntry P e) :
    parseLine P (dumpLine e) = .entry (keyOf (canon e)) (canon e) := by
  have wf := wf_unpack h
  obtain ⟨name, dom, role, prio, ub, uri, disp⟩ := e
  obtain ⟨hne, hnl, hcolon, hedge, hdom, hdomc, hrole, hub, hdisp⟩ := wf
  simp only at hne hnl hcolon hedge hdom hdomc hrole hub hdisp
  obtain ⟨d0, dt, hd, hd0, hdnl, hdlast, hback⟩ := disp_shape hP hdisp
  have hsp := hP.sp_space
  cases name with
  | nil => exact absurd rfl hne
  | cons c cs =>
    have hc : P.isSpace c = false := edge_head hedge
    have hcs_last : ∀ z, cs.getLast? = some z → P.isSpace z = false := by
      intro z hz
      cases cs with
      | nil => simp at hz
      | cons b u => exact edge_last hedge z (by rw [List.getLast?_cons_cons]; exact hz)
    have hdr : ∀ x ∈ dom ++ ':' :: role, nonSpace P x = true := by
      intro x hx
      rcases List.mem_append.1 hx with hx | hx
      · exact hdom x hx
      · rcases List.mem_cons.1 hx with hx | hx
        · rw [hx]; simp [nonSpace, hP.sp_colon]
        · exact hrole x hx
    have hrest := parseRest_ok P hP (dom ++ ':' :: role) prio ub d0 dt hdr (by simp) hub hd0 hdnl
    have hsplit := splitName_name P hsp cs _ _ (fun hh => hcolon (List.mem_cons_of_mem _ hh))
      (fun hh => hnl (List.mem_cons_of_mem _ hh)) hcs_last hrest
    have hcn : (c == '\n') = false := by
      cases hh : c == '\n'
      · rfl
      · exact absurd (by simp at hh; simp [hh]) hnl
    have hL : dumpLine ⟨c :: cs, dom, role, prio, ub, uri, disp⟩ =
        c :: (cs ++ ' ' :: ((dom ++ ':' :: role) ++ (' ' :: (showInt prio ++ (' ' :: (ub ++ (' ' :: d0 :: dt))))))) := by
      simp only [dumpLine, hd, List.cons_append]
    have hmatch : matchLine P (c :: (cs ++ ' ' :: ((dom ++ ':' :: role) ++ (' ' :: (showInt prio ++ (' ' :: (ub ++ (' ' :: d0 :: dt))))))))
        = some (c :: cs, { role := dom ++ ':' :: role, prio := showInt prio, uri := ub, disp := d0 :: dt }) := by
      simp only [matchLine, hcn, Bool.false_eq_true, if_false, hsplit]
    have hall : (c :: (cs ++ ' ' :: ((dom ++ ':' :: role) ++ (' ' :: (showInt prio ++ (' ' :: (ub ++ (' ' :: d0 :: dt)))))))).all P.isSpace = false := by
      simp [hc]
    have hrs : rstrip P (c :: (cs ++ ' ' :: ((dom ++ ':' :: role) ++ (' ' :: (showInt prio ++ (' ' :: (ub ++ (' ' :: d0 :: dt))))))))
        = c :: (cs ++ ' ' :: ((dom ++ ':' :: role) ++ (' ' :: (showInt prio ++ (' ' :: (ub ++ (' ' :: d0 :: dt))))))) := by
      apply rstrip_of_last P _ (by simp)
      intro z hz
      apply hdlast z
      rw [← hz]
      rw [show c :: (cs ++ ' ' :: ((dom ++ ':' :: role) ++ (' ' :: (showInt prio ++ (' ' :: (ub ++ (' ' :: d0 :: dt)))))))
            = ((c :: cs) ++ ' ' :: ((dom ++ ':' :: role) ++ (' ' :: showInt prio)) ++ (' ' :: ub)) ++ ' ' :: d0 :: dt by simp]
      rw [getLast?_append_cons]
      simp
    obtain ⟨hcr1, hcr2⟩ := canonRole_spec dom role
    rw [hL]
    simp only [parseLine, hall, Bool.false_eq_true, if_false, hrs, hmatch, readInt_show P hP prio, hcr1, hback]
    simp only [canon, keyOf, hcr2, List.append_assoc, List.cons_append]


/-! ### the file level -/

theorem splitOn_no_sep (sep : Char) (l : List Char) (h : sep ∉ l) : splitOn sep l = (l, []) := by
  induction l with
  | nil => rfl
  | cons a t ih =>
    have ha : (a == sep) = false := by
      cases hh : a == sep
      · rfl
      · exact absurd (by simp at hh; simp [hh]) h
    simp only [splitOn, ha, Bool.false_eq_true, if_false, ih (fun hh => h (List.mem_cons_of_mem _ hh))]

theorem splitOn_append (sep : Char) (l rest : List Char) (h : sep ∉ l) :
    splitOn sep (l ++ sep :: rest) = (l, (splitOn sep rest).1 :: (splitOn sep rest).2) := by
  induction l with
  | nil => simp [splitOn]
  | cons a t ih =>
    have ha : (a == sep) = false := by
      cases hh : a == sep
      · rfl
      · exact absurd (by simp at hh; simp [hh]) h
    simp only [List.cons_append, splitOn, ha, Bool.false_eq_true, if_false,
      ih (fun hh => h (List.mem_cons_of_mem _ hh))]

theorem splitLines_joinNl (ls : List (List Char)) (hne : ls ≠ []) (h : ∀ l ∈ ls, '\n' ∉ l) :
    splitLines (joinNl ls) = ls := by
  induction ls with
  | nil => exact absurd rfl hne
  | cons l t ih =>
    cases t with
    | nil =>
      simp only [joinNl, splitLines, splitOn_no_sep '\n' l (h l (by simp))]
    | cons l2 t2 =>
      have ih' := ih (by simp) (fun x hx => h x (List.mem_cons_of_mem _ hx))
      simp only [joinNl, splitLines, splitOn_append '\n' l _ (h l (by simp))]
      unfold splitLines at ih'
      rw [ih']

theorem showInt_no_nl (i : Int) : '\n' ∉ showInt i := by
  have hd : ∀ n, '\n' ∉ Nat.toDigits 10 n := fun n hh => absurd (toDigits_ascii n _ hh) (by decide)
  cases i with
  | ofNat n => exact hd n
  | negSucc n =>
    intro hh
    rcases List.mem_cons.1 hh with hh | hh
    · exact absurd hh (by decide)
    · exact hd _ hh

theorem dumpLine_no_nl (P : PyRe) (hP : PyReOk P) (e : Entry) (h : WFEntry P e) : '\n' ∉ dumpLine e := by
  have wf := wf_unpack h
  obtain ⟨d0, dt, hd, _, hdnl, _, _⟩ := disp_shape hP wf.disp
  have hns : ∀ l : List Char, (∀ c ∈ l, nonSpace P c = true) → '\n' ∉ l := by
    intro l hl hh
    have := hl _ hh
    simp [nonSpace, hP.sp_nl] at this
  unfold dumpLine
  rw [hd]
  simp only [List.mem_append, List.mem_cons, not_or]
  exact ⟨wf.name_nl, by decide, ⟨hns _ wf.dom_ns, by decide, hns _ wf.role_ns⟩, by decide, showInt_no_nl _,
    by decide, hns _ wf.uri_ns, by decide, by simpa using hdnl⟩

theorem parseLines_dump (P : PyRe) (hP : PyReOk P) (inv : Dict) (hwf : ∀ kv ∈ inv, WFEntry P kv.2) (d : Dict) :
    parseLines P (inv.map (fun kv => dumpLine kv.2) ++ [[]]) d
      = some ((inv.map canonKV).foldl (fun acc kv => dictSet acc kv.1 kv.2) d) := by
  induction inv generalizing d with
  | nil => simp [parseLines, parseLine]
  | cons kv t ih =>
    simp only [List.map_cons, List.cons_append, parseLines, parseLine_dumpLine P hP kv.2 (hwf kv (by simp)),
      List.foldl_cons]
    exact ih (fun x hx => hwf x (List.mem_cons_of_mem _ hx)) _

theorem skipLine_header (t a rest : List UInt8) (h : (10 : UInt8) ∉ a) : skipLine t (a ++ 10 :: rest) = rest := by
  have : (a ++ 10 :: rest).dropWhile (fun b => b != 10) = 10 :: rest :=
    dropWhile_append_stop (fun c hc => by
      cases hh : c != 10
      · simp at hh; exact absurd (hh ▸ hc) h
      · rfl) (by simp)
  simp only [skipLine, this]

theorem payload_header (C : Codec) (hE : ∀ s, '\n' ∉ s → (10 : UInt8) ∉ C.enc s) (name version : List Char)
    (hn : '\n' ∉ name) (hv : '\n' ∉ version) (X : List UInt8) :
    payload (header C name version ++ X) = X := by
  have h1 : (10 : UInt8) ∉ C.enc hdr1 := hE _ (by decide)
  have h2 : (10 : UInt8) ∉ C.enc (hdrProject ++ name) := hE _ (by
    intro hh; rcases List.mem_append.1 hh with hh | hh
    · exact absurd hh (by decide)
    · exact hn hh)
  have h3 : (10 : UInt8) ∉ C.enc (hdrVersion ++ version) := hE _ (by
    intro hh; rcases List.mem_append.1 hh with hh | hh
    · exact absurd hh (by decide)
    · exact hv hh)
  have h4 : (10 : UInt8) ∉ C.enc hdr4 := hE _ (by decide)
  have e : header C name version ++ X
      = C.enc hdr1 ++ 10 :: (C.enc (hdrProject ++ name) ++ 10 :: (C.enc (hdrVersion ++ version) ++ 10 :: (C.enc hdr4 ++ 10 :: X))) := by
    simp [header]
  unfold payload
  generalize header C name version ++ X = t at e
  rw [show skipLine t t = C.enc (hdrProject ++ name) ++ 10 :: (C.enc (hdrVersion ++ version) ++ 10 :: (C.enc hdr4 ++ 10 :: X)) by
        conv => lhs; arg 2; rw [e]
        exact skipLine_header t _ _ h1]
  rw [skipLine_header t _ _ h2, skipLine_header t _ _ h3, skipLine_header t _ _ h4]

theorem dictSet_fresh {κ ν : Type} [DecidableEq κ] (d : List (κ × ν)) (k : κ) (v : ν) (h : k ∉ d.map Prod.fst) :
    dictSet d k v = d ++ [(k, v)] := by
  induction d with
  | nil => rfl
  | cons a t ih =>
    obtain ⟨k', v'⟩ := a
    have hk : k' ≠ k := fun hh => h (by simp [hh])
    simp only [dictSet, hk, if_false, List.cons_append, ih (fun hh => h (by simp at hh ⊢; exact Or.inr hh))]

theorem foldl_dictSet_nodup {κ ν : Type} [DecidableEq κ] (l d : List (κ × ν))
    (h : (d.map Prod.fst ++ l.map Prod.fst).Nodup) :
    l.foldl (fun acc kv => dictSet acc kv.1 kv.2) d = d ++ l := by
  induction l generalizing d with
  | nil => simp
  | cons a t ih =>
    have hk : a.1 ∉ d.map Prod.fst := by
      intro hh
      rw [List.nodup_append] at h
      exact h.2.2 _ hh _ (by simp) rfl
    simp only [List.foldl_cons, dictSet_fresh d a.1 a.2 hk]
    rw [ih (d ++ [(a.1, a.2)]) (by simpa [List.map_append, List.append_assoc] using h)]
    simp


/-! ### characters of a dirhtml URI -/

theorem mem_stripKnown (ss : List (List Char)) (nm : List Char) (c : Char) : c ∈ stripKnown ss nm → c ∈ nm := by
  induction ss with
  | nil => exact id
  | cons s t ih =>
    unfold stripKnown
    split
    · exact List.mem_of_mem_take
    · exact ih

theorem mem_joinSlash (ps : List (List Char)) (c : Char) : c ∈ joinSlash ps → c = '/' ∨ ∃ p ∈ ps, c ∈ p := by
  induction ps with
  | nil => intro h; cases h
  | cons p t ih =>
    cases t with
    | nil => intro h; exact Or.inr ⟨p, by simp, h⟩
    | cons q u =>
      intro h
      simp only [joinSlash, List.mem_append, List.mem_cons] at h
      rcases h with h | h | h
      · exact Or.inr ⟨p, by simp, h⟩
      · exact Or.inl h
      · rcases ih h with h | ⟨x, hx, hc⟩
        · exact Or.inl h
        · exact Or.inr ⟨x, List.mem_cons_of_mem _ hx, hc⟩

theorem mem_withoutKnownSuffix {parts : List (List Char)} {s : List Char} {c : Char}
    (h : withoutKnownSuffix parts = some s) (hc : c ∈ s) : c = '/' ∨ ∃ p ∈ parts, c ∈ p := by
  unfold withoutKnownSuffix at h
  split at h
  · cases h
  · rename_i nm hnm
    simp only at h
    split at h
    · cases h
    · simp only [Option.some.injEq] at h
      subst h
      rcases mem_joinSlash _ c hc with h | ⟨x, hx, hcx⟩
      · exact Or.inl h
      · rcases List.mem_append.1 hx with hx | hx
        · exact Or.inr ⟨x, List.dropLast_subset _ hx, hcx⟩
        · simp only [List.mem_singleton] at hx
          subst hx
          exact Or.inr ⟨nm, List.mem_of_getLast? hnm, mem_stripKnown _ _ _ hcx⟩

theorem mem_asDirhtml {parts : List (List Char)} {s : List Char} {c : Char}
    (h : asDirhtml parts = some s) (hc : c ∈ s) : c = '/' ∨ ∃ p ∈ parts, c ∈ p := by
  unfold asDirhtml at h
  split at h
  · simp only [Option.some.injEq] at h; subst h; cases hc
  · split at h
    · cases h
    · rename_i w hw
      simp only [Option.some.injEq] at h
      subst h
      rcases List.mem_append.1 hc with hc | hc
      · exact mem_withoutKnownSuffix hw hc
      · simp at hc; exact Or.inl hc

/-! ### lookups in a loaded inventory -/

theorem lookup_of_mem_nodup (l : Dict) (k : List Char) (e : Entry) (hm : (k, e) ∈ l)
    (hn : (l.map Prod.fst).Nodup) : l.lookup k = some e := by
  induction l with
  | nil => cases hm
  | cons a t ih =>
    obtain ⟨k', e'⟩ := a
    simp only [List.map_cons, List.nodup_cons] at hn
    rw [List.lookup_cons]
    rcases List.mem_cons.1 hm with h | h
    · simp only [Prod.mk.injEq] at h
      simp [h.1, h.2]
    · have hne : (k == k') = false := by
        cases hh : k == k'
        · rfl
        · simp at hh
          exact absurd (List.mem_map.2 ⟨(k, e), h, rfl⟩) (hh ▸ hn.1)
      simp only [hne]
      exact ih h hn.2

end SnootyVerif.Inventory
