import SnootyVerif.Model.SubstCtx

/-! Lemmas about `extract_inline` / `search_inline` / `search_block` (Model/SubstCtx.lean). -/
namespace SnootyVerif.SubstCtx

theorem extractInline_ok (ns : List Node) : ∃ r, extractInline ns = .ok r := by
  unfold extractInline
  split
  · exact ⟨_, rfl⟩
  · rename_i h
    split
    · simp at h
    · split <;> exact ⟨_, rfl⟩
    · exact ⟨_, rfl⟩

theorem extractInline_some {ns out : List Node} (h : extractInline ns = .ok (some out)) :
    (ns.all Node.isInline = true ∧ out = ns) ∨
    (ns.all Node.isInline = false ∧ ∃ id, ns = [.para id out] ∧ out.all Node.isInline = true) := by
  unfold extractInline at h
  split at h
  · rename_i ha
    simp only [Except.ok.injEq, Option.some.injEq] at h
    exact Or.inl ⟨ha, h.symm⟩
  · rename_i ha
    split at h
    · cases h
    · rename_i id cs
      split at h
      · rename_i hc
        simp only [Except.ok.injEq, Option.some.injEq] at h
        subst h
        exact Or.inr ⟨by simpa using ha, id, rfl, hc⟩
      · cases h
    · cases h

theorem extractInline_of_inline {ns : List Node} (h : ns.all Node.isInline = true) :
    extractInline ns = .ok (some ns) := by
  unfold extractInline; rw [if_pos h]

theorem extractInline_of_para {id : Nat} {cs : List Node} (h : cs.all Node.isInline = true) :
    extractInline [.para id cs] = .ok (some cs) := by
  unfold extractInline
  simp [Node.isInline, h]

theorem extractInline_none_of {ns : List Node} (h1 : ns.all Node.isInline = false)
    (h2 : ∀ id cs, ns = [.para id cs] → cs.all Node.isInline = false) : extractInline ns = .ok none := by
  unfold extractInline
  rw [if_neg (by simp [h1])]
  split
  · simp at h1
  · rename_i id cs
    rw [if_neg (by simp [h2 id cs rfl])]
  · rfl

/-! ## search_block -/

theorem unwrap_append_of_nowrap (xs ys : List Node) (h : ∀ x ∈ xs, x.isWrap = false) :
    unwrap (xs ++ ys) = xs ++ unwrap ys := by
  induction xs with
  | nil => rfl
  | cons a t ih =>
    have ha := h a (by simp)
    cases a with
    | wrap cs => simp [Node.isWrap] at ha
    | inl i => simp [unwrap, ih (fun x hx => h x (by simp [hx]))]
    | para i cs => simp [unwrap, ih (fun x hx => h x (by simp [hx]))]
    | blk i => simp [unwrap, ih (fun x hx => h x (by simp [hx]))]

theorem unwrap_blockGo (ns : List Node) : ∀ cur, (∀ x ∈ ns, x.isWrap = false) →
    unwrap (blockGo cur ns) = cur ++ ns := by
  induction ns with
  | nil =>
    intro cur _
    simp only [blockGo]
    split
    · rename_i h; simp at h; simp [h, unwrap]
    · simp [unwrap]
  | cons e rest ih =>
    intro cur hw
    have hrest : ∀ x ∈ rest, x.isWrap = false := fun x hx => hw x (by simp [hx])
    have he : e.isWrap = false := hw e (by simp)
    simp only [blockGo]
    split
    · rw [ih _ hrest]; simp
    · have hun : unwrap (e :: blockGo [] rest) = e :: rest := by
        have := unwrap_append_of_nowrap [e] (blockGo [] rest) (by simpa using he)
        simpa [ih [] hrest] using this
      split
      · rename_i h; simp at h; subst h; simpa using hun
      · simp only [List.singleton_append, unwrap, hun]

theorem blockGo_no_inline (ns : List Node) : ∀ cur x, x ∈ blockGo cur ns → x.isInline = false := by
  induction ns with
  | nil =>
    intro cur x hx
    simp only [blockGo] at hx
    split at hx
    · simp at hx
    · simp at hx; subst hx; rfl
  | cons e rest ih =>
    intro cur x hx
    simp only [blockGo] at hx
    split at hx
    · exact ih _ x hx
    · rename_i he
      rcases List.mem_append.1 hx with h | h
      · split at h
        · simp at h
        · simp at h; subst h; rfl
      · rcases List.mem_cons.1 h with h | h
        · subst h; simpa using he
        · exact ih _ x h

theorem blockGo_wraps (ns : List Node) : ∀ cur, cur.all Node.isInline = true → (∀ x ∈ ns, x.isWrap = false) →
    ∀ cs, Node.wrap cs ∈ blockGo cur ns → cs ≠ [] ∧ cs.all Node.isInline = true := by
  induction ns with
  | nil =>
    intro cur hc _ cs hx
    simp only [blockGo] at hx
    split at hx
    · simp at hx
    · rename_i hne
      simp at hx; subst hx
      exact ⟨by simpa using hne, hc⟩
  | cons e rest ih =>
    intro cur hc hw cs hx
    have hrest : ∀ x ∈ rest, x.isWrap = false := fun x hx => hw x (by simp [hx])
    simp only [blockGo] at hx
    split at hx
    · rename_i he
      exact ih _ (by simp [List.all_append, hc, he]) hrest cs hx
    · rcases List.mem_append.1 hx with h | h
      · split at h
        · simp at h
        · rename_i hne
          simp at h; subst h
          exact ⟨by simpa using hne, hc⟩
      · rcases List.mem_cons.1 h with h | h
        · have := hw e (by simp); rw [← h] at this; simp [Node.isWrap] at this
        · exact ih [] (by simp) hrest cs h

/-- the first node of `blockGo [] ns` is a created paragraph only if `ns` starts with an inline node -/
theorem blockGo_nil_head (ns : List Node) (hw : ∀ x ∈ ns, x.isWrap = false) :
    ∀ a t, blockGo [] ns = a :: t → a.isWrap = true → ∃ e r, ns = e :: r ∧ e.isInline = true := by
  intro a t h ha
  cases ns with
  | nil => simp [blockGo] at h
  | cons e r =>
    by_cases he : e.isInline = true
    · exact ⟨e, r, rfl, he⟩
    · simp only [blockGo, he] at h
      simp at h
      have := hw e (by simp)
      rw [h.1] at this; rw [this] at ha; cases ha

theorem noAdjacentWraps_cons_nowrap (a : Node) (l : List Node) (ha : a.isWrap = false)
    (hl : noAdjacentWraps l = true) : noAdjacentWraps (a :: l) = true := by
  cases l with
  | nil => rfl
  | cons b r => simp [noAdjacentWraps, ha, hl]

theorem blockGo_coalesced (ns : List Node) : ∀ cur, (∀ x ∈ ns, x.isWrap = false) →
    noAdjacentWraps (blockGo cur ns) = true := by
  induction ns with
  | nil => intro cur _; simp only [blockGo]; split <;> rfl
  | cons e rest ih =>
    intro cur hw
    have hrest : ∀ x ∈ rest, x.isWrap = false := fun x hx => hw x (by simp [hx])
    have he : e.isWrap = false := hw e (by simp)
    simp only [blockGo]
    split
    · exact ih _ hrest
    · have h1 : noAdjacentWraps (e :: blockGo [] rest) = true :=
        noAdjacentWraps_cons_nowrap e _ he (ih [] hrest)
      split
      · simpa using h1
      · simp only [List.singleton_append]
        simp only [noAdjacentWraps, he, Bool.and_false, Bool.not_false, Bool.true_and]
        exact h1

end SnootyVerif.SubstCtx
