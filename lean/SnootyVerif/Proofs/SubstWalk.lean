import SnootyVerif.Proofs.Subst

/-! The static kernel `expandStatic` (about which termination is proved) is what the general
executable walk `walkItems` computes on a page without definitions and include replacements. -/
namespace SnootyVerif.Subst

/-- parser-fresh items: references carry no children yet -/
def fresh : List Item → Bool
  | [] => true
  | .txt _ :: rest => fresh rest
  | .ref _ _ _ cs :: rest => cs.isEmpty && fresh rest

def freshEnv (env : Table) : Prop := ∀ k b, tget env k = some b → fresh b = true

/-- a handler state on a page without definitions / replacements, outside any definition -/
def Plain (st : St) : Prop := st.defs = [] ∧ st.stack = [] ∧ st.seen = none

def toDiags (file : String) : List SDiag → List Diag
  | [] => []
  | .circular _ l :: ds => ⟨file, .circular, l⟩ :: toDiags file ds
  | .unresolved _ _ :: ds => toDiags file ds

def toPending (file : String) : List SDiag → List (String × String × Nat)
  | [] => []
  | .circular _ _ :: ds => toPending file ds
  | .unresolved n l :: ds => (n, file, l) :: toPending file ds

theorem toDiags_append (f : String) (a b : List SDiag) : toDiags f (a ++ b) = toDiags f a ++ toDiags f b := by
  induction a with
  | nil => rfl
  | cons d a ih => cases d <;> simp [toDiags, ih]

theorem toPending_append (f : String) (a b : List SDiag) : toPending f (a ++ b) = toPending f a ++ toPending f b := by
  induction a with
  | nil => rfl
  | cons d a ih => cases d <;> simp [toPending, ih]

theorem lookup_plain (st : St) (hp : Plain st) (proj : Table) (name : String) :
    lookupOrder st.stack.head? st.defs proj name = tget proj name := by
  obtain ⟨h1, h2, _⟩ := hp
  simp [lookupOrder, h1, h2, tget]

/-- what the walk leaves behind: same state, diagnostics and queue extended -/
def After (st : St) (ds : List SDiag) : St :=
  { st with diags := st.diags ++ toDiags st.file ds, pending := st.pending ++ toPending st.file ds }

theorem after_nil (st : St) : After st [] = st := by
  simp [After, toDiags, toPending]

theorem after_after (st : St) (a b : List SDiag) : After (After st a) b = After st (a ++ b) := by
  simp [After, toDiags_append, toPending_append, St.file, List.append_assoc]

theorem plain_after (st : St) (ds : List SDiag) (h : Plain st) : Plain (After st ds) := h

end SnootyVerif.Subst

namespace SnootyVerif.Subst

def stCirc (st : St) (line : Nat) : St :=
  { st with diags := st.diags ++ [Diag.mk st.file DKind.circular line], seen := none }
def stPend (st : St) (name : String) (line : Nat) : St :=
  { st with pending := st.pending ++ [(name, st.file, line)], seen := none }
def stIn (st : St) (name : String) : St := { st with seen := none, active := name :: st.active }
def stAfter (st : St) (ds : List SDiag) : St :=
  { st with pending := st.pending ++ toPending st.file ds, diags := st.diags ++ toDiags st.file ds, seen := none }

theorem walkItems_nil (proj : Table) (fuel : Nat) (st : St) : walkItems proj fuel st [] = some (st, []) := by
  cases fuel <;> simp [walkItems]

theorem walk_of_static (proj : Table) (hf : freshEnv proj) :
    ∀ (fuel : Nat) (st : St) (items : List Item) (r : List Item × List SDiag),
      Plain st → fresh items = true →
      expandStatic proj fuel st.active items = some r →
      walkItems proj fuel st items = some (After st r.2, r.1) := by
  intro fuel
  induction fuel with
  | zero => intro st items r _ _ h; simp [expandStatic] at h
  | succ f ihf =>
    intro st items
    induction items generalizing st with
    | nil =>
      intro r _ _ h
      simp only [expandStatic, expandLevel, Option.some.injEq] at h
      subst h
      simp [walkItems, after_nil]
    | cons it rest ih =>
      intro r hp hfr h
      cases it with
      | txt s =>
        simp only [expandStatic, expandLevel] at h
        simp only [fresh] at hfr
        split at h
        · cases h
        · rename_i r' hr'
          cases h
          have := ih st r' hp hfr (by simpa [expandStatic] using hr')
          simp [walkItems, this]
      | ref name line pend cs =>
        simp only [fresh, Bool.and_eq_true, List.isEmpty_iff] at hfr
        obtain ⟨hcs, hfr⟩ := hfr
        subst hcs
        simp only [expandStatic, expandLevel] at h
        have hseen : st.seen = none := hp.2.2
        split at h
        · -- circular
          rename_i hc
          split at h
          · cases h
          · rename_i r' hr'
            cases h
            simp only [walkItems, hseen, Option.isNone_none, Bool.true_and, hc, if_true]
            have key := ih (stCirc st line) r' ⟨hp.1, hp.2.1, rfl⟩ hfr (by simpa [expandStatic, stCirc] using hr')
            simp only [stCirc] at key
            rw [key]
            simp [After, toDiags, toPending, St.file, List.append_assoc, hseen]
        · rename_i hc
          have hc' : st.active.contains name = false := by simpa using hc
          split at h
          · -- unresolved
            rename_i hl
            split at h
            · cases h
            · rename_i r' hr'
              cases h
              simp only [walkItems, hseen, Option.isNone_none, Bool.true_and, hc', Bool.false_eq_true, if_false,
                lookup_plain st hp, hl, Option.map_none, walkItems_nil, List.drop_succ_cons, List.drop_zero]
              have key := ih (stPend st name line) r' ⟨hp.1, hp.2.1, rfl⟩ hfr (by simpa [expandStatic, stPend] using hr')
              simp only [stPend, St.file] at key ⊢
              rw [key]
              simp [After, toDiags, toPending, St.file, List.append_assoc, hseen]
          · -- found
            rename_i body hb
            split at h
            · cases h
            · rename_i k hk
              split at h
              · cases h
              · rename_i r' hr'
                cases h
                simp only [walkItems, hseen, Option.isNone_none, Bool.true_and, hc', Bool.false_eq_true, if_false,
                  lookup_plain st hp, hb, Option.map_none]
                have key1 := ihf (stIn st name) body k ⟨hp.1, hp.2.1, rfl⟩ (hf name body hb) (by simpa [stIn] using hk)
                simp only [stIn] at key1
                rw [key1]
                simp only [After, List.drop_succ_cons, List.drop_zero, St.file]
                have key2 := ih (stAfter st k.2) r' ⟨hp.1, hp.2.1, rfl⟩ hfr (by simpa [expandStatic, stAfter] using hr')
                simp only [stAfter, St.file] at key2
                rw [key2]
                simp [After, toDiags_append, toPending_append, St.file, List.append_assoc, hseen]

end SnootyVerif.Subst
