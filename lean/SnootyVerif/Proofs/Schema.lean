import SnootyVerif.Model.Schema
/-! Lemmas about `serialize`, `wf`, `wfJson` (C04). -/
namespace SnootyVerif.Schema

/-! ### the encoder only ever raises `EncodeError` -/
mutual
theorem plain_err : ∀ (v : Val) (e : PyErr), plain v = .error e → e = .EncodeError
  | .none, e, h => by simp [plain] at h
  | .bool _, e, h => by simp [plain] at h
  | .int _, e, h => by simp [plain] at h
  | .float _ _, e, h => by simp [plain] at h
  | .str _, e, h => by simp [plain] at h
  | .entry _ _ _ _, e, h => by simp [plain] at h
  | .fileid _, e, h => by simp [plain] at h; exact h.symm
  | .enum _, e, h => by simp [plain] at h; exact h.symm
  | .node _, e, h => by simp [plain] at h; exact h.symm
  | .other _, e, h => by simp [plain] at h; exact h.symm
  | .list xs, e, h => by
      simp only [plain] at h
      cases hx : plainList xs with
      | ok js => simp [hx] at h
      | error e' => simp [hx] at h; subst h; exact plainList_err xs _ hx
  | .tuple xs, e, h => by
      simp only [plain] at h
      cases hx : plainList xs with
      | ok js => simp [hx] at h
      | error e' => simp [hx] at h; subst h; exact plainList_err xs _ hx
  | .dict kvs, e, h => by
      simp only [plain] at h
      cases hx : plainKvs kvs with
      | ok js => simp [hx] at h
      | error e' => simp [hx] at h; subst h; exact plainKvs_err kvs _ hx
theorem plainList_err : ∀ (xs : Vals) (e : PyErr), plainList xs = .error e → e = .EncodeError
  | .nil, e, h => by simp [plainList] at h
  | .cons v vs, e, h => by
      simp only [plainList] at h
      cases hv : plain v with
      | error e' => simp [hv] at h; subst h; exact plain_err v _ hv
      | ok j =>
        cases hvs : plainList vs with
        | error e' => simp [hv, hvs] at h; subst h; exact plainList_err vs _ hvs
        | ok js => simp [hv, hvs] at h
theorem plainKvs_err : ∀ (xs : Flds) (e : PyErr), plainKvs xs = .error e → e = .EncodeError
  | .nil, e, h => by simp [plainKvs] at h
  | .cons k v vs, e, h => by
      simp only [plainKvs] at h
      cases hv : plain v with
      | error e' => simp [hv] at h; subst h; exact plain_err v _ hv
      | ok j =>
        cases hvs : plainKvs vs with
        | error e' => simp [hv, hvs] at h; subst h; exact plainKvs_err vs _ hvs
        | ok js => simp [hv, hvs] at h
end

/-! ### serializable values encode -/
mutual
theorem isSer_plain : ∀ (v : Val), isSer v = true → ∃ j, plain v = .ok j
  | .none, _ => ⟨_, rfl⟩
  | .bool _, _ => ⟨_, rfl⟩
  | .int _, _ => ⟨_, rfl⟩
  | .float _ _, _ => ⟨_, rfl⟩
  | .str _, _ => ⟨_, rfl⟩
  | .entry _ _ _ _, h => by simp [isSer] at h
  | .fileid _, h => by simp [isSer] at h
  | .enum _, h => by simp [isSer] at h
  | .node _, h => by simp [isSer] at h
  | .other _, h => by simp [isSer] at h
  | .list xs, h => by
      simp only [isSer] at h
      obtain ⟨js, hjs⟩ := isSerList_plain xs h
      exact ⟨.arr js, by simp [plain, hjs]⟩
  | .tuple xs, h => by
      simp only [isSer] at h
      obtain ⟨js, hjs⟩ := isSerList_plain xs h
      exact ⟨.arr js, by simp [plain, hjs]⟩
  | .dict kvs, h => by
      simp only [isSer] at h
      obtain ⟨js, hjs⟩ := isSerKvs_plain kvs h
      exact ⟨.obj js, by simp [plain, hjs]⟩
theorem isSerList_plain : ∀ (xs : Vals), isSerList xs = true → ∃ js, plainList xs = .ok js
  | .nil, _ => ⟨_, rfl⟩
  | .cons v vs, h => by
      simp only [isSerList, Bool.and_eq_true] at h
      obtain ⟨j, hj⟩ := isSer_plain v h.1
      obtain ⟨js, hjs⟩ := isSerList_plain vs h.2
      exact ⟨.cons j js, by simp [plainList, hj, hjs]⟩
theorem isSerKvs_plain : ∀ (xs : Flds), isSerKvs xs = true → ∃ js, plainKvs xs = .ok js
  | .nil, _ => ⟨_, rfl⟩
  | .cons k v vs, h => by
      simp only [isSerKvs, Bool.and_eq_true] at h
      obtain ⟨j, hj⟩ := isSer_plain v h.1
      obtain ⟨js, hjs⟩ := isSerKvs_plain vs h.2
      exact ⟨.cons k j js, by simp [plainKvs, hj, hjs]⟩
end

/-! ### values of a declared shape encode to JSON of that shape -/

theorem all_plainList (p : Val → Bool) (q : Json → Bool)
    (hp : ∀ v, p v = true → ∃ j, plain v = .ok j ∧ q j = true) :
    ∀ (xs : Vals), Vals.all p xs = true → ∃ js, plainList xs = .ok js ∧ JList.all q js = true
  | .nil, _ => ⟨.nil, rfl, rfl⟩
  | .cons v vs, h => by
      simp only [Vals.all, Bool.and_eq_true] at h
      obtain ⟨j, hj, hq⟩ := hp v h.1
      obtain ⟨js, hjs, hqs⟩ := all_plainList p q hp vs h.2
      exact ⟨.cons j js, by simp [plainList, hj, hjs], by simp [JList.all, hq, hqs]⟩

theorem all_plainKvs (p : Val → Bool) (q : Json → Bool)
    (hp : ∀ v, p v = true → ∃ j, plain v = .ok j ∧ q j = true) :
    ∀ (xs : Flds), Flds.allVals p xs = true → ∃ js, plainKvs xs = .ok js ∧ JKvs.allVals q js = true
  | .nil, _ => ⟨.nil, rfl, rfl⟩
  | .cons k v vs, h => by
      simp only [Flds.allVals, Bool.and_eq_true] at h
      obtain ⟨j, hj, hq⟩ := hp v h.1
      obtain ⟨js, hjs, hqs⟩ := all_plainKvs p q hp vs h.2
      exact ⟨.cons k j js, by simp [plainKvs, hj, hjs], by simp [JKvs.allVals, hq, hqs]⟩

theorem pair_inv (a b : Shape) (xs : Vals)
    (h : conformsIn (.pair a b) (.list xs) = true ∨ conformsIn (.pair a b) (.tuple xs) = true) :
    ∃ x y, xs = .cons x (.cons y .nil) ∧ conformsIn a x = true ∧ conformsIn b y = true := by
  cases xs with
  | nil => simp [conformsIn] at h
  | cons x r => cases r with
    | nil => simp [conformsIn] at h
    | cons y r2 => cases r2 with
      | nil => simp [conformsIn] at h; exact ⟨x, y, rfl, h⟩
      | cons _ _ => simp [conformsIn] at h

theorem conformsIn_plain : ∀ (sh : Shape) (v : Val), conformsIn sh v = true →
    ∃ j, plain v = .ok j ∧ jsonShape sh j = true
  | .str, v, h => by cases v <;> simp [conformsIn] at h; exact ⟨_, rfl, rfl⟩
  | .int, v, h => by cases v <;> simp [conformsIn] at h; exact ⟨_, rfl, rfl⟩
  | .bool, v, h => by cases v <;> simp [conformsIn] at h; exact ⟨_, rfl, rfl⟩
  | .ser, v, h => by
      simp only [conformsIn] at h
      obtain ⟨j, hj⟩ := isSer_plain v h
      exact ⟨j, hj, by simp [jsonShape]⟩
  | .list s, v, h => by
      cases v <;> simp only [conformsIn] at h <;> try (exact absurd h (by decide))
      all_goals
        rename_i xs
        obtain ⟨js, hjs, hq⟩ := all_plainList _ (fun j => jsonShape s j) (fun v hv => conformsIn_plain s v hv) xs h
        exact ⟨.arr js, by simp [plain, hjs], by simp [jsonShape, hq]⟩
  | .dict s, v, h => by
      cases v <;> simp only [conformsIn] at h <;> try (exact absurd h (by decide))
      rename_i kvs
      obtain ⟨js, hjs, hq⟩ := all_plainKvs _ (fun j => jsonShape s j) (fun v hv => conformsIn_plain s v hv) kvs h
      exact ⟨.obj js, by simp [plain, hjs], by simp [jsonShape, hq]⟩
  | .pair a b, v, h => by
      cases v <;> try (simp [conformsIn] at h; done)
      case list xs =>
        obtain ⟨x, y, rfl, hx, hy⟩ := pair_inv a b xs (Or.inl h)
        obtain ⟨jx, hjx, hqx⟩ := conformsIn_plain a x hx
        obtain ⟨jy, hjy, hqy⟩ := conformsIn_plain b y hy
        exact ⟨.arr (.cons jx (.cons jy .nil)), by simp [plain, plainList, hjx, hjy], by simp [jsonShape, hqx, hqy]⟩
      case tuple xs =>
        obtain ⟨x, y, rfl, hx, hy⟩ := pair_inv a b xs (Or.inr h)
        obtain ⟨jx, hjx, hqx⟩ := conformsIn_plain a x hx
        obtain ⟨jy, hjy, hqy⟩ := conformsIn_plain b y hy
        exact ⟨.arr (.cons jx (.cons jy .nil)), by simp [plain, plainList, hjx, hjy], by simp [jsonShape, hqx, hqy]⟩


/-! ### list fields whose elements have no `serialize` method go through the encoder unchanged -/

def notObj : Val → Bool
  | .node _ => false
  | .entry _ _ _ _ => false
  | _ => true

def noObj : Vals → Bool
  | .nil => true
  | .cons v vs => notObj v && noObj vs

theorem serElems_eq_plainList : ∀ (xs : Vals), noObj xs = true → serElems xs = plainList xs
  | .nil, _ => by simp [serElems, plainList]
  | .cons v vs, h => by
      simp only [noObj, Bool.and_eq_true] at h
      have ih := serElems_eq_plainList vs h.2
      have he : serElem v = plain v := by cases v <;> simp [notObj] at h <;> simp [serElem]
      simp [serElems, plainList, ih, he]

theorem isSer_notObj (v : Val) (h : isSer v = true) : notObj v = true := by
  cases v <;> simp [isSer] at h <;> simp [notObj]

theorem conformsIn_notObj (sh : Shape) (v : Val) (h : conformsIn sh v = true) : notObj v = true := by
  cases sh <;> cases v <;> first | rfl | (simp [conformsIn, isSer] at h)

theorem all_noObj (p : Val → Bool) (hp : ∀ v, p v = true → notObj v = true) :
    ∀ (xs : Vals), Vals.all p xs = true → noObj xs = true
  | .nil, _ => rfl
  | .cons v vs, h => by
      simp only [Vals.all, Bool.and_eq_true] at h
      simp [noObj, hp v h.1, all_noObj p hp vs h.2]

theorem isSerList_noObj : ∀ (xs : Vals), isSerList xs = true → noObj xs = true
  | .nil, _ => rfl
  | .cons v vs, h => by
      simp only [isSerList, Bool.and_eq_true] at h
      simp [noObj, isSer_notObj v h.1, isSerList_noObj vs h.2]

/-- the top-level value is handled by a verbatim branch of `serialize` -/
def topPure : Val → Bool
  | .none => true
  | .bool _ => true
  | .int _ => true
  | .float _ _ => true
  | .str _ => true
  | .dict _ => true
  | .list xs => noObj xs
  | .tuple xs => noObj xs
  | _ => false

theorem isSer_topPure (v : Val) (h : isSer v = true) : topPure v = true := by
  cases v <;> simp [isSer] at h <;> simp [topPure]
  all_goals exact isSerList_noObj _ h

theorem conformsIn_topPure (sh : Shape) (v : Val) (h : conformsIn sh v = true) : topPure v = true := by
  cases sh with
  | str => cases v <;> simp [conformsIn] at h <;> rfl
  | int => cases v <;> simp [conformsIn] at h <;> rfl
  | bool => cases v <;> simp [conformsIn] at h <;> rfl
  | ser => exact isSer_topPure v (by simpa [conformsIn] using h)
  | list s =>
    cases v <;> simp only [conformsIn] at h <;> try (exact absurd h (by decide))
    all_goals exact all_noObj _ (fun v hv => conformsIn_notObj s v hv) _ h
  | dict s => cases v <;> simp [conformsIn] at h <;> rfl
  | pair a b =>
    cases v <;> try (simp [conformsIn] at h; done)
    case list xs =>
      obtain ⟨x, y, rfl, hx, hy⟩ := pair_inv a b xs (Or.inl h)
      simp [topPure, noObj, conformsIn_notObj a x hx, conformsIn_notObj b y hy]
    case tuple xs =>
      obtain ⟨x, y, rfl, hx, hy⟩ := pair_inv a b xs (Or.inr h)
      simp [topPure, noObj, conformsIn_notObj a x hx, conformsIn_notObj b y hy]

theorem serField_of_plain (v : Val) (j : Json) (hp : topPure v = true) (h : plain v = .ok j) :
    serField v = .ok (if v.isSet then some j else none) := by
  cases v <;> simp [topPure] at hp
  case none => simp [serField, Val.isSet]
  case bool b => simp [plain] at h; simp [serField, Val.isSet, h]
  case int i => simp [plain] at h; simp [serField, Val.isSet, h]
  case float m e => simp [plain] at h; simp [serField, Val.isSet, h]
  case str s => simp [plain] at h; simp [serField, Val.isSet, h]
  case dict kvs =>
    cases kvs with
    | nil => simp [serField, Val.isSet]
    | cons k v rest =>
      simp only [plain] at h
      cases hx : plainKvs (.cons k v rest) with
      | error e => simp [hx] at h
      | ok js => simp [hx] at h; simp [serField, Val.isSet, hx, h]
  case list xs =>
    simp only [plain] at h
    cases hx : plainList xs with
    | error e => simp [hx] at h
    | ok js => simp [hx] at h; simp [serField, Val.isSet, serElems_eq_plainList xs hp, hx, h]
  case tuple xs =>
    simp only [plain] at h
    cases hx : plainList xs with
    | error e => simp [hx] at h
    | ok js => simp [hx] at h; simp [serField, Val.isSet, serElems_eq_plainList xs hp, hx, h]

theorem conformsIn_serField (sh : Shape) (v : Val) (h : conformsIn sh v = true) :
    ∃ r, serField v = .ok r ∧ ∀ j, r = some j → jsonShape sh j = true := by
  obtain ⟨j, hj, hq⟩ := conformsIn_plain sh v h
  refine ⟨_, serField_of_plain v j (conformsIn_topPure sh v h) hj, ?_⟩
  intro j' hj'
  split at hj'
  · cases hj'; exact hq
  · cases hj'

/-- the key is emitted exactly for values that are set -/
theorem serField_isSome (v : Val) (r : Option Json) (h : serField v = .ok r) : r.isSome = v.isSet := by
  cases v
  case dict kvs =>
    cases kvs with
    | nil => simp [serField] at h; subst h; rfl
    | cons k v rest =>
      simp only [serField] at h
      split at h <;> simp at h
      subst h; rfl
  case node a =>
    simp only [serField] at h
    split at h <;> simp at h
    subst h; rfl
  case list xs =>
    simp only [serField] at h
    split at h <;> simp at h
    subst h; rfl
  case tuple xs =>
    simp only [serField] at h
    split at h <;> simp at h
    subst h; rfl
  all_goals (simp [serField] at h; try subst h; try rfl)

/-! ### `TocTreeDirectiveEntry.serialize` -/

theorem entryField_ok (k : String) (v : Option String) (rest : JKvs)
    (hk : entryKeys.contains k = true) (hr : entryKvsOk rest = true) :
    entryKvsOk (entryField k v rest) = true := by
  unfold entryField
  split
  · split
    · exact hr
    · simp only [entryKvsOk, hk, hr, Bool.and_self]
  · exact hr

theorem entryObj_ok (t u s r : Option String) : jsonEntry (entryObj t u s r) = true := by
  simp only [entryObj, jsonEntry]
  apply entryField_ok _ _ _ (by decide)
  apply entryField_ok _ _ _ (by decide)
  apply entryField_ok _ _ _ (by decide)
  apply entryField_ok _ _ _ (by decide)
  rfl

theorem entries_ser : ∀ (xs : Vals), Vals.all isEntry xs = true →
    ∃ js, serElems xs = .ok js ∧ JList.all jsonEntry js = true
  | .nil, _ => ⟨.nil, rfl, rfl⟩
  | .cons v vs, h => by
      simp only [Vals.all, Bool.and_eq_true] at h
      obtain ⟨js, hjs, hq⟩ := entries_ser vs h.2
      cases v <;> simp [isEntry] at h
      rename_i t u s r
      exact ⟨.cons (entryObj t u s r) js, by simp [serElems, serElem, hjs], by simp [JList.all, entryObj_ok, hq]⟩

theorem spanOk_line (span : Val) (h : spanOk span = true) : ∃ i, spanLine span = .ok (.int i) := by
  cases span <;> simp [spanOk] at h
  all_goals
    rename_i xs
    cases xs with
    | nil => simp [spanOk] at h
    | cons x r => cases x <;> simp [spanOk] at h <;> exact ⟨_, rfl⟩

theorem hasKey_of_hasSet_ser :
    ∀ (fs : Flds) (kvs : JKvs), serFlds fs = .ok kvs → ∀ k, fs.hasSet k = true → kvs.hasKey k = true
  | .nil, kvs, _, k, hk => by simp [Flds.hasSet] at hk
  | .cons k' v rest, kvs, h, k, hk => by
      simp only [serFlds] at h
      cases hv : serField v with
      | error e => simp [hv] at h
      | ok r =>
        cases hr : serFlds rest with
        | error e => simp [hv, hr] at h
        | ok js =>
          have ih := hasKey_of_hasSet_ser rest js hr k
          have hs := serField_isSome v r hv
          simp only [Flds.hasSet, Bool.or_eq_true, Bool.and_eq_true] at hk
          cases r with
          | none =>
            simp [hv, hr] at h; subst h
            cases hk with
            | inl h1 => simp [← hs] at h1
            | inr h2 => exact ih h2
          | some j =>
            simp [hv, hr] at h; subst h
            cases hk with
            | inl h1 => simp [JKvs.hasKey, h1.1]
            | inr h2 => simp [JKvs.hasKey, ih h2]



/-- a required field that is present and passes its per-field check is emitted -/
theorem required_hasSet (s : Schema) (strict : Bool) (c : ClassInfo) :
    ∀ (fs : Flds), wfFlds s strict c fs = true → ∀ k, fs.hasKey k = true → c.isRequired k = true →
      fs.hasSet k = true
  | .nil, _, k, hk, _ => by simp [Flds.hasKey] at hk
  | .cons k' v rest, h, k, hk, hreq => by
      simp only [wfFlds, Bool.and_eq_true] at h
      obtain ⟨hv, hrest⟩ := h
      simp only [Flds.hasKey, Bool.or_eq_true] at hk
      simp only [Flds.hasSet, Bool.or_eq_true, Bool.and_eq_true]
      by_cases hkk : (k' == k) = true
      · left
        refine ⟨hkk, ?_⟩
        have hkeq : k' = k := by simpa using hkk
        subst hkeq
        unfold ClassInfo.isRequired at hreq
        cases hkd : c.kindOf k' with
        | none => simp [hkd] at hreq
        | some kd =>
          simp only [hkd] at hreq hv
          cases kd with
          | nodes b => cases v <;> simp [wfFld] at hv <;> rfl
          | node b => cases v <;> simp [wfFld] at hv <;> rfl
          | req sh =>
            cases sh <;> simp [Kind.required] at hreq <;> cases v <;> simp [wfFld, conformsIn] at hv <;> rfl
          | opt sh => simp [Kind.required] at hreq
          | fileid => cases v <;> simp [wfFld] at hv <;> rfl
          | enum names => cases v <;> simp [wfFld] at hv <;> rfl
          | entries => cases v <;> simp [wfFld] at hv <;> rfl
      · right
        cases hk with
        | inl h1 => exact absurd h1 hkk
        | inr h2 => exact required_hasSet s strict c rest hrest k h2 hreq

/-! ### main induction: a well-formed AST serializes, to a well-formed document -/

theorem posOk_mk (i : Int) :
    posOk (some (.obj (.cons "start" (.obj (.cons "line" (.num i 0) .nil)) .nil))) = true := by
  simp [posOk, JKvs.lookup]

theorem lookup_type_mk (t p : Json) (kvs : JKvs) :
    JKvs.lookup "type" (.cons "type" t (.cons "position" p kvs)) = some t := by
  simp [JKvs.lookup]

theorem lookup_position_mk (t p : Json) (kvs : JKvs) :
    JKvs.lookup "position" (.cons "type" t (.cons "position" p kvs)) = some p := by
  simp [JKvs.lookup]

/-- the per-key check of `wfJKvs` -/
def jFldOk (s : Schema) (strict : Bool) (okd : Option Kind) (j : Json) : Bool :=
  match okd with
  | some (.node b) => wfJson s strict b j
  | kd => wfJFld s strict kd j

theorem wfJKvs_cons (s : Schema) (strict : Bool) (c : ClassInfo) (k : String) (v : Json) (rest : JKvs) :
    wfJKvs s strict c (.cons k v rest)
      = ((k == "type" || k == "position" || jFldOk s strict (c.kindOf k) v) && wfJKvs s strict c rest) := by
  simp only [wfJKvs, jFldOk]
  cases c.kindOf k with
  | none => rfl
  | some kd => cases kd <;> rfl

theorem find_mem (s : Schema) (cls : String) (c : ClassInfo) (h : s.find cls = some c) : c ∈ s.classes := by
  unfold Schema.find at h
  exact List.mem_of_find?_eq_some h

mutual
theorem wf_ser (s : Schema) (strict : Bool) : ∀ (a : Ast) (b : String), wf s strict b a = true →
    ∃ j, serialize a = .ok j ∧ wfJson s strict b j = true
  | .mk cls tag span fields, b, h => by
      simp only [wf] at h
      cases hc : s.find cls with
      | none => simp [hc] at h
      | some c =>
        simp only [hc, Bool.and_eq_true] at h
        obtain ⟨⟨⟨⟨⟨⟨htag, hint⟩, hmro⟩, hspan⟩, hkeys⟩, hone⟩, hflds⟩ := h
        obtain ⟨i, hi⟩ := spanOk_line span hspan
        obtain ⟨kvs, hkvs, hwk, hset⟩ := wfFlds_ser s strict c fields hflds
        refine ⟨_, by simp only [serialize, hi, hkvs, plain]; rfl, ?_⟩
        simp only [wfJson, lookup_type_mk, lookup_position_mk, posOk_mk, Bool.true_and]
        rw [List.any_eq_true]
        refine ⟨c, find_mem s cls c hc, ?_⟩
        simp only [Bool.and_eq_true]
        refine ⟨⟨⟨⟨⟨htag, hint⟩, hmro⟩, ?_⟩, ?_⟩, ?_⟩
        · rw [List.all_eq_true] at hkeys ⊢
          intro f hf
          have hk := hkeys f hf
          cases hreq : c.isRequired f.1 with
          | false => simp
          | true =>
            simp only [Bool.not_true, Bool.false_or]
            have : fields.hasSet f.1 = true := required_hasSet s strict c fields hflds f.1 hk hreq
            simp [JKvs.hasKey, hset f.1 this]
        · cases strict with
          | false => simp
          | true =>
            simp only [Bool.not_true, Bool.false_or, Bool.or_eq_true] at hone ⊢
            cases hone with
            | inl h1 => exact Or.inl h1
            | inr h2 =>
              right
              rw [List.any_eq_true] at h2 ⊢
              obtain ⟨k, hk, hs⟩ := h2
              exact ⟨k, hk, by simp [JKvs.hasKey, hset k hs]⟩
        · simp [wfJKvs, hwk]
theorem wfFlds_ser (s : Schema) (strict : Bool) (c : ClassInfo) : ∀ (fs : Flds), wfFlds s strict c fs = true →
    ∃ kvs, serFlds fs = .ok kvs ∧ wfJKvs s strict c kvs = true
      ∧ ∀ k, fs.hasSet k = true → kvs.hasKey k = true
  | .nil, _ => ⟨.nil, rfl, by simp [wfJKvs], by intro k hk; simp [Flds.hasSet] at hk⟩
  | .cons k v rest, h => by
      simp only [wfFlds, Bool.and_eq_true] at h
      obtain ⟨hv, hrest⟩ := h
      obtain ⟨js, hjs, hwjs, _⟩ := wfFlds_ser s strict c rest hrest
      -- the field at hand: serializes, and what is emitted passes the per-key check
      have key : ∃ r, serField v = .ok r ∧ ∀ j, r = some j → jFldOk s strict (c.kindOf k) j = true := by
        cases hk : c.kindOf k with
        | none => simp [hk, wfFld] at hv
        | some kd =>
          simp only [hk] at hv
          cases kd with
          | nodes b =>
            cases v <;> simp [wfFld] at hv
            case list xs =>
              obtain ⟨ys, hys, hwy⟩ := wfNodes_ser s strict xs b hv
              exact ⟨some (.arr ys), by simp [serField, hys], by
                intro j hj; cases hj; simp [jFldOk, wfJFld, hwy]⟩
            case tuple xs =>
              obtain ⟨ys, hys, hwy⟩ := wfNodes_ser s strict xs b hv
              exact ⟨some (.arr ys), by simp [serField, hys], by
                intro j hj; cases hj; simp [jFldOk, wfJFld, hwy]⟩
          | node b =>
            cases v <;> simp [wfFld] at hv
            case node a =>
              obtain ⟨j, hj, hwj⟩ := wf_ser s strict a b hv
              exact ⟨some j, by simp [serField, hj], by
                intro j' hj'; cases hj'; simp [jFldOk, wfJFld, hwj]⟩
          | req sh =>
            have hv' : conformsIn sh v = true := by simpa [wfFld] using hv
            obtain ⟨r, hr, hq⟩ := conformsIn_serField sh v hv'
            exact ⟨r, hr, by intro j hj; simp [jFldOk, wfJFld, hq j hj]⟩
          | opt sh =>
            cases v
            case none => exact ⟨none, by simp [serField], by intro j hj; cases hj⟩
            all_goals
              simp only [wfFld] at hv
              obtain ⟨r, hr, hq⟩ := conformsIn_serField sh _ hv
              exact ⟨r, hr, by intro j hj; simp [jFldOk, wfJFld, hq j hj]⟩
          | fileid =>
            cases v <;> simp [wfFld] at hv
            rename_i x
            exact ⟨some (.str x), by simp [serField], by intro j hj; cases hj; simp [jFldOk, wfJFld]⟩
          | enum names =>
            cases v <;> simp [wfFld] at hv
            rename_i x
            exact ⟨some (.str x), by simp [serField], by intro j hj; cases hj; simp [jFldOk, wfJFld, hv]⟩
          | entries =>
            cases v <;> simp [wfFld] at hv
            case list xs =>
              obtain ⟨ys, hys, hq⟩ := entries_ser xs hv
              exact ⟨some (.arr ys), by simp [serField, hys], by
                intro j hj; cases hj; simp [jFldOk, wfJFld, hq]⟩
            case tuple xs =>
              obtain ⟨ys, hys, hq⟩ := entries_ser xs hv
              exact ⟨some (.arr ys), by simp [serField, hys], by
                intro j hj; cases hj; simp [jFldOk, wfJFld, hq]⟩
      obtain ⟨r, hr, hq⟩ := key
      have hser : serFlds (.cons k v rest) = .ok (match r with | some j => .cons k j js | none => js) := by
        simp only [serFlds, hr, hjs]; cases r <;> rfl
      refine ⟨_, hser, ?_, hasKey_of_hasSet_ser _ _ hser⟩
      cases r with
      | none => exact hwjs
      | some j =>
        simp [wfJKvs_cons, hq j rfl, hwjs]
theorem wfNodes_ser (s : Schema) (strict : Bool) : ∀ (xs : Vals) (b : String), wfNodes s strict b xs = true →
    ∃ js, serElems xs = .ok js ∧ wfJList s strict b js = true
  | .nil, _, _ => ⟨.nil, rfl, by simp [wfJList]⟩
  | .cons v vs, b, h => by
      cases v <;> simp [wfNodes] at h
      case node a =>
        obtain ⟨hv, hvs⟩ := h
        obtain ⟨js, hjs, hwjs⟩ := wfNodes_ser s strict vs b hvs
        obtain ⟨j, hj, hwj⟩ := wf_ser s strict a b hv
        exact ⟨.cons j js, by simp [serElems, serElem, hj, hjs], by simp [wfJList, hwj, hwjs]⟩
end

/-! ### `NotImplementedError` is raised only on a value of unknown type -/

theorem plain_not_nie (v : Val) : plain v ≠ .error .NotImplementedError := by
  intro h; have := plain_err v _ h; cases this

mutual
theorem ser_nie : ∀ (a : Ast), serialize a = .error .NotImplementedError → hasUnknown a = true
  | .mk cls tag span fields, h => by
      simp only [serialize] at h
      cases hl : spanLine span with
      | error e =>
        simp only [hl] at h
        cases span <;> simp [spanLine] at hl
        all_goals (try (subst hl; simp at h))
        all_goals
          rename_i xs
          cases xs <;> simp [spanLine] at hl
          subst hl; simp at h
      | ok l =>
        simp only [hl] at h
        cases hf : serFlds fields with
        | error e =>
          simp only [hf] at h
          have : e = .NotImplementedError := by simpa using h
          subst this
          simpa [hasUnknown] using serFlds_nie fields hf
        | ok kvs =>
          simp only [hf] at h
          cases hp : plain l with
          | error e =>
            simp only [hp] at h
            have : e = .NotImplementedError := by simpa using h
            subst this
            exact absurd hp (plain_not_nie l)
          | ok lj => simp [hp] at h
theorem serField_nie : ∀ (v : Val), serField v = .error .NotImplementedError → unkVal v = true
  | .other _, _ => by simp [unkVal]
  | .node a, h => by
      simp only [serField] at h
      cases ha : serialize a with
      | ok j => simp [ha] at h
      | error e =>
        simp only [ha] at h
        have : e = .NotImplementedError := by simpa using h
        subst this
        simpa [unkVal] using ser_nie a ha
  | .list xs, h => by
      simp only [serField] at h
      cases ha : serElems xs with
      | ok j => simp [ha] at h
      | error e =>
        simp only [ha] at h
        have : e = .NotImplementedError := by simpa using h
        subst this
        simpa [unkVal] using serElems_nie xs ha
  | .tuple xs, h => by
      simp only [serField] at h
      cases ha : serElems xs with
      | ok j => simp [ha] at h
      | error e =>
        simp only [ha] at h
        have : e = .NotImplementedError := by simpa using h
        subst this
        simpa [unkVal] using serElems_nie xs ha
  | .dict .nil, h => by simp [serField] at h
  | .dict (.cons k v rest), h => by
      simp only [serField] at h
      cases ha : plainKvs (.cons k v rest) with
      | ok j => simp [ha] at h
      | error e =>
        simp only [ha] at h
        have : e = .NotImplementedError := by simpa using h
        subst this
        have := plainKvs_err _ _ ha
        cases this
  | .none, h => by simp [serField] at h
  | .bool _, h => by simp [serField] at h
  | .int _, h => by simp [serField] at h
  | .float _ _, h => by simp [serField] at h
  | .str _, h => by simp [serField] at h
  | .fileid _, h => by simp [serField] at h
  | .enum _, h => by simp [serField] at h
  | .entry _ _ _ _, h => by simp [serField] at h
theorem serElems_nie : ∀ (xs : Vals), serElems xs = .error .NotImplementedError → unkElems xs = true
  | .nil, h => by simp [serElems] at h
  | .cons v vs, h => by
      simp only [serElems] at h
      cases hv : serElem v with
      | error e =>
        simp only [hv] at h
        have : e = .NotImplementedError := by simpa using h
        subst this
        cases v
        case node a => simp only [serElem] at hv; simp [unkElems, ser_nie a hv]
        case entry t u s r => simp [serElem] at hv
        all_goals (simp only [serElem] at hv; exact absurd hv (plain_not_nie _))
      | ok j =>
        simp only [hv] at h
        cases hvs : serElems vs with
        | error e =>
          simp only [hvs] at h
          have : e = .NotImplementedError := by simpa using h
          subst this
          have := serElems_nie vs hvs
          cases v <;> simp [unkElems, this]
        | ok js => simp [hvs] at h
theorem serFlds_nie : ∀ (fs : Flds), serFlds fs = .error .NotImplementedError → unkFlds fs = true
  | .nil, h => by simp [serFlds] at h
  | .cons k v rest, h => by
      simp only [serFlds] at h
      cases hv : serField v with
      | error e =>
        simp only [hv] at h
        have : e = .NotImplementedError := by simpa using h
        subst this
        simp [unkFlds, serField_nie v hv]
      | ok r =>
        simp only [hv] at h
        cases hr : serFlds rest with
        | error e =>
          simp only [hr] at h
          have : e = .NotImplementedError := by simpa using h
          subst this
          simp [unkFlds, serFlds_nie rest hr]
        | ok js => cases r <;> simp [hr] at h
end

end SnootyVerif.Schema
