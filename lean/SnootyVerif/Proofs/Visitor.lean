import SnootyVerif.Model.Visitor
namespace SnootyVerif.Visitor

@[simp] theorem T.kind_mk (i : Nat) (k : AKind) (t c : List T) : (T.mk i k t c).kind = k := rfl
@[simp] theorem T.id_mk (i : Nat) (k : AKind) (t c : List T) : (T.mk i k t c).id = i := rfl
@[simp] theorem T.cs_mk (i : Nat) (k : AKind) (t c : List T) : (T.mk i k t c).cs = c := rfl
@[simp] theorem T.term_mk (i : Nat) (k : AKind) (t c : List T) : (T.mk i k t c).term = t := rfl

theorem attach_kind (top p t : T) (h : attach top p = .ok t) : t.kind = top.kind := by
  unfold attach at h
  split at h
  · split at h
    · cases h; rfl
    · cases h
  · split at h
    · cases h; rfl
    · split at h
      · cases h; rfl
      · cases h; rfl

theorem attach_id (top p t : T) (h : attach top p = .ok t) : t.id = top.id := by
  unfold attach at h
  split at h
  · split at h
    · cases h; rfl
    · cases h
  · split at h
    · cases h; rfl
    · split at h
      · cases h; rfl
      · cases h; rfl

@[simp] theorem attachT_kind (top p : T) : (attachT top p).kind = top.kind := by
  unfold attachT
  split
  · next t h => exact attach_kind _ _ _ h
  · rfl

@[simp] theorem attachT_id (top p : T) : (attachT top p).id = top.id := by
  unfold attachT
  split
  · next t h => exact attach_id _ _ _ h
  · rfl

@[simp] theorem attachAllT_kind (ps : List T) (top : T) : (attachAllT top ps).kind = top.kind := by
  induction ps generalizing top with
  | nil => rfl
  | cons p ps ih => simp [attachAllT, ih]

@[simp] theorem attachAllT_id (ps : List T) (top : T) : (attachAllT top ps).id = top.id := by
  induction ps generalizing top with
  | nil => rfl
  | cons p ps ih => simp [attachAllT, ih]

theorem attachAllT_append (a b : List T) (top : T) : attachAllT top (a ++ b) = attachAllT (attachAllT top a) b := by
  induction a generalizing top with
  | nil => rfl
  | cons p ps ih => simp [attachAllT, ih]

/-- `attach` raises only for a term handed to something that is not a definition list item -/
theorem attach_ok (top p : T) (h : p.kind = .term → top.kind = .dlItem) : attach top p = .ok (attachT top p) := by
  unfold attachT
  cases hh : attach top p with
  | ok t => rfl
  | error e =>
    exfalso
    unfold attach at hh
    split at hh
    · next hk =>
      rw [if_pos (h hk)] at hh
      cases hh
    · split at hh
      · cases hh
      · split at hh <;> cases hh

theorem attach_error (top p : T) (e : Err) (h : attach top p = .error e) : e = .assertionError ∧ p.kind = .term ∧ top.kind ≠ .dlItem := by
  unfold attach at h
  split at h
  · next hk =>
    split at h
    · cases h
    · next hn => cases h; exact ⟨rfl, hk, hn⟩
  · split at h
    · cases h
    · split at h <;> cases h

theorem depart_two (popped top : T) (rest : List T) :
    depart false (popped :: top :: rest) = (attach top popped).map (· :: rest) := by
  unfold depart
  simp

theorem depart_skip (st : List T) : depart true st = .ok st := by
  unfold depart
  simp

theorem kindCond {k host : AKind} (h : (k != .term || host == .dlItem) = true) : k = .term → host = .dlItem := by
  intro hk
  subst hk
  simpa using h

mutual
/-- **the visitor's stack is a faithful tree builder**: on a doctree all of whose nodes had a balanced outcome (and whose
terms sit in definition list items) the walk never fails, leaves the stack below the current node untouched, and adds to
the current node exactly the nodes of the stack-free specification, in document order. -/
theorem walk_spec : ∀ (d : DNode) (top : T) (rest : List T), balanced d = true → termsOk top.kind d = true →
    walk (top :: rest) d = .ok (attachAllT top (emit d) :: rest)
  | .mk id pushes exit kind dskip cs, top, rest, hb, ht => by
    unfold balanced at hb
    simp only [Bool.and_eq_true] at hb
    obtain ⟨ho, hcs⟩ := hb
    unfold termsOk at ht
    cases exit with
    | skipNode =>
      have hp : pushes = 0 := by simpa [balancedOutcome] using ho
      subst hp
      simp [walk, emit, pushN, attachAllT]
    | skipDeparture =>
      have hp : pushes = 0 := by simpa [balancedOutcome] using ho
      subst hp
      simp only [] at ht
      have ih := walkL_spec cs top rest hcs ht
      simp [walk, emit, pushN, ih]
    | skipChildren =>
      have hp : pushes = 1 ∧ dskip = false := by simpa [balancedOutcome] using ho
      obtain ⟨hp, hd⟩ := hp
      subst hp; subst hd
      simp only [] at ht
      have hk : (T.mk id kind [] []).kind = .term → top.kind = .dlItem := by
        intro h
        simp at h
        subst h
        simpa using ht
      simp [walk, emit, pushN, depart_two, attach_ok _ _ hk, attachAllT, Except.map]
    | normal =>
      simp only [balancedOutcome, Bool.or_eq_true, Bool.and_eq_true, beq_iff_eq, Bool.not_eq_true'] at ho
      rcases ho with ⟨hp, hd⟩ | ⟨hp, hd⟩
      · subst hp
        subst hd
        have ht' : (kind != .term || top.kind == .dlItem) = true ∧ termsOkL kind cs = true := by
          simpa using ht
        have ih := walkL_spec cs (.mk id kind [] []) (top :: rest) hcs (by simpa using ht'.2)
        have hk : (attachAllT (T.mk id kind [] []) (emitL cs)).kind = .term → top.kind = .dlItem := by
          intro h
          simp at h
          exact kindCond ht'.1 h
        simp [walk, emit, pushN, ih, Except.bind, depart_two, attach_ok _ _ hk, attachAllT, Except.map]
      · subst hp; subst hd
        have ht' : termsOkL top.kind cs = true := by simpa using ht
        have ih := walkL_spec cs top rest hcs ht'
        simp [walk, emit, pushN, ih, Except.bind, depart_skip]
theorem walkL_spec : ∀ (ds : List DNode) (top : T) (rest : List T), balancedL ds = true → termsOkL top.kind ds = true →
    walkL (top :: rest) ds = .ok (attachAllT top (emitL ds) :: rest)
  | [], top, rest, _, _ => by simp [walkL, emitL, attachAllT]
  | d :: ds, top, rest, hb, ht => by
    unfold balancedL at hb
    unfold termsOkL at ht
    simp only [Bool.and_eq_true] at hb ht
    have h1 := walk_spec d top rest hb.1 ht.1
    have h2 := walkL_spec ds (attachAllT top (emit d)) rest hb.2 (by simpa using ht.2)
    simp [walkL, emitL, h1, Except.bind, h2, attachAllT_append]
end

end SnootyVerif.Visitor

namespace SnootyVerif.Visitor

/-! ### the document node: the stack starts empty, the root stays on it -/

theorem walkDoc_spec (id : Nat) (kind : AKind) (cs : List DNode) (hb : balancedL cs = true) (ht : termsOkL kind cs = true) :
    walkDoc (.mk id 1 .normal kind false cs) = .ok (attachAllT (.mk id kind [] []) (emitL cs)) := by
  have h := walkL_spec cs (.mk id kind [] []) [] hb (by simpa using ht)
  simp [walkDoc, walk, pushN, h, Except.bind, depart]

/-! ### ids -/

theorem idsL_append (a b : List T) : idsL (a ++ b) = idsL a ++ idsL b := by
  induction a with
  | nil => simp [idsL]
  | cons t ts ih => simp [idsL, ih]

theorem T.ids_eq (t : T) : t.ids = t.id :: (idsL t.term ++ idsL t.cs) := by
  cases t; simp [T.ids]

/-- attaching never invents a node: every id afterwards was in the host or in the attached node -/
theorem attachT_ids_mem (top p : T) (i : Nat) (h : i ∈ (attachT top p).ids) : i ∈ top.ids ∨ i ∈ p.ids := by
  unfold attachT at h
  cases hh : attach top p with
  | error e => rw [hh] at h; exact Or.inl h
  | ok t =>
    rw [hh] at h
    simp only [] at h
    unfold attach at hh
    split at hh
    · split at hh
      · cases hh
        rw [T.ids] at h
        rw [T.ids_eq top, T.ids_eq p]
        simp only [List.mem_cons, List.mem_append] at h ⊢
        rcases h with h | h | h
        · exact Or.inl (Or.inl h)
        · exact Or.inr (Or.inr (Or.inr h))
        · exact Or.inl (Or.inr (Or.inr h))
      · cases hh
    · split at hh
      · cases hh; exact Or.inl h
      · split at hh
        · cases hh; exact Or.inl h
        · cases hh
          rw [T.ids, idsL_append] at h
          rw [T.ids_eq top]
          simp only [List.mem_cons, List.mem_append, idsL, List.append_nil] at h ⊢
          rcases h with h | h | h | h
          · exact Or.inl (Or.inl h)
          · exact Or.inl (Or.inr (Or.inl h))
          · exact Or.inl (Or.inr (Or.inr h))
          · exact Or.inr h

theorem attachAllT_ids_mem (ps : List T) (top : T) (i : Nat) (h : i ∈ (attachAllT top ps).ids) : i ∈ top.ids ∨ i ∈ idsL ps := by
  induction ps generalizing top with
  | nil => exact Or.inl h
  | cons p ps ih =>
    simp only [attachAllT] at h
    rcases ih _ h with h1 | h1
    · rcases attachT_ids_mem _ _ _ h1 with h2 | h2
      · exact Or.inl h2
      · exact Or.inr (by simp [idsL, h2])
    · exact Or.inr (by simp [idsL, h1])

mutual
/-- every AST node comes from a doctree node of the subtree it was built from -/
theorem emit_ids_mem : ∀ (d : DNode) (i : Nat), i ∈ idsL (emit d) → i ∈ d.ids
  | .mk id pushes exit kind dskip cs, i, h => by
    unfold emit at h
    rw [DNode.ids]
    cases exit with
    | skipNode => simp [idsL] at h
    | skipDeparture => exact List.mem_cons_of_mem _ (emitL_ids_mem cs i h)
    | skipChildren =>
      simp only [] at h
      split at h
      · simp [idsL] at h
      · simp [idsL, T.ids] at h; simp [h]
    | normal =>
      simp only [] at h
      split at h
      · exact List.mem_cons_of_mem _ (emitL_ids_mem cs i h)
      · simp only [idsL, List.append_nil] at h
        rcases attachAllT_ids_mem _ _ _ h with h1 | h1
        · simp [T.ids, idsL] at h1; simp [h1]
        · exact List.mem_cons_of_mem _ (emitL_ids_mem cs i h1)
theorem emitL_ids_mem : ∀ (ds : List DNode) (i : Nat), i ∈ idsL (emitL ds) → i ∈ dIdsL ds
  | [], i, h => by simp [emitL, idsL] at h
  | d :: ds, i, h => by
    unfold emitL at h
    rw [idsL_append] at h
    rw [dIdsL]
    rcases List.mem_append.mp h with h | h
    · exact List.mem_append.mpr (Or.inl (emit_ids_mem d i h))
    · exact List.mem_append.mpr (Or.inr (emitL_ids_mem ds i h))
end

/-! ### document order, for hosts that keep what they are handed (`Parent` nodes; childless leaves) -/

def noTerm (ps : List T) : Prop := ∀ p ∈ ps, p.kind ≠ .term

theorem attachAllT_parent_ids (ps : List T) (top : T) (hk : top.kind = .parent) (hp : noTerm ps) :
    (attachAllT top ps).ids = top.ids ++ idsL ps := by
  induction ps generalizing top with
  | nil => simp [attachAllT, idsL]
  | cons p ps ih =>
    have hpk : p.kind ≠ .term := hp p (by simp)
    have hat : attachT top p = .mk top.id top.kind top.term (top.cs ++ [p]) := by
      unfold attachT attach
      simp [hpk, hk]
    have hk' : (attachT top p).kind = .parent := by simp [hk]
    rw [attachAllT, ih _ hk' (fun q hq => hp q (List.mem_cons_of_mem _ hq)), hat]
    rw [T.ids, idsL_append, T.ids_eq top]
    simp [idsL]

mutual
theorem emit_noTerm : ∀ (d : DNode), plain d = true → noTerm (emit d)
  | .mk id pushes exit kind dskip cs, h => by
    unfold plain at h
    simp only [Bool.and_eq_true, Bool.or_eq_true, beq_iff_eq] at h
    unfold emit
    cases exit with
    | skipNode => intro p hp; simp at hp
    | skipDeparture => exact emitL_noTerm cs h.2
    | skipChildren =>
      simp only []
      split
      · intro p hp; simp at hp
      · intro p hp
        simp at hp; subst hp
        rcases h.1 with hk | hk <;> simp [hk]
    | normal =>
      simp only []
      split
      · exact emitL_noTerm cs h.2
      · intro p hp
        simp at hp; subst hp
        rcases h.1 with hk | hk <;> simp [hk]
theorem emitL_noTerm : ∀ (ds : List DNode), plainL ds = true → noTerm (emitL ds)
  | [], _ => by intro p hp; simp [emitL] at hp
  | d :: ds, h => by
    unfold plainL at h
    simp only [Bool.and_eq_true] at h
    intro p hp
    unfold emitL at hp
    rcases List.mem_append.mp hp with hp | hp
    · exact emit_noTerm d h.1 p hp
    · exact emitL_noTerm ds h.2 p hp
end

mutual
/-- **reading order**: on plain trees the ids of the AST, read depth-first, are a subsequence of the ids of the doctree
read depth-first — nothing is reordered, nothing appears twice -/
theorem emit_ids_sublist : ∀ (d : DNode), plain d = true → (idsL (emit d)).Sublist d.ids
  | .mk id pushes exit kind dskip cs, h => by
    have h0 := h
    unfold plain at h
    simp only [Bool.and_eq_true, Bool.or_eq_true, beq_iff_eq] at h
    unfold emit
    rw [DNode.ids]
    cases exit with
    | skipNode => simp [idsL]
    | skipDeparture => exact List.Sublist.cons _ (emitL_ids_sublist cs h.2)
    | skipChildren =>
      simp only []
      split
      · simp [idsL]
      · simp [idsL, T.ids]
    | normal =>
      simp only []
      split
      · exact List.Sublist.cons _ (emitL_ids_sublist cs h.2)
      · simp only [idsL, List.append_nil]
        rcases h.1 with hk | ⟨hk, hc⟩
        · rw [attachAllT_parent_ids _ _ (by simp [hk]) (emitL_noTerm cs h.2)]
          simp only [T.ids, idsL, List.append_nil, List.nil_append, List.cons_append]
          exact List.Sublist.cons_cons _ (emitL_ids_sublist cs h.2)
        · have : cs = [] := by simpa using hc
          subst this
          simp [emitL, attachAllT, T.ids, idsL, dIdsL]
theorem emitL_ids_sublist : ∀ (ds : List DNode), plainL ds = true → (idsL (emitL ds)).Sublist (dIdsL ds)
  | [], _ => by simp [emitL, idsL, dIdsL]
  | d :: ds, h => by
    unfold plainL at h
    simp only [Bool.and_eq_true] at h
    unfold emitL
    rw [idsL_append, dIdsL]
    exact List.Sublist.append (emit_ids_sublist d h.1) (emitL_ids_sublist ds h.2)
end

end SnootyVerif.Visitor

namespace SnootyVerif.Visitor

/-! ### no `_DefinitionListTerm` survives (C04) -/

theorem cleanL_append (a b : List T) : cleanL (a ++ b) = (cleanL a && cleanL b) := by
  induction a with
  | nil => simp [cleanL]
  | cons t ts ih => simp [cleanL, ih, Bool.and_assoc]

theorem T.clean_eq (t : T) : t.clean = (t.kind != .term && t.cleanBelow) := by
  cases t; simp [T.clean, T.cleanBelow, Bool.and_assoc]

theorem T.cleanBelow_eq (t : T) : t.cleanBelow = (cleanL t.term && cleanL t.cs) := by
  cases t; simp [T.cleanBelow]

/-- what a host may be handed: nothing of kind `term` below it, and a term only if the host is a definition list item -/
def okItem (host : AKind) (x : T) : Prop := x.cleanBelow = true ∧ (x.kind = .term → host = .dlItem)

theorem attachT_cleanBelow (top p : T) (ht : top.cleanBelow = true) (hp : okItem top.kind p) : (attachT top p).cleanBelow = true := by
  obtain ⟨hpc, hpk⟩ := hp
  unfold attachT attach
  by_cases hk : p.kind = .term
  · have hd := hpk hk
    simp only [hk, hd, if_true]
    rw [T.cleanBelow_eq] at ht hpc ⊢
    simp only [Bool.and_eq_true] at ht hpc ⊢
    exact ⟨hpc.2, ht.2⟩
  · simp only [hk, if_false]
    by_cases h1 : top.kind = .noChildren
    · simpa [h1] using ht
    · by_cases h2 : top.kind = .leaf
      · simpa [h1, h2] using ht
      · simp only [h1, h2, if_false]
        simp only [T.cleanBelow, cleanL_append, cleanL, Bool.and_true, Bool.and_eq_true]
        rw [T.cleanBelow_eq] at ht
        simp only [Bool.and_eq_true] at ht
        refine ⟨ht.1, ht.2, ?_⟩
        rw [T.clean_eq]
        simp [hk, hpc]

theorem attachAllT_cleanBelow (ps : List T) (top : T) (ht : top.cleanBelow = true) (hp : ∀ p ∈ ps, okItem top.kind p) :
    (attachAllT top ps).cleanBelow = true := by
  induction ps generalizing top with
  | nil => exact ht
  | cons p ps ih =>
    rw [attachAllT]
    apply ih
    · exact attachT_cleanBelow top p ht (hp p (by simp))
    · intro q hq
      rw [attachT_kind]
      exact hp q (List.mem_cons_of_mem _ hq)

mutual
theorem emit_okItem : ∀ (d : DNode) (host : AKind), termsOk host d = true → ∀ x ∈ emit d, okItem host x
  | .mk id pushes exit kind dskip cs, host, ht => by
    unfold termsOk at ht
    unfold emit
    cases exit with
    | skipNode => intro x hx; simp at hx
    | skipDeparture => exact emitL_okItem cs host ht
    | skipChildren =>
      simp only [] at ht ⊢
      split
      · intro x hx; simp at hx
      · next hp =>
        intro x hx
        simp at hx; subst hx
        refine ⟨by simp [T.cleanBelow, cleanL], ?_⟩
        intro hk
        simp at hk
        subst hk
        have : pushes ≠ 0 := hp
        simpa [this] using ht
    | normal =>
      simp only [] at ht ⊢
      split
      · next hp =>
        subst hp
        exact emitL_okItem cs host (by simpa using ht)
      · next hp =>
        have hp' : (pushes == 0) = false := by simpa using hp
        simp only [hp', Bool.false_eq_true, if_false, Bool.and_eq_true] at ht
        intro x hx
        simp at hx; subst hx
        refine ⟨?_, ?_⟩
        · apply attachAllT_cleanBelow
          · simp [T.cleanBelow, cleanL]
          · intro p hp2
            simpa using emitL_okItem cs kind ht.2 p hp2
        · intro hk
          simp at hk
          exact kindCond ht.1 hk
theorem emitL_okItem : ∀ (ds : List DNode) (host : AKind), termsOkL host ds = true → ∀ x ∈ emitL ds, okItem host x
  | [], _, _ => by intro x hx; simp [emitL] at hx
  | d :: ds, host, ht => by
    unfold termsOkL at ht
    simp only [Bool.and_eq_true] at ht
    intro x hx
    unfold emitL at hx
    rcases List.mem_append.mp hx with hx | hx
    · exact emit_okItem d host ht.1 x hx
    · exact emitL_okItem ds host ht.2 x hx
end

/-- the root the specification builds holds no bookkeeping node -/
theorem spec_clean (id : Nat) (kind : AKind) (cs : List DNode) (hk : kind ≠ .term) (ht : termsOkL kind cs = true) :
    (attachAllT (.mk id kind [] []) (emitL cs)).clean = true := by
  rw [T.clean_eq]
  have h := attachAllT_cleanBelow (emitL cs) (.mk id kind [] []) (by simp [T.cleanBelow, cleanL])
    (by intro p hp; simpa using emitL_okItem cs kind ht p hp)
  simp [h, hk]

end SnootyVerif.Visitor
