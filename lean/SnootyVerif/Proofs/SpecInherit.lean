import SnootyVerif.Model.SpecInherit

/-! Helper lemmas for C16 (`Spec._resolve_category` model). -/
namespace SnootyVerif.SpecInherit

theorem nodup_subset_length {α} [DecidableEq α] : ∀ (l m : List α), l.Nodup → (∀ x ∈ l, x ∈ m) →
    l.length ≤ m.length
  | [], m, _, _ => by simp
  | a :: l, m, hnd, hsub => by
    have ha : a ∈ m := hsub a List.mem_cons_self
    have hnd' := List.nodup_cons.mp hnd
    have hsub' : ∀ x ∈ l, x ∈ m.erase a := by
      intro x hx
      have hne : x ≠ a := fun h => hnd'.1 (h ▸ hx)
      exact (List.mem_erase_of_ne hne).mpr (hsub x (List.mem_cons_of_mem _ hx))
    have ih := nodup_subset_length l (m.erase a) hnd'.2 hsub'
    have hlen := List.length_erase_of_mem ha
    have hpos : 0 < m.length := List.length_pos_of_mem ha
    simp only [List.length_cons]
    omega

theorem keys_setEntry (idx : Index) (k : String) (e : Entry) : keys (setEntry idx k e) = keys idx := by
  unfold keys setEntry
  rw [List.map_map]
  apply List.map_congr_left
  intro kv _
  simp only [Function.comp]
  split <;> rfl

theorem lookup_some_mem_keys : ∀ (idx : Index) (p : String) (pe : Entry), lookup idx p = some pe → p ∈ keys idx
  | [], p, pe, h => by simp [lookup] at h
  | (k, e) :: rest, p, pe, h => by
    simp only [lookup] at h
    simp only [keys, List.map_cons, List.mem_cons]
    split at h
    · rename_i hk; exact Or.inl hk.symm
    · exact Or.inr (lookup_some_mem_keys rest p pe h)

theorem resolveValue_keys : ∀ (fuel : Nat) (idx : Index) (pending resolved : List String) (key : String)
    (e : Entry) (idx' : Index) (r' : List String) (out : Entry),
    resolveValue fuel idx pending resolved key e = .ok (idx', r', out) → keys idx' = keys idx
  | 0, idx, pending, resolved, key, e, idx', r', out, h => by simp [resolveValue] at h
  | fuel + 1, idx, pending, resolved, key, e, idx', r', out, h => by
    simp only [resolveValue] at h
    split at h
    · cases h
    · split at h
      · cases h; rfl
      · split at h
        · cases h; rfl
        · split at h
          · cases h
          · split at h
            · cases h
            · rename_i idx₁ r₁ base hrec
              cases h
              rw [keys_setEntry]
              exact resolveValue_keys fuel idx _ _ _ _ idx₁ r₁ base hrec

theorem resolveValue_no_fuel : ∀ (fuel : Nat) (idx : Index) (pending resolved : List String) (key : String)
    (e : Entry), pending.Nodup → (∀ x ∈ pending, x ∈ keys idx) → key ∈ keys idx →
    (keys idx).length + 1 ≤ fuel + pending.length →
    resolveValue fuel idx pending resolved key e ≠ .error .fuel
  | 0, idx, pending, resolved, key, e, hnd, hsub, _, hb => by
    have := nodup_subset_length pending (keys idx) hnd hsub
    omega
  | fuel + 1, idx, pending, resolved, key, e, hnd, hsub, hkey, hb => by
    simp only [resolveValue]
    split
    · intro h; cases h
    · rename_i hnp
      split
      · intro h; cases h
      · split
        · intro h; cases h
        · rename_i p hp
          split
          · intro h; cases h
          · rename_i pe hpe
            have ih := resolveValue_no_fuel fuel idx (key :: pending) resolved p pe
              (List.nodup_cons.mpr ⟨hnp, hnd⟩)
              (by intro x hx
                  cases hx with
                  | head => exact hkey
                  | tail _ hx' => exact hsub x hx')
              (lookup_some_mem_keys idx p pe hpe)
              (by simp only [List.length_cons]; omega)
            split
            · rename_i err herr
              intro h
              cases h
              exact ih herr
            · intro h; cases h

theorem resolveLoop_no_fuel (fuel : Nat) : ∀ (items : List (String × Entry)) (idx : Index) (resolved : List String),
    (∀ kv ∈ items, kv.1 ∈ keys idx) → (keys idx).length + 1 ≤ fuel →
    resolveLoop fuel items idx resolved ≠ .error .fuel
  | [], idx, resolved, _, _ => by simp [resolveLoop]
  | (k, e) :: rest, idx, resolved, hmem, hb => by
    simp only [resolveLoop]
    split
    · rename_i err herr
      intro h
      cases h
      exact resolveValue_no_fuel fuel idx [] resolved k e List.nodup_nil (by simp)
        (hmem (k, e) List.mem_cons_self) (by simpa using hb) herr
    · rename_i idx' r' out hok
      have hk := resolveValue_keys fuel idx [] resolved k e idx' r' out hok
      exact resolveLoop_no_fuel fuel rest idx' r'
        (by intro kv hkv; rw [hk]; exact hmem kv (List.mem_cons_of_mem _ hkv))
        (by rw [hk]; exact hb)

theorem resolveCategory_no_fuel (idx : Index) : resolveCategory idx ≠ .error .fuel := by
  unfold resolveCategory
  split
  · rename_i e he
    intro h
    cases h
    exact resolveLoop_no_fuel (idx.length + 1) idx idx []
      (by intro kv hkv; exact List.mem_map.mpr ⟨kv, hkv, rfl⟩)
      (by simp [keys]) he
  · intro h; cases h

theorem mergeFields_get : ∀ (cs bs : List (Option String)) (i : Nat) (hc : i < cs.length) (hb : i < bs.length),
    (mergeFields cs bs)[i]? = some (match cs[i] with | some x => some x | none => bs[i])
  | [], bs, i, hc, _ => by simp at hc
  | c :: cs, [], i, _, hb => by simp at hb
  | c :: cs, b :: bs, 0, _, _ => by simp [mergeFields]; cases c <;> rfl
  | c :: cs, b :: bs, i + 1, hc, hb => by
    simp only [mergeFields, List.getElem?_cons_succ, List.getElem_cons_succ]
    exact mergeFields_get cs bs i (by simpa using hc) (by simpa using hb)

end SnootyVerif.SpecInherit
